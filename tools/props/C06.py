# -*- coding: utf-8 -*-
"""C06 - arithmetic and concatenation.  Model: coq/Model/Operators.v + Gen/ConvTable.v.  Theorems: Properties/C06.v."""
import datetime
import os
import re
import sys
from fractions import Fraction

from common import Result, pmap, compare, enc_value, dec_outcome, canon_py, VERIF, thaw, ERR

ID = 'C06'
COQ_FILES = ['Properties/C06.v', 'Proofs/OperatorsProofs.v', 'Gen/ConvTable.v']
TRUSTED = [
    'Gen/ConvTable.v is regenerated on every run by tools/gen/convtable.py from the live IMPLICIT_DATA_TYPE_CONVERSIONS '
    '(converter identities probed on the live objects; anything not understood makes conv_gen_ok false)',
    'ideal arithmetic: floats are the exact rationals they denote; a single float operation is compared as '
    'float(exact result) (IEEE correct rounding), multi-rounding chains are avoided by the operand pool',
    'text operands are resolved by an oracle: the number int()/float() reads, or the date dateutil reads, is handed to the '
    'model (Python number syntax and dateutil are not modelled); str() of ints for &',
]
EXPLANATION = ('Coq theorems over a model of evaluate_arithmetic that INTERPRETS the generated conversion table: the table is '
               'the reference classification (finite check), each operand acts through its numeric value (numbers, TRUE/FALSE '
               '1/0, blank 0, dates their serial), the result is the exact arithmetic, a date exactly where the table says, '
               '#NUM! before 1900, #VALUE! for other text, #DIV/0! for a zero divisor, + and * commutative on scalars, arrays '
               'element-wise with scalars and equal-length arrays, #VALUE! on a mismatch (partial: a one-element array is '
               'broadcast - refuted witness, known finding), & joins text / integer digits / blank. Tied to operators.py by all '
               'ordered pairs of an operand pool x 5 operators through Parser.parse and an independent oracle.')
ASSUMPTIONS = ['operands: ints, dyadic floats, logicals, blank, numeric and non-numeric text, dates/date-times with exactly '
               'representable serials, flat/nested arrays of those']

OPS = ['+', '-', '*', '/', '&']
D0 = datetime.date(1899, 12, 30).toordinal()
NUM_RE = re.compile(r'[+-]?([0-9]+\.?[0-9]*|\.[0-9]+)([eE][+-]?[0-9]+)?$')       # digits, optional point and exponent: what int() / float() read


def gen(ctx):
    sys.path.insert(0, os.path.join(VERIF, 'tools', 'gen'))
    import convtable
    changed = convtable.write(os.path.join(VERIF, 'coq', 'Gen', 'ConvTable.v'))
    return {'Gen/ConvTable.v': 'regenerated (changed)' if changed else 'regenerated (identical to the committed baseline)'}


def pool():
    dt = datetime.datetime
    scal = [0, 1, -1, 2, 7, -13, 2 ** 53 + 1, 10 ** 20, 0.5, -0.5, 2.5, 0.25, 1.0, 1024.0, 0.0, True, False, None,
            '12', '-3', '2.5', '0.25', '007', 'abc', '', '1e3x', '9007199254740993', '-123456789012345678901234567890',
            'abc%', '%', '50%', 'growth in %', 'room 12', 'x1', 'item 7 of 9', 'total: 5', 'see march notes', '2020-01-15', '2021-03-05 06:00', '12.0', '7.', '1e2',
            ERR('#DIV/0!'), ERR('#N/A'),
            dt(1900, 1, 1), dt(1900, 3, 1), dt(2020, 1, 1), dt(2020, 1, 1, 12), dt(2020, 2, 29, 6), dt(9999, 12, 31)]
    arrs = [[1, 2, 3], [9], [], [1, 2], [[1, 2], [3, 4]], [1, 'a', None], [0.5, True, '2'], [dt(2020, 1, 1), 5], [1, [2, 3]],
            [[10, 20]], [[10, 20, 30]], [[1, 2, 3, 4]], [[7]], [[]]]      # one-row blocks (what a single-row range delivers)
    return scal, arrs


def resolve(v):
    """What value_and_type makes of a text operand (oracle for the model): number, date or the text itself."""
    from hotxlfp.formulas import utils, error
    if isinstance(v, str):
        # Python's own number syntax (what helper.number.to_number is documented to apply): int(), else float()
        try:
            return int(v)
        except ValueError:
            try:
                return float(v)
            except ValueError:
                pass
        # a date only if dateutil itself (strict, not fuzzy) reads the whole text as one - asked of dateutil directly, not
        # of the code under test
        from dateutil.parser import parse as du_parse
        try:
            return du_parse(v)
        except (ValueError, OverflowError):
            return v
    if isinstance(v, list):
        return [resolve(x) for x in v]
    return v


def enc_case(c):
    op, a, b = c
    a, b = thaw(a), thaw(b)
    if op == 4:
        return [4] + enc_value(a) + enc_value(b)
    return [op] + enc_value(resolve(a)) + enc_value(resolve(b))


def _impl(c):
    import hotxlfp
    op, a, b = c
    p = hotxlfp.Parser()
    p.set_variable('va', thaw(a))
    p.set_variable('vb', thaw(b))
    r = p.parse('va%svb' % OPS[op])
    if r['error'] is not None:
        return ('E', r['error'])
    return ('R', canon_py(r['result']))


def same(m, i):
    """model canonical value vs implementation canonical value (floats: single correct rounding)"""
    if m[0] == 'F' and i[0] == 'F':
        if isinstance(i[1], str):
            return False
        try:
            if Fraction(float(m[1])) == i[1]:
                return True
        except OverflowError:
            return False
        # an int beyond 2^53 mixed with a float is converted to float first: two roundings (the float caveat)
        return abs(m[1] - i[1]) <= abs(m[1]) * Fraction(1, 2 ** 51)
    if m[0] == 'D' and i[0] == 'D' and m != i:
        # inexact quotients/products reach the datetime through float seconds: compare to half a millisecond
        try:
            return abs((datetime.datetime(*m[1:]) - datetime.datetime(*i[1:])).total_seconds()) <= 0.0005
        except ValueError:
            return False
    if m[0] == 'L' and i[0] == 'L':
        return len(m[1]) == len(i[1]) and all(same(x, y) for x, y in zip(m[1], i[1]))
    return m == i


def eq_outcome(model, impl):
    o = dec_outcome(model)
    if o[0] == 'EXC':
        return impl == ('E', '#ERROR!')
    if o[0] == 'RAISE':
        return impl == ('E', o[1])
    v = o[1]
    if v[0] == 'E':
        return impl == ('E', v[1])
    return impl[0] == 'R' and same(v, impl[1])


# ---------------- independent oracle ----------------
def numval(v):
    """numeric value of a scalar operand by the property's reading; None if it has none"""
    if isinstance(v, bool):
        return Fraction(int(v))
    if isinstance(v, (int, float)):
        return Fraction(v)
    if v is None:
        return Fraction(0)
    if isinstance(v, str) and NUM_RE.match(v):
        return Fraction(v)
    if isinstance(v, datetime.datetime):
        mid = datetime.datetime(v.year, v.month, v.day)
        frac = Fraction((v - mid) // datetime.timedelta(microseconds=1), 86400000000)
        if v == datetime.datetime(1900, 1, 1):
            return Fraction(0)
        return Fraction(v.toordinal() - D0 - (1 if v < datetime.datetime(1900, 3, 1) else 0)) + frac
    return None


def kind(v):
    if isinstance(v, datetime.datetime):
        return 'date'
    if v is None:
        return 'blank'
    return 'num'


def date_result(op, a, b):
    ka, kb = kind(a), kind(b)
    if (ka == 'date') == (kb == 'date'):
        return False
    if op == 3 and 'blank' in (ka, kb):
        return False
    return True


def close(x, exact):
    if isinstance(x, bool) or not isinstance(x, (int, float)):
        return False
    fx = Fraction(x)
    if fx == exact:
        return True
    return isinstance(x, float) and abs(fx - exact) <= abs(exact) * Fraction(1, 2 ** 50)


def check_pair(c):
    op, a, b = c
    import hotxlfp
    p = hotxlfp.Parser()
    p.set_variable('va', a)
    p.set_variable('vb', b)
    r = p.parse('va%svb' % OPS[op])
    got = r['result'] if r['error'] is None else ('ERR', r['error'])
    out = []
    f = '%r %s %r' % (a, OPS[op], b)
    if op == 4:
        def txt(v):
            if v is None:
                return ''
            if isinstance(v, str):
                return v
            if isinstance(v, int) and not isinstance(v, bool):
                return str(v)
            return None
        ta, tb = txt(a), txt(b)
        if ta is not None and tb is not None and got != ta + tb:
            out.append((f, None, ta + tb, got))
        return out
    if isinstance(a, list) or isinstance(b, list):
        return out
    x, y = numval(a), numval(b)
    if x is None or y is None:
        # text that is not a number: #VALUE! unless dateutil reads it as a date (oracle, not checked here)
        for v in (a, b):
            if isinstance(v, str) and numval(v) is None and not isinstance(resolve(v), datetime.datetime):
                if got != ('ERR', '#VALUE!'):
                    out.append((f, None, '#VALUE!', got))
                break
        return out
    if op == 3 and y == 0:
        if got != ('ERR', '#DIV/0!'):
            out.append((f, None, '#DIV/0!', got))
        return out
    exact = [x + y, x - y, x * y, (x / y) if y != 0 else None][op]
    if date_result(op, a, b):
        if exact < 0:
            if got != ('ERR', '#NUM!'):
                out.append((f, None, '#NUM!', got))
        elif exact >= 61 and exact < 2958466:
            whole = exact.numerator // exact.denominator
            want = datetime.datetime.fromordinal(whole + D0) + datetime.timedelta(microseconds=float((exact - whole) * 86400000000))
            if not isinstance(got, datetime.datetime) or abs((got - want).total_seconds()) > 0.0005:
                out.append((f, None, want, got))
    else:
        if not close(got, exact):
            out.append((f, None, float(exact), got))
    # commutativity
    if op in (0, 2):
        r2 = p.parse('vb%sva' % OPS[op])
        got2 = r2['result'] if r2['error'] is None else ('ERR', r2['error'])
        if canon_py(got2) != canon_py(got):
            out.append((f + ' is not commutative', None, got, got2))
    return out


def flat_scalars(l):
    return isinstance(l, list) and all(not isinstance(x, list) for x in l)


def norm(v):
    return [('ERR', str(x)) if type(x).__name__ == 'XLError' else x for x in v] if isinstance(v, list) else v


def check_array(c):
    op, a, b = c
    import hotxlfp
    out = []

    def ev(x, y):
        p = hotxlfp.Parser()
        p.set_variable('va', x)
        p.set_variable('vb', y)
        r = p.parse('va%svb' % OPS[op])
        return r['result'] if r['error'] is None else ('ERR', r['error'])
    got = ev(a, b)
    f = '%r %s %r' % (a, OPS[op], b)
    if flat_scalars(a) and not isinstance(b, list):
        want = [ev(x, b) for x in a]
    elif flat_scalars(b) and not isinstance(a, list):
        want = [ev(a, y) for y in b]
    elif flat_scalars(a) and flat_scalars(b):
        if len(a) == len(b):
            want = [ev(x, y) for x, y in zip(a, b)]
        else:
            want = ('ERR', '#VALUE!')
    elif isinstance(a, list) and isinstance(b, list) and len(a) != len(b):
        want = ('ERR', '#VALUE!')       # nested arrays: a mismatch at the top level, whatever the elements are
    else:
        return out
    cls = None
    if isinstance(a, list) and isinstance(b, list) and len(a) != len(b) and 1 in (len(a), len(b)):
        one, other = (a, b) if len(a) == 1 else (b, a)
        # a one-element array is broadcast (known finding) - but when its element is itself an array of yet another
        # length, every reading of the property says #VALUE!
        if not (isinstance(one[0], list) and len(one[0]) != len(other)):
            cls = 'one_element_array_broadcast'
    if isinstance(want, list) and ('ERR', '#ERROR!') in [w for w in want if isinstance(w, tuple)] and got == ('ERR', '#ERROR!'):
        return out          # a Python exception in one element aborts the whole element-wise operation
    if want == ('ERR', '#VALUE!'):
        if got != want:
            out.append((f, cls, '#VALUE!', got))
    else:
        if canon_py(norm(got)) != canon_py(norm(want)):
            out.append((f, cls, want, got))
    if op in (0, 2) and isinstance(a, list) and isinstance(b, list):
        got2 = ev(b, a)
        if canon_py(norm(got2) if isinstance(got2, list) else got2) != canon_py(norm(got) if isinstance(got, list) else got):
            out.append((f + ' is not commutative', cls, got, got2))
    return out


CHECKERS = {'pair': check_pair, 'array': check_array}


def thaw_case(c):
    def t(v):
        if isinstance(v, list) and v and v[0] == 'DT':
            return datetime.datetime(*v[1:])
        if isinstance(v, list):
            return [t(x) for x in v]
        return v
    return (c[0], t(c[1]), t(c[2]))


def freeze(v):
    if isinstance(v, datetime.datetime):
        return ['DT', v.year, v.month, v.day, v.hour, v.minute, v.second, v.microsecond]
    if isinstance(v, list):
        return [freeze(x) for x in v]
    return v


def check_case(case):
    if 'formula' in case:
        import hotxlfp
        r = hotxlfp.Parser().parse(case['formula'])
        if case['formula'] == 'NULL&"x"' and r['result'] != 'x':
            return [{'case': case, 'what': 'blank joined as text', 'class': None, 'expected': 'x', 'observed': r}]
        return []
    for k, fn in CHECKERS.items():
        if k in case:
            return [{'case': case, 'what': w, 'class': cls, 'expected': repr(e), 'observed': repr(g)}
                    for (w, cls, e, g) in fn(thaw_case(case[k]))]
    return []


def _worker(kc):
    k, c = kc
    return [(k, c) + x for x in CHECKERS[k](c)]


def rand_scalar(rng):
    k = rng.randrange(8)
    if k == 0:
        return rng.randint(-1000, 1000)
    if k == 1:
        return rng.randint(-2 ** 40, 2 ** 40) / 2.0 ** rng.randint(0, 12)
    if k == 2:
        return rng.random() < 0.5
    if k == 3:
        return None
    if k == 4:
        return str(rng.randint(-500, 500)) if rng.random() < 0.5 else '%d.%s' % (rng.randint(0, 99), rng.choice(['5', '25', '125', '0', '75']))
    if k == 5:
        return rng.choice(['abc', '', 'x1', 'twelve', '--1', '1 2', 'room 12', 'item 7 of 9', 'see march notes', 'at 5pm sharp', 'no. 3'])
    if k == 6:
        o = rng.randint(datetime.date(1900, 3, 1).toordinal(), datetime.date(9999, 1, 1).toordinal())
        return datetime.datetime.fromordinal(o) + datetime.timedelta(hours=rng.choice([0, 0, 6, 12, 18]))
    return rng.choice([0, 1, 2 ** 53 + 1, -10 ** 18])


def explore(ctx):
    R = Result()
    rng = ctx.rng
    scal, arrs = pool()
    allv = scal + arrs
    cases = [(op, a, b) for a in allv for b in allv for op in range(5)]
    R.exhaustive = True
    nr = 40000 if ctx.thorough else 2500
    for _ in range(nr):
        a, b = rand_scalar(rng), rand_scalar(rng)
        if rng.random() < 0.15:
            a = [rand_scalar(rng) for _ in range(rng.randint(0, 4))]
        if rng.random() < 0.15:
            b = [rand_scalar(rng) for _ in range(rng.randint(0, 4))]
        cases.append((rng.randrange(5), a, b))
    def amp_modelled(v):
        return v is None or isinstance(v, (str, tuple)) or (isinstance(v, int) and not isinstance(v, bool))
    modelled = [c for c in cases if c[0] < 4 or (amp_modelled(c[1]) and amp_modelled(c[2]))]
    R.extra['unmodelled_amp_operands_skipped'] = len(cases) - len(modelled)     # str() of floats/logicals/dates/lists
    compare(R, ctx, 'arith', modelled, enc_case, _impl, key=repr, eq=eq_outcome)
    work = []
    def has_err(v):
        return isinstance(v, tuple) or (isinstance(v, list) and any(has_err(x) for x in v))
    for (op, a, b) in cases:
        if has_err(a) or has_err(b):
            continue            # error operands: correspondence only here, the oracle is C08's
        if isinstance(a, list) or isinstance(b, list):
            if op < 4:
                work.append(('array', (op, a, b)))
        else:
            work.append(('pair', (op, a, b)))
    for vs in pmap(_worker, work):
        for (k, c, w, cls, e, g) in vs:
            R.violate({k: [c[0], freeze(c[1]), freeze(c[2])]}, w, cls, repr(e), repr(g))
    R.evaluations += len(work)
    R.rule = ('all ordered pairs of a %d-value operand pool (ints incl. > 2^53, dyadic floats, logicals, blank, numeric and '
              'non-numeric text, dates/date-times incl. the 1900 boundaries and 9999, flat/nested/empty/one-element arrays) x '
              '{+,-,*,/,&} through Parser.parse vs the model (exhaustive on the pool), plus %d random pairs; oracle: exact '
              'numeric value, date-ness per the reference table, #NUM!/#VALUE!/#DIV/0!, commutativity of + and *, '
              'element-wise arrays, & joins.' % (len(allv), nr))
    return R


def search(ctx, proof, res):
    R = Result()
    rng = ctx.rng
    work = []
    for d in res.disagreements[:100]:
        op, a, b = d['case']
        k = 'array' if isinstance(a, list) or isinstance(b, list) else 'pair'
        if op < 4 or k == 'pair':
            work.append((k, (op, a, b)))
            work.append((k, (op, b, a)))
    for _ in range(60000):
        a, b = rand_scalar(rng), rand_scalar(rng)
        op = rng.randrange(5)
        if rng.random() < 0.2:
            a = [rand_scalar(rng) for _ in range(rng.randint(0, 4))]
            if op < 4:
                work.append(('array', (op, a, b)))
            continue
        work.append(('pair', (op, a, b)))
    for vs in pmap(_worker, work):
        for (k, c, w, cls, e, g) in vs:
            R.violate({k: [c[0], freeze(c[1]), freeze(c[2])]}, w, cls, repr(e), repr(g))
    R.evaluations = len(work)
    return R
