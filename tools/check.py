# -*- coding: utf-8 -*-
"""Parent process of a check: snapshots /repo's working tree into a scratch
directory (ply rewrites its parsetab and Python writes .pyc next to sources, so
the implementation never runs from /repo itself), runs the property in a child
with PYTHONPATH pointing at the snapshot, removes the scratch directory."""
import argparse
import os
import signal
import shutil
import subprocess
import sys
import tempfile

VERIF = os.path.dirname(os.path.dirname(os.path.abspath(__file__)))
REPO = os.environ.get('VERIF_REPO', '/repo')


def main():
    ap = argparse.ArgumentParser()
    ap.add_argument('prop')
    ap.add_argument('--tier', default=os.environ.get('VERIF_TIER', 'quick'), choices=['quick', 'thorough'])
    ap.add_argument('--replay')
    ap.add_argument('--seed', type=int, default=int(os.environ.get('VERIF_SEED', '0') or 0))
    a = ap.parse_args()
    scratch = tempfile.mkdtemp(prefix='hotxlfp-verif.')
    try:
        snap = os.path.join(scratch, 'repo')
        subprocess.check_call(['rsync', '-a', '--exclude', '.git', '--exclude', '__pycache__',
                               '--exclude', '*.pyc', REPO + '/', snap + '/'])
        env = dict(os.environ)
        env.update({'PYTHONPATH': snap + ':' + os.path.join(VERIF, 'tools'), 'PYTHONHASHSEED': '0',
                    'AIDHOUND_HOTXLFP_VERIF': '1', 'VERIF_SNAPSHOT': snap, 'PYTHONDONTWRITEBYTECODE': '1'})
        cmd = [sys.executable, '-m', 'runprop', a.prop, a.tier, str(a.seed), scratch]
        if a.replay:
            cmd += ['--replay', os.path.abspath(a.replay)]
        # own session: workers that outlive the child (a killed pool) must not keep pipes open
        proc = subprocess.Popen(cmd, cwd=snap, env=env, start_new_session=True)
        limit = int(os.environ.get('VERIF_MAX_S', '1500' if a.tier == 'quick' else '7200'))
        try:
            return proc.wait(timeout=limit)
        except subprocess.TimeoutExpired:
            print('check %s: no result after %d s, giving up (harness failure, not a verdict)' % (a.prop, limit))
            return 2
        finally:
            try:
                os.killpg(proc.pid, signal.SIGKILL)
            except OSError:
                pass
    finally:
        shutil.rmtree(scratch, ignore_errors=True)


if __name__ == '__main__':
    sys.exit(main())
