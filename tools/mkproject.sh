#!/bin/bash
# Regenerate coq/_CoqProject (file list) and coq/Makefile when the list changed.
set -e
cd "$(dirname "$0")/../coq"
{
  echo "-Q . HX"
  echo "-arg -w -arg -notation-overridden,-deprecated-syntactic-definition,-deprecated-hint-without-locality,-deprecated-instance-without-locality"
  find Model Gen Proofs Properties Extract -name '*.v' | LC_ALL=C sort
} > _CoqProject.new
if ! cmp -s _CoqProject.new _CoqProject || [ ! -f Makefile ]; then
  mv _CoqProject.new _CoqProject
  coq_makefile -f _CoqProject -o Makefile >/dev/null
else
  rm -f _CoqProject.new
fi
