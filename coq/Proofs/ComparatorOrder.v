(* C07: order-theoretic corollaries of trichotomy and converse, for every pair of values (blank included):
   < is irreflexive and asymmetric, = is reflexive and symmetric, <= and >= are total and antisymmetric up to =. *)
From HX Require Import Model.Value Model.Comparator Proofs.ComparatorProofs.
Open Scope Z_scope.

Lemma exactly_one_cases p q r : exactly_one p q r ->
  (p = true /\ q = false /\ r = false) \/ (p = false /\ q = true /\ r = false) \/ (p = false /\ q = false /\ r = true).
Proof. unfold exactly_one. destruct p, q, r; intuition congruence. Qed.

Theorem lt_irreflexive a : cmp_lt a a = false /\ cmp_gt a a = false /\ cmp_eq a a = true.
Proof.
  pose proof (lt_gt_converse a a) as C. destruct (exactly_one_cases _ _ _ (trichotomy a a)) as [H|[H|H]];
    destruct H as (H1 & H2 & H3); rewrite H1, H3 in C; try discriminate C. auto.
Qed.

Theorem lt_asymmetric a b : cmp_lt a b = true -> cmp_lt b a = false.
Proof.
  intros H. rewrite (lt_gt_converse b a). destruct (exactly_one_cases _ _ _ (trichotomy a b)) as [H'|[H'|H']];
    destruct H' as (H1 & H2 & H3); congruence.
Qed.

Theorem eq_symmetric a b : cmp_eq a b = cmp_eq b a.
Proof.
  pose proof (lt_gt_converse a b) as C1. pose proof (lt_gt_converse b a) as C2.
  destruct (exactly_one_cases _ _ _ (trichotomy a b)) as [H|[H|H]]; destruct H as (H1 & H2 & H3);
  destruct (exactly_one_cases _ _ _ (trichotomy b a)) as [K|[K|K]]; destruct K as (K1 & K2 & K3); congruence.
Qed.

Theorem le_total a b : cmp_le a b = true \/ cmp_ge a b = true.
Proof.
  rewrite derived_le, derived_ge. destruct (exactly_one_cases _ _ _ (trichotomy a b)) as [H|[H|H]];
    destruct H as (H1 & H2 & H3); rewrite H1, H2, H3; auto.
Qed.

Theorem le_antisymmetric a b : cmp_le a b = true -> cmp_le b a = true -> cmp_eq a b = true.
Proof.
  rewrite !derived_le. rewrite (lt_gt_converse b a), <- (eq_symmetric a b).
  destruct (exactly_one_cases _ _ _ (trichotomy a b)) as [H|[H|H]]; destruct H as (H1 & H2 & H3); rewrite H1, H2, H3; cbn; congruence.
Qed.

Theorem le_ge_converse a b : cmp_le a b = cmp_ge b a.
Proof. rewrite derived_le, derived_ge, (lt_gt_converse a b), (eq_symmetric a b). reflexivity. Qed.
