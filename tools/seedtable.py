#!/usr/bin/env python3
"""Fills the SEEDTABLE placeholder / regenerates the seed table of DESIGN.md section 0.7 from seeded/*/meta.json."""
import json, os, re
V = os.path.dirname(os.path.dirname(os.path.abspath(__file__)))
rows = ['| seed | the change (from its meta.json) | caught by | how |', '|---|---|---|---|']
for d in sorted(os.listdir(os.path.join(V, 'seeded'))):
    mp = os.path.join(V, 'seeded', d, 'meta.json')
    if not os.path.exists(mp):
        continue
    m = json.load(open(mp))
    summ = re.sub(r'\s+', ' ', m.get('summary', '')).replace('|', '/')
    summ = summ[:230] + ('…' if len(summ) > 230 else '')
    outs = m.get('check_outcomes', {})
    caught = m.get('caught_by', [])
    how = '; '.join('%s: %s' % (c, (o.get('how') if isinstance(o, dict) else o)) for c, o in outs.items())
    rows.append('| %s | %s | %s | %s |' % (d, summ, ', '.join(caught) or '**none**', how))
table = '\n'.join(rows)
p = os.path.join(V, 'DESIGN.md')
s = open(p).read()
if 'SEEDTABLE' in s:
    s = s.replace('SEEDTABLE', '<!-- seedtable -->\n' + table + '\n<!-- /seedtable -->')
else:
    s = re.sub(r'<!-- seedtable -->.*?<!-- /seedtable -->', lambda m_: '<!-- seedtable -->\n' + table + '\n<!-- /seedtable -->', s, flags=re.S)
open(p, 'w').write(s)
print(len(rows) - 2, 'seeds')
