#!/usr/bin/env python3
"""Validate MANIFEST.json and evidence files against the schemas (run with python3-vt)."""
import json, sys, glob, jsonschema
ok = True
m = json.load(open('/verif/MANIFEST.json'))
jsonschema.validate(m, json.load(open('/root/.vp/MANIFEST.schema.json')))
print('MANIFEST ok: %d checks, %d not_applicable' % (len(m['checks']), len(m.get('not_applicable', []))))
es = json.load(open('/root/.vp/EVIDENCE.schema.json'))
for f in sorted(glob.glob('/verif/evidence/*.json')):
    try:
        jsonschema.validate(json.load(open(f)), es)
        print('ok', f)
    except Exception as e:
        ok = False
        print('INVALID', f, str(e)[:300])
sys.exit(0 if ok else 1)
