(* Model of hotxlfp/helper/cell.py (property C19; also used by C10).
   Text is a list of code points.  Domain notes (checked by the correspondence,
   stated in the theorems):
   - column_label_to_index: ASCII input (Python's str.upper on non-ASCII text can
     change length; outside the model).
   - row_label_to_index: input is a string of ASCII digits, or contains no
     character that Python's int() would accept (then the result is -1). *)
From HX Require Export Model.Base.

(* COLUMN_LABEL_BASE.find(ch) + 1 after upper() *)
Definition col_digit (c : Z) : Z :=
  let u := upper_ascii c in if is_upper u then u - 64 else 0.

(* result += 26**j * (find(label[i]) + 1), i.e. Horner *)
Definition col_label_to_index (l : text) : Z :=
  fold_left (fun a c => a * 26 + col_digit c) l 0 - 1.

(* while column >= 0: result = chr(column % 26 + 97) + result; column = column // 26 - 1 *)
Fixpoint col_loop (fuel : nat) (col : Z) (acc : text) : text :=
  match fuel with
  | O => acc
  | S f => if col <? 0 then acc else col_loop f (col / 26 - 1) ((col mod 26 + 65) :: acc)
  end.
Definition col_fuel (col : Z) : nat := S (Z.to_nat (Z.log2_up (col + 2))).
Definition col_index_to_label (col : Z) : text := col_loop (col_fuel col) col [].

Definition row_label_to_index (l : text) : Z :=
  match l with
  | [] => -1
  | _ => if all_digits l then Z.max (dec_value_of l - 1) (-1) else -1
  end.

Definition row_index_to_label (row : Z) : text :=
  if 0 <=? row then dec_text_of (row + 1) else [].

Record parsed := { p_index : Z; p_label : text; p_abs : bool }.

(* LABEL_EXTRACT_REGEXP = ^([$])?([A-Za-z]+)([$])?([0-9]+)\Z ; the four classes are
   pairwise disjoint, so the greedy scan below is the regex match. *)
Definition opt_dollar (s : text) : bool * text :=
  match s with 36 :: t => (true, t) | _ => (false, s) end.

Definition extract_label (s : text) : option (parsed * parsed) :=
  let '(cabs, s1) := opt_dollar s in
  let '(letters, s2) := span is_alpha s1 in
  match letters with
  | [] => None
  | _ =>
    let '(rabs, s3) := opt_dollar s2 in
    let '(digits, s4) := span is_digit s3 in
    match digits, s4 with
    | _ :: _, [] =>
        Some ({| p_index := row_label_to_index digits; p_label := digits; p_abs := rabs |},
              {| p_index := col_label_to_index letters; p_label := letters; p_abs := cabs |})
    | _, _ => None
    end
  end.

Definition to_label (row col : parsed) : text :=
  ((if p_abs col then [36] else []) ++ col_index_to_label (p_index col)) ++
  ((if p_abs row then [36] else []) ++ row_index_to_label (p_index row)).

(* ---------- runner entry points ---------- *)
Definition e_col_l2i (a : list Z) : list Z := [col_label_to_index (fst (dec_text a))].
Definition e_col_i2l (a : list Z) : list Z :=
  match a with n :: _ => enc_text (col_index_to_label n) | _ => [] end.
Definition e_row_l2i (a : list Z) : list Z := [row_label_to_index (fst (dec_text a))].
Definition e_row_i2l (a : list Z) : list Z :=
  match a with n :: _ => enc_text (row_index_to_label n) | _ => [] end.
Definition enc_parsed (p : parsed) : list Z :=
  p_index p :: enc_bool (p_abs p) :: enc_text (p_label p).
(* result: 0 (no match) | 1 row col to_label *)
Definition e_extract (a : list Z) : list Z :=
  match extract_label (fst (dec_text a)) with
  | None => [0]
  | Some (r, c) => 1 :: enc_parsed r ++ enc_parsed c ++ enc_text (to_label r c)
  end.
