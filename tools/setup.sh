#!/bin/bash
# One-time offline build of the framework: Coq development (full .vo), extracted runner.
set -e
cd "$(dirname "$0")/.."
tools/mkproject.sh
( cd coq && timeout 3000 make -j16 ) 2>&1 | tail -5
for f in model.ml model.mli; do [ -f coq/$f ] && mv coq/$f ocaml/$f; done
[ -f ocaml/model.ml ] || { rm -f coq/Extract/Extract.vo; ( cd coq && make Extract/Extract.vo ); mv coq/model.ml coq/model.mli ocaml/; }
( cd ocaml && ocamlfind ocamlopt -O2 -w -a model.mli model.ml driver.ml -o runner 2>/dev/null || ocamlfind ocamlopt -w -a model.mli model.ml driver.ml -o runner )
cat ocaml/model.ml ocaml/model.mli ocaml/driver.ml | sha256sum | cut -d' ' -f1 | tr -d '\n' > ocaml/runner.hash
echo "setup done"
