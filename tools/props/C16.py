# -*- coding: utf-8 -*-
"""C16 - elementary, trigonometric and financial functions.  Theorems: Properties/C16.v over Gen/RealFns.v."""
import math
import os
import random
import sys
from decimal import Decimal, getcontext

from common import Result, pmap, VERIF, HANG

ID = 'C16'
COQ_FILES = ['Properties/C16.v', 'Proofs/RealProofs.v', 'Model/RealModel.v', 'Gen/RealFns.v']
COQCHK = True
TRUSTED = [
    'Gen/RealFns.v regenerated on every run by tools/gen/realfns.py (python ast, fail-closed): the bodies of the 27 functions in the '
    'expression language of Model/RealModel.v, the parameters that go through utils.parse_number, the defaults of LOG and PV',
    'the PyMath contract of Model/RealModel.v (math.sin = sin, ..., domains and raised exceptions of math.sqrt / log / asin / acos / '
    'atanh, division by zero raises, ** on reals) and ideal real arithmetic in place of IEEE doubles: "to within floating-point '
    'rounding" is decided by the oracle of this check against a 60-digit reference, not by a theorem; overflow is outside the model',
    'axioms of the standard library of real numbers: ClassicalDedekindReals.sig_not_dec, ClassicalDedekindReals.sig_forall_dec, '
    'FunctionalExtensionality.functional_extensionality_dep, Classical_Prop.classic (as Print Assumptions reports)',
    'not modelled: utils.parse_number / to_number (coercion of numeric text and logicals - C06 proves the conversion table; here the '
    'generated fact all_parameters_coerced and the oracle), random.random / random.randint (RAND, RANDBETWEEN: oracle only)',
]
EXPLANATION = ('Coq theorems over the translated bodies, for ALL real arguments: each function returns the mathematical function on its '
               'domain and raises outside it (SQRT, LN, LOG, LOG10, ASIN, ACOS, ATANH, ACOSH and ACOTH - written out with ln and sqrt in '
               'the code - TAN, COT, ACOT, POWER); sin^2+cos^2=1, TAN=SIN/COS, COT=1/TAN, EXP(LN x)=x, LN(EXP x)=x, LOG=LN/LN; ASIN/SIN, '
               'ACOS/COS, ATAN/TAN, ASINH/SINH, ACOSH/COSH, ATANH/TANH undo each other on the principal ranges; ATAN2(x,y) is the angle '
               'of (x,y) in (-pi, pi] with x = r cos, y = r sin, #DIV/0! exactly at the origin; PV satisfies the annuity equation and '
               'its linear form at rate 0. Tied to the code by the translator and by grids + random reals over many magnitudes '
               'against a 60-digit decimal reference, identities, domain boundaries, numeric text / logicals, RAND / RANDBETWEEN.')
ASSUMPTIONS = ['finite arguments whose results are representable (no overflow); RANDBETWEEN with integer bounds a <= b']

getcontext().prec = 60


def gen(ctx):
    sys.path.insert(0, os.path.join(VERIF, 'tools', 'gen'))
    import realfns
    root = os.environ.get('VERIF_SNAPSHOT', '/repo')
    c = realfns.write(os.path.join(VERIF, 'coq', 'Gen', 'RealFns.v'), root)
    return {'Gen/RealFns.v': 'regenerated (changed)' if c else 'regenerated (identical to the committed baseline)'}


# ---------------- 60-digit reference ----------------
def d_pi():
    getcontext().prec += 5
    three = Decimal(3)
    lasts, t, s, n, na, d, da = 0, three, 3, 1, 0, 0, 24
    while s != lasts:
        lasts = s
        n, na = n + na, na + 8
        d, da = d + da, da + 32
        t = (t * n) / d
        s += t
    getcontext().prec -= 5
    return +s


PI = d_pi()


def d_sin(x):
    x = x % (2 * PI)
    getcontext().prec += 5
    i, lasts, s, fact, num, sign = 1, 0, x, 1, x, 1
    while s != lasts:
        lasts = s
        i += 2
        fact *= i * (i - 1)
        num *= x * x
        sign *= -1
        s += num / fact * sign
    getcontext().prec -= 5
    return +s


def d_cos(x):
    x = x % (2 * PI)
    getcontext().prec += 5
    i, lasts, s, fact, num, sign = 0, 0, Decimal(1), 1, Decimal(1), 1
    while s != lasts:
        lasts = s
        i += 2
        fact *= i * (i - 1)
        num *= x * x
        sign *= -1
        s += num / fact * sign
    getcontext().prec -= 5
    return +s


def d_atan(x):
    if x < 0:
        return -d_atan(-x)
    if x > 1:
        return PI / 2 - d_atan(1 / x)
    # halve the argument until small: atan x = 2 atan (x / (1 + sqrt(1 + x^2)))
    k = 0
    while x > Decimal('0.1'):
        x = x / (1 + (1 + x * x).sqrt())
        k += 1
    getcontext().prec += 5
    s, term, n, lasts = x, x, 1, None
    while s != lasts:
        lasts = s
        term *= -x * x
        n += 2
        s += term / n
    getcontext().prec -= 5
    return +s * (2 ** k)


def d_atan2(y, x):
    if x > 0:
        return d_atan(y / x)
    if x < 0:
        return d_atan(y / x) + PI if y >= 0 else d_atan(y / x) - PI
    return PI / 2 if y > 0 else -PI / 2


def D(v):
    return Decimal(v) if isinstance(v, int) else Decimal(repr(v)) if False else Decimal(v)


REF = {
    'ABS': lambda x: abs(x), 'SQRT': lambda x: x.sqrt(), 'EXP': lambda x: x.exp(), 'LN': lambda x: x.ln(), 'LOG10': lambda x: x.ln() / Decimal(10).ln(),
    'SIN': d_sin, 'COS': d_cos, 'TAN': lambda x: d_sin(x) / d_cos(x), 'COT': lambda x: d_cos(x) / d_sin(x),
    'ASIN': lambda x: d_atan2(x, (1 - x * x).sqrt()), 'ACOS': lambda x: d_atan2((1 - x * x).sqrt(), x), 'ATAN': d_atan,
    'ACOT': lambda x: PI / 2 if x == 0 else d_atan(1 / x),
    'SINH': lambda x: (x.exp() - (-x).exp()) / 2, 'COSH': lambda x: (x.exp() + (-x).exp()) / 2,
    'TANH': lambda x: (x.exp() - (-x).exp()) / (x.exp() + (-x).exp()),
    'ASINH': lambda x: (x + (x * x + 1).sqrt()).ln() if x >= 0 else -((-x + (x * x + 1).sqrt()).ln()),
    'ACOSH': lambda x: (x + (x * x - 1).sqrt()).ln(), 'ATANH': lambda x: ((1 + x) / (1 - x)).ln() / 2, 'ACOTH': lambda x: ((x + 1) / (x - 1)).ln() / 2,
    'RADIANS': lambda x: x * PI / 180, 'DEGREES': lambda x: x * 180 / PI,
}
DOMAIN = {
    'SQRT': lambda x: x >= 0, 'LN': lambda x: x > 0, 'LOG10': lambda x: x > 0, 'ASIN': lambda x: -1 <= x <= 1, 'ACOS': lambda x: -1 <= x <= 1,
    'ACOSH': lambda x: x >= 1, 'ATANH': lambda x: -1 < x < 1, 'ACOTH': lambda x: abs(x) > 1, 'COT': lambda x: x != 0,
}
LIMIT = {'EXP': 700, 'SINH': 700, 'COSH': 700, 'TANH': 700, 'SIN': 1e6, 'COS': 1e6, 'TAN': 1e6, 'COT': 1e6}     # stay inside the float range / sane reduction


def close(got, ref, rel=1e-9, abs_=1e-12):
    if isinstance(got, bool) or not isinstance(got, (int, float)):
        return False
    if got != got or got in (float('inf'), float('-inf')):
        return False
    g = Decimal(got)
    return abs(g - ref) <= max(Decimal(abs_), abs(ref) * Decimal(rel))


_P = None


def parser():
    global _P
    if _P is None:
        import hotxlfp
        _P = hotxlfp.Parser()
    return _P


def call(fn, *args):
    p = parser()
    names = []
    for i, a in enumerate(args):
        n = 'arg' + 'abcdefgh'[i]
        p.set_variable(n, a)
        names.append(n)
    return p.parse('%s(%s)' % (fn, ','.join(names)))


def is_number(r):
    return r['error'] is None and isinstance(r['result'], (int, float)) and not isinstance(r['result'], bool)


def check_unary(item):
    fn, x = item
    out = []
    r = call(fn, x)
    dx = Decimal(x)
    indom = DOMAIN.get(fn, lambda v: True)(dx)
    if not indom:
        if r['error'] is None:
            out.append(('%s(%r) outside its domain' % (fn, x), None, 'an error', repr(r)))
        return out
    if fn in ('TAN', 'COT') and abs(REF['COS' if fn == 'TAN' else 'SIN'](dx)) < Decimal('1e-6'):
        return out                 # within 1e-6 of a pole: the float argument is not the pole, the value is huge and ill-conditioned
    ref = REF[fn](dx)
    cond = 1e-9
    if fn in ('SIN', 'COS', 'TAN', 'COT'):
        cond = max(1e-9, abs(x) * 1e-15)          # argument reduction of large arguments
    if fn in ('ACOSH',):
        cond = 1e-7                                 # written out as ln(x + sqrt(x*x-1)): cancellation near 1
    if fn in ('ACOTH', 'ATANH'):
        cond = 1e-7
    if not is_number(r) or not close(r['result'], ref, rel=cond, abs_=cond * 1e-3 if fn not in ('ACOSH',) else 1e-7):
        out.append(('%s(%r)' % (fn, x), None, '%.20g' % ref, repr(r)))
    return out


def check_coercion(item):
    fn, x = item
    out = []
    base = call(fn, x)
    if float(x) == int(x):
        txt = [str(int(x)), repr(float(x))]
    else:
        txt = [repr(x)]
    for t in txt:
        r = call(fn, t)
        if r != base and not (is_number(r) and is_number(base) and abs(r['result'] - base['result']) <= 1e-12 * max(1, abs(base['result']))):
            out.append(('%s("%s") vs %s(%r): numeric text' % (fn, t, fn, x), None, repr(base), repr(r)))
    # other spellings of numeric text (what int() / float() read): exponent with E or e, explicit sign, leading zeros,
    # no digit before / after the point; each compared with the function on the number the text spells
    alt = ['%.6E' % x, '%.6e' % x, ('+' if x >= 0 else '-') + repr(abs(x)), ('-00' if x < 0 else '00') + repr(abs(float(x)))]
    if 0 < abs(x) < 1 and 'e' not in repr(abs(x)):
        alt.append(('-' if x < 0 else '') + repr(abs(x))[1:])           # .5
    if float(x) == int(x) and abs(x) < 1e15:
        alt.append(str(int(x)) + '.')                                    # 5.
        alt.append('%dE0' % int(x))
    for t in alt:
        try:
            num = float(t)
        except ValueError:
            continue
        r, want = call(fn, t), call(fn, num)
        if r != want and not (is_number(r) and is_number(want) and abs(r['result'] - want['result']) <= 1e-12 * max(1, abs(want['result']))):
            out.append(('%s("%s") vs %s(%r): numeric text' % (fn, t, fn, num), None, repr(want), repr(r)))
    for b, v in ((True, 1), (False, 0)):
        rb, rv = call(fn, b), call(fn, v)
        if rb != rv:
            out.append(('%s(%s) vs %s(%d): logical' % (fn, b, fn, v), None, repr(rv), repr(rb)))
    for bad in ('abc', '', '1x', 'one'):
        r = call(fn, bad)
        if r['error'] is None:
            out.append(('%s(%r): non-numeric text' % (fn, bad), None, 'an error', repr(r)))
    return out


def check_identities(x):
    out = []

    def num(fn, *a):
        r = call(fn, *a)
        return r['result'] if is_number(r) else None
    s, c = num('SIN', x), num('COS', x)
    if s is None or c is None or abs(s * s + c * c - 1) > 1e-12:
        out.append(('SIN^2+COS^2 at %r' % x, None, '1', repr((s, c))))
    if c is not None and abs(c) > 1e-6:
        t = num('TAN', x)
        if t is None or abs(t - s / c) > 1e-9 * max(1, abs(t)):
            out.append(('TAN=SIN/COS at %r' % x, None, repr(s / c), repr(t)))
        if abs(s) > 1e-6:
            ct = num('COT', x)
            if ct is None or abs(ct - 1 / t) > 1e-9 * max(1, abs(ct)):
                out.append(('COT=1/TAN at %r' % x, None, repr(1 / t), repr(ct)))
    if x > 0:
        l = num('LN', x)
        e = num('EXP', l) if l is not None else None
        if e is None or abs(e - x) > 1e-9 * x:
            out.append(('EXP(LN x) at %r' % x, None, repr(x), repr(e)))
        for b in (2, 10, 0.5, 7.3):
            lg, lb = num('LOG', x, b), num('LN', b)
            if lg is None or abs(lg - l / lb) > 1e-9 * max(1, abs(lg)):
                out.append(('LOG(x,b)=LN x/LN b at %r, %r' % (x, b), None, repr(l / lb), repr(lg)))
    y = math.fmod(x, 1.0)
    for f, g, arg, lo, hi in (('ASIN', 'SIN', y * math.pi / 2, None, None), ('ACOS', 'COS', abs(y) * math.pi, None, None), ('ATAN', 'TAN', y * 1.5, None, None),
                              ('ASINH', 'SINH', max(-20, min(20, x)), None, None), ('ACOSH', 'COSH', min(20, abs(x)), None, None), ('ATANH', 'TANH', max(-8, min(8, x)), None, None)):
        inner = num(g, arg)
        back = num(f, inner) if inner is not None else None
        tol = 1e-6 if f in ('ACOSH', 'ACOS', 'ASIN', 'ATANH') else 1e-9
        if back is None or abs(back - arg) > tol * max(1, abs(arg)):
            out.append(('%s(%s(%r))' % (f, g, arg), None, repr(arg), repr(back)))
    for f, g, arg in (('SIN', 'ASIN', y), ('COS', 'ACOS', y), ('TAN', 'ATAN', x), ('SINH', 'ASINH', x), ('COSH', 'ACOSH', 1 + abs(x))):
        inner = num(g, arg)
        back = num(f, inner) if inner is not None else None
        if back is None or abs(back - arg) > 1e-9 * max(1, abs(arg)):
            out.append(('%s(%s(%r))' % (f, g, arg), None, repr(arg), repr(back)))
    return out


def check_atan2(item):
    x, y = item
    r = call('ATAN2', x, y)
    out = []
    if x == 0 and y == 0:
        if r != {'result': None, 'error': '#DIV/0!'}:
            out.append(('ATAN2(0,0)', None, '#DIV/0!', repr(r)))
        for xs, ys in (('0', '0'), ('0', 0), (0, '0'), (False, '0.0'), ('-0', 0.0), (False, False), ('0.0', '0'), ('0E0', 0)):
            r2 = call('ATAN2', xs, ys)
            if r2 != {'result': None, 'error': '#DIV/0!'}:
                out.append(('ATAN2(%r,%r): the origin given as numeric text / logicals' % (xs, ys), None, '#DIV/0!', repr(r2)))
        return out
    ref = d_atan2(Decimal(y), Decimal(x))
    if not is_number(r) or not close(r['result'], ref, rel=1e-12, abs_=1e-15):
        out.append(('ATAN2(%r,%r)' % (x, y), None, '%.20g' % ref, repr(r)))
    # the same point with coordinates given as numeric text / logicals (the two-argument functions coerce too)
    spell = lambda v: [repr(v), str(int(v)) if float(v) == int(v) and abs(v) < 1e15 else repr(v)] + ([bool(v)] if v in (0, 1) else [])
    for xs in spell(x)[:2] + spell(x)[2:]:
        for ys in spell(y)[:1] + spell(y)[2:]:
            r2 = call('ATAN2', xs, ys)
            if r2 != r and not (is_number(r) and is_number(r2) and abs(r['result'] - r2['result']) <= 1e-12):
                out.append(('ATAN2(%r,%r) vs ATAN2(%r,%r): numeric text / logicals' % (xs, ys, x, y), None, repr(r), repr(r2)))
                return out
    else:
        th = r['result']
        rr = math.hypot(x, y)
        if abs(rr * math.cos(th) - x) > 1e-9 * rr or abs(rr * math.sin(th) - y) > 1e-9 * rr or not (-math.pi <= th <= math.pi):
            out.append(('ATAN2(%r,%r) is not the angle of the point' % (x, y), None, '(x, y) = r (cos, sin)', repr(th)))
    return out


def check_power_log(item):
    x, y = item
    out = []
    r = call('POWER', x, y)
    dx, dy = Decimal(x), Decimal(y)
    if x > 0:
        e = dy * dx.ln()
        if abs(e) < 600:
            ref = e.exp()
            if not is_number(r) or not close(r['result'], ref, rel=1e-10):
                out.append(('POWER(%r,%r)' % (x, y), None, '%.20g' % ref, repr(r)))
    elif x == 0 and y < 0:
        if r['error'] is None:
            out.append(('POWER(0,%r)' % y, None, 'an error', repr(r)))
    elif x < 0 and y != int(y):
        if r['error'] is None:
            out.append(('POWER(%r,%r): no real value' % (x, y), None, 'an error', repr(r)))
    rl = call('LOG', x, y)
    if x > 0 and y > 0 and y != 1:
        ref = dx.ln() / dy.ln()
        if not is_number(rl) or not close(rl['result'], ref, rel=1e-9, abs_=1e-12):
            out.append(('LOG(%r,%r)' % (x, y), None, '%.20g' % ref, repr(rl)))
    elif rl['error'] is None:
        out.append(('LOG(%r,%r) outside its domain' % (x, y), None, 'an error', repr(rl)))
    return out


def check_pv(item):
    rate, n, pmt, fv, typ = item
    r = call('PV', rate, n, pmt, fv, typ)
    out = []
    if rate != 0:
        # outside the double range (growth factor or present value below 1e-300 / above 1e300) the real value exists but
        # no double does: overflow and underflow are outside the property ("to within floating-point rounding")
        g_ = (Decimal(n) * (1 + Decimal(rate)).ln()).exp()
        pv_ = -(Decimal(pmt) * (1 + Decimal(rate) * Decimal(typ)) * (g_ - 1) / Decimal(rate) + Decimal(fv)) / g_
        if not (Decimal('1e-300') < g_ < Decimal('1e300')) or abs(pv_) > Decimal('1e300'):
            return out
    if not is_number(r):
        return [('PV%r' % (item,), None, 'a number', repr(r))]
    pv = Decimal(r['result'])
    R, N, P, F, T = Decimal(rate), Decimal(n), Decimal(pmt), Decimal(fv), Decimal(typ)
    if rate == 0:
        resid = pv + P * N + F
        scale = abs(pv) + abs(P * N) + abs(F) + 1
    else:
        g = (N * (1 + R).ln()).exp()
        resid = pv * g + P * (1 + R * T) * (g - 1) / R + F
        scale = abs(pv * g) + abs(P * (1 + R * T) * (g - 1) / R) + abs(F) + 1
    if abs(resid) > scale * Decimal('1e-9'):
        out.append(('PV%r does not satisfy the annuity equation' % (item,), None, 'residual 0', 'residual %.6g (pv=%r)' % (resid, r['result'])))
    if typ == 0 and fv == 0:
        r3 = call('PV', rate, n, pmt)
        if r3 != r:
            out.append(('PV with omitted future/type', None, repr(r), repr(r3)))
    return out


def check_rand(seed):
    out = []
    p = parser()
    rng = random.Random(seed)
    for _ in range(300):
        r = p.parse('RAND()')
        if not is_number(r) or not (0 <= r['result'] < 1):
            out.append(('RAND()', None, '[0, 1)', repr(r)))
            break
    for _ in range(300):
        a = rng.randint(-1000, 1000)
        b = a + rng.choice([0, 1, 2, 10, 1000])
        r = call('RANDBETWEEN', a, b)
        if r['error'] is not None or isinstance(r['result'], bool) or not isinstance(r['result'], int) or not (a <= r['result'] <= b):
            out.append(('RANDBETWEEN(%d,%d)' % (a, b), None, 'an integer in [a, b]', repr(r)))
            break
    r = p.parse('PI()')
    if r != {'result': math.pi, 'error': None}:
        out.append(('PI()', None, repr(math.pi), repr(r)))
    return out


CHECKERS = {'unary': check_unary, 'coercion': check_coercion, 'identities': check_identities, 'atan2': check_atan2, 'powlog': check_power_log, 'pv': check_pv,
            'rand': check_rand}


def check_case(case):
    for k, fn in CHECKERS.items():
        if k in case:
            c = case[k]
            c = tuple(c) if isinstance(c, list) else c
            return [{'case': case, 'what': w, 'class': cls, 'expected': e, 'observed': g} for (w, cls, e, g) in fn(c)]
    return []


def _worker(kc):
    import decimal
    k, c = kc
    try:
        return [(k, c) + x for x in CHECKERS[k](c)]
    except (decimal.Overflow, decimal.InvalidOperation, decimal.DivisionByZero):
        return []            # the 60-digit reference itself is out of range at this point: skipped


def reals(rng, n, lim=None):
    out = [0.0, 1.0, -1.0, 0.5, -0.5, 2.0, 1e-9, -1e-9, 1e-300, 0.999999999, 1.000000001, -0.999999999, 10.0, 100.0, 3.141592653589793, 1.5707963267948966,
           -3.141592653589793, 0.1, 7.25, 1e6, -1e6, 123456.789, 2.718281828459045, 1e-5, 0.25, 64.0, 3.0, -2.0, 1e15, 36.0,
           # the doubles next to the domain boundaries -1, 0, 1 on both sides, and a hair (1e-13 .. 1e-10) beyond them
           1.0000000000000002, 0.9999999999999999, -1.0000000000000002, -0.9999999999999999, 5e-324, -5e-324, -1e-300,
           1.0000000000001, -1.0000000000001, 1.0000000000005, -1.0000000000005, 1.00000000001, -1.00000000001, 0.9999999999999,
           -0.9999999999999, -1e-13, 1e-13, -1e-16]
    for _ in range(n):
        m = rng.choice([1e-6, 1e-3, 0.1, 1, 1, 1, 10, 100, 1e4, 1e8])
        out.append(rng.uniform(-1, 1) * m)
    return [x for x in out if lim is None or abs(x) <= lim]


def explore(ctx):
    R = Result()
    rng = ctx.rng
    big = ctx.thorough
    n = 1500 if big else 150
    work = []
    for fn in sorted(REF):
        for x in reals(rng, n, LIMIT.get(fn)):
            work.append(('unary', (fn, x)))
        for x in (0.5, 1.0, -1.0, 0.0, 2.0, 0.25):
            work.append(('coercion', (fn, x)))
    for x in reals(rng, n, 1e6):
        work.append(('identities', x))
    pts = reals(rng, 40 if not big else 120)
    for x in pts[:30] + [0.0]:
        for y in pts[:30] + [0.0]:
            work.append(('atan2', (x, y)))
    for _ in range(n * 2):
        work.append(('atan2', (rng.uniform(-1, 1) * rng.choice([1e-8, 1, 1e8]), rng.uniform(-1, 1) * rng.choice([1e-8, 1, 1e8]))))
    for _ in range(n * 2):
        x = rng.choice([rng.uniform(0, 5), rng.uniform(-5, 5), 0.0, 1.0, 2.0, 10.0, rng.uniform(0, 1e4)])
        y = rng.choice([rng.uniform(-5, 5), float(rng.randint(-6, 6)), 0.5, 1.0, 0.0, 2.0, 10.0])
        work.append(('powlog', (x, y)))
    for _ in range(n * 2):
        rate = rng.choice([0.0, 0.0, rng.uniform(-0.9, 2), rng.uniform(0, 0.2), 0.05, 0.005, 1e-6])
        work.append(('pv', (rate, float(rng.choice([1, 2, 10, 12, 30, 360, rng.uniform(0, 50)])), rng.uniform(-1000, 1000), rng.choice([0.0, rng.uniform(-1e5, 1e5)]), rng.choice([0, 1]))))
    for k in range(4):
        work.append(('rand', ctx.seed * 10 + k))
    for (k, c), vs in zip(work, pmap(_worker, work, limit=60.0, confirm=False)):
        if vs == HANG:
            R.violate({k: list(c) if isinstance(c, tuple) else c}, '%s %r' % (k, c), None, 'returns', 'time limit')
            continue
        for (k_, c_, w, cls, e, g) in vs:
            R.violate({k: list(c) if isinstance(c, tuple) else c}, w, cls, e, g)
    R.evaluations += len(work)
    R.nontrivial_extra += len(work)
    R.extra['functions'] = sorted(REF) + ['ATAN2', 'POWER', 'LOG', 'PV', 'RAND', 'RANDBETWEEN', 'PI']
    R.rule = ('%d functions x (30 fixed points incl. domain boundaries + %d random reals over magnitudes 1e-6..1e8, inside and outside each '
              'domain) against a 60-digit decimal reference (relative 1e-9; 1e-7 for the functions written out with ln/sqrt near their '
              'cancellation points); numeric text, logicals and non-numeric text for every function; identities at every point; '
              'ATAN2 on a 31 x 31 grid incl. the axes and the origin + random points over 16 orders of magnitude; POWER / LOG pairs; PV '
              'residual of the annuity equation over rates in (-0.9, 2] incl. 0 and tiny rates; RAND / RANDBETWEEN ranges.' % (len(REF), n))
    return R


def search(ctx, proof, res):
    R = Result()
    rng = random.Random(ctx.seed + 16)
    work = []
    for fn in sorted(REF):
        for x in reals(rng, 400, LIMIT.get(fn)):
            work.append(('unary', (fn, x)))
    for x in reals(rng, 400, 1e6):
        work.append(('identities', x))
    for _ in range(2000):
        work.append(('atan2', (rng.uniform(-2, 2), rng.uniform(-2, 2))))
        work.append(('pv', (rng.choice([0.0, rng.uniform(-0.9, 2)]), float(rng.randint(1, 40)), rng.uniform(-100, 100), rng.uniform(-1e3, 1e3), rng.choice([0, 1]))))
        work.append(('powlog', (rng.uniform(-3, 5), rng.choice([rng.uniform(-3, 3), float(rng.randint(-4, 4))]))))
    for (k, c), vs in zip(work, pmap(_worker, work, limit=60.0, confirm=False)):
        if vs == HANG:
            continue
        for (k_, c_, w, cls, e, g) in vs:
            R.violate({k: list(c) if isinstance(c, tuple) else c}, w, cls, e, g)
    R.evaluations = len(work)
    return R
