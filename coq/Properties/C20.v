(* C20 — Event emitter: ordered delivery, exact unsubscription, once means once.
   Statements quantify over every history [ops], every behaviour of the callbacks
   ([script]: what each callback does when called, possibly subscribing, unsubscribing
   or emitting, possibly depending on the call depth) and every run that returns
   ([run_history ... = Some ...]; a callback that re-emits its own event for ever is
   Python's RecursionError and is excluded by that hypothesis).  Proofs: Proofs/EmitterProofs.v. *)
From HX Require Import Model.Emitter Proofs.EmitterProofs.

(* The table the implementation keeps is, at the end of every history, exactly the
   history-based specification [live] (who subscribed and was not removed since). *)
Theorem C20_table_is_history : forall script fuel ops stF tr,
  run_history script fuel ops = Some (stF, tr) -> forall n, tab stF n = live tr n.
Proof. exact table_is_live. Qed.

(* Every emit calls exactly the listeners subscribed to its name when it started, in
   subscription order, each with the emitted arguments (and its own bound context, which
   is part of the listener); subscriptions made or removed meanwhile do not change it. *)
Theorem C20_emit_delivers_snapshot_in_order : forall script fuel ops stF tr tr1 tr2 eid n a s,
  run_history script fuel ops = Some (stF, tr) -> tr = tr1 ++ EEmit eid n a s :: tr2 ->
  s = live tr1 n /\ proj tr eid = map (fun l => (n, l, a)) (live tr1 n).
Proof. exact emit_delivers_snapshot. Qed.

(* once means once: no one-time subscription has its callback called twice ... *)
Theorem C20_once_at_most_once : forall script fuel ops stF tr,
  run_history script fuel ops = Some (stF, tr) -> NoDup (delivered_once tr).
Proof. exact once_at_most_once. Qed.

(* ... and it has been called by the time the first emit that saw it completes *)
Theorem C20_once_called_by_first_emit : forall script fuel ops stF tr tr1 tr2 eid n a s l,
  run_history script fuel ops = Some (stF, tr) -> tr = tr1 ++ EEmit eid n a s :: tr2 ->
  In l s -> once l = true -> In (sid l) (delivered_once tr).
Proof. exact once_delivered_by_first_emit. Qed.

Theorem C20_wrapper_silent_only_after_call : forall script fuel ops stF tr eid n l a,
  run_history script fuel ops = Some (stF, tr) -> In (ESkip eid n l a) tr ->
  once l = true /\ In (sid l) (delivered_once tr).
Proof. exact skip_only_after_delivery. Qed.

(* events of one name never reach listeners of another *)
Theorem C20_name_isolation : forall tr n l, In l (live tr n) -> In (ESub n l) tr.
Proof. exact live_was_subscribed. Qed.

(* what the four operations do to the subscriptions *)
Theorem C20_on_appends : forall tr n l m,
  live (tr ++ [ESub n l]) m = if n =? m then live tr m ++ [l] else live tr m.
Proof. exact on_spec. Qed.
Theorem C20_off_name_removes_all : forall tr n m,
  live (tr ++ [EOff n None]) m = if n =? m then [] else live tr m.
Proof. exact off_name_spec. Qed.
Theorem C20_off_pair_removes_exactly : forall tr n f m,
  live (tr ++ [EOff n (Some f)]) m =
  if n =? m then filter (fun l => negb (fn l =? f)) (live tr m) else live tr m.
Proof. exact off_pair_spec. Qed.
Theorem C20_delivery_removes_only_once_listener : forall tr eid n l a m,
  live (tr ++ [EDeliver eid n l a]) m =
  if (n =? m) && once l then filter (fun x => negb (sid x =? sid l)) (live tr m) else live tr m.
Proof. exact deliver_spec. Qed.

(* non-vacuity: the re-entrant history that used to deliver a once-listener twice.
   Callback 0 (K) unsubscribes itself and emits event 7 again; callback 1 (L) is subscribed once. *)
Definition scriptK (f d : nat) : list op := match f with 0 => [Off 7 (Some 0); Emit 7 1] | _ => [] end.
Example C20_reentrant_history_returns :
  exists st tr, run_history scriptK 50 [On 7 0 0; Once 7 1 5; Emit 7 0] = Some (st, tr) /\
    calls tr = [(0, 0, 0); (1, 1, 5)] /\ tab st 7 = [].
Proof. vm_compute. do 2 eexists. repeat split. Qed.

Print Assumptions C20_table_is_history.
Print Assumptions C20_emit_delivers_snapshot_in_order.
Print Assumptions C20_once_at_most_once.
Print Assumptions C20_once_called_by_first_emit.
Print Assumptions C20_wrapper_silent_only_after_call.
Print Assumptions C20_name_isolation.
Print Assumptions C20_on_appends.
Print Assumptions C20_off_name_removes_all.
Print Assumptions C20_off_pair_removes_exactly.
Print Assumptions C20_delivery_removes_only_once_listener.
