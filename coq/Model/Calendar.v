(* Proleptic Gregorian calendar as implemented by CPython's datetime
   (_pydatetime.py: _ymd2ord, _ord2ymd, _days_before_year, ...; the C module
   implements the same algorithms).  Used by C13 and C14. *)
From HX Require Export Model.Base.

Definition is_leap (y : Z) : bool := (y mod 4 =? 0) && (negb (y mod 100 =? 0) || (y mod 400 =? 0)).
Definition days_before_year (year : Z) : Z := let y := year - 1 in y * 365 + y / 4 - y / 100 + y / 400.
Definition dbm_tab (m : Z) : Z :=
  match m with 1 => 0 | 2 => 31 | 3 => 59 | 4 => 90 | 5 => 120 | 6 => 151 | 7 => 181 | 8 => 212
             | 9 => 243 | 10 => 273 | 11 => 304 | 12 => 334 | _ => 0 end.
Definition dim_tab (m : Z) : Z :=
  match m with 1 => 31 | 2 => 28 | 3 => 31 | 4 => 30 | 5 => 31 | 6 => 30 | 7 => 31 | 8 => 31
             | 9 => 30 | 10 => 31 | 11 => 30 | 12 => 31 | _ => 0 end.
Definition days_in_month (y m : Z) : Z := if (m =? 2) && is_leap y then 29 else dim_tab m.
Definition days_before_month (y m : Z) : Z := dbm_tab m + (if (2 <? m) && is_leap y then 1 else 0).
Definition ymd2ord (y m d : Z) : Z := days_before_year y + days_before_month y m + d.

Definition ord2ymd (n0 : Z) : Z * Z * Z :=
  let n := n0 - 1 in
  let n400 := n / 146097 in let n := n mod 146097 in
  let year := n400 * 400 + 1 in
  let n100 := n / 36524 in let n := n mod 36524 in
  let n4 := n / 1461 in let n := n mod 1461 in
  let n1 := n / 365 in let n := n mod 365 in
  let year := year + n100 * 100 + n4 * 4 + n1 in
  if (n1 =? 4) || (n100 =? 4) then (year - 1, 12, 31) else
  let leap := (n1 =? 3) && (negb (n4 =? 24) || (n100 =? 3)) in
  let month := (n + 50) / 32 in
  let preceding := dbm_tab month + (if (2 <? month) && leap then 1 else 0) in
  if n <? preceding then
    let month' := month - 1 in
    let preceding' := preceding - (dim_tab month' + (if (month' =? 2) && leap then 1 else 0)) in
    (year, month', n - preceding' + 1)
  else (year, month, n - preceding + 1).

Definition valid_ymd (y m d : Z) : bool :=
  (1 <=? m) && (m <=? 12) && (1 <=? d) && (d <=? days_in_month y m).

(* date.weekday(): Monday = 0 *)
Definition weekday_of_ord (n : Z) : Z := (n + 6) mod 7.

(* datetime.datetime as the record of fields Python stores *)
Record datetime := DT { dyear : Z; dmonth : Z; dday : Z; dhour : Z; dminute : Z; dsecond : Z; dmicro : Z }.

(* the constructor's validity check (ValueError otherwise) *)
Definition valid_dt (t : datetime) : bool :=
  (1 <=? dyear t) && (dyear t <=? 9999) && valid_ymd (dyear t) (dmonth t) (dday t) &&
  (0 <=? dhour t) && (dhour t <=? 23) && (0 <=? dminute t) && (dminute t <=? 59) &&
  (0 <=? dsecond t) && (dsecond t <=? 59) && (0 <=? dmicro t) && (dmicro t <=? 999999).

Definition us_per_day : Z := 86400000000.
Definition us_of_day (t : datetime) : Z :=
  ((dhour t * 60 + dminute t) * 60 + dsecond t) * 1000000 + dmicro t.
(* microseconds since the (fictitious) ordinal 0, 00:00 *)
Definition to_us (t : datetime) : Z := ymd2ord (dyear t) (dmonth t) (dday t) * us_per_day + us_of_day t.
Definition of_us (u : Z) : datetime :=
  let ord := u / us_per_day in
  let r := u mod us_per_day in
  let '(y, m, d) := ord2ymd ord in
  DT y m d (r / 3600000000) (r / 60000000 mod 60) (r / 1000000 mod 60) (r mod 1000000).

Definition dt_eqb (a b : datetime) : bool :=
  (dyear a =? dyear b) && (dmonth a =? dmonth b) && (dday a =? dday b) && (dhour a =? dhour b) &&
  (dminute a =? dminute b) && (dsecond a =? dsecond b) && (dmicro a =? dmicro b).
