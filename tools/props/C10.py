# -*- coding: utf-8 -*-
"""C10 - reference events.  Models: coq/Model/Interp.v (callbacks, LR driver).  Theorems: Properties/C10.v."""
import itertools
import os
import random
import sys

import interp
import refgen
from common import Result, pmap, compare, VERIF, canon_py

ID = 'C10'
COQ_FILES = ['Properties/C10.v', 'Proofs/RefsPrefix.v', 'Proofs/RefsProofs.v', 'Proofs/LRfull.v', 'Proofs/LRcert.v', 'Gen/Grammar.v']
TRUSTED = [
    'Gen/Grammar.v / Gen/Registry.v regenerated on every run from the live ply parser and registry; the extra certificate of '
    'Proofs/LRfull.v (states and productions of variables, cells, ranges, calls) is recomputed on those tables',
    'modelled, not verified: ply LRParser (lr_step), the grammar actions (sem_action), Parser.call_* and the Emitter delivery of one '
    'listener per event (C20 covers the emitter); listeners are scripts: the values they hand to the setter, in order',
]
EXPLANATION = ('Coq theorems: for every well-parenthesised expression over numbers, variables, cells, ranges, calls with any number of '
               'arguments, unary minus, binary operators and parentheses (any size and nesting), the real LR driver on the generated '
               'tables with the real grammar actions emits exactly the events of the post-order evaluation - one per reference, left '
               'to right, arguments before their call; a cell event carries the upper-cased label, zero-based row/column (for every '
               'label of the label grammar, any case, any $ pattern, any column and row) and markers, the label being the label of '
               'those coordinates; a range event carries min/max corners for all corner orders; the setter keeps the last value '
               'other than None (0, FALSE, "" count), blank without listener. Tied to the code by random reference-mixing formulas on '
               'random hosts through Parser.parse with recording listeners, against the model and against an oracle computed from '
               'the generating tree.')
ASSUMPTIONS = ['one listener per event kind (the emitter itself is C20); cell labels have a positive row without leading zeros (C19)']

POOL = [None, 0, False, '', 1, 'x', 2.5, True, [1, 2], 0.0, -3, 'None']


def gen(ctx):
    sys.path.insert(0, os.path.join(VERIF, 'tools', 'gen'))
    import grammar
    import registry
    a = grammar.write(os.path.join(VERIF, 'coq', 'Gen', 'Grammar.v'))
    b = registry.write(os.path.join(VERIF, 'coq', 'Gen', 'Registry.v'), os.environ.get('VERIF_SNAPSHOT', '/repo'))
    return {'Gen/Grammar.v': 'regenerated (changed)' if a else 'regenerated (identical to the committed baseline)',
            'Gen/Registry.v': 'regenerated (changed)' if b else 'regenerated (identical to the committed baseline)'}


def rand_host(rng, setters=True):
    def answers():
        return [rng.choice(POOL) for _ in range(rng.choice([0, 1, 1, 2, 3]))]
    cells = {}
    for _ in range(rng.randint(0, 4)):
        cells[refgen.rand_label(rng).upper()] = answers()
    host = dict(vars={'alpha': 5, 'beta': 'txt', 'gam': rng.choice(POOL), 'de_lta': 11, 'q': -2},
                funs={'F': 'record', 'REC': 'record', 'G': 'ident', 'K': ('const', rng.choice(POOL[1:])), 'SUM': 'record',
                      'XL': ('raise_xl', rng.choice(['#N/A', '#DIV/0!', '#VALUE!', '#NAME?'])), 'BOOM': 'raise_py'},
                cells=cells, ranges=answers(), varset={}, funset={})
    if setters and rng.random() < 0.5:
        host['varset'] = {'gam': answers(), 'zeta': answers()}
        host['funset'] = {'REC': answers(), 'K': answers()}
    return host


def _impl(c):
    return interp.impl_case(c)


def want_of(tree, host):
    kind, v, evs = refgen.expected(tree, host)
    rec = ('R', canon_py(v)) if kind == 'R' else ('E', '#NAME?' if kind == 'NAME' else '#ERROR!')
    if rec[0] == 'R' and rec[1][0] == 'E':
        rec = ('E', rec[1][1])
    evs = [(e[0], e[1], tuple(canon_py(a) for a in e[2])) if e[0] == 'fn' else e for e in evs]
    return rec, evs


def _oracle(item):
    tree, host, formula = item
    rec, evs = want_of(tree, host)
    got_rec, got_evs = interp.impl_case(refgen.to_case(tree, host, formula))
    out = []
    if list(map(tuple, got_evs)) != list(map(tuple, evs)):
        out.append((formula, None, evs, got_evs))
    elif got_rec != rec:
        out.append((formula, None, rec, got_rec))
    return out


INNER = ['B7+1', 'zz', 'K()', 'SUM(A1:B2)', '1+2', 'Q5', 'zz+B7+K()']
RE_VALUES = [0, False, '', 1, 'x', 2.5, None, [1, 2]]


def check_reentrant(item):
    """a listener hands a value to its setter and then (itself, or a later listener of the same event) evaluates another
    formula with references of its own on the same parser: the outer reference still takes the value it was handed, and
    raises one event"""
    kind, vi, inner, split = item
    import hotxlfp
    v = RE_VALUES[vi]
    p = hotxlfp.Parser()
    p.set_variable('zz', 3)
    p.set_variable('outerv', 5)
    p.set_function('K', lambda *a: 9)
    p.set_function('OUTF', lambda *a: 7)
    ev, formula, default = {'cell': ('callCellValue', 'Q5', None), 'range': ('callRangeValue', 'Q5:R6', None),
                            'var': ('callVariable', 'outerv', 5), 'fn': ('callFunction', 'OUTF(1)', 7)}[kind]
    state = {'depth': 0, 'outer_calls': 0}

    def setter_part(*a):
        if state['depth']:
            a[-1]('inner')            # references of the nested formula get a value of their own
            return
        state['outer_calls'] += 1
        a[-1](v)
        if not split:
            nested()

    def nested():
        state['depth'] += 1
        try:
            p.parse(inner)
        finally:
            state['depth'] -= 1

    def evaluating_part(*a):
        if not state['depth']:
            nested()
    for e in ('callCellValue', 'callRangeValue', 'callVariable', 'callFunction'):
        p.on(e, setter_part if e == ev else (lambda *a: a[-1]('inner') if state['depth'] else None))
    if split:
        p.on(ev, evaluating_part)
    r = p.parse(formula)
    want = {'result': v if v is not None else default, 'error': None}
    out = []
    if r != want or type(r['result']) is not type(want['result']):
        out.append(('%s listener hands %r to the setter, then %s evaluates %s on the same parser; formula %s'
                    % (ev, v, 'a second listener' if split else 'it', inner, formula), None, want, r))
    if state['outer_calls'] != 1:
        out.append(('%s events for the one reference of %s' % (ev, formula), None, 1, state['outer_calls']))
    return out


def reentrant_items():
    return [(k, vi, inner, split) for k in ('cell', 'range', 'var', 'fn') for vi in range(len(RE_VALUES)) for inner in INNER for split in (False, True)]


def check_case(case):
    if 'reentrant' in case:
        c = case['reentrant']
        return [{'case': case, 'what': w, 'class': cl, 'expected': repr(e), 'observed': repr(g)} for (w, cl, e, g) in check_reentrant(tuple(c))]
    if 'tree' in case:
        tree, host, formula = thaw_tree(case['tree']), case['host'], case['formula']
        host = dict(host)
        host['funs'] = dict((k, tuple(v) if isinstance(v, list) else v) for k, v in host['funs'].items())
        return [{'case': case, 'what': w, 'class': c, 'expected': repr(e), 'observed': repr(g)} for (w, c, e, g) in _oracle((tree, host, formula))]
    if 'formula' in case:           # a disagreement replay: plain case of interp.py
        return []
    return []


def thaw_tree(t):
    if isinstance(t, list):
        if t and t[0] == 'call':
            return ('call', t[1], [thaw_tree(a) for a in t[2]])
        return tuple(thaw_tree(x) for x in t)
    return t


def sweep_items(rng, big):
    """cell labels (case x $ patterns x columns x rows), ranges in all four corner orders, setter scripts"""
    items = []
    cols = ['A', 'Z', 'AA', 'az', 'ZZ', 'XFD', 'xfe', 'AAAA', 'zzzzz'] + ([refgen.col_label(i) for i in range(0, 20000, 37)] if big else [refgen.col_label(i) for i in range(0, 20000, 997)])
    rows = [1, 2, 9, 10, 99, 100, 1048576, 1048577, 123456789]
    for col in cols:
        for row in rows if big else rows[::2] + [rows[-1]]:
            for ca, ra in itertools.product(['', '$'], repeat=2):
                for lab in {ca + col + ra + str(row), ca + col.lower() + ra + str(row), ca + col.swapcase() + ra + str(row)}:
                    host = dict(vars={}, funs={'F': 'record'}, cells={lab.upper(): [rng.choice(POOL)]}, ranges=[])
                    items.append((('cell', lab), host, None))
                    items.append((('call', 'F', [('cell', lab), ('num', 1)]), host, None))
    for _ in range(4000 if big else 400):
        r1, r2 = rng.randint(1, 60), rng.randint(1, 60)
        c1, c2 = refgen.col_label(rng.randint(0, 800)), refgen.col_label(rng.randint(0, 800))
        if rng.random() < 0.2:
            r2 = r1
        if rng.random() < 0.2:
            c2 = c1
        d = [rng.choice(['', '$']) for _ in range(4)]
        host = dict(vars={}, funs={'F': 'record'}, cells={}, ranges=[rng.choice(POOL) for _ in range(rng.randint(0, 2))])
        for (ca, ra), (cb, rb) in (((c1, r1), (c2, r2)), ((c2, r2), (c1, r1)), ((c1, r2), (c2, r1)), ((c2, r1), (c1, r2))):
            a = d[0] + (ca if rng.random() < 0.7 else ca.lower()) + d[1] + str(ra)
            b = d[2] + cb + d[3] + str(rb)
            items.append((('range', a, b), host, None))
            items.append((('call', 'F', [('range', a, b)]), host, None))
    # whole-formula references whose spelling something else might read (float words, function names that are cell labels)
    for nm in ('inf', 'nan', 'Infinity', 'NaN', 'INF', 'infinity', 'e', 'E', 'None', 'True'):
        for text in (nm, ' ' + nm + ' ', '(' + nm + ')', nm + '+0'):
            tree = ('var', nm) if '+' not in text and '(' not in text else (('par', ('var', nm)) if '(' in text else ('add', ('var', nm), ('num', 0)))
            items.append((tree, dict(vars={nm: 5}, funs={}, cells={}, ranges=[]), text))
            items.append((tree, dict(vars={}, funs={}, cells={}, ranges=[], varset={nm: [7]}), text))
    from hotxlfp import formulas as _formulas
    for fnm in sorted(_formulas.supported()):
        if refgen.CELL_SHAPED.match(fnm):
            for lab in (fnm, fnm.lower(), '$' + fnm):
                host = dict(vars={}, funs={}, cells={(lab.upper()): [rng.choice(POOL)]}, ranges=[])
                items.append((('cell', lab), host, None))
                items.append((('add', ('cell', lab), ('num', 1)), dict(vars={}, funs={}, cells={lab.upper(): [4]}, ranges=[]), None))
    n = 3 if big else 2
    for k in range(0, n + 1):
        for script in itertools.product(POOL[:8], repeat=k):
            script = list(script)
            items.append((('cell', 'b7'), dict(vars={}, funs={}, cells={'B7': script}, ranges=[]), None))
            items.append((('range', 'A1', 'B2'), dict(vars={}, funs={}, cells={}, ranges=script), None))
            items.append((('var', 'alpha'), dict(vars={'alpha': 5}, funs={}, cells={}, ranges=[], varset={'alpha': script}), None))
            items.append((('var', 'unset'), dict(vars={}, funs={}, cells={}, ranges=[], varset={'unset': script}), None))
            items.append((('call', 'K', []), dict(vars={}, funs={'K': ('const', 9)}, cells={}, ranges=[], funset={'K': script}), None))
    return items


def explore(ctx):
    R = Result()
    rng = ctx.rng
    big = ctx.thorough
    items = []
    depths = {}
    for _ in range(40000 if big else 2500):
        host = rand_host(rng)
        d = rng.randint(1, 5 if big else 4)
        g = refgen.Gen(rng, host)
        tree = g.any(d)
        depths[d] = depths.get(d, 0) + 1
        items.append((tree, host, refgen.render(tree, rng if rng.random() < 0.5 else None)))
    items += [(t, h, f if f is not None else refgen.render(t)) for (t, h, f) in sweep_items(rng, big)]
    cases = [refgen.to_case(t, h, f) for (t, h, f) in items]
    compare(R, ctx, 'parse', cases, interp.enc_case, _impl, key=lambda c: (c['formula'], repr(c['cells']), repr(c['ranges'])), eq=interp.eq_case)
    for (item, vs) in zip(items, pmap(_oracle, items)):
        for (w, cls, e, g) in vs:
            R.violate({'tree': item[0], 'host': item[1], 'formula': item[2]}, w, cls, repr(e), repr(g))
    R.evaluations += len(items)
    ri = reentrant_items()
    for (item, vs) in zip(ri, pmap(check_reentrant, ri)):
        for (w, cls, e, g) in vs:
            R.violate({'reentrant': list(item)}, w, cls, repr(e), repr(g))
    R.evaluations += len(ri)
    nrefs = sum(1 for (t, h, f) in items if len(refgen.positions(t)) > 2)
    R.extra['tree_depths'] = depths
    R.extra['formulas_with_3_or_more_nodes'] = nrefs
    R.rule = ('random trees (depth 1..%d) mixing numbers, variables, cells, ranges, record / identity / constant custom functions with '
              '0-4 arguments, unary minus, +, parentheses, on random hosts (cell / range / variable / function listeners handing 0-3 '
              'values from %r to the setter), rendered with and without white space; a sweep of cell labels (3 case variants x 4 $ '
              'patterns x columns A..XFD and beyond, up to 5 letters x rows 1..1048577 and beyond), rectangles in all four corner '
              'orders with random $ and case, and all setter scripts of length <= %d over 8 values for cell, range, variable (set '
              'and unset) and function events; every case: recorded listener calls and record vs the model and vs the oracle '
              'computed from the generating tree; listeners that hand a value to the setter and then evaluate another formula on '
              'the same parser (4 events x 8 values x 7 inner formulas, one or two listeners).' % (5 if big else 4, POOL, 3 if big else 2))
    return R


def search(ctx, proof, res):
    R = Result()
    rng = random.Random(ctx.seed + 77)
    items = []
    for _ in range(20000):
        host = rand_host(rng)
        tree = refgen.Gen(rng, host).any(rng.randint(1, 4))
        items.append((tree, host, refgen.render(tree)))
    items += [(t, h, f if f is not None else refgen.render(t)) for (t, h, f) in sweep_items(rng, False)]
    for (item, vs) in zip(items, pmap(_oracle, items)):
        for (w, cls, e, g) in vs:
            R.violate({'tree': item[0], 'host': item[1], 'formula': item[2]}, w, cls, repr(e), repr(g))
    ri = reentrant_items()
    for (item, vs) in zip(ri, pmap(check_reentrant, ri)):
        for (w, cls, e, g) in vs:
            R.violate({'reentrant': list(item)}, w, cls, repr(e), repr(g))
    R.evaluations = len(items) + len(ri)
    return R
