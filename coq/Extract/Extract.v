(* Extraction of the executable model for the correspondence runner.
   ExtrOcamlBasic only: bool, option, unit, list, prod, sumbool map to OCaml's;
   Z/positive/N/nat stay the extracted inductive types.  No Extract Constant. *)
From Coq Require Import Extraction ExtrOcamlBasic.
From HX Require Import Model.Entries.
Extraction "model.ml" dispatch.
