(* C05 — Lexical conventions: literals, whitespace, separators, case, empty arguments.
   Property theorems only; proofs are in Proofs/LexicalProofs.v.  Lexer rule order / regex texts and the grammar
   tables are checked / generated from the live code (Gen/Grammar.v: lexer_gen_ok, grammar_gen_ok). *)
From HX Require Import Model.Base Model.Lexer Model.Value Model.Operators Model.Cell Model.Interp Proofs.LexicalProofs Proofs.RefsProofs Proofs.CellProofs Proofs.Whitespace Proofs.LRfull Proofs.Separators.
Open Scope Z_scope.

Theorem C05_generated_tables_understood : lexer_gen_ok = true /\ grammar_gen_ok = true /\ lexer_error_raises_name = true.
Proof. vm_compute. repeat split; reflexivity. Qed.

(* numeric literals evaluate to exactly the number they spell *)
Theorem C05_integer_literal : forall h n, 0 <= n -> number_action h [SVtok (dec_text_of n)] = ROk (SVval (VInt n)).
Proof. exact literal_integer. Qed.
Theorem C05_decimal_literal : forall h ip fp,
  number_action h [SVtok ip; SVtok [46]; SVtok fp] = ROk (SVval (VFlt (Qmake (digits_z (ip ++ fp)) (Z.to_pos (10 ^ Z.of_nat (length fp)))))) /\
  number_action h [SVtok [46]; SVtok fp] = ROk (SVval (VFlt (Qmake (digits_z fp) (Z.to_pos (10 ^ Z.of_nat (length fp)))))).
Proof. exact literal_decimal. Qed.
Theorem C05_decimal_value : forall ip fp,
  (Qmake (digits_z (ip ++ fp)) (Z.to_pos (10 ^ Z.of_nat (length fp))) ==
   inject_Z (digits_z ip) + Qmake (digits_z fp) (Z.to_pos (10 ^ Z.of_nat (length fp))))%Q.
Proof. exact decimal_value_spec. Qed.
Theorem C05_percent_literal : forall h n, list_eqb n [46] = false ->
  number_action h [SVtok n; SVtok [37]] = ROk (SVval (VFlt (Qmake (digits_z n) 100))).
Proof. exact literal_percent. Qed.
Theorem C05_power_literal : forall h a b, list_eqb a [46] = false ->
  number_action h [SVtok a; SVtok [94]; SVtok b] = ROk (SVval (VInt (digits_z a ^ digits_z b))).
Proof. exact literal_power. Qed.
(* a quoted literal evaluates to exactly the characters between its quotes *)
Theorem C05_string_literal : forall h q body, fst (sem_action h 6 [] [SVtok (q :: body ++ [q])]) = ROk (SVval (VText body)).
Proof. exact literal_string. Qed.
Theorem C05_string_token : forall q body r, Forall (fun c => c <> q /\ c <> 92) body ->
  scan_quoted q (body ++ q :: r) = Some (S (length body)).
Proof. exact scan_quoted_plain. Qed.
(* without the "no backslash" hypothesis the statement is false of the model and of the code (known finding) *)
Theorem C05_string_token_backslash_refuted :
  exists body r, Forall (fun c => c <> 34) body /\ scan_quoted 34 (body ++ 34 :: r) <> Some (S (length body)).
Proof. exact string_backslash_refuted. Qed.

(* whitespace: leading white space, and any non-empty white space between tokens that stand alone, never changes
   the token sequence (hence the outcome) *)
Theorem C05_leading_whitespace : forall w s, w <> [] -> all_space w ->
  (match s with c :: _ => is_space c = false | [] => True end) -> lex (w ++ s) = lex s.
Proof. exact leading_whitespace. Qed.
Theorem C05_whitespace_between_tokens : forall ts ws, Forall stands_alone ts -> length ws = length ts ->
  Forall (fun w => all_space w) ws -> (forall i w, nth_error ws i = Some w -> (S i < length ts)%nat -> w <> []) ->
  forall acc, lex_all (length (ws_render ts ws)) (ws_render ts ws) acc = LexOk (rev acc ++ ts).
Proof. exact whitespace_between_tokens. Qed.
Theorem C05_operators_and_separators_stand_alone : Forall stands_alone single_tokens.
Proof. exact single_tokens_stand_alone. Qed.
Theorem C05_numbers_stand_alone : forall ds, ds <> [] -> Forall (fun c => is_digit c = true) ds -> stands_alone (Tok T_NUMBER ds).
Proof. exact number_stands_alone. Qed.

(* separators and omitted slots: all present/absent patterns of up to 6 slots (125; bound stated), by evaluation of
   the real driver on the generated tables: the three separators agree, accepted calls pass exactly the slot list *)
Theorem C05_slots_and_separators : forallb pattern_ok all_patterns = true.
Proof. exact slots_and_separators. Qed.
Theorem C05_array_literals :
  run_arr [n1; comma; n2; comma; n3] = ROk (VList [VInt 1; VInt 2; VInt 3]) /\
  run_arr [n1; semi; n2; semi; n3] = ROk (VList [VInt 1; VInt 2; VInt 3]) /\
  run_arr [n1; back; n2; back; n3] = ROk (VList [VInt 1; VInt 2; VInt 3]) /\
  run_arr [n1; comma; n2; semi; n3; comma; n4] = ROk (VList [VList [VInt 1; VInt 2]; VList [VInt 3; VInt 4]]) /\
  run_arr [n1; back; n2; semi; n3; back; n4] = ROk (VList [VList [VInt 1; VInt 2]; VList [VInt 3; VInt 4]]).
Proof. exact array_literals. Qed.

(* cell references are case-insensitive *)
Theorem C05_cell_case_insensitive : forall h label, call_cell_value h (upper_text label) = call_cell_value h label /\
  (forall b, call_range_value h (upper_text label) b = call_range_value h label b /\
             call_range_value h b (upper_text label) = call_range_value h b label).
Proof. exact cell_case_insensitive. Qed.

Example C05_examples :
  lex [32; 49; 32; 43; 9; 50; 10] = LexOk [Tok T_NUMBER [49]; Tok T_PLUS [43]; Tok T_NUMBER [50]] /\
  lex [34; 97; 92; 34] = LexOk [Tok T_STRING [34; 97; 92; 34]] /\
  lex [70; 32; 40] = LexOk [Tok T_VARIABLE [70]; Tok T_LPAREN [40]] /\
  lex [35; 78; 47; 65; 47; 50] = LexOk [Tok T_XLERROR [35; 78; 47; 65]; Tok T_DIV [47]; Tok T_NUMBER [50]] /\
  lex [120; 49; 121] = LexOk [Tok T_RELATIVE_CELL [120; 49]; Tok T_VARIABLE [121]] /\
  lex [49; 126] = LexError [Tok T_NUMBER [49]].
Proof. vm_compute. repeat split; reflexivity. Qed.


(* white space at ANY subset of the token boundaries (any amount, possibly none at each): the token sequence is unchanged
   as long as, at every boundary, the local condition sep_ok on the token and the NEXT CHARACTER holds - punctuation
   may be followed by anything, an atom (number, name, cell, text) by white space, an operator, a separator or a closing
   bracket, a function name by "(" only (no white space there, as the property says) *)
Theorem C05_whitespace_anywhere : forall ts ws, spaced ts ws -> lex (ws_render ts ws) = LexOk ts.
Proof. exact whitespace_anywhere. Qed.
Theorem C05_local_conditions_suffice : forall t r, sep_ok t r ->
  lexeme t <> [] /\ tk t <> 0 /\ lex_one (lexeme t ++ r) = Some (tk t, length (lexeme t)).
Proof. exact sep_ok_follows. Qed.
Theorem C05_whitespace_example : spaced [Tok T_NUMBER [49]; Tok T_PLUS [43]; Tok T_NUMBER [50]] [[]; [32]; []].
Proof. exact spaced_example. Qed.


(* the choice of separator, independently at every call of a formula and at any depth, with any number of arguments that
   are themselves arbitrary expressions of the reference grammar, never changes what Parser.parse returns (record and events) *)
Theorem C05_separators_never_change_outcome : forall h e e' s s', erase e = erase e' ->
  s <> [] -> lex s = LexOk (xtoks e) -> xwp e -> s' <> [] -> lex s' = LexOk (xtoks e') -> xwp e' ->
  parse_formula h s = parse_formula h s'.
Proof. exact separators_never_change_outcome. Qed.
Theorem C05_separators_example :
  let e := XCall SSemi [70] [XNum [49]; XCall SBack [71] [XNum [50]; XNum [51]]; XVar [120]] in
  let e' := XCall SComma [70] [XNum [49]; XCall SComma [71] [XNum [50]; XNum [51]]; XVar [120]] in
  erase e = erase e' /\ xwp e /\ xwp e' /\
  lex [70;40;49;59;71;40;50;92;51;41;59;120;41] = LexOk (xtoks e) /\ lex [70;40;49;44;71;40;50;44;51;41;44;120;41] = LexOk (xtoks e').
Proof. exact separators_example. Qed.


(* array literals: one separator kind -> the flat list of the item values, for any number of items that are arbitrary
   expressions and a literal with ";" between two rows of at least two items separated by "," or "\" is the list of the two rows *)
Theorem C05_array_is_flat_list : forall h s sp items vs evs, s <> [] -> lex s = LexOk (xtoks (XArr sp items)) -> xwp (XArr sp items) ->
  xvals (xval h) items = (ROk vs, evs) -> parse_formula h s = (PResult (VList vs), evs).
Proof. exact array_literal_parsed. Qed.

Theorem C05_array_two_rows : forall h s rs r1 r2 a ea b eb, s <> [] -> lex s = LexOk (xtoks (XArr2 rs r1 r2)) -> xwp (XArr2 rs r1 r2) ->
  xvals (xval h) r1 = (ROk a, ea) -> xvals (xval h) r2 = (ROk b, eb) -> parse_formula h s = (PResult (VList [VList a; VList b]), ea ++ eb).
Proof. exact array_two_rows_parsed. Qed.

Print Assumptions C05_integer_literal.
Print Assumptions C05_decimal_value.
Print Assumptions C05_string_literal.
Print Assumptions C05_leading_whitespace.
Print Assumptions C05_whitespace_between_tokens.
Print Assumptions C05_operators_and_separators_stand_alone.
Print Assumptions C05_numbers_stand_alone.
Print Assumptions C05_slots_and_separators.
Print Assumptions C05_array_literals.
Print Assumptions C05_cell_case_insensitive.
Print Assumptions C05_whitespace_anywhere.
Print Assumptions C05_local_conditions_suffice.
Print Assumptions C05_separators_never_change_outcome.
Print Assumptions C05_array_is_flat_list.
Print Assumptions C05_array_two_rows.
