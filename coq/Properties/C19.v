(* C19 — Cell labels and row/column indices correspond one-to-one.
   Property theorems only; proofs are in Proofs/CellProofs.v. *)
From HX Require Import Model.Base Model.Cell Proofs.Digits Proofs.CellProofs.

(* index -> label -> index, every non-negative index (unbounded) *)
Theorem C19_col_index_roundtrip : forall col, 0 <= col ->
  col_label_to_index (col_index_to_label col) = col.
Proof. exact col_rt1. Qed.

(* label -> index -> label, every non-empty ASCII-letter label of any length and case *)
Theorem C19_col_label_roundtrip : forall l, l <> [] -> letters l ->
  col_index_to_label (col_label_to_index l) = map upper_ascii l.
Proof. exact col_rt2. Qed.

Theorem C19_col_case_insensitive : forall l,
  col_label_to_index (map upper_ascii l) = col_label_to_index l.
Proof. exact col_case. Qed.

(* one-to-one: injective up to case, onto the non-negative integers *)
Theorem C19_col_injective : forall l1 l2, l1 <> [] -> l2 <> [] -> letters l1 -> letters l2 ->
  col_label_to_index l1 = col_label_to_index l2 -> map upper_ascii l1 = map upper_ascii l2.
Proof. exact col_injective. Qed.

Theorem C19_col_surjective : forall col, 0 <= col ->
  let l := col_index_to_label col in
  l <> [] /\ Forall (fun c => is_upper c = true) l /\ col_label_to_index l = col.
Proof. exact col_surjective. Qed.

(* bijective base-26 order = shortlex: shorter labels first, then letter by letter *)
Theorem C19_col_order_length : forall l1 l2, letters l1 -> letters l2 ->
  (length l1 < length l2)%nat -> col_label_to_index l1 < col_label_to_index l2.
Proof. exact col_shorter_smaller. Qed.

Theorem C19_col_order_lex : forall p c1 c2 s1 s2,
  letters (p ++ c1 :: s1) -> letters (p ++ c2 :: s2) ->
  length s1 = length s2 -> upper_ascii c1 < upper_ascii c2 ->
  col_label_to_index (p ++ c1 :: s1) < col_label_to_index (p ++ c2 :: s2).
Proof. exact col_lex. Qed.

Example C19_anchor_points :
  col_label_to_index [65] = 0 /\ col_label_to_index [90] = 25 /\ col_label_to_index [65; 65] = 26 /\
  col_label_to_index [88; 70; 68] = 16383 /\ col_index_to_label 16383 = [88; 70; 68] /\
  col_label_to_index [120; 102; 100] = 16383.
Proof. vm_compute. repeat split. Qed.

(* rows: label = index + 1 in decimal, and back *)
Theorem C19_row_roundtrip : forall n, 0 <= n ->
  row_index_to_label n = dec_text_of (n + 1) /\ row_label_to_index (row_index_to_label n) = n.
Proof. exact row_rt. Qed.

(* decomposition then recomposition of any cell label: [$]letters[$]row, row a positive
   decimal number without leading zeros; markers reported faithfully; result upper-cased *)
Theorem C19_decompose_recompose : forall s ca ls ra ds,
  label_shaped s ca ls ra ds -> row_number ds ->
  exists r c, extract_label s = Some (r, c) /\
    p_abs r = ra /\ p_abs c = ca /\
    to_label r c = dollar ca ++ map upper_ascii ls ++ dollar ra ++ ds.
Proof. exact extract_to_label. Qed.

Theorem C19_recomposed_is_upper_label : forall ca ls ra ds, digits ds ->
  map upper_ascii (dollar ca ++ ls ++ dollar ra ++ ds) = dollar ca ++ map upper_ascii ls ++ dollar ra ++ ds.
Proof. exact upper_label. Qed.

(* strings that do not have the label shape decompose to nothing *)
Theorem C19_non_labels_decompose_to_nothing : forall s,
  (forall ca ls ra ds, ~ label_shaped s ca ls ra ds) -> extract_label s = None.
Proof. exact extract_none. Qed.

(* hypotheses are inhabited: "$aB$12" *)
Example C19_example_label :
  label_shaped [36; 97; 66; 36; 49; 50] true [97; 66] true [49; 50] /\ row_number [49; 50] /\
  (exists r c, extract_label [36; 97; 66; 36; 49; 50] = Some (r, c) /\ to_label r c = [36; 65; 66; 36; 49; 50] /\
     p_index r = 11 /\ p_index c = 27).
Proof.
  split; [|split].
  - unfold label_shaped, letters, digits. repeat split; try congruence; repeat constructor.
  - exists 12. split; [discriminate|reflexivity].
  - vm_compute. do 2 eexists. repeat split.
Qed.

(* Known finding (recorded, see known_findings.json): the implementation's pattern also
   accepts row numbers that are not positive decimals without leading zeros, so "A0" and
   "A01" decompose although they are not cell labels in the property's sense. *)
Example C19_leading_zero_refuted :
  (exists r c, extract_label [65; 48] = Some (r, c) /\ p_index r = -1) /\
  (exists r c, extract_label [65; 48; 49] = Some (r, c) /\ to_label r c <> [65; 48; 49]).
Proof. split; vm_compute; do 2 eexists; split; try reflexivity; congruence. Qed.

Print Assumptions C19_col_index_roundtrip.
Print Assumptions C19_col_label_roundtrip.
Print Assumptions C19_col_case_insensitive.
Print Assumptions C19_col_injective.
Print Assumptions C19_col_surjective.
Print Assumptions C19_col_order_length.
Print Assumptions C19_col_order_lex.
Print Assumptions C19_row_roundtrip.
Print Assumptions C19_decompose_recompose.
Print Assumptions C19_recomposed_is_upper_label.
Print Assumptions C19_non_labels_decompose_to_nothing.
