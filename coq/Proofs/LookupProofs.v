(* C18: lookup functions return the addressed element or an error, never another one. *)
From HX Require Import Model.Value Model.Comparator Model.Lookup Proofs.ValueProofs.
From Coq Require Import Lia ZifyBool.
Open Scope Z_scope.

(* ---------- CHOOSE ---------- *)
Theorem CHOOSE_spec i vs : vs <> [] -> 1 <= i <= Z.of_nat (length vs) -> i <= 254 ->
  fn_CHOOSE (VInt i :: vs) = Ret (nth (Z.to_nat (i - 1)) vs VBlank).
Proof.
  intros Hne Hi H254. unfold fn_CHOOSE. cbn [length].
  destruct vs as [|v0 vs']; [congruence|]. cbn [length Nat.ltb Nat.leb].
  destruct (i <? 1) eqn:A; [exfalso; lia|]. destruct (254 <? i) eqn:B; [exfalso; lia|]. cbn [orb].
  destruct (Z.of_nat (S (S (length vs'))) <? i + 1) eqn:C; [exfalso; cbn [length] in Hi; lia|].
  f_equal. replace (Z.to_nat i) with (S (Z.to_nat (i - 1))) by lia. reflexivity.
Qed.
Theorem CHOOSE_out_of_range i vs : vs <> [] -> (i < 1 \/ Z.of_nat (length vs) < i) ->
  fn_CHOOSE (VInt i :: vs) = Ret (VErr EVALUE).
Proof.
  intros Hne Hi. unfold fn_CHOOSE. destruct vs as [|v0 vs']; [congruence|]. cbn [length Nat.ltb Nat.leb].
  destruct (i <? 1) eqn:A; [reflexivity|]. destruct (254 <? i) eqn:B; [reflexivity|]. cbn [orb].
  destruct (Z.of_nat (S (S (length vs'))) <? i + 1) eqn:C; [reflexivity|]. cbn [length] in Hi. lia.
Qed.
Theorem CHOOSE_too_few v : fn_CHOOSE [v] = Ret (VErr ENA) /\ fn_CHOOSE [] = Ret (VErr ENA).
Proof. split; reflexivity. Qed.

(* ---------- pick ---------- *)
Lemma pick_in_range l p : 1 <= p <= Z.of_nat (length l) -> exists v, pick (VList l) p = Some v /\ nth_error l (Z.to_nat (p - 1)) = Some v.
Proof.
  intros H. unfold pick. destruct (p <? 1) eqn:A; [exfalso; lia|]. destruct (Z.of_nat (length l) <? p) eqn:B; [exfalso; lia|]. cbn [orb].
  destruct (nth_error l (Z.to_nat (p - 1))) eqn:E; [eauto|]. apply nth_error_None in E. lia.
Qed.
Lemma pick_out_of_range l p : (p < 1 \/ Z.of_nat (length l) < p) -> pick (VList l) p = None.
Proof.
  intros H. unfold pick. destruct (p <? 1) eqn:A; [reflexivity|]. destruct (Z.of_nat (length l) <? p) eqn:B; [reflexivity|]. lia.
Qed.
Lemma pick_some seq p v : pick seq p = Some v ->
  exists l, seq = VList l /\ 1 <= p <= Z.of_nat (length l) /\ nth_error l (Z.to_nat (p - 1)) = Some v.
Proof.
  unfold pick. destruct seq; try discriminate. destruct (p <? 1) eqn:A; [discriminate|].
  destruct (Z.of_nat (length l) <? p) eqn:B; [discriminate|]. cbn [orb]. intros E. exists l. repeat split; try lia. exact E.
Qed.

(* ---------- INDEX on a one-dimensional array ---------- *)
Definition one_dim (l : list value) : Prop := l <> [] /\ Forall is_leaf l.
Lemma one_dim_first l : one_dim l -> exists x r, l = x :: r /\ is_leaf x.
Proof. intros [Hne F]. destruct l as [|x r]; [congruence|]. inversion F; eauto. Qed.

Theorem INDEX_1d_position l p : one_dim l -> p <> 0 ->
  fn_INDEX (VList l) (Some (VInt p)) None =
    if (1 <=? p) && (p <=? Z.of_nat (length l)) then ref_or (nth_error l (Z.to_nat (p - 1))) else Ret (VErr EREF).
Proof.
  intros H Hp. destruct (one_dim_first l H) as (x & r & -> & Lx).
  unfold fn_INDEX. cbn [idx_of]. destruct (p =? 0) eqn:Z0; [exfalso; lia|].
  destruct ((1 <=? p) && (p <=? Z.of_nat (length (x :: r)))) eqn:R.
  - apply andb_prop in R. destruct (pick_in_range (x :: r) p ltac:(lia)) as (v & -> & ->). reflexivity.
  - rewrite pick_out_of_range; [reflexivity|]. apply andb_false_iff in R. lia.
Qed.
Theorem INDEX_1d_whole l : one_dim l -> fn_INDEX (VList l) (Some (VInt 0)) None = Ret (VList l).
Proof. intros H. destruct (one_dim_first l H) as (x & r & -> & Lx). reflexivity. Qed.

(* ---------- INDEX on a two-dimensional array ---------- *)
Definition two_dim (rows : list value) : Prop := rows <> [] /\ Forall (fun r => exists l, r = VList l) rows.
Lemma two_dim_first rows : two_dim rows -> exists l r, rows = VList l :: r.
Proof. intros [Hne F]. destruct rows as [|x r]; [congruence|]. inversion F as [|? ? [l ->] ?]; eauto. Qed.

(* both indices given and non-zero: the addressed element, or #REF! outside the array *)
Theorem INDEX_2d_element rows r c : two_dim rows -> r <> 0 -> c <> 0 ->
  fn_INDEX (VList rows) (Some (VInt r)) (Some (VInt c)) =
    ref_or (match pick (VList rows) r with Some rw => pick rw c | None => None end).
Proof.
  intros H Hr Hc. destruct (two_dim_first rows H) as (l & rest & ->).
  unfold fn_INDEX. cbn [idx_of]. destruct (r =? 0) eqn:R0; [exfalso; lia|]. destruct (c =? 0) eqn:C0; [exfalso; lia|]. reflexivity.
Qed.
Theorem INDEX_2d_inside rows r c rw v : two_dim rows -> r <> 0 -> c <> 0 ->
  nth_error rows (Z.to_nat (r - 1)) = Some (VList rw) -> 1 <= r -> 1 <= c ->
  nth_error rw (Z.to_nat (c - 1)) = Some v ->
  fn_INDEX (VList rows) (Some (VInt r)) (Some (VInt c)) = Ret v.
Proof.
  intros H Hr Hc E1 R1 C1 E2. rewrite INDEX_2d_element by assumption.
  assert (Z.to_nat (r - 1) < length rows)%nat by (apply nth_error_Some; congruence).
  assert (Z.to_nat (c - 1) < length rw)%nat by (apply nth_error_Some; congruence).
  destruct (pick_in_range rows r ltac:(lia)) as (x & -> & E1'). rewrite E1 in E1'. inversion E1'; subst.
  destruct (pick_in_range rw c ltac:(lia)) as (y & -> & E2'). rewrite E2 in E2'. inversion E2'; subst. reflexivity.
Qed.
(* never another element: whatever comes back is #REF! or exactly the element at (r, c) *)
Theorem INDEX_2d_never_another rows r c v : two_dim rows -> r <> 0 -> c <> 0 ->
  fn_INDEX (VList rows) (Some (VInt r)) (Some (VInt c)) = Ret v ->
  v = VErr EREF \/
  exists rw, 1 <= r <= Z.of_nat (length rows) /\ nth_error rows (Z.to_nat (r - 1)) = Some (VList rw) /\
             1 <= c <= Z.of_nat (length rw) /\ nth_error rw (Z.to_nat (c - 1)) = Some v.
Proof.
  intros H Hr Hc E. rewrite INDEX_2d_element in E by assumption.
  destruct (pick (VList rows) r) as [rw|] eqn:P1; [|inversion E; auto].
  destruct (pick rw c) as [x|] eqn:P2; [|inversion E; auto].
  inversion E; subst. right.
  apply pick_some in P1. destruct P1 as (l1 & E1 & R1 & N1). inversion E1; subst.
  apply pick_some in P2. destruct P2 as (l2 & -> & R2 & N2). exists l2. repeat split; try lia; assumption.
Qed.
Theorem INDEX_2d_outside rows r c : two_dim rows -> r <> 0 -> c <> 0 ->
  (r < 1 \/ Z.of_nat (length rows) < r) -> fn_INDEX (VList rows) (Some (VInt r)) (Some (VInt c)) = Ret (VErr EREF).
Proof. intros H Hr Hc Ho. rewrite INDEX_2d_element by assumption. rewrite pick_out_of_range by exact Ho. reflexivity. Qed.
Theorem INDEX_2d_outside_col rows r c rw : two_dim rows -> r <> 0 -> c <> 0 ->
  pick (VList rows) r = Some (VList rw) -> (c < 1 \/ Z.of_nat (length rw) < c) ->
  fn_INDEX (VList rows) (Some (VInt r)) (Some (VInt c)) = Ret (VErr EREF).
Proof. intros H Hr Hc P Ho. rewrite INDEX_2d_element by assumption. rewrite P, pick_out_of_range by exact Ho. reflexivity. Qed.

(* a whole row (column index 0 or omitted) / a whole column (row index 0 or omitted) *)
Theorem INDEX_2d_row rows r : two_dim rows -> r <> 0 ->
  fn_INDEX (VList rows) (Some (VInt r)) None = ref_or (pick (VList rows) r) /\
  fn_INDEX (VList rows) (Some (VInt r)) (Some (VInt 0)) = ref_or (pick (VList rows) r).
Proof.
  intros H Hr. destruct (two_dim_first rows H) as (l & rest & ->). unfold fn_INDEX. cbn [idx_of].
  destruct (r =? 0) eqn:R0; [exfalso; lia|]. split; reflexivity.
Qed.
Theorem INDEX_2d_column rows c : two_dim rows -> c <> 0 ->
  fn_INDEX (VList rows) None (Some (VInt c)) = ref_or (option_map VList (pick_column rows c)) /\
  fn_INDEX (VList rows) (Some (VInt 0)) (Some (VInt c)) = ref_or (option_map VList (pick_column rows c)).
Proof.
  intros H Hc. destruct (two_dim_first rows H) as (l & rest & ->). unfold fn_INDEX. cbn [idx_of].
  destruct (c =? 0) eqn:C0; [exfalso; lia|]. split; reflexivity.
Qed.
Lemma pick_column_spec rows c col : pick_column rows c = Some col ->
  length col = length rows /\ forall i rw, nth_error rows i = Some rw -> exists x, pick rw c = Some x /\ nth_error col i = Some x.
Proof.
  revert col. induction rows as [|r rs IH]; intros col E.
  - inversion E; subst. split; [reflexivity|]. intros [|i] rw; discriminate.
  - cbn [pick_column] in E. destruct (pick r c) as [x|] eqn:P; [|discriminate].
    destruct (pick_column rs c) as [xs|] eqn:Q; [|discriminate]. inversion E; subst.
    destruct (IH xs eq_refl) as [L S]. split; [cbn; lia|]. intros [|i] rw N; cbn in N |- *.
    + inversion N; subst. eauto.
    + apply S. exact N.
Qed.

(* ---------- MATCH type 0 ---------- *)
Definition not_text (x : value) : Prop := match x with VText _ => False | _ => True end.

Lemma match_exact_first x l : not_text x -> forall i,
  match match_exact x l i with
  | Some (Some p) => exists pre a post, l = pre ++ a :: post /\ p = i + Z.of_nat (length pre) + 1 /\ py_eq a x = true /\
                                       Forall (fun b => py_eq b x = false) pre
  | Some None => Forall (fun b => py_eq b x = false) l
  | None => False
  end.
Proof.
  intros Hx. induction l as [|a r IH]; intros i; cbn [match_exact].
  - destruct x; constructor.
  - assert (match_exact x (a :: r) i = if py_eq a x then Some (Some (i + 1)) else match_exact x r (i + 1)) as E
      by (destruct x; try reflexivity; contradiction).
    cbn [match_exact] in E. rewrite E. clear E. destruct (py_eq a x) eqn:Q.
    + exists [], a, r. repeat split; [cbn; lia|exact Q|constructor].
    + specialize (IH (i + 1)). destruct (match_exact x r (i + 1)) as [[p|]|]; [|constructor; assumption|exact IH].
      destruct IH as (pre & b & post & -> & -> & Qb & F). exists (a :: pre), b, post.
      repeat split; [cbn [length]; lia|exact Qb|constructor; assumption].
Qed.

Lemma fn_MATCH_0 x l : truthy (VList l) = true ->
  fn_MATCH x (VList l) 0 = match match_exact x l 0 with
                           | None => PyExc
                           | Some (Some i) => if i =? 0 then Ret (VErr ENA) else Ret (VInt i)
                           | Some None => Ret (VErr ENA)
                           end.
Proof.
  intros Hl. unfold fn_MATCH. rewrite Hl. cbn [negb]. rewrite andb_false_r.
  change (negb ((0 =? -1) || (0 =? 0) || (0 =? 1))) with false. reflexivity.
Qed.

Theorem MATCH0_first x l p : not_text x -> truthy (VList l) = true -> fn_MATCH x (VList l) 0 = Ret (VInt p) ->
  exists pre a post, l = pre ++ a :: post /\ p = Z.of_nat (length pre) + 1 /\ py_eq a x = true /\
                     Forall (fun b => py_eq b x = false) pre.
Proof.
  intros Hx Hl. rewrite (fn_MATCH_0 x l Hl).
  pose proof (match_exact_first x l Hx 0) as M. destruct (match_exact x l 0) as [[q|]|]; try discriminate.
  destruct (q =? 0) eqn:Q0; [discriminate|]. intros E. inversion E; subst.
  destruct M as (pre & a & post & -> & -> & Qa & F). exists pre, a, post. repeat split; try assumption; lia.
Qed.
Theorem MATCH0_none x l : not_text x -> truthy (VList l) = true ->
  (fn_MATCH x (VList l) 0 = Ret (VErr ENA) <-> Forall (fun b => py_eq b x = false) l).
Proof.
  intros Hx Hl. rewrite (fn_MATCH_0 x l Hl).
  pose proof (match_exact_first x l Hx 0) as M. destruct (match_exact x l 0) as [[q|]|]; [|tauto|contradiction].
  destruct M as (pre & a & post & -> & -> & Qa & F).
  destruct (0 + Z.of_nat (length pre) + 1 =? 0) eqn:Q0; [exfalso; lia|]. split; [discriminate|].
  intros G. apply Forall_app in G. destruct G as [_ G]. inversion G; subst. congruence.
Qed.

(* INDEX(array, MATCH(x, array, 0)) is an element equal to x whenever x occurs in the array *)
Theorem INDEX_MATCH_inverse x l : not_text x -> one_dim l -> (exists a, In a l /\ py_eq a x = true) ->
  exists p a, fn_MATCH x (VList l) 0 = Ret (VInt p) /\ fn_INDEX (VList l) (Some (VInt p)) None = Ret a /\ py_eq a x = true.
Proof.
  intros Hx H1 (a0 & Hin & Hq).
  assert (truthy (VList l) = true) as Hl by (destruct H1 as [Hne _]; destruct l; [congruence|reflexivity]).
  destruct (fn_MATCH x (VList l) 0) as [v| |] eqn:M.
  - rewrite (fn_MATCH_0 x l Hl) in M.
    pose proof (match_exact_first x l Hx 0) as S. destruct (match_exact x l 0) as [[q|]|]; [| |contradiction].
    + destruct S as (pre & a & post & -> & -> & Qa & F).
      destruct (0 + Z.of_nat (length pre) + 1 =? 0) eqn:Q0; [exfalso; lia|]. inversion M; subst.
      exists (0 + Z.of_nat (length pre) + 1), a. split; [reflexivity|]. split; [|exact Qa].
      rewrite INDEX_1d_position by (try assumption; lia).
      rewrite app_length. cbn [length].
      destruct ((1 <=? 0 + Z.of_nat (length pre) + 1) && (0 + Z.of_nat (length pre) + 1 <=? Z.of_nat (length pre + S (length post)))) eqn:R;
        [|exfalso; apply andb_false_iff in R; lia].
      replace (Z.to_nat (0 + Z.of_nat (length pre) + 1 - 1)) with (length pre) by lia.
      rewrite nth_error_app2 by lia. rewrite Nat.sub_diag. reflexivity.
    + exfalso. rewrite Forall_forall in S. specialize (S a0 Hin). congruence.
  - rewrite (fn_MATCH_0 x l Hl) in M.
    destruct (match_exact x l 0) as [[q|]|]; try discriminate. destruct (q =? 0); discriminate.
  - rewrite (fn_MATCH_0 x l Hl) in M.
    pose proof (match_exact_first x l Hx 0) as S. destruct (match_exact x l 0) as [[q|]|]; try contradiction; try discriminate.
    destruct (q =? 0); discriminate.
Qed.

Theorem MATCH_bad_type x l ty : ty <> -1 -> ty <> 0 -> ty <> 1 -> fn_MATCH x (VList l) ty = Ret (VErr ENA).
Proof.
  intros A B C. unfold fn_MATCH. destruct (negb (truthy x) && negb (truthy (VList l))); [reflexivity|].
  destruct (ty =? -1) eqn:E1; [exfalso; lia|]. destruct (ty =? 0) eqn:E2; [exfalso; lia|]. destruct (ty =? 1) eqn:E3; [exfalso; lia|]. reflexivity.
Qed.
