# -*- coding: utf-8 -*-
"""C17 - rounding, integer functions, radix conversions.  Models: coq/Model/Rounding.v, Radix.v.  Theorems: Properties/C17.v."""
import math
from fractions import Fraction

from common import confirm_hang, Result, pmap, compare, enc_value, dec_value, canon_py, Catch, HANG, ERR_CODES

ID = 'C17'
COQ_FILES = ['Properties/C17.v', 'Proofs/RoundingProofs.v', 'Proofs/RadixProofs.v', 'Proofs/Digits.v']
TRUSTED = [
    'ideal arithmetic: the rounding functions are modelled over exact rationals; the implementation computes in floats '
    '(results compared as correctly rounded, or within 2^-50 relative for double roundings; decimal fractions are checked by '
    'the oracle with a tolerance only)',
    'modelled, not verified: Python round(), math.ceil/floor, int(), %, //, hex(), int(text, base) on plain digit strings '
    '(sign, blanks, underscores and 0x prefixes accepted by int() are outside the model), re on the ARABIC pattern',
]
EXPLANATION = ('Coq theorems: ROUND/ROUNDUP/ROUNDDOWN as integers k in units of 10^-digits with |x/u-k| <= 1/2, |x|/u <= |k| < '
               '|x|/u+1, |k| <= |x|/u < |k|+1; CEILING/FLOOR adjacent multiples on the documented side for either sign of '
               'number and significance; INT = floor; EVEN/ODD; QUOTIENT truncation; MOD identity and sign; SIGN; FACT and '
               'FACTDOUBLE recursions; errors for zero divisors and negative factorials; HEX2DEC(DEC2HEX n) = n on the whole '
               '40-bit range and DECIMAL(BASE(n,r),r) = n for every radix 2..36 (unbounded digit-string lemmas), letter digits, '
               'rejections; ROMAN/ARABIC by an exhaustive sweep of the finite domain 1..3999 x forms 0..4. Tied to the code by '
               'correspondence (ints/dyadics exact, ROMAN/ARABIC exhaustive, radix boundaries) and an oracle through '
               'Parser.parse with a per-call time limit.')
ASSUMPTIONS = ['numbers are ints and floats (numeric text and logicals go through parse_number, checked by the oracle)']

RFN = {'ROUND': 0, 'ROUNDUP': 1, 'ROUNDDOWN': 2, 'CEILING': 3, 'FLOOR': 4, 'INT': 5, 'EVEN': 6, 'ODD': 7, 'QUOTIENT': 8,
       'MOD': 9, 'SIGN': 10, 'FACT': 11, 'FACTDOUBLE': 12}
ONE_ARG = ('INT', 'EVEN', 'ODD', 'SIGN', 'FACT', 'FACTDOUBLE')
NOPLACES = -1000000


def reg(name):
    from hotxlfp import formulas
    return formulas.get_for(name)


def _impl_round_raw(c):
    from hotxlfp.formulas.error import XLError
    name, x, y = c
    v = reg(name)(x) if name in ONE_ARG else reg(name)(x, y)
    if isinstance(v, XLError):
        return ('E', str(v))
    return ('R', canon_py(v))


_impl_round = Catch(_impl_round_raw, ('X',))


def enc_round(c):
    name, x, y = c
    return [RFN[name]] + enc_value(x) + enc_value(y if y is not None else 0)


def eq_round(model, impl):
    if impl == HANG:
        return False
    if model[0] == 2:
        return impl == ('X',)
    if model[0] == 1:
        return impl == ('E', ERR_CODES[model[1]])
    v = dec_value(model, 1)[0]
    if impl[0] != 'R':
        return False
    i = impl[1]
    if v[0] == 'F' and i[0] == 'F' and not isinstance(i[1], str):
        if v[1] == i[1]:
            return True
        try:
            if Fraction(float(v[1])) == i[1]:
                return True
        except OverflowError:
            return False
        return abs(v[1] - i[1]) <= abs(v[1]) * Fraction(1, 2 ** 50)
    return v == i


def _impl_radix_raw(c):
    from hotxlfp.formulas.error import XLError
    k = c[0]
    if k == 0:
        v = reg('DEC2HEX')(c[1]) if c[2] == NOPLACES else reg('DEC2HEX')(c[1], c[2])
    elif k == 1:
        v = reg('HEX2DEC')(c[1])
    elif k == 2:
        v = reg('BASE')(c[1], c[2]) if c[3] == NOPLACES else reg('BASE')(c[1], c[2], c[3])
    elif k == 3:
        v = reg('DECIMAL')(c[2], c[1])
    elif k == 4:
        v = reg('ROMAN')(c[1], c[2])
    else:
        v = reg('ARABIC')(c[1])
    if isinstance(v, XLError):
        return {'#NUM!': [2], '#VALUE!': [3]}.get(str(v), ['ERR', str(v)])
    if isinstance(v, str):
        return [0, len(v)] + [ord(ch) for ch in v]
    if isinstance(v, bool):
        return ['BOOL']
    if isinstance(v, int):
        return [1, v]
    return ['OTHER', repr(v)]


_impl_radix = Catch(_impl_radix_raw, [4])


def enc_radix(c):
    k = c[0]
    if k == 0:
        return [0, c[1], c[2]]
    if k == 1:
        return [1, len(c[1])] + [ord(ch) for ch in c[1]]
    if k == 2:
        return [2, c[1], c[2], c[3]]
    if k == 3:
        return [3, c[1], len(c[2])] + [ord(ch) for ch in c[2]]
    if k == 4:
        return [4, c[1], c[2]]
    return [5, len(c[1])] + [ord(ch) for ch in c[1]]


# ---------------- oracle through Parser.parse ----------------
def lit(x):
    if isinstance(x, str):
        return '"%s"' % x
    if isinstance(x, bool):
        return 'TRUE' if x else 'FALSE'
    if x < 0:
        return '(0-%s)' % lit(-x)
    if isinstance(x, float):
        return repr(x) if 'e' not in repr(x) else '%.20f' % x
    return str(x)


def pv(f):
    import hotxlfp
    r = hotxlfp.Parser().parse(f)
    return r['result'] if r['error'] is None else ('ERR', r['error'])


def is_err(v):
    return isinstance(v, tuple)


def isnum(v):
    return isinstance(v, (int, float)) and not isinstance(v, bool)


TOL = Fraction(1, 10 ** 9)
TOLX = Fraction(1, 2 ** 48)      # allowance for the rounding of one double division / multiplication (16 ulp), relative to the argument


def check_numeric(c):
    """The specification is checked under both readings of a float argument - the exact binary value and the decimal it is
    spelled with - and a clause fails only if it fails under every reading (the property allows floating-point rounding)."""
    x, d, s = c
    readings = []
    for X in sorted(set([Fraction(x), Fraction(repr(x)) if isinstance(x, float) else Fraction(x)])):
        for S in sorted(set([Fraction(s), Fraction(repr(s)) if isinstance(s, float) else Fraction(s)])):
            readings.append(check_numeric_reading(x, d, s, X, S))
    keys = [set(w for (w, _, _, _) in r) for r in readings]
    common = set.intersection(*keys) if keys else set()
    return [t for t in readings[0] if t[0] in common]


def check_numeric_reading(x, d, s, X, S):
    out = []

    def bad(f, want, got):
        out.append((f, None, want, got))
    # ROUND family (digits d)
    u = Fraction(10) ** (-d)
    for fn in ('ROUND', 'ROUNDUP', 'ROUNDDOWN'):
        f = '%s(%s,%s)' % (fn, lit(x), lit(d))
        r = pv(f)
        if not isnum(r):
            bad(f, 'a number', r)
            continue
        R = Fraction(r)
        k = R / u
        if abs(k - round(k)) > TOL * max(1, abs(k)):
            bad(f, 'a multiple of 10^%d' % -d, r)
        slack = TOLX * max(abs(X), u)
        if fn == 'ROUND' and abs(R - X) > u / 2 + slack:
            bad(f, 'within half a unit of %r' % x, r)
        if fn == 'ROUNDUP' and not (abs(X) - slack <= abs(R) < abs(X) + u + slack and (R == 0 or (R > 0) == (X > 0))):
            bad(f, '|x| <= |r| < |x|+u', r)
        if fn == 'ROUNDDOWN' and not (abs(R) - slack <= abs(X) < abs(R) + u + slack and (R == 0 or (R > 0) == (X > 0))):
            bad(f, '|r| <= |x| < |r|+u', r)
    # CEILING / FLOOR (significance s)
    for fn in ('CEILING', 'FLOOR'):
        f = '%s(%s,%s)' % (fn, lit(x), lit(s))
        r = pv(f)
        if S == 0:
            if r != 0:
                bad(f, 0, r)
            continue
        if fn == 'FLOOR' and X > 0 and S < 0:
            if r != ('ERR', '#NUM!'):
                bad(f, '#NUM!', r)
            continue
        if not isnum(r):
            bad(f, 'a number', r)
            continue
        R = Fraction(r)
        A = abs(S)
        k = R / A
        slack = TOLX * max(abs(X), A)
        if abs(k - round(k)) > TOL * max(1, abs(k)):
            bad(f, 'a multiple of the significance', r)
        up = (fn == 'CEILING') if (X >= 0 or S > 0) else (fn == 'FLOOR')     # which side of the number the result lies
        if up and not (X - slack <= R < X + A + slack):
            bad(f, 'the multiple at or above the number', r)
        if not up and not (R - slack <= X < R + A + slack):
            bad(f, 'the multiple at or below the number', r)
    # INT, EVEN, ODD, SIGN
    fl = math.floor(X)
    for f, want in (('INT(%s)' % lit(x), fl), ('SIGN(%s)' % lit(x), (X > 0) - (X < 0))):
        r = pv(f)
        if r != want or isinstance(r, bool):
            bad(f, want, r)
    c_ = math.ceil(abs(X))
    ev = c_ if c_ % 2 == 0 else c_ + 1
    od = c_ if c_ % 2 == 1 else c_ + 1
    for f, want in (('EVEN(%s)' % lit(x), ev if X >= 0 else -ev), ('ODD(%s)' % lit(x), od if X >= 0 else -od)):
        r = pv(f)
        if r != want:
            bad(f, want, r)
    # QUOTIENT, MOD with divisor s
    fq, fm = 'QUOTIENT(%s,%s)' % (lit(x), lit(s)), 'MOD(%s,%s)' % (lit(x), lit(s))
    rq, rm = pv(fq), pv(fm)
    if S == 0:
        if not is_err(rq):
            bad(fq, 'an error', rq)
        if not is_err(rm):
            bad(fm, 'an error', rm)
    else:
        q = X / S
        want = math.floor(q) if q >= 0 else math.ceil(q)
        if rq != want and abs(X) < 2 ** 52 and abs(S) > Fraction(1, 2 ** 20):
            bad(fq, want, rq)
        if not isnum(rm):
            bad(fm, 'a number', rm)
        else:
            M = Fraction(rm)
            k = (X - M) / S
            if abs(k - round(k)) > TOL * max(1, abs(k)) or not ((S > 0 and 0 <= M < S) or (S < 0 and S < M <= 0)):
                bad(fm, 'number = divisor*integer + MOD with the sign of the divisor', rm)
    return out


def dfact(n):
    r = 1
    while n > 1:
        r *= n
        n -= 2
    return r


def check_fact(n):
    out = []
    for f, want in (('FACT(%s)' % lit(n), math.factorial(int(n)) if n >= 0 else 'error'),
                    ('FACTDOUBLE(%s)' % lit(n), dfact(int(n)) if n >= 0 else 'error')):
        r = pv(f)
        if want == 'error':
            if not is_err(r):
                out.append((f, None, 'an error', r))
        elif r != want:
            out.append((f, None, want, r))
    return out


def check_hex(n):
    out = []
    inr = -2 ** 39 <= n < 2 ** 39
    f = 'HEX2DEC(DEC2HEX(%s))' % lit(n)
    r = pv(f)
    if inr and r != n:
        out.append((f, None, n, r))
    if not inr:
        r1 = pv('DEC2HEX(%s)' % lit(n))
        if not is_err(r1):
            out.append(('DEC2HEX(%s)' % lit(n), None, 'an error (outside 40 bits)', r1))
    if inr:
        h = pv('DEC2HEX(%s)' % lit(n))
        want = '%X' % (n if n >= 0 else n + 2 ** 40)
        if h != want:
            out.append(('DEC2HEX(%s)' % lit(n), None, want, h))
    return out


DIG = '0123456789ABCDEFGHIJKLMNOPQRSTUVWXYZ'


def to_base(n, r):
    s = ''
    while n:
        s = DIG[n % r] + s
        n //= r
    return s or '0'


def check_base(c):
    n, r = c
    out = []
    f = 'BASE(%s,%s)' % (lit(n), lit(r))
    b = pv(f)
    ok_args = isinstance(r, int) and 2 <= r <= 36 and n >= 0
    if ok_args:
        if b != to_base(n, r):
            out.append((f, None, to_base(n, r), b))
        f2 = 'DECIMAL(BASE(%s,%s),%s)' % (lit(n), lit(r), lit(r))
        d = pv(f2)
        if n < 2 ** 39 and d != n:
            out.append((f2, None, n, d))
    elif (isinstance(r, int) or r == int(r)) and (r < 2 or r > 36 or n < 0):
        if not is_err(b):
            out.append((f, None, 'an error (radix outside 2..36 or negative number)', b))
    return out


def roman_val(s):
    v = {'M': 1000, 'D': 500, 'C': 100, 'L': 50, 'X': 10, 'V': 5, 'I': 1}
    t = 0
    for i, ch in enumerate(s):
        if i + 1 < len(s) and v[ch] < v[s[i + 1]]:
            t -= v[ch]
        else:
            t += v[ch]
    return t


def check_roman(n):
    import hotxlfp
    p = hotxlfp.Parser()
    out = []
    for form in range(5):
        r = p.parse('ROMAN(%d,%d)' % (n, form))['result']
        if not isinstance(r, str) or not r or any(ch not in 'MDCLXVI' for ch in r) or roman_val(r) != n:
            out.append(('ROMAN(%d,%d)' % (n, form), None, 'a numeral denoting %d' % n, r))
    r = p.parse('ARABIC(ROMAN(%d))' % n)
    if r['result'] != n:
        out.append(('ARABIC(ROMAN(%d))' % n, None, n, r))
    return out


def check_complex(c):
    a, b = c
    out = []
    for f, want in (('IMREAL(COMPLEX(%s,%s))' % (lit(a), lit(b)), a), ('IMAGINARY(COMPLEX(%s,%s))' % (lit(a), lit(b)), b)):
        r = pv(f)
        if r != want:
            out.append((f, None, want, r))
    return out


CHECKERS = {'numeric': check_numeric, 'fact': check_fact, 'hex': check_hex, 'base': check_base, 'roman': check_roman,
            'complex': check_complex}


def check_case(case):
    if 'formula' in case:
        f = case['formula']
        want = {'BASE(255,16)': 'FF', 'ODD(0)': 1}.get(f)
        got = pv(f)
        if f.startswith('DEC2HEX(549755813888'):
            return [] if is_err(got) else [{'case': case, 'what': f, 'class': None, 'expected': 'an error', 'observed': got}]
        return [] if want is None or got == want else [{'case': case, 'what': f, 'class': None, 'expected': want, 'observed': got}]
    for k, fn in CHECKERS.items():
        if k in case:
            c = case[k]
            return [{'case': case, 'what': w, 'class': cls, 'expected': repr(e), 'observed': repr(g)}
                    for (w, cls, e, g) in fn(tuple(c) if isinstance(c, list) else c)]
    return []


def _worker(kc):
    k, c = kc
    return [(k, c) + x for x in CHECKERS[k](c)]


def explore(ctx):
    R = Result()
    rng = ctx.rng
    big = ctx.thorough
    # ---------- correspondence: rounding (ints and dyadic floats: exact) ----------
    xs = list(range(-40, 41)) + [rng.randint(-3000, 3000) for _ in range(150 if big else 40)] + \
        [rng.randint(-2 ** 20, 2 ** 20) / 2.0 ** rng.randint(1, 10) for _ in range(300 if big else 60)] + \
        [0.5, -0.5, 1.5, 2.5, -2.5, 0.25, 1250, 1350, 1450, -1250, 2 ** 53 + 1, 0.0, True]
    cases = []
    for x in xs:
        for d in range(-6, 7):
            for fn in ('ROUND', 'ROUNDUP', 'ROUNDDOWN'):
                if d >= 0 or fn == 'ROUND' or isinstance(x, int):
                    cases.append((fn, x, d))
        for fn in ONE_ARG:
            if fn in ('FACT', 'FACTDOUBLE') and abs(x) > 60:
                continue
            cases.append((fn, x, None))
        for s in (1, 2, 3, -1, -2, 0, 0.5, -0.5, 0.25, 7, 10, 1024, -3, 1.5):
            for fn in ('CEILING', 'FLOOR', 'QUOTIENT', 'MOD'):
                if abs(x) > 2 ** 52 and (fn != 'MOD' or isinstance(s, float)):
                    continue        # these go through float division: beyond 2^53 the float caveat applies
                cases.append((fn, x, s))
    compare(R, ctx, 'rounding', cases, enc_round, _impl_round, key=repr, eq=eq_round, limit=5.0)
    # ---------- correspondence: radix ----------
    rc = []
    edge = [0, 1, 15, 16, 255, 2 ** 39 - 1, 2 ** 39, 2 ** 39 + 1, -1, -16, -2 ** 39, -2 ** 39 - 1, 2 ** 40 - 1, 2 ** 40, -2 ** 40]
    span = 2 ** 12 if big else 24
    for k in range(0, 11):
        edge += list(range(16 ** k - span, 16 ** k + span))
    edge += [n for b in (2 ** 39, -2 ** 39) for n in range(b - span, b + span)]
    edge += [rng.randint(-2 ** 40, 2 ** 40) for _ in range(4000 if big else 500)]
    for n in edge:
        rc.append((0, n, NOPLACES))
    for n in (0, 1, 255, 4095, -1, 2 ** 39 - 1):
        for pl in (-1, 0, 1, 2, 3, 4, 10, 12):
            rc.append((0, n, pl))
    hexs = ['%X' % (n % 2 ** 40) for n in edge[:600]] + ['%x' % rng.randint(0, 2 ** 44) for _ in range(300)] + \
           ['', 'G', 'ZZZ', '12G', 'FFFFFFFFFF', '10000000000', '8000000000', '7FFFFFFFFF', 'ffffffffff', 'aBc', '-1', ' 1', '1 ']
    rc += [(1, h) for h in hexs if not any(ch in h for ch in '-_ +') or h in ('',)]
    nmax = 2000 if big else 260
    for r in range(-2, 41):
        for n in list(range(0, nmax)) + [-1, -5, 2 ** 39 - 1, 36 ** 7, 36 ** 7 - 1]:
            rc.append((2, n, r, NOPLACES))
    for n in (0, 5, 255):
        for pl in (-1, 0, 1, 3, 8, 10):
            rc.append((2, n, 2, pl))
            rc.append((2, n, 16, pl))
    for _ in range(3000 if big else 400):
        r = rng.randint(2, 36)
        n = rng.randint(0, 2 ** 39 - 1)
        rc.append((2, n, r, NOPLACES))
        rc.append((3, r, to_base(n, r) if rng.random() < 0.8 else to_base(n, r).lower()))
    for r in (1, 2, 10, 16, 36, 37, -1):
        for t in ('', 'Z', '10', 'zz', '19', 'A', '2', '1' * 50):
            if r != 0:
                rc.append((3, r, t))
    for n in range(-2, 4003):
        for form in range(-1, 6):
            if 1 <= n <= 3999 and 0 <= form <= 4 or rng.random() < 0.02:
                rc.append((4, n, form))
    import hotxlfp
    roman = reg('ROMAN')
    for n in range(1, 4000):
        rc.append((5, roman(n, 0)))
    rc += [(5, t) for t in ['', 'IIII', 'VV', 'IC', 'MMMMM', 'MMMM', 'abc', 'mcmxcix', 'MCMXCIXI', 'XM', 'IM', 'VX', 'IL', 'CMM',
                            'XXXX', 'DD', 'CDC', 'IXI', 'IVI', 'M M']]
    compare(R, ctx, 'radix', rc, enc_radix, _impl_radix, key=repr, limit=5.0)
    R.exhaustive = True   # ROMAN x forms and ARABIC(ROMAN) are exhaustive over 1..3999
    # ---------- oracle ----------
    work = []
    nums = list(range(-30, 31)) + [rng.randint(-3000, 3000) for _ in range(300 if big else 40)] + \
        [rng.randint(-2 ** 16, 2 ** 16) / 2.0 ** rng.randint(1, 8) for _ in range(300 if big else 40)] + \
        [round(rng.uniform(-1000, 1000), rng.randint(1, 4)) for _ in range(300 if big else 40)] + [0.1, 0.7, 1.005, 2.675, -0.29] + \
        [1234567.999, 8388607.99609375, -1234567.0005, 2469135.998, 99999.9999, -8388607.99609375, 123456789.75] + \
        [rng.choice([1, -1]) * (rng.randint(10 ** 5, 10 ** 9) + rng.choice([1, -1]) * rng.choice([2.0 ** -8, 2.0 ** -10, 0.001, 0.0005, 0.01]))
         for _ in range(200 if big else 30)]          # large, a hair away from a whole number
    sigs = [1, 2, 3, -1, -2, 0, 0.5, -0.5, 0.25, 7, 10, -3, 0.1, 1.5, 100]
    for x in nums:
        for d in (rng.sample(range(-6, 7), 4) if not big else range(-6, 7)):
            work.append(('numeric', (x, d, rng.choice(sigs))))
    work += [('fact', n) for n in list(range(-3, 25)) + [0.5, 3.7, 50, 170]]
    work += [('hex', n) for n in edge[:(len(edge) if big else 1500)]]
    # every n up to 8192 and a band of 40-bit values: covers the digit strings that read as something else (1E5, 7E0, 0X.., INF)
    work += [('hex', n) for n in range(0, 8192)] + [('hex', -n) for n in range(1, 4096, 3)] + [('hex', 0x1234567E12), ('hex', -549755813406), ('hex', 0xE5 * 16 ** 7)]
    for r in (15, 16, 20, 30, 36):
        for n in range(120, 2600):
            work.append(('base', (n, r)))
    for r in list(range(-2, 41)):
        for n in list(range(0, 2000 if big else 120)) + [-1, -7]:
            work.append(('base', (n, r)))
    for r in (1.5, 2.5, 36.5, 0.5, 1.25, 1.999):
        for n in (0, 1, 5, 100):
            work.append(('base', (n, r)))
    work += [('base', (rng.randint(0, 2 ** 39 - 1), rng.randint(2, 36))) for _ in range(3000 if big else 300)]
    work += [('base', (1, 1.5)), ('base', (5, 1.25)), ('base', (5, 1)), ('base', (-5, 2)), ('base', (5, 0))]
    work += [('roman', n) for n in range(1, 4000)]
    work += [('complex', (rng.randint(-999, 999), rng.randint(-999, 999))) for _ in range(100)]
    hangs = 0
    for item, vs in zip(work, pmap(_worker, work, limit=4.0, confirm=False)):
        if vs == HANG:
            vs = confirm_hang(_worker, item)
        if vs == HANG:
            hangs += 1
            R.violate({item[0]: item[1]}, 'the call did not return within 4 s (every call must terminate)', None,
                      'termination', 'no result')
            continue
        for (k, c, w, cls, e, g) in vs:
            R.violate({k: c}, w, cls, repr(e), repr(g))
    R.evaluations += len(work)
    R.extra['calls_not_terminating'] = hangs
    R.rule = ('rounding functions on ints -40..40, random ints and dyadic floats x digits -6..6 x 14 significances vs the model '
              '(exact); radix: DEC2HEX/HEX2DEC around every power of 16 and +-2^39, random, places; BASE for every n below %d x '
              'radix -2..40 and random n < 2^39; DECIMAL on generated and malformed digit strings; ROMAN on all 1..3999 x forms '
              '0..4 (exhaustive) and ARABIC on all ROMAN(n) plus malformed numerals. Oracle through Parser.parse (4 s limit '
              'per item): inequalities on ints, dyadic and decimal fractions, hex/base round trips, out-of-range errors, '
              'fractional radices, Roman values, COMPLEX parts.' % nmax)
    return R


def search(ctx, proof, res):
    R = Result()
    rng = ctx.rng
    work = []
    for d in res.disagreements[:60]:
        c = d['case']
        if d['entry'] == 'rounding':
            x = c[1]
            y = c[2] if c[2] is not None else 1
            if isinstance(x, (int, float)) and isinstance(y, (int, float)):
                work.append(('numeric', (x, int(y) if abs(y) < 7 else 0, y)))
                if c[0] in ('FACT', 'FACTDOUBLE'):
                    work.append(('fact', x))
        elif c[0] == 0:
            work.append(('hex', c[1]))
        elif c[0] == 2:
            work.append(('base', (c[1], c[2])))
        elif c[0] == 4:
            work.append(('roman', c[1]))
    for _ in range(20000):
        work.append(('numeric', (rng.choice([rng.randint(-5000, 5000), rng.randint(-2 ** 16, 2 ** 16) / 2.0 ** rng.randint(1, 8)]),
                                 rng.randint(-6, 6), rng.choice([1, 2, -1, 0.5, -0.5, 3, 10, -3]))))
        work.append(('hex', rng.randint(-2 ** 40, 2 ** 40)))
        work.append(('base', (rng.randint(0, 2 ** 39), rng.randint(-2, 40))))
    work += [('roman', n) for n in range(1, 4000)]
    for item, vs in zip(work, pmap(_worker, work, limit=4.0, confirm=False)):
        if vs == HANG:
            vs = confirm_hang(_worker, item)
        if vs == HANG:
            R.violate({item[0]: item[1]}, 'the call did not return within 4 s', None)
            continue
        for (k, c, w, cls, e, g) in vs:
            R.violate({k: c}, w, cls, repr(e), repr(g))
    R.evaluations = len(work)
    return R
