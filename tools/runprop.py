# -*- coding: utf-8 -*-
import importlib
import sys
import traceback

import common


def main():
    prop, tier, seed, scratch = sys.argv[1], sys.argv[2], int(sys.argv[3]), sys.argv[4]
    # warm-up, serially: ply generates parser_FormulaParser_parsetab.py in the snapshot when it is missing
    # (the file is not tracked by git); parallel workers must not race on writing it
    import contextlib
    import io
    with contextlib.redirect_stderr(io.StringIO()):
        import hotxlfp
        hotxlfp.Parser()
    mod = importlib.import_module('props.' + prop)
    if len(sys.argv) > 5 and sys.argv[5] == '--replay':
        return common.run_replay(mod, sys.argv[6])
    return common.run_property(mod, tier, seed, scratch)


if __name__ == '__main__':
    try:
        sys.exit(main())
    except SystemExit:
        raise
    except BaseException:
        traceback.print_exc()
        sys.exit(2)
