(* C05: lexical conventions - literal values, whitespace, separators, omitted slots, case of cell labels. *)
From HX Require Import Model.Base Model.Lexer Model.Value Model.Operators Model.Cell Model.Interp Proofs.Digits.
From Coq Require Import Lia ZifyBool.
Open Scope Z_scope.

(* ---------- literal values (the grammar action p_expression_number / p_expression_string) ---------- *)
Lemma digits_z_dec n : 0 <= n -> digits_z (dec_text_of n) = n.
Proof.
  intros H. rewrite <- (dec_value_of_text n H) at 2. unfold digits_z, dec_value_of, of_digits.
  assert (forall l a, fold_left (fun acc c => acc * 10 + (c - 48)) l a = fold_left (fun acc d => acc * 10 + d) (map (fun c => c - 48) l) a) as G
    by (induction l as [|c r IH]; intros a; [reflexivity|cbn [map fold_left]; apply IH]).
  apply G.
Qed.

Definition number_action (h : host) (vals : list sv) : res sv := fst (sem_action h 5 [] vals).
(* digits evaluate to exactly the integer they spell *)
Theorem literal_integer h n : 0 <= n -> number_action h [SVtok (dec_text_of n)] = ROk (SVval (VInt n)).
Proof. intros H. unfold number_action, sem_action. cbn [fst no_ev]. rewrite digits_z_dec by exact H. reflexivity. Qed.
(* digits.digits and .digits evaluate to exactly that decimal *)
Theorem literal_decimal h ip fp :
  number_action h [SVtok ip; SVtok [46]; SVtok fp] = ROk (SVval (VFlt (Qmake (digits_z (ip ++ fp)) (Z.to_pos (10 ^ Z.of_nat (length fp)))))) /\
  number_action h [SVtok [46]; SVtok fp] = ROk (SVval (VFlt (Qmake (digits_z fp) (Z.to_pos (10 ^ Z.of_nat (length fp)))))).
Proof. split; reflexivity. Qed.
Lemma digits_z_app a b : digits_z (a ++ b) = digits_z a * 10 ^ Z.of_nat (length b) + digits_z b.
Proof.
  unfold digits_z. rewrite fold_left_app. generalize (fold_left (fun acc c => acc * 10 + (c - 48)) a 0) as x.
  induction b as [|c r IH] using rev_ind; intros x; [cbn; lia|].
  rewrite fold_left_app, app_length. cbn [fold_left length]. rewrite IH.
  replace (Z.of_nat (length r + 1)) with (Z.of_nat (length r) + 1) by lia. rewrite Z.pow_add_r by lia.
  rewrite fold_left_app. cbn [fold_left]. lia.
Qed.
(* the decimal is (integer part) + (fraction digits) / 10^(number of fraction digits) *)
Theorem decimal_value_spec ip fp :
  (Qmake (digits_z (ip ++ fp)) (Z.to_pos (10 ^ Z.of_nat (length fp))) ==
   inject_Z (digits_z ip) + Qmake (digits_z fp) (Z.to_pos (10 ^ Z.of_nat (length fp))))%Q.
Proof.
  rewrite digits_z_app. unfold Qeq, Qplus, inject_Z. cbn [Qnum Qden].
  assert (0 < 10 ^ Z.of_nat (length fp)) by (apply Z.pow_pos_nonneg; lia).
  rewrite !Pos2Z.inj_mul, !Z2Pos.id by lia. lia.
Qed.
(* integer% = integer/100, integer^integer = the power *)
Theorem literal_percent h n : list_eqb n [46] = false ->
  number_action h [SVtok n; SVtok [37]] = ROk (SVval (VFlt (Qmake (digits_z n) 100))).
Proof. intros E. unfold number_action, sem_action, tok_is. cbn [fst no_ev]. rewrite E. reflexivity. Qed.
Theorem literal_power h a b : list_eqb a [46] = false ->
  number_action h [SVtok a; SVtok [94]; SVtok b] = ROk (SVval (VInt (digits_z a ^ digits_z b))).
Proof. intros _. reflexivity. Qed.
(* a quoted literal evaluates to exactly the characters between its quotes *)
Theorem literal_string h q body : fst (sem_action h 6 [] [SVtok (q :: body ++ [q])]) = ROk (SVval (VText body)).
Proof. unfold sem_action. cbn [fst no_ev tl]. rewrite removelast_last. reflexivity. Qed.
(* the string token is the opening quote, a body without that quote, and the closing quote *)
Lemma scan_quoted_cons q c t : c <> q -> c <> 92 -> t <> [] -> scan_quoted q (c :: t) = option_map S (scan_quoted q t).
Proof.
  intros H1 H2 H3. destruct t as [|d r]; [congruence|]. cbn [scan_quoted].
  assert ((c =? q) = false) as -> by lia. assert ((c =? 92) = false) as -> by lia. reflexivity.
Qed.
Lemma scan_quoted_plain q body r : Forall (fun c => c <> q /\ c <> 92) body ->
  scan_quoted q (body ++ q :: r) = Some (S (length body)).
Proof.
  induction 1 as [|c b [H1 H2] F IH]; cbn [app length].
  - cbn [scan_quoted]. rewrite Z.eqb_refl. reflexivity.
  - rewrite scan_quoted_cons by (try assumption; destruct b; discriminate). rewrite IH. reflexivity.
Qed.

(* ---------- whitespace ---------- *)
Definition all_space (w : list Z) : Prop := Forall (fun c => is_space c = true) w.
Lemma span_space_app w s : all_space w -> (match s with c :: _ => is_space c = false | [] => True end) ->
  span is_space (w ++ s) = (w, s).
Proof.
  intros Hw Hs. induction Hw as [|c w Hc Hw IH]; cbn [app span].
  - destruct s as [|c r]; [reflexivity|]. cbn [span]. rewrite Hs. reflexivity.
  - rewrite Hc, IH. reflexivity.
Qed.
Lemma lex_one_space c r : is_space c = true -> lex_one (c :: r) = Some (0, length (fst (span is_space (c :: r)))).
Proof. intros H. unfold lex_one. rewrite H. reflexivity. Qed.

(* fuel: any amount >= the length of the text gives the same token list *)
Lemma skipn_le {A} n (l : list A) : (length (skipn n l) <= length l)%nat.
Proof. rewrite skipn_length. lia. Qed.
Lemma lex_all_fuel : forall f1 f2 s acc, (length s <= f1)%nat -> (length s <= f2)%nat -> lex_all f1 s acc = lex_all f2 s acc.
Proof.
  induction f1 as [f1 IH] using lt_wf_ind. intros f2 s acc H1 H2. destruct s as [|c r].
  - destruct f1, f2; reflexivity.
  - destruct f1 as [|f1]; [cbn in H1; lia|]. destruct f2 as [|f2]; [cbn in H2; lia|]. cbn [lex_all].
    destruct (lex_one (c :: r)) as [[k n]|]; [|reflexivity].
    set (n' := match n with O => 1%nat | _ => n end).
    assert (1 <= n')%nat by (subst n'; destruct n; lia).
    assert (length (skipn n' (c :: r)) <= length r)%nat.
    { rewrite skipn_length. cbn [length]. lia. }
    apply IH; cbn [length] in *; lia.
Qed.

Lemma skipn_app_exact' (a b : list Z) x : skipn (S (length a)) (x :: a ++ b) = b.
Proof. cbn [skipn]. induction a; [reflexivity|assumption]. Qed.
(* leading whitespace produces no token *)
Theorem leading_whitespace w s : w <> [] -> all_space w -> (match s with c :: _ => is_space c = false | [] => True end) ->
  lex (w ++ s) = lex s.
Proof.
  intros Hne Hw Hs. unfold lex. destruct w as [|c w']; [congruence|]. inversion Hw as [|? ? Hc Hw']; subst.
  cbn [app length lex_all]. rewrite (lex_one_space c (w' ++ s) Hc).
  change (c :: w' ++ s) with ((c :: w') ++ s). rewrite (span_space_app (c :: w') s Hw Hs). cbn [fst length].
  change ((c :: w') ++ s) with (c :: w' ++ s). rewrite (skipn_app_exact' w' s c). change (0 =? 0) with true. cbv iota.
  apply lex_all_fuel; rewrite ?app_length; lia.
Qed.

(* ---------- whitespace between tokens ---------- *)
(* a token "stands alone": followed by white space or the end of the text it is lexed as itself *)
Definition ws_or_end (r : list Z) : Prop := match r with [] => True | c :: _ => is_space c = true end.
Definition stands_alone (t : token) : Prop :=
  lexeme t <> [] /\ tk t <> 0 /\ forall r, ws_or_end r -> lex_one (lexeme t ++ r) = Some (tk t, length (lexeme t)).

Lemma lex_all_token f t r acc : stands_alone t -> ws_or_end r -> (length (lexeme t ++ r) <= f)%nat ->
  lex_all f (lexeme t ++ r) acc = lex_all (length r) r (t :: acc).
Proof.
  intros (Hne & Hk & Hl) Hr Hf. pose proof Hf as Hf'. rewrite app_length in Hf'.
  destruct f as [|f]; [destruct (lexeme t); [congruence|cbn in Hf; lia]|].
  cbn [lex_all]. destruct (lexeme t ++ r) as [|c rest] eqn:E; [destruct (lexeme t); [congruence|discriminate]|].
  rewrite <- E. rewrite (Hl r Hr).
  destruct (length (lexeme t)) as [|n] eqn:L; [destruct (lexeme t); [congruence|discriminate]|].
  assert ((tk t =? 0) = false) as -> by lia. rewrite <- L.
  rewrite skipn_app, firstn_app, Nat.sub_diag, firstn_all, skipn_all. cbn [skipn firstn app]. rewrite app_nil_r.
  destruct t as [k lx]. cbn [lexeme tk] in *.
  apply lex_all_fuel; [|lia]. cbn [length] in *. lia.
Qed.

(* a white-space separated rendering of a token list: w0 t1 w1 t2 w2 ... tn wn with every inner w non-empty *)
Fixpoint ws_render (ts : list token) (ws : list (list Z)) : list Z :=
  match ts, ws with
  | t :: ts', w :: ws' => lexeme t ++ w ++ ws_render ts' ws'
  | _, _ => []
  end.
Lemma lex_all_space_prefix f w s acc : all_space w -> w <> [] ->
  (match s with c :: _ => is_space c = false | [] => True end) -> (length (w ++ s) <= f)%nat ->
  lex_all f (w ++ s) acc = lex_all (length s) s acc.
Proof.
  intros Hw Hne Hs Hf. destruct w as [|c w']; [congruence|]. inversion Hw as [|? ? Hc Hw']; subst.
  destruct f as [|f]; [cbn in Hf; lia|]. cbn [app lex_all]. rewrite (lex_one_space c (w' ++ s) Hc).
  change (c :: w' ++ s) with ((c :: w') ++ s). rewrite (span_space_app (c :: w') s Hw Hs). cbn [fst length].
  change ((c :: w') ++ s) with (c :: w' ++ s). rewrite (skipn_app_exact' w' s c). change (0 =? 0) with true. cbv iota.
  apply lex_all_fuel; [|lia]. cbn [app length] in Hf. rewrite app_length in Hf. lia.
Qed.

Theorem whitespace_between_tokens : forall ts ws, Forall stands_alone ts -> length ws = length ts ->
  Forall (fun w => all_space w) ws -> (forall i w, nth_error ws i = Some w -> (S i < length ts)%nat -> w <> []) ->
  forall acc, lex_all (length (ws_render ts ws)) (ws_render ts ws) acc = LexOk (rev acc ++ ts).
Proof.
  induction ts as [|t ts IH]; intros ws Ht Hl Hw Hin acc.
  - cbn. rewrite app_nil_r. reflexivity.
  - destruct ws as [|w ws]; [discriminate|]. inversion Ht as [|? ? Ht1 Ht2]; subst. inversion Hw as [|? ? Hw1 Hw2]; subst.
    cbn [ws_render]. set (rest := ws_render ts ws).
    assert (match rest with c :: _ => is_space c = false | [] => True end) as Hrest.
    { subst rest. destruct ts as [|t2 ts2]; [exact I|]. destruct ws as [|w2 ws2]; [exact I|]. cbn [ws_render].
      inversion Ht2 as [|? ? (Hne2 & Hk2 & Hl2) _]; subst. destruct (lexeme t2) as [|c2 l2] eqn:E2; [congruence|]. cbn [app].
      destruct (is_space c2) eqn:S2; [|reflexivity]. exfalso.
      specialize (Hl2 [] I). rewrite app_nil_r in Hl2. unfold lex_one in Hl2. rewrite S2 in Hl2. inversion Hl2. congruence. }
    rewrite lex_all_token; [|exact Ht1| |lia].
    2:{ destruct w as [|c w']; [|inversion Hw1; cbn; assumption]. cbn [app]. destruct rest as [|c r] eqn:Er; [exact I|].
        exfalso. destruct ts as [|t2 ts2]; [subst rest; discriminate|].
        apply (Hin 0%nat []); [reflexivity|cbn; lia|reflexivity]. }
    destruct w as [|c w'].
    + destruct ts as [|t2 ts2]; [|exfalso; apply (Hin 0%nat []); [reflexivity|cbn; lia|reflexivity]].
      subst rest. destruct ws; cbn; reflexivity.
    + rewrite lex_all_space_prefix; [|exact Hw1|discriminate|exact Hrest|lia].
      subst rest. rewrite IH; [cbn [rev]; rewrite <- app_assoc; reflexivity|exact Ht2|cbn in Hl; lia|exact Hw2|].
      intros i w0 Hn Hi. apply (Hin (S i) w0); [exact Hn|cbn; lia].
Qed.

(* the single-character tokens and number literals stand alone *)
Definition single_tokens : list token :=
  [Tok T_PLUS [43]; Tok T_MINUS [45]; Tok T_MULT [42]; Tok T_DIV [47]; Tok T_AMP [38]; Tok T_GREATER [62]; Tok T_LESS [60];
   Tok T_GREATEREQ [62; 61]; Tok T_LESSEQ [60; 61]; Tok T_EQUAL [61]; Tok T_NOTEQUAL [60; 62];
   Tok T_LPAREN [40]; Tok T_RPAREN [41]; Tok T_COMMA [44]; Tok T_SEMICOLON [59]; Tok T_BACKSLASH [92];
   Tok T_LBRACKET [123]; Tok T_RBRACKET [125]; Tok T_CARET [94]; Tok T_PERCENT [37]; Tok T_COLON [58]; Tok T_DECIMAL [46]].
Lemma space_not_special c : is_space c = true -> In c space_chars.
Proof. unfold is_space. intros H. apply existsb_exists in H. destruct H as (x & Hx & E). apply Z.eqb_eq in E. subst. exact Hx. Qed.
Theorem single_tokens_stand_alone : Forall stands_alone single_tokens.
Proof.
  repeat constructor; cbn [lexeme tk]; try discriminate; intros r Hr; destruct r as [|c r']; try (vm_compute; reflexivity);
    cbn [ws_or_end] in Hr; apply space_not_special in Hr; cbn in Hr;
    repeat (destruct Hr as [<-|Hr]; [vm_compute; reflexivity|]); contradiction.
Qed.

(* number literals stand alone *)
Lemma digit_facts c : is_digit c = true ->
  is_space c = false /\ is_alpha c = false /\ (c =? 34) = false /\ (c =? 39) = false /\ (c =? 35) = false /\ (c =? 36) = false /\
  (c =? 46) = false /\ (c =? 95) = false.
Proof.
  unfold is_digit. intros H. assert (48 <= c <= 57) as R by lia. repeat split; try lia.
  - unfold is_space. apply Bool.not_true_is_false. intros C. apply existsb_exists in C. destruct C as (x & Hx & E).
    apply Z.eqb_eq in E. subst x. cbn in Hx. lia.
  - unfold is_alpha, is_upper, is_lower. lia.
Qed.
Lemma span_digits_app ds r : Forall (fun c => is_digit c = true) ds -> (match r with c :: _ => is_digit c = false | [] => True end) ->
  span is_digit (ds ++ r) = (ds, r).
Proof.
  induction 1 as [|c ds Hc F IH]; intros Hr; cbn [app span].
  - destruct r as [|c r']; [reflexivity|]. cbn [span]. rewrite Hr. reflexivity.
  - rewrite Hc, (IH Hr). reflexivity.
Qed.
Lemma span_false_hd (p : Z -> bool) c t : p c = false -> span p (c :: t) = ([], c :: t).
Proof. intros H. cbn [span]. rewrite H. reflexivity. Qed.
Lemma space_not_digit c : is_space c = true -> is_digit c = false.
Proof. intros H. apply space_not_special in H. cbn in H. unfold is_digit. repeat (destruct H as [<-|H]; [reflexivity|]). contradiction. Qed.

Theorem number_stands_alone ds : ds <> [] -> Forall (fun c => is_digit c = true) ds -> stands_alone (Tok T_NUMBER ds).
Proof.
  intros Hne Hd. split; [exact Hne|]. split; [vm_compute; discriminate|]. intros r Hr. cbn [lexeme tk].
  destruct ds as [|c ds']; [congruence|]. inversion Hd as [|? ? Hc Hd']; subst.
  destruct (digit_facts c Hc) as (F1 & F2 & F3 & F4 & F5 & F6 & F7 & F8).
  assert (match r with c0 :: _ => is_digit c0 = false | [] => True end) as Hr'.
  { destruct r as [|c0 r']; [exact I|]. apply space_not_digit. exact Hr. }
  pose proof (span_digits_app (c :: ds') r Hd Hr') as Sd.
  cbn [app] in *. unfold lex_one. rewrite F1, F3, F4. cbn [orb].
  assert (is_word_dot c = true) as W1 by (unfold is_word_dot, is_word; rewrite Hc, F2; reflexivity).
  rewrite F2. cbn [andb].
  rewrite (span_false_hd is_alpha_dot c (ds' ++ r)) by (unfold is_alpha_dot; rewrite F2, F7; reflexivity). cbn [fst nonempty andb].
  rewrite F5, F6.
  rewrite (span_false_hd is_alpha c (ds' ++ r)) by exact F2. cbn [fst nonempty length skipn andb].
  rewrite (span_false_hd is_alpha_us c (ds' ++ r)) by (unfold is_alpha_us; rewrite F2, F8; reflexivity). cbn [fst nonempty].
  rewrite Hc. rewrite Sd. reflexivity.
Qed.

(* ---------- separators and omitted slots: every present/absent pattern of up to 6 slots, by evaluation ---------- *)
Fixpoint patterns (n : nat) : list (list bool) :=
  match n with O => [[]] | S k => flat_map (fun p => [true :: p; false :: p]) (patterns k) end.
(* a single omitted slot is the empty argument list F(), so the one-slot patterns are just [present] *)
Definition all_patterns : list (list bool) := [true] :: flat_map patterns [2; 3; 4; 5; 6]%nat.
Fixpoint slot_tokens (sep : token) (pat : list bool) (i : Z) : list token :=
  match pat with
  | [] => []
  | [b] => if b then [Tok T_NUMBER [48 + i]] else []
  | b :: r => (if b then [Tok T_NUMBER [48 + i]] else []) ++ sep :: slot_tokens sep r (i + 1)
  end.
Fixpoint slot_values (pat : list bool) (i : Z) : list value :=
  match pat with [] => [] | b :: r => (if b then VInt i else VBlank) :: slot_values r (i + 1) end.
Definition fname : list Z := [70].
Definition call_toks (sep : token) (pat : list bool) : list token :=
  Tok T_FUNCTION fname :: Tok T_LPAREN [40] :: slot_tokens sep pat 1 ++ [Tok T_RPAREN [41]].
Definition rec_host : host := {| h_vars := []; h_funs := [(fname, BRecord)]; h_cells := []; h_ranges := []; h_registry := []; h_varset := []; h_funset := []; h_oracle := fun _ _ => None |}.
Definition run_call (sep : token) (pat : list bool) : res value * list event :=
  lr_run rec_host 400 [] (call_toks sep pat) false [].
Definition res_eqb (a b : res value * list event) : bool :=
  match a, b with
  | (ROk (VList x), [EvFunction _ ax]), (ROk (VList y), [EvFunction _ ay]) =>
      list_eqb (flat_map enc_value x) (flat_map enc_value y) && list_eqb (flat_map enc_value ax) (flat_map enc_value ay)
  | (RRaise EERROR, []), (RRaise EERROR, []) => true
  | _, _ => false
  end.
Definition comma := Tok T_COMMA [44].
Definition semi := Tok T_SEMICOLON [59].
Definition back := Tok T_BACKSLASH [92].
(* the separator never matters; an accepted call passes exactly one argument per slot, an omitted slot arriving as blank *)
Definition pattern_ok (pat : list bool) : bool :=
  let c := run_call comma pat in
  res_eqb c (run_call semi pat) && res_eqb c (run_call back pat) &&
  match c with
  | (ROk (VList args), _) => list_eqb (flat_map enc_value args) (flat_map enc_value (slot_values pat 1))
  | (RRaise EERROR, []) => true          (* a pattern the grammar rejects: rejected for all three separators alike *)
  | _ => false
  end.
Theorem slots_and_separators : forallb pattern_ok all_patterns = true.
Proof. vm_compute. reflexivity. Qed.
Definition accepted (pat : list bool) : bool := match run_call comma pat with (ROk _, _) => true | _ => false end.
Example accepted_count : length (filter accepted all_patterns) = 76%nat /\ length all_patterns = 125%nat.
Proof. vm_compute. split; reflexivity. Qed.

(* array literals: one separator kind = a flat list; ';' between two comma / backslash rows = the list of those two rows *)
Definition arr_toks (body : list token) : list token := Tok T_LBRACKET [123] :: body ++ [Tok T_RBRACKET [125]].
Definition n1 := Tok T_NUMBER [49]. Definition n2 := Tok T_NUMBER [50]. Definition n3 := Tok T_NUMBER [51]. Definition n4 := Tok T_NUMBER [52].
Definition run_arr (body : list token) : res value := fst (lr_run rec_host 400 [] (arr_toks body) false []).
Theorem array_literals :
  run_arr [n1; comma; n2; comma; n3] = ROk (VList [VInt 1; VInt 2; VInt 3]) /\
  run_arr [n1; semi; n2; semi; n3] = ROk (VList [VInt 1; VInt 2; VInt 3]) /\
  run_arr [n1; back; n2; back; n3] = ROk (VList [VInt 1; VInt 2; VInt 3]) /\
  run_arr [n1; comma; n2; semi; n3; comma; n4] = ROk (VList [VList [VInt 1; VInt 2]; VList [VInt 3; VInt 4]]) /\
  run_arr [n1; back; n2; semi; n3; back; n4] = ROk (VList [VList [VInt 1; VInt 2]; VList [VInt 3; VInt 4]]).
Proof. vm_compute. repeat split; reflexivity. Qed.

(* ---------- cell references are case-insensitive ---------- *)
Lemma upper_ascii_idem c : upper_ascii (upper_ascii c) = upper_ascii c.
Proof. unfold upper_ascii, is_lower. destruct ((97 <=? c) && (c <=? 122)) eqn:E; [|rewrite E; reflexivity].
  destruct ((97 <=? c - 32) && (c - 32 <=? 122)) eqn:F; [exfalso; lia|reflexivity]. Qed.
Lemma upper_text_idem s : upper_text (upper_text s) = upper_text s.
Proof. unfold upper_text. rewrite map_map. apply map_ext. exact upper_ascii_idem. Qed.
Theorem cell_case_insensitive h label : call_cell_value h (upper_text label) = call_cell_value h label /\
  (forall b, call_range_value h (upper_text label) b = call_range_value h label b /\
             call_range_value h b (upper_text label) = call_range_value h b label).
Proof. unfold call_cell_value, call_range_value. rewrite !upper_text_idem. repeat split; reflexivity. Qed.

(* ---------- refutation: content ending in a backslash, another quote later in the formula ---------- *)
(* "a\"&"x"  : the content a\ does not contain the delimiting quote, but the escape pair \" makes the STRING regex
   run on to the next quote: the token is  "a\"&"  (6 code points after the opening quote), not  "a\"  (3). *)
Lemma string_backslash_refuted :
  exists body r, Forall (fun c => c <> 34) body /\ scan_quoted 34 (body ++ 34 :: r) <> Some (S (length body)).
Proof. exists [97; 92], [38; 34; 120; 34]. split; [repeat constructor; discriminate | vm_compute; discriminate]. Qed.
