(* The whole reference grammar, value and event level: the REAL driver of Model/Interp.v (lr_step over the generated
   tables, real grammar actions, real host callbacks) runs the token sequence of every well-parenthesised expression
   built from numbers, variables, cells, ranges, calls with any number of arguments separated by ",", ";" or "\", unary minus, the
   eleven binary operators and parentheses - of any size and nesting - to exactly the post-order evaluation xval:
   same value or same failure, same events in the same order.  Used by C09 (names) and C10 (reference events). *)
From HX Require Import Model.Base Model.Lexer Model.Value Model.Operators Model.Cell Model.Interp Proofs.LRcert Proofs.LRvalue Proofs.ComparatorProofs.
From Coq Require Import Lia ZifyBool.
Open Scope Z_scope.

(* ---------- expressions ---------- *)
Inductive sepkind := SComma | SSemi | SBack.
Definition all_seps : list sepkind := [SComma; SSemi; SBack].
Definition sep_term (s : sepkind) : Z := match s with SComma => T_COMMA | SSemi => T_SEMICOLON | SBack => T_BACKSLASH end.
Definition sep_nt (s : sepkind) : Z := match s with SComma => N_expseqcomma | SSemi => N_expseqsemicolon | SBack => N_expseqbackslash end.
Definition sep_fn (s : sepkind) : Z := match s with SComma => 12 | SSemi => 11 | SBack => 13 end.
Definition sep_lex (s : sepkind) : list Z := match s with SComma => [44] | SSemi => [59] | SBack => [92] end.
Inductive expr :=
  | XNum (d : list Z)
  | XDec (ip fp : list Z)                (* NUMBER DECIMAL NUMBER *)
  | XFrac (fp : list Z)                  (* DECIMAL NUMBER *)
  | XPct (n : list Z)                    (* NUMBER PERCENT *)
  | XPowLit (a b : list Z)               (* NUMBER CARET NUMBER *)
  | XStr (s : list Z)                    (* STRING: the lexeme with its quotes *)
  | XErr (s : list Z)                    (* XLERROR: the lexeme *)
  | XVar (n : list Z)
  | XCell (k : Z) (lab : list Z)
  | XRange (k1 : Z) (l1 : list Z) (k2 : Z) (l2 : list Z)
  | XCall (sep : sepkind) (name : list Z) (args : list expr)   (* sep: the separator written between the arguments *)
  | XArr (sep : sepkind) (items : list expr)        (* flat array literal { e1 SEP e2 SEP ... } *)
  | XArr2 (rs : sepkind) (row1 row2 : list expr)     (* two-row array literal { row1 ; row2 }, rows separated by rs *)
  | XNeg (e : expr)
  | XBin (b : binop) (l r : expr)
  | XPar (e : expr).

Section ExprInd.
  Variable P : expr -> Prop.
  Hypothesis HNum : forall d, P (XNum d).
  Hypothesis HDec : forall ip fp, P (XDec ip fp).
  Hypothesis HFrac : forall fp, P (XFrac fp).
  Hypothesis HPct : forall n, P (XPct n).
  Hypothesis HPowLit : forall a b, P (XPowLit a b).
  Hypothesis HStr : forall s, P (XStr s).
  Hypothesis HErr : forall s, P (XErr s).
  Hypothesis HVar : forall n, P (XVar n).
  Hypothesis HCell : forall k l, P (XCell k l).
  Hypothesis HRange : forall k1 l1 k2 l2, P (XRange k1 l1 k2 l2).
  Hypothesis HCall : forall sep n args, Forall P args -> P (XCall sep n args).
  Hypothesis HArr : forall sep items, Forall P items -> P (XArr sep items).
  Hypothesis HArr2 : forall rs r1 r2, Forall P r1 -> Forall P r2 -> P (XArr2 rs r1 r2).
  Hypothesis HNeg : forall e, P e -> P (XNeg e).
  Hypothesis HBin : forall b l r, P l -> P r -> P (XBin b l r).
  Hypothesis HPar : forall e, P e -> P (XPar e).
  Fixpoint expr_ind' (e : expr) : P e :=
    match e with
    | XNum d => HNum d | XDec ip fp => HDec ip fp | XFrac fp => HFrac fp | XPct n => HPct n | XPowLit a b => HPowLit a b
    | XStr s => HStr s | XErr s => HErr s | XVar n => HVar n | XCell k l => HCell k l | XRange k1 l1 k2 l2 => HRange k1 l1 k2 l2
    | XCall sep n args => HCall sep n args ((fix go (l : list expr) : Forall P l :=
                        match l with [] => Forall_nil P | a :: r => Forall_cons a (expr_ind' a) (go r) end) args)
    | XArr sep items => HArr sep items ((fix go (l : list expr) : Forall P l :=
                        match l with [] => Forall_nil P | a :: r => Forall_cons a (expr_ind' a) (go r) end) items)
    | XArr2 rs r1 r2 => HArr2 rs r1 r2
                        ((fix go (l : list expr) : Forall P l :=
                            match l with [] => Forall_nil P | a :: r => Forall_cons a (expr_ind' a) (go r) end) r1)
                        ((fix go (l : list expr) : Forall P l :=
                            match l with [] => Forall_nil P | a :: r => Forall_cons a (expr_ind' a) (go r) end) r2)
    | XNeg e => HNeg e (expr_ind' e)
    | XBin b l r => HBin b l r (expr_ind' l) (expr_ind' r)
    | XPar e => HPar e (expr_ind' e)
    end.
End ExprInd.

Definition cell_kinds : list Z := [T_ABSOLUTE_CELL; T_MIXED_CELL; T_RELATIVE_CELL].
Definition sep_tok (sp : sepkind) : token := Tok (sep_term sp) (sep_lex sp).
Definition seq_toks (sp : sepkind) (f : expr -> list token) : list expr -> list token :=
  fix go (l : list expr) : list token := match l with [] => [] | a :: r => sep_tok sp :: f a ++ go r end.
Definition args_toks (sp : sepkind) (f : expr -> list token) (l : list expr) : list token :=
  match l with [] => [] | a :: r => f a ++ seq_toks sp f r end.
Fixpoint xtoks (e : expr) : list token :=
  match e with
  | XNum d => [Tok T_NUMBER d]
  | XDec ip fp => [Tok T_NUMBER ip; Tok T_DECIMAL [46]; Tok T_NUMBER fp]
  | XFrac fp => [Tok T_DECIMAL [46]; Tok T_NUMBER fp]
  | XPct n => [Tok T_NUMBER n; Tok T_PERCENT [37]]
  | XPowLit a b => [Tok T_NUMBER a; Tok T_CARET [94]; Tok T_NUMBER b]
  | XStr s => [Tok T_STRING s]
  | XErr s => [Tok T_XLERROR s]
  | XVar n => [Tok T_VARIABLE n]
  | XCell k l => [Tok k l]
  | XRange k1 l1 k2 l2 => [Tok k1 l1; Tok T_COLON [58]; Tok k2 l2]
  | XCall sp n args => Tok T_FUNCTION n :: Tok T_LPAREN [40] :: args_toks sp xtoks args ++ [Tok T_RPAREN [41]]
  | XArr sp items => Tok T_LBRACKET [123] :: args_toks sp xtoks items ++ [Tok T_RBRACKET [125]]
  | XArr2 rs r1 r2 => Tok T_LBRACKET [123] :: args_toks rs xtoks r1 ++ Tok T_SEMICOLON [59] :: args_toks rs xtoks r2 ++ [Tok T_RBRACKET [125]]
  | XNeg e => Tok T_MINUS [45] :: xtoks e
  | XBin b l r => xtoks l ++ Tok (op_term b) (op_lexeme b) :: xtoks r
  | XPar e => Tok T_LPAREN [40] :: xtoks e ++ [Tok T_RPAREN [41]]
  end.

(* ---------- post-order evaluation with events ---------- *)
Definition evres (A : Type) := (res A * list event)%type.
Definition ebind {A B} (x : evres A) (k : A -> evres B) : evres B :=
  match x with
  | (ROk a, ev) => let '(r, ev') := k a in (r, ev ++ ev')
  | (RRaise e, ev) => (RRaise e, ev)
  | (RExc, ev) => (RExc, ev)
  | (RUnmodelled, ev) => (RUnmodelled, ev)
  end.
Definition xvals (f : expr -> evres value) : list expr -> evres (list value) :=
  fix go (l : list expr) : evres (list value) :=
  match l with
  | [] => (ROk [], [])
  | a :: r => ebind (f a) (fun v => ebind (go r) (fun vs => (ROk (v :: vs), [])))
  end.
Fixpoint xval (h : host) (e : expr) : evres value :=
  match e with
  | XNum d => (ROk (VInt (digits_z d)), [])
  | XDec ip fp => (ROk (decimal_value ip fp), [])
  | XFrac fp => (ROk (decimal_value [] fp), [])
  | XPct n => (ROk (VFlt (Qmake (digits_z n) 100)), [])
  | XPowLit a b => (ROk (VInt (digits_z a ^ digits_z b)), [])
  | XStr s => (ROk (VText (removelast (tl s))), [])
  | XErr s => (RRaise (err_of_text s), [])           (* an error literal is raised: the whole formula reports it *)
  | XVar n => call_variable h n
  | XCell _ l => call_cell_value h l
  | XRange _ a _ b => call_range_value h a b
  | XCall _ n args => ebind (xvals (xval h) args) (fun vs => call_function h n vs)
  | XArr _ items => ebind (xvals (xval h) items) (fun vs => (ROk (VList vs), []))
  | XArr2 _ r1 r2 => ebind (xvals (xval h) r1) (fun a => ebind (xvals (xval h) r2) (fun b => (ROk (VList [VList a; VList b]), [])))
  | XNeg e => ebind (xval h e) (fun v => (of_outcome (eval_neg v), []))
  | XBin b l r => ebind (xval h l) (fun lv => ebind (xval h r) (fun rv => (bin_res b lv rv, [])))
  | XPar e => xval h e
  end.

(* ---------- well-parenthesised expressions ---------- *)
Definition xtop (e : expr) : option binop := match e with XBin b _ _ => Some b | _ => None end.
Fixpoint xwp (e : expr) : Prop :=
  match e with
  | XNum _ | XVar _ | XDec _ _ | XFrac _ | XStr _ | XErr _ => True
  | XPct n => tok_is n 46 = false
  | XPowLit a _ => tok_is a 46 = false
  | XCell k _ => In k cell_kinds
  | XRange k1 _ k2 _ => In k1 cell_kinds /\ In k2 cell_kinds
  | XCall _ _ args => (fix all (l : list expr) : Prop := match l with [] => True | a :: r => xwp a /\ all r end) args
  | XArr _ items => match items with [] => False | _ => (fix all (l : list expr) : Prop := match l with [] => True | a :: r => xwp a /\ all r end) items end
  | XArr2 rs r1 r2 => rs <> SSemi /\ (2 <= length r1)%nat /\ (2 <= length r2)%nat /\
      (fix all (l : list expr) : Prop := match l with [] => True | a :: r => xwp a /\ all r end) r1 /\
      (fix all (l : list expr) : Prop := match l with [] => True | a :: r => xwp a /\ all r end) r2
  | XPar e => xwp e
  | XNeg e => xwp e /\ xtop e = None
  | XBin b l r => xwp l /\ xwp r
      /\ (match xtop l with Some bl => (lvl b <= lvl bl)%nat | None => True end)
      /\ (match xtop r with Some br => (lvl b < lvl br)%nat | None => True end)
  end.
Definition xenter_ok (q : Z) (e : expr) : Prop := match xtop e with Some b => enters q b | None => True end.
Definition xfollow_ok (e : expr) (k : Z) : Prop :=
  term k \/ exists a, k = op_term a /\ match xtop e with Some b => (lvl a <= lvl b)%nat | None => True end.
Lemma xfollow_follow e k : xfollow_ok e k -> follow k.
Proof. intros [H|[a [H _]]]; [left; exact H|right; eauto]. Qed.

(* ---------- the extra certificate: states and productions of the reference forms, computed from the tables ---------- *)
Definition NVS : Z := N_variable_sequence.
Definition goto_nt (s nt : Z) : Z := match goto_of s nt with Some q => q | None => -1 end.
Definition prod_lhs (p : Z) : Z := match prod_of p with Some (l, _, _, _) => l | None => 0 end.
Definition sV : Z := shift_target 0 T_VARIABLE.
Definition iVS : Z := reduce_target sV 0.
Definition qVS : Z := goto_nt 0 NVS.
Definition iVar : Z := reduce_target qVS 0.
Definition sCell (k : Z) : Z := shift_target 0 k.
Definition iCell (k : Z) : Z := reduce_target (sCell k) 0.
Definition qCell : Z := goto_nt 0 N_cell.
Definition iCellE : Z := reduce_target qCell 0.
Definition sColon (k1 : Z) : Z := shift_target (sCell k1) T_COLON.
Definition sCell2 (k1 k2 : Z) : Z := shift_target (sColon k1) k2.
Definition iRange (k1 k2 : Z) : Z := reduce_target (sCell2 k1 k2) 0.
Definition sF : Z := shift_target 0 T_FUNCTION.
Definition sFL : Z := shift_target sF T_LPAREN.
Definition sF0 : Z := shift_target sFL T_RPAREN.
Definition iCall0 : Z := reduce_target sF0 0.
Definition qA1 : Z := goto_target sFL.
Definition iSeq1 : Z := reduce_target qA1 T_RPAREN.      (* one argument: the sequence production chosen on ")" *)
Definition nSeq1 : Z := prod_lhs iSeq1.
Definition qSeq1 : Z := goto_nt sFL nSeq1.
Definition sSeq1R : Z := shift_target qSeq1 T_RPAREN.
Definition iCall1 : Z := reduce_target sSeq1R 0.
Definition iSeqC (sp : sepkind) : Z := reduce_target qA1 (sep_term sp).       (* expseqX : expression *)
Definition qSC (sp : sepkind) : Z := goto_nt sFL (sep_nt sp).
Definition sC (sp : sepkind) : Z := shift_target (qSC sp) (sep_term sp).
Definition qC (sp : sepkind) : Z := goto_target (sC sp).
Definition iSeqCC (sp : sepkind) : Z := reduce_target (qC sp) (sep_term sp).   (* expseqX : expseqX SEP expression *)
Definition sCR (sp : sepkind) : Z := shift_target (qSC sp) T_RPAREN.
Definition iCallN (sp : sepkind) : Z := reduce_target (sCR sp) 0.
(* array literals: the same sequence machinery after "{" *)
Definition sB : Z := shift_target 0 T_LBRACKET.
Definition bA1 : Z := goto_target sB.
Definition bSeq1 : Z := reduce_target bA1 T_RBRACKET.
Definition bnSeq1 : Z := prod_lhs bSeq1.
Definition bqSeq1 : Z := goto_nt sB bnSeq1.
Definition bClose1 : Z := shift_target bqSeq1 T_RBRACKET.
Definition bArr1 : Z := reduce_target bClose1 0.
Definition bSeqC (sp : sepkind) : Z := reduce_target bA1 (sep_term sp).
Definition bqSC (sp : sepkind) : Z := goto_nt sB (sep_nt sp).
Definition bsC (sp : sepkind) : Z := shift_target (bqSC sp) (sep_term sp).
Definition bqC (sp : sepkind) : Z := goto_target (bsC sp).
Definition bSeqCC (sp : sepkind) : Z := reduce_target (bqC sp) (sep_term sp).
Definition bCloseN (sp : sepkind) : Z := shift_target (bqSC sp) T_RBRACKET.
Definition bArrN (sp : sepkind) : Z := reduce_target (bCloseN sp) 0.
(* two rows: after "{ row1 ;" *)
Definition rS (rs : sepkind) : Z := shift_target (bqSC rs) T_SEMICOLON.
Definition rA (rs : sepkind) : Z := goto_target (rS rs).
Definition rSeqC (rs : sepkind) : Z := reduce_target (rA rs) (sep_term rs).
Definition rqS (rs : sepkind) : Z := goto_nt (rS rs) (sep_nt rs).
Definition rsC (rs : sepkind) : Z := shift_target (rqS rs) (sep_term rs).
Definition rqC (rs : sepkind) : Z := goto_target (rsC rs).
Definition rSeqCC (rs : sepkind) : Z := reduce_target (rqC rs) (sep_term rs).
Definition rRows (rs : sepkind) : Z := reduce_target (rqS rs) T_RBRACKET.
Definition qArr : Z := goto_nt 0 N_array.
Definition iArrE : Z := reduce_target qArr 0.
(* literals: STRING, XLERROR, and the composite number forms *)
Definition sS : Z := shift_target 0 T_STRING.
Definition iS : Z := reduce_target sS 0.
Definition sX : Z := shift_target 0 T_XLERROR.
Definition iX : Z := reduce_target sX 0.
Definition sAD : Z := shift_target sA T_DECIMAL.
Definition sADN : Z := shift_target sAD T_NUMBER.
Definition iDec : Z := reduce_target sADN 0.
Definition sAP : Z := shift_target sA T_PERCENT.
Definition iPct : Z := reduce_target sAP 0.
Definition sAC : Z := shift_target sA T_CARET.
Definition sACN : Z := shift_target sAC T_NUMBER.
Definition iPow : Z := reduce_target sACN 0.
Definition sD : Z := shift_target 0 T_DECIMAL.
Definition sDN : Z := shift_target sD T_NUMBER.
Definition iFrac : Z := reduce_target sDN 0.

Definition prod_eqb (p : Z) (lhs len fn : Z) (rhs : list Z) : bool :=
  match prod_of p with
  | Some (l, n, f, r) => (l =? lhs) && (n =? len) && (f =? fn) && list_eqb r rhs
  | None => false
  end.
Definition seq_fn (f : Z) : bool := (f =? 11) || (f =? 12) || (f =? 13).
Definition d_shifts : bool :=
  forallb (fun s => act_eqb (act_of s T_VARIABLE) (Some (Shift sV)) && act_eqb (act_of s T_FUNCTION) (Some (Shift sF)) &&
                    forallb (fun k => act_eqb (act_of s k) (Some (Shift (sCell k)))) cell_kinds &&
                    (goto_nt s NVS =? qVS) && (goto_nt s N_cell =? qCell)) es_list
  && (0 <? qVS) && (0 <? qCell).
Definition d_reduces : bool :=
  forallb (fun k => act_eqb (act_of sV k) (Some (Reduce iVS)) && act_eqb (act_of qVS k) (Some (Reduce iVar)) &&
                    forallb (fun c => act_eqb (act_of (sCell c) k) (Some (Reduce (iCell c)))) cell_kinds &&
                    act_eqb (act_of qCell k) (Some (Reduce iCellE)) &&
                    forallb (fun c1 => forallb (fun c2 => act_eqb (act_of (sCell2 c1 c2) k) (Some (Reduce (iRange c1 c2)))) cell_kinds) cell_kinds &&
                    act_eqb (act_of sF0 k) (Some (Reduce iCall0)) && act_eqb (act_of sSeq1R k) (Some (Reduce iCall1)) &&
                    forallb (fun sp => act_eqb (act_of (sCR sp) k) (Some (Reduce (iCallN sp)))) all_seps) follow_list.
Definition d_prods : bool :=
  prod_eqb iVS NVS 1 17 [T_VARIABLE] && prod_eqb iVar E 1 16 [- NVS] &&
  forallb (fun c => prod_eqb (iCell c) N_cell 1 20 [c]) cell_kinds && prod_eqb iCellE E 1 19 [- N_cell] &&
  forallb (fun c1 => forallb (fun c2 => prod_eqb (iRange c1 c2) N_cell 3 20 [c1; T_COLON; c2]) cell_kinds) cell_kinds &&
  prod_eqb iCall0 E 3 7 [T_FUNCTION; T_LPAREN; T_RPAREN] &&
  match prod_of iSeq1 with Some (l, n, f, r) => (n =? 1) && seq_fn f && list_eqb r [- E] | None => false end &&
  prod_eqb iCall1 E 4 8 [T_FUNCTION; T_LPAREN; - nSeq1; T_RPAREN] &&
  forallb (fun sp => prod_eqb (iSeqC sp) (sep_nt sp) 1 (sep_fn sp) [- E] &&
                     prod_eqb (iSeqCC sp) (sep_nt sp) 3 (sep_fn sp) [- sep_nt sp; sep_term sp; - E] &&
                     prod_eqb (iCallN sp) E 4 8 [T_FUNCTION; T_LPAREN; - sep_nt sp; T_RPAREN]) all_seps.
Definition d_call : bool :=
  forallb (fun c => forallb (fun c2 => act_eqb (act_of (sCell c) T_COLON) (Some (Shift (sColon c))) &&
                                       act_eqb (act_of (sColon c) c2) (Some (Shift (sCell2 c c2)))) cell_kinds) cell_kinds &&
  act_eqb (act_of sF T_LPAREN) (Some (Shift sFL)) && existsb (Z.eqb sFL) es_list &&
  match ctx qA1 with None => true | Some _ => false end &&
  act_eqb (act_of sFL T_RPAREN) (Some (Shift sF0)) &&
  act_eqb (act_of qA1 T_RPAREN) (Some (Reduce iSeq1)) && (0 <? qSeq1) && act_eqb (act_of qSeq1 T_RPAREN) (Some (Shift sSeq1R)) &&
  forallb (fun sp =>
    existsb (Z.eqb (sC sp)) es_list && match ctx (qC sp) with None => true | Some _ => false end &&
    act_eqb (act_of qA1 (sep_term sp)) (Some (Reduce (iSeqC sp))) && (0 <? qSC sp) &&
    act_eqb (act_of (qSC sp) (sep_term sp)) (Some (Shift (sC sp))) &&
    act_eqb (act_of (qC sp) (sep_term sp)) (Some (Reduce (iSeqCC sp))) && act_eqb (act_of (qC sp) T_RPAREN) (Some (Reduce (iSeqCC sp))) &&
    act_eqb (act_of (qSC sp) T_RPAREN) (Some (Shift (sCR sp))) &&
    act_eqb (Some (Shift (qC sp))) (option_map Shift (goto_E (sC sp)))) all_seps &&
  act_eqb (Some (Shift qA1)) (option_map Shift (goto_E sFL)).
Definition cert_full : bool := cert && d_shifts && d_reduces && d_prods && d_call.

Theorem cert_full_ok : cert_full = true.
Proof. vm_compute. reflexivity. Qed.

(* ---------- the certificate facts as lemmas (each re-checked by computation on the generated tables) ---------- *)
Ltac by_es K s H := rewrite forallb_forall in K; specialize (K s H).
Lemma goto_nt_some s nt q : (goto_nt s nt =? q) = true -> (0 <? q) = true -> goto_of s nt = Some q.
Proof. unfold goto_nt. destruct (goto_of s nt) as [x|]; intros A B; [f_equal; lia|lia]. Qed.
Lemma F_var_shift s : ES s -> act_of s T_VARIABLE = Some (Shift sV).
Proof. intros H. assert (forallb (fun s => act_eqb (act_of s T_VARIABLE) (Some (Shift sV))) es_list = true) as K by (vm_compute; reflexivity).
  by_es K s H. apply act_eqb_eq, K. Qed.
Lemma F_fun_shift s : ES s -> act_of s T_FUNCTION = Some (Shift sF).
Proof. intros H. assert (forallb (fun s => act_eqb (act_of s T_FUNCTION) (Some (Shift sF))) es_list = true) as K by (vm_compute; reflexivity).
  by_es K s H. apply act_eqb_eq, K. Qed.
Lemma F_cell_shift s k : ES s -> In k cell_kinds -> act_of s k = Some (Shift (sCell k)).
Proof. intros H Hk.
  assert (forallb (fun s => forallb (fun k => act_eqb (act_of s k) (Some (Shift (sCell k)))) cell_kinds) es_list = true) as K by (vm_compute; reflexivity).
  by_es K s H. rewrite forallb_forall in K. apply act_eqb_eq, K, Hk. Qed.
Lemma F_goto_vs s : ES s -> goto_of s NVS = Some qVS.
Proof. intros H. assert (forallb (fun s => goto_nt s NVS =? qVS) es_list = true) as K by (vm_compute; reflexivity).
  by_es K s H. apply goto_nt_some; [exact K|vm_compute; reflexivity]. Qed.
Lemma F_goto_cell s : ES s -> goto_of s N_cell = Some qCell.
Proof. intros H. assert (forallb (fun s => goto_nt s N_cell =? qCell) es_list = true) as K by (vm_compute; reflexivity).
  by_es K s H. apply goto_nt_some; [exact K|vm_compute; reflexivity]. Qed.

Ltac by_follow K k H := rewrite forallb_forall in K; specialize (K k (follow_in k H)).
Lemma F_vs_red k : follow k -> act_of sV k = Some (Reduce iVS).
Proof. intros H. assert (forallb (fun k => act_eqb (act_of sV k) (Some (Reduce iVS))) follow_list = true) as K by (vm_compute; reflexivity).
  by_follow K k H. apply act_eqb_eq, K. Qed.
Lemma F_var_red k : follow k -> act_of qVS k = Some (Reduce iVar).
Proof. intros H. assert (forallb (fun k => act_eqb (act_of qVS k) (Some (Reduce iVar))) follow_list = true) as K by (vm_compute; reflexivity).
  by_follow K k H. apply act_eqb_eq, K. Qed.
Lemma F_cell_red c k : In c cell_kinds -> follow k -> act_of (sCell c) k = Some (Reduce (iCell c)).
Proof. intros Hc H.
  assert (forallb (fun k => forallb (fun c => act_eqb (act_of (sCell c) k) (Some (Reduce (iCell c)))) cell_kinds) follow_list = true) as K by (vm_compute; reflexivity).
  by_follow K k H. rewrite forallb_forall in K. apply act_eqb_eq, K, Hc. Qed.
Lemma F_cellE_red k : follow k -> act_of qCell k = Some (Reduce iCellE).
Proof. intros H. assert (forallb (fun k => act_eqb (act_of qCell k) (Some (Reduce iCellE))) follow_list = true) as K by (vm_compute; reflexivity).
  by_follow K k H. apply act_eqb_eq, K. Qed.
Lemma F_range_red c1 c2 k : In c1 cell_kinds -> In c2 cell_kinds -> follow k -> act_of (sCell2 c1 c2) k = Some (Reduce (iRange c1 c2)).
Proof. intros H1 H2 H.
  assert (forallb (fun k => forallb (fun c1 => forallb (fun c2 => act_eqb (act_of (sCell2 c1 c2) k) (Some (Reduce (iRange c1 c2)))) cell_kinds) cell_kinds) follow_list = true) as K by (vm_compute; reflexivity).
  by_follow K k H. rewrite forallb_forall in K. specialize (K c1 H1). rewrite forallb_forall in K. apply act_eqb_eq, K, H2. Qed.
Lemma F_call0_red k : follow k -> act_of sF0 k = Some (Reduce iCall0).
Proof. intros H. assert (forallb (fun k => act_eqb (act_of sF0 k) (Some (Reduce iCall0))) follow_list = true) as K by (vm_compute; reflexivity).
  by_follow K k H. apply act_eqb_eq, K. Qed.
Lemma F_call1_red k : follow k -> act_of sSeq1R k = Some (Reduce iCall1).
Proof. intros H. assert (forallb (fun k => act_eqb (act_of sSeq1R k) (Some (Reduce iCall1))) follow_list = true) as K by (vm_compute; reflexivity).
  by_follow K k H. apply act_eqb_eq, K. Qed.
Lemma F_callN_red sp k : follow k -> act_of (sCR sp) k = Some (Reduce (iCallN sp)).
Proof. intros H. assert (forallb (fun k => act_eqb (act_of (sCR sp) k) (Some (Reduce (iCallN sp)))) follow_list = true) as K by (destruct sp; vm_compute; reflexivity).
  by_follow K k H. apply act_eqb_eq, K. Qed.
Lemma F_colon c1 c2 : In c1 cell_kinds -> In c2 cell_kinds ->
  act_of (sCell c1) T_COLON = Some (Shift (sColon c1)) /\ act_of (sColon c1) c2 = Some (Shift (sCell2 c1 c2)).
Proof. intros H1 H2.
  assert (forallb (fun c => forallb (fun c2 => act_eqb (act_of (sCell c) T_COLON) (Some (Shift (sColon c))) &&
                                       act_eqb (act_of (sColon c) c2) (Some (Shift (sCell2 c c2)))) cell_kinds) cell_kinds = true) as K by (vm_compute; reflexivity).
  rewrite forallb_forall in K. specialize (K c1 H1). rewrite forallb_forall in K. specialize (K c2 H2).
  apply andb_prop in K. destruct K as [A B]. split; apply act_eqb_eq; assumption. Qed.
Lemma F_lit_shift s : ES s -> act_of s T_STRING = Some (Shift sS) /\ act_of s T_XLERROR = Some (Shift sX) /\ act_of s T_DECIMAL = Some (Shift sD).
Proof. intros H.
  assert (forallb (fun s => act_eqb (act_of s T_STRING) (Some (Shift sS)) && act_eqb (act_of s T_XLERROR) (Some (Shift sX)) &&
                            act_eqb (act_of s T_DECIMAL) (Some (Shift sD))) es_list = true) as K by (vm_compute; reflexivity).
  by_es K s H. apply andb_prop in K. destruct K as [K K3]. apply andb_prop in K. destruct K as [K1 K2].
  repeat split; apply act_eqb_eq; assumption. Qed.
Lemma F_lit_red k : follow k ->
  act_of sS k = Some (Reduce iS) /\ act_of sX k = Some (Reduce iX) /\ act_of sADN k = Some (Reduce iDec) /\
  act_of sAP k = Some (Reduce iPct) /\ act_of sACN k = Some (Reduce iPow) /\ act_of sDN k = Some (Reduce iFrac).
Proof. intros H.
  assert (forallb (fun k => act_eqb (act_of sS k) (Some (Reduce iS)) && act_eqb (act_of sX k) (Some (Reduce iX)) &&
                            act_eqb (act_of sADN k) (Some (Reduce iDec)) && act_eqb (act_of sAP k) (Some (Reduce iPct)) &&
                            act_eqb (act_of sACN k) (Some (Reduce iPow)) && act_eqb (act_of sDN k) (Some (Reduce iFrac))) follow_list = true) as K by (vm_compute; reflexivity).
  by_follow K k H. repeat (apply andb_prop in K; destruct K as [K ?]). repeat split; apply act_eqb_eq; assumption. Qed.
Lemma F_lit_closed :
  act_of sA T_DECIMAL = Some (Shift sAD) /\ act_of sAD T_NUMBER = Some (Shift sADN) /\ act_of sA T_PERCENT = Some (Shift sAP) /\
  act_of sA T_CARET = Some (Shift sAC) /\ act_of sAC T_NUMBER = Some (Shift sACN) /\ act_of sD T_NUMBER = Some (Shift sDN) /\
  prod_of iS = Some (E, 1, 6, [T_STRING]) /\ prod_of iX = Some (E, 1, 14, [T_XLERROR]) /\
  prod_of iDec = Some (E, 3, 5, [T_NUMBER; T_DECIMAL; T_NUMBER]) /\ prod_of iPct = Some (E, 2, 5, [T_NUMBER; T_PERCENT]) /\
  prod_of iPow = Some (E, 3, 5, [T_NUMBER; T_CARET; T_NUMBER]) /\ prod_of iFrac = Some (E, 2, 5, [T_DECIMAL; T_NUMBER]).
Proof. repeat split; vm_compute; reflexivity. Qed.
Lemma F_arr_es s : ES s -> act_of s T_LBRACKET = Some (Shift sB) /\ goto_of s N_array = Some qArr.
Proof. intros H.
  assert (forallb (fun s => act_eqb (act_of s T_LBRACKET) (Some (Shift sB)) && (goto_nt s N_array =? qArr)) es_list = true) as K by (vm_compute; reflexivity).
  by_es K s H. apply andb_prop in K. destruct K as [K1 K2]. split; [apply act_eqb_eq, K1|apply goto_nt_some; [exact K2|vm_compute; reflexivity]]. Qed.
Lemma F_arr_red sp k : follow k ->
  act_of bClose1 k = Some (Reduce bArr1) /\ act_of (bCloseN sp) k = Some (Reduce (bArrN sp)) /\ act_of qArr k = Some (Reduce iArrE).
Proof. intros H.
  assert (forallb (fun k => act_eqb (act_of bClose1 k) (Some (Reduce bArr1)) && act_eqb (act_of (bCloseN sp) k) (Some (Reduce (bArrN sp))) &&
                            act_eqb (act_of qArr k) (Some (Reduce iArrE))) follow_list = true) as K by (destruct sp; vm_compute; reflexivity).
  by_follow K k H. apply andb_prop in K. destruct K as [K K3]. apply andb_prop in K. destruct K as [K1 K2].
  repeat split; apply act_eqb_eq; assumption. Qed.
Definition bfSeq1 : Z := match prod_of bSeq1 with Some (_, _, f, _) => f | None => 0 end.
Lemma F_arr :
  ES sB /\ ctx bA1 = None /\ goto_E sB = Some bA1 /\ act_of bA1 T_RBRACKET = Some (Reduce bSeq1) /\
  prod_of bSeq1 = Some (bnSeq1, 1, bfSeq1, [- E]) /\ seq_fn bfSeq1 = true /\ goto_of sB bnSeq1 = Some bqSeq1 /\
  act_of bqSeq1 T_RBRACKET = Some (Shift bClose1) /\ prod_of bArr1 = Some (N_array, 3, 10, [T_LBRACKET; - bnSeq1; T_RBRACKET]) /\
  prod_of iArrE = Some (E, 1, 9, [- N_array]) /\ term T_RBRACKET.
Proof.
  split; [apply existsb_eqb_in; vm_compute; reflexivity|]. repeat split; try (vm_compute; reflexivity). unfold term, terminators; cbn; tauto.
Qed.
Lemma F_arr_sep sp :
  ES (bsC sp) /\ ctx (bqC sp) = None /\ act_of bA1 (sep_term sp) = Some (Reduce (bSeqC sp)) /\
  goto_of sB (sep_nt sp) = Some (bqSC sp) /\ act_of (bqSC sp) (sep_term sp) = Some (Shift (bsC sp)) /\
  act_of (bqC sp) (sep_term sp) = Some (Reduce (bSeqCC sp)) /\ act_of (bqC sp) T_RBRACKET = Some (Reduce (bSeqCC sp)) /\
  act_of (bqSC sp) T_RBRACKET = Some (Shift (bCloseN sp)) /\ goto_E (bsC sp) = Some (bqC sp) /\
  prod_of (bSeqC sp) = Some (sep_nt sp, 1, sep_fn sp, [- E]) /\
  prod_of (bSeqCC sp) = Some (sep_nt sp, 3, sep_fn sp, [- sep_nt sp; sep_term sp; - E]) /\
  prod_of (bArrN sp) = Some (N_array, 3, 10, [T_LBRACKET; - sep_nt sp; T_RBRACKET]).
Proof. destruct sp; (split; [apply existsb_eqb_in; vm_compute; reflexivity|]); repeat split; vm_compute; reflexivity. Qed.
Lemma F_rows rs : rs <> SSemi ->
  act_of (bqSC rs) T_SEMICOLON = Some (Shift (rS rs)) /\ ES (rS rs) /\ ctx (rA rs) = None /\ goto_E (rS rs) = Some (rA rs) /\
  act_of (rA rs) (sep_term rs) = Some (Reduce (rSeqC rs)) /\ prod_of (rSeqC rs) = Some (sep_nt rs, 1, sep_fn rs, [- E]) /\
  goto_of (rS rs) (sep_nt rs) = Some (rqS rs) /\ act_of (rqS rs) (sep_term rs) = Some (Shift (rsC rs)) /\
  ES (rsC rs) /\ ctx (rqC rs) = None /\ goto_E (rsC rs) = Some (rqC rs) /\
  act_of (rqC rs) (sep_term rs) = Some (Reduce (rSeqCC rs)) /\ act_of (rqC rs) T_RBRACKET = Some (Reduce (rSeqCC rs)) /\
  prod_of (rSeqCC rs) = Some (sep_nt rs, 3, sep_fn rs, [- sep_nt rs; sep_term rs; - E]) /\
  act_of (rqS rs) T_RBRACKET = Some (Reduce (rRows rs)) /\
  prod_of (rRows rs) = Some (N_expseqsemicolon, 3, 11, [- sep_nt rs; T_SEMICOLON; - sep_nt rs]) /\
  act_of (bqC rs) T_SEMICOLON = Some (Reduce (bSeqCC rs)) /\ term T_SEMICOLON.
Proof.
  intros H. destruct rs; [|congruence|];
    (split; [vm_compute; reflexivity|]); (split; [apply existsb_eqb_in; vm_compute; reflexivity|]);
    do 6 (split; [vm_compute; reflexivity|]); (split; [apply existsb_eqb_in; vm_compute; reflexivity|]);
    repeat split; try (vm_compute; reflexivity); unfold term, terminators; cbn; tauto.
Qed.
Lemma prod_eqb_eq p l n f r : prod_eqb p l n f r = true -> prod_of p = Some (l, n, f, r).
Proof.
  unfold prod_eqb. destruct (prod_of p) as [[[[l' n'] f'] r']|]; [|discriminate]. intros H.
  apply andb_prop in H. destruct H as [H Hr]. apply andb_prop in H. destruct H as [H Hf]. apply andb_prop in H. destruct H as [Hl Hn].
  apply ComparatorProofs.list_eqb_eq in Hr. subst. repeat f_equal; lia.
Qed.
Lemma P_cell c : In c cell_kinds -> prod_of (iCell c) = Some (N_cell, 1, 20, [c]).
Proof. intros H. assert (forallb (fun c => prod_eqb (iCell c) N_cell 1 20 [c]) cell_kinds = true) as K by (vm_compute; reflexivity).
  rewrite forallb_forall in K. apply prod_eqb_eq, K, H. Qed.
Lemma P_range c1 c2 : In c1 cell_kinds -> In c2 cell_kinds -> prod_of (iRange c1 c2) = Some (N_cell, 3, 20, [c1; T_COLON; c2]).
Proof. intros H1 H2.
  assert (forallb (fun c1 => forallb (fun c2 => prod_eqb (iRange c1 c2) N_cell 3 20 [c1; T_COLON; c2]) cell_kinds) cell_kinds = true) as K by (vm_compute; reflexivity).
  rewrite forallb_forall in K. specialize (K c1 H1). rewrite forallb_forall in K. apply prod_eqb_eq, K, H2. Qed.
Definition fSeq1 : Z := match prod_of iSeq1 with Some (_, _, f, _) => f | None => 0 end.
Lemma P_closed :
  prod_of iVS = Some (NVS, 1, 17, [T_VARIABLE]) /\ prod_of iVar = Some (E, 1, 16, [- NVS]) /\
  prod_of iCellE = Some (E, 1, 19, [- N_cell]) /\ prod_of iCall0 = Some (E, 3, 7, [T_FUNCTION; T_LPAREN; T_RPAREN]) /\
  prod_of iSeq1 = Some (nSeq1, 1, fSeq1, [- E]) /\ seq_fn fSeq1 = true /\
  prod_of iCall1 = Some (E, 4, 8, [T_FUNCTION; T_LPAREN; - nSeq1; T_RPAREN]).
Proof. repeat split; vm_compute; reflexivity. Qed.
Lemma F_call :
  act_of sF T_LPAREN = Some (Shift sFL) /\ ES sFL /\ ctx qA1 = None /\
  act_of sFL T_RPAREN = Some (Shift sF0) /\ act_of qA1 T_RPAREN = Some (Reduce iSeq1) /\ goto_of sFL nSeq1 = Some qSeq1 /\
  act_of qSeq1 T_RPAREN = Some (Shift sSeq1R) /\ goto_E sFL = Some qA1.
Proof.
  split; [vm_compute; reflexivity|]. split; [apply existsb_eqb_in; vm_compute; reflexivity|].
  repeat split; vm_compute; reflexivity.
Qed.
(* the same for each of the three separators *)
Lemma F_sep sp :
  ES (sC sp) /\ ctx (qC sp) = None /\ act_of qA1 (sep_term sp) = Some (Reduce (iSeqC sp)) /\
  goto_of sFL (sep_nt sp) = Some (qSC sp) /\ act_of (qSC sp) (sep_term sp) = Some (Shift (sC sp)) /\
  act_of (qC sp) (sep_term sp) = Some (Reduce (iSeqCC sp)) /\ act_of (qC sp) T_RPAREN = Some (Reduce (iSeqCC sp)) /\
  act_of (qSC sp) T_RPAREN = Some (Shift (sCR sp)) /\ goto_E (sC sp) = Some (qC sp) /\
  prod_of (iSeqC sp) = Some (sep_nt sp, 1, sep_fn sp, [- E]) /\
  prod_of (iSeqCC sp) = Some (sep_nt sp, 3, sep_fn sp, [- sep_nt sp; sep_term sp; - E]) /\
  prod_of (iCallN sp) = Some (E, 4, 8, [T_FUNCTION; T_LPAREN; - sep_nt sp; T_RPAREN]) /\ seq_fn (sep_fn sp) = true /\
  term (sep_term sp).
Proof.
  destruct sp; (split; [apply existsb_eqb_in; vm_compute; reflexivity|]); repeat split; try (vm_compute; reflexivity);
    unfold term, terminators; cbn; tauto.
Qed.

(* ---------- runs of the real driver, with events ---------- *)
Definition cfg := (pstack * list token)%type.
Inductive reach (h : host) : nat -> cfg -> list event -> cfg + res value -> Prop :=
  | reach_here c : reach h 0 c [] (inl c)
  | reach_done st inp r ev : lr_step h st inp false = (LRDone r, ev) -> reach h 1 (st, inp) ev (inr r)
  | reach_step n st inp st' inp' ev evs x : lr_step h st inp false = (LRMore st' inp', ev) ->
      reach h n (st', inp') evs x -> reach h (S n) (st, inp) (ev ++ evs) x.
Lemma reach_trans h n a evs1 y : reach h n a evs1 y -> forall b m evs2 x, y = inl b -> reach h m b evs2 x ->
  reach h (n + m) a (evs1 ++ evs2) x.
Proof.
  induction 1 as [c|st inp r ev Hs|n st inp st' inp' ev evs y Hs Hr IH]; intros b m evs2 x Hy Hb.
  - inversion Hy; subst. exact Hb.
  - discriminate.
  - cbn [Nat.add]. rewrite <- app_assoc. econstructor; [exact Hs|]. eapply IH; eauto.
Qed.
Definition reachle (h : host) (N : nat) (a : cfg) (evs : list event) (x : cfg + res value) : Prop :=
  exists n, (n <= N)%nat /\ reach h n a evs x.
Definition tgt {A} (c : A -> cfg) (r : res A) : cfg + res value :=
  match r with ROk a => inl (c a) | RRaise e => inr (RRaise e) | RExc => inr RExc | RUnmodelled => inr RUnmodelled end.

Lemma rl_weaken h N N' a evs x : (N <= N')%nat -> reachle h N a evs x -> reachle h N' a evs x.
Proof. intros L (n & Hn & R). exists n. split; [lia|exact R]. Qed.
Lemma rl_here h c : reachle h 0 c [] (inl c).
Proof. exists O. split; [lia|constructor]. Qed.
Lemma rl_shift h st t rest q N evs x : act_of (top_state st) (tk t) = Some (Shift q) ->
  reachle h N ((q, SVtok (lexeme t)) :: st, rest) evs x -> reachle h (S N) (st, t :: rest) evs x.
Proof.
  intros A (n & Hn & R). destruct (act_shift _ _ _ A) as [A1 A2]. exists (S n). split; [lia|].
  change evs with ([] ++ evs). econstructor; [apply lr_shift_step; eassumption|exact R].
Qed.
Lemma step_reduce h st inp p lhs len fn rhs vals st' :
  act_of (top_state st) (la inp) = Some (Reduce p) -> prod_of p = Some (lhs, len, fn, rhs) ->
  pop_n (Z.to_nat len) st [] = Some (vals, st') ->
  lr_step h st inp false =
    (let '(r, ev) := sem_action h fn rhs vals in
     match r with
     | ROk v => match goto_of (top_state st') lhs with Some q => (LRMore ((q, v) :: st') inp, ev) | None => (LRDone RExc, ev) end
     | RRaise e => (LRDone (RRaise e), ev) | RExc => (LRDone RExc, ev) | RUnmodelled => (LRDone RUnmodelled, ev)
     end).
Proof.
  intros A PR PO. destruct (act_reduce _ _ _ A) as (a & B1 & B2 & B3 & B4). subst p. unfold lr_step.
  assert (match inp with t :: _ => tk t | [] => 0 end = la inp) as -> by reflexivity.
  destruct inp as [|t0 r']; rewrite B1, B2, B3, PR, PO; reflexivity.
Qed.
Lemma rl_pure h st inp p lhs len fn rhs vals st' v q N evs x :
  act_of (top_state st) (la inp) = Some (Reduce p) -> prod_of p = Some (lhs, len, fn, rhs) ->
  pop_n (Z.to_nat len) st [] = Some (vals, st') -> sem_action h fn rhs vals = (ROk v, []) ->
  goto_of (top_state st') lhs = Some q ->
  reachle h N ((q, v) :: st', inp) evs x -> reachle h (S N) (st, inp) evs x.
Proof.
  intros A PR PO SE GO (n & Hn & R). exists (S n). split; [lia|].
  change evs with ([] ++ evs). econstructor; [|exact R]. rewrite (step_reduce h st inp p lhs len fn rhs vals st' A PR PO), SE, GO. reflexivity.
Qed.
Lemma rl_final h st inp p lhs len fn rhs vals st' q (y : evres value) :
  act_of (top_state st) (la inp) = Some (Reduce p) -> prod_of p = Some (lhs, len, fn, rhs) ->
  pop_n (Z.to_nat len) st [] = Some (vals, st') -> goto_of (top_state st') lhs = Some q ->
  sem_action h fn rhs vals = (rbind (fst y) (fun v => ROk (SVval v)), snd y) ->
  reachle h 1 (st, inp) (snd y) (tgt (fun v => ((q, SVval v) :: st', inp)) (fst y)).
Proof.
  intros A PR PO GO SE. exists 1%nat. split; [lia|].
  pose proof (step_reduce h st inp p lhs len fn rhs vals st' A PR PO) as S. rewrite SE in S.
  destruct y as [[v|e| |] ev]; cbn [fst snd rbind tgt] in *.
  - rewrite GO in S. rewrite <- (app_nil_r ev). econstructor; [exact S|constructor].
  - constructor. exact S.
  - constructor. exact S.
  - constructor. exact S.
Qed.
Lemma rl_bind {A B} h (x : evres A) (K : A -> evres B) a (c : A -> cfg) (d : B -> cfg) N M :
  reachle h N a (snd x) (tgt c (fst x)) ->
  (forall v, fst x = ROk v -> reachle h M (c v) (snd (K v)) (tgt d (fst (K v)))) ->
  reachle h (N + M) a (snd (ebind x K)) (tgt d (fst (ebind x K))).
Proof.
  intros (n & Hn & R) HK. destruct x as [[v|e| |] ev]; cbn [fst snd ebind tgt] in *.
  - destruct (HK v eq_refl) as (m & Hm & R2). destruct (K v) as [r2 ev2]. cbn [fst snd] in *.
    exists (n + m)%nat. split; [lia|]. eapply reach_trans; eauto.
  - exists n. split; [lia|exact R].
  - exists n. split; [lia|exact R].
  - exists n. split; [lia|exact R].
Qed.
Lemma ebind_ret {A} (x : evres A) : ebind x (fun v => (ROk v, [])) = x.
Proof. destruct x as [[v|e| |] ev]; cbn; rewrite ?app_nil_r; reflexivity. Qed.
Lemma ebind_assoc {A B C} (x : evres A) (f : A -> evres B) (g : B -> evres C) :
  ebind (ebind x f) g = ebind x (fun a => ebind (f a) g).
Proof.
  destruct x as [[v|e| |] ev]; cbn; try reflexivity.
  destruct (f v) as [[w|e| |] ev2]; cbn; try reflexivity. destruct (g w) as [r ev3]. rewrite app_assoc. reflexivity.
Qed.
Lemma ebind_ext {A B} (x : evres A) (f g : A -> evres B) : (forall a, f a = g a) -> ebind x f = ebind x g.
Proof. intros H. destruct x as [[v|e| |] ev]; cbn; try reflexivity. rewrite H. reflexivity. Qed.

(* ---------- driver steps spent on an expression ---------- *)
Definition sum_with (f : expr -> nat) : list expr -> nat :=
  fix go (l : list expr) : nat := match l with [] => O | a :: r => (f a + 2 + go r)%nat end.
Fixpoint xsteps (e : expr) : nat :=
  match e with
  | XNum _ => 2 | XVar _ => 3 | XCell _ _ => 3 | XRange _ _ _ _ => 5
  | XDec _ _ => 4 | XFrac _ => 3 | XPct _ => 3 | XPowLit _ _ => 4 | XStr _ => 2 | XErr _ => 2
  | XCall _ _ args => (4 + sum_with xsteps args)%nat
  | XArr _ items => (5 + sum_with xsteps items)%nat
  | XArr2 _ r1 r2 => (5 + sum_with xsteps r1 + sum_with xsteps r2)%nat
  | XNeg e => (2 + xsteps e)%nat
  | XBin _ l r => (xsteps l + xsteps r + 2)%nat
  | XPar e => (xsteps e + 3)%nat
  end.
Definition all_wp : list expr -> Prop :=
  fix all (l : list expr) : Prop := match l with [] => True | a :: r => xwp a /\ all r end.

Definition expr_spec (h : host) (e : expr) : Prop :=
  forall st rest q, ES (top_state st) -> goto_E (top_state st) = Some q -> xenter_ok q e -> xfollow_ok e (la rest) ->
    reachle h (xsteps e) (st, xtoks e ++ rest) (snd (xval h e))
      (tgt (fun v => ((q, SVval v) :: st, rest)) (fst (xval h e))).

Lemma term_rparen : term T_RPAREN. Proof. unfold term, terminators. cbn. tauto. Qed.
Lemma seq_action_1 h f v : seq_fn f = true -> sem_action h f [- E] [SVval v] = (ROk (SVseq [v]), []).
Proof.
  unfold seq_fn. intros H. destruct (f =? 11) eqn:A; [assert (f = 11) as -> by lia; reflexivity|].
  destruct (f =? 12) eqn:B; [assert (f = 12) as -> by lia; reflexivity|].
  destruct (f =? 13) eqn:C; [assert (f = 13) as -> by lia; reflexivity|]. discriminate.
Qed.

Lemma seq_toks_cons sp f a r : seq_toks sp f (a :: r) = sep_tok sp :: f a ++ seq_toks sp f r. Proof. reflexivity. Qed.
Lemma xvals_cons f a r : xvals f (a :: r) = ebind (f a) (fun v => ebind (xvals f r) (fun vs => (ROk (v :: vs), []))). Proof. reflexivity. Qed.
Lemma sum_with_cons f a r : sum_with f (a :: r) = (f a + 2 + sum_with f r)%nat. Proof. reflexivity. Qed.
(* the arguments after the first: "," expression, repeatedly *)
Lemma seq_action_3 h sp l v : sem_action h (sep_fn sp) [- sep_nt sp; sep_term sp; - E] [SVseq l; SVtok (sep_lex sp); SVval v] = (ROk (SVseq (l ++ [v])), []).
Proof. destruct sp; reflexivity. Qed.
Section SeqLoop.
  Variables (h : host) (sp : sepkind) (s0 qS sS qE iSS : Z) (closeTok : token).
  Hypothesis HESS : ES sS.
  Hypothesis HctxE : ctx qE = None.
  Hypothesis HgoS : goto_of s0 (sep_nt sp) = Some qS.
  Hypothesis Hsh : act_of qS (sep_term sp) = Some (Shift sS).
  Hypothesis Hr1 : act_of qE (sep_term sp) = Some (Reduce iSS).
  Hypothesis Hr2 : act_of qE (tk closeTok) = Some (Reduce iSS).
  Hypothesis HgoE : goto_E sS = Some qE.
  Hypothesis PSS : prod_of iSS = Some (sep_nt sp, 3, sep_fn sp, [- sep_nt sp; sep_term sp; - E]).
  Hypothesis Hterm : term (sep_term sp).
  Hypothesis Hclose : term (tk closeTok).
  Lemma seq_loop st0 rest : top_state st0 = s0 -> forall l, Forall (expr_spec h) l -> all_wp l -> forall vs0,
    reachle h (sum_with xsteps l) ((qS, SVseq vs0) :: st0, seq_toks sp xtoks l ++ closeTok :: rest)
      (snd (xvals (xval h) l))
      (tgt (fun ws => ((qS, SVseq (vs0 ++ ws)) :: st0, closeTok :: rest)) (fst (xvals (xval h) l))).
  Proof.
    intros Htop. induction l as [|b l IH]; intros HF Hwp vs0.
    - change (seq_toks sp xtoks []) with (@nil token). change (xvals (xval h) []) with (@ROk (list value) [], @nil event).
      cbn [fst snd tgt app]. rewrite app_nil_r. apply rl_here.
    - inversion HF as [|? ? Hb HF']; subst. destruct Hwp as [Hwb Hwl].
      rewrite seq_toks_cons, xvals_cons, sum_with_cons. cbn [app]. rewrite <- app_assoc.
      eapply rl_weaken with (N := S (xsteps b + (1 + sum_with xsteps l))); [lia|].
      eapply rl_shift; [exact Hsh|]. cbn [lexeme sep_tok].
      eapply (rl_bind h (xval h b) _ _ (fun w => ((qE, SVval w) :: (sS, SVtok (sep_lex sp)) :: (qS, SVseq vs0) :: st0, seq_toks sp xtoks l ++ closeTok :: rest))).
      + apply Hb; cbn [top_state]; auto.
        * unfold xenter_ok, enters. rewrite HctxE. destruct (xtop b); exact I.
        * left. destruct l; [|rewrite seq_toks_cons]; cbn [app la tk sep_tok]; [exact Hclose|exact Hterm].
      + intros w _.
        assert (act_of qE (la (seq_toks sp xtoks l ++ closeTok :: rest)) = Some (Reduce iSS)) as Hact
          by (destruct l; [|rewrite seq_toks_cons]; cbn [app la tk sep_tok]; assumption).
        eapply rl_pure; [exact Hact|exact PSS|apply pop3|apply seq_action_3|first [exact HgoS|rewrite Htop; exact HgoS]|].
        eapply rl_weaken with (N := (sum_with xsteps l + 0)%nat); [lia|].
        eapply (rl_bind h (xvals (xval h) l) (fun vs => (ROk (w :: vs), [])) _
                  (fun ws => ((qS, SVseq ((vs0 ++ [w]) ++ ws)) :: st0, closeTok :: rest))
                  (fun ws => ((qS, SVseq (vs0 ++ ws)) :: st0, closeTok :: rest)) _ 0).
        * apply IH; assumption.
        * intros ws _. cbn [fst snd tgt]. rewrite <- app_assoc. cbn [app]. apply rl_here.
  Qed.
  (* a whole row of at least two items, from the state s0 that expects its first item *)
  Variables (qA iS1 : Z).
  Hypothesis HES0 : ES s0.
  Hypothesis Hctx0 : ctx qA = None.
  Hypothesis Hgo0 : goto_E s0 = Some qA.
  Hypothesis HredFirst : act_of qA (sep_term sp) = Some (Reduce iS1).
  Hypothesis PS1 : prod_of iS1 = Some (sep_nt sp, 1, sep_fn sp, [- E]).
  Hypothesis Hsfn : seq_fn (sep_fn sp) = true.
  Lemma row_all st0 rest a b r : top_state st0 = s0 -> Forall (expr_spec h) (a :: b :: r) -> all_wp (a :: b :: r) ->
    reachle h (xsteps a + (1 + sum_with xsteps (b :: r))) (st0, args_toks sp xtoks (a :: b :: r) ++ closeTok :: rest)
      (snd (xvals (xval h) (a :: b :: r)))
      (tgt (fun vs => ((qS, SVseq vs) :: st0, closeTok :: rest)) (fst (xvals (xval h) (a :: b :: r)))).
  Proof.
    intros Htop HF Hwp. pose proof (Forall_inv HF) as Ha. pose proof (Forall_inv_tail HF) as Hr. destruct Hwp as [Hwa Hwr].
    cbn [args_toks]. rewrite <- app_assoc. rewrite (xvals_cons (xval h) a (b :: r)).
    eapply (rl_bind h (xval h a) _ _ (fun v => ((qA, SVval v) :: st0, seq_toks sp xtoks (b :: r) ++ closeTok :: rest))).
    - apply Ha; try rewrite Htop; auto.
      + unfold xenter_ok, enters. rewrite Hctx0. destruct (xtop a); exact I.
      + left. rewrite seq_toks_cons. cbn [app la tk sep_tok]. exact Hterm.
    - intros v _.
      eapply rl_weaken with (N := S (sum_with xsteps (b :: r) + 0)); [lia|].
      eapply rl_pure; [rewrite seq_toks_cons; cbn [app la tk sep_tok]; exact HredFirst|exact PS1|apply pop1|apply seq_action_1; exact Hsfn|rewrite Htop; exact HgoS|].
      eapply (rl_bind h (xvals (xval h) (b :: r)) (fun vs => (ROk (v :: vs), [])) _
                (fun ws => ((qS, SVseq ([v] ++ ws)) :: st0, closeTok :: rest))).
      + apply (seq_loop st0 rest Htop (b :: r) Hr Hwr [v]).
      + intros ws _. cbn [fst snd tgt app]. apply rl_here.
  Qed.
End SeqLoop.
Lemma args_loop h sp name st rest : forall l, Forall (expr_spec h) l -> all_wp l -> forall vs0,
  let st0 := (sFL, SVtok [40]) :: (sF, SVtok name) :: st in
  reachle h (sum_with xsteps l) ((qSC sp, SVseq vs0) :: st0, seq_toks sp xtoks l ++ Tok T_RPAREN [41] :: rest)
    (snd (xvals (xval h) l))
    (tgt (fun ws => ((qSC sp, SVseq (vs0 ++ ws)) :: st0, Tok T_RPAREN [41] :: rest)) (fst (xvals (xval h) l))).
Proof.
  destruct (F_sep sp) as (HESC & HctxC & _ & HgoSC & HshC & HredC1 & HredC2 & _ & HgoC & _ & PCC & _ & _ & Hterm).
  intros l HF Hwp vs0 st0. apply (seq_loop h sp sFL (qSC sp) (sC sp) (qC sp) (iSeqCC sp) (Tok T_RPAREN [41])); auto. apply term_rparen.
Qed.
Lemma arr_loop h sp st rest : forall l, Forall (expr_spec h) l -> all_wp l -> forall vs0,
  let st0 := (sB, SVtok [123]) :: st in
  reachle h (sum_with xsteps l) ((bqSC sp, SVseq vs0) :: st0, seq_toks sp xtoks l ++ Tok T_RBRACKET [125] :: rest)
    (snd (xvals (xval h) l))
    (tgt (fun ws => ((bqSC sp, SVseq (vs0 ++ ws)) :: st0, Tok T_RBRACKET [125] :: rest)) (fst (xvals (xval h) l))).
Proof.
  destruct (F_arr_sep sp) as (HESC & HctxC & _ & HgoSC & HshC & HredC1 & HredC2 & _ & HgoC & _ & PCC & _).
  destruct (F_sep sp) as (_ & _ & _ & _ & _ & _ & _ & _ & _ & _ & _ & _ & _ & Hterm). destruct F_arr as (_ & _ & _ & _ & _ & _ & _ & _ & _ & _ & Hcl).
  intros l HF Hwp vs0 st0. apply (seq_loop h sp sB (bqSC sp) (bsC sp) (bqC sp) (bSeqCC sp) (Tok T_RBRACKET [125])); auto.
Qed.

Lemma pop4 s1 v1 s2 v2 s3 v3 s4 v4 st :
  pop_n (Z.to_nat 4) ((s1, v1) :: (s2, v2) :: (s3, v3) :: (s4, v4) :: st) [] = Some ([v4; v3; v2; v1], st).
Proof. reflexivity. Qed.
Lemma all_wp_eq sp args : xwp (XCall sp [] args) = all_wp args. Proof. reflexivity. Qed.

Lemma forall_spec h l : Forall (fun e => xwp e -> expr_spec h e) l -> all_wp l -> Forall (expr_spec h) l.
Proof. induction 1 as [|a l Ha Hl IH]; intros W; [constructor|]. destruct W as [Wa Wl]. constructor; auto. Qed.

Theorem lr_runs_expr (h : host) : forall e, xwp e -> expr_spec h e.
Proof.
  destruct prod_facts as (PA & PN & PP & PB).
  destruct H_paren as (HESL & HESU & HES0 & HctxL & Hctx0 & Hrp & HgoL & HgoU & Hgo0 & HctxU).
  destruct P_closed as (PVS & PVar & PCellE & PCall0 & PSeq1 & PSeq1fn & PCall1).
  destruct F_call as (HshFL & HESFL & HctxA1 & HshF0 & HredSeq1 & HgoSeq1 & HshSeq1R & HgoFL).
  destruct F_lit_closed as (LsAD & LsADN & LsAP & LsAC & LsACN & LsDN & PStr & PXl & PDec & PPct & PPow & PFrac).
  induction e as [d|ip fp|fp|pn|pa pb|str|xe|n|k lab|k1 l1 k2 l2|sp name args IHargs|sp items IHitems|rs row1 row2 IHr1 IHr2|e IH|b l r IHl IHr|e IH] using expr_ind';
    intros Hwp st rest q HES Hgo Hent Hfol; pose proof (xfollow_follow _ _ Hfol) as Hfw;
    try (destruct (F_lit_shift _ HES) as (ShS & ShX & ShD)); try (destruct (F_lit_red _ Hfw) as (RS & RX & RDec & RPct & RPow & RFrac)).
  - (* number *)
    cbn [xtoks xval xsteps fst snd app].
    eapply rl_shift; [apply H_atom_shift; exact HES|]. cbn [lexeme].
    eapply (rl_final h _ _ _ _ _ _ _ _ _ q (ROk (VInt (digits_z d)), [])); [apply H_atom_red; exact Hfw|exact PA|apply pop1|exact Hgo|reflexivity].
  - (* NUMBER DECIMAL NUMBER *)
    cbn [xtoks xval xsteps fst snd app].
    eapply rl_shift; [apply H_atom_shift; exact HES|]. cbn [lexeme].
    eapply rl_shift; [exact LsAD|]. cbn [lexeme]. eapply rl_shift; [exact LsADN|]. cbn [lexeme].
    eapply (rl_final h _ _ _ _ _ _ _ _ _ q (ROk (decimal_value ip fp), [])); [exact RDec|exact PDec|apply pop3|exact Hgo|reflexivity].
  - (* DECIMAL NUMBER *)
    cbn [xtoks xval xsteps fst snd app].
    eapply rl_shift; [exact ShD|]. cbn [lexeme]. eapply rl_shift; [exact LsDN|]. cbn [lexeme].
    eapply (rl_final h _ _ _ _ _ _ _ _ _ q (ROk (decimal_value [] fp), [])); [exact RFrac|exact PFrac|apply pop2|exact Hgo|reflexivity].
  - (* NUMBER PERCENT *)
    cbn [xwp] in Hwp. cbn [xtoks xval xsteps fst snd app].
    eapply rl_shift; [apply H_atom_shift; exact HES|]. cbn [lexeme]. eapply rl_shift; [exact LsAP|]. cbn [lexeme].
    eapply (rl_final h _ _ _ _ _ _ _ _ _ q (ROk (VFlt (Qmake (digits_z pn) 100)), [])); [exact RPct|exact PPct|apply pop2|exact Hgo|].
    unfold sem_action. rewrite Hwp. reflexivity.
  - (* NUMBER CARET NUMBER *)
    cbn [xwp] in Hwp. cbn [xtoks xval xsteps fst snd app].
    eapply rl_shift; [apply H_atom_shift; exact HES|]. cbn [lexeme].
    eapply rl_shift; [exact LsAC|]. cbn [lexeme]. eapply rl_shift; [exact LsACN|]. cbn [lexeme].
    eapply (rl_final h _ _ _ _ _ _ _ _ _ q (ROk (VInt (digits_z pa ^ digits_z pb)), [])); [exact RPow|exact PPow|apply pop3|exact Hgo|reflexivity].
  - (* STRING *)
    cbn [xtoks xval xsteps fst snd app].
    eapply rl_shift; [exact ShS|]. cbn [lexeme].
    eapply (rl_final h _ _ _ _ _ _ _ _ _ q (ROk (VText (removelast (tl str))), [])); [exact RS|exact PStr|apply pop1|exact Hgo|reflexivity].
  - (* XLERROR: raised *)
    cbn [xtoks xval xsteps fst snd app].
    eapply rl_shift; [exact ShX|]. cbn [lexeme].
    eapply (rl_final h _ _ _ _ _ _ _ _ _ q (RRaise (err_of_text xe), [])); [exact RX|exact PXl|apply pop1|exact Hgo|reflexivity].
  - (* variable *)
    cbn [xtoks xval xsteps app].
    eapply rl_shift; [apply F_var_shift; exact HES|]. cbn [lexeme].
    eapply rl_pure; [apply F_vs_red; exact Hfw|exact PVS|apply pop1|reflexivity|apply F_goto_vs; exact HES|].
    eapply (rl_final h _ _ _ _ _ _ _ _ _ q (call_variable h n)); [apply F_var_red; exact Hfw|exact PVar|apply pop1|exact Hgo|].
    unfold sem_action. destruct (call_variable h n); reflexivity.
  - (* cell *)
    cbn [xwp] in Hwp. cbn [xtoks xval xsteps app].
    eapply rl_shift; [apply F_cell_shift; [exact HES|exact Hwp]|]. cbn [lexeme].
    rewrite <- (ebind_ret (call_cell_value h lab)).
    eapply rl_weaken with (N := (1 + 1)%nat); [lia|].
    eapply (rl_bind h (call_cell_value h lab) _ _ (fun v => ((qCell, SVval v) :: st, rest))).
    + eapply (rl_final h _ _ _ _ _ _ _ _ _ qCell (call_cell_value h lab));
        [apply F_cell_red; [exact Hwp|exact Hfw]|apply P_cell; exact Hwp|apply pop1|apply F_goto_cell; exact HES|].
      unfold sem_action. destruct (call_cell_value h lab); reflexivity.
    + intros v _. cbn [fst snd tgt].
      eapply rl_pure; [apply F_cellE_red; exact Hfw|exact PCellE|apply pop1|reflexivity|exact Hgo|apply rl_here].
  - (* range *)
    cbn [xwp] in Hwp. destruct Hwp as [Hk1 Hk2]. cbn [xtoks xval xsteps app].
    destruct (F_colon k1 k2 Hk1 Hk2) as [Hcol Hc2].
    eapply rl_shift; [apply F_cell_shift; [exact HES|exact Hk1]|]. cbn [lexeme].
    eapply rl_shift; [exact Hcol|]. cbn [lexeme].
    eapply rl_shift; [exact Hc2|]. cbn [lexeme].
    rewrite <- (ebind_ret (call_range_value h l1 l2)).
    eapply rl_weaken with (N := (1 + 1)%nat); [lia|].
    eapply (rl_bind h (call_range_value h l1 l2) _ _ (fun v => ((qCell, SVval v) :: st, rest))).
    + eapply (rl_final h _ _ _ _ _ _ _ _ _ qCell (call_range_value h l1 l2));
        [apply F_range_red; [exact Hk1|exact Hk2|exact Hfw]|apply P_range; [exact Hk1|exact Hk2]|apply pop3|apply F_goto_cell; exact HES|].
      unfold sem_action. destruct (call_range_value h l1 l2); reflexivity.
    + intros v _. cbn [fst snd tgt].
      eapply rl_pure; [apply F_cellE_red; exact Hfw|exact PCellE|apply pop1|reflexivity|exact Hgo|apply rl_here].
  - (* call *)
    change (all_wp args) in Hwp.
    cbn [xtoks xval xsteps]. cbn [app].
    eapply rl_shift; [apply F_fun_shift; exact HES|]. cbn [lexeme].
    eapply rl_shift; [exact HshFL|]. cbn [lexeme].
    destruct args as [|a r].
    + (* no argument *)
      cbn [args_toks app]. change (xvals (xval h) []) with (@ROk (list value) [], @nil event). cbn [sum_with].
      eapply rl_weaken with (N := 2%nat); [lia|].
      eapply rl_shift; [exact HshF0|]. cbn [lexeme].
      assert (ebind (@ROk (list value) [], @nil event) (fun vs => call_function h name vs) = call_function h name []) as ->
        by (cbn; destruct (call_function h name []); reflexivity).
      eapply (rl_final h _ _ _ _ _ _ _ _ _ q (call_function h name [])); [apply F_call0_red; exact Hfw|exact PCall0|apply pop3|exact Hgo|].
      unfold sem_action. destruct (call_function h name []); reflexivity.
    + inversion IHargs as [|? ? Ha Hr]; subst. destruct Hwp as [Hwa Hwr].
      destruct (F_sep sp) as (HESC & HctxC & HredSeqC & HgoSC & HshC & HredC1 & HredC2 & HshCR & HgoC & PSeqC & PSeqCC & PCallN & Hsfn & Hterm).
      set (st0 := (sFL, SVtok [40]) :: (sF, SVtok name) :: st).
      cbn [args_toks]. rewrite <- !app_assoc. rewrite sum_with_cons.
      change ([Tok T_RPAREN [41]] ++ rest) with (Tok T_RPAREN [41] :: rest).
      eapply rl_weaken with (N := ((xsteps a + 1 + sum_with xsteps r) + 2)%nat); [lia|].
      eapply (rl_bind h (xvals (xval h) (a :: r)) (fun vs => call_function h name vs) _
                (fun vs => ((match r with [] => qSeq1 | _ => qSC sp end, SVseq vs) :: st0, Tok T_RPAREN [41] :: rest))).
      * (* the arguments *)
        rewrite xvals_cons.
        eapply rl_weaken with (N := (xsteps a + (1 + sum_with xsteps r))%nat); [lia|].
        eapply (rl_bind h (xval h a) _ _ (fun v => ((qA1, SVval v) :: st0, seq_toks sp xtoks r ++ Tok T_RPAREN [41] :: rest))).
        -- apply (Ha Hwa); cbn [top_state st0]; auto.
           ++ unfold xenter_ok, enters. rewrite HctxA1. destruct (xtop a); exact I.
           ++ left. destruct r; [|rewrite seq_toks_cons]; cbn [app la tk sep_tok]; [apply term_rparen|exact Hterm].
        -- intros v _. destruct r as [|b r'].
           ++ change (seq_toks sp xtoks []) with (@nil token). change (xvals (xval h) []) with (@ROk (list value) [], @nil event).
              cbn [app ebind fst snd tgt sum_with].
              eapply rl_pure; [exact HredSeq1|exact PSeq1|apply pop1|apply seq_action_1; exact PSeq1fn|exact HgoSeq1|apply rl_here].
           ++ eapply rl_weaken with (N := S (sum_with xsteps (b :: r') + 0)); [lia|].
              eapply rl_pure; [rewrite seq_toks_cons; cbn [app la tk sep_tok]; exact HredSeqC|exact PSeqC|apply pop1|apply seq_action_1; exact Hsfn|exact HgoSC|].
              eapply (rl_bind h (xvals (xval h) (b :: r')) (fun vs => (ROk (v :: vs), [])) _
                        (fun ws => ((qSC sp, SVseq ([v] ++ ws)) :: st0, Tok T_RPAREN [41] :: rest))).
              ** apply (args_loop h sp name st rest (b :: r') (forall_spec h _ Hr Hwr) Hwr [v]).
              ** intros ws _. cbn [fst snd tgt app]. apply rl_here.
      * (* ")" and the call *)
        intros vs _. eapply rl_shift with (q := match r with [] => sSeq1R | _ => sCR sp end); [destruct r; cbn [top_state]; assumption|]. cbn [lexeme].
        destruct r as [|b r'].
        -- eapply (rl_final h _ _ _ _ _ _ _ _ _ q (call_function h name vs)); [apply F_call1_red; exact Hfw|exact PCall1|apply pop4|exact Hgo|].
           unfold sem_action. destruct (call_function h name vs); reflexivity.
        -- eapply (rl_final h _ _ _ _ _ _ _ _ _ q (call_function h name vs)); [apply F_callN_red; exact Hfw|exact PCallN|apply pop4|exact Hgo|].
           unfold sem_action. destruct (call_function h name vs); reflexivity.
  - (* array literal *)
    cbn [xwp] in Hwp. destruct items as [|a r]; [contradiction|]. change (all_wp (a :: r)) in Hwp. destruct Hwp as [Hwa Hwr].
    inversion IHitems as [|? ? Ha Hr]; subst.
    destruct F_arr as (HESB & HctxB & HgoB & HredB1 & PB1 & PB1fn & HgoB1 & HshB1 & PArr1 & PArrE & HtermB).
    destruct (F_arr_sep sp) as (HESC & HctxC & HredSeqC & HgoSC & HshC & HredC1 & HredC2 & HshCN & HgoC & PSeqC & PSeqCC & PArrN).
    destruct (F_sep sp) as (_ & _ & _ & _ & _ & _ & _ & _ & _ & _ & _ & _ & Hsfn & Hterm).
    destruct (F_arr_es _ HES) as [HshB HgoArr]. destruct (F_arr_red sp _ Hfw) as (RArr1 & RArrN & RArrE).
    cbn [xtoks xval xsteps]. cbn [app].
    eapply rl_shift; [exact HshB|]. cbn [lexeme].
    set (st0 := (sB, SVtok [123]) :: st).
    cbn [args_toks]. rewrite <- !app_assoc. rewrite sum_with_cons.
    change ([Tok T_RBRACKET [125]] ++ rest) with (Tok T_RBRACKET [125] :: rest).
    eapply rl_weaken with (N := ((xsteps a + 1 + sum_with xsteps r) + 3)%nat); [lia|].
    eapply (rl_bind h (xvals (xval h) (a :: r)) (fun vs => (ROk (VList vs), [])) _
              (fun vs => ((match r with [] => bqSeq1 | _ => bqSC sp end, SVseq vs) :: st0, Tok T_RBRACKET [125] :: rest))).
    + rewrite xvals_cons.
      eapply rl_weaken with (N := (xsteps a + (1 + sum_with xsteps r))%nat); [lia|].
      eapply (rl_bind h (xval h a) _ _ (fun v => ((bA1, SVval v) :: st0, seq_toks sp xtoks r ++ Tok T_RBRACKET [125] :: rest))).
      * apply (Ha Hwa); cbn [top_state st0]; auto.
        -- unfold xenter_ok, enters. rewrite HctxB. destruct (xtop a); exact I.
        -- left. destruct r; [|rewrite seq_toks_cons]; cbn [app la tk sep_tok]; [exact HtermB|exact Hterm].
      * intros v _. destruct r as [|b r'].
        -- change (seq_toks sp xtoks []) with (@nil token). change (xvals (xval h) []) with (@ROk (list value) [], @nil event).
           cbn [app ebind fst snd tgt sum_with].
           eapply rl_pure; [exact HredB1|exact PB1|apply pop1|apply seq_action_1; exact PB1fn|exact HgoB1|apply rl_here].
        -- eapply rl_weaken with (N := S (sum_with xsteps (b :: r') + 0)); [lia|].
           eapply rl_pure; [rewrite seq_toks_cons; cbn [app la tk sep_tok]; exact HredSeqC|exact PSeqC|apply pop1|apply seq_action_1; exact Hsfn|exact HgoSC|].
           eapply (rl_bind h (xvals (xval h) (b :: r')) (fun vs => (ROk (v :: vs), [])) _
                     (fun ws => ((bqSC sp, SVseq ([v] ++ ws)) :: st0, Tok T_RBRACKET [125] :: rest))).
           ++ apply (arr_loop h sp st rest (b :: r') (forall_spec h _ Hr Hwr) Hwr [v]).
           ++ intros ws _. cbn [fst snd tgt app]. apply rl_here.
    + intros vs _. cbn [fst snd tgt].
      eapply rl_shift with (q := match r with [] => bClose1 | _ => bCloseN sp end); [destruct r; cbn [top_state]; assumption|]. cbn [lexeme].
      destruct r as [|b r'].
      * eapply rl_pure; [exact RArr1|exact PArr1|apply pop3|reflexivity|exact HgoArr|].
        eapply rl_pure; [exact RArrE|exact PArrE|apply pop1|reflexivity|exact Hgo|apply rl_here].
      * eapply rl_pure; [exact RArrN|exact PArrN|apply pop3|reflexivity|exact HgoArr|].
        eapply rl_pure; [exact RArrE|exact PArrE|apply pop1|reflexivity|exact Hgo|apply rl_here].
  - (* two-row array literal *)
    cbn [xwp] in Hwp. destruct Hwp as (Hrs & L1 & L2 & W1 & W2). change (all_wp row1) in W1. change (all_wp row2) in W2.
    destruct row1 as [|a1 [|b1 r1]]; try (cbn in L1; lia). destruct row2 as [|a2 [|b2 r2]]; try (cbn in L2; lia).
    destruct F_arr as (HESB & HctxB & HgoB & _ & _ & _ & _ & _ & _ & PArrE & HtermB).
    destruct (F_arr_sep rs) as (HESC & HctxC & HredSeqC & HgoSC & HshC & HredC1 & _ & _ & HgoC & PSeqC & PSeqCC & _).
    destruct (F_arr_sep SSemi) as (_ & _ & _ & HgoSemi & _ & _ & _ & HshCN & _ & _ & _ & PArrN).
    destruct (F_sep rs) as (_ & _ & _ & _ & _ & _ & _ & _ & _ & _ & _ & _ & Hsfn & Hterm).
    destruct (F_rows rs Hrs) as (HshSemi & HESR & HctxR & HgoR & HredR1 & PR1 & HgoRS & HshRC & HESRC & HctxRC & HgoRC & HredRC1 & HredRC2 & PRCC & HredRows & PRows & HredSemi & HtermSemi).
    destruct (F_arr_es _ HES) as [HshB HgoArr]. destruct (F_arr_red SSemi _ Hfw) as (_ & RArrN & RArrE).
    assert (xtoks (XArr2 rs (a1 :: b1 :: r1) (a2 :: b2 :: r2)) ++ rest =
            Tok T_LBRACKET [123] :: args_toks rs xtoks (a1 :: b1 :: r1) ++ Tok T_SEMICOLON [59] :: args_toks rs xtoks (a2 :: b2 :: r2) ++ Tok T_RBRACKET [125] :: rest) as ->
      by (cbn [xtoks]; cbn [app]; rewrite <- !app_assoc; cbn [app]; rewrite <- !app_assoc; reflexivity).
    cbn [xval xsteps].
    eapply rl_weaken with (N := S ((xsteps a1 + (1 + sum_with xsteps (b1 :: r1))) + (S ((xsteps a2 + (1 + sum_with xsteps (b2 :: r2))) + 4)))%nat);
      [rewrite (sum_with_cons xsteps a1 (b1 :: r1)), (sum_with_cons xsteps a2 (b2 :: r2)); lia|].
    eapply rl_shift; [exact HshB|]. cbn [lexeme].
    set (st0 := (sB, SVtok [123]) :: st).
    eapply (rl_bind h (xvals (xval h) (a1 :: b1 :: r1)) _ _
              (fun vs => ((bqSC rs, SVseq vs) :: st0, Tok T_SEMICOLON [59] :: args_toks rs xtoks (a2 :: b2 :: r2) ++ Tok T_RBRACKET [125] :: rest))).
    + apply (row_all h rs sB (bqSC rs) (bsC rs) (bqC rs) (bSeqCC rs) (Tok T_SEMICOLON [59])) with (qA := bA1) (iS1 := bSeqC rs); auto.
      apply (forall_spec h _ IHr1 W1).
    + intros vs1 _.
      eapply rl_shift; [exact HshSemi|]. cbn [lexeme].
      set (st1 := (rS rs, SVtok [59]) :: (bqSC rs, SVseq vs1) :: st0).
      eapply (rl_bind h (xvals (xval h) (a2 :: b2 :: r2)) (fun b => (ROk (VList [VList vs1; VList b]), [])) _
                (fun ws => ((rqS rs, SVseq ws) :: st1, Tok T_RBRACKET [125] :: rest))).
      * apply (row_all h rs (rS rs) (rqS rs) (rsC rs) (rqC rs) (rSeqCC rs) (Tok T_RBRACKET [125])) with (qA := rA rs) (iS1 := rSeqC rs); auto.
        apply (forall_spec h _ IHr2 W2).
      * intros ws _. cbn [fst snd tgt].
        eapply rl_pure; [exact HredRows|exact PRows|apply pop3|reflexivity|exact HgoSemi|].
        eapply rl_shift; [exact HshCN|]. cbn [lexeme].
        eapply rl_pure; [exact RArrN|exact PArrN|apply pop3|reflexivity|exact HgoArr|].
        eapply rl_pure; [exact RArrE|exact PArrE|apply pop1|reflexivity|exact Hgo|apply rl_here].
  - (* unary minus *)
    destruct Hwp as [Hwp Htop]. cbn [xtoks xval xsteps app].
    eapply rl_shift; [apply H_neg_shift; exact HES|]. cbn [lexeme].
    eapply rl_weaken with (N := (xsteps e + 1)%nat); [lia|].
    eapply (rl_bind h (xval h e) _ _ (fun v => ((qU, SVval v) :: (sU, SVtok [45]) :: st, rest))).
    + apply (IH Hwp); cbn [top_state]; auto.
      * unfold xenter_ok. rewrite Htop. exact I.
      * destruct Hfol as [H|[a [H _]]]; [left; exact H|right; exists a; split; [exact H|rewrite Htop; exact I]].
    + intros v _.
      eapply (rl_final h _ _ _ _ _ _ _ _ _ q (of_outcome (eval_neg v), [])); [apply H_neg_red; exact Hfw|exact PN|apply pop2|exact Hgo|reflexivity].
  - (* binary operator *)
    destruct Hwp as (Hwl & Hwr & Hl & Hr). cbn [xtoks xval xsteps]. rewrite <- app_assoc. cbn [app].
    unfold xenter_ok in Hent. cbn [xtop] in Hent.
    destruct (H_opst b) as (HESo & Hgoo & Hctx & _).
    eapply rl_weaken with (N := (xsteps l + (S (xsteps r + 1)))%nat); [lia|].
    eapply (rl_bind h (xval h l) _ _ (fun lv => ((q, SVval lv) :: st, Tok (op_term b) (op_lexeme b) :: xtoks r ++ rest))).
    + apply (IHl Hwl); auto.
      * unfold xenter_ok. revert Hl. destruct (xtop l) as [bl|]; [|intros; exact I].
        revert Hent. unfold enters. destruct (ctx q); intros; [lia|exact I].
      * right. exists b. split; [reflexivity|]. revert Hl. destruct (xtop l); intros Hl; [exact Hl|exact I].
    + intros lv _.
      eapply rl_shift; [apply (H_op_shift _ _ _ HES Hgo Hent)|]. cbn [lexeme].
      eapply (rl_bind h (xval h r) _ _ (fun rv => ((ae b, SVval rv) :: (opst b, SVtok (op_lexeme b)) :: (q, SVval lv) :: st, rest))).
      * apply (IHr Hwr); cbn [top_state]; auto.
        -- unfold xenter_ok. revert Hr. destruct (xtop r) as [br|]; intros Hr; [|exact I]. unfold enters. rewrite Hctx. exact Hr.
        -- destruct Hfol as [H|[a [H Ha]]]; [left; exact H|]. right. exists a. split; [exact H|].
           cbn [xtop] in Ha. revert Hr. destruct (xtop r); intros Hr; [lia|exact I].
      * intros rv _.
        assert (act_of (ae b) (la rest) = Some (Reduce (iBin b))) as Hact.
        { destruct Hfol as [H|[a [H Ha]]]; [apply H_bin_red_term; exact H|]. rewrite H. apply H_bin_red_op. exact Ha. }
        eapply (rl_final h _ _ _ _ _ _ _ _ _ q (bin_res b lv rv, [])); [exact Hact|apply PB|apply pop3|exact Hgo|].
        rewrite bin_action. reflexivity.
  - (* parentheses *)
    cbn [xwp] in Hwp. cbn [xtoks xval xsteps app]. rewrite <- app_assoc. cbn [app].
    eapply rl_weaken with (N := S (xsteps e + 2)%nat); [lia|].
    eapply rl_shift; [apply H_lp_shift; exact HES|]. cbn [lexeme].
    rewrite <- (ebind_ret (xval h e)).
    eapply (rl_bind h (xval h e) _ _ (fun v => ((qL, SVval v) :: (sL, SVtok [40]) :: st, Tok T_RPAREN [41] :: rest))).
    + apply (IH Hwp); cbn [top_state]; auto.
      * unfold xenter_ok, enters. rewrite HctxL. destruct (xtop e); exact I.
      * left. apply term_rparen.
    + intros v _. cbn [fst snd tgt].
      eapply rl_shift; [exact Hrp|]. cbn [lexeme].
      eapply rl_pure; [apply H_par_red; exact Hfw|exact PP|apply pop3|reflexivity|exact Hgo|apply rl_here].
Qed.

(* ---------- whole formulas: lr_run and Parser.parse ---------- *)
Lemma lr_run_reach h : forall n c evs x, reach h n c evs x -> forall f tr,
  lr_run h (n + f) (fst c) (snd c) false tr =
  match x with inl c' => lr_run h f (fst c') (snd c') false (tr ++ evs) | inr r => (r, tr ++ evs) end.
Proof.
  induction 1 as [c|st inp r ev Hs|n st inp st' inp' ev evs y Hs Hr IH]; intros f tr.
  - cbn [Nat.add]. rewrite app_nil_r. reflexivity.
  - cbn [Nat.add lr_run fst snd]. rewrite Hs. reflexivity.
  - cbn [Nat.add lr_run fst snd]. rewrite Hs. rewrite IH. cbn [fst snd]. rewrite <- app_assoc. reflexivity.
Qed.
Theorem formula_runs h e : xwp e -> forall fuel, (xsteps e + 2 <= fuel)%nat ->
  lr_run h fuel [] (xtoks e) false [] = xval h e.
Proof.
  intros Hw fuel Hf. destruct accept_facts as (A1 & A2 & A3 & A4).
  destruct H_paren as (_ & _ & HES0 & _ & Hctx0 & _ & _ & _ & Hgo0 & _).
  pose proof (lr_runs_expr h e Hw [] [] q0) as X. rewrite app_nil_r in X.
  destruct X as (n & Hn & R).
  - exact HES0.
  - exact Hgo0.
  - unfold xenter_ok, enters. rewrite Hctx0. destruct (xtop e); exact I.
  - left. unfold term, terminators. cbn. tauto.
  - replace fuel with (n + (2 + (fuel - n - 2)))%nat by lia.
    rewrite (lr_run_reach h _ _ _ _ R). cbn [app fst snd].
    destruct (xval h e) as [[v|er| |] evs]; cbn [tgt fst snd]; try reflexivity.
    cbn [Nat.add lr_run].
    assert (lr_step h [(q0, SVval v)] [] false = (LRMore [(qS, SVval v)] [], [])) as R1.
    { eapply (lr_reduce_step h [(q0, SVval v)] [] (-1)); [exact A1|reflexivity|reflexivity|exact A2|apply pop1|reflexivity|exact A3]. }
    rewrite R1. cbn [app].
    assert (lr_step h [(qS, SVval v)] [] false = (LRDone (ROk v), [])) as R2.
    { unfold lr_step. cbn [top_state]. rewrite A4. reflexivity. }
    rewrite R2. rewrite !app_nil_r. reflexivity.
Qed.

Lemma sum_bound sp l : Forall (fun a => (xsteps a <= 4 * length (xtoks a))%nat) l ->
  (sum_with xsteps l <= 4 * length (seq_toks sp xtoks l))%nat.
Proof.
  induction 1 as [|a l Ha Hl IH]; [cbn; lia|]. rewrite sum_with_cons, seq_toks_cons. cbn [length]. rewrite app_length. lia.
Qed.
Lemma xsteps_bound e : (xsteps e <= 4 * length (xtoks e))%nat.
Proof.
  induction e as [d|ip fp|fp|pn|pa pb|str|xe|n|k lab|k1 l1 k2 l2|sp name args IHargs|sp items IHitems|rs row1 row2 IHr1 IHr2|e IH|b l r IHl IHr|e IH] using expr_ind';
    cbn [xsteps xtoks length]; rewrite ?app_length; cbn [length]; try lia.
  - destruct args as [|a r]; [cbn; lia|]. inversion IHargs as [|? ? Ha Hr]; subst.
    rewrite sum_with_cons. cbn [args_toks]. rewrite app_length. pose proof (sum_bound sp r Hr). lia.
  - destruct items as [|a r]; [cbn; lia|]. inversion IHitems as [|? ? Ha Hr]; subst.
    rewrite sum_with_cons. cbn [args_toks]. rewrite app_length. pose proof (sum_bound sp r Hr). lia.
  - assert (forall l, Forall (fun a => (xsteps a <= 4 * length (xtoks a))%nat) l -> (sum_with xsteps l <= 4 * length (args_toks rs xtoks l) + 2)%nat) as G.
    { intros l Hl. destruct l as [|a r]; [cbn; lia|]. inversion Hl as [|? ? Ha Hr]; subst. rewrite sum_with_cons. cbn [args_toks]. rewrite app_length.
      pose proof (sum_bound rs r Hr). lia. }
    pose proof (G row1 IHr1). pose proof (G row2 IHr2). cbn [length]. rewrite ?app_length. cbn [length]. rewrite ?app_length. cbn [length]. lia.
Qed.

Definition record_of (r : res value) : precord :=
  match r with
  | ROk (VErr e) => PError e | ROk v => PResult v | RRaise e => PError e | RExc => PError EERROR | RUnmodelled => PUnmodelled
  end.
(* Parser.parse on a text whose tokens are those of a well-parenthesised expression: the record and the events of
   the post-order evaluation *)
Theorem parse_formula_expr h s e : s <> [] -> lex s = LexOk (xtoks e) -> xwp e ->
  parse_formula h s = (record_of (fst (xval h e)), snd (xval h e)).
Proof.
  intros Hs Hl Hw. unfold parse_formula. destruct s as [|c s']; [congruence|]. rewrite Hl.
  rewrite (formula_runs h e Hw) by (pose proof (xsteps_bound e); lia).
  destruct (xval h e) as [[v|er| |] evs]; reflexivity.
Qed.
