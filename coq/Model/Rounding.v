(* mathtrig.py rounding and integer functions over exact numbers: ints in Z, floats as rationals (ideal arithmetic). *)
From Coq Require Export QArith Qround Qabs.
From HX Require Export Model.Value Model.Operators.
Open Scope Z_scope.

Definition pow10 (d : Z) : Q := if 0 <=? d then inject_Z (10 ^ d) else (1 / inject_Z (10 ^ (- d)))%Q.
Definition qsign_pos (x : Q) : bool := 0 <? Qnum x.            (* number > 0 *)

(* round-half-even of a rational to an integer *)
Definition rhe (q : Q) : Z :=
  let f := Qfloor q in
  let r := (q - inject_Z f)%Q in                      (* 0 <= r < 1 *)
  match Qcompare r (1 # 2) with
  | Lt => f
  | Gt => f + 1
  | Eq => if Z.even f then f else f + 1
  end.

Inductive nres := NOk (n : num) | NErr (e : err) | NExc.

(* ROUND(number, digits) = round(number, digits) *)
Definition fn_ROUND (x : num) (d : Z) : nres :=
  match x with
  | NI n => if 0 <=? d then NOk (NI n) else NOk (NI (rhe (inject_Z n / inject_Z (10 ^ (- d))) * 10 ^ (- d)))
  | NF q => NOk (NF (inject_Z (rhe (q * pow10 d)) / pow10 d))
  end.
(* ROUNDUP / ROUNDDOWN: sign * ceil|floor(abs(number) * 10**digits) / 10**digits *)
Definition roundup_k (x : Q) (d : Z) : Z := (if qsign_pos x then 1 else -1) * Qceiling (Qabs x * pow10 d).
Definition rounddown_k (x : Q) (d : Z) : Z := (if qsign_pos x then 1 else -1) * Qfloor (Qabs x * pow10 d).
Definition fn_ROUNDUP (x : num) (d : Z) : nres := NOk (NF (inject_Z (roundup_k (num_q x) d) / pow10 d)).
Definition fn_ROUNDDOWN (x : num) (d : Z) : nres := NOk (NF (inject_Z (rounddown_k (num_q x) d) / pow10 d)).

Definition num_is_int (n : num) : bool := match n with NI _ => true | NF _ => false end.
Definition mk_num (like_int : bool) (q : Q) : num := if like_int then NI (Qfloor q) else NF q.

(* CEILING(number, significance) *)
Definition fn_CEILING (x s : num) : nres :=
  let xs := num_q x in let ss := num_q s in
  if Qnum ss =? 0 then NOk (NI 0)
  else
    let a := Qabs ss in
    let k := if 0 <=? Qnum xs then Qceiling (xs / a)
             else if 0 <? Qnum ss then - Qfloor (Qabs xs / a) else - Qceiling (Qabs xs / a) in
    NOk (mk_num (num_is_int s) (inject_Z k * a)).
(* FLOOR(number, significance) *)
Definition fn_FLOOR (x s : num) : nres :=
  let xs := num_q x in let ss := num_q s in
  if Qnum ss =? 0 then NOk (NI 0)
  else if (0 <? Qnum xs) && negb (0 <? Qnum ss) then NErr ENUM
  else
    let a := Qabs ss in
    let k := if 0 <=? Qnum xs then Qfloor (xs / a)
             else if 0 <? Qnum ss then - Qceiling (Qabs xs / a) else - Qfloor (Qabs xs / a) in
    NOk (mk_num (num_is_int s) (inject_Z k * a)).
(* INT = floor *)
Definition fn_INT (x : num) : nres := NOk (NI (Qfloor (num_q x))).
(* EVEN / ODD *)
Definition fn_EVEN (x : num) : nres :=
  let t := Qceiling (Qabs (num_q x)) in let t := if Z.even t then t else t + 1 in
  NOk (NI (if qsign_pos (num_q x) then t else - t)).
Definition fn_ODD (x : num) : nres :=
  let t := Qceiling (Qabs (num_q x)) in let t := if Z.odd t then t else t + 1 in
  NOk (NI (if 0 <=? Qnum (num_q x) then t else - t)).
(* truncation toward zero of a rational *)
Definition qtrunc (q : Q) : Z := Z.quot (Qnum q) (QDen q).
Definition fn_QUOTIENT (x y : num) : nres :=
  if Qnum (num_q y) =? 0 then NErr EDIV0 else NOk (NI (qtrunc (num_q x / num_q y))).
(* MOD: the remainder with the divisor's sign *)
Definition fn_MOD (x y : num) : nres :=
  if Qnum (num_q y) =? 0 then NErr EDIV0
  else match x, y with
       | NI a, NI b => NOk (NI (a mod b))
       | _, _ => NOk (NF (num_q x - num_q y * inject_Z (Qfloor (num_q x / num_q y))))
       end.
Definition fn_SIGN (x : num) : nres := NOk (NI (Z.sgn (Qnum (num_q x)))).
Fixpoint fact (n : nat) : Z := match n with O => 1 | S k => Z.of_nat n * fact k end.
Fixpoint dfact_fuel (fuel : nat) (n : Z) : Z :=
  match fuel with O => 1 | S f => if n <=? 1 then 1 else n * dfact_fuel f (n - 2) end.
Definition fn_FACT (x : num) : nres :=
  if Qnum (num_q x) <? 0 then NErr ENUM else NOk (NI (fact (Z.to_nat (qtrunc (num_q x))))).
Definition fn_FACTDOUBLE (x : num) : nres :=
  if Qnum (num_q x) <? 0 then NErr ENUM
  else let n := qtrunc (num_q x) in NOk (NI (dfact_fuel (Z.to_nat n) n)).

(* ---------- runner entry: [fn; x; y?] with numbers encoded as values (0 z | 1 num den) ---------- *)
Definition num_of_value (v : value) : option num :=
  match v with VInt z => Some (NI z) | VFlt q => Some (NF q) | VBool b => Some (NI (if b then 1 else 0)) | _ => None end.
Definition enc_nres (r : nres) : list Z :=
  match r with NOk n => 0 :: enc_value (num_value n) | NErr e => [1; err_code e] | NExc => [2] end.
Definition e_rounding (a : list Z) : list Z :=
  match a with
  | fn :: r =>
      match fst (dec_vals 2 r) with
      | [vx; vy] =>
          match num_of_value vx, num_of_value vy with
          | Some x, Some y =>
              enc_nres (match fn with
                        | 0 => match y with NI d => fn_ROUND x d | _ => NExc end
                        | 1 => match y with NI d => fn_ROUNDUP x d | _ => NExc end
                        | 2 => match y with NI d => fn_ROUNDDOWN x d | _ => NExc end
                        | 3 => fn_CEILING x y | 4 => fn_FLOOR x y | 5 => fn_INT x | 6 => fn_EVEN x | 7 => fn_ODD x
                        | 8 => fn_QUOTIENT x y | 9 => fn_MOD x y | 10 => fn_SIGN x | 11 => fn_FACT x | _ => fn_FACTDOUBLE x
                        end)
          | _, _ => [-1]
          end
      | _ => [-1]
      end
  | _ => [-1]
  end.
