(* C17 (numeric part): rounding and integer functions meet their specifications (exact arithmetic). *)
From HX Require Import Model.Value Model.Operators Model.Rounding.
From Coq Require Import Lia ZifyBool QArith Qround Qabs Lqa.
Open Scope Q_scope.

(* ---------- floor / ceiling facts in a uniform shape ---------- *)
Lemma floor_spec x : inject_Z (Qfloor x) <= x /\ x < inject_Z (Qfloor x) + 1.
Proof. split; [apply Qfloor_le|]. pose proof (Qlt_floor x) as H. rewrite inject_Z_plus in H. exact H. Qed.
Lemma ceil_spec x : x <= inject_Z (Qceiling x) /\ inject_Z (Qceiling x) - 1 < x.
Proof.
  split; [apply Qle_ceiling|]. pose proof (Qceiling_lt x) as H. unfold Z.sub in H. rewrite inject_Z_plus in H. exact H.
Qed.

(* ---------- round half even: within one half ---------- *)
Theorem rhe_half q : Qabs (q - inject_Z (rhe q)) <= 1 # 2.
Proof.
  unfold rhe. cbv zeta. destruct (floor_spec q) as [L U]. set (f := Qfloor q) in *.
  destruct (Qcompare (q - inject_Z f) (1 # 2)) eqn:C.
  - apply Qeq_alt in C. destruct (Z.even f).
    + rewrite C. apply Qabs_case; intros; lra.
    + rewrite inject_Z_plus. change (inject_Z 1) with 1. apply Qabs_case; intros; lra.
  - apply Qlt_alt in C. apply Qabs_case; intros; lra.
  - apply Qgt_alt in C. rewrite inject_Z_plus. change (inject_Z 1) with 1. apply Qabs_case; intros; lra.
Qed.
(* ties go to the even neighbour *)
Theorem rhe_tie q : q - inject_Z (Qfloor q) == 1 # 2 -> Z.even (rhe q) = true.
Proof.
  intros H. unfold rhe. cbv zeta. apply Qeq_alt in H. rewrite H. destruct (Z.even (Qfloor q)) eqn:E; [exact E|].
  rewrite Z.even_add, E. reflexivity.
Qed.

(* ---------- ROUND ---------- *)
(* the result, in units of u = 10^-digits, is an integer k with |x/u - k| <= 1/2 *)
Theorem ROUND_float q d : exists k, fn_ROUND (NF q) d = NOk (NF (inject_Z k / pow10 d)) /\ Qabs (q * pow10 d - inject_Z k) <= 1 # 2.
Proof. exists (rhe (q * pow10 d)). split; [reflexivity|apply rhe_half]. Qed.
Theorem ROUND_int_nonneg_digits n d : (0 <= d)%Z -> fn_ROUND (NI n) d = NOk (NI n).
Proof. intros H. unfold fn_ROUND. destruct (0 <=? d)%Z eqn:E; [reflexivity|exfalso; lia]. Qed.
Theorem ROUND_int_neg_digits n d : (d < 0)%Z -> exists k, fn_ROUND (NI n) d = NOk (NI (k * 10 ^ (- d))) /\
  Qabs (inject_Z n / inject_Z (10 ^ (- d)) - inject_Z k) <= 1 # 2.
Proof.
  intros H. unfold fn_ROUND. destruct (0 <=? d)%Z eqn:E; [exfalso; lia|].
  eexists; split; [reflexivity|apply rhe_half].
Qed.

(* ---------- ROUNDUP / ROUNDDOWN, in units of u: y = |x| / u ---------- *)
Theorem ROUNDUP_spec x d : exists k, fn_ROUNDUP x d = NOk (NF (inject_Z k / pow10 d)) /\
  let y := Qabs (num_q x) * pow10 d in
  y <= inject_Z (Z.abs k) /\ inject_Z (Z.abs k) < y + 1 /\ (k = (if qsign_pos (num_q x) then 1 else -1) * Z.abs k)%Z.
Proof.
  exists (roundup_k (num_q x) d). split; [reflexivity|]. cbv zeta. unfold roundup_k.
  set (y := Qabs (num_q x) * pow10 d). destruct (ceil_spec y) as [L U].
  assert (0 <= y) as Hy.
  { subst y. apply Qmult_le_0_compat; [apply Qabs_nonneg|]. unfold pow10. destruct (0 <=? d)%Z eqn:E.
    - change 0 with (inject_Z 0). rewrite <- Zle_Qle. apply Z.pow_nonneg. lia.
    - apply Qlt_le_weak. apply Qlt_shift_div_l; [|lra]. change 0 with (inject_Z 0). rewrite <- Zlt_Qlt. apply Z.pow_pos_nonneg; lia. }
  assert (0 <= Qceiling y)%Z as Hc.
  { rewrite Zle_Qle. change (inject_Z 0) with 0. lra. }
  assert (Z.abs ((if qsign_pos (num_q x) then 1 else -1) * Qceiling y) = Qceiling y) as Ea
    by (destruct (qsign_pos (num_q x)); lia).
  rewrite Ea. repeat split; try lra. all: try (destruct (qsign_pos (num_q x)); lia).
Qed.
Theorem ROUNDDOWN_spec x d : exists k, fn_ROUNDDOWN x d = NOk (NF (inject_Z k / pow10 d)) /\
  let y := Qabs (num_q x) * pow10 d in
  inject_Z (Z.abs k) <= y /\ y < inject_Z (Z.abs k) + 1 /\ (k = (if qsign_pos (num_q x) then 1 else -1) * Z.abs k)%Z.
Proof.
  exists (rounddown_k (num_q x) d). split; [reflexivity|]. cbv zeta. unfold rounddown_k.
  set (y := Qabs (num_q x) * pow10 d). destruct (floor_spec y) as [L U].
  assert (0 <= y) as Hy.
  { subst y. apply Qmult_le_0_compat; [apply Qabs_nonneg|]. unfold pow10. destruct (0 <=? d)%Z eqn:E.
    - change 0 with (inject_Z 0). rewrite <- Zle_Qle. apply Z.pow_nonneg. lia.
    - apply Qlt_le_weak. apply Qlt_shift_div_l; [|lra]. change 0 with (inject_Z 0). rewrite <- Zlt_Qlt. apply Z.pow_pos_nonneg; lia. }
  assert (0 <= Qfloor y)%Z as Hc.
  { change 0%Z with (Qfloor 0). apply Qfloor_resp_le. exact Hy. }
  assert (Z.abs ((if qsign_pos (num_q x) then 1 else -1) * Qfloor y) = Qfloor y) as Ea
    by (destruct (qsign_pos (num_q x)); lia).
  rewrite Ea. repeat split; try lra. all: try (destruct (qsign_pos (num_q x)); lia).
Qed.

(* ---------- INT ---------- *)
Theorem INT_is_floor x : exists z, fn_INT x = NOk (NI z) /\ inject_Z z <= num_q x /\ num_q x < inject_Z z + 1.
Proof. exists (Qfloor (num_q x)). split; [reflexivity|apply floor_spec]. Qed.

(* ---------- EVEN / ODD: nearest even/odd integer at or beyond the number away from zero ---------- *)
Theorem EVEN_spec x : exists t, fn_EVEN x = NOk (NI (if qsign_pos (num_q x) then t else - t)%Z) /\
  Z.even t = true /\ Qabs (num_q x) <= inject_Z t /\ inject_Z t < Qabs (num_q x) + 2.
Proof.
  unfold fn_EVEN. cbv zeta. set (a := Qabs (num_q x)). destruct (ceil_spec a) as [L U]. set (c := Qceiling a) in *.
  destruct (Z.even c) eqn:E.
  - exists c. repeat split; try assumption; lra.
  - exists (c + 1)%Z. repeat split.
    + rewrite Z.even_add, E. reflexivity.
    + rewrite inject_Z_plus. change (inject_Z 1) with 1. lra.
    + rewrite inject_Z_plus. change (inject_Z 1) with 1. lra.
Qed.
Theorem ODD_spec x : exists t, fn_ODD x = NOk (NI (if (0 <=? Qnum (num_q x))%Z then t else - t)%Z) /\
  Z.odd t = true /\ Qabs (num_q x) <= inject_Z t /\ inject_Z t < Qabs (num_q x) + 2.
Proof.
  unfold fn_ODD. cbv zeta. set (a := Qabs (num_q x)). destruct (ceil_spec a) as [L U]. set (c := Qceiling a) in *.
  destruct (Z.odd c) eqn:E.
  - exists c. repeat split; try assumption; lra.
  - exists (c + 1)%Z. repeat split.
    + rewrite Z.odd_add, E. reflexivity.
    + rewrite inject_Z_plus. change (inject_Z 1) with 1. lra.
    + rewrite inject_Z_plus. change (inject_Z 1) with 1. lra.
Qed.

(* ---------- MOD / QUOTIENT on integers ---------- *)
Theorem MOD_int a b : (b <> 0)%Z -> exists m, fn_MOD (NI a) (NI b) = NOk (NI m) /\
  (exists k, a = b * k + m)%Z /\ ((0 < b -> 0 <= m < b) /\ (b < 0 -> b < m <= 0))%Z.
Proof.
  intros Hb. unfold fn_MOD. cbn [num_q inject_Z Qnum]. destruct (b =? 0)%Z eqn:E; [exfalso; lia|].
  exists (a mod b)%Z. split; [reflexivity|]. split.
  - exists (a / b)%Z. apply Z_div_mod_eq_full.
  - split; intros H; [apply Z.mod_pos_bound; lia|apply Z.mod_neg_bound; lia].
Qed.
Theorem MOD_zero_divisor x y : (Qnum (num_q y) = 0)%Z -> fn_MOD x y = NErr EDIV0 /\ fn_QUOTIENT x y = NErr EDIV0.
Proof. intros H. unfold fn_MOD, fn_QUOTIENT. rewrite H. split; reflexivity. Qed.
Theorem MOD_general x y : (Qnum (num_q y) <> 0)%Z -> exists m, (fn_MOD x y = NOk (NF m) \/ exists z, fn_MOD x y = NOk (NI z) /\ m = inject_Z z) /\
  exists k, num_q x == num_q y * inject_Z k + m.
Proof.
  intros Hy. unfold fn_MOD. destruct (Qnum (num_q y) =? 0)%Z eqn:E; [exfalso; lia|].
  destruct x as [a|p], y as [b|q].
  - cbn [num_q inject_Z Qnum] in *. exists (inject_Z (a mod b)). split; [right; eexists; split; reflexivity|].
    exists (a / b)%Z. cbn [num_q]. rewrite <- inject_Z_mult, <- inject_Z_plus. rewrite <- Z_div_mod_eq_full. reflexivity.
  - eexists; split; [left; reflexivity|]. exists (Qfloor (num_q (NI a) / num_q (NF q))). ring.
  - eexists; split; [left; reflexivity|]. exists (Qfloor (num_q (NF p) / num_q (NI b))). ring.
  - eexists; split; [left; reflexivity|]. exists (Qfloor (num_q (NF p) / num_q (NF q))). ring.
Qed.
(* truncated quotient *)
Lemma qtrunc_spec q : (0 <= q -> inject_Z (qtrunc q) <= q /\ q < inject_Z (qtrunc q) + 1) /\
                      (q <= 0 -> q <= inject_Z (qtrunc q) /\ inject_Z (qtrunc q) - 1 < q).
Proof.
  destruct q as [n d]. unfold qtrunc, Qle, Qlt. cbn. split; intros H.
  - assert (0 <= n)%Z as Hn by lia. rewrite Z.quot_div_nonneg by lia.
    pose proof (Z.div_mod n (Z.pos d) ltac:(lia)) as E. pose proof (Z.mod_pos_bound n (Z.pos d) ltac:(lia)) as B.
    set (k := (n / Z.pos d)%Z) in *. set (r := (n mod Z.pos d)%Z) in *. clearbody k r. split; nia.
  - assert (n <= 0)%Z as Hn by lia.
    assert (n ÷ Z.pos d = - ((- n) / Z.pos d))%Z as Eq.
    { rewrite <- (Z.opp_involutive n) at 1. rewrite Z.quot_opp_l by lia. rewrite Z.quot_div_nonneg by lia. reflexivity. }
    rewrite Eq. pose proof (Z.div_mod (- n) (Z.pos d) ltac:(lia)) as E. pose proof (Z.mod_pos_bound (- n) (Z.pos d) ltac:(lia)) as B.
    set (k := ((- n) / Z.pos d)%Z) in *. set (r := ((- n) mod Z.pos d)%Z) in *. clearbody k r. split; nia.
Qed.
Theorem QUOTIENT_trunc x y : (Qnum (num_q y) <> 0)%Z -> exists z, fn_QUOTIENT x y = NOk (NI z) /\
  let q := num_q x / num_q y in
  (0 <= q -> inject_Z z <= q /\ q < inject_Z z + 1) /\ (q <= 0 -> q <= inject_Z z /\ inject_Z z - 1 < q).
Proof.
  intros Hy. unfold fn_QUOTIENT. destruct (Qnum (num_q y) =? 0)%Z eqn:E; [exfalso; lia|].
  eexists; split; [reflexivity|]. apply qtrunc_spec.
Qed.

(* ---------- SIGN / FACT / FACTDOUBLE ---------- *)
Theorem SIGN_spec x : exists s, fn_SIGN x = NOk (NI s) /\
  ((0 < num_q x -> s = 1%Z) /\ (num_q x == 0 -> s = 0%Z) /\ (num_q x < 0 -> s = (-1)%Z)).
Proof.
  exists (Z.sgn (Qnum (num_q x))). split; [reflexivity|]. unfold Qlt, Qeq. cbn. repeat split; intros H; lia.
Qed.
Theorem FACT_spec n : (0 <= n)%Z -> fn_FACT (NI n) = NOk (NI (Rounding.fact (Z.to_nat n))) /\
  Rounding.fact 0 = 1%Z /\ (forall k, Rounding.fact (S k) = (Z.of_nat (S k) * Rounding.fact k)%Z).
Proof.
  intros H. unfold fn_FACT. cbn [num_q inject_Z Qnum]. destruct (n <? 0)%Z eqn:E; [exfalso; lia|].
  unfold qtrunc. cbn. rewrite Z.quot_1_r. repeat split; reflexivity.
Qed.
Theorem negative_factorial_is_NUM x : (Qnum (num_q x) < 0)%Z -> fn_FACT x = NErr ENUM /\ fn_FACTDOUBLE x = NErr ENUM.
Proof.
  intros H. unfold fn_FACT, fn_FACTDOUBLE. destruct (Qnum (num_q x) <? 0)%Z eqn:E; [split; reflexivity|exfalso; lia].
Qed.
Lemma dfact_fuel_enough f n : (n <= Z.of_nat f)%Z ->
  dfact_fuel f n = if (n <=? 1)%Z then 1%Z else (n * dfact_fuel (pred (pred f)) (n - 2))%Z.
Proof.
  revert n. induction f as [f IH] using lt_wf_ind. intros n H. destruct f as [|f].
  - cbn. destruct (n <=? 1)%Z eqn:E; [reflexivity|exfalso; lia].
  - cbn [dfact_fuel]. destruct (n <=? 1)%Z eqn:E; [reflexivity|]. f_equal. cbn [pred].
    destruct f as [|f']; [exfalso; lia|]. cbn [pred].
    rewrite (IH (S f') ltac:(lia) (n - 2)%Z ltac:(lia)). rewrite (IH f' ltac:(lia) (n - 2)%Z ltac:(lia)).
    destruct (n - 2 <=? 1)%Z; [reflexivity|]. f_equal.
    assert (forall a b m, (m <= Z.of_nat a)%Z -> (m <= Z.of_nat b)%Z -> dfact_fuel a m = dfact_fuel b m) as G.
    { clear. induction a as [a IHa] using lt_wf_ind. intros b m Ha Hb. destruct a, b; cbn [dfact_fuel];
        try (destruct (m <=? 1)%Z eqn:E; [reflexivity|exfalso; lia]).
      destruct (m <=? 1)%Z eqn:E; [reflexivity|]. f_equal. apply IHa; lia. }
    apply G; lia.
Qed.
Theorem FACTDOUBLE_spec n : (0 <= n)%Z -> exists r, fn_FACTDOUBLE (NI n) = NOk (NI r) /\
  r = dfact_fuel (Z.to_nat n) n /\ ((n <= 1)%Z -> r = 1%Z).
Proof.
  intros H. unfold fn_FACTDOUBLE. cbn [num_q inject_Z Qnum]. destruct (n <? 0)%Z eqn:E; [exfalso; lia|].
  unfold qtrunc. cbn. rewrite Z.quot_1_r. eexists; split; [reflexivity|]. split; [reflexivity|].
  intros Hn. destruct (Z.to_nat n); cbn; [reflexivity|]. destruct (n <=? 1)%Z eqn:F; [reflexivity|exfalso; lia].
Qed.
(* the double factorial recursion n!! = n * (n-2)!! *)
Theorem dfact_step n : (2 <= n)%Z -> dfact_fuel (Z.to_nat n) n = (n * dfact_fuel (Z.to_nat (n - 2)) (n - 2))%Z.
Proof.
  intros H. rewrite dfact_fuel_enough by lia. destruct (n <=? 1)%Z eqn:E; [exfalso; lia|]. f_equal.
  assert (forall a b m, (m <= Z.of_nat a)%Z -> (m <= Z.of_nat b)%Z -> dfact_fuel a m = dfact_fuel b m) as G.
  { clear. induction a as [a IHa] using lt_wf_ind. intros b m Ha Hb. destruct a, b; cbn [dfact_fuel];
      try (destruct (m <=? 1)%Z eqn:E; [reflexivity|exfalso; lia]).
    destruct (m <=? 1)%Z eqn:E; [reflexivity|]. f_equal. apply IHa; lia. }
  apply G; lia.
Qed.

(* ---------- CEILING / FLOOR: adjacent multiple of the significance on the documented side ---------- *)
Lemma qabs_pos s : (Qnum s <> 0)%Z -> 0 < Qabs s.
Proof. intros H. destruct s as [n d]. unfold Qabs, Qlt. cbn in *. lia. Qed.
Lemma nonneg_num x : (0 <=? Qnum x)%Z = true <-> 0 <= x.
Proof. destruct x as [n d]. unfold Qle. cbn. lia. Qed.

(* number >= 0: the multiple of |significance| at or above (CEILING) / at or below (FLOOR) the number, less than one step away *)
Theorem CEILING_nonneg x s : (Qnum (num_q s) <> 0)%Z -> 0 <= num_q x -> exists k,
  fn_CEILING x s = NOk (mk_num (num_is_int s) (inject_Z k * Qabs (num_q s))) /\
  num_q x <= inject_Z k * Qabs (num_q s) /\ inject_Z k * Qabs (num_q s) < num_q x + Qabs (num_q s).
Proof.
  intros Hs Hx. unfold fn_CEILING. cbv zeta. destruct (Qnum (num_q s) =? 0)%Z eqn:E; [exfalso; lia|].
  apply nonneg_num in Hx. rewrite Hx. eexists; split; [reflexivity|].
  pose proof (qabs_pos _ Hs) as Ha. set (a := Qabs (num_q s)) in *. destruct (ceil_spec (num_q x / a)) as [L U].
  set (k := inject_Z (Qceiling (num_q x / a))) in *.
  assert (num_q x == (num_q x / a) * a) as Ex by (field; lra).
  split.
  - rewrite Ex at 1. apply Qmult_le_compat_r; lra.
  - assert ((k - 1) * a < (num_q x / a) * a) as M by (apply Qmult_lt_compat_r; lra). rewrite <- Ex in M. lra.
Qed.
Theorem FLOOR_nonneg x s : 0 < num_q s -> 0 <= num_q x -> exists k,
  fn_FLOOR x s = NOk (mk_num (num_is_int s) (inject_Z k * Qabs (num_q s))) /\
  inject_Z k * Qabs (num_q s) <= num_q x /\ num_q x < inject_Z k * Qabs (num_q s) + Qabs (num_q s).
Proof.
  intros Hs Hx. assert (Qnum (num_q s) <> 0)%Z as Hs0 by (unfold Qlt in Hs; cbn in Hs; lia).
  assert ((0 <? Qnum (num_q s))%Z = true) as Hp by (unfold Qlt in Hs; cbn in Hs; lia).
  unfold fn_FLOOR. cbv zeta. destruct (Qnum (num_q s) =? 0)%Z eqn:E; [exfalso; lia|]. rewrite Hp. cbn [negb]. rewrite andb_false_r.
  apply nonneg_num in Hx. rewrite Hx. eexists; split; [reflexivity|].
  pose proof (qabs_pos _ Hs0) as Ha. set (a := Qabs (num_q s)) in *. destruct (floor_spec (num_q x / a)) as [L U].
  set (k := inject_Z (Qfloor (num_q x / a))) in *.
  assert (num_q x == (num_q x / a) * a) as Ex by (field; lra).
  split.
  - rewrite Ex at 1. apply Qmult_le_compat_r; lra.
  - assert ((num_q x / a) * a < (k + 1) * a) as M by (apply Qmult_lt_compat_r; lra). rewrite <- Ex in M. lra.
Qed.
Theorem FLOOR_positive_number_nonpositive_significance x s : 0 < num_q x -> num_q s < 0 -> fn_FLOOR x s = NErr ENUM.
Proof.
  intros Hx Hs. unfold fn_FLOOR. cbv zeta. unfold Qlt in *. cbn in *.
  destruct (Qnum (num_q s) =? 0)%Z eqn:E; [exfalso; lia|].
  destruct (0 <? Qnum (num_q x))%Z eqn:A; [|exfalso; lia]. destruct (0 <? Qnum (num_q s))%Z eqn:B; [exfalso; lia|]. reflexivity.
Qed.
Theorem zero_significance x s : (Qnum (num_q s) = 0)%Z -> fn_CEILING x s = NOk (NI 0) /\ fn_FLOOR x s = NOk (NI 0).
Proof. intros H. unfold fn_CEILING, fn_FLOOR. cbv zeta. rewrite H. split; reflexivity. Qed.
(* number < 0 *)
Theorem CEILING_FLOOR_negative x s : (Qnum (num_q s) <> 0)%Z -> num_q x < 0 ->
  let a := Qabs (num_q s) in
  exists kc kf, fn_CEILING x s = NOk (mk_num (num_is_int s) (inject_Z kc * a)) /\
                fn_FLOOR x s = NOk (mk_num (num_is_int s) (inject_Z kf * a)) /\
    (0 < num_q s -> (num_q x <= inject_Z kc * a /\ inject_Z kc * a < num_q x + a) /\     (* CEILING: toward zero *)
                    (inject_Z kf * a <= num_q x /\ num_q x < inject_Z kf * a + a)) /\    (* FLOOR: away from zero *)
    (num_q s < 0 -> (inject_Z kc * a <= num_q x /\ num_q x < inject_Z kc * a + a) /\     (* CEILING: away from zero *)
                    (num_q x <= inject_Z kf * a /\ inject_Z kf * a < num_q x + a)).      (* FLOOR: toward zero *)
Proof.
  intros Hs Hx. cbv zeta. unfold fn_CEILING, fn_FLOOR. cbv zeta. destruct (Qnum (num_q s) =? 0)%Z eqn:E; [exfalso; lia|].
  assert ((0 <=? Qnum (num_q x))%Z = false) as Nx by (unfold Qlt in Hx; cbn in Hx; lia).
  assert ((0 <? Qnum (num_q x))%Z = false) as Nx' by (unfold Qlt in Hx; cbn in Hx; lia).
  rewrite Nx, Nx'. cbn [andb].
  pose proof (qabs_pos _ Hs) as Ha. set (a := Qabs (num_q s)) in *.
  assert (Qabs (num_q x) == - num_q x) as Eabs by (apply Qabs_neg; lra).
  set (y := Qabs (num_q x) / a).
  assert (Qabs (num_q x) == y * a) as Ey by (subst y; field; lra).
  destruct (floor_spec y) as [FL FU]. destruct (ceil_spec y) as [CL CU].
  assert (inject_Z (Qfloor y) * a <= y * a) as M1 by (apply Qmult_le_compat_r; lra).
  assert (y * a < (inject_Z (Qfloor y) + 1) * a) as M2 by (apply Qmult_lt_compat_r; lra).
  assert (y * a <= inject_Z (Qceiling y) * a) as M3 by (apply Qmult_le_compat_r; lra).
  assert ((inject_Z (Qceiling y) - 1) * a < y * a) as M4 by (apply Qmult_lt_compat_r; lra).
  destruct (0 <? Qnum (num_q s))%Z eqn:P.
  - exists (- Qfloor y)%Z, (- Qceiling y)%Z. repeat split; try reflexivity; rewrite ?inject_Z_opp;
      try (exfalso; match goal with Hsgn : _ < _ |- _ => unfold Qlt in Hsgn; cbn in Hsgn; lia end); lra.
  - exists (- Qceiling y)%Z, (- Qfloor y)%Z. repeat split; try reflexivity; rewrite ?inject_Z_opp;
      try (exfalso; match goal with Hsgn : _ < _ |- _ => unfold Qlt in Hsgn; cbn in Hsgn; lia end); lra.
Qed.
