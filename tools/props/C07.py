# -*- coding: utf-8 -*-
"""C07 - comparisons.  Model: coq/Model/Comparator.v.  Theorems: Properties/C07.v."""
import datetime
import itertools
from fractions import Fraction

from common import Result, pmap, compare

ID = 'C07'
COQ_FILES = ['Properties/C07.v', 'Proofs/ComparatorProofs.v', 'Proofs/ComparatorOrder.v']
TRUSTED = [
    'modelled, not verified: Python comparison of int/float (exact), of str (code-point lexicographic), of bool; '
    'the float serial of a date-time is modelled by the exact rational serial (pool date-times have exactly '
    'representable serials)',
]
EXPLANATION = ('Coq theorems over a transcription of ExcelComparator for ALL scalar values (rationals, date-times, '
               'code-point strings, logicals, blank): trichotomy, derived <= >= <>, converse, transitivity on non-blank '
               'values, number/date < text < logical, numeric / serial / lexicographic order, blank as 0 / "" / FALSE. '
               'Tied to operators.py by all ordered pairs of a value pool x 6 operators through Parser.parse plus random '
               'pairs; an independent oracle checks the laws on the implementation over all pairs and triples.')
ASSUMPTIONS = ['scalar operands only (no arrays, errors, complex numbers, NaN/inf)']

OPS = ['<', '>', '=', '<=', '>=', '<>']
D0 = datetime.date(1899, 12, 30).toordinal()


def pool():
    dt = datetime.datetime
    return [0, 1, -1, 2, 3, 10, -7, 61, 2 ** 53 + 1, -2 ** 60, 0.0, 0.5, -0.5, 1.0, 2.5, 61.0, 61.5, 1e-3, 1e10, -1e-9,
            True, False, None,
            '', ' ', 'a', 'A', 'ab', 'b', 'B', '1', '10', '2', '-1', '0', 'TRUE', u'\xe9', u'中', 'a\x00',
            dt(1900, 1, 1), dt(1900, 1, 2), dt(1900, 3, 1), dt(1900, 3, 1, 12), dt(2020, 1, 1), dt(2020, 1, 1, 6),
            dt(9999, 12, 31),
            # values that differ by a relative 1e-10 or less (a tolerance-based equality would merge them)
            2 ** 53, 9007199254740992.0, 9007199254740994.0, 10 ** 10 + 1, 43831.25, 43831.250001, dt(2020, 1, 1, 6, 0, 1), dt(2020, 1, 1, 6, 0, 0, 1000), 1e-3 + 1e-14]


def enc_val(v):
    if v is None:
        return [4]
    if isinstance(v, bool):
        return [3, int(v)]
    if isinstance(v, (int, float)):
        f = Fraction(v)
        return [0, f.numerator, f.denominator]
    if isinstance(v, str):
        return [2, len(v)] + [ord(c) for c in v]
    if isinstance(v, datetime.datetime):
        return [1, v.year, v.month, v.day, v.hour, v.minute, v.second, v.microsecond]
    raise TypeError(v)


def _impl_cmp(c):
    import hotxlfp
    op, a, b = c
    p = hotxlfp.Parser()
    p.set_variable('va', a)
    p.set_variable('vb', b)
    r = p.parse('va%svb' % OPS[op])
    if r['error'] is not None:
        return ['ERR', r['error']]
    if r['result'] is True:
        return [1]
    if r['result'] is False:
        return [0]
    return ['NOTBOOL', repr(r['result'])]


# ---------------- independent oracle ----------------
def numval(v):
    """exact numeric value of a number or date (serial), else None"""
    if isinstance(v, bool) or v is None or isinstance(v, str):
        return None
    if isinstance(v, datetime.datetime):
        mid = datetime.datetime(v.year, v.month, v.day)
        frac = Fraction((v - mid) // datetime.timedelta(microseconds=1), 86400000000)
        o = v.toordinal()
        if v == datetime.datetime(1900, 1, 1):
            return Fraction(0)
        if v < datetime.datetime(1900, 3, 1):
            return Fraction(o - D0 - 1) + frac
        return Fraction(o - D0) + frac
    return Fraction(v)


def rank(v):
    if isinstance(v, bool):
        return 2
    if isinstance(v, str):
        return 1
    return 0


def zero_of(v):
    return False if isinstance(v, bool) else ('' if isinstance(v, str) else 0)


def expected_order(a, b):
    """-1, 0, 1 by the property's reading"""
    if a is None and b is None:
        return 0
    if a is None:
        a = zero_of(b)
    if b is None:
        b = zero_of(a)
    if rank(a) != rank(b):
        return -1 if rank(a) < rank(b) else 1
    if rank(a) == 0:
        x, y = numval(a), numval(b)
    elif rank(a) == 1:
        x, y = [ord(c) for c in a], [ord(c) for c in b]
    else:
        x, y = int(a), int(b)
    return -1 if x < y else (1 if x > y else 0)


def check_pair(pair):
    """All six operators on (a, b): laws + expected order."""
    a, b = pair
    r = [_impl_cmp((i, a, b)) for i in range(6)]
    out = []
    if any(x not in ([0], [1]) for x in r):
        return [('a comparison did not evaluate to a logical', 'TRUE/FALSE x6', r)]
    lt, gt, eq, le, ge, ne = [x[0] for x in r]
    if lt + eq + gt != 1:
        out.append(('not exactly one of a<b, a=b, a>b', 1, (lt, eq, gt)))
    if le != (lt or eq) or ge != (gt or eq) or ne != (1 - eq):
        out.append(('<=, >=, <> are not the derived relations', ((lt or eq), (gt or eq), 1 - eq), (le, ge, ne)))
    conv = _impl_cmp((1, b, a))
    if conv != [lt]:
        out.append(('a<b differs from b>a', lt, conv))
    # corollaries proved in Proofs/ComparatorOrder.v, asked of the implementation directly
    if _impl_cmp((2, b, a)) != [eq]:
        out.append(('a=b differs from b=a', eq, _impl_cmp((2, b, a))))
    if _impl_cmp((4, b, a)) != [le]:
        out.append(('a<=b differs from b>=a', le, _impl_cmp((4, b, a))))
    if a is b and (lt, eq, gt) != (0, 1, 0):
        out.append(('a value is not equal to itself', (0, 1, 0), (lt, eq, gt)))
    e = expected_order(a, b)
    if (lt, eq, gt) != (int(e < 0), int(e == 0), int(e > 0)):
        out.append(('order differs from number/date < text < logical with numeric / lexicographic order and blank '
                    'conversion', e, (lt, eq, gt)))
    return out


def dec_case_val(x):
    if isinstance(x, list) and x and x[0] == 'DT':
        return datetime.datetime(*x[1:])
    return x


def enc_case_val(v):
    if isinstance(v, datetime.datetime):
        return ['DT', v.year, v.month, v.day, v.hour, v.minute, v.second, v.microsecond]
    return v


def check_case(case):
    if 'formula' in case:     # fixed-finding witnesses such as TRUE<3
        import hotxlfp
        r = hotxlfp.Parser().parse(case['formula'])
        exp = {'TRUE<3': False}.get(case['formula'])
        if exp is not None and r['result'] is not exp:
            return [{'case': case, 'what': 'logical compared as a number', 'class': None, 'expected': exp, 'observed': r}]
        return []
    vals = [dec_case_val(x) for x in case['values']]
    vs = []
    if len(vals) == 2:
        vs = check_pair(vals)
    elif len(vals) == 3:
        a, b, c = vals
        if _impl_cmp((0, a, b)) == [1] and _impl_cmp((0, b, c)) == [1] and _impl_cmp((0, a, c)) != [1]:
            vs = [('order is not transitive', 'a<c', 'a<b and b<c but not a<c')]
    return [{'case': case, 'what': w, 'class': None, 'expected': repr(e), 'observed': repr(g)} for (w, e, g) in vs]


def _pair_worker(pair):
    return [(pair,) + x for x in check_pair(pair)]


def rand_val(rng):
    k = rng.randrange(7)
    if k == 0:
        return rng.randint(-5, 5) if rng.random() < 0.5 else rng.randint(-10 ** 18, 10 ** 18)
    if k == 1:
        return rng.randint(-2 ** 30, 2 ** 30) / 2.0 ** rng.randint(0, 20)
    if k == 2:
        return rng.random() < 0.5
    if k == 3:
        return None
    if k == 4:
        return ''.join(rng.choice(u'aAbBzZ019 -_.\xe9中') for _ in range(rng.randint(0, 4)))
    if k == 5:
        o = rng.randint(datetime.date(1900, 1, 1).toordinal(), datetime.date(9999, 12, 31).toordinal())
        return datetime.datetime.fromordinal(o) + datetime.timedelta(hours=rng.choice([0, 0, 6, 12, 18]))
    return rng.choice([0, 0.0, 1, '', False, True, 61, 2])


def explore(ctx):
    R = Result()
    rng = ctx.rng
    P = pool()
    pairs = [(a, b) for a in P for b in P]
    R.exhaustive = True   # over the pool
    nr = 60000 if ctx.thorough else 4000
    rpairs = [(rand_val(rng), rand_val(rng)) for _ in range(nr)]
    # near-equal pairs: same kind
    for _ in range(nr // 4):
        a = rand_val(rng)
        b = a if rng.random() < 0.3 else rand_val(rng)
        rpairs.append((a, b))
    allpairs = pairs + rpairs
    cases = [(op, a, b) for (a, b) in allpairs for op in range(6)]
    compare(R, ctx, 'compare', cases, lambda c: [c[0]] + enc_val(c[1]) + enc_val(c[2]), _impl_cmp,
            key=lambda c: (c[0], repr(c[1]), repr(c[2])))
    # oracle: laws and expected order on every pair
    for vs in pmap(_pair_worker, allpairs):
        for x in vs:
            pair, w, e, g = x
            R.violate({'values': [enc_case_val(v) for v in pair]}, w, None, repr(e), repr(g))
    R.evaluations += len(allpairs)
    # transitivity over all triples of non-blank pool values (uses the pair results: one parse per ordered pair)
    nb = [v for v in P if v is not None]
    lt = {}
    res = pmap(_impl_cmp, [(0, a, b) for a in nb for b in nb])
    it = iter(res)
    for i, a in enumerate(nb):
        for j, b in enumerate(nb):
            lt[(i, j)] = next(it) == [1]
    ntr = 0
    n = len(nb)
    for i in range(n):
        for j in range(n):
            if lt[(i, j)]:
                for k in range(n):
                    if lt[(j, k)]:
                        ntr += 1
                        if not lt[(i, k)]:
                            R.violate({'values': [enc_case_val(nb[i]), enc_case_val(nb[j]), enc_case_val(nb[k])]},
                                      'order is not transitive', None, 'a<c', 'a<b and b<c but not a<c')
    R.evaluations += n ** 3
    R.extra['transitivity_triples_with_premises'] = ntr
    R.rule = ('all %d ordered pairs of a %d-value pool (ints incl. > 2^53, floats, logicals, blank, empty/numeric-looking/'
              'accented/CJK text, date-times incl. the 1900 boundaries) x 6 operators vs the model; %d random pairs; oracle: '
              'trichotomy, derived operators, converse, expected order on every pair; transitivity on all %d triples of '
              'non-blank pool values.' % (len(pairs), len(P), len(rpairs), n ** 3))
    return R


def search(ctx, proof, res):
    R = Result()
    rng = ctx.rng
    cand = []
    for d in res.disagreements:
        c = d['case']
        cand.append((c[1], c[2]))
        cand.append((c[2], c[1]))
    cand += [(rand_val(rng), rand_val(rng)) for _ in range(100000)]
    for vs in pmap(_pair_worker, cand):
        for x in vs:
            pair, w, e, g = x
            R.violate({'values': [enc_case_val(v) for v in pair]}, w, None, repr(e), repr(g))
    # transitivity around the disagreeing values
    vals = []
    for d in res.disagreements[:12]:
        vals += [d['case'][1], d['case'][2]]
    vals = [v for v in vals if v is not None] + [v for v in pool() if v is not None]
    for a, b, c in itertools.product(vals[:30], repeat=3):
        if _impl_cmp((0, a, b)) == [1] and _impl_cmp((0, b, c)) == [1] and _impl_cmp((0, a, c)) != [1]:
            R.violate({'values': [enc_case_val(a), enc_case_val(b), enc_case_val(c)]}, 'order is not transitive', None)
            break
    R.evaluations = len(cand)
    return R
