# -*- coding: utf-8 -*-
"""C02 - evaluation is a pure, repeatable function of formula and bindings.  Theorems: Properties/C02.v."""
import copy
import json
import gc
import io
import os
import random
import sys
import contextlib

import interp
from common import Result, pmap, VERIF, canon_py, HANG, thaw, ERR

ID = 'C02'
COQ_FILES = ['Properties/C02.v', 'Proofs/SessionsProofs.v', 'Model/Sessions.v', 'Gen/Sessions.v']
TRUSTED = [
    'Gen/Sessions.v regenerated on every run by tools/gen/sessions.py (python ast, fail-closed): a private lexer clone per '
    'evaluation on per-instance lexer / LR parser objects, release_tracebacks() in the finally clause clearing every error '
    'constant, self.debug only guards traceback.print_exc(), no global statement / cache decorator / mutable default in the '
    'package, per-instance binding dicts, no in-place mutation of a parameter or of a plain alias of one (method calls, item / slice '
    'assignment) in any function of the package',
    'modelled, not verified: the Python object graph (aliasing of host lists, reference cycles, the garbage collector) - the '
    'model has immutable values, so non-mutation of host values and retention are decided by the oracle of this check; ply '
    'LRParser re-initialises its stacks at every parse (ply 3.11, third-party, observed through the histories)',
]
EXPLANATION = ('Coq theorems over a session model with explicit lexer objects: for every history of registrations and evaluations on a '
               'parser, every evaluation returns what a fresh parser with the same bindings returns (the evaluation reads exactly '
               'the tokens of its own text whatever ran before), nothing is retained over any history of any length when the '
               'finally clause releases the error objects (linear growth otherwise: refutation), debug is not an input. The facts '
               'the model is parameterised by are generated from the source. Tied to the code by random histories (valid, failing, '
               'callback-raising evaluations, both debug settings) compared with fresh parsers and with the interpreter model, '
               'deep equality of host-supplied lists before/after every built-in and operator, and live traceback/frame object '
               'counts after 100/200/400 repetitions.')
ASSUMPTIONS = ['NOW, TODAY, RAND, RANDBETWEEN are excluded (clock / random source); once-listeners are consumed by design (C20)']


def gen(ctx):
    sys.path.insert(0, os.path.join(VERIF, 'tools', 'gen'))
    import sessions
    root = os.environ.get('VERIF_SNAPSHOT', '/repo')
    c = sessions.write(os.path.join(VERIF, 'coq', 'Gen', 'Sessions.v'), root)
    return {'Gen/Sessions.v': 'regenerated (changed)' if c else 'regenerated (identical to the committed baseline)'}


class Boom(Exception):
    pass


class BadRepr(object):
    def __repr__(self):
        raise ValueError('this object cannot be printed')
    __str__ = __repr__


GOOD = ['1+2*3', 'SUM(1,2,3)', 'IF(1<2,"y","n")', '"a"&"b"', 'aa+bb', 'REC(aa,2)', 'A1+1', 'SUM(A1:B2)', '{1,2,3}', 'MAX(LL)', 'LARGE(LL,2)', 'INDEX(MM,2,1)', 'CONCATENATE("x",aa)',
        '-aa', '2^10', '50%', 'ROUND(2.567,1)', 'AND(TRUE,FALSE)', 'MEDIAN(LL)', 'SUMPRODUCT(LL,LL)', 'LEN("hello")', 'DATE(2020,1,31)', 'LL', 'MM', 'IFERROR(1/0,7)',
        'MATCH(3,LL,0)', 'SMALL(LL,1)', 'RANK(3,LL)', 'MODE.SNGL(LL)', 'TRANSPOSE(MM)', 'COUNT(LL)', 'LL+1', 'LL*LL', 'MM&"x"', 'SUM(MM)', 'STDEV.S(LL)',
        # equal values of different types through the same functions (a value-keyed memo would alias 1.0 / TRUE / 1, 0.0 / FALSE / -0.0)
        'MEDIAN(1.0)', 'MEDIAN(TRUE)', 'MEDIAN(1)', 'MAXA(TRUE,FALSE)', 'MAXA(1.0,0.0)', 'MINA(FALSE,TRUE)', 'MINA(0.0,1.0)', 'AVERAGE(1.0,0.0)',
        'AVERAGE(1,0)', 'LARGE({1.0,0.0},1)', 'LARGE({1,0},1)', 'SUM(1.0,0.0)', 'SUM(TRUE,FALSE)', 'MAX(0.0,-1)', 'MAX(0,-1)', 'MEDIAN(0.0)', 'MEDIAN(FALSE)',
        'ABS(1.0)', 'ABS(TRUE)', 'ABS(1)', 'INT(1.0)', 'ROUND(TRUE,0)', 'MAXA(1.0,0.0)=TRUE', 'MEDIAN(1.0)&""', 'MEDIAN(TRUE)&""', 'MEDIAN(1)&""',
        # values that cannot be printed (an int beyond the interpreter's int-to-str limit, an object whose repr raises) as
        # arguments and results of calls: debug output, if any, must not change the outcome
        'ISNUMBER(FACT(2000))', 'IF(FACT(2000)>1,"big","small")', 'ISNUMBER(9^9999)', 'ISTEXT(weird)', 'IF(ISBLANK(weird),1,2)', 'ISNUMBER(REC(weird,1))',
        'ISERROR(KEEPW(weird))']
BAD = ['1+', '(1', 'NOPE()', 'nope', '1/0', '#N/A', '#REF!+1', 'SUM(', '"abc', '1 2', u'\xe9', '@', 'IF(', '))', 'BOOM()', 'XL()', 'A1:', 'LISTEN', '1+BOOM()+2', 'SUM(1,XL())',
       'SQRT(-1)', 'VLOOKUP(1,2)', 'INDEX(LL,99)', 'MATCH(99,LL,0)', 'DATE("x",1,1)', '{1,2', 'F(', 'RAISECELL',
       # failing calls under something that observes or discards errors (debug on / off must agree here too)
       'IFERROR(BOOM(),0)', 'ISERROR(BOOM())', 'IF(TRUE,"n/a",BOOM())', 'IFERROR(XL(),0)', 'ISERROR(XL())', 'ISNA(XL())', 'IFERROR(SQRT(-1),0)',
       'IFERROR(nope,0)', 'IFERROR(NOPE(),0)', 'IFERROR(1/0,BOOM())', 'IF(FALSE,BOOM(),2)', 'ISERROR(RAISECELL)', 'IFERROR(LISTEN,0)',
       # references whose listener raises (the evaluation is aborted in the middle of a callback), in several spellings
       'Z9', 'Z9+1', '$Z$9', 'z9', 'SUM(Z9,1)', 'IFERROR(Z9,0)', '1+Z9+A1', 'Y8:Y9', 'SUM(Y8:Y9)', 'y8:Y9', 'Y9:Y8', 'LISTEN', 'LISTEN+1', 'BOOM()+BOOM()']


def build(debug):
    import hotxlfp
    from hotxlfp.formulas import error
    p = hotxlfp.Parser(debug=debug)
    host = {'aa': 5, 'bb': 2.5, 'LL': [3, 1, 4, 1, 5, 9, 2, 6], 'MM': [[1, 2], [3, 4]], 'tt': 'txt'}
    for k, v in host.items():
        p.set_variable(k, v)
    p.set_function('REC', lambda *a: list(a))
    p.set_variable('weird', BadRepr())
    p.set_function('KEEPW', lambda x: x)

    def boom(*a):
        raise Boom('x')

    def xl(*a):
        raise error.NOT_AVAILABLE
    p.set_function('BOOM', boom)
    p.set_function('XL', xl)
    cells = {'A1': 7, 'B2': [1, 2]}

    def on_cell(cell, done):
        if cell.label == 'Z9':
            raise Boom('cell')
        done(cells.get(cell.label))
    p.on('callCellValue', on_cell)

    def on_range(a, b, done):
        if a.label == 'Y8':
            raise Boom('range')
        done([[1, 2], [3, 4]])
    p.on('callRangeValue', on_range)

    def on_var(name, done):
        if name == 'LISTEN':
            raise Boom('var')
    p.on('callVariable', on_var)
    return p, host


def outcome(p, f):
    err = io.StringIO()
    with contextlib.redirect_stderr(err), contextlib.redirect_stdout(err):
        try:
            r = p.parse(f)
        except BaseException as e:  # noqa
            return ('ESCAPED', type(e).__name__)
    return ('R', canon_py(r.get('result')), r.get('error')) if isinstance(r, dict) else ('MALFORMED', repr(r))


def check_history(item):
    """target evaluated after a history (on a long-lived parser, debug on or off) vs on a fresh parser"""
    hist, target, debug = item
    p, _ = build(debug)
    for f in hist:
        outcome(p, f)
    got = outcome(p, target)
    q, _ = build(False)
    want = outcome(q, target)
    if got != want:
        return [('after %d evaluations (debug=%s): %s' % (len(hist), debug, target), None, repr(want), repr(got) + ' history=%r' % (hist[-6:],))]
    return []


def check_mutation(item):
    """host-supplied lists are never mutated: variables, cell / range values, arguments of custom functions"""
    f = item
    p, host = build(False)
    snap = copy.deepcopy(host)
    seen = []
    p.set_function('KEEP', lambda *a: seen.append((a, copy.deepcopy(a))) or a[0])
    cellv = {'A1': [[5, 3], [1, 2]], 'B2': [9, 8, 7]}
    cellsnap = copy.deepcopy(cellv)
    p._e.pop('callCellValue', None)
    p.on('callCellValue', lambda cell, done: done(cellv.get(cell.label)))
    rng = [[4, 2], [3, 1]]
    rngsnap = copy.deepcopy(rng)
    p._e.pop('callRangeValue', None)
    p.on('callRangeValue', lambda a, b, done: done(rng))
    outcome(p, f)
    out = []
    if host != snap:
        out.append((f, None, repr(snap), repr(host)))
    if cellv != cellsnap or rng != rngsnap:
        out.append((f, None, repr((cellsnap, rngsnap)), repr((cellv, rng))))
    for a, b in seen:
        if list(a) != list(b):
            out.append((f + ' (argument of a custom function mutated later in the evaluation)', None, repr(b), repr(a)))
    return out


def frames_alive():
    gc.collect()
    n = 0
    for o in gc.get_objects():
        t = type(o).__name__
        if t in ('traceback', 'frame'):
            n += 1
    return n


def check_retention(item):
    """live traceback/frame objects and error-chain lengths as a function of the number of failing evaluations"""
    formulas, reps = item
    from hotxlfp.formulas import error
    p, _ = build(False)
    counts = []
    chain = []
    total = []
    for n in reps:
        for _ in range(n):
            for f in formulas:
                outcome(p, f)
        counts.append(frames_alive())
        gc.collect()
        total.append(len(gc.get_objects()))
        c = 0
        for e in (error.ERROR, error.DIV_ZERO, error.NAME, error.NOT_AVAILABLE, error.NULL, error.NUM, error.REF, error.VALUE, error.DATA):
            tb = e.__traceback__
            while tb is not None:
                c += 1
                tb = tb.tb_next
        chain.append(c)
    out = []
    if chain[-1] != 0 or max(chain) != 0:
        out.append(('traceback chains of the error constants after %r repetitions of %r' % (reps, formulas), None, '0', repr(chain)))
    if counts[-1] > counts[0] + 2:
        out.append(('live traceback/frame objects after %r repetitions of %r' % (reps, formulas), None, 'no growth', repr(counts)))
    if total[-1] > total[0] + 50:
        out.append(('live gc objects after %r repetitions of %r' % (reps, formulas), None, 'no growth', repr(total)))
    return out


INNER = {'1+1': 2, '2*3': 6, 'aa': 5, '"t"': 't', '1/0': None, 'SUM(LL)': 31}
REENTRANT = ['EV("1+1")+5', '5+EV("1+1")', 'EV("2*3")*EV("aa")', 'SUM(EV("1+1"),3,4)', 'IF(EV("1+1")=2,"yes","no")', 'EV("SUM(LL)")-1', '(EV("aa"))&EV("\"t\"")',
             'EV("1/0")', 'derived+1', 'derived-derived', 'REC(derived,EV("aa"),A1)+0' if False else 'REC(derived,EV("aa"),A1)', 'A1+EV("1+1")+A1']


def check_reentrant(f):
    """an evaluation on the same parser, started by a custom function or a listener in the middle of another one, does not
    change the outer outcome: compared with a plain function / value returning the same thing"""
    out = []
    res = []
    for nested in (True, False):
        p, _ = build(False)
        p.set_function('EV', (lambda t, p=p: p.parse(t)['result']) if nested else (lambda t: INNER[t]))

        def on_var(name, done, p=p, nested=nested):
            if name == 'derived':
                done(p.parse('aa*2')['result'] if nested else 10)
        p._e.pop('callVariable', None)
        p.on('callVariable', on_var)
        res.append(outcome(p, f))
    if res[0] != res[1]:
        out.append(('re-entrant evaluation inside %s' % f, None, repr(res[1]), repr(res[0])))
    return out


_DRIVER = r"""
import json, os, signal, sys
sys.path[:0] = json.loads(os.environ['C02_PATH'])
import C02
import hotxlfp                      # imported, nothing evaluated: every child below starts from this state
items = json.load(sys.stdin)
out = []
for hist, target, debug in items:
    r, w = os.pipe()
    pid = os.fork()
    if pid == 0:
        os.close(r)
        try:
            signal.alarm(30)
            p, _ = C02.build(debug)
            for f in hist:
                C02.outcome(p, f)
            res = repr(C02.outcome(p, target))
        except BaseException as e:
            res = 'CRASH %r' % (e,)
        os.write(w, res.encode('utf-8'))
        os._exit(0)
    os.close(w)
    buf = b''
    while True:
        chunk = os.read(r, 65536)
        if not chunk:
            break
        buf += chunk
    os.close(r)
    os.waitpid(pid, 0)
    out.append(buf.decode('utf-8') or 'NO-ANSWER')
sys.stdout.write(json.dumps(out))
"""


def check_isolated(items):
    """process-wide history: each (history, target) runs in a child forked from a process that has imported the package
    and evaluated nothing, and is compared with the target evaluated alone in another such child (a memo table or any
    other process-global state filled by the history cannot hide in the reference outcome)"""
    import subprocess
    items = [(list(h), t, bool(d)) for (h, t, d) in items]
    alone = sorted(set(t for (_, t, _) in items))
    jobs = [([], t, False) for t in alone] + items
    env = dict(os.environ, C02_PATH=json.dumps([os.path.dirname(os.path.abspath(__file__))] + [x for x in sys.path if x]))
    pr = subprocess.run([sys.executable, '-c', _DRIVER], input=json.dumps(jobs).encode('utf-8'), stdout=subprocess.PIPE, stderr=subprocess.PIPE, env=env)
    if pr.returncode != 0:
        return [('isolated-history driver', None, 'runs', pr.stderr.decode('utf-8', 'replace')[-400:])]
    res = json.loads(pr.stdout.decode('utf-8'))
    want = dict(zip(alone, res[:len(alone)]))
    out = []
    for (h, t, d), got in zip(items, res[len(alone):]):
        if got != want[t]:
            out.append((h, t, d, want[t], got))
    return out


def check_isolated_one(item):
    h, t, d = item
    return [('in a fresh process, after %r (debug=%s): %s' % (h, d, t), None, w, g) for (_, _, _, w, g) in check_isolated([(h, t, d)])]


def check_cross(_):
    """the outcome depends on the bindings of THAT parser: what is registered on another live parser (before or after this
    one was built) changes nothing"""
    import hotxlfp
    out = []
    a = hotxlfp.Parser()
    forms = ['DOUBLE(4)', 'SUM(1,2)', 'extra', 'TRUE', 'MAX(DOUBLE(1),2)']
    before = [outcome(a, f) for f in forms]
    b = hotxlfp.Parser()
    b.set_function('DOUBLE', lambda x: 2 * x)
    b.set_function('SUM', lambda *x: 'shadowed')
    b.set_variable('extra', 9)
    b.set_variable('TRUE', 'no')
    [outcome(b, f) for f in forms]
    after = [outcome(a, f) for f in forms]
    c = hotxlfp.Parser()
    fresh = [outcome(c, f) for f in forms]
    if after != before or fresh != before:
        out.append(('functions / variables registered on another parser in between (%r)' % (forms,), None, repr(before), repr((after, fresh))))
    return out


CHECKERS = {'cross': check_cross, 'reentrant': check_reentrant, 'history': check_history, 'mutation': check_mutation, 'retention': check_retention,
            'isolated': check_isolated_one}


def check_case(case):
    for k, fn in CHECKERS.items():
        if k in case:
            c = case[k]
            if k in ('history', 'isolated'):
                c = (list(c[0]), c[1], c[2])
            elif k == 'retention':
                c = (list(c[0]), list(c[1]))
            return [{'case': case, 'what': w, 'class': cls, 'expected': e, 'observed': g} for (w, cls, e, g) in fn(c)]
    return []


def _worker(kc):
    k, c = kc
    return [(k, c) + x for x in CHECKERS[k](c)]


def all_functions_on_lists():
    from hotxlfp import formulas
    fs = []
    for n in formulas.supported():
        if n in ('NOW', 'TODAY', 'RAND', 'RANDBETWEEN'):
            continue
        for args in ('LL', 'MM', 'LL,2', 'LL,LL', 'MM,1', '2,LL', 'A1', 'A1:B2', 'A1:B2,2', 'LL,1,1', 'KEEP(LL),2', 'KEEP(MM)', 'LL,LL,LL', 'MM,2,1', '">2",LL', 'LL,">2"',
                     'LL,">2",LL', '3,LL,0', '3,LL,1', 'B2,2'):
            fs.append('%s(%s)' % (n, args))
    for op in '+-*/&=<>':
        for a, b in (('LL', 'LL'), ('LL', '2'), ('2', 'MM'), ('MM', 'MM'), ('A1', 'A1'), ('KEEP(LL)', '1')):
            fs.append('%s%s%s' % (a, op, b))
    fs += ['-LL', '{1,2}+LL', 'KEEP(LL)', 'REC(LL,MM)', 'KEEP(LL)+SORT(LL)', 'LARGE(KEEP(LL),1)+SMALL(KEEP(LL),1)', 'MEDIAN(KEEP(LL))', 'TRANSPOSE(KEEP(MM))']
    return fs


ALIAS = GOOD[GOOD.index('MEDIAN(1.0)'):GOOD.index('ISNUMBER(FACT(2000))')]


def iso_items(rng, n, all_pairs):
    items = []
    pool = GOOD + BAD
    for a in ALIAS:                 # all pairs inside the group of type-aliased values
        for b in ALIAS:
            if a != b:
                items.append(([a], b, False))
    if all_pairs:
        for a in pool:
            for b in pool:
                items.append(([a], b, False))
    for _ in range(n):
        k = rng.choice([1, 1, 2, 3, 6, 15])
        items.append(([rng.choice(pool) for _ in range(k)], rng.choice(pool), rng.random() < 0.2))
    return items


def run_isolated(R, items):
    chunks = [items[i:i + 40] for i in range(0, len(items), 40)]
    for ch, vs in zip(chunks, pmap(check_isolated, chunks, limit=600.0, confirm=False, serial_below=2)):
        if vs == HANG:
            R.violate({'isolated_chunk': len(ch)}, 'isolated-history chunk of %d items' % len(ch), None, 'returns', 'time limit')
            continue
        for v in vs:
            if len(v) == 4:
                R.violate({'isolated_chunk': len(ch)}, v[0], v[1], v[2], v[3])
                continue
            h, t, d, w, g = v
            R.violate({'isolated': [list(h), t, d]}, 'in a fresh process, after %r (debug=%s): %s' % (h, d, t), None, w, g)
    return len(items)


def explore(ctx):
    R = Result()
    rng = ctx.rng
    big = ctx.thorough
    work = []
    nh = 3000 if big else 400
    for i in range(nh):
        n = rng.choice([0, 1, 2, 5, 20, 60])
        hist = [rng.choice(GOOD + BAD + BAD) if rng.random() < 0.8 else ''.join(rng.choice('1+(A)"#,x ') for _ in range(rng.randint(1, 6))) for _ in range(n)]
        target = rng.choice(GOOD + BAD)
        work.append(('history', (hist, target, rng.random() < 0.5)))
    # every pair (previous evaluation, target): one-step histories, both debug settings
    for a in BAD + GOOD[:12]:
        for b in GOOD + BAD:
            work.append(('history', ([a], b, False)))
    for b in GOOD + BAD:
        work.append(('history', ([], b, True)))
    work += [('reentrant', f) for f in REENTRANT] + [('cross', 0)]
    muts = all_functions_on_lists()
    work += [('mutation', f) for f in muts]
    reps = [100, 100, 200] if big else [40, 40, 80]
    for fs in (['1/0'], ['NOPE()'], ['BOOM()'], ['XL()'], ['1+'], ['#N/A'], BAD, GOOD[:10], ['Z9'], ['LISTEN'], ['SQRT(-1)', 'INDEX(LL,99)']):
        work.append(('retention', (fs, reps)))
    for (k, c), vs in zip(work, pmap(_worker, work, limit=120.0, confirm=False)):
        if vs == HANG:
            R.violate({k: c}, '%s %r' % (k, c), None, 'returns', 'time limit')
            continue
        for (k_, c_, w, cls, e, g) in vs:
            R.violate({k: list(c) if isinstance(c, tuple) else c}, w, cls, e, g)
    R.evaluations += len(work)
    # process-wide history (memo tables, class-level state): (history, target) in pristine processes
    ni = run_isolated(R, iso_items(rng, 12000 if big else 1500, big))
    R.evaluations += ni
    R.extra['isolated_process_histories'] = ni
    # correspondence on histories: every evaluation of a history on a long-lived real parser vs the interpreter model on
    # a fresh host with the same bindings (= run_history vs fresh_outcomes)
    from common import compare
    forms = ['1+2*3', 'aa+1', 'REC(aa,2)', '1+', 'NOPE()', 'BOOM()', 'XL()', '#N/A', 'A1', 'A1:B2', 'nope', 'SUM(1,2)', '(1', '"x"&aa', 'IF(1<2,3,4)', '-aa', 'SUM(', '1/0']
    hosts = dict(vars=[('aa', 5)], funs=[('REC', 'record', None), ('BOOM', 'raise_py', None), ('XL', 'raise_xl', '#N/A')], cells=[('A1', [7])], ranges=[[1, 2]])
    hist_cases = []
    for _ in range(600 if big else 80):
        hist_cases.append([rng.choice(forms) for _ in range(rng.randint(1, 12))])
    flat = [dict(hosts, formula=f, _h=i, _k=k) for i, h in enumerate(hist_cases) for k, f in enumerate(h)]
    compare(R, ctx, 'parse', flat, interp.enc_case, _HistImpl(hist_cases), key=lambda c: (c['_h'], c['_k']), eq=interp.eq_case)
    R.extra['histories'] = nh
    R.extra['mutation_formulas'] = len(muts)
    R.rule = ('%d random histories of 0..60 evaluations (valid, failing, aborted by raising custom functions / listeners, garbage) before a '
              'target, debug on/off, vs a fresh parser; all (previous, target) pairs over %d formulas; %d formulas applying every '
              'registered function and operator to host lists (variables, cell / range values, custom-function arguments) with deep '
              'equality before/after; error-constant traceback chains and live traceback/frame/gc object counts after %r repetitions of 11 '
              'failing workloads; %d histories on a long-lived parser vs the interpreter model on fresh hosts; %d (history, target) '
              'items each run in a child forked from a process that imported the package and evaluated nothing, vs the target '
              'alone in another such child (process-wide state: memo tables, class-level containers).'
              % (nh, len(GOOD + BAD), len(muts), reps, len(hist_cases), ni))
    return R


class _HistImpl(object):
    """implementation side of the history correspondence: the k-th evaluation of history h on ONE long-lived parser"""

    def __init__(self, hists):
        self.hists = hists

    def __call__(self, c):
        p, events = interp.make_parser(dict(c, formula=''))
        h = self.hists[c['_h']]
        for f in h[:c['_k']]:
            try:
                p.parse(f)
            except BaseException:  # noqa
                pass
        del events[:]
        try:
            r = p.parse(c['formula'])
        except BaseException as e:  # noqa
            return ('ESCAPED', type(e).__name__), events
        if r['error'] is not None:
            return ('E', r['error']), list(events)
        return ('R', canon_py(r['result'])), list(events)


def search(ctx, proof, res):
    R = Result()
    rng = random.Random(ctx.seed + 3)
    work = []
    for i in range(1500):
        hist = [rng.choice(GOOD + BAD + BAD) for _ in range(rng.choice([1, 2, 5, 20]))]
        work.append(('history', (hist, rng.choice(GOOD + BAD), rng.random() < 0.5)))
    work += [('mutation', f) for f in all_functions_on_lists()] + [('reentrant', f) for f in REENTRANT] + [('cross', 0)]
    for fs in (['1/0'], ['NOPE()'], ['BOOM()'], ['XL()'], ['1+'], BAD):
        work.append(('retention', (fs, [40, 40, 80])))
    for (k, c), vs in zip(work, pmap(_worker, work, limit=120.0, confirm=False)):
        if vs == HANG:
            continue
        for (k_, c_, w, cls, e, g) in vs:
            R.violate({k: list(c) if isinstance(c, tuple) else c}, w, cls, e, g)
    R.evaluations = len(work)
    R.evaluations += run_isolated(R, iso_items(rng, 4000, True))
    return R
