# -*- coding: utf-8 -*-
"""Generates coq/Gen/PredFns.v from hotxlfp/formulas/information.py (and hotxlfp/_compat) of the tree under test
(python ast, fail-closed): the one-argument type predicates as class-test expressions (pexp) and ISEVEN / ISODD as
parity shapes of coq/Model/PredShape.v.

Accepted shapes (anything else clears pred_gen_ok, which breaks the theorems that consume it):

    def NAME(value): return <pexp>
        pexp ::= isinstance(value, C) | isinstance(value, (C, ...)) | value is None | value == error.X | value != error.X
               | not pexp | pexp and pexp | pexp or pexp | (pexp)
        C    ::= bool | number_types | string_types | error.XLError | datetime.datetime

    def NAME(number):
        if not isinstance(number, C): return error.VALUE
        return (int(number) & 1) == 0|1

    _compat: number_types = (int, float, complex); string_types = (str,)
"""
import ast
import os

PREDS = ('ISNUMBER', 'ISTEXT', 'ISLOGICAL', 'ISBLANK', 'ISERROR', 'ISERR', 'ISNA', 'ISNONTEXT')
PARITY = ('ISEVEN', 'ISODD')
ERRS = {'ERROR': 'EERROR', 'DIV_ZERO': 'EDIV0', 'NAME': 'ENAME', 'NOT_AVAILABLE': 'ENA', 'NULL': 'ENULL', 'NUM': 'ENUM',
        'REF': 'EREF', 'VALUE': 'EVALUE', 'DATA': 'EDATA'}


class Unknown(Exception):
    pass


def dump(n):
    return ast.dump(n, annotate_fields=False)


def find_func(tree, name):
    for node in tree.body:
        if isinstance(node, ast.FunctionDef) and node.name == name:
            return node
    return None


def body_of(fn):
    return [s for s in fn.body if not (isinstance(s, ast.Expr) and isinstance(s.value, ast.Constant))]


def one_param(fn):
    a = fn.args
    if a.vararg or a.kwarg or a.kwonlyargs or a.defaults or getattr(a, 'posonlyargs', []) or len(a.args) != 1:
        raise Unknown('not a one-parameter function')
    return a.args[0].arg


def cls(n):
    if isinstance(n, ast.Name) and n.id in ('bool', 'number_types', 'string_types'):
        return {'bool': 'CBool', 'number_types': 'CNumber', 'string_types': 'CString'}[n.id]
    if isinstance(n, ast.Attribute) and isinstance(n.value, ast.Name):
        if (n.value.id, n.attr) == ('error', 'XLError'):
            return 'CError'
        if (n.value.id, n.attr) == ('datetime', 'datetime'):
            return 'CDatetime'
    raise Unknown('class not understood: ' + dump(n))


def classes(n):
    if isinstance(n, ast.Tuple):
        return [cls(x) for x in n.elts]
    return [cls(n)]


def err_const(n):
    if isinstance(n, ast.Attribute) and isinstance(n.value, ast.Name) and n.value.id == 'error' and n.attr in ERRS:
        return ERRS[n.attr]
    raise Unknown('error constant not understood: ' + dump(n))


def is_param(n, p):
    return isinstance(n, ast.Name) and n.id == p


def isinstance_call(n, p):
    if isinstance(n, ast.Call) and isinstance(n.func, ast.Name) and n.func.id == 'isinstance' and len(n.args) == 2 \
            and not n.keywords and is_param(n.args[0], p):
        return classes(n.args[1])
    return None


def pexp(n, p):
    cs = isinstance_call(n, p)
    if cs is not None:
        return '(PIsInst [%s])' % '; '.join(cs)
    if isinstance(n, ast.Compare) and len(n.ops) == 1 and is_param(n.left, p):
        op, r = n.ops[0], n.comparators[0]
        if isinstance(op, ast.Is) and isinstance(r, ast.Constant) and r.value is None:
            return 'PIsNone'
        if isinstance(op, ast.Eq):
            return '(PEqErr %s)' % err_const(r)
        if isinstance(op, ast.NotEq):
            return '(PNeErr %s)' % err_const(r)
    if isinstance(n, ast.UnaryOp) and isinstance(n.op, ast.Not):
        return '(PNot %s)' % pexp(n.operand, p)
    if isinstance(n, ast.BoolOp) and len(n.values) >= 2:
        c = 'PAnd' if isinstance(n.op, ast.And) else 'POr'
        parts = [pexp(x, p) for x in n.values]
        out = parts[-1]
        for x in reversed(parts[:-1]):
            out = '(%s %s %s)' % (c, x, out)
        return out
    raise Unknown('predicate expression not understood: ' + dump(n)[:300])


def predicate(fn):
    p = one_param(fn)
    body = body_of(fn)
    if len(body) != 1 or not isinstance(body[0], ast.Return) or body[0].value is None:
        raise Unknown('body is not a single return')
    return pexp(body[0].value, p)


def parity(fn):
    p = one_param(fn)
    body = body_of(fn)
    if len(body) != 2 or not isinstance(body[0], ast.If) or body[0].orelse or not isinstance(body[1], ast.Return):
        raise Unknown('body is not "if not isinstance(...): return error.VALUE; return (int(x) & 1) == k"')
    t = body[0].test
    if not (isinstance(t, ast.UnaryOp) and isinstance(t.op, ast.Not)):
        raise Unknown('guard is not "not isinstance(...)"')
    cs = isinstance_call(t.operand, p)
    if cs is None:
        raise Unknown('guard is not "not isinstance(<parameter>, ...)"')
    if [dump(x) for x in body[0].body] != [dump(x) for x in ast.parse('return error.VALUE').body]:
        raise Unknown('guarded statement is not "return error.VALUE"')
    r = body[1].value
    want = ast.parse('(int(%s) & 1) == 0' % p).body[0].value
    if not (isinstance(r, ast.Compare) and len(r.ops) == 1 and isinstance(r.ops[0], ast.Eq) and dump(r.left) == dump(want.left)
            and isinstance(r.comparators[0], ast.Constant) and type(r.comparators[0].value) is int):
        raise Unknown('result is not "(int(<parameter>) & 1) == <int>"')
    return '{| pf_classes := [%s]; pf_bit := %d |}' % ('; '.join(cs), r.comparators[0].value)


def check_compat(repo_root):
    tree = ast.parse(open(os.path.join(repo_root, 'hotxlfp', '_compat', '__init__.py')).read())
    found = {}
    for s in tree.body:
        if isinstance(s, ast.Assign) and len(s.targets) == 1 and isinstance(s.targets[0], ast.Name):
            found[s.targets[0].id] = dump(s.value)
    if found.get('number_types') != dump(ast.parse('(int, float, complex)').body[0].value):
        raise Unknown('number_types is not (int, float, complex)')
    if found.get('string_types') != dump(ast.parse('(str,)').body[0].value):
        raise Unknown('string_types is not (str,)')


def generate(repo_root):
    tree = ast.parse(open(os.path.join(repo_root, 'hotxlfp', 'formulas', 'information.py')).read())
    out = ['(* GENERATED by tools/gen/predshape.py from hotxlfp/formulas/information.py of the tree under test: the type',
           '   predicates as class-test expressions and ISEVEN / ISODD as parity shapes of Model/PredShape.v.  A function the',
           '   translator does not understand is emitted as a dummy term with pred_gen_ok = false, and the theorems of',
           '   Proofs/PredSource.v no longer check. *)',
           'From HX Require Import Model.PredShape.', 'Open Scope Z_scope.', '']
    ok = True
    notes = []
    try:
        check_compat(repo_root)
        imp = [s for s in tree.body if isinstance(s, ast.ImportFrom) and s.module == '_compat' and s.level == 2]
        names = sorted(a.name for s in imp for a in s.names if a.asname is None)
        if 'number_types' not in names or 'string_types' not in names:
            raise Unknown('number_types / string_types are not imported from .._compat')
    except (Unknown, IOError) as e:
        ok = False
        notes.append('_compat: %s' % e)
    for name, tr, typ, dummy in [(n, predicate, 'pexp', 'PIsInst []') for n in PREDS] + \
                                [(n, parity, 'parity_fn', '{| pf_classes := []; pf_bit := 0 |}') for n in PARITY]:
        fn = find_func(tree, name)
        try:
            if fn is None:
                raise Unknown('function not found')
            term = tr(fn)
        except Unknown as e:
            ok = False
            notes.append('%s: %s' % (name, e))
            term = dummy
        out.append('Definition gen_%s : %s := %s.' % (name, typ, term))
    out.append('Definition pred_gen_ok : bool := %s.' % ('true' if ok else 'false'))
    for n in notes:
        out.append('(* NOT UNDERSTOOD: %s *)' % n.replace('*)', '* )')[:400])
    return '\n'.join(out) + '\n', ok, notes


def write(path, repo_root):
    new, ok, notes = generate(repo_root)
    old = open(path).read() if os.path.exists(path) else None
    if old != new:
        with open(path, 'w') as f:
            f.write(new)
        return True, ok, notes
    return False, ok, notes


if __name__ == '__main__':
    import sys
    print(generate(sys.argv[1] if len(sys.argv) > 1 else '/repo')[0])
