(* C16 — Elementary, trigonometric and financial functions compute the mathematical function on their domain.
   Property theorems only; proofs are in Proofs/RealProofs.v.  Gen/RealFns.v - the bodies of the Python functions in
   the expression language of Model/RealModel.v - is regenerated from the source on every run (fail-closed).
   Arithmetic is the ideal one over the reals ("the mathematically defined real value"); the PyMath contract of
   Model/RealModel.v is trusted; the standard library's axioms of the real numbers (and the classical axioms it
   derives its decision procedures from) are used, as Print Assumptions shows below. *)
From HX Require Import Model.RealModel Gen.RealFns Proofs.RealProofs.
Open Scope R_scope.

Theorem C16_generated_bodies_understood :
  realfns_gen_ok = true /\ all_parameters_coerced = true /\ pv_defaults_zero = true /\ log_default_base_10 = true.
Proof. repeat split; reflexivity. Qed.

(* the mathematically defined value wherever it exists ... *)
Theorem C16_total_functions : forall x,
  run body_SIN [x] = OVal (sin x) /\ run body_COS [x] = OVal (cos x) /\ run body_ATAN [x] = OVal (atan x) /\
  run body_SINH [x] = OVal (sinh x) /\ run body_COSH [x] = OVal (cosh x) /\ run body_TANH [x] = OVal (tanh x) /\
  run body_ASINH [x] = OVal (arcsinh x) /\ run body_ABS [x] = OVal (Rabs x) /\ run body_EXP [x] = OVal (exp x) /\
  run body_RADIANS [x] = OVal (x * PI / 180) /\ run body_DEGREES [x] = OVal (x * 180 / PI) /\ run body_PI [] = OVal PI.
Proof.
  intros x. repeat split; first [apply SIN_value|apply COS_value|apply ATAN_value|apply SINH_value|apply COSH_value|apply TANH_value|
    apply ASINH_value|apply ABS_value|apply EXP_value|apply RADIANS_value|apply DEGREES_value|apply PI_value].
Qed.
(* ... and an error - never a number - outside the domain *)
Theorem C16_SQRT : forall x, run body_SQRT [x] = if Rle_dec 0 x then OVal (sqrt x) else ORaise. Proof. exact SQRT_spec. Qed.
Theorem C16_LN : forall x, run body_LN [x] = if Rlt_dec 0 x then OVal (ln x) else ORaise. Proof. exact LN_spec. Qed.
Theorem C16_LOG : forall x b, run body_LOG [x; b] =
  if Rlt_dec 0 x then (if Rlt_dec 0 b then (if Req_EM_T (ln b) 0 then ORaise else OVal (ln x / ln b)) else ORaise) else ORaise.
Proof. exact LOG_spec. Qed.
Theorem C16_LOG10 : forall x, run body_LOG10 [x] = if Rlt_dec 0 x then OVal (ln x / ln 10) else ORaise. Proof. exact LOG10_spec. Qed.
Theorem C16_ASIN : forall x, run body_ASIN [x] = if Rle_dec (-1) x then (if Rle_dec x 1 then OVal (asin x) else ORaise) else ORaise.
Proof. exact ASIN_spec. Qed.
Theorem C16_ACOS : forall x, run body_ACOS [x] = if Rle_dec (-1) x then (if Rle_dec x 1 then OVal (acos x) else ORaise) else ORaise.
Proof. exact ACOS_spec. Qed.
Theorem C16_ATANH : forall x, run body_ATANH [x] = if Rlt_dec (-1) x then (if Rlt_dec x 1 then OVal (atanh_r x) else ORaise) else ORaise.
Proof. exact ATANH_spec. Qed.
Theorem C16_ACOSH : forall x, run body_ACOSH [x] = if Rle_dec 1 x then OVal (acosh_r x) else ORaise. Proof. exact ACOSH_spec. Qed.
Theorem C16_ACOTH : forall x, run body_ACOTH [x] = if Rlt_dec 1 (Rabs x) then OVal (1 / 2 * ln ((x + 1) / (x - 1))) else ORaise.
Proof. exact ACOTH_spec. Qed.
Theorem C16_TAN : forall x, run body_TAN [x] = if Req_EM_T (cos x) 0 then ORaise else OVal (sin x / cos x). Proof. exact TAN_spec. Qed.
Theorem C16_COT : forall x, run body_COT [x] = if Req_EM_T (sin x) 0 then ORaise else OVal (cos x / sin x). Proof. exact COT_spec. Qed.
Theorem C16_ACOT : forall x, run body_ACOT [x] = if Req_EM_T x 0 then OVal (PI / 2) else OVal (atan (1 / x)). Proof. exact ACOT_spec. Qed.
Theorem C16_POWER : forall x y, run body_POWER [x; y] = match pow_py x y with Some v => OVal v | None => ORaise end.
Proof. exact POWER_spec. Qed.
Theorem C16_POWER_positive_base : forall x y, 0 < x -> run body_POWER [x; y] = OVal (Rpower x y). Proof. exact POWER_positive_base. Qed.

(* the identities *)
Theorem C16_sin2_plus_cos2 : forall x, val (run body_SIN [x]) ^ 2 + val (run body_COS [x]) ^ 2 = 1. Proof. exact sin2_plus_cos2. Qed.
Theorem C16_TAN_is_SIN_over_COS : forall x, cos x <> 0 -> run body_TAN [x] = OVal (val (run body_SIN [x]) / val (run body_COS [x])).
Proof. exact TAN_is_SIN_over_COS. Qed.
Theorem C16_COT_is_one_over_TAN : forall x, sin x <> 0 -> cos x <> 0 -> run body_COT [x] = OVal (1 / val (run body_TAN [x])).
Proof. exact COT_is_one_over_TAN. Qed.
Theorem C16_EXP_LN : forall x, 0 < x -> run body_EXP [val (run body_LN [x])] = OVal x. Proof. exact EXP_LN. Qed.
Theorem C16_LN_EXP : forall x, run body_LN [val (run body_EXP [x])] = OVal x. Proof. exact LN_EXP. Qed.
Theorem C16_LOG_is_LN_over_LN : forall x b, 0 < x -> 0 < b -> b <> 1 ->
  run body_LOG [x; b] = OVal (val (run body_LN [x]) / val (run body_LN [b])).
Proof. exact LOG_is_LN_over_LN. Qed.
(* each inverse undoes its function on the principal range *)
Theorem C16_ASIN_SIN : forall x, - (PI / 2) <= x <= PI / 2 -> run body_ASIN [val (run body_SIN [x])] = OVal x. Proof. exact ASIN_SIN. Qed.
Theorem C16_SIN_ASIN : forall y, -1 <= y <= 1 -> run body_SIN [val (run body_ASIN [y])] = OVal y. Proof. exact SIN_ASIN. Qed.
Theorem C16_ACOS_COS : forall x, 0 <= x <= PI -> run body_ACOS [val (run body_COS [x])] = OVal x. Proof. exact ACOS_COS. Qed.
Theorem C16_COS_ACOS : forall y, -1 <= y <= 1 -> run body_COS [val (run body_ACOS [y])] = OVal y. Proof. exact COS_ACOS. Qed.
Theorem C16_ATAN_TAN : forall x, - (PI / 2) < x < PI / 2 -> run body_ATAN [val (run body_TAN [x])] = OVal x. Proof. exact ATAN_TAN. Qed.
Theorem C16_TAN_ATAN : forall y, run body_TAN [val (run body_ATAN [y])] = OVal y. Proof. exact TAN_ATAN. Qed.
Theorem C16_ASINH_SINH : forall x, run body_ASINH [val (run body_SINH [x])] = OVal x. Proof. exact ASINH_SINH. Qed.
Theorem C16_SINH_ASINH : forall y, run body_SINH [val (run body_ASINH [y])] = OVal y. Proof. exact SINH_ASINH. Qed.
Theorem C16_ACOSH_COSH : forall x, 0 <= x -> run body_ACOSH [val (run body_COSH [x])] = OVal x. Proof. exact ACOSH_COSH. Qed.
Theorem C16_COSH_ACOSH : forall y, 1 <= y -> run body_COSH [val (run body_ACOSH [y])] = OVal y. Proof. exact COSH_ACOSH. Qed.
Theorem C16_ATANH_TANH : forall x, run body_ATANH [val (run body_TANH [x])] = OVal x. Proof. exact ATANH_TANH. Qed.
Theorem C16_TANH_ATANH : forall y, -1 < y < 1 -> run body_TANH [val (run body_ATANH [y])] = OVal y. Proof. exact TANH_ATANH. Qed.
Theorem C16_COT_ACOT : forall y, run body_COT [val (run body_ACOT [y])] = OVal y. Proof. exact COT_ACOT. Qed.
(* ATAN2(x, y) is the angle of the point (x, y), #DIV/0! only at the origin *)
Theorem C16_ATAN2_error_only_at_origin : forall x y, is_error (run body_ATAN2 [x; y]) <-> (x = 0 /\ y = 0).
Proof. exact ATAN2_error_only_at_origin. Qed.
Theorem C16_ATAN2_is_the_angle : forall x y, ~ (x = 0 /\ y = 0) ->
  let th := atan2_r y x in let r := sqrt (x * x + y * y) in x = r * cos th /\ y = r * sin th /\ - PI < th <= PI.
Proof. exact ATAN2_is_the_angle. Qed.
Theorem C16_ATAN2_value : forall x y, run body_ATAN2 [x; y] =
  if Req_EM_T x 0 then (if Req_EM_T y 0 then OErr 1 else OVal (atan2_r y x)) else OVal (atan2_r y x).
Proof. exact ATAN2_spec. Qed.
(* PV satisfies the annuity equation, in its linear form at rate 0 *)
Theorem C16_PV_annuity_equation : forall rate n pmt fv t, -1 < rate -> rate <> 0 ->
  exists pv, run body_PV [rate; n; pmt; fv; t] = OVal pv /\
    pv * Rpower (1 + rate) n + pmt * (1 + rate * t) * ((Rpower (1 + rate) n - 1) / rate) + fv = 0.
Proof. exact PV_annuity_equation. Qed.
Theorem C16_PV_rate_zero : forall n pmt fv t, exists pv, run body_PV [0; n; pmt; fv; t] = OVal pv /\ pv + pmt * n + fv = 0.
Proof. exact PV_rate_zero. Qed.

Print Assumptions C16_ATAN2_is_the_angle.
Print Assumptions C16_PV_annuity_equation.
Print Assumptions C16_ACOSH.
Print Assumptions C16_ATANH_TANH.
Print Assumptions C16_total_functions.
