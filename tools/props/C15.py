# -*- coding: utf-8 -*-
"""C15 - text functions.  Model: coq/Model/Text.v + Gen/CaseTables.v.  Theorems: Properties/C15.v."""
import os
import sys

from common import Result, pmap, compare, Catch, VERIF

ID = 'C15'
COQ_FILES = ['Properties/C15.v', 'Proofs/TextProofs.v', 'Proofs/TextAlgebra.v', 'Proofs/SliceProofs.v', 'Model/PySlice.v', 'Gen/TextSlices.v', 'Gen/CaseTables.v']
TRUSTED = [
    'Gen/CaseTables.v is regenerated on every run by tools/gen/casetables.py from the running interpreter '
    '(str.upper/lower/title and casedness of the C15 alphabet U+0000..U+024F + CJK samples, closed under the mappings); '
    'Greek (final-sigma rule) is outside the alphabet',
    'Gen/TextSlices.v is regenerated on every run by tools/gen/textslices.py (python ast, fail-closed) from LEFT/RIGHT/MID of '
    'formulas/text.py; Model/PySlice.v states Python slice semantics (negative / out-of-range bounds) by hand',
    'modelled, not verified: Python slicing (Model/PySlice.v), str.replace, re.sub(" {2,}"), str.strip(" "), chr/ord, str.join',
]
EXPLANATION = ('Coq theorems for strings of ANY length: LEFT/RIGHT/MID = firstn/skipn, whole text / empty / #VALUE! cases, '
               'LEFT&RIGHT split, MID(s,1,n)=LEFT, LEN additive; UPPER/LOWER idempotent and character-wise (lifted from '
               'finite facts about the generated case table), uncased characters untouched; PROPER idempotent under a '
               'decidable per-character condition that fails exactly on U+0130/U+01F0 (refuted witness, known finding); '
               'TRIM idempotent, keeps every non-space character, yields a normal form; CLEAN = filter; CODE(CHAR n) = n; '
               'CONCATENATE/TEXTJOIN order and blanks; SUBSTITUTE unchanged when absent, every occurrence, exactly the k-th. '
               'Tied to text.py by random strings over the alphabet (direct calls) and an oracle through Parser.parse.')
ASSUMPTIONS = ['text arguments are str, counts are ints; the alphabet is ASCII + U+0080..U+024F + CJK (no Greek)']

FN = {'LEFT': 0, 'RIGHT': 1, 'MID': 2, 'LEN': 3, 'UPPER': 4, 'LOWER': 5, 'PROPER': 6, 'TRIM': 7, 'CLEAN': 8, 'CHAR': 9,
      'CODE': 10, 'SUBSTITUTE': 11, 'TEXTJOIN': 12, 'CONCATENATE': 13}
PROPER_EXC = (u'İ', u'ǰ')


def gen(ctx):
    sys.path.insert(0, os.path.join(VERIF, 'tools', 'gen'))
    import casetables
    changed = casetables.write(os.path.join(VERIF, 'coq', 'Gen', 'CaseTables.v'))
    import textslices
    root = os.environ.get('VERIF_SNAPSHOT', '/repo')
    ch2, ok2, notes2 = textslices.write(os.path.join(VERIF, 'coq', 'Gen', 'TextSlices.v'), root)
    return {'Gen/CaseTables.v': 'regenerated (changed)' if changed else 'regenerated (identical to the committed baseline)',
            'rows': len(casetables.domain()),
            'Gen/TextSlices.v': ('regenerated (changed)' if ch2 else 'regenerated (identical to the committed baseline)')
            + ('' if ok2 else '; NOT UNDERSTOOD: ' + '; '.join(notes2))}


def T(s):
    return [len(s)] + [ord(c) for c in s]


def enc_case(c):
    name = c[0]
    if name in ('LEFT', 'RIGHT'):
        return [FN[name], c[2]] + T(c[1])
    if name == 'MID':
        return [2, c[2], c[3]] + T(c[1])
    if name in ('LEN', 'UPPER', 'LOWER', 'PROPER', 'TRIM', 'CLEAN', 'CODE'):
        return [FN[name]] + T(c[1])
    if name == 'CHAR':
        return [9, c[1]]
    if name == 'SUBSTITUTE':
        k = c[4]
        kk = 0 if k is None else (k if k > 0 else k + 2000000)
        return [11, kk] + T(c[1]) + T(c[2]) + T(c[3])
    if name in ('TEXTJOIN', 'CONCATENATE'):
        items = c[3] if name == 'TEXTJOIN' else c[1]
        out = [12, int(c[2]), len(items)] + T(c[1]) if name == 'TEXTJOIN' else [13, len(items)]
        for it in items:
            out += [0] if it is None else [1] + T(it)
        return out
    raise ValueError(name)


def _impl_raw(c):
    from hotxlfp import formulas
    from hotxlfp.formulas.error import XLError
    name = c[0]
    f = formulas.get_for(name)
    if name == 'TEXTJOIN':
        v = f(c[1], c[2], *c[3])
    elif name == 'CONCATENATE':
        v = f(*c[1])
    elif name == 'SUBSTITUTE':
        v = f(c[1], c[2], c[3]) if c[4] is None else f(c[1], c[2], c[3], c[4])
    else:
        v = f(*c[1:])
    if isinstance(v, XLError):
        return [1] if str(v) == '#VALUE!' else ['ERR', str(v)]
    if isinstance(v, str):
        return [0] + T(v)
    if isinstance(v, bool):
        return ['BOOL', v]
    if isinstance(v, int):
        return [0, v]
    return ['OTHER', repr(v)]


_impl = Catch(_impl_raw, [2])


# ---------------- alphabet / generators ----------------
ASCII = 'abcxyzABCXYZ0189 .,;-_!?()[]"\'/\\&%$#@*+=<>~^`|{}'
CTRL = '\x00\x01\t\n\r\x0b\x1f\x7f'
ACC = u'éÉàÀçÇñÑüÜøØßÿŸſŉĳĲǅǆǄȀɏİǰıµªº '
CJK = u'中一鿿'


LOOKALIKES = ['12.0', '7.', '.0', '3.00', '1e2', '2.50', '007', '-0', '+5', '1E3', '12.50', '100.', '0.0', '  12', '1,000', 'TRUE', 'true',
              'False', '#N/A', '#DIV/0!', '1/2', '2020-01-01', '12:30', '1e400', '0x10', 'None', '50%', '1.0e-3']


def rstr(rng, lo=0, hi=12, alpha=None):
    alpha = alpha or (ASCII + ASCII + '   ' + CTRL + ACC + CJK)
    return ''.join(rng.choice(alpha) for _ in range(rng.randint(lo, hi)))


def spacey(rng):
    return ''.join(rng.choice(['a', 'B', ' ', ' ', '  ', '\t', '\n', u'\xa0', 'é', '1']) for _ in range(rng.randint(0, 10)))


# ---------------- oracle through Parser.parse ----------------
def pv(formula, **vars):
    import hotxlfp
    p = hotxlfp.Parser()
    for k, v in vars.items():
        p.set_variable(k, v)
    r = p.parse(formula)
    return r['result'] if r['error'] is None else ('ERR', r['error'])


def non_self_overlapping(old):
    return all(old[i:] != old[:len(old) - i] for i in range(1, len(old)))


def check_string(c):
    s, n, t, old, new, k = c
    out = []

    def exp(f, want, **vars):
        got = pv(f, **vars)
        if got != want or type(got) is not type(want):
            out.append((f + ' with ' + repr(vars), None, want, got))
    L = len(s)
    if n >= 0:
        exp('LEFT(s,n)', s[:n], s=s, n=n)
        exp('RIGHT(s,n)', s[L - n:] if n <= L else s, s=s, n=n)
        exp('MID(s,1,n)', s[:n], s=s, n=n)
        st = n + 1
        exp('MID(s,st,k)', s[st - 1:st - 1 + k], s=s, st=st, k=k)
        if n <= L:
            exp('LEFT(s,n)&RIGHT(s,LEN(s)-n)', s, s=s, n=n)
        # laws of Proofs/TextAlgebra.v, asked of the implementation as nested formulas
        exp('LEN(LEFT(s,n))', min(n, L), s=s, n=n)
        exp('LEN(RIGHT(s,n))', min(n, L), s=s, n=n)
        exp('LEN(MID(s,st,k))', max(0, min(k, L - n)), s=s, st=st, k=k)
        exp('LEFT(LEFT(s,n),k)', s[:min(n, k)], s=s, n=n, k=k)
        if n + k <= L:
            exp('LEFT(s,st-1)&MID(s,st,k)&RIGHT(s,LEN(s)-(st-1)-k)', s, s=s, st=st, k=k)
        exp('MID(s&t,LEN(s)+st,k)', t[st - 1:st - 1 + k], s=s, t=t, st=st, k=k)
        exp('LEFT(s&t,LEN(s))', s, s=s, t=t)
        exp('RIGHT(s&t,LEN(t))', t, s=s, t=t)
    else:
        for f in ('LEFT(s,n)', 'RIGHT(s,n)', 'MID(s,1,n)'):
            exp(f, ('ERR', '#VALUE!'), s=s, n=n)
    exp('LEN(s&t)', len(s) + len(t), s=s, t=t)
    exp('LEN(s)', L, s=s)
    # case functions
    for fn, py in (('UPPER', s.upper()), ('LOWER', s.lower()), ('PROPER', s.title())):
        exp('%s(s)' % fn, py, s=s)
        if fn != 'PROPER' or not any(ch in s for ch in PROPER_EXC):
            g1 = pv('%s(%s(s))' % (fn, fn), s=s)
            g0 = pv('%s(s)' % fn, s=s)
            if g1 != g0:
                out.append(('%s is not idempotent on %r' % (fn, s), None, g0, g1))
        else:
            g1 = pv('PROPER(PROPER(s))', s=s)
            g0 = pv('PROPER(s)', s=s)
            if g1 != g0:
                out.append(('PROPER is not idempotent on %r' % s, 'proper_uncased_mapping', g0, g1))
        if fn != 'PROPER':
            a = pv('%s(s&t)' % fn, s=s, t=t)
            b = pv('%s(s)&%s(t)' % (fn, fn), s=s, t=t)
            if a != b:
                out.append(('%s is not character-wise on %r, %r' % (fn, s, t), None, b, a))
    # TRIM / CLEAN
    tr = pv('TRIM(s)', s=s)
    if not isinstance(tr, str):
        out.append(('TRIM(s) %r' % s, None, 'text', tr))
    else:
        if [ch for ch in tr if ch != ' '] != [ch for ch in s if ch != ' ']:
            out.append(('TRIM changed a character other than a space in %r' % s, None, s, tr))
        if '  ' in tr or tr.startswith(' ') or tr.endswith(' '):
            out.append(('TRIM left surplus spaces in %r' % s, None, 'no leading/trailing/double spaces', tr))
        if pv('TRIM(TRIM(s))', s=s) != tr:
            out.append(('TRIM is not idempotent on %r' % s, None, tr, pv('TRIM(TRIM(s))', s=s)))
    cl = ''.join(ch for ch in s if ord(ch) > 31)
    exp('CLEAN(s)', cl, s=s)
    exp('CLEAN(CLEAN(s))', cl, s=s)
    exp('CLEAN(s&t)', cl + ''.join(ch for ch in t if ord(ch) > 31), s=s, t=t)
    # SUBSTITUTE (the property restricts old to non-self-overlapping text)
    if old and non_self_overlapping(old):
        exp('SUBSTITUTE(s,o,w)', s.replace(old, new), s=s, o=old, w=new)
        idxs = []
        i = s.find(old)
        while i >= 0:
            idxs.append(i)
            i = s.find(old, i + len(old))
        for kk in range(1, len(idxs) + 3):
            want = s if kk > len(idxs) else s[:idxs[kk - 1]] + new + s[idxs[kk - 1] + len(old):]
            exp('SUBSTITUTE(s,o,w,k)', want, s=s, o=old, w=new, k=kk)
    return out


def check_join(c):
    items, delim, ignore = c
    out = []
    flat = []

    def fl(x):
        for y in x:
            if isinstance(y, list):
                fl(y)
            else:
                flat.append(y)
    fl(items)
    import hotxlfp
    p = hotxlfp.Parser()
    names = []
    for i, it in enumerate(items):
        nm = 'item' + 'abcdefghij'[i]       # (v0, v1 ... would lex as cell references)
        p.set_variable(nm, it)
        names.append(nm)
    p.set_variable('d', delim)
    r = p.parse('CONCATENATE(%s)' % ','.join(names))
    want = ''.join(x for x in flat if x is not None)
    if r['result'] != want:
        out.append(('CONCATENATE of %r' % (items,), None, want, r))
    r = p.parse('TEXTJOIN(d,%s,%s)' % ('TRUE' if ignore else 'FALSE', ','.join(names)))
    want = delim.join((x for x in flat if x is not None) if ignore else ('' if x is None else x for x in flat))
    if r['result'] != want:
        out.append(('TEXTJOIN(%r,%r) of %r' % (delim, ignore, items), None, want, r))
    return out


def check_char(n):
    got = pv('CODE(CHAR(n))', n=n)
    return [] if got == n else [('CODE(CHAR(%d))' % n, None, n, got)]


CHECKERS = {'string': check_string, 'join': check_join, 'char': check_char}


def check_case(case):
    if 'formula' in case:
        f = case['formula']
        exp = {'RIGHT("abc",0)': '', 'SUBSTITUTE("abc","b","")': 'ac', 'CONCATENATE("a",,"b")': 'ab'}.get(f)
        got = pv(f)
        return [] if exp is None or got == exp else [{'case': case, 'what': f, 'class': None, 'expected': exp, 'observed': got}]
    if 'fn' in case and case['fn'] == 'TRIM':
        got = pv('TRIM(s)', s=case['text'])
        ok = [ch for ch in got if ch != ' '] == [ch for ch in case['text'] if ch != ' ']
        return [] if ok else [{'case': case, 'what': 'TRIM changed more than spaces', 'class': None,
                               'expected': case['text'], 'observed': got}]
    for k, fn in CHECKERS.items():
        if k in case:
            c = case[k]
            return [{'case': case, 'what': w, 'class': cls, 'expected': repr(e), 'observed': repr(g)}
                    for (w, cls, e, g) in fn(tuple(c) if isinstance(c, list) else c)]
    return []


def _worker(kc):
    k, c = kc
    return [(k, c) + x for x in CHECKERS[k](c)]


def explore(ctx):
    R = Result()
    rng = ctx.rng
    N = 40000 if ctx.thorough else 3000
    cases = []
    for _ in range(N):
        s = rstr(rng) if rng.random() < 0.8 else rstr(rng, 20, 60)
        L = len(s)
        n = rng.randint(-3, L + 5)
        cases.append((rng.choice(['LEFT', 'RIGHT']), s, n))
        cases.append(('MID', s, rng.randint(-1, L + 3), rng.randint(-1, L + 3)))
        for fn in ('LEN', 'UPPER', 'LOWER', 'PROPER', 'CLEAN'):
            if rng.random() < 0.5:
                cases.append((fn, s))
        cases.append(('TRIM', spacey(rng) if rng.random() < 0.7 else s))
        old = rstr(rng, 0, 3, 'abAB 1é') if rng.random() < 0.8 else (s[rng.randint(0, L):][:rng.randint(0, 3)] if L else '')
        base = rstr(rng, 0, 10, 'abAB 1é') if rng.random() < 0.7 else s
        cases.append(('SUBSTITUTE', base, old, rstr(rng, 0, 3, 'xyab ' if rng.random() < 0.6 else 'xa\\\\1g<0>&$.n'), rng.choice([None, None, 1, 2, 3, 0, -1, 7])))
    # case functions: exhaustive per code point of the generated table's domain
    sys.path.insert(0, os.path.join(VERIF, 'tools', 'gen'))
    import casetables
    for c in casetables.domain():
        ch = chr(c)
        for fn in ('UPPER', 'LOWER', 'PROPER'):
            cases.append((fn, ch))
            cases.append((fn, 'a' + ch + 'b'))
        cases.append(('PROPER', ' ' + ch + 'b' + ch))
    for n in list(range(-2, 300)) + [0x10FFFF, 0x110000, 0xD800, 0xFFFF, 0x10000, 8364]:
        cases.append(('CHAR', n))
    for s in ['', 'a', 'ab', 'é', '中', '\x00']:
        cases.append(('CODE', s))
    for _ in range(N // 4):
        items = [rng.choice([None, '', 'a', 'b c', 'é', 'x' * rng.randint(0, 3)]) for _ in range(rng.randint(0, 6))]
        cases.append(('TEXTJOIN', rng.choice([',', '', ', ', '--']), rng.random() < 0.5, items))
        cases.append(('CONCATENATE', items))
    compare(R, ctx, 'text', cases, enc_case, _impl, key=repr)
    # ---- oracle
    work = []
    for _ in range(N // 3):
        s = rstr(rng) if rng.random() < 0.8 else rstr(rng, 20, 60)
        if rng.random() < 0.3:
            s = spacey(rng)
        t = rstr(rng, 0, 6)
        # texts that LOOK like numbers, logicals, errors or dates are texts all the same (no law below may re-read them)
        if rng.random() < 0.15:
            s = rng.choice(LOOKALIKES)
        if rng.random() < 0.15:
            t = rng.choice(LOOKALIKES)
        old = rstr(rng, 1, 3, 'abAB 1' if rng.random() < 0.7 else 'a.*+?[(^$|\\\\') if rng.random() < 0.5 else (s[rng.randint(0, len(s)):][:rng.randint(1, 3)] if s else 'a')
        base_new = rstr(rng, 0, 3, 'xyab ' if rng.random() < 0.6 else 'xa\\\\1g<0>&$.n')
        work.append(('string', (s, rng.randint(-2, len(s) + 5), t, old, base_new, rng.randint(0, 5))))
    work.append(('string', (u'aİb', 1, 'x', 'a', '', 1)))
    for _ in range(N // 10):
        def item(d=0):
            if d < 2 and rng.random() < 0.25:
                return [item(d + 1) for _ in range(rng.randint(0, 3))]
            return rng.choice([None, '', 'a', 'b c', 'é'])
        work.append(('join', ([item() for _ in range(rng.randint(1, 5))], rng.choice([',', '', '; ']), rng.random() < 0.5)))
    work += [('char', n) for n in list(range(1, 600)) + [8364, 0x4e2d, 0xFFFF, 0x10000, 0x10FFFF]]
    for vs in pmap(_worker, work):
        for (k, c, w, cls, e, g) in vs:
            R.violate({k: list(c) if isinstance(c, tuple) else c}, w, cls, repr(e), repr(g))
    R.evaluations += len(work)
    R.rule = ('direct calls vs model: random strings (length 0..60) over ASCII letters/digits/punctuation/spaces/control '
              'characters/accented Latin/CJK with all counts -3..len+5; case functions additionally on every code point '
              'of the generated table domain (alone and embedded); TRIM on space-rich strings; SUBSTITUTE with random and '
              'embedded old text, empty new, instance numbers incl. 0/negative/absent; CHAR -2..299 and limits; joins '
              'with blanks. Oracle through Parser.parse: slices, split law, LEN, case idempotence and character-wise law, '
              'TRIM/CLEAN laws, SUBSTITUTE vs str.replace / k-th occurrence for non-self-overlapping old, nested joins.')
    return R


def search(ctx, proof, res):
    R = Result()
    rng = ctx.rng
    work = []
    for d in res.disagreements[:50]:
        c = d['case']
        if isinstance(c, tuple) and len(c) > 1 and isinstance(c[1], str):
            work.append(('string', (c[1], 1, 'x', c[2] if c[0] == 'SUBSTITUTE' and c[2] else 'a', c[3] if c[0] == 'SUBSTITUTE' else '', 2)))
    for _ in range(30000):
        s = rstr(rng) if rng.random() < 0.6 else spacey(rng)
        old = rstr(rng, 1, 3, 'abAB 1') if rng.random() < 0.5 else (s[rng.randint(0, len(s)):][:rng.randint(1, 3)] if s else 'a')
        work.append(('string', (s, rng.randint(-2, len(s) + 5), rstr(rng, 0, 5), old, rstr(rng, 0, 3, 'xyab ' if rng.random() < 0.6 else 'xa\\\\1g<0>&$.n'), rng.randint(0, 5))))
    for vs in pmap(_worker, work):
        for (k, c, w, cls, e, g) in vs:
            R.violate({k: list(c) if isinstance(c, tuple) else c}, w, cls, repr(e), repr(g))
    R.evaluations = len(work)
    return R
