#!/usr/bin/env python3
"""Runs every seeded change of /verif/seeded against the check of its own property (plus the cross-checks listed below) with
tools/seedtest.sh and records the outcome in seeded/RESULTS.json and in each seed's meta.json (what was run, what caught it)."""
import json, os, re, subprocess, sys
V = os.path.dirname(os.path.dirname(os.path.abspath(__file__)))
EXTRA = {'C13_e': ['C07'], 'C04_e': ['C02', 'C03'], 'C06_b': ['C13'], 'C09_a': ['C08'], 'C01_b': ['C17'], 'C02_a': ['C03'], 'C03_a': ['C02'], 'C09_b': ['C03'], 'C05_b': ['C10']}
only = sys.argv[1:]
res = {}
for d in sorted(os.listdir(os.path.join(V, 'seeded'))):
    sd = os.path.join(V, 'seeded', d)
    if not os.path.isdir(sd) or (only and d not in only):
        continue
    prop = d.split('_')[0]
    checks = [prop] + EXTRA.get(d, [])
    out = subprocess.run([os.path.join(V, 'tools', 'seedtest.sh'), sd] + checks, capture_output=True, text=True).stdout
    r = {'checks_run': checks, 'tests': None, 'demo': None, 'caught_by': [], 'detail': {}}
    m = re.search(r'SEED tests with change: (.*)', out)
    r['tests'] = m.group(1).strip() if m else None
    m = re.search(r'SEED demo exit without change: (\d+) ; with change: (\d+)', out)
    r['demo'] = [int(m.group(1)), int(m.group(2))] if m else None
    for c in checks:
        m = re.search(r'CHECK %s rc=(\d+) :: (.*)\n(.*)' % c, out)
        if not m:
            r['detail'][c] = 'no output'
            continue
        rc, lines, summary = int(m.group(1)), m.group(2), m.group(3)
        how = 'not caught'
        if rc != 0:
            how = 'proof/correspondence broken, no failing input found' if 'no-failing-input-found' in lines else \
                  ('failing input found' + (' (and proof obligation broken)' if 'BROKEN' in summary else ''))
            r['caught_by'].append(c)
        r['detail'][c] = {'rc': rc, 'how': how, 'summary': summary.strip()}
    res[d] = r
    mp = os.path.join(sd, 'meta.json')
    meta = json.load(open(mp))
    meta['ran'] = 'tools/seedtest.sh seeded/%s %s  (scratch worktree of /repo HEAD + patch.diff; existing tests; demo.py before/after; ./check <id> --tier quick with VERIF_REPO on the worktree)' % (d, ' '.join(checks))
    meta['confirmed'] = {'existing_tests_with_change': r['tests'], 'demo_exit_without_and_with_change': r['demo']}
    meta['caught_by'] = r['caught_by']
    meta['check_outcomes'] = r['detail']
    json.dump(meta, open(mp, 'w'), indent=2)
    print(d, r['tests'], r['demo'], r['caught_by'], flush=True)
old = {}
rp = os.path.join(V, 'seeded', 'RESULTS.json')
if os.path.exists(rp) and only:
    old = json.load(open(rp))
old.update(res)
json.dump(old, open(rp, 'w'), indent=1, sort_keys=True)
