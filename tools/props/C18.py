# -*- coding: utf-8 -*-
"""C18 - lookup functions.  Model: coq/Model/Lookup.v.  Theorems: Properties/C18.v."""
import itertools
import re

from common import Result, pmap, compare, enc_value, dec_outcome, call_outcome, canon_py, thaw, ERR

ID = 'C18'
COQ_FILES = ['Properties/C18.v', 'Proofs/LookupProofs.v', 'Proofs/MatchSorted.v', 'Proofs/ValueProofs.v']
TRUSTED = [
    'modelled, not verified: Python list indexing, ==, <, > on numbers and strings, truthiness; fnmatch on patterns '
    'without "[" (hand glob matcher) and str.lower() on ASCII text',
    'index arguments given as floats or numeric text are outside the model (the oracle still checks them on the '
    'implementation)',
]
EXPLANATION = ('Coq theorems over a transcription of CHOOSE, INDEX and MATCH for arrays of ANY size: CHOOSE = vi or error; '
               'INDEX = the element at (r, c) for positions inside, #REF! - never another element - outside, whole row / '
               'column for index 0 or omitted; MATCH 0 = first equal item or #N/A; INDEX(MATCH) inverse; MATCH 1 / -1 on an '
               'ascending / descending numeric array = a position of the largest item <= x / smallest item >= x (proved by '
               'an invariant over the scan, duplicates allowed).  Tied to lookupandreference.py by exhaustive small arrays x '
               'all indices -10..size+10 (direct calls) and an oracle through Parser.parse with literals, host variables '
               'and ranges.')
ASSUMPTIONS = ['arrays are lists (1-D) or lists of lists (2-D); wildcard patterns contain no "["; text is ASCII for MATCH']


def _impl_CHOOSE(args):
    from hotxlfp.formulas import lookupandreference as L
    return call_outcome(L.CHOOSE, thaw(args))


def _impl_INDEX(args):
    from hotxlfp.formulas import lookupandreference as L
    return call_outcome(L.INDEX, thaw(args))


def _impl_MATCH(c):
    from hotxlfp.formulas import lookupandreference as L
    ty, x, arr = c
    return call_outcome(L.MATCH, thaw([x, arr, ty]))


def enc_list(args):
    out = [len(args)]
    for a in thaw(args):
        out += enc_value(a)
    return out


def eq_outcome(model, impl):
    return dec_outcome(model) == impl


# ---------------- oracle through Parser.parse ----------------
def lit(v):
    if isinstance(v, list):
        if v and isinstance(v[0], list):
            return '{' + ';'.join(','.join(lit(x) for x in row) for row in v) + '}'
        return '{' + ','.join(lit(x) for x in v) + '}'
    if isinstance(v, str):
        return '"%s"' % v
    if isinstance(v, bool):
        return 'TRUE' if v else 'FALSE'
    if isinstance(v, (int, float)) and v < 0:
        return '(0-%r)' % (-v)
    return repr(v)


def run(formula, arr=None, mode='literal'):
    """Evaluate with the array supplied as a literal, as a host variable or through a range listener."""
    import hotxlfp
    p = hotxlfp.Parser()
    if mode == 'literal' and isinstance(arr, list) and arr and isinstance(arr[0], list) and \
            not (len(arr) == 2 and all(len(r) >= 2 for r in arr)):
        mode = 'variable'     # the array-literal syntax only writes two rows of two or more items as a 2-D array
    if mode == 'literal':
        f = formula.replace('@', lit(arr))
    elif mode == 'variable':
        p.set_variable('arr', arr)
        f = formula.replace('@', 'arr')
    else:
        p.on('callRangeValue', lambda s, e, done: done(arr))
        f = formula.replace('@', 'A1:C3')
    r = p.parse(f)
    res = r['result'] if r['error'] is None else ('ERR', r['error'])
    # the same call written with the other two argument separators (the array keeps its own spelling)
    if '"' not in formula and "'" not in formula and '{' not in formula:     # (an array written out inside the template has commas of its own)
        for sep in (';', '\\'):
            alt = formula.replace(',', sep)
            f2 = alt.replace('@', lit(arr) if mode == 'literal' else ('arr' if mode == 'variable' else 'A1:C3'))
            r2 = p.parse(f2)
            res2 = r2['result'] if r2['error'] is None else ('ERR', r2['error'])
            if canon_py(res2 if not is_err(res2) else list(res2)) != canon_py(res if not is_err(res) else list(res)):
                return f2, ('ERR', 'written with %r as separator this gives %r, with commas %r' % (sep, res2, res))
    return f, res


def is_err(v):
    return isinstance(v, tuple) and v and v[0] == 'ERR'


def check_index(c):
    arr, r, cidx, mode = c
    out = []
    two = bool(arr) and isinstance(arr[0], list)
    if cidx is None:
        f, got = run('INDEX(@,%s)' % lit(r), arr, mode)
        if r == 0:
            exp = arr
        elif 1 <= r <= len(arr):
            exp = arr[r - 1]
        else:
            exp = 'error'
    else:
        f, got = run('INDEX(@,%s,%s)' % ('' if r is None else lit(r), lit(cidx)), arr, mode)
        if two:
            rows = arr
            if r in (0, None) and cidx == 0:
                exp = arr
            elif r in (0, None):
                exp = [row[cidx - 1] for row in rows] if all(1 <= cidx <= len(row) for row in rows) else 'error'
            elif cidx == 0:
                exp = rows[r - 1] if 1 <= r <= len(rows) else 'error'
            elif 1 <= r <= len(rows) and 1 <= cidx <= len(rows[r - 1]):
                exp = rows[r - 1][cidx - 1]
            else:
                exp = 'error'
        else:
            # one-dimensional array with two indices: a column vector (column 1) or, with the row omitted/0, by position
            if r in (0, None):
                exp = (arr if cidx == 0 else (arr[cidx - 1] if (r is None and 1 <= cidx <= len(arr)) else 'error-or-unspecified'))
            elif cidx in (0, 1):
                exp = arr[r - 1] if 1 <= r <= len(arr) else 'error'
            else:
                exp = 'error'
    if exp == 'error':
        if not is_err(got):
            out.append((f, None, 'an error (position outside the array)', got))
    elif exp == 'error-or-unspecified':
        pass
    elif is_err(got) or canon_py(got) != canon_py(exp):
        out.append((f, None, exp, got))
    return out


def glob_ref(pattern, s):
    rx = ''.join('.*' if ch == '*' else ('.' if ch == '?' else re.escape(ch)) for ch in pattern.lower())
    return re.fullmatch(rx, s.lower(), re.S) is not None


def close_numbers(rng):
    """large numbers that differ by a relative 1e-9 or less (ids, millisecond time stamps): distinct all the same"""
    base = rng.choice([10 ** 9, 10 ** 12, 1700000000000, 2 ** 40, -10 ** 10, 43831 * 10 ** 6])
    offs = rng.sample([0, 1, 2, 3, 5, 8, 0.5, 1.5, 40, 41], rng.randint(1, 6))
    arr = [base + o for o in offs]
    x = rng.choice(arr) if rng.random() < 0.5 else base + rng.choice([0, 1, 2, 4, 0.5, 2.5, 7, 39, -1, 100])
    return arr, x


def check_match(c):
    x, arr, ty, mode = c
    out = []
    f, got = run('MATCH(%s,@,%d)' % (lit(x), ty), arr, mode)
    if ty == 0:
        pos = None
        for i, a in enumerate(arr):
            if (isinstance(x, str) and isinstance(a, str) and glob_ref(x, a)) or \
                    (not isinstance(x, str) and not isinstance(a, str) and a == x):
                pos = i + 1
                break
        exp = pos if pos is not None else ('ERR', '#N/A')
        if got != exp:
            out.append((f, None, exp, got))
        if pos is not None and not isinstance(x, str):
            f2, got2 = run('INDEX(@,MATCH(%s,@,0))' % lit(x), arr, mode)
            if is_err(got2) or got2 != x:
                out.append((f2, None, x, got2))
    else:
        cand = [a for a in arr if (a <= x if ty == 1 else a >= x)]
        if not cand:
            if got != ('ERR', '#N/A'):
                out.append((f, None, ('ERR', '#N/A'), got))
        else:
            best = max(cand) if ty == 1 else min(cand)
            if is_err(got) or not isinstance(got, int) or not (1 <= got <= len(arr)) or arr[got - 1] != best:
                out.append((f, None, 'a position of %r' % best, got))
    return out


def check_choose(c):
    i, vals = c
    f, got = run('CHOOSE(%s,%s)' % (lit(i), ','.join(lit(v) for v in vals)))
    if 1 <= i <= len(vals):
        return [] if (not is_err(got) and canon_py(got) == canon_py(vals[i - 1])) else [(f, None, vals[i - 1], got)]
    return [] if is_err(got) else [(f, None, 'an error', got)]


CHECKERS = {'index': check_index, 'match': check_match, 'choose': check_choose}


def check_case(case):
    if 'formula' in case:
        import hotxlfp
        r = hotxlfp.Parser().parse(case['formula'])
        if r['error'] is None:
            return [{'case': case, 'what': 'a position outside the array returned an element', 'class': None,
                     'expected': 'an error', 'observed': repr(r)}]
        return []
    for k, fn in CHECKERS.items():
        if k in case:
            return [{'case': case, 'what': w, 'class': cls, 'expected': repr(e), 'observed': repr(g)}
                    for (w, cls, e, g) in fn(tuple(case[k]))]
    return []


def _worker(kc):
    k, c = kc
    return [(k, c) + x for x in CHECKERS[k](c)]


def arrays_1d(n, pool):
    return [list(t) for k in range(1, n + 1) for t in itertools.product(pool, repeat=k)]


def explore(ctx):
    R = Result()
    rng = ctx.rng
    big = ctx.thorough
    # ---------- correspondence: direct calls vs model ----------
    cho = []
    pool = [10, 'a', None, True, 2.5, ERR('#N/A'), [1, 2]]
    for n in range(0, 5):
        for _ in range(60):
            vals = [rng.choice(pool) for _ in range(n)]
            for i in list(range(-3, n + 4)) + [True, False, 254, 255, 300]:
                cho.append([i] + vals)
    cho += [[], ['a', 1], [None, 1], [ERR('#N/A'), 1, 2]]
    compare(R, ctx, 'CHOOSE', cho, enc_list, _impl_CHOOSE, key=repr, eq=eq_outcome)
    # INDEX: distinct labelled elements so that "another element" is visible
    idx = []
    dims = [(r, c) for r in range(1, (5 if big else 4)) for c in range(1, (5 if big else 4))]
    for (nr, nc) in dims:
        arr2 = [[100 * (i + 1) + (j + 1) for j in range(nc)] for i in range(nr)]
        rng_r = list(range(-10, nr + 11)) + [None, True]
        rng_c = list(range(-10, nc + 11)) + [None, True]
        for r in rng_r:
            for c in rng_c:
                idx.append([arr2, r, c])
            idx.append([arr2, r])
        idx.append([arr2])
    for n in range(1, 6):
        arr1 = [10 * (i + 1) for i in range(n)]
        for r in list(range(-10, n + 11)) + [None, True, False]:
            idx.append([arr1, r])
            for c in (-1, 0, 1, 2, None):
                idx.append([arr1, r, c])
    tarr = ['ab', 'cd', 'ef']
    for r in range(-2, 6):
        idx.append([tarr, r])
        for c in range(-1, 4):
            idx.append([tarr, r, c])
    idx += [[5, 1, 1], [5, 1], [5, 2, 1], ['abc', 1, 1], [None, 1, 1], [[1, 2], ERR('#DIV/0!'), 1], [[1, 2], 1, ERR('#NUM!')],
            [[], 1], [[[1, 2], [3]], 2, 2], [[[1, 2], [3]], 0, 2], [[[1, 2], 3], 2, 1], [[[1, 2], 3], 1, 2]]
    compare(R, ctx, 'INDEX', idx, enc_list, _impl_INDEX, key=repr, eq=eq_outcome)
    # MATCH
    mt = []
    nums = [0, 1, 2, 3, 5, -1, -4, 2.5, 0.0, 7]
    for _ in range(6000 if big else 1500):
        n = rng.randint(0, 6)
        arr = [rng.choice(nums) for _ in range(n)]
        k = rng.random()
        if k < 0.35:
            arr.sort()
        elif k < 0.7:
            arr.sort(reverse=True)
        x = rng.choice(nums + [4, -2, 10, 100, -100])
        for ty in (1, 0, -1):
            mt.append((ty, x, arr))
        if rng.random() < 0.05:
            mt.append((rng.choice([2, -2, 3, 17]), x, arr))
    for _ in range(600 if big else 150):
        arr, x = close_numbers(rng)
        k = rng.random()
        if k < 0.35:
            arr.sort()
        elif k < 0.7:
            arr.sort(reverse=True)
        for ty in (1, 0, -1):
            mt.append((ty, x, arr))
    words = ['apple', 'Apple', 'pear', 'PEAR', 'ape', 'a', '', 'ab', 'banana', 'a*b', 'x?']
    pats = ['a*', 'A*', '*e', '?ear', 'p??r', '*', 'ap?le', 'APPLE', 'pear', 'zzz', '', 'a', '*an*', '??', 'a?*']
    for _ in range(2000 if big else 500):
        arr = [rng.choice(words) for _ in range(rng.randint(0, 5))]
        mt.append((0, rng.choice(pats + words), arr))
    mt += [(0, 'a*', [1, 'apple']), (1, 'a', [1, 2]), (1, 3, ['a', 'b']), (1, 3, 5), (0, 0, []), (0, None, []), (1, None, [1]),
           (1, 3, [1, None, 2]), (0, True, [1, 0]), (1, 2, [True, 3])]
    compare(R, ctx, 'MATCH', mt, lambda c: [c[0]] + enc_value(thaw(c[1])) + enc_value(thaw(c[2])), _impl_MATCH, key=repr,
            eq=eq_outcome)
    R.exhaustive = True
    # ---------- oracle through Parser.parse ----------
    work = []
    modes = ['literal', 'variable', 'range']
    for (nr, nc) in dims:
        arr2 = [[100 * (i + 1) + (j + 1) for j in range(nc)] for i in range(nr)]
        for r in list(range(-10, nr + 11)) + [None]:
            for c in range(-10, nc + 11):
                if nr == 1 and nc == 1 and False:
                    continue
                work.append(('index', (arr2, r, c, modes[(r or 0 + c) % 3])))
        for r in range(-10, nr + 11):
            if nr > 1:
                work.append(('index', (arr2, r, None, modes[r % 3])))
    for n in range(1, 9 if big else 6):
        arr1 = [10 * (i + 1) for i in range(n)]
        for r in range(-10, n + 11):
            work.append(('index', (arr1, r, None, modes[r % 3])))
            work.append(('index', (arr1, r, 1, 'literal')))
            work.append(('index', (arr1, r, 2, 'variable')))
    tarrs = [['ab', 'cd', 'ef'], ['x', 'yy']]
    for ta in tarrs:
        for r in range(-3, 6):
            work.append(('index', (ta, r, None, 'literal')))
            for c in range(-1, 4):
                work.append(('index', (ta, r, c, 'variable')))
    for _ in range(6000 if big else 1200):
        n = rng.randint(1, 8)
        arr = sorted(rng.choice([rng.randint(-20, 20), rng.randint(-20, 20) + 0.5]) for _ in range(n))
        ty = rng.choice([1, -1, 0])
        if ty == -1:
            arr = arr[::-1]
        x = rng.choice(arr) if rng.random() < 0.4 else rng.choice([rng.randint(-25, 25), rng.randint(-25, 25) + 0.25])
        if ty == 0:
            rng.shuffle(arr)
        work.append(('match', (x, arr, ty, rng.choice(modes[:2]))))
    for _ in range(1500 if big else 400):
        arr = [rng.choice(words[:9]) or 'q' for _ in range(rng.randint(1, 5))]
        work.append(('match', (rng.choice([p for p in pats if p] + words[:6]), arr, 0, rng.choice(modes[:2]))))
    for _ in range(1500 if big else 300):
        arr, x = close_numbers(rng)
        ty = rng.choice([1, -1, 0])
        arr = sorted(arr, reverse=(ty == -1))
        if ty == 0:
            rng.shuffle(arr)
        work.append(('match', (x, arr, ty, rng.choice(modes[:2]))))
    for n in range(1, 6):
        vals = [rng.choice([1, 'x', True, 2.5, 7]) for _ in range(n)]
        for i in range(-3, n + 4):
            work.append(('choose', (i, vals)))
    for n in range(1, 4):
        for _ in range(6):
            vals = [rng.choice([[10, 20, 30], [7], [[1, 2], [3, 4]], 5, 'x', [1.5, 'a']]) for _ in range(n)]
            for i in range(-1, n + 3):
                work.append(('choose', (i, vals)))          # a choice may be a whole array: it is the value, not a list of choices
    for vs in pmap(_worker, work):
        for (k, c, w, cls, e, g) in vs:
            R.violate({k: list(c)}, w, cls, repr(e), repr(g))
    R.evaluations += len(work)
    R.rule = ('direct calls vs model: CHOOSE over index -3..n+3 (+ logicals, 254/255) x value lists; INDEX on every array '
              'shape up to %s with distinct labelled elements x all row/column indices -10..size+10, omitted, TRUE; 1-D '
              'number and text arrays; scalars, blanks, error indices, ragged arrays; MATCH types 1/0/-1 on sorted (both '
              'directions, duplicates), unsorted and mixed arrays, wildcard patterns on text arrays. Oracle through '
              'Parser.parse with literal, host-variable and range-supplied arrays: addressed element or an error, whole '
              'rows/columns, MATCH positions vs max/min reference, INDEX(MATCH) inverse, CHOOSE.' % ('4x4' if big else '3x3'))
    return R


def search(ctx, proof, res):
    R = Result()
    rng = ctx.rng
    work = []
    for _ in range(20000):
        nr, nc = rng.randint(1, 5), rng.randint(1, 5)
        arr2 = [[100 * (i + 1) + (j + 1) for j in range(nc)] for i in range(nr)]
        work.append(('index', (arr2, rng.randint(-10, nr + 10), rng.randint(-10, nc + 10), rng.choice(['literal', 'variable']))))
        n = rng.randint(1, 8)
        arr = sorted(rng.randint(-20, 20) for _ in range(n))
        ty = rng.choice([1, -1, 0])
        if ty == -1:
            arr = arr[::-1]
        work.append(('match', (rng.randint(-25, 25), arr, ty, 'literal')))
        arr1 = [10 * (i + 1) for i in range(n)]
        work.append(('index', (arr1, rng.randint(-10, n + 10), None, 'literal')))
    for vs in pmap(_worker, work):
        for (k, c, w, cls, e, g) in vs:
            R.violate({k: list(c)}, w, cls, repr(e), repr(g))
    R.evaluations = len(work)
    return R
