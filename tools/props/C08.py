# -*- coding: utf-8 -*-
"""C08 - error propagation and trapping.  Model: coq/Model/ErrorFlow.v.  Theorems: Properties/C08.v."""
from common import Result, pmap, compare, enc_value, ERR_CODES, dec_value, canon_py

ID = 'C08'
COQ_FILES = ['Properties/C08.v', 'Proofs/ErrorFlowProofs.v', 'Proofs/LogicProofs.v', 'Proofs/ValueProofs.v', 'Proofs/ErrorLiteral.v', 'Proofs/LRfull.v', 'Proofs/TrapSource.v', 'Model/TrapShape.v', 'Model/PredShape.v', 'Gen/TrapFns.v']
TRUSTED = [
    'Gen/TrapFns.v is regenerated on every run by tools/gen/trapshape.py (python ast, fail-closed) from IFERROR / IFNA of '
    'formulas/logic.py and the ERROR.TYPE table of formulas/information.py; Model/TrapShape.v gives the shapes their meaning by '
    'hand (conditional expression over a class test; dict.get on the canonical error singletons)',
    'modelled, not verified: eager bottom-up, left-to-right evaluation by the grammar actions (ply LR driver), '
    'Python exception propagation, Parser.call_function catching XLError at the call boundary',
    'non-error operator results come from Model/Operators.v (C06) and Model/Comparator.v (C07)',
]
EXPLANATION = ('Coq theorems by induction on expression trees of any depth: an error operand of + - * / & and the six '
               'comparisons and of unary minus is the result (left one first); an error literal or unknown name, first in '
               'evaluation order, makes the whole formula report it; errors at the top are reported with an empty result; '
               'every error VALUE produced by an operator, by a function returning it or by a function raising it (aggregates) '
               'is observed by IFERROR/IFNA/ISERROR/ISERR/ISNA/ERROR.TYPE, ISERROR = ISERR or ISNA, IFERROR(x,y)=y iff x is an '
               'error. Tied to the code by random typed trees (all 9 codes, three kinds of producers, every operator and trap) '
               'through Parser.parse vs the model, and clause-by-clause oracles on the implementation.')
ASSUMPTIONS = ['non-error leaves are ints and short texts; host functions either return or raise an XLError']

CODES = ['#DIV/0!', '#NAME?', '#N/A', '#NULL!', '#NUM!', '#REF!', '#VALUE!', '#ERROR!', '#GETTING_DATA']
ARITH = ['+', '-', '*', '/']
CMP = ['<', '>', '=', '<=', '>=', '<>']
FN = {'IFERROR': 0, 'IFNA': 1, 'ISERROR': 2, 'ISERR': 3, 'ISNA': 4, 'ERROR.TYPE': 5, 'SUM': 6, 'NA': 7, 'IDENT': 8}


# tree nodes: ('int', n) ('text', s) ('errval', code) ('errlit', code) ('unkfn',) ('unkvar',)
#             ('bin', kind, op, l, r) ('neg', x) ('call', name, [args]) ('raise', code)
def to_formula(t):
    k = t[0]
    if k == 'int':
        return str(t[1])
    if k == 'text':
        return '"%s"' % t[1]
    if k == 'arr':
        return '{' + ','.join(str(n) for n in t[1]) + '}'
    if k == 'blank':
        return 'NULL'
    if k == 'bool':
        return 'TRUE' if t[1] else 'FALSE'
    if k == 'errval':
        return 'errv' + 'abcdefghi'[CODES.index(t[1])]
    if k == 'errlit':
        return t[1]
    if k == 'unkfn':
        return 'NOSUCHFN(1)'
    if k == 'unkvar':
        return 'nosuchvar'
    if k == 'bin':
        op = ARITH[t[2]] if t[1] == 0 else ('&' if t[1] == 1 else CMP[t[2]])
        return '(%s%s%s)' % (to_formula(t[3]), op, to_formula(t[4]))
    if k == 'neg':
        return '(-%s)' % to_formula(t[1])
    if k == 'call':
        return '%s(%s)' % (t[1], ','.join(to_formula(a) for a in t[2]))
    if k == 'raise':
        return 'RAISE' + 'abcdefghi'[CODES.index(t[1])] + '()'
    raise ValueError(t)


def enc_tree(t):
    from hotxlfp.formulas import error
    k = t[0]
    if k == 'int':
        return [0] + enc_value(t[1])
    if k == 'text':
        return [0] + enc_value(t[1])
    if k == 'arr':
        return [0] + enc_value(list(t[1]))
    if k == 'blank':
        return [0] + enc_value(None)
    if k == 'bool':
        return [0] + enc_value(bool(t[1]))
    if k == 'errval':
        return [0, 5, ERR_CODES.index(t[1])]
    if k == 'errlit':
        return [1, ERR_CODES.index(t[1])]
    if k in ('unkfn', 'unkvar'):
        return [2]
    if k == 'bin':
        return [3, t[1], t[2]] + enc_tree(t[3]) + enc_tree(t[4])
    if k == 'neg':
        return [4] + enc_tree(t[1])
    if k == 'call':
        out = [5, FN[t[1]], len(t[2])]
        for a in t[2]:
            out += enc_tree(a)
        return out
    if k == 'raise':
        return [5, 9 + ERR_CODES.index(t[1]), 0]
    raise ValueError(t)


LISTEN = [0]


def make_parser():
    import hotxlfp
    from hotxlfp.formulas import error
    p = hotxlfp.Parser()
    for i, c in enumerate(CODES):
        e = error.from_message(c)
        p.set_variable('errv' + 'abcdefghi'[i], e)

        def raiser(e=e):
            raise e
        p.set_function('RAISE' + 'abcdefghi'[i], raiser)
    p.set_function('IDENT', lambda x: x)
    LISTEN[0] += 1
    if LISTEN[0] % 2:
        # every other parser also has passive (logging) listeners on all four events: observing is not interfering
        for ev in ('callFunction', 'callVariable', 'callCellValue', 'callRangeValue'):
            p.on(ev, lambda *a: None)
    return p


def _impl(t):
    p = make_parser()
    r = p.parse(to_formula(t))
    if r['error'] is not None:
        return ('E', r['error'], r['result'] is None)
    return ('R', canon_py(r['result']))


def eq_record(model, impl):
    if model[0] == 1:
        return impl == ('E', ERR_CODES[model[1]], True)
    v = dec_value(model, 1)[0]
    if impl[0] != 'R':
        return False
    return v == impl[1]


# ---------------- generators (typed so that the operand classes stay inside the models) ----------------
def gen_err(rng, d):
    """an error-producing subexpression of one of the three kinds (value-producing only)"""
    c = rng.choice(CODES)
    k = rng.randrange(6)
    if k == 0:
        return ('bin', 0, 3, ('int', rng.randint(-5, 5)), ('int', 0))            # n/0
    if k == 1:
        return ('errval', c)                                                     # a cell/variable holding an error
    if k == 2:
        return ('call', 'NA', [])                                                # function returning an error
    if k == 3:
        return ('raise', c)                                                      # host function raising
    if k == 4:
        return ('call', 'SUM', [('int', 1), rng.choice([('errval', c), ('bin', 0, 3, ('int', 1), ('int', 0))])])  # aggregate raising
    return ('call', 'IDENT', [('errval', c)])


def gen_num(rng, d, perr):
    if d <= 0 or rng.random() < 0.25:
        if rng.random() < perr:
            return gen_err(rng, d)
        r = rng.random()        # other operand types: blank and logicals act through 0 / 1 / 0 in arithmetic and comparisons
        return ('blank',) if r < 0.08 else (('bool', r < 0.12) if r < 0.16 else ('int', rng.randint(-9, 9)))
    k = rng.randrange(11)
    if k == 10:
        # an array operand against an error operand (either side): the error is the result
        a = ('arr', tuple(rng.randint(0, 9) for _ in range(rng.randint(1, 3))))
        e = gen_err(rng, d - 1)
        return ('bin', 0, rng.randrange(4), a, e) if rng.random() < 0.5 else ('bin', 0, rng.randrange(4), e, a)
    if k < 4:
        return ('bin', 0, rng.randrange(3), gen_num(rng, d - 1, perr), gen_num(rng, d - 1, perr))
    if k == 4:
        return ('neg', gen_num(rng, d - 1, perr))
    if k == 5:
        return ('call', 'SUM', [gen_num(rng, d - 1, perr) for _ in range(rng.randint(1, 3))])
    if k == 6:
        return ('call', 'IFERROR', [gen_num(rng, d - 1, perr), gen_num(rng, d - 1, perr * 0.5)])
    if k == 7:
        return ('call', 'IFNA', [gen_num(rng, d - 1, perr), gen_num(rng, d - 1, perr * 0.5)])
    if k == 8:
        return ('call', 'ERROR.TYPE', [gen_any(rng, d - 1, max(perr, 0.7))])
    return ('call', 'IDENT', [gen_num(rng, d - 1, perr)])


def gen_text(rng, d, perr):
    if d <= 0 or rng.random() < 0.4:
        if rng.random() < perr:
            return gen_err(rng, d)
        # blank joins as nothing; a text that SPELLS an error code is a text, not an error
        return ('blank',) if rng.random() < 0.12 else ('text', rng.choice(['a', 'b', '', 'xy', 'a', 'b', '#N/A', '#DIV/0!', '#VALUE!', '#ERROR!']))
    k = rng.randrange(3)
    if k == 0:
        return ('bin', 1, 0, gen_text(rng, d - 1, perr), gen_text(rng, d - 1, perr))
    if k == 1:
        return ('bin', 1, 0, ('int', rng.randint(-9, 9)), gen_text(rng, d - 1, perr))
    return ('call', 'IFERROR', [gen_text(rng, d - 1, perr), gen_text(rng, d - 1, perr * 0.5)])


def gen_bool(rng, d, perr):
    k = rng.randrange(5)
    if k < 3:
        return ('call', rng.choice(['ISERROR', 'ISERR', 'ISNA']), [gen_any(rng, d - 1, max(perr, 0.6))])
    return ('bin', 2, rng.randrange(6), gen_num(rng, d - 1, perr), gen_num(rng, d - 1, perr))


def gen_any(rng, d, perr):
    r = rng.random()
    if r < 0.5:
        return gen_num(rng, d, perr)
    if r < 0.75:
        return gen_text(rng, d, perr)
    return gen_bool(rng, d, perr)


def plant_raiser(rng, t):
    """replace one leaf by an error literal or an unknown name (raised, not trappable)"""
    k = t[0]
    if k in ('int', 'text', 'errval', 'raise', 'blank', 'bool'):
        r = rng.random()
        return ('errlit', rng.choice(CODES)) if r < 0.6 else (('unkfn',) if r < 0.8 else ('unkvar',))
    if k == 'bin':
        if rng.random() < 0.5:
            return ('bin', t[1], t[2], plant_raiser(rng, t[3]), t[4])
        return ('bin', t[1], t[2], t[3], plant_raiser(rng, t[4]))
    if k == 'neg':
        return ('neg', plant_raiser(rng, t[1]))
    if k == 'call' and t[2]:
        i = rng.randrange(len(t[2]))
        return ('call', t[1], t[2][:i] + [plant_raiser(rng, t[2][i])] + t[2][i + 1:])
    return t


# ---------------- clause-by-clause oracles on the implementation ----------------
def rec(p, f):
    r = p.parse(f)
    return r['error'], r['result']


def check_operator(c):
    """l OP r where the operands' own records are known: the left error first, else the right one."""
    l, r, kind, op = c
    p = make_parser()
    fl, fr = to_formula(l), to_formula(r)
    el, _ = rec(p, fl)
    er, _ = rec(p, fr)
    f = to_formula(('bin', kind, op, l, r))
    e, res = rec(p, f)
    out = []
    want = el if el is not None else er
    if el is not None and er is not None and rec(p, 'ISERROR(%s)' % fl)[0] is None and rec(p, 'ISERROR(%s)' % fr)[0] is not None:
        # the left operand IS an error value, but evaluating the right one aborts the whole formula (an error literal, an
        # unknown name, a Python exception such as -NULL): no operation takes place, the abort is what is reported
        want = er
    if want is not None and (e != want or res is not None):
        out.append((f, None, {'error': want, 'result': None}, {'error': e, 'result': res}))
    if el is not None:
        e2, res2 = rec(p, '(-%s)' % fl)
        if e2 != el or res2 is not None:
            out.append(('(-%s)' % fl, None, {'error': el, 'result': None}, {'error': e2, 'result': res2}))
    return out


def wrap(rng_seq, x, d):
    """wrap the producer x under d layers of operators/functions that must propagate it"""
    t = x
    for i in range(d):
        k = rng_seq[i % len(rng_seq)]
        if k == 0:
            t = ('bin', 0, 0, ('int', 1), t)
        elif k == 1:
            t = ('bin', 0, 2, t, ('int', 2))
        elif k == 2:
            t = ('neg', t)
        elif k == 3:
            t = ('call', 'IDENT', [t])
        elif k == 4:
            t = ('call', 'SUM', [('int', 3), t])
        elif k == 5:
            t = ('bin', 2, 0, t, ('int', 1))
        else:
            t = ('bin', 1, 0, t, ('text', 'z'))
    return t


def check_trap(c):
    """every trap on an error value produced at depth d by one of the three kinds of producers"""
    code, kind, depth, seq = c
    prod = {0: ('errval', code), 1: ('raise', code), 2: ('call', 'SUM', [('int', 1), ('errval', code)]),
            3: ('call', 'IDENT', [('errval', code)]), 4: ('bin', 0, 3, ('int', 1), ('int', 0)), 5: ('call', 'NA', [])}[kind]
    true_code = {4: '#DIV/0!', 5: '#N/A'}.get(kind, code)
    x = to_formula(wrap(seq, prod, depth))
    p = make_parser()
    out = []
    et = {'#NULL!': 1, '#DIV/0!': 2, '#VALUE!': 3, '#REF!': 4, '#NAME?': 5, '#NUM!': 6, '#N/A': 7, '#GETTING_DATA': 8}
    exp = [('IFERROR(%s,7)' % x, (None, 7)), ('ISERROR(%s)' % x, (None, True)),
           ('ISERR(%s)' % x, (None, true_code != '#N/A')), ('ISNA(%s)' % x, (None, true_code == '#N/A')),
           ('IFNA(%s,7)' % x, (None, 7) if true_code == '#N/A' else (true_code, None)),
           ('IFERROR(1,%s)' % x, (None, 1)),
           ('ERROR.TYPE(%s)' % x, (None, et[true_code]) if true_code in et else ('#N/A', None)),
           (x, (true_code, None))]
    for f, want in exp:
        got = rec(p, f)
        if got != want or (want[1] is not None and type(got[1]) is not type(want[1])):
            out.append((f, None, want, got))
    # the same error produced IN A CELL: the host's callCellValue listener evaluates the cell's formula with the same
    # parser (a nested parse that ends in the error) and hands the error value to the formula that referenced it;
    # a trapped error must not surface in the outer record, an untrapped one must
    from hotxlfp.formulas import error as xlerror
    q = make_parser()
    sheet = {'A1': x, 'B2': '2+3'}

    def cell_value(cell, setter):
        f = sheet.get(cell.label)
        if f is not None:
            inner = q.parse(f)
            setter(xlerror.from_message(inner['error']) if inner['error'] is not None else inner['result'])
    q.on('callCellValue', cell_value)
    for f, want in [(f_.replace(x, 'A1'), w_) for (f_, w_) in exp] + [('IFERROR(A1,1)+IFERROR(B2,1)', (None, 6)), ('B2+0*IFERROR(A1,1)', (None, 5)),
                                                                      ('IFERROR(B2,A1)', (None, 5))]:
        got = rec(q, f)
        if got != want or (want[1] is not None and type(got[1]) is not type(want[1])):
            out.append((f + ' with cell A1 holding ' + x + ' (evaluated by a nested parse of the same parser)', None, want, got))
    return out


def check_literal(c):
    """an error literal in a formula whose other leaves are harmless makes the whole formula report it"""
    code, ctx = c
    p = make_parser()
    fs = {0: '%s', 1: '1+%s', 2: '%s*2', 3: 'IFERROR(%s,1)', 4: 'ISERROR(%s)', 5: 'SUM(1,%s,2)', 6: '-(%s)', 7: '"a"&%s',
          8: '(%s)=1', 9: 'IF(TRUE,1,%s)', 10: 'IFERROR(1+SUM(2,-%s),0)', 11: '{1,%s}', 12: 'IFNA(%s,1)', 13: 'ERROR.TYPE(%s)'}
    f = fs[ctx] % code
    got = rec(p, f)
    return [] if got == (code, None) else [(f, None, (code, None), got)]


NONERRORS = ['"#N/A"', '"#DIV/0!"', '"#NAME?"', '"#NULL!"', '"#NUM!"', '"#REF!"', '"#VALUE!"', '"#ERROR!"', '"#GETTING_DATA"', '"#N"&"/A"', 'T("#N/A")',
             'IF(TRUE,"#N/A",1)', 'txtna', '0', 'NULL', 'FALSE', '""', '"NA()"', '7', 'IDENT("#REF!")', 'IFERROR(1/0,"#DIV/0!")']


def check_nonerror(i):
    """a value that is not an error - in particular a text spelling an error code - is not an error for any trap"""
    x = NONERRORS[i]
    p = make_parser()
    p.set_variable('txtna', '#N/A')
    own = rec(p, x)
    out = []
    if own[0] is not None:
        return [(x, None, 'a value', own)]
    for f, want in (('ISERROR(%s)' % x, (None, False)), ('ISERR(%s)' % x, (None, False)), ('ISNA(%s)' % x, (None, False)),
                    ('IFERROR(%s,"trapped")' % x, own), ('IFNA(%s,"trapped")' % x, own), ('ERROR.TYPE(%s)' % x, ('#N/A', None)),
                    ('ISERROR(%s)=OR(ISERR(%s),ISNA(%s))' % (x, x, x), (None, True))):
        got = rec(p, f)
        if got != want or type(got[1]) is not type(want[1]):
            out.append((f, None, want, got))
    return out


CHECKERS = {'operator': check_operator, 'trap': check_trap, 'literal': check_literal, 'nonerror': check_nonerror}


def check_case(case):
    if 'formula' in case:
        p = make_parser()
        f = case['formula']
        want = {'IFERROR(SUM(1/0),0)': (None, 0), '(1/0)=1': ('#DIV/0!', None), '(1/0)&"a"': ('#DIV/0!', None),
                '-(1/0)': ('#DIV/0!', None), '#GETTING_DATA': ('#GETTING_DATA', None)}.get(f)
        got = rec(p, f)
        return [] if want is None or got == want else [{'case': case, 'what': f, 'class': None, 'expected': want, 'observed': got}]
    if 'tree' in case:
        return []
    for k, fn in CHECKERS.items():
        if k in case:
            c = case[k]
            return [{'case': case, 'what': w, 'class': cls, 'expected': repr(e), 'observed': repr(g)}
                    for (w, cls, e, g) in fn(retuple(c))]
    return []


def retuple(x):
    if isinstance(x, list):
        return tuple(retuple(y) if not (isinstance(y, list) and y and isinstance(y[0], list)) else [retuple(z) for z in y] for y in x)
    return x


def _worker(kc):
    k, c = kc
    return [(k, c) + x for x in CHECKERS[k](c)]


def gen(ctx):
    import os
    import sys
    from common import VERIF
    sys.path.insert(0, os.path.join(VERIF, 'tools', 'gen'))
    import trapshape
    root = os.environ.get('VERIF_SNAPSHOT', '/repo')
    ch, ok, notes = trapshape.write(os.path.join(VERIF, 'coq', 'Gen', 'TrapFns.v'), root)
    return {'Gen/TrapFns.v': ('regenerated (changed)' if ch else 'regenerated (identical to the committed baseline)')
            + ('' if ok else '; NOT UNDERSTOOD: ' + '; '.join(notes))}


def explore(ctx):
    R = Result()
    rng = ctx.rng
    N = 60000 if ctx.thorough else 4000
    trees = []
    stats = {'raising': 0, 'depth': {}}
    for _ in range(N):
        d = rng.randint(1, 5)
        t = gen_any(rng, d, rng.choice([0.0, 0.2, 0.5, 0.9]))
        if rng.random() < 0.25:
            t = plant_raiser(rng, t)
            stats['raising'] += 1
        stats['depth'][d] = stats['depth'].get(d, 0) + 1
        trees.append(t)
    compare(R, ctx, 'errflow', trees, enc_tree, _impl, key=repr, eq=eq_record)
    R.extra['tree_distribution'] = stats
    work = []
    for _ in range(N // 2):
        l = gen_any(rng, rng.randint(0, 3), rng.choice([0.3, 0.8]))
        r = gen_any(rng, rng.randint(0, 3), rng.choice([0.3, 0.8]))
        if rng.random() < 0.2:
            l = plant_raiser(rng, l)
        kind = rng.randrange(3)
        work.append(('operator', (l, r, kind, rng.randrange(4 if kind == 0 else 6) if kind != 1 else 0)))
    for _ in range(200):
        a = ('arr', tuple(rng.randint(0, 9) for _ in range(rng.randint(1, 3))))
        e = gen_err(rng, 1)
        op = rng.randrange(4)
        work.append(('operator', (a, e, 0, op)))
        work.append(('operator', (e, a, 0, op)))
    for code in CODES:
        for kind in range(6):
            for depth in range(0, 5 if ctx.thorough else 4):
                for _ in range(3 if ctx.thorough else 1):
                    seq = tuple(rng.randrange(5) for _ in range(4))
                    work.append(('trap', (code, kind, depth, seq)))
        for c in range(14):
            work.append(('literal', (code, c)))
    work += [('nonerror', i) for i in range(len(NONERRORS))]
    for vs in pmap(_worker, work):
        for (k, c, w, cls, e, g) in vs:
            R.violate({k: c}, w, cls, repr(e), repr(g))
    R.evaluations += len(work)
    R.rule = ('random typed expression trees (depth 1..5; leaves: ints, texts, error values of all 9 codes held by variables; '
              'producers: n/0, NA(), functions returning, host functions raising, SUM over error items; nodes: + - * / & six '
              'comparisons, unary minus, IFERROR, IFNA, ISERROR, ISERR, ISNA, ERROR.TYPE, SUM, identity) with a quarter of '
              'them carrying an error literal or unknown name, through Parser.parse vs the model; oracles: operator clause on '
              'random operand pairs, every trap x 9 codes x 6 producers x depth 0..3, error literal in 14 contexts x 9 codes.')
    return R


def search(ctx, proof, res):
    R = Result()
    rng = ctx.rng
    work = []
    for _ in range(20000):
        l = gen_any(rng, rng.randint(0, 3), 0.6)
        r = gen_any(rng, rng.randint(0, 3), 0.6)
        kind = rng.randrange(3)
        work.append(('operator', (l, r, kind, rng.randrange(4 if kind == 0 else 6) if kind != 1 else 0)))
    for code in CODES:
        for kind in range(6):
            for depth in range(6):
                for _ in range(4):
                    work.append(('trap', (code, kind, depth, tuple(rng.randrange(7) for _ in range(5)))))
        for c in range(14):
            work.append(('literal', (code, c)))
    work += [('nonerror', i) for i in range(len(NONERRORS))]
    for vs in pmap(_worker, work):
        for (k, c, w, cls, e, g) in vs:
            R.violate({k: c}, w, cls, repr(e), repr(g))
    R.evaluations = len(work)
    return R
