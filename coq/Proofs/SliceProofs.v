(* C15: the slicing functions AS WRITTEN IN text.py (Gen/TextSlices.v, regenerated from the source on every run),
   interpreted with Python's slice semantics (Model/PySlice.v), denote fn_LEFT / fn_RIGHT / fn_MID of Model/Text.v
   for every text and every count - so every theorem about those (Proofs/TextProofs.v, Proofs/TextAlgebra.v) is a
   theorem about the source terms. *)
From HX Require Import Model.Value Model.Text Model.PySlice Gen.TextSlices Proofs.TextProofs.
From Coq Require Import Lia ZifyBool.
Open Scope Z_scope.

(* Python's s[:n] and s[m:] for non-negative n, m, at any length *)
Lemma pyslice_to s n : 0 <= n -> pyslice s None (Some n) = firstn (Z.to_nat n) s.
Proof.
  intros H. unfold pyslice, norm_index, zlen. destruct (n <? 0) eqn:E; [exfalso; lia|]. cbn [skipn Z.to_nat].
  destruct (Z.le_gt_cases n (Z.of_nat (length s))) as [L|G].
  - f_equal. lia.
  - rewrite !firstn_all2 by lia. reflexivity.
Qed.
Lemma pyslice_from s m : 0 <= m -> pyslice s (Some m) None = skipn (Z.to_nat m) s.
Proof.
  intros H. unfold pyslice, norm_index, zlen. destruct (m <? 0) eqn:E; [exfalso; lia|].
  destruct (Z.le_gt_cases m (Z.of_nat (length s))) as [L|G].
  - replace (Z.min m (Z.of_nat (length s))) with m by lia. apply firstn_all2. rewrite skipn_length. lia.
  - replace (Z.min m (Z.of_nat (length s))) with (Z.of_nat (length s)) by lia.
    rewrite Z.sub_diag. cbn [Z.to_nat firstn]. symmetry. apply skipn_all2. lia.
Qed.
(* ... and what a NEGATIVE bound would mean (the pitfall the guards and the max() exist for) *)
Lemma pyslice_from_negative s m : m < 0 -> pyslice s (Some m) None = skipn (Z.to_nat (Z.max (m + zlen s) 0)) s.
Proof.
  intros H. unfold pyslice, norm_index, zlen. destruct (m <? 0) eqn:E; [|exfalso; lia].
  apply firstn_all2. rewrite skipn_length. lia.
Qed.

Theorem source_LEFT_is_model s n : run_slicefn gen_LEFT s [n] = fn_LEFT s n.
Proof.
  unfold run_slicefn, gen_LEFT, fn_LEFT, zfirstn. cbn [sf_arity sf_guards sf_body length Nat.eqb negb existsb geval ieval nth seval option_map orb].
  destruct (n <? 0) eqn:E; [reflexivity|]. cbn [orb]. rewrite pyslice_to by lia. reflexivity.
Qed.
Theorem source_RIGHT_is_model s n : run_slicefn gen_RIGHT s [n] = fn_RIGHT s n.
Proof.
  unfold run_slicefn, gen_RIGHT, fn_RIGHT, zskipn. cbn [sf_arity sf_guards sf_body length Nat.eqb negb existsb geval ieval nth seval option_map orb].
  destruct (n <? 0) eqn:E; [reflexivity|]. cbn [orb]. rewrite pyslice_from by lia. reflexivity.
Qed.
Theorem source_MID_is_model s st n : run_slicefn gen_MID s [st; n] = fn_MID s st n.
Proof.
  unfold run_slicefn, gen_MID, fn_MID, zskipn, zfirstn. cbn [sf_arity sf_guards sf_body length Nat.eqb negb existsb geval ieval nth seval option_map orb].
  destruct (st <? 1) eqn:A; [reflexivity|]. destruct (n <? 0) eqn:B; [reflexivity|]. cbn [orb].
  rewrite pyslice_from by lia. rewrite pyslice_to by lia. reflexivity.
Qed.
Theorem source_defaults : gen_LEFT_defaults = [1] /\ gen_RIGHT_defaults = [1] /\ gen_MID_defaults = [1] /\ slices_gen_ok = true.
Proof. repeat split. Qed.

(* the pitfall, as a theorem about Python slicing: without the max(), RIGHT(s,0) would be the whole text *)
Example right_zero_pitfall : pyslice [97; 98; 99] (Some (- 0)) None = [97; 98; 99] /\ fn_RIGHT [97; 98; 99] 0 = TOk [].
Proof. split; reflexivity. Qed.
