(* C11: the order-free statistics that go through sorting (MEDIAN, LARGE).  Two sorted arrangements of the same items
   agree position by position in VALUE (an int and a float of equal value may swap places), hence the k-th smallest /
   largest value and the median do not depend on the order of the items. *)
From HX Require Import Model.Base Model.Value Model.Operators Model.Aggregates Proofs.AggregatesProofs.
From Coq Require Import Lia Permutation Sorted QArith Lqa.
Open Scope Q_scope.
Notation num := Operators.num (only parsing).

Definition cnt_lt (v : Q) (l : list num) : nat := length (filter (fun y => q_ltb (num_q y) v) l).
Definition cnt_le (v : Q) (l : list num) : nat := length (filter (fun y => negb (q_ltb v (num_q y))) l).
Lemma q_ltb_lt x y : q_ltb x y = true <-> x < y.
Proof. unfold q_ltb, Qlt. lia. Qed.
Lemma q_ltb_ge x y : q_ltb x y = false <-> y <= x.
Proof. unfold q_ltb, Qle. lia. Qed.
Lemma filter_perm_length {A} (f : A -> bool) l l' : Permutation l l' -> length (filter f l) = length (filter f l').
Proof. induction 1; cbn; try (destruct (f x)); try (destruct (f y)); cbn; congruence. Qed.
Lemma cnt_lt_perm v l l' : Permutation l l' -> cnt_lt v l = cnt_lt v l'. Proof. apply filter_perm_length. Qed.
Lemma cnt_le_perm v l l' : Permutation l l' -> cnt_le v l = cnt_le v l'. Proof. apply filter_perm_length. Qed.
Lemma filter_length_le {A} (f : A -> bool) l : (length (filter f l) <= length l)%nat.
Proof. induction l as [|a l IH]; cbn; [lia|destruct (f a); cbn; lia]. Qed.

Lemma none_below y r : Forall (num_le y) r -> filter (fun z => q_ltb (num_q z) (num_q y)) r = [].
Proof.
  induction 1 as [|z r Hz F IH]; [reflexivity|]. cbn [filter].
  assert (q_ltb (num_q z) (num_q y) = false) as -> by (apply q_ltb_ge; exact Hz). exact IH.
Qed.
(* in a sorted list, at most k items are strictly below the item at position k, and at least k+1 are at or below it *)
Lemma sorted_rank s : StronglySorted num_le s -> forall k x, nth_error s k = Some x ->
  (cnt_lt (num_q x) s <= k)%nat /\ (k + 1 <= cnt_le (num_q x) s)%nat.
Proof.
  induction 1 as [|y r S IH F]; intros k x Hk; [destruct k; discriminate|].
  destruct k as [|k]; cbn [nth_error] in Hk.
  - inversion Hk; subst x. unfold cnt_lt, cnt_le. cbn [filter].
    assert (q_ltb (num_q y) (num_q y) = false) as -> by (apply q_ltb_ge; lra). cbn [negb length].
    split; [|lia]. 
    rewrite (none_below y r F). cbn; lia.
  - destruct (IH k x Hk) as [A B]. unfold cnt_lt, cnt_le in *. cbn [filter].
    assert (num_q y <= num_q x) as Hyx. { rewrite Forall_forall in F. apply F. eapply nth_error_In; eauto. }
    assert (negb (q_ltb (num_q x) (num_q y)) = true) as -> by (apply Bool.negb_true_iff, q_ltb_ge; exact Hyx).
    cbn [length]. split; [|lia]. destruct (q_ltb (num_q y) (num_q x)); cbn [length]; lia.
Qed.
Lemma cnt_le_lt v v' l : v < v' -> (cnt_le v l <= cnt_lt v' l)%nat.
Proof.
  intros H. unfold cnt_le, cnt_lt. induction l as [|a l IH]; [cbn; lia|]. cbn [filter].
  destruct (q_ltb v (num_q a)) eqn:E; cbn [negb].
  - destruct (q_ltb (num_q a) v'); cbn [length]; lia.
  - apply q_ltb_ge in E. assert (q_ltb (num_q a) v' = true) as -> by (apply q_ltb_lt; lra). cbn [length]. lia.
Qed.
(* the value at every position of a sorted arrangement is determined by the items *)
Theorem sorted_arrangements_agree s s' : StronglySorted num_le s -> StronglySorted num_le s' -> Permutation s s' ->
  forall k x x', nth_error s k = Some x -> nth_error s' k = Some x' -> num_q x == num_q x'.
Proof.
  intros S S' P k x x' Hx Hx'.
  destruct (sorted_rank s S k x Hx) as [A B]. destruct (sorted_rank s' S' k x' Hx') as [A' B'].
  destruct (Qlt_le_dec (num_q x) (num_q x')) as [L|L].
  - exfalso. pose proof (cnt_le_lt _ _ s L). rewrite (cnt_lt_perm _ _ _ P) in H. lia.
  - destruct (Qlt_le_dec (num_q x') (num_q x)) as [L'|L']; [|lra].
    exfalso. pose proof (cnt_le_lt _ _ s' L'). rewrite <- (cnt_lt_perm _ _ _ P) in H. lia.
Qed.
(* the sorted arrangement computed by the model, for two orders of the same items *)
Theorem sort_order_free l l' : Permutation l l' ->
  length (sort_nums l) = length (sort_nums l') /\
  forall k x x', nth_error (sort_nums l) k = Some x -> nth_error (sort_nums l') k = Some x' -> num_q x == num_q x'.
Proof.
  intros P. destruct (sort_nums_spec l) as [P1 S1]. destruct (sort_nums_spec l') as [P2 S2].
  assert (Permutation (sort_nums l) (sort_nums l')) as PP
    by (eapply Permutation_trans; [apply Permutation_sym; exact P1|eapply Permutation_trans; [exact P|exact P2]]).
  split; [apply Permutation_length; exact PP|]. apply sorted_arrangements_agree; assumption.
Qed.
Lemma nth_nth_error {A} (l : list A) k d : (k < length l)%nat -> nth_error l k = Some (nth k l d).
Proof. revert k. induction l as [|a l IH]; intros k H; [cbn in H; lia|]. destruct k; [reflexivity|]. cbn. apply IH. cbn in H. lia. Qed.
(* LARGE(items, n) and the median positions: the same value whatever the order of the items *)
Theorem kth_order_free l l' k : Permutation l l' -> (k < length l)%nat ->
  num_q (nth k (sort_nums l) (NI 0)) == num_q (nth k (sort_nums l') (NI 0)).
Proof.
  intros P Hk. destruct (sort_order_free l l' P) as [Len Agree].
  assert (length (sort_nums l) = length l) as L1 by (symmetry; apply Permutation_length, sort_nums_spec).
  apply (Agree k); apply nth_nth_error; lia.
Qed.

(* ---------- MEDIAN and LARGE on the model ---------- *)
Definition median_items (ns : list num) : ares :=
  let s := sort_nums ns in let n := length s in
  match n with
  | O => AExc
  | _ => if Nat.odd n then AOk (nth (Nat.div n 2) s (NI 0))
         else AOk (NF (num_q (add_num (nth (Nat.div n 2 - 1) s (NI 0)) (nth (Nat.div n 2) s (NI 0))) / 2)%Q)
  end.
Theorem MEDIAN_is_median_of_items args : numeric_args args -> fn_MEDIAN args = median_items (items_of args).
Proof. intros H. unfold fn_MEDIAN, with_numbers. rewrite (numbers_of_numeric _ _ _ H). reflexivity. Qed.
Definition ares_q (r : ares) : option Q := match r with AOk n => Some (num_q n) | _ => None end.
Lemma add_num_q a b : num_q (add_num a b) == num_q a + num_q b.
Proof. destruct a, b; cbn [add_num num_q]; try lra. rewrite inject_Z_plus. lra. Qed.
Theorem MEDIAN_order_free ns ns' : Permutation ns ns' ->
  match ares_q (median_items ns), ares_q (median_items ns') with
  | Some a, Some b => a == b
  | None, None => True
  | _, _ => False
  end.
Proof.
  intros P. unfold median_items.
  assert (length (sort_nums ns) = length ns) as L1 by (symmetry; apply Permutation_length, sort_nums_spec).
  assert (length (sort_nums ns') = length ns) as L2 by (rewrite (Permutation_length P); symmetry; apply Permutation_length, sort_nums_spec).
  rewrite L1, L2. destruct (length ns) as [|m] eqn:Lm; [exact I|].
  destruct (Nat.odd (S m)); cbn [ares_q num_q].
  - apply kth_order_free; [exact P|]. rewrite Lm. apply Nat.div_lt; lia.
  - rewrite !add_num_q.
    assert (num_q (nth (S m / 2 - 1) (sort_nums ns) (NI 0)) == num_q (nth (S m / 2 - 1) (sort_nums ns') (NI 0))) as ->
      by (apply kth_order_free; [exact P|]; rewrite Lm; pose proof (Nat.div_lt (S m) 2); lia).
    assert (num_q (nth (S m / 2) (sort_nums ns) (NI 0)) == num_q (nth (S m / 2) (sort_nums ns') (NI 0))) as ->
      by (apply kth_order_free; [exact P|]; rewrite Lm; apply Nat.div_lt; lia).
    reflexivity.
Qed.
(* LARGE(items, n): the n-th largest value, whatever the order *)
Definition large_items (ns : list num) (n : Z) : ares :=
  let s := sort_nums ns in
  if ((n <? 1) || (Z.of_nat (length s) <? n))%Z then AErr ENUM else AOk (nth (length s - Z.to_nat n) s (NI 0)).
Theorem LARGE_order_free ns ns' n : Permutation ns ns' ->
  match large_items ns n, large_items ns' n with
  | AOk a, AOk b => num_q a == num_q b
  | AErr e, AErr e' => e = e'
  | _, _ => False
  end.
Proof.
  intros P. unfold large_items.
  assert (length (sort_nums ns) = length ns) as L1 by (symmetry; apply Permutation_length, sort_nums_spec).
  assert (length (sort_nums ns') = length ns) as L2 by (rewrite (Permutation_length P); symmetry; apply Permutation_length, sort_nums_spec).
  rewrite L1, L2. destruct ((n <? 1) || (Z.of_nat (length ns) <? n))%Z eqn:E; [reflexivity|].
  apply kth_order_free; [exact P|]. apply Bool.orb_false_iff in E. lia.
Qed.

(* ---------- MODE: a most frequent item; LARGE: the n-th largest ---------- *)
Lemma first_mode_spec all : forall l m, first_mode l all = Some m ->
  In m l /\ forall x, In x l -> (count_eq x all <= count_eq m all)%nat.
Proof.
  induction l as [|x r IH]; intros m H; [discriminate|]. cbn [first_mode] in H.
  destruct (first_mode r all) as [m'|] eqn:E.
  - destruct (IH m' eq_refl) as [Hin Hmax]. destruct (count_eq x all <? count_eq m' all)%nat eqn:C; inversion H; subst.
    + split; [right; exact Hin|]. intros y [<-|Hy]; [apply Nat.ltb_lt in C; lia|apply Hmax, Hy].
    + split; [left; reflexivity|]. apply Nat.ltb_ge in C. intros y [<-|Hy]; [lia|]. specialize (Hmax y Hy). lia.
  - inversion H; subst. split; [left; reflexivity|]. intros y [<-|Hy]; [lia|]. destruct r; [contradiction|]. cbn [first_mode] in E.
    destruct (first_mode r all); [destruct (_ <? _)%nat|]; discriminate.
Qed.
Theorem MODE_is_most_frequent args m : numeric_args args -> fn_MODE args = AOk m ->
  In m (items_of args) /\ forall x, In x (items_of args) -> (count_eq x (items_of args) <= count_eq m (items_of args))%nat.
Proof.
  intros H. unfold fn_MODE, with_numbers. rewrite (numbers_of_numeric _ _ _ H). fold (items_of args).
  destruct (first_mode (items_of args) (items_of args)) as [m'|] eqn:E; [|discriminate]. intros Q. inversion Q; subst.
  apply first_mode_spec. exact E.
Qed.
Definition cnt_ge (v : Q) (l : list num) : nat := length (filter (fun y => negb (q_ltb (num_q y) v)) l).
Lemma cnt_lt_ge v l : (cnt_lt v l + cnt_ge v l = length l)%nat.
Proof. unfold cnt_lt, cnt_ge. induction l as [|a l IH]; [reflexivity|]. cbn [filter]. destruct (q_ltb (num_q a) v); cbn [negb length]; lia. Qed.
(* LARGE(items, n) = r: at least n items are >= r and at least (count - n + 1) items are <= r *)
Theorem LARGE_is_nth_largest ns n r : large_items ns n = AOk r ->
  (Z.to_nat n <= cnt_ge (num_q r) ns)%nat /\ (length ns - Z.to_nat n + 1 <= cnt_le (num_q r) ns)%nat /\ (1 <= n <= Z.of_nat (length ns))%Z.
Proof.
  unfold large_items. destruct (sort_nums_spec ns) as [P S]. 
  assert (length (sort_nums ns) = length ns) as L by (symmetry; apply Permutation_length, P).
  rewrite L. destruct ((n <? 1) || (Z.of_nat (length ns) <? n))%Z eqn:E; [discriminate|]. apply Bool.orb_false_iff in E.
  intros H. inversion H as [Hr]. clear H.
  assert (length ns - Z.to_nat n < length (sort_nums ns))%nat as Hk by lia.
  pose proof (sorted_rank (sort_nums ns) S (length ns - Z.to_nat n) _ (nth_nth_error _ _ (NI 0) Hk)) as [A B].
  rewrite (cnt_lt_perm _ _ _ (Permutation_sym P)) in A. rewrite (cnt_le_perm _ _ _ (Permutation_sym P)) in B.
  pose proof (cnt_lt_ge (num_q (nth (length ns - Z.to_nat n) (sort_nums ns) (NI 0))) ns). split; [lia|]. split; [lia|lia].
Qed.
Theorem LARGE_on_the_model arr n : fn_LARGE arr n = with_numbers true true [arr] (fun ns => large_items ns n).
Proof. reflexivity. Qed.

(* ---------- HARMEAN, AVEDEV, SLOPE: the textbook formulas ---------- *)
Lemma harmonic_scan_pos l : Forall (fun x => 0 < x) l -> harmonic_scan l = Some true.
Proof.
  induction 1 as [|x l Hx F IH]; [reflexivity|]. cbn [harmonic_scan].
  assert ((Qnum x <? 0)%Z = false) as -> by (unfold Qlt in Hx; cbn in Hx; lia).
  assert ((Qnum x =? 0)%Z = false) as -> by (unfold Qlt in Hx; cbn in Hx; lia). exact IH.
Qed.
Theorem HARMEAN_definition args : numeric_args args -> (2 <= length (items_of args))%nat ->
  Forall (fun n => 0 < num_q n) (items_of args) ->
  fn_HARMEAN args = AOk (NF (qlen (items_of args) / qsum (map Qinv (qs (items_of args))))).
Proof.
  intros H L P. unfold fn_HARMEAN, with_numbers. rewrite (numbers_of_numeric _ _ _ H). fold (items_of args).
  destruct (items_of args) as [|a [|b r]] eqn:E; try (cbn in L; lia).
  rewrite harmonic_scan_pos; [reflexivity|]. unfold qs. rewrite Forall_map. exact P.
Qed.
Theorem SLOPE_definition ys xs : length ys = length xs -> ys <> [] ->
  let n := qlen ys in let sx := qsum (qs xs) in let sy := qsum (qs ys) in
  let sxx := qsum (map (fun x => x * x) (qs xs)) in let sxy := qsum (map (fun p => fst p * snd p) (combine (qs xs) (qs ys))) in
  fn_SLOPE_lists ys xs = if (Qnum (n * sxx - sx * sx) =? 0)%Z then AErr EDIV0 else AOk (NF ((n * sxy - sx * sy) / (n * sxx - sx * sx))).
Proof.
  intros L Hne. unfold fn_SLOPE_lists. rewrite L, Nat.eqb_refl. cbn [negb orb].
  destruct xs as [|x xs']; [destruct ys; [congruence|discriminate]|]. cbn [length Nat.eqb]. reflexivity.
Qed.
