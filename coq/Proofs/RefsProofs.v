(* C09 (names) and C10 (reference events): the host callbacks of Model/Interp.v, the lexing of names, and the
   post-order event trace of every expression (through Proofs/LRfull.v these are statements about Parser.parse). *)
From HX Require Import Model.Base Model.Lexer Model.Value Model.Operators Model.Cell Model.Interp
  Proofs.LRcert Proofs.LRvalue Proofs.LRfull Proofs.ComparatorProofs Proofs.CellProofs Proofs.Digits.
From Coq Require Import Lia ZifyBool.
Open Scope Z_scope.

(* ---------- names that lex as one VARIABLE token ---------- *)
Definition word (n : list Z) : Prop := Forall (fun c => is_word c = true) n.
(* letters immediately followed by a digit: the prefix is taken as a cell reference *)
Definition cell_prefixed (n : list Z) : bool :=
  let l := fst (span is_alpha n) in nonempty l && nonempty (fst (span is_digit (skipn (length l) n))).
Definition good_name (n : list Z) : Prop :=
  word n /\ cell_prefixed n = false /\
  match n with
  | [] => False
  | c :: r => (is_alpha c = true /\ r <> []) \/ Forall (fun c => is_alpha_us c = true) n
  end.

Lemma span_all p l : Forall (fun c => p c = true) l -> span p l = (l, []).
Proof. intros H. rewrite <- (app_nil_r l) at 1. apply span_app_stop; [exact H|exact I]. Qed.
Lemma forall_skipn {A} (P : A -> Prop) k l : Forall P l -> Forall P (skipn k l).
Proof. revert l. induction k as [|k IH]; intros l H; [exact H|]. destruct l; [constructor|]. inversion H; subst. apply IH. assumption. Qed.
Lemma hd_is_word k l : is_word k = false -> word l -> hd_is k l = false.
Proof. intros Hk Hl. destruct l as [|x l]; [reflexivity|]. inversion Hl; subst. cbn [hd_is]. destruct (x =? k) eqn:E; [|reflexivity]. assert (x = k) by lia. congruence. Qed.
Lemma word_not_space c : is_word c = true -> is_space c = false.
Proof.
  intros H. unfold is_space. destruct (existsb (Z.eqb c) space_chars) eqn:E; [|reflexivity].
  apply existsb_exists in E. destruct E as (x & Hx & Hc). assert (c = x) by lia. subst x.
  assert (forallb (fun x => negb (is_word x)) space_chars = true) as K by (vm_compute; reflexivity).
  rewrite forallb_forall in K. specialize (K c Hx). rewrite H in K. discriminate.
Qed.
Lemma word_range c : is_word c = true -> (48 <= c <= 57) \/ (65 <= c <= 90) \/ c = 95 \/ (97 <= c <= 122).
Proof. unfold is_word, is_alpha, is_upper, is_lower, is_digit. lia. Qed.
Lemma span_length_le p (l : list Z) : (length (fst (span p l)) <= length l)%nat.
Proof. induction l as [|c l IH]; [cbn; lia|]. cbn [span]. destruct (p c); [|cbn; lia]. destruct (span p l). cbn [fst length] in *. lia. Qed.

Lemma lex_one_name n : good_name n -> lex_one n = Some (T_VARIABLE, length n).
Proof.
  intros (Hw & Hcp & Hshape). destruct n as [|c r]; [contradiction|].
  assert (is_word c = true) as Hc by (inversion Hw; assumption).
  pose proof (word_range c Hc) as Rc.
  unfold lex_one. cbv zeta. rewrite (word_not_space c Hc).
  assert ((c =? 34) || (c =? 39) = false) as -> by lia.
  rewrite (span_all is_word_dot (c :: r)) by (eapply Forall_impl; [|exact Hw]; cbn; intros a Ha; unfold is_word_dot; rewrite Ha; reflexivity).
  cbn [fst]. rewrite skipn_all. cbn [hd_is]. rewrite Bool.andb_false_r.
  assert (hd_is 40 (skipn (length (fst (span is_alpha_dot (c :: r)))) (c :: r)) = false) as ->
    by (apply hd_is_word; [reflexivity|apply forall_skipn; exact Hw]).
  rewrite Bool.andb_false_r.
  assert ((c =? 35) = false) as -> by lia. assert ((c =? 36) = false) as -> by lia.
  assert (hd_is 36 (skipn (length (fst (span is_alpha (c :: r)))) (c :: r)) = false) as ->
    by (apply hd_is_word; [reflexivity|apply forall_skipn; exact Hw]).
  rewrite Bool.andb_false_r.
  unfold cell_prefixed in Hcp. rewrite Hcp.
  rewrite (span_all is_word (c :: r)) by exact Hw. cbn [fst].
  destruct Hshape as [[Ha Hr]|Hus].
  - rewrite Ha. destruct r as [|d r']; [congruence|]. cbn [length]. 
    assert ((2 <=? Z.of_nat (S (S (length r')))) = true) as -> by lia. reflexivity.
  - rewrite (span_all is_alpha_us (c :: r)) by exact Hus. cbn [fst nonempty].
    destruct (is_alpha c && (2 <=? Z.of_nat (length (c :: r)))); reflexivity.
Qed.
Theorem name_lexes_as_variable n : good_name n -> lex n = LexOk [Tok T_VARIABLE n].
Proof.
  intros H. pose proof (lex_one_name n H) as L. destruct n as [|c r]; [destruct H as (_ & _ & F); contradiction|].
  unfold lex. cbn [length lex_all]. rewrite L. cbn [length]. cbv zeta.
  change (T_VARIABLE =? 0) with false. cbn [skipn firstn]. rewrite skipn_all, firstn_all.
  destruct (length r); reflexivity.
Qed.

(* ---------- variables ---------- *)
Lemma list_eqb_refl a : list_eqb a a = true. Proof. apply list_eqb_eq. reflexivity. Qed.
Theorem variable_set h n v : lookup_variable h n = Some v -> handed_for n (h_varset h) = [] ->
  call_variable h n = (ROk v, [EvVariable n]).
Proof. intros L S. unfold call_variable. rewrite S, L. reflexivity. Qed.
Theorem variable_latest_binding h n v rest : h_vars h = (n, v) :: rest -> lookup_variable h n = Some v.
Proof. intros E. unfold lookup_variable. rewrite E. cbn [assoc_text]. rewrite list_eqb_refl. reflexivity. Qed.
Theorem variable_predefined h : h_vars h = [] ->
  lookup_variable h [84;82;85;69] = Some (VBool true) /\ lookup_variable h [70;65;76;83;69] = Some (VBool false) /\
  lookup_variable h [78;85;76;76] = Some VBlank.
Proof. intros E. unfold lookup_variable. rewrite E. repeat split. Qed.
Theorem variable_unknown h n : lookup_variable h n = None -> handed_for n (h_varset h) = [] ->
  call_variable h n = (RRaise ENAME, [EvVariable n]).
Proof. intros L S. unfold call_variable. rewrite S, L. reflexivity. Qed.
(* the formula consisting of the name *)
Theorem variable_formula h n : good_name n ->
  parse_formula h n = (record_of (fst (call_variable h n)), snd (call_variable h n)).
Proof.
  intros G. apply (parse_formula_expr h n (XVar n)).
  - destruct n; [|congruence]. destruct G as (_ & _ & F). contradiction.
  - apply name_lexes_as_variable; exact G.
  - exact I.
Qed.

(* ---------- functions ---------- *)
Theorem custom_function_wins h name args b : assoc_text name (h_funs h) = Some b ->
  call_function h name args =
  match b with
  | BRecord => (ROk (last_non_none (handed_for name (h_funset h)) (VList args)), [EvFunction name args])
  | BIdent => match args with a :: _ => (ROk (last_non_none (handed_for name (h_funset h)) a), [EvFunction name args]) | [] => (RExc, []) end
  | BConst v => (ROk (last_non_none (handed_for name (h_funset h)) v), [EvFunction name args])
  | BRaiseXL e => (ROk (last_non_none (handed_for name (h_funset h)) (VErr e)), [EvFunction name args])
  | BRaisePy => (RExc, [])
  end.
Proof. intros E. unfold call_function. rewrite E. destruct b; reflexivity. Qed.
Theorem unknown_function h name args : assoc_text name (h_funs h) = None -> mem_text name (h_registry h) = false ->
  call_function h name args = (RRaise ENAME, []).
Proof. intros E M. unfold call_function. rewrite E, M. reflexivity. Qed.
(* a registered built-in is never #NAME? *)
Theorem registered_function_resolves h name args : assoc_text name (h_funs h) = None -> mem_text name (h_registry h) = true ->
  fst (call_function h name args) <> RRaise ENAME.
Proof.
  intros E M. unfold call_function. rewrite E, M. destruct (builtin name args) as [[v|e| |]|]; try destruct (h_oracle h name args) as [[v'|e'| |]|]; cbn; discriminate.
Qed.

(* ---------- expressions: an unknown name anywhere never yields a value ---------- *)
Lemma ebind_ok {A B} (x : evres A) (K : A -> evres B) b : fst (ebind x K) = ROk b ->
  exists a, fst x = ROk a /\ fst (K a) = ROk b /\ snd (ebind x K) = snd x ++ snd (K a).
Proof.
  destruct x as [[a|e| |] ev]; cbn [ebind fst snd]; try discriminate.
  destruct (K a) as [r ev'] eqn:E. cbn [fst snd]. intros ->. exists a. rewrite E. auto.
Qed.
Definition unknown_fn (h : host) (name : list Z) : Prop :=
  assoc_text name (h_funs h) = None /\ mem_text name (h_registry h) = false.
Definition unknown_var (h : host) (n : list Z) : Prop :=
  lookup_variable h n = None /\ handed_for n (h_varset h) = [].
Fixpoint has_unknown (h : host) (e : expr) : Prop :=
  match e with
  | XNum _ | XDec _ _ | XFrac _ | XPct _ | XPowLit _ _ | XStr _ | XErr _ | XCell _ _ | XRange _ _ _ _ => False
  | XVar n => unknown_var h n
  | XCall _ name args => unknown_fn h name \/
      (fix any (l : list expr) : Prop := match l with [] => False | a :: r => has_unknown h a \/ any r end) args
  | XArr _ items => (fix any (l : list expr) : Prop := match l with [] => False | a :: r => has_unknown h a \/ any r end) items
  | XArr2 _ r1 r2 => (fix any (l : list expr) : Prop := match l with [] => False | a :: r => has_unknown h a \/ any r end) r1 \/
                      (fix any (l : list expr) : Prop := match l with [] => False | a :: r => has_unknown h a \/ any r end) r2
  | XNeg e | XPar e => has_unknown h e
  | XBin _ l r => has_unknown h l \/ has_unknown h r
  end.
Definition any_unknown (h : host) : list expr -> Prop :=
  fix any (l : list expr) : Prop := match l with [] => False | a :: r => has_unknown h a \/ any r end.

Lemma xvals_ok h l vs : fst (xvals (xval h) l) = ROk vs ->
  Forall (fun a => exists v, fst (xval h a) = ROk v) l /\ length vs = length l.
Proof.
  revert vs. induction l as [|a l IH]; intros vs H.
  - cbn in H. inversion H. split; [constructor|reflexivity].
  - rewrite xvals_cons in H. apply ebind_ok in H. destruct H as (v & Ha & H & _).
    apply ebind_ok in H. destruct H as (ws & Hl & H & _). cbn in H. inversion H; subst.
    destruct (IH ws Hl) as [F L]. split; [constructor; eauto|cbn; lia].
Qed.
Lemma any_unknown_never h l vs : Forall (fun e => has_unknown h e -> forall v, fst (xval h e) <> ROk v) l ->
  any_unknown h l -> fst (xvals (xval h) l) <> ROk vs.
Proof.
  intros IH U H. destruct (xvals_ok h l vs H) as [F _]. clear H.
  induction IH as [|a l Ha Hl IHl]; [contradiction|]. inversion F as [|? ? Fa Fl]; subst.
  destruct U as [U|U]; [destruct Fa as [w Fa]; exact (Ha U w Fa)|exact (IHl U Fl)].
Qed.
Theorem unknown_never_value h : forall e, has_unknown h e -> forall v, fst (xval h e) <> ROk v.
Proof.
  induction e as [d|ip fp|fp|pn|pa pb|str|xe|n|k lab|k1 l1 k2 l2|sp name args IHargs|sp items IHitems|rs row1 row2 IHr1 IHr2|e IH|b l r IHl IHr|e IH] using expr_ind'; cbn [has_unknown]; intros U v H;
    try contradiction.
  - destruct U as [L S]. cbn [xval] in H. rewrite (variable_unknown h n L S) in H. discriminate.
  - change (unknown_fn h name \/ any_unknown h args) in U. cbn [xval] in H.
    apply ebind_ok in H. destruct H as (vs & Hargs & Hcall & _). destruct U as [[A B]|U].
    + rewrite (unknown_function h name vs A B) in Hcall. discriminate.
    + destruct (xvals_ok h args vs Hargs) as [F _]. clear Hargs Hcall.
      induction IHargs as [|a l Ha Hl IHl]; [contradiction|]. inversion F as [|? ? Fa Fl]; subst.
      destruct U as [U|U]; [destruct Fa as [w Fa]; exact (Ha U w Fa)|exact (IHl U Fl)].
  - change (any_unknown h items) in U. cbn [xval] in H.
    apply ebind_ok in H. destruct H as (vs & Hitems & _ & _).
    destruct (xvals_ok h items vs Hitems) as [F _]. clear Hitems.
    induction IHitems as [|a l Ha Hl IHl]; [contradiction|]. inversion F as [|? ? Fa Fl]; subst.
    destruct U as [U|U]; [destruct Fa as [w Fa]; exact (Ha U w Fa)|exact (IHl U Fl)].
  - change (any_unknown h row1 \/ any_unknown h row2) in U. cbn [xval] in H.
    apply ebind_ok in H. destruct H as (vs1 & H1 & H & _). apply ebind_ok in H. destruct H as (vs2 & H2 & _ & _).
    destruct U as [U|U]; [exact (any_unknown_never h row1 vs1 IHr1 U H1)|exact (any_unknown_never h row2 vs2 IHr2 U H2)].
  - cbn [xval] in H. apply ebind_ok in H. destruct H as (w & Hw & _). exact (IH U w Hw).
  - cbn [xval] in H. apply ebind_ok in H. destruct H as (lv & Hl & H & _). apply ebind_ok in H. destruct H as (rv & Hr & _).
    destruct U as [U|U]; [exact (IHl U lv Hl)|exact (IHr U rv Hr)].
  - cbn [xval] in H. exact (IH U v H).
Qed.
(* ... and a call of an unknown function whose arguments evaluate is #NAME?, raised when the call is reduced *)
Theorem unknown_call_is_name h sp name args vs evs : unknown_fn h name -> xvals (xval h) args = (ROk vs, evs) ->
  xval h (XCall sp name args) = (RRaise ENAME, evs).
Proof. intros [A B] H. cbn [xval]. rewrite H. cbn [ebind]. rewrite (unknown_function h name vs A B). rewrite app_nil_r. reflexivity. Qed.

(* ---------- C10: exactly one event per reference, post-order, left to right ---------- *)
Inductive ref := RVar (n : list Z) | RCell (label : list Z) | RRange | RCall (name : list Z) (nargs : nat).
Definition ref_of (e : event) : ref :=
  match e with
  | EvFunction n args => RCall n (length args) | EvVariable n => RVar n
  | EvCell l _ _ _ _ => RCell l | EvRange _ _ _ _ _ _ => RRange
  end.
Fixpoint refs (e : expr) : list ref :=
  match e with
  | XNum _ | XDec _ _ | XFrac _ | XPct _ | XPowLit _ _ | XStr _ | XErr _ => []
  | XVar n => [RVar n]
  | XCell _ l => [RCell (upper_text l)]
  | XRange _ _ _ _ => [RRange]
  | XCall _ n args => flat_map refs args ++ [RCall n (length args)]
  | XArr _ items => flat_map refs items
  | XArr2 _ r1 r2 => flat_map refs r1 ++ flat_map refs r2
  | XNeg e | XPar e => refs e
  | XBin _ l r => refs l ++ refs r
  end.
Lemma call_function_events h name args v : fst (call_function h name args) = ROk v ->
  snd (call_function h name args) = [EvFunction name args].
Proof.
  unfold call_function. destruct (assoc_text name (h_funs h)) as [b|].
  - destruct b; cbn; try discriminate; try reflexivity. destruct args; cbn; [discriminate|reflexivity].
  - destruct (mem_text name (h_registry h)); [|cbn; discriminate].
    destruct (builtin name args) as [[w|e| |]|]; try destruct (h_oracle h name args) as [[w'|e'| |]|]; cbn; try discriminate; reflexivity.
Qed.
Lemma xvals_events h l vs : Forall (fun e => forall v, fst (xval h e) = ROk v -> map ref_of (snd (xval h e)) = refs e) l ->
  fst (xvals (xval h) l) = ROk vs -> map ref_of (snd (xvals (xval h) l)) = flat_map refs l.
Proof.
  intros IH. revert vs. induction IH as [|a l Ha Hl IHl]; intros vs H; [reflexivity|].
  rewrite xvals_cons in H |- *. apply ebind_ok in H. destruct H as (w & Hw & H2 & ->).
  apply ebind_ok in H2. destruct H2 as (ws & Hws & _ & ->). cbn [snd flat_map]. rewrite app_nil_r, map_app.
  rewrite (Ha w Hw), (IHl ws Hws). reflexivity.
Qed.
Theorem events_postorder h : forall e v, fst (xval h e) = ROk v -> map ref_of (snd (xval h e)) = refs e.
Proof.
  induction e as [d|ip fp|fp|pn|pa pb|str|xe|n|k lab|k1 l1 k2 l2|sp name args IHargs|sp items IHitems|rs row1 row2 IHr1 IHr2|e IH|b l r IHl IHr|e IH] using expr_ind'; intros v H.
  - reflexivity.
  - reflexivity.
  - reflexivity.
  - reflexivity.
  - reflexivity.
  - reflexivity.
  - reflexivity.
  - cbn [xval refs] in *. unfold call_variable in *. destruct (last_handed _ _); cbn in *; [reflexivity|discriminate].
  - cbn [xval refs] in *. unfold call_cell_value in *. destruct (extract_label (upper_text lab)) as [[row col]|]; cbn in *; [reflexivity|discriminate].
  - cbn [xval refs] in *. unfold call_range_value in *.
    destruct (extract_label (upper_text l1)) as [[r1 c1]|]; [|cbn in H; discriminate].
    destruct (extract_label (upper_text l2)) as [[r2 c2]|]; [|cbn in H; discriminate].
    destruct (p_index r1 <=? p_index r2), (p_index c1 <=? p_index c2); reflexivity.
  - cbn [xval refs] in *. apply ebind_ok in H. destruct H as (vs & Hargs & Hcall & ->).
    rewrite map_app. rewrite (call_function_events h name vs v Hcall). cbn [map ref_of].
    destruct (xvals_ok h args vs Hargs) as [_ L]. rewrite L. f_equal. clear Hcall L.
    revert vs Hargs. induction IHargs as [|a l Ha Hl IHl]; intros vs Hargs; [reflexivity|].
    rewrite xvals_cons in Hargs |- *. apply ebind_ok in Hargs. destruct Hargs as (w & Hw & H2 & ->).
    apply ebind_ok in H2. destruct H2 as (ws & Hws & _ & ->). cbn [snd flat_map]. rewrite app_nil_r, map_app.
    rewrite (Ha w Hw), (IHl ws Hws). reflexivity.
  - cbn [xval refs] in *. apply ebind_ok in H. destruct H as (vs & Hitems & _ & ->). cbn [snd]. rewrite app_nil_r.
    revert vs Hitems. induction IHitems as [|a l Ha Hl IHl]; intros vs Hitems; [reflexivity|].
    rewrite xvals_cons in Hitems |- *. apply ebind_ok in Hitems. destruct Hitems as (w & Hw & H2 & ->).
    apply ebind_ok in H2. destruct H2 as (ws & Hws & _ & ->). cbn [snd flat_map]. rewrite app_nil_r, map_app.
    rewrite (Ha w Hw), (IHl ws Hws). reflexivity.
  - cbn [xval refs] in *. apply ebind_ok in H. destruct H as (vs1 & H1 & H & ->). apply ebind_ok in H. destruct H as (vs2 & H2 & _ & ->).
    cbn [snd]. rewrite app_nil_r, map_app, (xvals_events h row1 vs1 IHr1 H1), (xvals_events h row2 vs2 IHr2 H2). reflexivity.
  - cbn [xval refs] in *. apply ebind_ok in H. destruct H as (w & Hw & _ & ->). cbn [snd]. rewrite app_nil_r. exact (IH w Hw).
  - cbn [xval refs] in *. apply ebind_ok in H. destruct H as (lv & Hl & H & ->). apply ebind_ok in H. destruct H as (rv & Hr & _ & ->).
    cbn [snd]. rewrite app_nil_r, map_app, (IHl lv Hl), (IHr rv Hr). reflexivity.
  - cbn [xval refs] in *. exact (IH v H).
Qed.
(* arguments are passed in order: the values of the call event are the values of the arguments *)
Theorem call_arguments_in_order h sp name args vs evs v : xvals (xval h) args = (ROk vs, evs) ->
  fst (call_function h name vs) = ROk v ->
  snd (xval h (XCall sp name args)) = evs ++ [EvFunction name vs].
Proof.
  intros H C. cbn [xval]. rewrite H. cbn [ebind]. pose proof (call_function_events h name vs v C) as E.
  destruct (call_function h name vs). cbn [snd] in *. rewrite E. reflexivity.
Qed.

(* ---------- C10: payloads ---------- *)
Lemma letters_upper ls : letters ls -> letters (map upper_ascii ls).
Proof.
  intros H. induction H as [|c l Hc Hl IH]; [constructor|]. cbn [map]. constructor; [|exact IH].
  unfold upper_ascii, is_alpha, is_upper, is_lower in *. destruct ((97 <=? c) && (c <=? 122)) eqn:E; lia.
Qed.
Lemma shaped_upper s ca ls ra ds : label_shaped s ca ls ra ds -> label_shaped (upper_text s) ca (map upper_ascii ls) ra ds.
Proof.
  intros (-> & Hne & Hl & Hd & Hds). unfold upper_text. rewrite (upper_label ca ls ra ds Hds).
  split; [reflexivity|]. split; [destruct ls; [congruence|discriminate]|]. split; [apply letters_upper; exact Hl|]. split; assumption.
Qed.
(* a cell event carries the upper-cased label, the zero-based row and column it denotes and its absolute markers;
   the value is the last one other than None handed to the setter, blank with no listener *)
Theorem cell_event h s ca ls ra n : label_shaped s ca ls ra (dec_text_of n) -> 1 <= n ->
  call_cell_value h s =
    (ROk (last_non_none (handed_for (upper_text s) (h_cells h)) VBlank),
     [EvCell (upper_text s) (n - 1) (col_label_to_index ls) ra ca]) /\
  upper_text s = dollar ca ++ col_index_to_label (col_label_to_index ls) ++ dollar ra ++ row_index_to_label (n - 1).
Proof.
  intros Hs Hn. pose proof (shaped_upper _ _ _ _ _ Hs) as Hu. unfold call_cell_value.
  rewrite (extract_shaped _ _ _ _ _ Hu). cbn [p_index p_abs]. rewrite col_case.
  destruct (row_rt (n - 1) ltac:(lia)) as [E1 E2]. replace (n - 1 + 1) with n in E1 by lia.
  assert (row_label_to_index (dec_text_of n) = n - 1) as RL by (rewrite <- E1; exact E2). rewrite RL.
  split; [reflexivity|].
  destruct Hs as (-> & Hne & Hl & _ & Hds). unfold upper_text. rewrite (upper_label ca ls ra _ Hds).
  rewrite (col_rt2 ls Hne Hl), E1. reflexivity.
Qed.
(* a range event carries the top-left and bottom-right corners however the corners were written; each corner label
   is the label of its coordinates *)
Theorem range_event h a ca1 ls1 ra1 n1 b ca2 ls2 ra2 n2 :
  label_shaped a ca1 ls1 ra1 (dec_text_of n1) -> 1 <= n1 -> label_shaped b ca2 ls2 ra2 (dec_text_of n2) -> 1 <= n2 ->
  let c1 := col_label_to_index ls1 in let c2 := col_label_to_index ls2 in
  exists L1 L2, call_range_value h a b =
    (ROk (last_non_none (h_ranges h) VBlank),
     [EvRange L1 (Z.min (n1 - 1) (n2 - 1)) (Z.min c1 c2) L2 (Z.max (n1 - 1) (n2 - 1)) (Z.max c1 c2)]) /\
  (exists x y, L1 = dollar x ++ col_index_to_label (Z.min c1 c2) ++ dollar y ++ row_index_to_label (Z.min (n1 - 1) (n2 - 1))) /\
  (exists x y, L2 = dollar x ++ col_index_to_label (Z.max c1 c2) ++ dollar y ++ row_index_to_label (Z.max (n1 - 1) (n2 - 1))).
Proof.
  intros Ha Hn1 Hb Hn2 c1 c2. pose proof (shaped_upper _ _ _ _ _ Ha) as Hua. pose proof (shaped_upper _ _ _ _ _ Hb) as Hub.
  unfold call_range_value. rewrite (extract_shaped _ _ _ _ _ Hua), (extract_shaped _ _ _ _ _ Hub). cbn [p_index p_abs].
  rewrite !col_case. fold c1 c2.
  destruct (row_rt (n1 - 1) ltac:(lia)) as [E1 E2]. replace (n1 - 1 + 1) with n1 in E1 by lia.
  assert (row_label_to_index (dec_text_of n1) = n1 - 1) as -> by (rewrite <- E1; exact E2).
  destruct (row_rt (n2 - 1) ltac:(lia)) as [F1 F2]. replace (n2 - 1 + 1) with n2 in F1 by lia.
  assert (row_label_to_index (dec_text_of n2) = n2 - 1) as -> by (rewrite <- F1; exact F2).
  destruct (n1 - 1 <=? n2 - 1) eqn:R, (c1 <=? c2) eqn:C; cbn [p_index p_abs];
    do 2 eexists; (split; [unfold to_label; cbn [p_index p_abs]; f_equal; f_equal; f_equal; lia|]);
    split; do 2 eexists; unfold to_label, dollar; cbn [p_index p_abs]; rewrite <- !app_assoc;
    repeat (f_equal; try lia).
Qed.
(* the same rectangle whatever corners are written and in whatever order *)
Corollary range_corner_orders h a ca1 ls1 ra1 n1 b ca2 ls2 ra2 n2 :
  label_shaped a ca1 ls1 ra1 (dec_text_of n1) -> 1 <= n1 -> label_shaped b ca2 ls2 ra2 (dec_text_of n2) -> 1 <= n2 ->
  forall r c, (exists l1 l2 r2 c2, snd (call_range_value h a b) = [EvRange l1 r c l2 r2 c2]) <->
              (exists l1 l2 r2 c2, snd (call_range_value h b a) = [EvRange l1 r c l2 r2 c2]).
Proof.
  intros Ha H1 Hb H2 r c.
  destruct (range_event h _ _ _ _ _ _ _ _ _ _ Ha H1 Hb H2) as (L1 & L2 & E & _).
  destruct (range_event h _ _ _ _ _ _ _ _ _ _ Hb H2 Ha H1) as (M1 & M2 & F & _).
  rewrite E, F. cbn [snd]. rewrite (Z.min_comm (n2 - 1)), (Z.min_comm (col_label_to_index ls2)).
  split; intros (l1 & l2 & r2 & c2 & H); inversion H; subst; do 4 eexists; reflexivity.
Qed.

(* ---------- C10: the setter ---------- *)
Theorem setter_last_wins vals v cur : v <> VBlank -> last_non_none (vals ++ [v]) cur = v.
Proof.
  intros Hv. revert cur. induction vals as [|x vals IH]; intros cur; cbn [app last_non_none].
  - destruct v; congruence.
  - destruct x; apply IH.
Qed.
Theorem setter_ignores_none vals cur : last_non_none (vals ++ [VBlank]) cur = last_non_none vals cur.
Proof. revert cur. induction vals as [|x vals IH]; intros cur; cbn [app last_non_none]; [reflexivity|]. destruct x; apply IH. Qed.
Theorem setter_no_listener cur : last_non_none [] cur = cur. Proof. reflexivity. Qed.
Theorem setter_falsy_values_count cur :
  last_non_none [VInt 0] cur = VInt 0 /\ last_non_none [VBool false] cur = VBool false /\ last_non_none [VText []] cur = VText [].
Proof. repeat split. Qed.
Theorem variable_setter_last_wins vals v cur : v <> VBlank -> last_handed (vals ++ [v]) cur = Some v.
Proof.
  intros Hv. revert cur. induction vals as [|x vals IH]; intros cur; cbn [app last_handed].
  - destruct v; congruence.
  - destruct x; apply IH.
Qed.
Theorem variable_setter_resolves h n vals v : handed_for n (h_varset h) = vals ++ [v] -> v <> VBlank ->
  call_variable h n = (ROk v, [EvVariable n]).
Proof. intros E Hv. unfold call_variable. rewrite E, (variable_setter_last_wins vals v _ Hv). reflexivity. Qed.

(* ---------- C09: the documented names (generated from SUPPORTED_FORMULAS.md and the live registry) ---------- *)
From HX Require Import Gen.Registry.
Theorem documented_registered : forallb (fun n => mem_text n registry_names) documented_names = true.
Proof. vm_compute. reflexivity. Qed.
(* the registry of the code is looked up by exact name (generated from the source shape of Dispatcher.get_for and probed
   on the live registry): the model's membership test mem_text name (h_registry h) is that lookup *)
Theorem registry_lookup_as_modelled : registry_lookup_exact = true.
Proof. vm_compute. reflexivity. Qed.
Theorem documented_resolve h name args : In name documented_names -> h_registry h = registry_names ->
  assoc_text name (h_funs h) = None -> fst (call_function h name args) <> RRaise ENAME.
Proof.
  intros Hin Hr Hf. apply registered_function_resolves; [exact Hf|]. rewrite Hr.
  pose proof documented_registered as K. rewrite forallb_forall in K. apply K, Hin.
Qed.
Definition predef_value (p : predef) : value := match p with PTrue => VBool true | PFalse => VBool false | PNone => VBlank | POther => VErr EERROR end.
Theorem predefined_as_generated :
  forallb (fun nv => match assoc_text (fst nv) predefined with
                     | Some v => match v, predef_value (snd nv) with
                                 | VBool a, VBool b => Bool.eqb a b | VBlank, VBlank => true | _, _ => false end
                     | None => false end) predefined_vars = true /\ length predefined_vars = length predefined.
Proof. split; vm_compute; reflexivity. Qed.

(* ---------- refutation: identifier-shaped names outside good_name ---------- *)
(* x1y is identifier-shaped and not shaped like a cell reference, but its prefix x1 is taken as a cell reference:
   with x1y set to 5 the formula  x1y  is a syntax error; _1 is lexed as the variable _ followed by the number 1 *)
Lemma name_not_one_token_refuted :
  let h := {| h_vars := [([120;49;121], VInt 5); ([95;49], VInt 6)]; h_funs := []; h_cells := []; h_ranges := []; h_registry := [];
              h_varset := []; h_funset := []; h_oracle := fun _ _ => None |} in
  lex [120;49;121] = LexOk [Tok T_RELATIVE_CELL [120;49]; Tok T_VARIABLE [121]] /\
  fst (parse_formula h [120;49;121]) = PError EERROR /\
  lex [95;49] = LexOk [Tok T_VARIABLE [95]; Tok T_NUMBER [49]] /\ fst (parse_formula h [95;49]) = PError EERROR.
Proof. vm_compute. repeat split; reflexivity. Qed.
