(* Calendar lemmas, part 2: ymd2ord strictly monotone (lexicographic), converse round trip,
   datetime <-> microsecond count. *)
From HX Require Import Model.Base Model.Calendar Proofs.CalendarCycle.
From Coq Require Import Lia.
Ltac Zify.zify_post_hook ::= Z.div_mod_to_equations.

(* ---------- monotonicity of ymd2ord ---------- *)
Definition leap_days (y : Z) : Z := if is_leap y then 1 else 0.

Lemma mod_100_4 y : y mod 100 = 0 -> y mod 4 = 0.
Proof.
  intros H. apply Z.mod_divide; [lia|]. apply Z.mod_divide in H; [|lia].
  destruct H as [k ->]. exists (25 * k). lia.
Qed.
Lemma mod_400_100 y : y mod 400 = 0 -> y mod 100 = 0.
Proof.
  intros H. apply Z.mod_divide; [lia|]. apply Z.mod_divide in H; [|lia].
  destruct H as [k ->]. exists (4 * k). lia.
Qed.

Lemma dby_succ y : days_before_year (y + 1) = days_before_year y + 365 + leap_days y.
Proof.
  unfold days_before_year, leap_days, is_leap. cbv zeta. replace (y + 1 - 1) with y by lia.
  assert (y / 4 = (y - 1) / 4 + (if y mod 4 =? 0 then 1 else 0)) as A4
    by (destruct (y mod 4 =? 0) eqn:?; lia).
  assert (y / 100 = (y - 1) / 100 + (if y mod 100 =? 0 then 1 else 0)) as A100
    by (destruct (y mod 100 =? 0) eqn:?; lia).
  assert (y / 400 = (y - 1) / 400 + (if y mod 400 =? 0 then 1 else 0)) as A400
    by (destruct (y mod 400 =? 0) eqn:?; lia).
  rewrite A4, A100, A400. clear A4 A100 A400.
  destruct (y mod 4 =? 0) eqn:E4; destruct (y mod 100 =? 0) eqn:E100; destruct (y mod 400 =? 0) eqn:E400;
    cbn [andb orb negb]; lia.
Qed.

Lemma dby_mono y y' : y < y' -> days_before_year y + 365 + leap_days y <= days_before_year y'.
Proof.
  intros H. rewrite <- dby_succ.
  assert (forall k : nat, days_before_year (y + 1) <= days_before_year (y + 1 + Z.of_nat k)) as X.
  { induction k as [|k IH]; [replace (y + 1 + Z.of_nat 0) with (y + 1) by lia; lia|].
    rewrite Nat2Z.inj_succ. replace (y + 1 + Z.succ (Z.of_nat k)) with (y + 1 + Z.of_nat k + 1) by lia.
    rewrite (dby_succ (y + 1 + Z.of_nat k)). unfold leap_days. destruct (is_leap _); lia. }
  specialize (X (Z.to_nat (y' - (y + 1)))). rewrite Z2Nat.id in X by lia.
  replace (y + 1 + (y' - (y + 1))) with y' in X by lia. exact X.
Qed.

Ltac calc := cbn [dbm_tab dim_tab Z.eqb Z.ltb Z.compare Pos.eqb Pos.compare Pos.compare_cont andb orb negb] in *.

Ltac lit_succ := repeat match goal with |- context [Zpos ?a + 1] =>
  let v := eval vm_compute in (Zpos a + 1) in change (Zpos a + 1) with v end.

Lemma month_cases m : 1 <= m <= 12 ->
  m = 1 \/ m = 2 \/ m = 3 \/ m = 4 \/ m = 5 \/ m = 6 \/ m = 7 \/ m = 8 \/ m = 9 \/ m = 10 \/ m = 11 \/ m = 12.
Proof. lia. Qed.

Lemma valid_ymd_inv y m d : valid_ymd y m d = true -> 1 <= m <= 12 /\ 1 <= d <= days_in_month y m.
Proof. unfold valid_ymd. lia. Qed.

(* day of year lies in the year *)
Lemma doy_range y m d : valid_ymd y m d = true ->
  1 <= days_before_month y m + d <= 365 + leap_days y.
Proof.
  intros H. apply valid_ymd_inv in H as [Hm Hd]. unfold days_before_month, days_in_month, leap_days in *.
  destruct (is_leap y); destruct (month_cases m Hm) as [->|[->|[->|[->|[->|[->|[->|[->|[->|[->|[->| ->]]]]]]]]]]];
    calc; lia.
Qed.

(* end of month m = beginning of month m+1 *)
Lemma dbm_next y m : 1 <= m <= 11 -> days_before_month y m + days_in_month y m = days_before_month y (m + 1).
Proof.
  intros Hm. unfold days_before_month, days_in_month.
  assert (1 <= m <= 12) as Hm' by lia.
  destruct (is_leap y); destruct (month_cases m Hm') as [->|[->|[->|[->|[->|[->|[->|[->|[->|[->|[->| ->]]]]]]]]]]];
    lit_succ; calc; lia.
Qed.

Lemma dbm_mono y m m' : 1 <= m -> m < m' -> m' <= 12 ->
  days_before_month y m + days_in_month y m <= days_before_month y m'.
Proof.
  intros H1 H2 H3. rewrite dbm_next by lia.
  assert (forall k : nat, m + 1 + Z.of_nat k <= 12 ->
            days_before_month y (m + 1) <= days_before_month y (m + 1 + Z.of_nat k)) as X.
  { induction k as [|k IH]; intros Hk; [replace (m + 1 + Z.of_nat 0) with (m + 1) by lia; lia|].
    rewrite Nat2Z.inj_succ in *. replace (m + 1 + Z.succ (Z.of_nat k)) with (m + 1 + Z.of_nat k + 1) by lia.
    rewrite <- (dbm_next y (m + 1 + Z.of_nat k)) by lia. specialize (IH ltac:(lia)).
    assert (0 <= days_in_month y (m + 1 + Z.of_nat k)).
    { unfold days_in_month. destruct ((m + 1 + Z.of_nat k =? 2) && is_leap y); [lia|].
      assert (1 <= m + 1 + Z.of_nat k <= 12) as Hc by lia.
      destruct (month_cases _ Hc) as [Hq|[Hq|[Hq|[Hq|[Hq|[Hq|[Hq|[Hq|[Hq|[Hq|[Hq|Hq]]]]]]]]]]]; rewrite Hq; calc; lia. }
    lia. }
  specialize (X (Z.to_nat (m' - (m + 1)))). rewrite Z2Nat.id in X by lia.
  replace (m + 1 + (m' - (m + 1))) with m' in X by lia. apply X. lia.
Qed.

Definition ymd_lt (y m d y' m' d' : Z) : Prop :=
  y < y' \/ (y = y' /\ (m < m' \/ (m = m' /\ d < d'))).

Theorem ymd2ord_mono y m d y' m' d' :
  valid_ymd y m d = true -> valid_ymd y' m' d' = true ->
  ymd_lt y m d y' m' d' -> ymd2ord y m d < ymd2ord y' m' d'.
Proof.
  intros V V' H. unfold ymd2ord.
  pose proof (doy_range _ _ _ V). pose proof (doy_range _ _ _ V').
  destruct H as [H|[-> [H|[-> H]]]].
  - pose proof (dby_mono _ _ H). lia.
  - apply valid_ymd_inv in V as [? ?]. apply valid_ymd_inv in V' as [? ?].
    pose proof (dbm_mono y' m m' ltac:(lia) H ltac:(lia)). lia.
  - lia.
Qed.

Theorem ymd2ord_injective y m d y' m' d' :
  valid_ymd y m d = true -> valid_ymd y' m' d' = true ->
  ymd2ord y m d = ymd2ord y' m' d' -> (y, m, d) = (y', m', d').
Proof.
  intros V V' E.
  destruct (Z.lt_trichotomy y y') as [H|[->|H]].
  - pose proof (ymd2ord_mono _ _ _ _ _ _ V V' (or_introl H)). lia.
  - destruct (Z.lt_trichotomy m m') as [H|[->|H]].
    + pose proof (ymd2ord_mono _ _ _ _ _ _ V V' (or_intror (conj eq_refl (or_introl H)))). lia.
    + unfold ymd2ord in E. f_equal. lia.
    + pose proof (ymd2ord_mono _ _ _ _ _ _ V' V (or_intror (conj eq_refl (or_introl H)))). lia.
  - pose proof (ymd2ord_mono _ _ _ _ _ _ V' V (or_introl H)). lia.
Qed.

Lemma dby_nonneg y : 1 <= y -> 0 <= days_before_year y.
Proof. intros H. unfold days_before_year. cbv zeta. lia. Qed.

Lemma ymd2ord_pos y m d : 1 <= y -> valid_ymd y m d = true -> 1 <= ymd2ord y m d.
Proof. intros Hy V. unfold ymd2ord. pose proof (doy_range _ _ _ V). pose proof (dby_nonneg y Hy). lia. Qed.

(* the converse round trip, for every valid date of any year >= 1 *)
Theorem ymd_roundtrip y m d : 1 <= y -> valid_ymd y m d = true -> ord2ymd (ymd2ord y m d) = (y, m, d).
Proof.
  intros Hy V. pose proof (ord_roundtrip (ymd2ord y m d) (ymd2ord_pos _ _ _ Hy V)) as G.
  unfold good in G. destruct (ord2ymd (ymd2ord y m d)) as [[y' m'] d']. destruct G as (E & V' & _).
  apply ymd2ord_injective; assumption.
Qed.

(* ---------- datetime <-> microseconds ---------- *)
Lemma valid_dt_inv t : valid_dt t = true ->
  1 <= dyear t <= 9999 /\ valid_ymd (dyear t) (dmonth t) (dday t) = true /\
  0 <= dhour t <= 23 /\ 0 <= dminute t <= 59 /\ 0 <= dsecond t <= 59 /\ 0 <= dmicro t <= 999999.
Proof.
  unfold valid_dt. intros H. repeat (apply andb_prop in H; destruct H as [H ?]).
  repeat split; try lia; assumption.
Qed.

Lemma us_of_day_range t : valid_dt t = true -> 0 <= us_of_day t < us_per_day.
Proof. intros H. apply valid_dt_inv in H. unfold us_of_day, us_per_day. lia. Qed.

Theorem of_to_us t : valid_dt t = true -> of_us (to_us t) = t.
Proof.
  intros V. pose proof (us_of_day_range t V) as R. pose proof (valid_dt_inv t V) as (Hy & Vd & Hh & Hmi & Hs & Hu).
  unfold of_us, to_us.
  replace ((ymd2ord (dyear t) (dmonth t) (dday t) * us_per_day + us_of_day t) / us_per_day)
    with (ymd2ord (dyear t) (dmonth t) (dday t)).
  2:{ rewrite Z.add_comm, Z.div_add by (unfold us_per_day; lia). rewrite Z.div_small by exact R. lia. }
  replace ((ymd2ord (dyear t) (dmonth t) (dday t) * us_per_day + us_of_day t) mod us_per_day)
    with (us_of_day t).
  2:{ rewrite Z.add_comm, Z.mod_add by (unfold us_per_day; lia). rewrite Z.mod_small by exact R. reflexivity. }
  rewrite ymd_roundtrip by (try lia; exact Vd).
  destruct t as [y m d h mi s u]. cbn [dyear dmonth dday dhour dminute dsecond dmicro] in *.
  unfold us_of_day. cbn [dhour dminute dsecond dmicro]. f_equal; lia.
Qed.

Theorem to_of_us u : us_per_day <= u -> to_us (of_us u) = u.
Proof.
  intros Hu. unfold of_us. set (ord := u / us_per_day). set (r := u mod us_per_day).
  assert (1 <= ord) by (subst ord; unfold us_per_day in *; lia).
  pose proof (ord_roundtrip ord ltac:(assumption)) as G. unfold good in G.
  destruct (ord2ymd ord) as [[y m] d]. destruct G as (E & _ & _).
  unfold to_us, us_of_day. cbn [dyear dmonth dday dhour dminute dsecond dmicro]. rewrite E.
  assert (0 <= r < us_per_day) by (subst r; apply Z.mod_pos_bound; unfold us_per_day; lia).
  assert (u = ord * us_per_day + r) by (subst ord r; unfold us_per_day; lia).
  unfold us_per_day in *. lia.
Qed.

Lemma of_us_valid u : us_per_day <= u -> u < ymd2ord 10000 1 1 * us_per_day -> valid_dt (of_us u) = true.
Proof.
  intros Hu Hhi. unfold of_us. set (ord := u / us_per_day). set (r := u mod us_per_day).
  assert (1 <= ord) by (subst ord; unfold us_per_day in *; lia).
  assert (ord < ymd2ord 10000 1 1).
  { subst ord. apply Z.div_lt_upper_bound; [unfold us_per_day; lia|]. lia. }
  pose proof (ord_roundtrip ord ltac:(assumption)) as G. unfold good in G.
  destruct (ord2ymd ord) as [[y m] d]. destruct G as (E & V & Hy).
  assert (0 <= r < us_per_day) by (subst r; apply Z.mod_pos_bound; unfold us_per_day; lia).
  assert (y <= 9999).
  { destruct (Z_le_gt_dec y 9999); [assumption|]. exfalso.
    assert (valid_ymd 10000 1 1 = true) as V1 by reflexivity.
    destruct (Z.eq_dec y 10000) as [->|Hne].
    - pose proof (doy_range 10000 m d V) as Hd.
      unfold ymd2ord in *. change (days_before_month 10000 1) with 0 in *. clear - H0 E Hd. destruct Hd as [Hd _]. revert H0 E Hd.
      generalize (days_before_year 10000) (days_before_month 10000 m) ord. clear. intros. lia.
    - assert (10000 < y) as Hlt by (clear - g Hne; lia).
      pose proof (ymd2ord_mono 10000 1 1 y m d V1 V (or_introl Hlt)) as Hm.
      clear - Hm E H0. lia. }
  unfold valid_dt. cbn [dyear dmonth dday dhour dminute dsecond dmicro]. rewrite V.
  unfold us_per_day in *. repeat (apply andb_true_intro; split); lia.
Qed.

(* Python's ordering of datetimes is lexicographic on the fields; to_us respects it *)
Definition dt_lt (a b : datetime) : Prop :=
  ymd_lt (dyear a) (dmonth a) (dday a) (dyear b) (dmonth b) (dday b) \/
  ((dyear a, dmonth a, dday a) = (dyear b, dmonth b, dday b) /\
   (dhour a < dhour b \/ (dhour a = dhour b /\ (dminute a < dminute b \/ (dminute a = dminute b /\
   (dsecond a < dsecond b \/ (dsecond a = dsecond b /\ dmicro a < dmicro b))))))).

Theorem to_us_mono a b : valid_dt a = true -> valid_dt b = true -> dt_lt a b -> to_us a < to_us b.
Proof.
  intros Va Vb H. pose proof (us_of_day_range a Va). pose proof (us_of_day_range b Vb).
  pose proof (valid_dt_inv a Va) as (_ & Vda & ? & ? & ? & ?).
  pose proof (valid_dt_inv b Vb) as (_ & Vdb & ? & ? & ? & ?).
  unfold to_us. destruct H as [H|[E H]].
  - pose proof (ymd2ord_mono _ _ _ _ _ _ Vda Vdb H). unfold us_per_day in *. lia.
  - inversion E as [[E1 E2 E3]]. rewrite E1, E2, E3. unfold us_of_day. lia.
Qed.
