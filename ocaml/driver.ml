(* Generic correspondence driver.  One case per input line:
     <entry> <arg> <arg> ...      (signed hexadecimal integers, space separated)
   One result line per case, same number syntax.  All model computation is the
   extracted Coq code (Model.dispatch); this file only converts numerals. *)
open Model

let hexval c =
  match c with
  | '0'..'9' -> Char.code c - 48
  | 'a'..'f' -> Char.code c - 87
  | 'A'..'F' -> Char.code c - 55
  | _ -> failwith "bad hex digit"

let z_of_string (s : string) : z =
  let n = String.length s in
  let neg = n > 0 && s.[0] = '-' in
  let p = ref None in
  for i = (if neg then 1 else 0) to n - 1 do
    let d = hexval s.[i] in
    for b = 3 downto 0 do
      let bit = (d lsr b) land 1 = 1 in
      p := (match !p with
            | None -> if bit then Some XH else None
            | Some q -> Some (if bit then XI q else XO q))
    done
  done;
  match !p with
  | None -> Z0
  | Some q -> if neg then Zneg q else Zpos q

let string_of_pos (p : positive) : string =
  (* bits, least significant first *)
  let rec bits p acc = match p with
    | XH -> true :: acc
    | XO q -> bits q (false :: acc)
    | XI q -> bits q (true :: acc) in
  let msb_first = bits p [] in        (* acc reverses: msb first *)
  let nb = List.length msb_first in
  let pad = (4 - nb mod 4) mod 4 in
  let padded = (List.init pad (fun _ -> false)) @ msb_first in
  let buf = Buffer.create (nb / 4 + 2) in
  let rec go l = match l with
    | a :: b :: c :: d :: r ->
        let v = (if a then 8 else 0) + (if b then 4 else 0) + (if c then 2 else 0) + (if d then 1 else 0) in
        Buffer.add_char buf "0123456789abcdef".[v]; go r
    | [] -> ()
    | _ -> failwith "impossible" in
  go padded; Buffer.contents buf

let string_of_z (x : z) : string =
  match x with
  | Z0 -> "0"
  | Zpos p -> string_of_pos p
  | Zneg p -> "-" ^ string_of_pos p

let () =
  let out = Buffer.create 65536 in
  (try
    while true do
      let line = input_line stdin in
      let parts = List.filter (fun s -> s <> "") (String.split_on_char ' ' line) in
      (match parts with
       | [] -> Buffer.add_char out '\n'
       | e :: args ->
          let res = dispatch (z_of_string e) (List.map z_of_string args) in
          Buffer.add_string out (String.concat " " (List.map string_of_z res));
          Buffer.add_char out '\n');
      if Buffer.length out > 60000 then (print_string (Buffer.contents out); Buffer.clear out)
    done
  with End_of_file -> ());
  print_string (Buffer.contents out)
