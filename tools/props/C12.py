# -*- coding: utf-8 -*-
"""C12 - logical functions and type predicates.  Model: coq/Model/Logic.v.  Theorems: Properties/C12.v."""
import datetime
import itertools

from common import Result, pmap, compare, enc_value, dec_outcome, call_outcome, canon_py, thaw, ERR

ID = 'C12'
COQ_FILES = ['Properties/C12.v', 'Proofs/LogicProofs.v', 'Proofs/LogicAlgebra.v', 'Proofs/LogicSource.v', 'Model/LogicShape.v', 'Gen/LogicFns.v', 'Proofs/PredSource.v', 'Model/PredShape.v', 'Gen/PredFns.v', 'Proofs/ValueProofs.v']
TRUSTED = [
    'Gen/LogicFns.v is regenerated on every run by tools/gen/logicshape.py (python ast, fail-closed) from AND/OR/XOR/NOT/IF '
    'and _first_error of formulas/logic.py; Model/LogicShape.v gives the shapes their meaning by hand (utils.flatten = '
    'flatten_args, all/any/sum(bool)&1, not, conditional expression)',
    'Gen/PredFns.v is regenerated on every run by tools/gen/predshape.py (python ast, fail-closed) from the IS* predicates of '
    'formulas/information.py and the class tuples of hotxlfp/_compat; Model/PredShape.v gives isinstance / is None / == '
    'error.X / int(x) & 1 their meaning on model values by hand (XLError compares by identity, the constants are canonical; '
    'complex numbers are outside the model)',
    'modelled, not verified: Python truthiness, ==, all/any/sum, isinstance on the value classes int, float, bool, str, '
    'None, XLError, datetime, list (Model/Value.v); floats are the exact rationals they denote',
]
EXPLANATION = ('Coq theorems over a transcription of logic.py and the IS* predicates for argument lists of ANY length and '
               'nesting: AND/OR/XOR = conjunction/disjunction/parity over the flattened leaves (flattening = leaves left to '
               'right, invariant under regrouping), NOT, IF, IFS = first true pair else #N/A, SWITCH = first equal case '
               'else default else #N/A, an error in a tested condition is the result, predicates are exclusive and exact, '
               'ISNONTEXT = not ISTEXT, ISERROR = ISERR or ISNA, ISEVEN/ISODD = parity of the integer part, complementary. '
               'Tied to the code by exhaustive small tuples over a value pool (direct calls) and by an independent oracle '
               'through Parser.parse.')
ASSUMPTIONS = ['arguments are ints, floats, logicals, blanks, text, errors, dates and (nested) lists of those']

FN = {'AND': 0, 'OR': 1, 'XOR': 2, 'NOT': 3, 'IF': 4, 'IFS': 5, 'SWITCH': 6, 'ISNUMBER': 10, 'ISTEXT': 11, 'ISLOGICAL': 12,
      'ISBLANK': 13, 'ISERROR': 14, 'ISERR': 15, 'ISNA': 16, 'ISNONTEXT': 17, 'ISEVEN': 18, 'ISODD': 19}
PREDS = ['ISNUMBER', 'ISTEXT', 'ISLOGICAL', 'ISBLANK', 'ISERROR', 'ISERR', 'ISNA', 'ISNONTEXT', 'ISEVEN', 'ISODD']


def gen(ctx):
    import os
    import sys
    from common import VERIF
    sys.path.insert(0, os.path.join(VERIF, 'tools', 'gen'))
    import logicshape
    root = os.environ.get('VERIF_SNAPSHOT', '/repo')
    ch, ok, notes = logicshape.write(os.path.join(VERIF, 'coq', 'Gen', 'LogicFns.v'), root)
    import predshape
    ch2, ok2, notes2 = predshape.write(os.path.join(VERIF, 'coq', 'Gen', 'PredFns.v'), root)
    return {'Gen/LogicFns.v': ('regenerated (changed)' if ch else 'regenerated (identical to the committed baseline)')
            + ('' if ok else '; NOT UNDERSTOOD: ' + '; '.join(notes)),
            'Gen/PredFns.v': ('regenerated (changed)' if ch2 else 'regenerated (identical to the committed baseline)')
            + ('' if ok2 else '; NOT UNDERSTOOD: ' + '; '.join(notes2))}


def errs():
    """frozen error values (see common.thaw)"""
    return dict((c, ERR(c)) for c in ('#DIV/0!', '#N/A', '#VALUE!', '#NUM!', '#REF!', '#NAME?', '#NULL!', '#ERROR!',
                                      '#GETTING_DATA'))


# value specs: (python value builder, formula text)
def spec_pool():
    E = errs()
    return [(True, 'TRUE'), (False, 'FALSE'), (0, '0'), (1, '1'), (2, '2'), (-1, '-1'), (0.0, '0.0'), (0.5, '0.5'),
            (None, 'NULL'), (E['#DIV/0!'], '1/0'), (E['#N/A'], 'NA()'), (1e-16, '1/10^16'), (0.1 + 0.2 - 0.3, '(0.1+0.2-0.3)')]


def registry(name):
    from hotxlfp import formulas
    return formulas.get_for(name)


def _impl_call(c):
    name, args = c
    return call_outcome(registry(name), thaw(args))


def enc_case(c):
    name, args = c
    out = [FN[name], len(args)]
    for a in thaw(args):
        out += enc_value(a)
    return out


def eq_outcome(model, impl):
    return dec_outcome(model) == impl


# ---------------- oracle: the property's reading, independent of the model ----------------
def is_error(v):
    from hotxlfp.formulas.error import XLError
    return isinstance(v, XLError)


def leaves(v):
    if isinstance(v, (list, tuple)):
        for x in v:
            for y in leaves(x):
                yield y
    else:
        yield v


def truth(v):
    if v is True or v is False:
        return v
    if v is None:
        return False
    return v != 0


def expected(name, args):
    """expected value by the property statement; None = not specified"""
    from hotxlfp.formulas import error
    if name in ('AND', 'OR', 'XOR'):
        ls = list(leaves(args))
        for x in ls:
            if is_error(x):
                return x
        ts = [truth(x) for x in ls]
        return all(ts) if name == 'AND' else (any(ts) if name == 'OR' else (sum(ts) % 2 == 1))
    if name == 'NOT':
        return args[0] if is_error(args[0]) else (not truth(args[0]))
    if name == 'IF':
        return args[0] if is_error(args[0]) else (args[1] if truth(args[0]) else args[2])
    if name == 'IFS':
        for i in range(0, len(args) - 1, 2):
            if is_error(args[i]):
                return args[i]
            if truth(args[i]):
                return args[i + 1]
        return error.NOT_AVAILABLE
    if name == 'SWITCH':
        t, rest = args[0], list(args[1:])
        default = rest.pop() if len(rest) % 2 == 1 else error.NOT_AVAILABLE
        num = (int, float)      # "equal" is Python equality: logicals and numbers compare by numeric value (1 = TRUE = 1.0)
        for i in range(0, len(rest), 2):
            c = rest[i]
            if (isinstance(t, num) and isinstance(c, num) and t == c) or (type(c) is type(t) and not isinstance(t, num) and c == t) \
                    or (is_error(t) and c is t):
                return rest[i + 1]
        return default
    return None


def same(a, b):
    return canon_py(a) == canon_py(b)


def check_formula(c):
    """c = (name, [ (value, text) specs ]) -> evaluate NAME(texts) through Parser.parse and compare with expected."""
    import hotxlfp
    name, specs = c
    args = thaw([build(s)[0] for s in specs])
    f = '%s(%s)' % (name, ','.join(build(s)[1] for s in specs))
    exp = expected(name, args)
    r = hotxlfp.Parser().parse(f)
    if is_error(exp):
        ok = r['error'] == str(exp) and r['result'] is None
    else:
        ok = r['error'] is None and same(r['result'], exp)
    return [] if ok else [(f, None, repr(exp), repr(r))]


def build(s):
    """spec: index into the pool, or ('L', [specs]) for an array literal"""
    P = spec_pool()
    if isinstance(s, int):
        return P[s]
    vs = [build(x) for x in s[1]]
    return [v for v, _ in vs], '{' + ','.join(t for _, t in vs) + '}'


def check_predicates(v_text):
    """every predicate on one value given as formula text + python value index"""
    import hotxlfp
    from hotxlfp.formulas import error
    kind, text = v_text
    p = hotxlfp.Parser()
    out = []
    res = {}
    for n in PREDS:
        r = p.parse('%s(%s)' % (n, text))
        res[n] = r['result'] if r['error'] is None else r['error']
    exp = {'ISNUMBER': kind == 'number', 'ISTEXT': kind == 'text', 'ISLOGICAL': kind == 'logical', 'ISBLANK': kind == 'blank',
           'ISERROR': kind in ('error', 'na'), 'ISNA': kind == 'na', 'ISERR': kind == 'error', 'ISNONTEXT': kind != 'text'}
    for n, e in exp.items():
        if res[n] is not e:
            out.append(('%s(%s)' % (n, text), None, e, res[n]))
    if kind == 'number':
        v = p.parse(text)['result']
        e = int(v) % 2 == 0
        if res['ISEVEN'] is not e or res['ISODD'] is not (not e):
            out.append(('ISEVEN/ISODD(%s)' % text, None, (e, not e), (res['ISEVEN'], res['ISODD'])))
    return out


def pred_values(rng):
    vals = [('number', t) for t in ['0', '1', '2', '3', '-1', '-2', '-3', '2.5', '-2.5', '3.5', '-3.5', '0.5', '-0.5', '1.0',
                                    '7/2', '0-7/2', '1e', '10^2', '50%', '123456789012345678901', '1/4', '2^60+1']]
    vals = [v for v in vals if v[1] != '1e']
    vals += [('text', t) for t in ['""', '"a"', '"1"', '"TRUE"', '" "', '"#N/A"']]
    vals += [('logical', t) for t in ['TRUE', 'FALSE', '1<2', '1=2', 'ISEVEN(2)', 'ISODD(2)', 'NOT(1)']]
    vals += [('blank', 'NULL')]
    vals += [('error', t) for t in ['1/0', 'SQRT("a")', '"a"+1', 'INDEX({1},5)', 'DEC2HEX(2^40)']]
    vals += [('na', t) for t in ['NA()', 'IFS(FALSE,1)', 'MATCH(9,{1,2},0)']]
    for _ in range(60):
        n = rng.randint(-10 ** 6, 10 ** 6)
        vals.append(('number', str(n) if n >= 0 else '0-%d' % -n))
        vals.append(('number', '%d.%d' % (abs(n), rng.randint(0, 99)) if n >= 0 else '0-%d.%d' % (-n, rng.randint(1, 99))))
    return vals


def check_law(c):
    """c = (specs, permutation): the laws of Proofs/LogicAlgebra.v asked of the implementation as nested formulas
    (order of the items irrelevant, De Morgan, XOR of two items, NOT of NOT); error-free items only."""
    import hotxlfp
    specs, perm = c
    out = []

    def ev(f):
        r = hotxlfp.Parser().parse(f)
        return r['result'] if r['error'] is None else ('ERR', r['error'])

    def flat_texts(s):
        if isinstance(s, int):
            return [spec_pool()[s][1]]
        return [t for x in s[1] for t in flat_texts(x)]
    texts = [build(s)[1] for s in specs]
    leaf_texts = [t for s in specs for t in flat_texts(s)]
    vals = list(leaves(thaw([build(s)[0] for s in specs])))
    if any(is_error(v) for v in vals) or not leaf_texts:
        return out
    ts = [truth(v) for v in vals]
    shuffled = [texts[i] for i in perm]
    for name, want in (('AND', all(ts)), ('OR', any(ts)), ('XOR', sum(ts) % 2 == 1)):
        a = ev('%s(%s)' % (name, ','.join(texts)))
        b = ev('%s(%s)' % (name, ','.join(shuffled)))
        if a is not want or b is not want:
            out.append(('%s over %s and reordered %s' % (name, texts, shuffled), None, repr(want), repr((a, b))))
    nots = ','.join('NOT(%s)' % t for t in leaf_texts)
    for f, want in (('NOT(AND(%s))' % ','.join(texts), not all(ts)), ('OR(%s)' % nots, not all(ts)),
                    ('NOT(OR(%s))' % ','.join(texts), not any(ts)), ('AND(%s)' % nots, not any(ts)),
                    ('NOT(NOT(%s))' % leaf_texts[0], ts[0])):
        g = ev(f)
        if g is not want:
            out.append((f, None, repr(want), repr(g)))
    if len(leaf_texts) >= 2:
        f = 'XOR(%s,%s)' % (leaf_texts[0], leaf_texts[1])
        g = ev(f)
        if g is not (ts[0] != ts[1]):
            out.append((f, None, repr(ts[0] != ts[1]), repr(g)))
    return out


CHECKERS = {'formula': check_formula, 'predicates': check_predicates, 'law': check_law}


def check_case(case):
    if 'formula' in case and isinstance(case['formula'], str):
        import hotxlfp
        f = case['formula']
        r = hotxlfp.Parser().parse(f)
        exp = {'AND(1/0)': '#DIV/0!', 'SWITCH(5,1,"a",5)': 5, 'ISODD(3)': True}.get(f)
        got = r['error'] if r['error'] is not None else r['result']
        if exp is not None and (got != exp or type(got) is not type(exp)):
            return [{'case': case, 'what': f, 'class': None, 'expected': repr(exp), 'observed': repr(r)}]
        return []
    for k, fn in CHECKERS.items():
        if k in case:
            c = case[k]
            if k == 'formula':
                c = (c[0], c[1])
            return [{'case': case, 'what': w, 'class': cls, 'expected': e, 'observed': g} for (w, cls, e, g) in fn(tuple(c) if k == 'predicates' else c)]
    return []


def _worker(kc):
    k, c = kc
    return [(k, c) + x for x in CHECKERS[k](c)]


def explore(ctx):
    R = Result()
    rng = ctx.rng
    E = errs()
    base = [True, False, 0, 1, 2, -1, 0.0, 0.5, -2.5, None, E['#DIV/0!'], E['#N/A']]
    extra = ['', 'a', datetime.datetime(2020, 1, 1), [], [1], [0, [True]], [[], [None]], [1, [E['#NUM!'], 2]], 3.0, 10 ** 20]
    tiny = [1e-16, -1e-300, 5e-324, 5.551115123125783e-17, 1e-15, -0.0, 1e300]      # non-zero is true however small; -0.0 is zero
    extra += tiny
    maxlen = 4 if ctx.thorough else 3
    cases = []
    # AND/OR/XOR: all tuples up to maxlen over the base pool, flat; then nested regroupings
    tuples = [t for n in range(0, maxlen + 1) for t in itertools.product(base, repeat=n)]
    if not ctx.thorough:
        tuples = [t for t in tuples if len(t) < 3 or rng.random() < 0.5]
    for t in tuples:
        for name in ('AND', 'OR', 'XOR'):
            cases.append((name, list(t)))
    for _ in range(8000 if ctx.thorough else 1500):
        n = rng.randint(1, 6)
        t = [rng.choice(base + extra) for _ in range(n)]
        # regroup a random slice into a nested array
        i = rng.randint(0, n - 1)
        j = rng.randint(i, n)
        t2 = t[:i] + [t[i:j]] + t[j:]
        if rng.random() < 0.3 and len(t2) > 1:
            t2 = [t2[:1], t2[1:]]
        for name in ('AND', 'OR', 'XOR'):
            cases.append((name, t))
            cases.append((name, t2))
    allv = base + extra
    for v in allv:
        cases.append(('NOT', [v]))
        for n in PREDS:
            cases.append((n, [v]))
    cases += [('NOT', []), ('NOT', [1, 2]), ('IF', [1]), ('IF', [1, 2]), ('IF', [1, 2, 3, 4]), ('ISTEXT', []), ('ISEVEN', [1, 2])]
    for c in base + tiny:
        for a in (7, None):
            for b in ('x', 0):
                cases.append(('IF', [c, a, b]))
    for v in tiny:
        for name in ('AND', 'OR', 'XOR'):
            cases.append((name, [v]))
            cases.append((name, [v, 0]))
            cases.append((name, [False, [v]]))
        cases.append(('IFS', [v, 'first', True, 'second']))
    for n in range(0, 7):
        for _ in range(400 if ctx.thorough else 120):
            cases.append(('IFS', [rng.choice(base) for _ in range(n)]))
            cases.append(('SWITCH', [rng.choice([0, 1, 2, True, False, 'a', None, 0.0, 1.0, 2.5]) for _ in range(n)]))
    for t in itertools.product([0, 1, True, 'a', None, 1.0, E['#N/A']], repeat=4):
        cases.append(('SWITCH', list(t)))
        cases.append(('SWITCH', list(t) + [9]))
    compare(R, ctx, 'logic', cases, enc_case, _impl_call, key=lambda c: (c[0], repr(c[1])), eq=eq_outcome)
    R.exhaustive = True  # all tuples up to the stated length over the pool
    # ---- oracle through Parser.parse
    P = spec_pool()
    work = []
    n_pool = len(P)
    tl = 3 if ctx.thorough else 2
    for n in range(1, tl + 1):
        for t in itertools.product(range(n_pool), repeat=n):
            for name in ('AND', 'OR', 'XOR'):
                work.append(('formula', (name, list(t))))
    for _ in range(4000 if ctx.thorough else 800):
        n = rng.randint(1, 6)
        t = [rng.randrange(n_pool) for _ in range(n)]
        i = rng.randint(0, n - 1)
        j = rng.randint(i + 1, n)
        t2 = t[:i] + [('L', t[i:j])] + t[j:]
        if rng.random() < 0.3:
            t2 = [('L', t2)]
        name = rng.choice(['AND', 'OR', 'XOR'])
        work.append(('formula', (name, t)))
        work.append(('formula', (name, t2)))
    for c in range(n_pool):
        work.append(('formula', ('NOT', [c])))
        for a in range(n_pool):
            work.append(('formula', ('IF', [c, a, (a + 3) % n_pool])))
    for _ in range(6000 if ctx.thorough else 1200):
        n = rng.choice([2, 4, 6, 3, 5])
        work.append(('formula', ('IFS', [rng.randrange(n_pool) for _ in range(n)])))
        m = rng.choice([3, 4, 5, 6, 7])
        work.append(('formula', ('SWITCH', [rng.choice([0, 1, 2, 3, 4, 5, 6, 7, 8]) for _ in range(m)])))
    ok_pool = [i for i in range(n_pool) if not is_error(thaw([P[i][0]])[0])]
    for _ in range(3000 if ctx.thorough else 600):
        n = rng.randint(1, 5)
        t = [rng.choice(ok_pool) for _ in range(n)]
        if rng.random() < 0.4:
            i = rng.randint(0, n - 1)
            j = rng.randint(i + 1, n)
            t = t[:i] + [('L', t[i:j])] + t[j:]
        perm = list(range(len(t)))
        rng.shuffle(perm)
        work.append(('law', (t, perm)))
    work += [('predicates', v) for v in pred_values(rng)]
    for vs in pmap(_worker, work):
        for (k, c, w, cls, e, g) in vs:
            R.violate({k: list(c)}, w, cls, e, g)
    R.evaluations += len(work)
    R.rule = ('direct calls vs model: AND/OR/XOR on all tuples of length <= %d over a 12-value pool (logicals, ints, floats, '
              'blank, two error codes) and random nested regroupings incl. text, dates, empty/nested arrays; NOT, IF, every '
              'predicate on every pool value, wrong arities; IFS/SWITCH on random lists of length 0..6 and all 4-tuples over a '
              '7-value pool (+ default). Oracle through Parser.parse: every tuple of length <= %d x AND/OR/XOR, nested '
              'regroupings, NOT, IF on all pairs, IFS/SWITCH random, predicates on numbers/text/logicals/blank/errors; the laws of '
              'Proofs/LogicAlgebra.v (reordering, De Morgan, XOR of two, NOT of NOT) as nested formulas on error-free items.'
              % (maxlen, tl))
    return R


def search(ctx, proof, res):
    R = Result()
    rng = ctx.rng
    P = spec_pool()
    n_pool = len(P)
    work = []
    for _ in range(40000):
        name = rng.choice(['AND', 'OR', 'XOR', 'IFS', 'SWITCH', 'IF', 'NOT'])
        n = {'IF': 3, 'NOT': 1}.get(name, rng.randint(1, 6))
        t = [rng.randrange(n_pool) for _ in range(n)]
        if name in ('AND', 'OR', 'XOR') and rng.random() < 0.5:
            i = rng.randint(0, n - 1)
            t = t[:i] + [('L', t[i:])]
        if name == 'SWITCH' and n < 3:
            continue
        work.append(('formula', (name, t)))
    work += [('predicates', v) for v in pred_values(rng)]
    for vs in pmap(_worker, work):
        for (k, c, w, cls, e, g) in vs:
            R.violate({k: list(c)}, w, cls, e, g)
    R.evaluations = len(work)
    return R
