# -*- coding: utf-8 -*-
"""C05 - lexical conventions.  Models: coq/Model/Lexer.v, Interp.v.  Theorems: Properties/C05.v."""
import itertools
import os
import sys

import interp
from common import Result, pmap, compare, VERIF, canon_py

ID = 'C05'
COQ_FILES = ['Properties/C05.v', 'Proofs/Separators.v', 'Proofs/LRfull.v', 'Proofs/Whitespace.v', 'Proofs/LexicalProofs.v', 'Proofs/Digits.v', 'Gen/Grammar.v']
TRUSTED = [
    'Gen/Grammar.v regenerated each run (tables, lexer rule order and regex texts compared with the ones Model/Lexer.v '
    'transcribes, the set of \\s code points of this interpreter)',
    'modelled, not verified: Python re on the 36 token regexes (hand recognisers, validated against the real ply lexer on all '
    'short strings over a class-representative alphabet), ply lexer/parser drivers, int()/float() on digit strings',
]
EXPLANATION = ('Coq theorems: integer / decimal / percent / power literals evaluate to exactly the number spelled, a quoted literal '
               'to exactly its content; white space - any amount, possibly none - at ANY subset of the token boundaries leaves the token sequence unchanged '
               'whenever the local condition on the next character holds (punctuation may be followed by anything; a number, name, cell '
               'or text by white space, an operator, a separator or a closing bracket; a function name by its parenthesis only); the three separators, chosen independently at every call of a formula of the reference grammar, never change the outcome (any number of arguments, any nesting); for every '
               'present/absent pattern of up to 6 slots the three separators agree and an accepted call passes exactly the slot '
               'list with blanks (evaluation of the real driver on the generated tables); array literal shapes; cell labels are '
               'case-insensitive. Tied to the code by the lexer correspondence (every string of length <= 3/4 over 26 class '
               'representatives + random) and formulas through Parser.parse with injected white space, all slot patterns x 3 '
               'separators, long digit strings and Unicode text.')
ASSUMPTIONS = ['string contents do not contain the delimiting quote; white space is not placed between a function name and "("']

ALPHA = list(u'aZ_1 \t.,;\\"\'()#!?$:&<>=/*%{') + [u'\xa0', u'é']


def gen(ctx):
    sys.path.insert(0, os.path.join(VERIF, 'tools', 'gen'))
    import grammar
    import registry
    a = grammar.write(os.path.join(VERIF, 'coq', 'Gen', 'Grammar.v'))
    b = registry.write(os.path.join(VERIF, 'coq', 'Gen', 'Registry.v'), os.environ.get('VERIF_SNAPSHOT', '/repo'))
    return {'Gen/Grammar.v': 'regenerated (changed)' if a else 'regenerated (identical to the committed baseline)',
            'Gen/Registry.v': 'regenerated (changed)' if b else 'regenerated (identical to the committed baseline)'}


_LEXER = None


def _impl_lex(s):
    """token kinds (generated numbering: position in lexer.tokens + 1) and lexeme lengths, then 0, or -1 if the lexer raises"""
    global _LEXER
    import ply.lex as plex
    from hotxlfp.grammarparser import lexer
    from hotxlfp.formulas import error
    if _LEXER is None:
        _LEXER = plex.lex(module=lexer)
    lx = _LEXER.clone()
    lx.input(s)
    out = []
    ids = dict((t, i + 1) for i, t in enumerate(lexer.tokens))
    try:
        while True:
            t = lx.token()
            if t is None:
                break
            out += [ids[t.type], len(t.value)]
    except error.XLError as e:
        return out + [-1] if str(e) == '#NAME?' else out + [-2]
    return out + [0]


def T(s):
    return [len(s)] + [ord(c) for c in s]


def host_case(formula, vars=None):
    return dict(formula=formula, vars=vars or [], funs=[('F', 'record', None)],
                cells=[('A1', [11]), ('B2', [22]), ('XFD1048576', [33]), ('$C$3', [44]), ('C3', [44])], ranges=[[7, 8]])


def _impl(c):
    return interp.impl_case(c)


# ---------------- oracle ----------------
def pv(f, **vars):
    import hotxlfp
    p = hotxlfp.Parser()
    p.set_function('F', lambda *a: list(a))
    for k, v in vars.items():
        p.set_variable(k, v)
    r = p.parse(f)
    return r['result'] if r['error'] is None else ('ERR', r['error'])


def check_literal(c):
    kind, a, b = c
    out = []
    if kind == 'int':
        got = pv(a)
        if got != int(a) or isinstance(got, bool) or not isinstance(got, int):
            out.append((a, None, int(a), got))
    elif kind == 'dec':
        text = a + '.' + b if a != '' else '.' + b
        got = pv(text)
        want = float((a or '0') + '.' + b)
        if got != want or not isinstance(got, float):
            out.append((text, None, want, got))
    elif kind == 'pct':
        got = pv(a + '%')
        if got != int(a) / 100:
            out.append((a + '%', None, int(a) / 100, got))
    elif kind == 'pow':
        got = pv(a + '^' + b)
        if got != int(a) ** int(b):
            out.append((a + '^' + b, None, int(a) ** int(b), got))
    elif kind == 'str':
        q = b
        got = pv(q + a + q)
        if got != a:
            out.append((q + a + q, None, a, got))
        f2 = q + a + q + '&' + q + 'x' + q
        got2 = pv(f2)
        if got2 != a + 'x':
            out.append((f2, 'backslash_before_closing_quote' if a.endswith('\\') else None, a + 'x', got2))
    return out


WS = [' ', '\t', '\n', u'\xa0', u' ', '  ', ' \t ', '\r\n']


def check_whitespace(c):
    """tokens: list of token texts of a formula; FUNCTION tokens are written together with their '('"""
    toks, seed = c
    import random
    rng = random.Random(seed)
    base = ''.join(toks)
    want = canon_py(pv(base)) if not isinstance(pv(base), tuple) else pv(base)
    out = []
    for _ in range(4):
        s = rng.choice(['', rng.choice(WS)])
        for i, t in enumerate(toks):
            s += t
            if rng.random() < 0.6 or i == len(toks) - 1:
                s += rng.choice(WS)
        got = pv(s)
        got = canon_py(got) if not isinstance(got, tuple) else got
        if got != want:
            out.append(('%r vs %r' % (base, s), None, want, got))
    return out


def check_slots(pat):
    """present/absent pattern: the three separators agree; an accepted call passes the slot list"""
    out = []
    res = []
    for sep in (',', ';', '\\'):
        f = 'F(' + sep.join(str(i + 1) if b else '' for i, b in enumerate(pat)) + ')'
        res.append((f, pv(f)))
    want = [i + 1 if b else None for i, b in enumerate(pat)]
    if len(pat) == 1 and not pat[0]:
        want = []
    if not (res[0][1] == res[1][1] == res[2][1]):
        out.append(('separators disagree on pattern %r' % (pat,), None, res[0], res[1:]))
    for f, r in res:
        if not isinstance(r, tuple) and r != want:
            out.append((f, None, want, r))
    return out


def check_misc(_):
    out = []
    for f, want in (('{1,2,3}', [1, 2, 3]), ('{1;2;3}', [1, 2, 3]), ('{1\\2\\3}', [1, 2, 3]), ('{1,2;3,4}', [[1, 2], [3, 4]]),
                    ('{1\\2;3\\4}', [[1, 2], [3, 4]]), ('{"a",1}', ['a', 1])):
        got = pv(f)
        if got != want:
            out.append((f, None, want, got))
    import hotxlfp
    for lab in ('a1', 'A1', 'xfd1048576', 'XfD1048576', '$c$3', '$C$3', 'c$3'):
        seen = []
        p = hotxlfp.Parser()
        p.on('callCellValue', lambda cell, done: (seen.append(cell.label), done(5)))
        r = p.parse(lab)
        if r['result'] != 5 or seen != [lab.upper()]:
            out.append(('cell reference %s' % lab, None, (5, [lab.upper()]), (r, seen)))
        seen2 = []
        p2 = hotxlfp.Parser()
        p2.on('callRangeValue', lambda s, e, done: seen2.append((s.label, e.label)))
        p2.parse(lab + ':' + lab.swapcase())
        if seen2 != [(lab.upper(), lab.upper())]:
            out.append(('range %s:%s' % (lab, lab.swapcase()), None, (lab.upper(), lab.upper()), seen2))
    return out


SNIPS = [('1', 1), ('{3;4}', [3, 4]), ('{3,4}', [3, 4]), ('{5}', [5]), ('"t"', 't'), ('F(7;8)', [7, 8]), ('{1,2;3,4}', [[1, 2], [3, 4]]), ('x', 5),
         ('F({1,2},9)', [[1, 2], 9]), ('{1\\2}', [1, 2]), ('","', ','), ('";"', ';'), ("';'", ';'), ('", "', ', ')]


def slotval_formulas(idx):
    return ['F(' + sep.join(SNIPS[i][0] for i in idx) + ')' for sep in (',', ';', '\\')]


def check_slotvals(idx):
    """argument slots holding arrays, texts, calls and variables (not only numbers): one argument per slot, in order, whatever
    the separator"""
    out = []
    want = [SNIPS[i][1] for i in idx]
    res = [(f, pv(f, x=5)) for f in slotval_formulas(idx)]
    if not (res[0][1] == res[1][1] == res[2][1]):
        out.append(('separators disagree on %s' % res[0][0], None, res[0], res[1:]))
    for f, r in res:
        if r != want:
            out.append((f, None, want, r))
    return out


CHECKERS = {'literal': check_literal, 'whitespace': check_whitespace, 'slots': check_slots, 'misc': check_misc, 'slotvals': check_slotvals}


def check_case(case):
    if 'formula' in case:
        f = case['formula']
        want = {'57%': 0.57, 'F(1,",")': [1, ',']}.get(f)
        got = pv(f)
        return [] if want is None or got == want else [{'case': case, 'what': f, 'class': None, 'expected': want, 'observed': got}]
    for k, fn in CHECKERS.items():
        if k in case:
            c = case[k]
            return [{'case': case, 'what': w, 'class': cls, 'expected': repr(e), 'observed': repr(g)}
                    for (w, cls, e, g) in fn(tuple(c) if isinstance(c, list) and k != 'whitespace' else (tuple(c[0]), c[1]) if k == 'whitespace' else c)]
    return []


def _worker(kc):
    k, c = kc
    return [(k, c) + x for x in CHECKERS[k](c)]


FORMULAS = [['1', '+', '2', '*', '3'], ['(', '1', '+', '2', ')', '*', '3'], ['-', '2', '*', 'A1'], ['SUM(', '1', ',', '2', ')'],
            ['F(', '1', ';', ';', '3', ')'], ['"a b"', '&', '"c"'], ['1', '<', '=', '2'][:1] + ['<=', '2'], ['A1', ':', 'B2'],
            ['{', '1', ',', '2', '}'], ['IF(', '1', '<', '2', ',', '"y"', ',', '"n"', ')'], ['2', '^', '3'], ['50', '%'], ['1', '.', '5'],
            ['x'], ['TRUE'], ['F(', 'x', '\\', '2', ')'], ['1', '<>', '2'], ['$A$1', '+', 'b2'], ['#N/A'], ['1', '/', '0']]


def explore(ctx):
    R = Result()
    rng = ctx.rng
    big = ctx.thorough
    # ---- lexer correspondence
    L = 4 if big else 3
    strings = [''.join(t) for n in range(0, L + 1) for t in itertools.product(ALPHA, repeat=n)]
    if not big:
        strings = [s for s in strings if len(s) < 3 or rng.random() < 0.35]
    pieces = ['SUM(', 'a.b(', 'A1', '$A$1', 'a$1', '$a1', 'x_1', '_x', '1.5', '"a\\"b"', "'q'", '#N/A', '#DIV/0!', '#REF!x', '#', '<>', '>=', '<=',
              'AB12C', 'a1b2', '.x(', 'é', '~', ' ', '\n', '{1}', 'TRUE', 'x.y.z', '1e5', '$', '$$', 'A$', '"', "'", '\\', '#GETTING_DATA', '#NAME?']
    for _ in range(30000 if big else 3000):
        strings.append(''.join(rng.choice(pieces + ALPHA) for _ in range(rng.randint(1, 8))))
    compare(R, ctx, 'lex', strings, T, _impl_lex, key=None)
    R.exhaustive = True
    # ---- parse correspondence: whitespace variants, slot patterns, literals
    cases = []
    for toks in FORMULAS:
        cases.append(host_case(''.join(toks), vars=[('x', 5)]))
        for _ in range(6 if big else 2):
            s = ''
            for t in toks:
                s += t + (rng.choice(WS) if rng.random() < 0.5 else '')
            cases.append(host_case(s, vars=[('x', 5)]))
    pats = [p for n in range(1, 7) for p in itertools.product([True, False], repeat=n)]
    for pat in pats:
        for sep in (',', ';', '\\'):
            cases.append(host_case('F(' + sep.join(str(i + 1) if b else '' for i, b in enumerate(pat)) + ')'))
            cases.append(host_case('{' + sep.join(str(i + 1) if b else '' for i, b in enumerate(pat)) + '}'))
    for _ in range(3000 if big else 400):
        n = ''.join(rng.choice('0123456789') for _ in range(rng.randint(1, rng.choice([3, 20, 400]))))
        cases.append(host_case(n))
        cases.append(host_case(n[:6] + '.' + ''.join(rng.choice('0123456789') for _ in range(rng.randint(1, 8)))))
        cases.append(host_case(n[:rng.choice([3, 9, 17, 18, 19, 25])] + '%'))
        cases.append(host_case(str(rng.randint(0, 30)) + '^' + str(rng.randint(0, 12))))
        body = ''.join(rng.choice(u'ab 1,;\\()+é中\t#\'"') for _ in range(rng.randint(0, 8)))
        if not body.endswith('\\'):
            cases.append(host_case('"%s"' % body.replace('"', '')))
            cases.append(host_case("'%s'" % body.replace("'", '')))
    nsn = len(SNIPS)
    svals = [(i,) for i in range(nsn)] + [(i, j) for i in range(nsn) for j in range(nsn)] + \
        [(i, j, k) for i in range(nsn) for j in range(nsn) for k in range(nsn) if big or (i + 3 * j + 7 * k) % 4 == 0]
    for _ in range(2000 if big else 150):
        svals.append(tuple(rng.randrange(nsn) for _ in range(rng.randint(4, 6))))
    for idx in svals:
        for f in slotval_formulas(idx):
            cases.append(host_case(f, vars=[('x', 5)]))
    compare(R, ctx, 'parse', cases, interp.enc_case, _impl, key=lambda c: c['formula'], eq=interp.eq_case)
    # ---- oracle
    work = [('slots', pat) for pat in pats] + [('misc', 0)] + [('slotvals', idx) for idx in svals]
    for i, toks in enumerate(FORMULAS):
        for k in range(10 if big else 3):
            work.append(('whitespace', (tuple(toks), ctx.seed * 1000 + i * 17 + k)))
    for _ in range(3000 if big else 300):
        n = str(rng.randint(0, 10 ** rng.choice([2, 9, 30, 400])))
        work.append(('literal', ('int', n, None)))
        work.append(('literal', ('dec', rng.choice(['', str(rng.randint(0, 999))]), ''.join(rng.choice('0123456789') for _ in range(rng.randint(1, 10))))))
        work.append(('literal', ('pct', str(rng.randint(0, 10 ** rng.choice([3, 6, 17, 18, 19, 30]))), None)))
        work.append(('literal', ('pow', str(rng.randint(0, 40)), str(rng.randint(0, 15)))))
        body = ''.join(rng.choice(u'abXY 019,;()+-*/&<>=é中\t#!?$:.{}%^\\\'"\'"') for _ in range(rng.randint(0, 12)))
        work.append(('literal', ('str', body.replace('"', ''), '"')))
        work.append(('literal', ('str', body.replace("'", ''), "'")))
    work.append(('literal', ('str', 'abc\\', '"')))
    for b in ("'quoted'", "rock 'n'", "'", "''", "'tis", "it's", "a'"):
        work.append(('literal', ('str', b, '"')))
        work.append(('literal', ('str', b.replace("'", '"'), "'")))
    for vs in pmap(_worker, work):
        for (k, c, w, cls, e, g) in vs:
            R.violate({k: list(c) if isinstance(c, tuple) else c}, w, cls, repr(e), repr(g))
    R.evaluations += len(work)
    R.rule = ('lexer: the model against the real ply lexer (token kinds and lengths, error position) on every string of length <= %d '
              'over 26 class representatives (%s) plus random concatenations of tricky pieces; parse: 20 formulas with white space '
              '(space, tab, newline, NBSP, EM SPACE, CRLF) injected at token boundaries, all 126 present/absent patterns x 3 '
              'separators as calls and as arrays, digit strings up to 400 digits, decimals, percents, powers, quoted text incl. '
              'Unicode; oracle: literal values, white space invariance, slot lists, array shapes, cell/range label case.'
              % (L, 'sampled at length 3' if not big else 'exhaustive'))
    return R


def search(ctx, proof, res):
    R = Result()
    rng = ctx.rng
    pats = [p for n in range(1, 7) for p in itertools.product([True, False], repeat=n)]
    work = [('slots', pat) for pat in pats] + [('misc', 0)]
    nsn = len(SNIPS)
    work += [('slotvals', (i, j, k)) for i in range(nsn) for j in range(nsn) for k in range(nsn)] + [('slotvals', (i, j)) for i in range(nsn) for j in range(nsn)]
    for i, toks in enumerate(FORMULAS):
        for k in range(30):
            work.append(('whitespace', (tuple(toks), 7919 * i + k)))
    for _ in range(5000):
        work.append(('literal', ('int', str(rng.randint(0, 10 ** rng.choice([2, 18, 60]))), None)))
        work.append(('literal', ('pct', str(rng.randint(0, 10 ** rng.choice([2, 18]))), None)))
        work.append(('literal', ('dec', str(rng.randint(0, 999)), ''.join(rng.choice('0123456789') for _ in range(rng.randint(1, 10))))))
        body = ''.join(rng.choice(u'abXY 019,;()+-*/&é\\') for _ in range(rng.randint(0, 12)))
        work.append(('literal', ('str', body, '"')))
    for vs in pmap(_worker, work):
        for (k, c, w, cls, e, g) in vs:
            R.violate({k: list(c) if isinstance(c, tuple) else c}, w, cls, repr(e), repr(g))
    R.evaluations = len(work)
    return R
