(* Spreadsheet values as the Python objects the evaluator manipulates, with the Python
   primitives used by the built-in functions (truthiness, ==, flattening) and the
   integer-list codec of the correspondence runner. *)
From Coq Require Export QArith.
From HX Require Export Model.Base Model.Calendar.
Open Scope Z_scope.

Inductive err := EERROR | EDIV0 | ENAME | ENA | ENULL | ENUM | EREF | EVALUE | EDATA.

Inductive value :=
  | VInt (z : Z)                 (* Python int *)
  | VFlt (q : Q)                 (* Python float, as the exact rational it denotes *)
  | VBool (b : bool)
  | VText (s : list Z)           (* str, as code points *)
  | VBlank                       (* None *)
  | VErr (e : err)               (* one of the nine XLError singletons *)
  | VDate (t : datetime)
  | VList (l : list value).

(* outcome of calling a built-in: a value, or a Python exception escaping it (-> #ERROR! at the top,
   or the raised XLError itself) *)
Inductive outcome := Ret (v : value) | RaiseErr (e : err) | PyExc.

Definition err_eqb (a b : err) : bool :=
  match a, b with
  | EERROR, EERROR | EDIV0, EDIV0 | ENAME, ENAME | ENA, ENA | ENULL, ENULL | ENUM, ENUM
  | EREF, EREF | EVALUE, EVALUE | EDATA, EDATA => true
  | _, _ => false
  end.
Definition err_code (e : err) : Z :=
  match e with EERROR => 0 | EDIV0 => 1 | ENAME => 2 | ENA => 3 | ENULL => 4 | ENUM => 5 | EREF => 6 | EVALUE => 7 | EDATA => 8 end.
Definition err_of_code (z : Z) : err :=
  match z with 1 => EDIV0 | 2 => ENAME | 3 => ENA | 4 => ENULL | 5 => ENUM | 6 => EREF | 7 => EVALUE | 8 => EDATA | _ => EERROR end.

Definition is_err (v : value) : bool := match v with VErr _ => true | _ => false end.

(* numeric value of a Python number (bool is an int) *)
Definition num_of (v : value) : option Q :=
  match v with
  | VInt z => Some (inject_Z z)
  | VFlt q => Some q
  | VBool b => Some (if b then 1%Q else 0%Q)
  | _ => None
  end.
Definition q_is_zero (q : Q) : bool := Qnum q =? 0.
Definition q_eqb (x y : Q) : bool := Qnum x * QDen y =? Qnum y * QDen x.
Definition q_ltb (x y : Q) : bool := Qnum x * QDen y <? Qnum y * QDen x.

(* bool(v) *)
Definition truthy (v : value) : bool :=
  match v with
  | VInt z => negb (z =? 0)
  | VFlt q => negb (q_is_zero q)
  | VBool b => b
  | VText s => match s with [] => false | _ => true end
  | VBlank => false
  | VErr _ => true
  | VDate _ => true
  | VList l => match l with [] => false | _ => true end
  end.

(* utils.iflatten / flatten: leaves left to right, any nesting *)
Fixpoint flatten (v : value) : list value :=
  match v with
  | VList l => (fix go (l : list value) : list value :=
                  match l with [] => [] | x :: r => flatten x ++ go r end) l
  | _ => [v]
  end.
Definition flatten_args (args : list value) : list value := flatten (VList args).

(* Python == between values *)
Fixpoint py_eq (a b : value) : bool :=
  match a, b with
  | VText x, VText y => list_eqb x y
  | VBlank, VBlank => true
  | VErr x, VErr y => err_eqb x y
  | VDate x, VDate y => dt_eqb x y
  | VList x, VList y =>
      (fix go (x y : list value) : bool :=
         match x, y with
         | [], [] => true
         | p :: x', q :: y' => py_eq p q && go x' y'
         | _, _ => false
         end) x y
  | _, _ => match num_of a, num_of b with
            | Some x, Some y => q_eqb x y
            | _, _ => false
            end
  end.

Fixpoint first_error (l : list value) : option err :=
  match l with
  | [] => None
  | VErr e :: _ => Some e
  | _ :: r => first_error r
  end.

(* ---------- codec ---------- *)
(* 0 z | 1 num den | 2 b | 3 len cps | 4 | 5 code | 6 y m d h mi s us | 7 n v1 .. vn *)
Fixpoint dec_value (fuel : nat) (l : list Z) : value * list Z :=
  match fuel with
  | O => (VBlank, [])
  | S f =>
    match l with
    | 0 :: z :: r => (VInt z, r)
    | 1 :: n :: d :: r => (VFlt (Qmake n (Z.to_pos d)), r)
    | 2 :: b :: r => (VBool (dec_bool b), r)
    | 3 :: r => let '(t, r') := dec_text r in (VText t, r')
    | 4 :: r => (VBlank, r)
    | 5 :: c :: r => (VErr (err_of_code c), r)
    | 6 :: y :: m :: d :: h :: mi :: s :: u :: r => (VDate (DT y m d h mi s u), r)
    | 7 :: n :: r =>
        let '(vs, r') :=
          (fix go (k : nat) (r : list Z) : list value * list Z :=
             match k with
             | O => ([], r)
             | S k' => let '(v, r1) := dec_value f r in
                       let '(vs, r2) := go k' r1 in (v :: vs, r2)
             end) (Z.to_nat n) r in
        (VList vs, r')
    | _ => (VBlank, [])
    end
  end.
Definition dec_val (l : list Z) : value * list Z := dec_value (S (length l)) l.
Fixpoint dec_vals (k : nat) (l : list Z) : list value * list Z :=
  match k with
  | O => ([], l)
  | S k' => let '(v, r) := dec_val l in let '(vs, r') := dec_vals k' r in (v :: vs, r')
  end.
(* all remaining values *)
Fixpoint dec_all (fuel : nat) (l : list Z) : list value :=
  match fuel with
  | O => []
  | S f => match l with [] => [] | _ => let '(v, r) := dec_val l in v :: dec_all f r end
  end.

Fixpoint enc_value (v : value) : list Z :=
  match v with
  | VInt z => [0; z]
  | VFlt q => [1; Qnum q; Z.pos (Qden q)]
  | VBool b => [2; enc_bool b]
  | VText s => 3 :: enc_text s
  | VBlank => [4]
  | VErr e => [5; err_code e]
  | VDate t => [6; dyear t; dmonth t; dday t; dhour t; dminute t; dsecond t; dmicro t]
  | VList l => 7 :: Z.of_nat (length l) ::
      (fix go (l : list value) : list Z := match l with [] => [] | x :: r => enc_value x ++ go r end) l
  end.
Definition enc_outcome (o : outcome) : list Z :=
  match o with
  | Ret v => 0 :: enc_value v
  | RaiseErr e => [1; err_code e]
  | PyExc => [2]
  end.
