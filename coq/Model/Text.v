(* formulas/text.py over code-point lists.  Case mappings come from Gen/CaseTables.v
   (generated from the running interpreter). *)
From HX Require Export Model.Value.
From HX Require Import Gen.CaseTables.
Open Scope Z_scope.

(* ---------- slicing ---------- *)
Definition zfirstn (n : Z) (s : list Z) : list Z := firstn (Z.to_nat n) s.      (* s[:n], n >= 0 *)
Definition zskipn (n : Z) (s : list Z) : list Z := skipn (Z.to_nat n) s.       (* s[n:], n >= 0 *)
Definition zlen (s : list Z) : Z := Z.of_nat (length s).

Inductive tres := TOk (s : list Z) | TValue | TExc.

(* LEFT(text, n): if n < 0 -> #VALUE!; text[:n] *)
Definition fn_LEFT (s : list Z) (n : Z) : tres := if n <? 0 then TValue else TOk (zfirstn n s).
(* RIGHT(text, n): text[max(len(text) - n, 0):] *)
Definition fn_RIGHT (s : list Z) (n : Z) : tres := if n <? 0 then TValue else TOk (zskipn (Z.max (zlen s - n) 0) s).
(* MID(text, start, n): text[start - 1:][:n] *)
Definition fn_MID (s : list Z) (start n : Z) : tres :=
  if (start <? 1) || (n <? 0) then TValue else TOk (zfirstn n (zskipn (start - 1) s)).
Definition fn_LEN (s : list Z) : Z := zlen s.

(* ---------- case ---------- *)
Fixpoint lookup_case (c : Z) (rows : list (Z * (list Z * list Z * list Z * bool))) : option (list Z * list Z * list Z * bool) :=
  match rows with
  | [] => None
  | (k, v) :: r => if k =? c then Some v else lookup_case c r
  end.
Definition up_char (c : Z) : list Z := match lookup_case c case_rows with Some (u, _, _, _) => u | None => [c] end.
Definition lo_char (c : Z) : list Z := match lookup_case c case_rows with Some (_, l, _, _) => l | None => [c] end.
Definition ti_char (c : Z) : list Z := match lookup_case c case_rows with Some (_, _, t, _) => t | None => [c] end.
Definition cased (c : Z) : bool := match lookup_case c case_rows with Some (_, _, _, b) => b | None => false end.

Definition fn_UPPER (s : list Z) : list Z := flat_map up_char s.
Definition fn_LOWER (s : list Z) : list Z := flat_map lo_char s.
(* str.title(): lower-case after a cased character, title-case otherwise *)
Fixpoint title_run (prev : bool) (s : list Z) : list Z * bool :=
  match s with
  | [] => ([], prev)
  | c :: r => let '(o, st) := title_run (cased c) r in ((if prev then lo_char c else ti_char c) ++ o, st)
  end.
Definition fn_PROPER (s : list Z) : list Z := fst (title_run false s).

(* ---------- TRIM / CLEAN ---------- *)
(* re.sub(' {2,}', ' ', s) *)
Fixpoint squeeze (s : list Z) : list Z :=
  match s with
  | [] => []
  | c :: r => if c =? 32 then
                match r with
                | d :: _ => if d =? 32 then squeeze r else c :: squeeze r
                | [] => [c]
                end
              else c :: squeeze r
  end.
Fixpoint lstrip (s : list Z) : list Z :=
  match s with c :: r => if c =? 32 then lstrip r else s | [] => [] end.
Fixpoint rstrip (s : list Z) : list Z :=
  match s with
  | [] => []
  | c :: r => match rstrip r with
              | [] => if c =? 32 then [] else [c]
              | r' => c :: r'
              end
  end.
Definition fn_TRIM (s : list Z) : list Z := rstrip (lstrip (squeeze s)).
Definition fn_CLEAN (s : list Z) : list Z := filter (fun c => 31 <? c) s.

(* ---------- CHAR / CODE ---------- *)
Definition fn_CHAR (n : Z) : tres := if (0 <=? n) && (n <=? 1114111) then TOk [n] else TExc.
Definition fn_CODE (s : list Z) : option Z := match s with [c] => Some c | _ => None end.

(* ---------- SUBSTITUTE ---------- *)
Fixpoint is_prefix (p s : list Z) : bool :=
  match p, s with
  | [], _ => true
  | a :: p', b :: s' => (a =? b) && is_prefix p' s'
  | _ :: _, [] => false
  end.
(* str.replace(old, new) for non-empty old: leftmost, non-overlapping; fuel = length of the text *)
Fixpoint replace_all (fuel : nat) (old new s : list Z) : list Z :=
  match fuel with
  | O => s
  | S f =>
      match s with
      | [] => []
      | c :: r => if is_prefix old s then new ++ replace_all f old new (skipn (length old) s)
                  else c :: replace_all f old new r
      end
  end.
(* the instance loop: for i in range(len(text) - len_old + 1): count matches at i, replace the k-th *)
Fixpoint replace_kth (old new pre s : list Z) (k : Z) : option (list Z) :=
  (* pre = reversed prefix already scanned; returns None when there is no k-th occurrence *)
  match s with
  | [] => None
  | c :: r =>
      if is_prefix old s then
        if k =? 1 then Some (rev pre ++ new ++ skipn (length old) s)
        else replace_kth old new (c :: pre) r (k - 1)
      else replace_kth old new (c :: pre) r k
  end.
Definition fn_SUBSTITUTE (text old new : list Z) (inst : option Z) : tres :=
  match inst with
  | Some k => if k <=? 0 then TValue
              else match text, old with
                   | [], _ | _, [] => TOk text
                   | _, _ => match replace_kth old new [] text k with Some r => TOk r | None => TOk text end
                   end
  | None => match text, old with
            | [], _ | _, [] => TOk text
            | _, _ => TOk (replace_all (length text) old new text)
            end
  end.

(* ---------- joins (items already flattened; None = blank, Some = text) ---------- *)
Fixpoint concat_items (items : list (option (list Z))) : list Z :=
  match items with
  | [] => []
  | None :: r => concat_items r
  | Some s :: r => s ++ concat_items r
  end.
Fixpoint join (d : list Z) (parts : list (list Z)) : list Z :=
  match parts with
  | [] => []
  | [p] => p
  | p :: r => p ++ d ++ join d r
  end.
Definition textjoin_parts (ignore_empty : bool) (items : list (option (list Z))) : list (list Z) :=
  if ignore_empty then flat_map (fun i => match i with Some s => [s] | None => [] end) items
  else map (fun i => match i with Some s => s | None => [] end) items.
Definition fn_TEXTJOIN (d : list Z) (ignore_empty : bool) (items : list (option (list Z))) : list Z :=
  join d (textjoin_parts ignore_empty items).

(* ---------- runner entries ---------- *)
Definition enc_tres (r : tres) : list Z := match r with TOk s => 0 :: enc_text s | TValue => [1] | TExc => [2] end.
(* [fn; ints...; texts...] *)
Definition e_text (a : list Z) : list Z :=
  match a with
  | 0 :: n :: r => enc_tres (fn_LEFT (fst (dec_text r)) n)
  | 1 :: n :: r => enc_tres (fn_RIGHT (fst (dec_text r)) n)
  | 2 :: st :: n :: r => enc_tres (fn_MID (fst (dec_text r)) st n)
  | 3 :: r => [0; fn_LEN (fst (dec_text r))]
  | 4 :: r => enc_tres (TOk (fn_UPPER (fst (dec_text r))))
  | 5 :: r => enc_tres (TOk (fn_LOWER (fst (dec_text r))))
  | 6 :: r => enc_tres (TOk (fn_PROPER (fst (dec_text r))))
  | 7 :: r => enc_tres (TOk (fn_TRIM (fst (dec_text r))))
  | 8 :: r => enc_tres (TOk (fn_CLEAN (fst (dec_text r))))
  | 9 :: n :: _ => enc_tres (fn_CHAR n)
  | 10 :: r => match fn_CODE (fst (dec_text r)) with Some c => [0; c] | None => [2] end
  | 11 :: k :: r =>   (* SUBSTITUTE: k = 0 means no instance number; otherwise instance = k (may be negative: encoded k) *)
      let '(t, r1) := dec_text r in let '(o, r2) := dec_text r1 in let '(nw, _) := dec_text r2 in
      enc_tres (fn_SUBSTITUTE t o nw (if k =? 0 then None else Some (if k <? 1000000 then k else k - 2000000)))
  | 12 :: ig :: n :: r =>   (* TEXTJOIN: delimiter text, then n items: 0 = blank | 1 text *)
      let '(d, r1) := dec_text r in
      let items := (fix go (k : nat) (l : list Z) : list (option (list Z)) :=
                      match k with
                      | O => []
                      | S k' => match l with
                                | 0 :: l' => None :: go k' l'
                                | 1 :: l' => let '(t, l'') := dec_text l' in Some t :: go k' l''
                                | _ => []
                                end
                      end) (Z.to_nat n) r1 in
      enc_tres (TOk (fn_TEXTJOIN d (dec_bool ig) items))
  | 13 :: n :: r =>         (* CONCATENATE on n items *)
      let items := (fix go (k : nat) (l : list Z) : list (option (list Z)) :=
                      match k with
                      | O => []
                      | S k' => match l with
                                | 0 :: l' => None :: go k' l'
                                | 1 :: l' => let '(t, l'') := dec_text l' in Some t :: go k' l''
                                | _ => []
                                end
                      end) (Z.to_nat n) r in
      enc_tres (TOk (concat_items items))
  | _ => [-1]
  end.
