(* C12 — Logical functions are truth-functional; type predicates classify values.
   Property theorems only; proofs are in Proofs/LogicProofs.v, Proofs/LogicAlgebra.v and Proofs/ValueProofs.v. *)
From HX Require Import Model.Value Model.Logic Model.LogicShape Gen.LogicFns Proofs.ValueProofs Proofs.LogicProofs Proofs.LogicAlgebra Proofs.LogicSource Model.PredShape Gen.PredFns Proofs.PredSource.
From Coq Require Import Permutation.
Open Scope Z_scope.

(* truth values *)
Theorem C12_truth_values :
  truthy (VBool true) = true /\ truthy (VBool false) = false /\ truthy VBlank = false /\
  (forall z, truthy (VInt z) = negb (z =? 0)) /\ (forall q, truthy (VFlt q) = negb (Qnum q =? 0)).
Proof. exact truthy_spec. Qed.

(* the arguments are flattened: leaves, left to right, at any nesting; regrouping does not matter *)
Theorem C12_flatten_leaves : forall v, Forall is_leaf (flatten v).
Proof. exact flatten_leaves. Qed.
Theorem C12_flatten_concat : forall a b, flatten_args (a ++ b) = flatten_args a ++ flatten_args b.
Proof. exact flatten_args_app. Qed.
Theorem C12_flatten_flat : forall l, Forall is_leaf l -> flatten_args l = l.
Proof. exact flatten_args_leaves. Qed.
Theorem C12_regroup : forall a l b,
  fn_AND (a ++ VList l :: b) = fn_AND (a ++ l ++ b) /\ fn_OR (a ++ VList l :: b) = fn_OR (a ++ l ++ b) /\
  fn_XOR (a ++ VList l :: b) = fn_XOR (a ++ l ++ b).
Proof. intros. repeat split; [apply AND_regroup|apply OR_regroup|apply XOR_regroup]. Qed.

(* conjunction, disjunction, parity, negation *)
Theorem C12_AND : forall args, no_errors (flatten_args args) ->
  (fn_AND args = Ret (VBool (forallb truthy (flatten_args args)))) /\
  (fn_AND args = Ret (VBool true) <-> forall v, In v (flatten_args args) -> truthy v = true).
Proof. intros args H. split; [exact (AND_truth args H)|exact (AND_true_iff args H)]. Qed.
Theorem C12_OR : forall args, no_errors (flatten_args args) ->
  (fn_OR args = Ret (VBool (existsb truthy (flatten_args args)))) /\
  (fn_OR args = Ret (VBool true) <-> exists v, In v (flatten_args args) /\ truthy v = true).
Proof. intros args H. split; [exact (OR_truth args H)|exact (OR_true_iff args H)]. Qed.
Theorem C12_XOR : forall args, no_errors (flatten_args args) ->
  fn_XOR args = Ret (VBool (Nat.odd (count_true (flatten_args args)))).
Proof. exact XOR_parity. Qed.
Theorem C12_XOR_step : forall v l, Nat.odd (count_true (v :: l)) = xorb (truthy v) (Nat.odd (count_true l)).
Proof. exact XOR_step. Qed.
Theorem C12_NOT : forall v, is_err v = false -> fn_NOT [v] = Ret (VBool (negb (truthy v))).
Proof. exact NOT_truth. Qed.

(* IF / IFS / SWITCH *)
Theorem C12_IF : forall c a b, is_err c = false -> fn_IF [c; a; b] = Ret (if truthy c then a else b).
Proof. exact IF_spec. Qed.
Theorem C12_IFS_first_true : forall args pre c v post,
  pairs_of args = pre ++ (c, v) :: post ->
  Forall (fun p => is_err (fst p) = false /\ truthy (fst p) = false) pre ->
  is_err c = false -> truthy c = true -> fn_IFS args = Ret v.
Proof. exact IFS_first_true. Qed.
Theorem C12_IFS_none : forall args,
  Forall (fun p => is_err (fst p) = false /\ truthy (fst p) = false) (pairs_of args) -> fn_IFS args = Ret (VErr ENA).
Proof. exact IFS_none. Qed.
Theorem C12_SWITCH_no_default : forall t ps, (2 <= length ps)%nat -> Nat.even (length ps) = true ->
  fn_SWITCH (t :: ps) = match switch_scan t ps with Some v => Ret v | None => Ret (VErr ENA) end.
Proof. exact SWITCH_no_default. Qed.
Theorem C12_SWITCH_default : forall t ps d, (2 <= length ps)%nat -> Nat.even (length ps) = true ->
  fn_SWITCH (t :: ps ++ [d]) = match switch_scan t ps with Some v => Ret v | None => Ret d end.
Proof. exact SWITCH_default. Qed.
Theorem C12_SWITCH_first_match : forall t ps pre c v post, pairs_of ps = pre ++ (c, v) :: post ->
  Forall (fun p => py_eq t (fst p) = false) pre -> py_eq t c = true -> switch_scan t ps = Some v.
Proof. exact switch_scan_found. Qed.
Theorem C12_SWITCH_no_match : forall t ps,
  Forall (fun p => py_eq t (fst p) = false) (pairs_of ps) -> switch_scan t ps = None.
Proof. exact switch_scan_none. Qed.

(* an error value in a tested condition yields that error rather than a branch *)
Theorem C12_error_in_condition : forall args pre post e, flatten_args args = pre ++ VErr e :: post -> no_errors pre ->
  fn_AND args = Ret (VErr e) /\ fn_OR args = Ret (VErr e) /\ fn_XOR args = Ret (VErr e).
Proof. exact AND_OR_XOR_error. Qed.
Theorem C12_error_in_NOT_IF : forall e a b, fn_NOT [VErr e] = Ret (VErr e) /\ fn_IF [VErr e; a; b] = Ret (VErr e).
Proof. intros. split; reflexivity. Qed.
Theorem C12_error_in_IFS : forall args pre e v post,
  pairs_of args = pre ++ (VErr e, v) :: post ->
  Forall (fun p => is_err (fst p) = false /\ truthy (fst p) = false) pre -> fn_IFS args = Ret (VErr e).
Proof. exact IFS_error. Qed.

(* predicates *)
Theorem C12_predicates_exclusive : forall v, (kind_count v <= 1)%nat.
Proof. exact predicates_exclusive. Qed.
Theorem C12_predicates_exact : forall v,
  (p_ISNUMBER v = true <-> (exists z, v = VInt z) \/ (exists q, v = VFlt q)) /\
  (p_ISTEXT v = true <-> exists s, v = VText s) /\
  (p_ISLOGICAL v = true <-> exists b, v = VBool b) /\
  (p_ISBLANK v = true <-> v = VBlank) /\
  (p_ISERROR v = true <-> exists e, v = VErr e).
Proof. exact predicates_exact. Qed.
Theorem C12_ISNONTEXT : forall v, p_ISNONTEXT v = negb (p_ISTEXT v).
Proof. exact ISNONTEXT_negation. Qed.
Theorem C12_ISERROR_split : forall v, p_ISERROR v = p_ISERR v || p_ISNA v.
Proof. exact ISERROR_split. Qed.
Theorem C12_parity : forall v z, int_part v = Some z ->
  fn_ISEVEN v = VBool (Z.even z) /\ fn_ISODD v = VBool (negb (Z.even z)).
Proof. exact parity_complementary. Qed.
Theorem C12_parity_integer_part : forall q, int_part (VFlt q) = Some (Z.quot (Qnum q) (QDen q)).
Proof. exact parity_integer_part. Qed.

Example C12_examples :
  fn_AND [VInt 1; VList [VBool true; VList [VFlt (1#2)]]] = Ret (VBool true) /\
  fn_AND [VInt 1; VList [VBlank]] = Ret (VBool false) /\
  fn_XOR [VBool true; VList [VInt 2; VInt 0]] = Ret (VBool false) /\
  fn_AND [VBool true; VList [VInt 1; VErr ENA]] = Ret (VErr ENA) /\
  fn_IFS [VBool false; VInt 1; VInt 7; VInt 2] = Ret (VInt 2) /\
  fn_SWITCH [VInt 5; VInt 1; VText [97]; VInt 5] = Ret (VInt 5) /\
  fn_SWITCH [VInt 2; VInt 1; VText [97]; VInt 2; VText [98]] = Ret (VText [98]) /\
  fn_ISEVEN (VFlt (-5#2)) = VBool true /\ fn_ISODD (VFlt (-5#2)) = VBool false /\
  no_errors (flatten_args [VInt 1; VList [VBool true]]).
Proof. vm_compute. repeat split; try reflexivity. repeat constructor. Qed.

(* Boolean algebra over error-free items (Proofs/LogicAlgebra.v): order irrelevant, De Morgan, XOR of two, NOT of NOT *)
Theorem C12_order_free : forall a b, no_errors (flatten_args a) -> Permutation (flatten_args a) (flatten_args b) ->
  fn_AND a = fn_AND b /\ fn_OR a = fn_OR b /\ fn_XOR a = fn_XOR b.
Proof. exact AND_OR_XOR_order_free. Qed.
Theorem C12_de_morgan : forall args, no_errors (flatten_args args) ->
  (exists r, fn_AND args = Ret r /\ fn_NOT [r] = fn_OR (map not_item (flatten_args args))) /\
  (exists r, fn_OR args = Ret r /\ fn_NOT [r] = fn_AND (map not_item (flatten_args args))).
Proof. exact de_morgan. Qed.
Theorem C12_not_item_is_NOT : forall v, is_err v = false -> fn_NOT [v] = Ret (not_item v).
Proof. exact NOT_truth. Qed.
Theorem C12_XOR_two : forall a b, is_leaf a -> is_leaf b -> is_err a = false -> is_err b = false ->
  fn_XOR [a; b] = Ret (VBool (xorb (truthy a) (truthy b))).
Proof. exact XOR_two. Qed.
Theorem C12_NOT_NOT : forall v, is_err v = false -> exists r, fn_NOT [v] = Ret r /\ fn_NOT [r] = Ret (VBool (truthy v)).
Proof. exact NOT_NOT. Qed.

(* the source terms of AND / OR / XOR / NOT / IF (Gen/LogicFns.v, regenerated from logic.py on every run) ARE the model
   functions the theorems above speak about (Proofs/LogicSource.v) *)
Theorem C12_source_functions_are_the_model : forall args,
  run_variadic gen_AND args = fn_AND args /\ run_variadic gen_OR args = fn_OR args /\ run_variadic gen_XOR args = fn_XOR args /\
  run_fixed gen_NOT args = fn_NOT args /\ run_fixed gen_IF args = fn_IF args.
Proof.
  intros args. exact (conj (source_AND_is_model args) (conj (source_OR_is_model args) (conj (source_XOR_is_model args)
                       (conj (source_NOT_is_model args) (source_IF_is_model args))))).
Qed.
Theorem C12_source_understood : logic_gen_ok = true.
Proof. exact source_understood. Qed.
Theorem C12_source_error_in_condition : forall args pre post e, flatten_args args = pre ++ VErr e :: post -> no_errors pre ->
  run_variadic gen_AND args = Ret (VErr e) /\ run_variadic gen_OR args = Ret (VErr e) /\ run_variadic gen_XOR args = Ret (VErr e).
Proof. exact source_error_first. Qed.

(* the source terms of the predicates (Gen/PredFns.v, regenerated from information.py on every run) ARE the model
   predicates (Proofs/PredSource.v); exclusivity restated on the source terms *)
Theorem C12_source_predicates_are_the_model : forall v,
  peval v gen_ISNUMBER = p_ISNUMBER v /\ peval v gen_ISTEXT = p_ISTEXT v /\ peval v gen_ISLOGICAL = p_ISLOGICAL v /\
  peval v gen_ISBLANK = p_ISBLANK v /\ peval v gen_ISERROR = p_ISERROR v /\ peval v gen_ISERR = p_ISERR v /\
  peval v gen_ISNA = p_ISNA v /\ peval v gen_ISNONTEXT = p_ISNONTEXT v.
Proof. exact source_predicates_are_model. Qed.
Theorem C12_source_parity_is_the_model : forall v, run_parity gen_ISEVEN v = fn_ISEVEN v /\ run_parity gen_ISODD v = fn_ISODD v.
Proof. exact source_parity_is_model. Qed.
Theorem C12_source_predicates_understood : pred_gen_ok = true.
Proof. exact source_predicates_understood. Qed.
Theorem C12_source_ISERROR_split : forall v, peval v gen_ISERROR = peval v gen_ISERR || peval v gen_ISNA.
Proof.
  intros v. destruct (source_predicates_are_model v) as (_ & _ & _ & _ & E & R & N & _). rewrite E, R, N. exact (ISERROR_split v).
Qed.

Print Assumptions C12_source_predicates_are_the_model.
Print Assumptions C12_source_parity_is_the_model.
Print Assumptions C12_source_functions_are_the_model.
Print Assumptions C12_order_free.
Print Assumptions C12_de_morgan.
Print Assumptions C12_AND.
Print Assumptions C12_OR.
Print Assumptions C12_XOR.
Print Assumptions C12_regroup.
Print Assumptions C12_IFS_first_true.
Print Assumptions C12_SWITCH_default.
Print Assumptions C12_SWITCH_first_match.
Print Assumptions C12_error_in_condition.
Print Assumptions C12_error_in_IFS.
Print Assumptions C12_predicates_exact.
Print Assumptions C12_parity.
