(* C15: laws that relate the slicing functions to each other and to LEN, for every text and every count. *)
From HX Require Import Model.Value Model.Text Proofs.TextProofs.
From Coq Require Import Lia ZifyBool.
Open Scope Z_scope.

Lemma skipn_skipn' {A} (n m : nat) (l : list A) : skipn n (skipn m l) = skipn (m + n) l.
Proof. revert l. induction m as [|m IH]; intros l; [reflexivity|]. destruct l as [|x l]; [rewrite !skipn_nil; reflexivity|]. cbn [skipn Nat.add]. apply IH. Qed.

(* LEN(LEFT(s,n)) = MIN(n, LEN(s)) *)
Theorem len_LEFT s n : 0 <= n -> exists a, fn_LEFT s n = TOk a /\ fn_LEN a = Z.min n (fn_LEN s).
Proof.
  intros H. exists (firstn (Z.to_nat n) s). split; [apply LEFT_spec; exact H|].
  unfold fn_LEN, zlen. rewrite firstn_length. lia.
Qed.

(* LEN(RIGHT(s,n)) = MIN(n, LEN(s)) *)
Theorem len_RIGHT s n : 0 <= n -> exists a, fn_RIGHT s n = TOk a /\ fn_LEN a = Z.min n (fn_LEN s).
Proof.
  intros H. unfold fn_RIGHT. destruct (n <? 0) eqn:E; [exfalso; lia|].
  eexists. split; [reflexivity|]. unfold fn_LEN, zskipn, zlen. rewrite skipn_length. lia.
Qed.

(* LEN(MID(s,st,n)) = MAX(0, MIN(n, LEN(s) - (st-1))) *)
Theorem len_MID s st n : 1 <= st -> 0 <= n ->
  exists a, fn_MID s st n = TOk a /\ fn_LEN a = Z.max 0 (Z.min n (fn_LEN s - (st - 1))).
Proof.
  intros H1 H2. eexists. split; [apply MID_spec; assumption|].
  unfold fn_LEN, zlen. rewrite firstn_length, skipn_length. lia.
Qed.

(* LEFT of LEFT: the shorter count wins *)
Theorem left_left s n m : 0 <= n -> 0 <= m ->
  exists a, fn_LEFT s n = TOk a /\ fn_LEFT a m = fn_LEFT s (Z.min n m).
Proof.
  intros Hn Hm. eexists. split; [apply LEFT_spec; exact Hn|].
  rewrite !LEFT_spec by lia. rewrite firstn_firstn. f_equal. f_equal. lia.
Qed.

(* three-way decomposition: s = LEFT(s,st-1) & MID(s,st,n) & RIGHT(s, LEN(s)-(st-1)-n) *)
Theorem left_mid_right_split s st n : 1 <= st -> 0 <= n -> st - 1 + n <= fn_LEN s ->
  exists a b c, fn_LEFT s (st - 1) = TOk a /\ fn_MID s st n = TOk b /\
                fn_RIGHT s (fn_LEN s - (st - 1) - n) = TOk c /\ a ++ b ++ c = s.
Proof.
  intros H1 H2 H3. unfold fn_LEN in *.
  exists (firstn (Z.to_nat (st - 1)) s), (firstn (Z.to_nat n) (skipn (Z.to_nat (st - 1)) s)),
         (skipn (Z.to_nat n) (skipn (Z.to_nat (st - 1)) s)).
  split; [apply LEFT_spec; lia|]. split; [apply MID_spec; assumption|]. split.
  - rewrite RIGHT_spec by lia. f_equal. rewrite skipn_skipn'. f_equal. unfold zlen in *. lia.
  - rewrite firstn_skipn. apply firstn_skipn.
Qed.

(* MID of a concatenation that starts after the first part reads the second part only *)
Theorem mid_past_prefix a b st n : 1 <= st -> 0 <= n -> fn_MID (a ++ b) (fn_LEN a + st) n = fn_MID b st n.
Proof.
  intros H1 H2. unfold fn_LEN, zlen. rewrite !MID_spec by lia. f_equal. f_equal.
  replace (Z.to_nat (Z.of_nat (length a) + st - 1)) with (length a + Z.to_nat (st - 1))%nat by lia.
  rewrite <- skipn_skipn'. rewrite skipn_app, skipn_all, Nat.sub_diag. reflexivity.
Qed.

(* LEFT / RIGHT of a concatenation at the seam give back the parts *)
Theorem left_right_of_concat a b :
  fn_LEFT (a ++ b) (fn_LEN a) = TOk a /\ fn_RIGHT (a ++ b) (fn_LEN b) = TOk b.
Proof.
  unfold fn_LEN, zlen. split.
  - rewrite LEFT_spec by lia. rewrite Nat2Z.id, firstn_app, firstn_all, Nat.sub_diag. cbn [firstn]. rewrite app_nil_r. reflexivity.
  - rewrite RIGHT_spec by (unfold zlen; rewrite app_length; lia).
    rewrite Nat2Z.id, app_length. replace (length a + length b - length b)%nat with (length a) by lia.
    rewrite skipn_app, skipn_all, Nat.sub_diag. reflexivity.
Qed.

(* CLEAN and the case functions distribute over & ; CLEAN and TRIM never lengthen *)
Theorem CLEAN_app a b : fn_CLEAN (a ++ b) = fn_CLEAN a ++ fn_CLEAN b.
Proof. unfold fn_CLEAN. apply filter_app. Qed.

Theorem len_CLEAN_le s : fn_LEN (fn_CLEAN s) <= fn_LEN s.
Proof.
  unfold fn_LEN, fn_CLEAN, zlen. apply inj_le.
  induction s as [|c r IH]; cbn [filter length]; [lia|]. destruct (31 <? c); cbn [length]; lia.
Qed.

Example algebra_examples :
  fn_MID [104;101;108;108;111] 2 3 = TOk [101;108;108] /\
  fn_LEFT [104;101;108;108;111] 1 = TOk [104] /\ fn_RIGHT [104;101;108;108;111] 1 = TOk [111] /\
  fn_CLEAN [104;7;105] = [104;105].
Proof. repeat split. Qed.
