(* C01: Parser.parse is total and returns a well-formed record.
   - the LR driver terminates by itself: a potential on (stack, remaining tokens) strictly decreases at every step of
     the real lr_step over the GENERATED tables (certificate: no empty production; every unit reduction moves to a
     state of strictly smaller potential), so the fuel of parse_formula is never what ends a run;
   - the lexer consumes at least one character per step;
   - the record is well formed whatever the host does; from_message (generated) is a closed table over the nine codes. *)
From HX Require Import Model.Base Model.Lexer Model.Value Model.Operators Model.Interp Gen.Wrapper Proofs.LexicalProofs Proofs.ComparatorProofs.
From Coq Require Import Lia ZifyBool.
Open Scope Z_scope.

(* ---------- potential of a state: 3 - rank of the nonterminal it is entered on ---------- *)
Definition rank_nt (nt : Z) : Z :=
  if (nt =? N_cell) || (nt =? N_variable_sequence) || (nt =? N_array) then 1 else if nt =? N_expression then 2 else 3.
Definition acc_nt (q : Z) : option Z :=
  match find (fun row => existsb (fun e => snd e =? q) (snd row)) goto_rows with
  | Some row => option_map fst (find (fun e => snd e =? q) (snd row))
  | None => None
  end.
Definition phi (q : Z) : Z := match acc_nt q with Some nt => 3 - rank_nt nt | None => 3 end.
Lemma phi_range q : 0 <= phi q <= 3.
Proof. unfold phi, rank_nt. destruct (acc_nt q) as [nt|]; [|lia]. destruct ((nt =? N_cell) || (nt =? N_variable_sequence) || (nt =? N_array)); [lia|]. destruct (nt =? N_expression); lia. Qed.

Definition c_unit : bool :=
  forallb (fun arow =>
    forallb (fun ka =>
      let a := snd ka in
      if a <? 0 then
        match prod_of (- a) with
        | Some (lhs, len, _, _) =>
            (1 <=? len) &&
            (if len =? 1 then
               forallb (fun grow => forallb (fun e => negb (fst e =? lhs) || (phi (snd e) <? phi (fst arow))) (snd grow)) goto_rows
             else true)
        | None => true
        end
      else true) (snd arow)) action_rows.
Lemma k_unit : c_unit = true. Proof. vm_compute. reflexivity. Qed.

Lemma zassoc_in {A} k (l : list (Z * A)) v : zassoc k l = Some v -> In (k, v) l.
Proof.
  induction l as [|[k' v'] l IH]; cbn [zassoc]; [discriminate|]. destruct (k =? k') eqn:E.
  - intros H. inversion H; subst. left. f_equal. lia.
  - intros H. right. apply IH, H.
Qed.
Lemma pop_n_length : forall n st acc vals st', pop_n n st acc = Some (vals, st') -> length st = (n + length st')%nat.
Proof.
  induction n as [|n IH]; intros st acc vals st' H; cbn [pop_n] in H.
  - inversion H; subst. reflexivity.
  - destruct st as [|[s v] r]; [discriminate|]. apply IH in H. cbn [length]. lia.
Qed.

Definition mu (st : pstack) (toks : list token) : Z :=
  4 * (2 * Z.of_nat (length toks) + Z.of_nat (length st)) + phi (top_state st).

Theorem step_decreases h st toks le st' toks' ev :
  lr_step h st toks le = (LRMore st' toks', ev) -> mu st' toks' < mu st toks.
Proof.
  unfold lr_step. intros H.
  assert (match toks, le with
          | [], true => False
          | _, _ => True end) as Hne by (destruct toks; destruct le; try exact I; discriminate).
  set (lk := match toks with t :: _ => tk t | [] => 0 end) in *.
  assert ((let state := top_state st in
           match action_of state lk with
           | None => (LRDone (RRaise EERROR), [])
           | Some a =>
               if 0 <? a then match toks with t :: rest => (LRMore ((a, SVtok (lexeme t)) :: st) rest, []) | [] => (LRDone RExc, []) end
               else if a <? 0 then
                 match prod_of (- a) with
                 | None => (LRDone RExc, [])
                 | Some (lhs, len, fn, rhs) =>
                     match pop_n (Z.to_nat len) st [] with
                     | None => (LRDone RExc, [])
                     | Some (vals, st'') =>
                         let '(r, ev) := sem_action h fn rhs vals in
                         match r with
                         | ROk v => match goto_of (top_state st'') lhs with Some q => (LRMore ((q, v) :: st'') toks, ev) | None => (LRDone RExc, ev) end
                         | RRaise e => (LRDone (RRaise e), ev) | RExc => (LRDone RExc, ev) | RUnmodelled => (LRDone RUnmodelled, ev)
                         end
                     end
                 end
               else match st with (_, SVval v) :: _ => (LRDone (ROk v), []) | _ => (LRDone RExc, []) end
           end) = (LRMore st' toks', ev)) as H'.
  { destruct toks as [|t r]; [destruct le; [contradiction|exact H]|destruct le; exact H]. }
  clear H Hne. cbv zeta in H'.
  destruct (action_of (top_state st) lk) as [a|] eqn:A; [|discriminate].
  pose proof (phi_range (top_state st)) as P0.
  destruct (0 <? a) eqn:Pa.
  - destruct toks as [|t rest]; [discriminate|]. inversion H'; subst. unfold mu. cbn [length top_state].
    pose proof (phi_range a). lia.
  - destruct (a <? 0) eqn:Na; [|destruct st as [|[? []] ?]; discriminate].
    destruct (prod_of (- a)) as [[[[lhs len] fn] rhs]|] eqn:PR; [|discriminate].
    destruct (pop_n (Z.to_nat len) st []) as [[vals st'']|] eqn:PO; [|discriminate].
    destruct (sem_action h fn rhs vals) as [r ev0]. destruct r as [v|e| |]; try discriminate.
    destruct (goto_of (top_state st'') lhs) as [q|] eqn:GO; [|discriminate]. inversion H'; subst. clear H'.
    apply pop_n_length in PO.
    (* the certificate at this table entry *)
    unfold action_of in A. destruct (zassoc (top_state st) action_rows) as [row|] eqn:AR; [|discriminate].
    apply zassoc_in in AR. apply zassoc_in in A.
    pose proof k_unit as K. unfold c_unit in K. rewrite forallb_forall in K. specialize (K _ AR). cbn [snd fst] in K.
    rewrite forallb_forall in K. specialize (K _ A). cbn [snd] in K. rewrite Na, PR in K.
    apply andb_prop in K. destruct K as [Klen Kunit].
    unfold mu. cbn [length top_state]. pose proof (phi_range q) as Pq.
    destruct (len =? 1) eqn:L1.
    + assert (len = 1) by lia. subst len. change (Z.to_nat 1) with 1%nat in PO.
      unfold goto_of in GO. destruct (zassoc (top_state st'') goto_rows) as [grow|] eqn:GR; [|discriminate].
      apply zassoc_in in GR. apply zassoc_in in GO.
      rewrite forallb_forall in Kunit. specialize (Kunit _ GR). cbn [snd] in Kunit. rewrite forallb_forall in Kunit.
      specialize (Kunit _ GO). cbn [fst snd] in Kunit. rewrite Z.eqb_refl in Kunit. cbn [negb orb] in Kunit. lia.
    + assert (2 <= len) by lia. assert (2 <= Z.to_nat len)%nat by lia. lia.
Qed.

(* the run ends by itself: beyond mu the amount of fuel does not matter *)
Theorem lr_run_fuel_independent h : forall n st toks le tr f1 f2,
  mu st toks < Z.of_nat n -> (n <= f1)%nat -> (n <= f2)%nat ->
  lr_run h f1 st toks le tr = lr_run h f2 st toks le tr.
Proof.
  induction n as [|n IH]; intros st toks le tr f1 f2 Hm H1 H2.
  - unfold mu in Hm. pose proof (phi_range (top_state st)). lia.
  - destruct f1 as [|f1]; [lia|]. destruct f2 as [|f2]; [lia|]. cbn [lr_run].
    destruct (lr_step h st toks le) as [r ev] eqn:S. destruct r as [v|st' toks']; [reflexivity|].
    apply IH; [|lia|lia]. pose proof (step_decreases _ _ _ _ _ _ _ S). lia.
Qed.
Theorem parse_fuel_sufficient h toks le F : (40 * (length toks + 2) <= F)%nat ->
  lr_run h F [] toks le [] = lr_run h (40 * (length toks + 2)) [] toks le [].
Proof.
  intros HF. apply (lr_run_fuel_independent h (8 * length toks + 4)); [|lia|lia].
  unfold mu. cbn [length top_state]. pose proof (phi_range 0). lia.
Qed.
(* the number of driver steps of any run is at most 8 * tokens + 4 *)
Definition driver_step_bound (toks : list token) : nat := (8 * length toks + 4)%nat.

(* ---------- the lexer consumes input at every step ---------- *)
Theorem lexer_fuel_sufficient s F : (length s <= F)%nat -> lex_all F s [] = lex s.
Proof. intros H. unfold lex. apply lex_all_fuel; lia. Qed.

(* ---------- the record ---------- *)
Definition well_formed (r : precord) : Prop :=
  match r with PResult v => forall e, v <> VErr e | PError _ | PEmptyText | PUnmodelled => True end.
Theorem record_well_formed h s : well_formed (fst (parse_formula h s)).
Proof.
  unfold parse_formula. destruct s as [|c s']; [exact I|].
  destruct (lex (c :: s')) as [ts|ts]; destruct (lr_run h _ [] ts _ []) as [r tr]; destruct r as [v|e| |]; cbn [fst well_formed];
    try exact I; destruct v; cbn [well_formed]; try exact I; intros e0; discriminate.
Qed.
(* the closed table of error codes *)
Definition err_spelling (e : err) : list Z :=
  35 :: match e with
        | EERROR => [69;82;82;79;82;33] | EDIV0 => [68;73;86;47;48;33] | ENAME => [78;65;77;69;63] | ENA => [78;47;65]
        | ENULL => [78;85;76;76;33] | ENUM => [78;85;77;33] | EREF => [82;69;70;33] | EVALUE => [86;65;76;85;69;33]
        | EDATA => [71;69;84;84;73;78;71;95;68;65;84;65] end.
Definition all_errs : list err := [EERROR; EDIV0; ENAME; ENA; ENULL; ENUM; EREF; EVALUE; EDATA].
Definition from_message_gen (m : list Z) : list Z :=
  match assoc_text m from_message_table with Some c => c | None => from_message_default end.
Lemma assoc_text_in {A} k (l : list (list Z * A)) v : assoc_text k l = Some v -> exists k', In (k', v) l.
Proof. induction l as [|[k' v'] l IH]; cbn [assoc_text]; [discriminate|]. destruct (list_eqb k k'); [intros H; inversion H; subst; eexists; left; reflexivity|intros H; destruct (IH H) as [x Hx]; exists x; right; exact Hx]. Qed.
Theorem from_message_closed m : In (from_message_gen m) (map err_spelling all_errs).
Proof.
  unfold from_message_gen. destruct (assoc_text m from_message_table) as [c|] eqn:E.
  - destruct (assoc_text_in _ _ _ E) as [k Hk].
    assert (forallb (fun kv => existsb (list_eqb (snd kv)) (map err_spelling all_errs)) from_message_table = true) as K by (vm_compute; reflexivity).
    rewrite forallb_forall in K. specialize (K _ Hk). cbn [snd] in K. apply existsb_exists in K. destruct K as (x & Hx & Hc).
    apply ComparatorProofs.list_eqb_eq in Hc. subst. exact Hx.
  - vm_compute. tauto.
Qed.
Theorem from_message_is_the_model :
  forallb (fun e => list_eqb (from_message_gen (err_spelling e)) (err_spelling e) &&
                    (err_code (err_of_text (err_spelling e)) =? err_code e)) all_errs = true /\
  list_eqb from_message_default (err_spelling EERROR) = true /\ length from_message_table = 9%nat /\
  wrapper_gen_ok = true.
Proof. repeat split; vm_compute; reflexivity. Qed.
