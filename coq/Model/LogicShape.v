(* The shapes of the truth-functional functions of formulas/logic.py as data, with their meaning.
   Gen/LogicFns.v holds AND, OR, XOR, NOT, IF as terms of these shapes, regenerated from the source on every run by
   tools/gen/logicshape.py (python ast, fail-closed); Proofs/LogicSource.v proves that they denote fn_AND, fn_OR,
   fn_XOR, fn_NOT, fn_IF of Model/Logic.v for every argument list. *)
From HX Require Export Model.Logic.
Open Scope Z_scope.

(* variadic:  args = utils.flatten(args); err = _first_error(args); if err is not None: return err; return <reducer> *)
Inductive reducer :=
| RAll                 (* all(args) *)
| RAny                 (* any(args) *)
| RParity.             (* bool(sum(bool(a) for a in args) & 1) *)
Record variadic_fn := { vf_flatten : bool; vf_error_first : bool; vf_reducer : reducer }.

Definition run_variadic (f : variadic_fn) (args : list value) : outcome :=
  let l := if vf_flatten f then flatten_args args else args in
  match (if vf_error_first f then first_error l else None) with
  | Some e => Ret (VErr e)
  | None => Ret (VBool (match vf_reducer f with
                        | RAll => forallb truthy l
                        | RAny => existsb truthy l
                        | RParity => Nat.odd (length (filter truthy l))
                        end))
  end.

(* fixed arity:  if isinstance(<param k>, error.XLError): return <param k>; return <expression> *)
Inductive vexp :=
| VParam (k : nat)
| VNot (e : vexp)                        (* not e *)
| VCond (c a b : vexp).                  (* a if c else b *)
Record fixed_fn := { ff_arity : nat; ff_error_param : option nat; ff_body : vexp }.

Fixpoint vexp_eval (args : list value) (e : vexp) : value :=
  match e with
  | VParam k => nth k args VBlank
  | VNot a => VBool (negb (truthy (vexp_eval args a)))
  | VCond c a b => if truthy (vexp_eval args c) then vexp_eval args a else vexp_eval args b
  end.
Definition run_fixed (f : fixed_fn) (args : list value) : outcome :=
  if negb (Nat.eqb (length args) (ff_arity f)) then PyExc           (* wrong number of arguments: TypeError *)
  else match ff_error_param f with
       | Some k => match nth k args VBlank with
                   | VErr e => Ret (VErr e)
                   | _ => Ret (vexp_eval args (ff_body f))
                   end
       | None => Ret (vexp_eval args (ff_body f))
       end.
