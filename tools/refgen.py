# -*- coding: utf-8 -*-
"""Random formulas mixing cell, range, variable and call references (C09, C10), with an oracle that is independent of
the implementation AND of the Coq model: the expected record and the expected event list are computed from the
generating tree in plain Python (post-order, arguments before their call, left to right).

tree:  ('num', n) | ('var', name) | ('cell', text) | ('range', text_a, text_b) | ('call', name, [trees])
       | ('neg', t) | ('add', l, r) | ('par', t)
host:  vars {name: value}, funs {name: kind}, cell answers {LABEL: [values handed to the setter]}, range answers [...],
       varset / funset {name: [values handed to the setter]}
"""
import re

NAME_OK = re.compile(r'[A-Za-z_][A-Za-z0-9_]*\Z')
CELL_SHAPED = re.compile(r'[A-Za-z]+[0-9]+\Z')
LABEL = re.compile(r'(\$?)([A-Za-z]+)(\$?)([0-9]+)\Z')


def good_name(n):
    """the names that lex as one VARIABLE token (Coq: RefsProofs.good_name)"""
    if not n or not re.match(r'[A-Za-z0-9_]+\Z', n):
        return False
    m = re.match(r'[A-Za-z]+', n)
    if m and n[m.end():m.end() + 1].isdigit():
        return False                                # letters immediately followed by a digit: taken as a cell
    if re.match(r'[A-Za-z]', n) and len(n) >= 2:
        return True
    return re.match(r'[A-Za-z_]+\Z', n) is not None


def col_index(letters):
    x = 0
    for ch in letters.upper():
        x = x * 26 + (ord(ch) - 64)
    return x - 1


def col_label(i):
    s = ''
    i += 1
    while i > 0:
        i, r = divmod(i - 1, 26)
        s = chr(65 + r) + s
    return s


def cell_parts(text):
    m = LABEL.match(text)
    ca, letters, ra, digits = m.groups()
    return dict(row=int(digits) - 1, col=col_index(letters), rabs=int(bool(ra)), cabs=int(bool(ca)))


def last_non_none(vals, cur):
    for v in vals:
        if v is not None:
            cur = v
    return cur


class Boom(Exception):
    pass


NOT_FOUND = object()


def expected(tree, host):
    """-> (kind, value, events): kind 'R' value | 'NAME' | 'EXC'; events = canonical tuples like interp.make_parser's"""
    events = []

    class Stop(Exception):
        def __init__(self, kind):
            self.kind = kind

    def ev(t):
        k = t[0]
        if k == 'num':
            return t[1]
        if k == 'par':
            return ev(t[1])
        if k == 'neg':
            return -ev(t[1])
        if k == 'add':
            a = ev(t[1])
            b = ev(t[2])
            return a + b
        if k == 'var':
            n = t[1].split('.')[0]          # a dotted sequence a.b.c is a reference to its first name: one event
            events.append(('var', n))
            v = host['vars'].get(n, {'TRUE': True, 'FALSE': False, 'NULL': None}.get(n, NOT_FOUND))
            v = last_non_none(host.get('varset', {}).get(n, []), v)
            if v is NOT_FOUND:
                raise Stop('NAME')
            return v
        if k == 'cell':
            p = cell_parts(t[1])
            lab = t[1].upper()
            events.append(('cell', lab, p['row'], p['col'], p['rabs'], p['cabs']))
            return last_non_none(host['cells'].get(lab, []), None)
        if k == 'range':
            a, b = cell_parts(t[1]), cell_parts(t[2])
            rs, re_ = (a, b) if a['row'] <= b['row'] else (b, a)
            cs, ce = (a, b) if a['col'] <= b['col'] else (b, a)
            l1 = ('$' if cs['cabs'] else '') + col_label(cs['col']) + ('$' if rs['rabs'] else '') + str(rs['row'] + 1)
            l2 = ('$' if ce['cabs'] else '') + col_label(ce['col']) + ('$' if re_['rabs'] else '') + str(re_['row'] + 1)
            events.append(('range', l1, rs['row'], cs['col'], l2, re_['row'], ce['col']))
            return last_non_none(host['ranges'], None)
        if k == 'call':
            args = [ev(a) for a in t[2]]
            kind = host['funs'].get(t[1])
            if kind is None:
                raise Stop('NAME')
            if kind == 'record':
                v = list(args)
            elif kind == 'ident':
                v = args[0]
            elif kind[0] == 'const':
                v = kind[1]
            elif kind[0] == 'raise_xl':
                from hotxlfp.formulas import error
                v = error.from_message(kind[1])      # an XLError raised inside the function is the value of the call
            else:
                raise Stop('EXC')
            events.append(('fn', t[1], tuple(args)))
            return last_non_none(host.get('funset', {}).get(t[1], []), v)
        raise ValueError(k)
    try:
        v = ev(tree)
    except Stop as s:
        return s.kind, None, events
    return 'R', v, events


def render(t, rng=None):
    k = t[0]
    ws = (lambda: rng.choice(['', '', ' ', '  '])) if rng is not None else (lambda: '')
    if k == 'num':
        return str(t[1])
    if k == 'var':
        return t[1]
    if k == 'cell':
        return t[1]
    if k == 'range':
        return t[1] + ws() + ':' + ws() + t[2]
    if k == 'call':
        return t[1] + '(' + (ws() + ',' + ws()).join(render(a, rng) for a in t[2]) + ')'
    if k == 'neg':
        return '-' + render(t[1], rng)
    if k == 'par':
        return '(' + ws() + render(t[1], rng) + ws() + ')'
    if k == 'add':
        return render(t[1], rng) + ws() + '+' + ws() + render(t[2], rng)
    raise ValueError(k)


def rand_label(rng, wide=False):
    ncol = rng.choice([1, 1, 1, 2, 2, 3, 3, 4 if wide else 3])
    letters = ''.join(rng.choice('ABCXZabxz' if ncol > 1 else 'ABCDXZabz') for _ in range(ncol))
    if rng.random() < 0.1:
        letters = rng.choice(['XFD', 'xfd', 'XFE', 'AAA', 'ZZ', 'zz', 'IV'])
    row = rng.choice([1, 2, 3, 9, 10, 11, 99, 100, 1048576, 1048577, rng.randint(1, 70000)])
    return ('$' if rng.random() < 0.3 else '') + letters + ('$' if rng.random() < 0.3 else '') + str(row)


class Gen(object):
    """numeric-valued trees (so that - and + are defined) and arbitrary-valued ones"""

    def __init__(self, rng, host, unknown_fn=None, unknown_var=None):
        self.rng = rng
        self.host = host
        self.int_vars = [n for n, v in host['vars'].items() if type(v) is int and not host.get('varset', {}).get(n)]
        self.any_vars = list(host['vars']) + ['TRUE', 'FALSE', 'NULL']
        self.rec = [n for n, k in host['funs'].items() if k == 'record']
        self.ident = [n for n, k in host['funs'].items() if k == 'ident']
        self.const = [n for n, k in host['funs'].items() if k[0] in ('const', 'raise_xl')]
        self.boom = [n for n, k in host['funs'].items() if k == 'raise_py']

    def dots(self):
        """now and then a dotted variable sequence (name.name...): still one reference, to the first name"""
        rng = self.rng
        if rng.random() < 0.85:
            return ''
        return ''.join('.' + rng.choice(['b', 'total', 'x_y', 'alpha', 'nosuch', 'Q']) for _ in range(rng.randint(1, 2)))

    def num(self, d):
        rng = self.rng
        k = rng.randrange(8)
        if d <= 0 or k < 2:
            return ('num', rng.choice([0, 1, 2, 3, 5, 7, 11, 13, 10 ** 20 + 7]))
        if k == 2 and self.int_vars:
            return ('var', rng.choice(self.int_vars) + self.dots())
        if k == 3:
            return ('neg', self.atomic_num(d - 1))
        if k == 4:
            return ('par', self.num(d - 1))
        if k == 5 and self.ident:
            return ('call', rng.choice(self.ident), [self.num(d - 1)] + [self.any(d - 1) for _ in range(rng.randint(0, 2))])
        return ('add', self.num(d - 1), self.atomic_num(d - 1))

    def atomic_num(self, d):
        t = self.num(d)
        return t if t[0] in ('num', 'var', 'call', 'par') else ('par', t)

    def any(self, d):
        rng = self.rng
        k = rng.randrange(10)
        if d <= 0:
            k = rng.choice([0, 1, 2, 3])
        if k == 0:
            return self.num(d)
        if k == 1:
            return ('var', rng.choice(self.any_vars) + self.dots())
        if k == 2:
            return ('cell', rng.choice(list(self.host['cells']) + [rand_label(rng)]).swapcase() if rng.random() < 0.3
                    else rng.choice(list(self.host['cells']) + [rand_label(rng)]))
        if k == 3:
            return ('range', rand_label(rng), rand_label(rng))
        if k == 4:
            return ('par', self.any(d - 1))
        if k == 5 and self.const:
            return ('call', rng.choice(self.const), [self.any(d - 1) for _ in range(rng.randint(0, 2))])
        if k == 6 and self.ident:
            return ('call', rng.choice(self.ident), [self.any(d - 1) for _ in range(rng.randint(1, 3))])
        if k == 7 and self.boom and rng.random() < 0.15:
            return ('call', rng.choice(self.boom), [self.any(d - 1) for _ in range(rng.randint(0, 2))])
        if self.rec:
            return ('call', rng.choice(self.rec), [self.any(d - 1) for _ in range(rng.randint(0, 4))])
        return self.num(d)


def positions(t, path=()):
    """paths of all sub-trees that may be replaced by an arbitrary-valued expression (arguments of record/const calls,
    the whole tree) or by a numeric one"""
    out = [(path, t)]
    k = t[0]
    if k in ('neg', 'par'):
        out += positions(t[1], path + (1,))
    elif k == 'add':
        out += positions(t[1], path + (1,)) + positions(t[2], path + (2,))
    elif k == 'call':
        for i, a in enumerate(t[2]):
            out += positions(a, path + (2, i))
    return out


def replace(t, path, new):
    if not path:
        return new
    if path[0] == 2 and t[0] == 'call':
        args = list(t[2])
        args[path[1]] = replace(args[path[1]], path[2:], new)
        return ('call', t[1], args)
    l = list(t)
    l[path[0]] = replace(l[path[0]], path[1:], new)
    return tuple(l)


def to_case(tree, host, formula=None):
    """the interp.py case of a tree on a host (values must be encodable)"""
    return dict(formula=formula if formula is not None else render(tree),
                vars=sorted(host['vars'].items()),
                funs=[(n, k if isinstance(k, str) else k[0], None if isinstance(k, str) else k[1]) for n, k in sorted(host['funs'].items())],
                cells=sorted(host['cells'].items()), ranges=list(host['ranges']),
                varset=sorted(host.get('varset', {}).items()), funset=sorted(host.get('funset', {}).items()))
