(* C11: AVEDEV equals its textbook definition on numeric items and does not depend on their order. *)
From HX Require Import Model.Value Model.Aggregates Proofs.ValueProofs Proofs.AggregatesProofs.
From Coq Require Import Permutation Lia.
Open Scope Z_scope.

Lemma nums_strict_numeric l : Forall numeric_leaf l -> nums_strict_leaves l = Some (map num_of_leaf l).
Proof.
  induction 1 as [|v r Hv F IH]; [reflexivity|]. cbn [nums_strict_leaves map]. rewrite IH.
  destruct v; try contradiction; reflexivity.
Qed.

(* the mean absolute deviation of a list of numbers *)
Definition avedev_q (ns : list num) : Q :=
  (qsum (map (fun x => qabs_q (x - mean_q ns)) (qs ns)) / qlen ns)%Q.

Theorem AVEDEV_definition args : numeric_args args -> items_of args <> [] ->
  fn_AVEDEV args = AOk (NF (avedev_q (items_of args))).
Proof.
  intros H NE. unfold fn_AVEDEV, with_numbers. rewrite (numbers_of_numeric _ _ _ H), (nums_strict_numeric _ H).
  fold (items_of args). destruct (items_of args) as [|x r] eqn:E; [congruence|]. reflexivity.
Qed.

Lemma qabs_q_nonneg q : (0 <= qabs_q q)%Q.
Proof.
  unfold qabs_q. destruct (Qnum q <? 0) eqn:E.
  - unfold Qle, Qopp. cbn. apply Z.ltb_lt in E. lia.
  - unfold Qle. cbn. apply Z.ltb_ge in E. lia.
Qed.

Lemma qabs_q_compat x y : (x == y)%Q -> (qabs_q x == qabs_q y)%Q.
Proof.
  intros E. unfold qabs_q. destruct (Qnum x <? 0) eqn:A; destruct (Qnum y <? 0) eqn:B.
  - rewrite E. reflexivity.
  - exfalso. apply Z.ltb_lt in A. apply Z.ltb_ge in B. unfold Qeq in E.
    assert (Qnum x * Z.pos (Qden y) < 0) by (apply Z.mul_neg_pos; lia).
    assert (0 <= Qnum y * Z.pos (Qden x)) by (apply Z.mul_nonneg_nonneg; lia). lia.
  - exfalso. apply Z.ltb_ge in A. apply Z.ltb_lt in B. unfold Qeq in E.
    assert (Qnum y * Z.pos (Qden x) < 0) by (apply Z.mul_neg_pos; lia).
    assert (0 <= Qnum x * Z.pos (Qden y)) by (apply Z.mul_nonneg_nonneg; lia). lia.
  - exact E.
Qed.

(* reordering the items does not change AVEDEV *)
Theorem avedev_order_free ns ns' : Permutation ns ns' -> (avedev_q ns == avedev_q ns')%Q.
Proof.
  intros P. destruct (sum_product_count_mean_order_free ns ns' P) as (_ & _ & L & M).
  unfold avedev_q, qlen. rewrite L.
  assert (S : (qsum (map (fun x => qabs_q (x - mean_q ns)) (qs ns)) == qsum (map (fun x => qabs_q (x - mean_q ns')) (qs ns')))%Q).
  { transitivity (qsum (map (fun x => qabs_q (x - mean_q ns')) (qs ns))).
    - clear P L. induction (qs ns) as [|x r IH]; [reflexivity|]. cbn [map qsum fold_right]. rewrite IH.
      apply Qplus_comp; [|reflexivity]. apply qabs_q_compat. rewrite M. reflexivity.
    - apply qsum_perm. apply Permutation_map. apply Permutation_map. exact P. }
  rewrite S. reflexivity.
Qed.

(* AVEDEV is never negative, and zero when all items are equal to the mean *)
Lemma qsum_nonneg l : Forall (fun q => (0 <= q)%Q) l -> (0 <= qsum l)%Q.
Proof.
  induction 1 as [|x r Hx F IH]; cbn [qsum fold_right]; [apply Qle_refl|].
  replace 0%Q with (0 + 0)%Q by reflexivity. apply Qplus_le_compat; assumption.
Qed.
Theorem avedev_nonneg ns : ns <> [] -> (0 <= avedev_q ns)%Q.
Proof.
  intros NE. unfold avedev_q. apply Qle_shift_div_l.
  - unfold qlen. destruct ns as [|x r]; [congruence|]. unfold Qlt. cbn. lia.
  - rewrite Qmult_0_l. apply qsum_nonneg. apply Forall_forall. intros q Hq. apply in_map_iff in Hq.
    destruct Hq as (x & <- & _). apply qabs_q_nonneg.
Qed.
