# -*- coding: utf-8 -*-
"""Translates the bodies of the elementary functions (formulas/mathtrig.py, financial.PV) into the expression language of
coq/Model/RealModel.v -> coq/Gen/RealFns.v.  Python ast, fail-closed: a statement or expression the translator does not
understand marks the function as not translated and clears realfns_gen_ok.

Recognised shape of a function:
    def F(p1, p2=DEFAULT, ...):
        [if p is None: p = <int literal>]*                      -> default of an omitted argument
        [p = utils.parse_number(p)]*                            -> coercion layer (recorded, not part of the real body)
        [if isinstance(p, error.XLError): return p]*            -> idem
        [if utils.any_is_error((...)): return error.VALUE]      -> idem
        [if <cond>: return <expr | error.X>]*                   -> guards
        [v = <expr>]*                                           -> inlined
        return <expr>     |   if <cond>: return .. else: [v = <expr>]* return ..   |   return G(args) with G translated
"""
import ast
import os
import sys

FUNCS = ['ABS', 'SQRT', 'EXP', 'LN', 'LOG', 'LOG10', 'POWER', 'PI', 'RADIANS', 'DEGREES', 'SIN', 'COS', 'TAN', 'COT', 'ASIN', 'ACOS', 'ATAN', 'ACOT',
         'SINH', 'COSH', 'TANH', 'ASINH', 'ACOSH', 'ATANH', 'ACOTH', 'ATAN2', 'PV']
MATH1 = {'sin': 'Fsin', 'cos': 'Fcos', 'tan': 'Ftan', 'asin': 'Fasin', 'acos': 'Facos', 'atan': 'Fatan', 'sinh': 'Fsinh', 'cosh': 'Fcosh', 'tanh': 'Ftanh',
         'asinh': 'Fasinh', 'acosh': 'Facosh', 'atanh': 'Fatanh', 'sqrt': 'Fsqrt', 'exp': 'Fexp', 'radians': 'Fradians', 'degrees': 'Fdegrees', 'fabs': 'Fabs'}
ERRS = ['ERROR', 'DIV_ZERO', 'NAME', 'NOT_AVAILABLE', 'NULL', 'NUM', 'REF', 'VALUE', 'DATA']


class Untranslatable(Exception):
    pass


def is_attr(n, base, attr):
    return isinstance(n, ast.Attribute) and n.attr == attr and isinstance(n.value, ast.Name) and n.value.id == base


class Tr(object):
    def __init__(self, params, translated):
        self.params = params
        self.subst = {}
        self.translated = translated

    def expr(self, n):
        if isinstance(n, ast.Name):
            if n.id in self.subst:
                return self.subst[n.id]
            if n.id in self.params:
                return '(EVar %d)' % self.params.index(n.id)
            raise Untranslatable('name %s' % n.id)
        if isinstance(n, ast.Constant):
            v = n.value
            if isinstance(v, bool) or not isinstance(v, (int, float)):
                raise Untranslatable('constant %r' % (v,))
            if isinstance(v, int):
                return '(EInt (%d))' % v
            from fractions import Fraction
            f = Fraction(repr(v))                    # the decimal literal as written
            if float(f) != v:
                raise Untranslatable('float literal %r' % v)
            return '(EDec (%d) %d)' % (f.numerator, f.denominator)
        if is_attr(n, 'math', 'pi'):
            return 'EPi'
        if is_attr(n, 'math', 'e'):
            return 'EEuler'
        if isinstance(n, ast.BinOp):
            ops = {ast.Add: 'EAdd', ast.Sub: 'ESub', ast.Mult: 'EMul', ast.Div: 'EDiv', ast.Pow: 'EPow'}
            if type(n.op) not in ops:
                raise Untranslatable('operator %s' % type(n.op).__name__)
            return '(%s %s %s)' % (ops[type(n.op)], self.expr(n.left), self.expr(n.right))
        if isinstance(n, ast.UnaryOp) and isinstance(n.op, ast.USub):
            return '(ENeg %s)' % self.expr(n.operand)
        if isinstance(n, ast.Call) and not n.keywords:
            if isinstance(n.func, ast.Attribute) and isinstance(n.func.value, ast.Name) and n.func.value.id == 'math':
                a = n.func.attr
                if a == 'log' and len(n.args) == 1:
                    return '(ECall Flog %s)' % self.expr(n.args[0])
                if a == 'log' and len(n.args) == 2:
                    return '(ECall2 Flog2 %s %s)' % (self.expr(n.args[0]), self.expr(n.args[1]))
                if a == 'atan2' and len(n.args) == 2:
                    return '(ECall2 Fatan2 %s %s)' % (self.expr(n.args[0]), self.expr(n.args[1]))
                if a in MATH1 and len(n.args) == 1:
                    return '(ECall %s %s)' % (MATH1[a], self.expr(n.args[0]))
            if isinstance(n.func, ast.Name) and n.func.id == 'abs' and len(n.args) == 1:
                return '(ECall Fabs %s)' % self.expr(n.args[0])
        raise Untranslatable('expression %s' % ast.dump(n)[:80])

    def cond(self, n):
        if isinstance(n, ast.Compare) and len(n.ops) == 1:
            ops = {ast.Eq: 'CEq', ast.NotEq: 'CNe', ast.Lt: 'CLt', ast.LtE: 'CLe', ast.Gt: 'CGt', ast.GtE: 'CGe'}
            if type(n.ops[0]) in ops:
                return '(%s %s %s)' % (ops[type(n.ops[0])], self.expr(n.left), self.expr(n.comparators[0]))
        if isinstance(n, ast.BoolOp):
            op = 'CAnd' if isinstance(n.op, ast.And) else 'COr'
            out = self.cond(n.values[0])
            for v in n.values[1:]:
                out = '(%s %s %s)' % (op, out, self.cond(v))
            return out
        if isinstance(n, ast.UnaryOp) and isinstance(n.op, ast.Not):
            return '(CNot %s)' % self.cond(n.operand)
        if isinstance(n, ast.Call) and is_attr(n.func, 'math', 'isnan') and len(n.args) == 1:
            self.expr(n.args[0])          # must be translatable; a real number is never NaN
            return 'CFalse'
        raise Untranslatable('condition %s' % ast.dump(n)[:80])

    def result(self, n):
        if isinstance(n, ast.Attribute) and isinstance(n.value, ast.Name) and n.value.id == 'error' and n.attr in ERRS:
            return '(RetErr %d)' % ERRS.index(n.attr)
        return '(RetE %s)' % self.expr(n)


def translate(fn, bodies):
    params = [a.arg for a in fn.args.args]
    tr = Tr(params, bodies)
    coerced = []
    defaults = {}
    guards = []
    stmts = [s for s in fn.body if not (isinstance(s, ast.Expr) and isinstance(s.value, ast.Constant))]
    nd = len(fn.args.defaults)
    for p, d in zip(params[len(params) - nd:], fn.args.defaults):
        if isinstance(d, ast.Constant) and isinstance(d.value, int) and not isinstance(d.value, bool):
            defaults[p] = d.value
        elif isinstance(d, ast.Constant) and d.value is None:
            defaults[p] = None
        else:
            raise Untranslatable('default of %s' % p)

    def block(stmts):
        """-> final result string; appends guards"""
        i = 0
        while i < len(stmts):
            s = stmts[i]
            last = i == len(stmts) - 1
            # coercion layer
            if isinstance(s, ast.Assign) and len(s.targets) == 1 and isinstance(s.targets[0], ast.Name) and isinstance(s.value, ast.Call) and \
                    is_attr(s.value.func, 'utils', 'parse_number') and len(s.value.args) == 1 and isinstance(s.value.args[0], ast.Name) and \
                    s.value.args[0].id == s.targets[0].id and s.targets[0].id in params:
                coerced.append(s.targets[0].id)
            elif isinstance(s, ast.If) and not s.orelse and isinstance(s.test, ast.Call) and isinstance(s.test.func, ast.Name) and s.test.func.id == 'isinstance' and \
                    len(s.body) == 1 and isinstance(s.body[0], ast.Return) and isinstance(s.body[0].value, ast.Name) and \
                    isinstance(s.test.args[0], ast.Name) and s.test.args[0].id == s.body[0].value.id and is_attr(s.test.args[1], 'error', 'XLError'):
                pass
            elif isinstance(s, ast.If) and not s.orelse and isinstance(s.test, ast.Call) and is_attr(s.test.func, 'utils', 'any_is_error') and \
                    len(s.body) == 1 and isinstance(s.body[0], ast.Return) and is_attr(s.body[0].value, 'error', 'VALUE'):
                pass
            elif isinstance(s, ast.If) and not s.orelse and isinstance(s.test, ast.Compare) and isinstance(s.test.ops[0], ast.Is) and \
                    isinstance(s.test.left, ast.Name) and isinstance(s.test.comparators[0], ast.Constant) and s.test.comparators[0].value is None and \
                    len(s.body) == 1 and isinstance(s.body[0], ast.Assign) and isinstance(s.body[0].targets[0], ast.Name) and \
                    s.body[0].targets[0].id == s.test.left.id and isinstance(s.body[0].value, ast.Constant) and isinstance(s.body[0].value.value, int):
                defaults[s.test.left.id] = s.body[0].value.value
            # the real body
            elif isinstance(s, ast.If) and not s.orelse and len(s.body) == 1 and isinstance(s.body[0], ast.Return) and not last:
                guards.append('(%s, %s)' % (tr.cond(s.test), tr.result(s.body[0].value)))
            elif isinstance(s, ast.If) and s.orelse and last and len(s.body) == 1 and isinstance(s.body[0], ast.Return):
                guards.append('(%s, %s)' % (tr.cond(s.test), tr.result(s.body[0].value)))
                return block(s.orelse)
            elif isinstance(s, ast.Assign) and len(s.targets) == 1 and isinstance(s.targets[0], ast.Name) and s.targets[0].id not in params:
                tr.subst[s.targets[0].id] = tr.expr(s.value)
            elif isinstance(s, ast.Return) and last:
                v = s.value
                if isinstance(v, ast.Call) and isinstance(v.func, ast.Name) and v.func.id in bodies and not v.keywords:
                    callee = bodies[v.func.id]
                    if callee is None:
                        raise Untranslatable('callee %s not translated' % v.func.id)
                    args = [tr.expr(a) for a in v.args]
                    return ('CALL', v.func.id, args)
                return tr.result(v)
            else:
                raise Untranslatable('statement %s' % ast.dump(s)[:100])
            i += 1
        raise Untranslatable('no final return')
    final = block(stmts)
    return dict(params=params, coerced=coerced, defaults=defaults, guards=guards, final=final)


def subst_vars(term, args):
    """replace (EVar i) by args[i] in a translated term (for `return G(...)`)"""
    import re
    return re.sub(r'\(EVar (\d+)\)', lambda m: args[int(m.group(1))], term)


def generate(root):
    notes = []
    srcs = {}
    for path in ('hotxlfp/formulas/mathtrig.py', 'hotxlfp/formulas/financial.py'):
        t = ast.parse(open(os.path.join(root, path)).read())
        for n in t.body:
            if isinstance(n, ast.FunctionDef) and n.name in FUNCS:
                srcs[n.name] = n
    bodies = {}
    out = ['(* GENERATED by tools/gen/realfns.py from hotxlfp/formulas/mathtrig.py and financial.py. *)',
           'From HX Require Import Model.RealModel.', 'Open Scope R_scope.']
    ok = True
    order = [f for f in FUNCS if f != 'LOG10'] + ['LOG10']
    info = {}
    for name in order:
        fn = srcs.get(name)
        if fn is None:
            notes.append('%s: not found' % name)
            bodies[name] = None
            ok = False
            continue
        try:
            b = translate(fn, bodies)
            if isinstance(b['final'], tuple):
                _, callee, args = b['final']
                cb = info[callee]
                full = args + ['(EInt (%d))' % cb['defaults'][p] for p in cb['params'][len(args):]]
                b['guards'] = b['guards'] + [subst_vars(g, full) for g in cb['guards']]
                b['final'] = subst_vars(cb['final'], full)
            bodies[name] = b
            info[name] = b
        except Untranslatable as e:
            notes.append('%s: %s' % (name, e))
            bodies[name] = None
            ok = False
    for name in FUNCS:
        b = bodies.get(name)
        if b is None:
            out.append('Definition body_%s : body := {| b_arity := 0; b_guards := []; b_final := RetErr 0 |}.  (* NOT TRANSLATED *)' % name)
            continue
        out.append('Definition body_%s : body :=\n  {| b_arity := %d;\n     b_guards := [%s];\n     b_final := %s |}.' %
                   (name, len(b['params']), ';\n                  '.join(b['guards']), b['final']))
        out.append('(* %s: parameters %s; coerced by parse_number: %s; defaults: %s *)' % (name, b['params'], b['coerced'], b['defaults']))
    # every numeric parameter goes through parse_number
    coercion_ok = all(bodies[n] is not None and set(bodies[n]['coerced']) == set(bodies[n]['params']) for n in FUNCS if n not in ('PI', 'LOG10'))
    out.append('Definition all_parameters_coerced : bool := %s.' % ('true' if coercion_ok else 'false'))
    out.append('Definition pv_defaults_zero : bool := %s.' % ('true' if bodies.get('PV') and bodies['PV']['defaults'].get('future') == 0 and bodies['PV']['defaults'].get('type') == 0 else 'false'))
    out.append('Definition log_default_base_10 : bool := %s.' % ('true' if bodies.get('LOG') and bodies['LOG']['defaults'].get('base') == 10 else 'false'))
    out.append('Definition realfns_gen_ok : bool := %s.' % ('true' if ok and coercion_ok else 'false'))
    out.append('(* notes: %s *)' % ('; '.join(notes).replace('*)', '* )').replace('(*', '( *') if notes else 'none'))
    return '\n'.join(out) + '\n'


def write(path, root):
    new = generate(root)
    old = open(path).read() if os.path.exists(path) else None
    if old != new:
        with open(path, 'w') as f:
            f.write(new)
        return True
    return False


if __name__ == '__main__':
    print('changed' if write(sys.argv[1], sys.argv[2]) else 'unchanged')
