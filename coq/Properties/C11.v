(* C11 — Aggregates equal their definitions over exactly the selected items.
   Property theorems only; proofs are in Proofs/AggregatesProofs.v (flattening: Proofs/ValueProofs.v). *)
From HX Require Import Model.Value Model.Operators Model.Lookup Model.Aggregates Proofs.ValueProofs Proofs.AggregatesProofs Proofs.MedianOrder Proofs.AvedevProofs.
From Coq Require Import QArith Permutation Sorted.
Open Scope Z_scope.

(* regrouping the items between separate arguments and (nested) arrays changes nothing *)
Theorem C11_regroup_invariant : forall a l b,
  fn_SUM (a ++ VList l :: b) = fn_SUM (a ++ l ++ b) /\ fn_PRODUCT (a ++ VList l :: b) = fn_PRODUCT (a ++ l ++ b) /\
  fn_AVERAGE (a ++ VList l :: b) = fn_AVERAGE (a ++ l ++ b) /\ fn_COUNT (a ++ VList l :: b) = fn_COUNT (a ++ l ++ b) /\
  fn_MIN (a ++ VList l :: b) = fn_MIN (a ++ l ++ b) /\ fn_MAX (a ++ VList l :: b) = fn_MAX (a ++ l ++ b) /\
  fn_MEDIAN (a ++ VList l :: b) = fn_MEDIAN (a ++ l ++ b) /\ fn_MODE (a ++ VList l :: b) = fn_MODE (a ++ l ++ b) /\
  fn_VAR (a ++ VList l :: b) = fn_VAR (a ++ l ++ b) /\ fn_VARP (a ++ VList l :: b) = fn_VARP (a ++ l ++ b) /\
  fn_AVEDEV (a ++ VList l :: b) = fn_AVEDEV (a ++ l ++ b) /\ fn_HARMEAN (a ++ VList l :: b) = fn_HARMEAN (a ++ l ++ b).
Proof. exact regroup_invariant. Qed.
Theorem C11_flatten_is_leaves : forall v, Forall is_leaf (flatten v).
Proof. exact flatten_leaves. Qed.

(* textbook definitions on numeric items (lists of any length, ints and floats as exact numbers) *)
Theorem C11_SUM : forall args, numeric_args args -> exists n, fn_SUM args = AOk n /\ (num_q n == qsum (qs (items_of args)))%Q.
Proof. exact SUM_definition. Qed.
Theorem C11_PRODUCT : forall args, numeric_args args -> items_of args <> [] ->
  exists n, fn_PRODUCT args = AOk n /\ (num_q n == qprod (qs (items_of args)))%Q.
Proof. exact PRODUCT_definition. Qed.
Theorem C11_AVERAGE : forall args, numeric_args args -> items_of args <> [] ->
  exists n, fn_AVERAGE args = AOk n /\ (num_q n == qsum (qs (items_of args)) / inject_Z (Z.of_nat (length (items_of args))))%Q.
Proof. exact AVERAGE_definition. Qed.
Theorem C11_COUNT : forall args, fn_COUNT args = AOk (NI (Z.of_nat (length (flatten_args args)))).
Proof. exact COUNT_definition. Qed.
Theorem C11_VAR : forall args, numeric_args args -> (2 <= length (items_of args))%nat ->
  exists n p, fn_VAR args = AOk n /\ fn_VARP args = AOk p /\
    (num_q n == sum_sq_dev (items_of args) / (qlen (items_of args) - 1))%Q /\
    (num_q p == sum_sq_dev (items_of args) / qlen (items_of args))%Q.
Proof. exact VAR_definition. Qed.
Theorem C11_MIN_MAX : forall args, numeric_args args -> items_of args <> [] ->
  exists lo hi, fn_MIN args = AOk lo /\ fn_MAX args = AOk hi /\ In lo (items_of args) /\ In hi (items_of args) /\
    forall x, In x (items_of args) -> (num_q lo <= num_q x <= num_q hi)%Q.
Proof. exact MIN_MAX_definition. Qed.
(* MEDIAN and LARGE are read off the sorted arrangement of the items: a permutation of them, in ascending order *)
Theorem C11_sorted_arrangement : forall l, Permutation l (sort_nums l) /\ StronglySorted num_le (sort_nums l).
Proof. exact sort_nums_spec. Qed.

(* order-free statistics are unchanged by reordering the items *)
Theorem C11_order_free_sums : forall ns ns', Permutation ns ns' ->
  (qsum (qs ns) == qsum (qs ns'))%Q /\ (qprod (qs ns) == qprod (qs ns'))%Q /\ length ns = length ns' /\
  (mean_q ns == mean_q ns')%Q.
Proof. exact sum_product_count_mean_order_free. Qed.
Theorem C11_order_free_variance : forall ns ns', Permutation ns ns' -> (sum_sq_dev ns == sum_sq_dev ns')%Q.
Proof. exact variance_order_free. Qed.
Theorem C11_order_free_min_max : forall ns ns' lo hi lo' hi', Permutation ns ns' ->
  first_min ns = Some lo -> first_min ns' = Some lo' -> first_max ns = Some hi -> first_max ns' = Some hi' ->
  (num_q lo == num_q lo')%Q /\ (num_q hi == num_q hi')%Q.
Proof. exact min_max_order_free. Qed.

(* an error value among the items of SUM, PRODUCT, AVERAGE, MIN, MAX, MEDIAN makes the result that error *)
Theorem C11_error_item : forall args pre e post, flatten_args args = pre ++ VErr e :: post ->
  Forall (fun v => is_err v = false) pre ->
  fn_SUM args = AErr e /\ fn_PRODUCT args = AErr e /\ fn_AVERAGE args = AErr e /\ fn_MIN args = AErr e /\
  fn_MAX args = AErr e /\ fn_MEDIAN args = AErr e.
Proof. exact error_item_propagates. Qed.

(* criteria functions: the statistic over exactly the items whose cells satisfy the criterion *)
Theorem C11_SUMIF_COUNTIF : forall rng crit c sel, parse_criteria crit = c -> c <> CritBad -> select1 c (flatten rng) = Some sel ->
  fn_COUNTIF rng crit = AOk (NI (Z.of_nat (length sel))) /\
  fn_SUMIF rng crit = match nums_strict sel with Some ns => AOk (sum_num ns) | None => AExc end /\
  sel = filter (fun a => match crit_match c a with Some true => true | _ => false end) (flatten rng).
Proof. exact SUMIF_COUNTIF_selected. Qed.
Theorem C11_empty_selection : forall rng crit c, parse_criteria crit = c -> c <> CritBad -> select1 c (flatten rng) = Some [] ->
  fn_SUMIF rng crit = AOk (NI 0) /\ fn_COUNTIF rng crit = AOk (NI 0) /\ (flatten rng <> [] -> fn_AVERAGEIF rng crit = AExc).
Proof. exact empty_selection. Qed.
Theorem C11_IFS_row_selected : forall pairs i, row_ok pairs i = Some true <->
  Forall (fun p => exists a, nth_error (fst p) i = Some a /\ crit_match (snd p) a = Some true) pairs.
Proof. exact row_ok_all. Qed.
Theorem C11_IFS_empty_selection : forall items pairs, has_bad pairs = false ->
  Forall (fun p => length (fst p) = length items) pairs -> select_rows pairs items 0 = Some [] ->
  fn_SUMIFS items pairs = AOk (NI 0) /\ fn_MAXIFS items pairs = AOk (NI 0) /\ fn_AVERAGEIFS items pairs = AExc.
Proof. exact IFS_empty_selection. Qed.
Theorem C11_criteria_forms :
  parse_criteria [62; 53] = CritOp CGt (VInt 5) /\ parse_criteria [60; 62; 45; 50] = CritOp CNe (VInt (-2)) /\
  parse_criteria [62; 61; 49; 46; 53] = CritOp CGe (VFlt (15 # 10)) /\ parse_criteria [61; 97] = CritOp CEq (VText [97]) /\
  parse_criteria [55] = CritEq (VInt 7) /\ parse_criteria [97; 42] = CritGlob [97; 42] /\ parse_criteria [97; 98] = CritEq (VText [97; 98]).
Proof. exact criteria_forms. Qed.

Example C11_examples :
  fn_SUM [VInt 1; VList [VInt 2; VList [VInt 3]]; VBlank; VText [52]] = AOk (NI 10) /\
  fn_MAXIFS [VInt (-5); VInt (-2); VInt (-9)] [([VInt 1; VInt 1; VInt 0], parse_criteria [49])] = AOk (NI (-2)) /\
  fn_COUNTIF (VList [VText [97; 112]; VText [112; 101]]) [97; 42] = AOk (NI 1) /\
  fn_LARGE (VList [VList [VInt 1; VInt 2]; VList [VInt 3; VInt 4]]) 3 = AOk (NI 2) /\
  fn_MEDIAN [VInt 3; VInt 1; VInt 2] = AOk (NI 2) /\ fn_MODE [VInt 3; VInt 1; VInt 3; VInt 1] = AOk (NI 3) /\
  fn_SUM [VInt 1; VList [VErr EDIV0]] = AErr EDIV0 /\
  numeric_args [VInt 1; VList [VFlt (1 # 2)]].
Proof. vm_compute. repeat split; try reflexivity. repeat constructor. Qed.

(* MEDIAN and LARGE go through sorting: two sorted arrangements of the same items agree position by position in value,
   so the median and the n-th largest value do not depend on the order of the items *)
Theorem C11_sorted_arrangements_agree : forall s s', StronglySorted num_le s -> StronglySorted num_le s' -> Permutation s s' ->
  forall k x x', nth_error s k = Some x -> nth_error s' k = Some x' -> (num_q x == num_q x')%Q.
Proof. exact sorted_arrangements_agree. Qed.
Theorem C11_MEDIAN_is_median_of_items : forall args, numeric_args args -> fn_MEDIAN args = median_items (items_of args).
Proof. exact MEDIAN_is_median_of_items. Qed.
Theorem C11_MEDIAN_order_free : forall ns ns', Permutation ns ns' ->
  match ares_q (median_items ns), ares_q (median_items ns') with
  | Some a, Some b => (a == b)%Q
  | None, None => True
  | _, _ => False
  end.
Proof. exact MEDIAN_order_free. Qed.
Theorem C11_LARGE_order_free : forall ns ns' n, Permutation ns ns' ->
  match large_items ns n, large_items ns' n with
  | AOk a, AOk b => (num_q a == num_q b)%Q
  | AErr e, AErr e' => e = e'
  | _, _ => False
  end.
Proof. exact LARGE_order_free. Qed.

(* MODE is a most frequent item; LARGE the n-th largest; HARMEAN and SLOPE the textbook formulas *)
Theorem C11_MODE_is_most_frequent : forall args m, numeric_args args -> fn_MODE args = AOk m ->
  In m (items_of args) /\ forall x, In x (items_of args) -> (count_eq x (items_of args) <= count_eq m (items_of args))%nat.
Proof. exact MODE_is_most_frequent. Qed.
Theorem C11_LARGE_is_nth_largest : forall ns n r, large_items ns n = AOk r ->
  (Z.to_nat n <= cnt_ge (num_q r) ns)%nat /\ (length ns - Z.to_nat n + 1 <= cnt_le (num_q r) ns)%nat /\ (1 <= n <= Z.of_nat (length ns))%Z.
Proof. exact LARGE_is_nth_largest. Qed.
Theorem C11_HARMEAN_definition : forall args, numeric_args args -> (2 <= length (items_of args))%nat ->
  Forall (fun n => (0 < num_q n)%Q) (items_of args) ->
  fn_HARMEAN args = AOk (NF (qlen (items_of args) / qsum (map Qinv (qs (items_of args))))%Q).
Proof. exact HARMEAN_definition. Qed.
Theorem C11_AVEDEV_definition : forall args, numeric_args args -> items_of args <> [] ->
  fn_AVEDEV args = AOk (NF (qsum (map (fun x => qabs_q (x - mean_q (items_of args))) (qs (items_of args))) / qlen (items_of args))%Q).
Proof. exact AVEDEV_definition. Qed.
Theorem C11_AVEDEV_order_free : forall ns ns', Permutation ns ns' -> (avedev_q ns == avedev_q ns')%Q.
Proof. exact avedev_order_free. Qed.
Theorem C11_AVEDEV_nonnegative : forall ns, ns <> [] -> (0 <= avedev_q ns)%Q.
Proof. exact avedev_nonneg. Qed.
Theorem C11_SLOPE_definition : forall ys xs, length ys = length xs -> ys <> [] ->
  let n := qlen ys in let sx := qsum (qs xs) in let sy := qsum (qs ys) in
  let sxx := qsum (map (fun x => (x * x)%Q) (qs xs)) in let sxy := qsum (map (fun p => (fst p * snd p)%Q) (combine (qs xs) (qs ys))) in
  fn_SLOPE_lists ys xs = if (Qnum (n * sxx - sx * sx)%Q =? 0)%Z then AErr EDIV0 else AOk (NF ((n * sxy - sx * sy) / (n * sxx - sx * sx))%Q).
Proof. exact SLOPE_definition. Qed.

Print Assumptions C11_regroup_invariant.
Print Assumptions C11_SUM.
Print Assumptions C11_AVEDEV_definition.
Print Assumptions C11_AVEDEV_order_free.
Print Assumptions C11_AVERAGE.
Print Assumptions C11_VAR.
Print Assumptions C11_MIN_MAX.
Print Assumptions C11_sorted_arrangement.
Print Assumptions C11_order_free_sums.
Print Assumptions C11_order_free_variance.
Print Assumptions C11_error_item.
Print Assumptions C11_SUMIF_COUNTIF.
Print Assumptions C11_IFS_row_selected.
Print Assumptions C11_MEDIAN_order_free.
Print Assumptions C11_LARGE_order_free.
Print Assumptions C11_MODE_is_most_frequent.
Print Assumptions C11_LARGE_is_nth_largest.
