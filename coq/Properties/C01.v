(* C01 — parse() is total: it always returns a well-formed result/error record.
   Property theorems only; proofs are in Proofs/TotalProofs.v.  Gen/Grammar.v (tables), Gen/Wrapper.v (shape of
   Parser.parse, from_message, _throw_error, p_error) are regenerated from the source on every run. *)
From HX Require Import Model.Base Model.Lexer Model.Value Model.Operators Model.Interp Gen.Wrapper Proofs.TotalProofs.
Open Scope Z_scope.

(* the generated facts about the wrapper: catch-all handler mapping through from_message, no re-raise, clean
   finally, an error-object result moved to the error entry, the two-key record; from_message is the model's table *)
Theorem C01_generated_wrapper_understood :
  forallb (fun e => list_eqb (from_message_gen (err_spelling e)) (err_spelling e) &&
                    (err_code (err_of_text (err_spelling e)) =? err_code e)) all_errs = true /\
  list_eqb from_message_default (err_spelling EERROR) = true /\ length from_message_table = 9%nat /\
  wrapper_gen_ok = true.
Proof. exact from_message_is_the_model. Qed.
Theorem C01_wrapper_shape :
  wrap_empty_text && wrap_catch_all && wrap_maps_from_message && wrap_no_reraise && wrap_finally_clean &&
  wrap_error_result_moved && wrap_two_keys && throw_error_raises_from_message && p_error_throws_ERROR &&
  p_xlerror_throws_token && lexer_error_raises_name = true.
Proof. vm_compute. reflexivity. Qed.

(* bounded time: every step of the real driver over the generated tables strictly decreases the potential mu
   (<= 8 * tokens + 3 at the start), for every host, stack and input - so the driver stops by itself and the fuel
   of parse_formula is never what ends a run *)
Theorem C01_driver_step_decreases : forall h st toks le st' toks' ev,
  lr_step h st toks le = (LRMore st' toks', ev) -> mu st' toks' < mu st toks.
Proof. exact step_decreases. Qed.
Theorem C01_driver_stops_by_itself : forall h n st toks le tr f1 f2,
  mu st toks < Z.of_nat n -> (n <= f1)%nat -> (n <= f2)%nat -> lr_run h f1 st toks le tr = lr_run h f2 st toks le tr.
Proof. exact lr_run_fuel_independent. Qed.
Theorem C01_parse_fuel_never_binds : forall h toks le F, (40 * (length toks + 2) <= F)%nat ->
  lr_run h F [] toks le [] = lr_run h (40 * (length toks + 2)) [] toks le [].
Proof. exact parse_fuel_sufficient. Qed.
Theorem C01_lexer_stops_by_itself : forall s F, (length s <= F)%nat -> lex_all F s [] = lex s.
Proof. exact lexer_fuel_sufficient. Qed.

(* the record: for every host (variables, custom functions that return, raise an XLError or raise another exception,
   listener scripts) and every input text, the result is never an error object; an error is one of the nine codes
   (the type err has exactly these nine constructors) *)
Theorem C01_record_well_formed : forall h s, well_formed (fst (parse_formula h s)).
Proof. exact record_well_formed. Qed.
(* ... in particular whatever the registered built-ins outside the model return or raise (h_oracle is an arbitrary
   function of the name and the evaluated arguments), as long as they return *)
Theorem C01_whatever_the_builtins_do : forall oracle vars funs cells ranges registry varset funset s,
  well_formed (fst (parse_formula {| h_vars := vars; h_funs := funs; h_cells := cells; h_ranges := ranges; h_registry := registry;
                                     h_varset := varset; h_funset := funset; h_oracle := oracle |} s)).
Proof. intros. apply record_well_formed. Qed.
Theorem C01_error_codes_closed : forall m, In (from_message_gen m) (map err_spelling all_errs).
Proof. exact from_message_closed. Qed.
Theorem C01_nine_codes : forall e : err, In e all_errs.
Proof. intros e; destruct e; cbn; tauto. Qed.

Print Assumptions C01_driver_step_decreases.
Print Assumptions C01_driver_stops_by_itself.
Print Assumptions C01_parse_fuel_never_binds.
Print Assumptions C01_record_well_formed.
Print Assumptions C01_error_codes_closed.
