(* C16: the elementary functions over the reals.  The bodies of the Python functions are translated on every run
   (tools/gen/realfns.py -> Gen/RealFns.v) into the small expression language below; this file gives that language
   its meaning: Python's arithmetic and the math module on FINITE REAL arguments, ideal (unrounded) arithmetic -
   "the mathematically defined real value" of the property; None = Python raises (ValueError "math domain error",
   ZeroDivisionError, TypeError on a complex power), which Parser.parse reports as an error.
   The PyMath contract (trusted): math.sin = sin, ..., math.log x = ln x for x > 0 else raises, math.log(x, b) =
   ln x / ln b, math.sqrt x for x >= 0 else raises, math.asin / acos on [-1, 1] else raise, math.atanh on (-1, 1) else
   raises, math.asinh = arcsinh, math.atan2 by quadrants, x / 0 raises, math.e ** y = exp y, x ** y = Rpower for x > 0,
   0 ** y = 0 / 1 / raises, negative ** integer = powerRZ, negative ** non-integer = complex (then math.isnan raises). *)
From Coq Require Export Reals List ZArith.
Export ListNotations.
Open Scope R_scope.

Inductive mfun :=
  | Fsin | Fcos | Ftan | Fasin | Facos | Fatan | Fsinh | Fcosh | Ftanh | Fasinh | Facosh | Fatanh
  | Fsqrt | Fexp | Flog | Fabs | Fradians | Fdegrees.
Inductive mfun2 := Flog2 | Fatan2.
Inductive rexpr :=
  | EVar (i : nat)
  | EInt (z : Z)
  | EDec (num : Z) (den : positive)
  | EPi | EEuler
  | EAdd (a b : rexpr) | ESub (a b : rexpr) | EMul (a b : rexpr) | EDiv (a b : rexpr) | EPow (a b : rexpr)
  | ENeg (a : rexpr)
  | ECall (f : mfun) (a : rexpr)
  | ECall2 (f : mfun2) (a b : rexpr).
Inductive cond :=
  | CEq (a b : rexpr) | CNe (a b : rexpr) | CLt (a b : rexpr) | CLe (a b : rexpr) | CGt (a b : rexpr) | CGe (a b : rexpr)
  | CAnd (c d : cond) | COr (c d : cond) | CNot (c : cond) | CFalse.
Inductive result := RetE (e : rexpr) | RetErr (code : Z).       (* code: index in the table of error constants *)
Record body := { b_arity : nat; b_guards : list (cond * result); b_final : result }.

Definition atanh_r (x : R) : R := / 2 * ln ((1 + x) / (1 - x)).
Definition acosh_r (x : R) : R := ln (x + sqrt (x * x - 1)).
Definition atan2_r (y x : R) : R :=
  if Rlt_dec 0 x then atan (y / x)
  else if Rlt_dec x 0 then (if Rle_dec 0 y then atan (y / x) + PI else atan (y / x) - PI)
  else if Rlt_dec 0 y then PI / 2 else if Rlt_dec y 0 then - (PI / 2) else 0.
Definition pow_py (x y : R) : option R :=
  if Rlt_dec 0 x then Some (Rpower x y)
  else if Req_EM_T x 0 then (if Rlt_dec 0 y then Some 0 else if Req_EM_T y 0 then Some 1 else None)
  else if Req_EM_T y (IZR (Int_part y)) then Some (powerRZ x (Int_part y)) else None.

Definition call1 (f : mfun) (x : R) : option R :=
  match f with
  | Fsin => Some (sin x) | Fcos => Some (cos x)
  | Ftan => if Req_EM_T (cos x) 0 then None else Some (tan x)
  | Fasin => if Rle_dec (-1) x then (if Rle_dec x 1 then Some (asin x) else None) else None
  | Facos => if Rle_dec (-1) x then (if Rle_dec x 1 then Some (acos x) else None) else None
  | Fatan => Some (atan x)
  | Fsinh => Some (sinh x) | Fcosh => Some (cosh x) | Ftanh => Some (tanh x)
  | Fasinh => Some (arcsinh x)
  | Facosh => if Rle_dec 1 x then Some (acosh_r x) else None
  | Fatanh => if Rlt_dec (-1) x then (if Rlt_dec x 1 then Some (atanh_r x) else None) else None
  | Fsqrt => if Rle_dec 0 x then Some (sqrt x) else None
  | Fexp => Some (exp x)
  | Flog => if Rlt_dec 0 x then Some (ln x) else None
  | Fabs => Some (Rabs x)
  | Fradians => Some (x * PI / 180)
  | Fdegrees => Some (x * 180 / PI)
  end.
Definition call2 (f : mfun2) (a b : R) : option R :=
  match f with
  | Flog2 => if Rlt_dec 0 a then (if Rlt_dec 0 b then (if Req_EM_T (ln b) 0 then None else Some (ln a / ln b)) else None) else None
  | Fatan2 => Some (atan2_r a b)
  end.
Definition obind {A B} (o : option A) (k : A -> option B) : option B := match o with Some a => k a | None => None end.
Fixpoint ev (env : list R) (e : rexpr) : option R :=
  match e with
  | EVar i => nth_error env i
  | EInt z => Some (IZR z)
  | EDec n d => Some (IZR n / IZR (Zpos d))
  | EPi => Some PI
  | EEuler => Some (exp 1)
  | EAdd a b => obind (ev env a) (fun x => obind (ev env b) (fun y => Some (x + y)))
  | ESub a b => obind (ev env a) (fun x => obind (ev env b) (fun y => Some (x - y)))
  | EMul a b => obind (ev env a) (fun x => obind (ev env b) (fun y => Some (x * y)))
  | EDiv a b => obind (ev env a) (fun x => obind (ev env b) (fun y => if Req_EM_T y 0 then None else Some (x / y)))
  | EPow EEuler b => obind (ev env b) (fun y => Some (exp y))
  | EPow a b => obind (ev env a) (fun x => obind (ev env b) (fun y => pow_py x y))
  | ENeg a => obind (ev env a) (fun x => Some (- x))
  | ECall f a => obind (ev env a) (call1 f)
  | ECall2 f a b => obind (ev env a) (fun x => obind (ev env b) (fun y => call2 f x y))
  end.
Definition cmp (env : list R) (a b : rexpr) (k : R -> R -> bool) : option bool :=
  obind (ev env a) (fun x => obind (ev env b) (fun y => Some (k x y))).
Definition b_eq (x y : R) : bool := if Req_EM_T x y then true else false.
Definition b_lt (x y : R) : bool := if Rlt_dec x y then true else false.
Definition b_le (x y : R) : bool := if Rle_dec x y then true else false.
Fixpoint evc (env : list R) (c : cond) : option bool :=
  match c with
  | CEq a b => cmp env a b b_eq
  | CNe a b => cmp env a b (fun x y => negb (b_eq x y))
  | CLt a b => cmp env a b b_lt
  | CLe a b => cmp env a b b_le
  | CGt a b => cmp env a b (fun x y => b_lt y x)
  | CGe a b => cmp env a b (fun x y => b_le y x)
  | CAnd c d => obind (evc env c) (fun x => if x then evc env d else Some false)      (* short-circuit *)
  | COr c d => obind (evc env c) (fun x => if x then Some true else evc env d)
  | CNot c => obind (evc env c) (fun x => Some (negb x))
  | CFalse => Some false
  end.
Inductive outcome := OVal (r : R) | OErr (code : Z) | ORaise.
Definition finish (env : list R) (r : result) : outcome :=
  match r with RetE e => match ev env e with Some v => OVal v | None => ORaise end | RetErr c => OErr c end.
Fixpoint guards (env : list R) (gs : list (cond * result)) (final : result) : outcome :=
  match gs with
  | [] => finish env final
  | (c, r) :: rest => match evc env c with None => ORaise | Some true => finish env r | Some false => guards env rest final end
  end.
Definition run (b : body) (env : list R) : outcome := guards env (b_guards b) (b_final b).
Definition is_error (o : outcome) : Prop := match o with OVal _ => False | _ => True end.
