# -*- coding: utf-8 -*-
"""C20 - event emitter.  Model: coq/Model/Emitter.v.  Theorems: Properties/C20.v."""
from common import Result, pmap

ID = 'C20'
COQ_FILES = ['Properties/C20.v', 'Proofs/EmitterProofs.v']
TRUSTED = [
    'modelled, not verified: the Python call stack as a worklist; defaultdict/list semantics of Emitter._e; '
    'callback identity is Python equality (==) of callables, as the emitter compares them; RecursionError (non-returning histories) is outside the theorems',
]
EXPLANATION = ('Coq theorems for every history, every callback behaviour (scripts that subscribe, unsubscribe and '
               'emit during delivery) and every returning run: the table equals the history-based specification, '
               'every emit delivers exactly its start-of-emit snapshot in subscription order with its arguments and '
               'bound contexts, once-listeners are called at most once and by the first completed emit that saw them, '
               'name isolation, exact effect of on/off. Tied to tinyemitter.py by random scripted histories run on '
               'the real Emitter and on a Parser instance (call log and final tables compared); an independent '
               'trace-acceptor oracle checks the property on the implementation.')
ASSUMPTIONS = ['callbacks return (no infinite re-emission); callbacks are plain functions (even ids) or bound methods re-fetched on every use (odd ids: equal but not identical objects), without a "_" attribute']

NAMES = 4
MAXD = 3


def gen_op(rng, allow_emit, ncb):
    r = rng.random()
    n = rng.randrange(NAMES) if rng.random() < 0.3 else rng.randrange(2)
    if r < 0.28:
        return (0, n, rng.randrange(ncb), rng.randrange(4))
    if r < 0.50:
        return (1, n, rng.randrange(ncb), rng.randrange(4))
    if r < 0.70:
        return (2, n, rng.randrange(ncb) if rng.random() < 0.75 else -1, 0)
    if allow_emit:
        return (3, n, rng.randrange(1000), 0)
    return (2, n, rng.randrange(ncb), 0)


def gen_case(rng, maxlen):
    ncb = rng.randint(1, 5)
    scripts = {}
    for f in range(ncb):
        if rng.random() < 0.6:
            for d in range(1, MAXD + 1):
                k = rng.choice([0, 0, 1, 1, 2, 3])
                if k:
                    scripts[(f, d)] = [gen_op(rng, d < MAXD, ncb) for _ in range(k)]
    ops = [gen_op(rng, True, ncb) for _ in range(rng.randint(1, maxlen))]
    if not any(o[0] == 3 for o in ops):
        ops.append((3, rng.randrange(2), 7, 0))
    return {'scripts': sorted((f, d, o) for (f, d), o in scripts.items()), 'ops': ops}


FUEL = 3000


def encode(case):
    out = [FUEL, len(case['scripts'])]
    for f, d, ops in case['scripts']:
        out += [f, d, len(ops)]
        for o in ops:
            out += list(o)
    out.append(len(case['ops']))
    for o in case['ops']:
        out += list(o)
    return out


def run_impl(case, use_parser=False):
    """Run a scripted history on the real emitter; returns (encoded result, linear trace)."""
    if use_parser:
        import hotxlfp
        em = hotxlfp.Parser()
    else:
        from hotxlfp.tinyemitter import Emitter
        em = Emitter()
    scripts = {(f, d): ops for f, d, ops in case['scripts']}
    log = []
    trace = []
    depth = [0]
    emits = []
    counter = [0]
    cbs = {}
    holders = {}

    def make_cb(f):
        def cb(*args, **kw):
            c = kw.get('c', 0)
            log.append((f, args[0] if args else None, c))
            trace.append(('call', emits[-1] if emits else None, f, args[0] if args else None, c, len(args), sorted(kw)))
            depth[0] += 1
            try:
                for op in scripts.get((f, depth[0]), []):
                    do(op)
            finally:
                depth[0] -= 1
            # what a listener returns is nobody's business: False, 0, '' ... must not stop or alter the delivery
            return [None, False, False, 0, True, '', 'stop', []][f % 8]
        if f in (2, 4):
            # a decorated version (functools.wraps) of ANOTHER callback's callable: a different listener all the same
            import functools
            if f - 2 + (f // 4) not in cbs:
                cbs[f - 2 + (f // 4)] = make_cb(f - 2 + (f // 4))      # 2 wraps callback 0 (a function), 4 wraps callback 3 (a bound method)
            base = cbs[f - 2 + (f // 4)]()

            @functools.wraps(base)
            def deco(*a, **k):
                return cb(*a, **k)
            return lambda: deco
        if f % 2 == 0:
            return lambda: cb
        # odd callbacks are bound methods: equal, but a fresh object on every access (the emitter compares with ==/!=)
        holder = type('Holder', (object,), {'m': lambda self, *a, **k: cb(*a, **k)})()
        holders[id(holder)] = f
        return lambda: holder.m

    def do(op):
        k, x, y, z = op
        name = 'ev%d' % x
        if k in (0, 1):
            if y not in cbs:
                cbs[y] = make_cb(y)
            sid = counter[0]
            counter[0] += 1
            trace.append(('sub', x, sid, y, z, k == 1))
            # beside 'c', a bound context may carry any keys - also ones a wrapper might use for its own bookkeeping
            ctx = ({'c': z} if z != 3 else {'c': z, 'name': 'ev9', 'callback': 7, 'state': [], 'event': 1, 'fn': 2, 'ctx': 3, 'args': 4, 'fired': 5}) if z else None
            (em.once if k == 1 else em.on)(name, cbs[y](), ctx)
        elif k == 2:
            trace.append(('off', x, None if y < 0 else y))
            if y < 0:
                em.off(name)
            else:
                if y not in cbs:
                    cbs[y] = make_cb(y)
                em.off(name, cbs[y]())
        else:
            eid = counter[0]
            counter[0] += 1
            trace.append(('emit', eid, x, y))
            emits.append(eid)
            try:
                em.emit(name, y)
            finally:
                emits.pop()
            trace.append(('end', eid))

    try:
        for op in case['ops']:
            do(op)
    except RecursionError:
        return [-1], trace
    except Exception as e:  # noqa
        return ['EXC', type(e).__name__, str(e)], trace
    inv = {id(v()): k for k, v in cbs.items() if k % 2 == 0}

    def who(fn):
        return holders.get(id(getattr(fn, '__self__', None)), inv.get(id(fn), -1))
    out = [len(log)]
    for f, a, c in log:
        out += [f, a, c]
    for n in range(NAMES):
        ls = em._e.get('ev%d' % n, [])
        out.append(len(ls))
        for l in ls:
            once = hasattr(l.fn, '_')
            f = who(l.fn._ if once else l.fn)
            out += [f, l.ctx.get('c', 0), 1 if once else 0]
    return out, trace


def accept(trace):
    """Independent oracle: does the observed linear trace satisfy the property? Returns list of complaints."""
    live = {}          # name -> list of dict(sid,f,c,once)
    called_once = set()
    frames = []        # stack of dict(eid,name,a,snap,pos)
    bad = []
    for ev in trace:
        if ev[0] == 'sub':
            _, n, sid, f, c, once = ev
            live.setdefault(n, []).append({'sid': sid, 'f': f, 'c': c, 'once': once})
        elif ev[0] == 'off':
            _, n, f = ev
            if f is None:
                live[n] = []
            else:
                live[n] = [l for l in live.get(n, []) if l['f'] != f]
        elif ev[0] == 'emit':
            _, eid, n, a = ev
            frames.append({'eid': eid, 'name': n, 'a': a, 'snap': list(live.get(n, [])), 'pos': 0})
        elif ev[0] == 'call':
            _, eid, f, a, c, nargs, kws = ev
            if not frames or frames[-1]['eid'] != eid:
                bad.append('callback %d called outside any emit' % f)
                continue
            fr = frames[-1]
            while fr['pos'] < len(fr['snap']) and fr['snap'][fr['pos']]['once'] and \
                    fr['snap'][fr['pos']]['sid'] in called_once:
                fr['pos'] += 1
            if fr['pos'] >= len(fr['snap']):
                bad.append('emit of ev%d delivered to callback %d beyond its subscription snapshot' % (fr['name'], f))
                continue
            l = fr['snap'][fr['pos']]
            fr['pos'] += 1
            if (l['f'], fr['a'], l['c']) != (f, a, c) or nargs != 1:
                bad.append('emit of ev%d: expected callback %d args %r ctx %d next, got callback %d args %r ctx %d' %
                           (fr['name'], l['f'], fr['a'], l['c'], f, a, c))
            if l['once']:
                called_once.add(l['sid'])
                live[fr['name']] = [x for x in live.get(fr['name'], []) if x['sid'] != l['sid']]
        elif ev[0] == 'end':
            fr = frames.pop()
            rest = [l for l in fr['snap'][fr['pos']:] if not (l['once'] and l['sid'] in called_once)]
            if rest:
                bad.append('emit of ev%d ended without calling %d subscribed listener(s), first callback %d' %
                           (fr['name'], len(rest), rest[0]['f']))
    return bad, live


def _work(arg):
    case, use_parser = arg
    out, trace = run_impl(case, use_parser)
    bad, live = accept(trace)
    # final table must be the history's live set
    if out and out[0] not in (-1, 'EXC'):
        exp = []
        for n in range(NAMES):
            ls = live.get(n, [])
            exp.append(len(ls))
            for l in ls:
                exp += [l['f'], l['c'], 1 if l['once'] else 0]
        ncalls = out[0]
        if out[1 + 3 * ncalls:] != exp:
            bad.append('final subscriptions differ from what the history implies')
    elif out and out[0] == 'EXC':
        bad.append('emitter raised %s: %s' % (out[1], out[2]))
    return out, bad


def check_case(case):
    case = {'scripts': [(f, d, [tuple(o) for o in ops]) for f, d, ops in case['scripts']],
            'ops': [tuple(o) for o in case['ops']]}
    out = []
    for up in (False, True):
        _, bad = _work((case, up))
        out += [{'case': case, 'what': b, 'class': None, 'expected': 'property C20', 'observed': b} for b in bad]
    return out


CORPUS = [
    # the re-entrant once history (fixed defect): on(K); once(L); K re-emits once
    {'scripts': [(0, 1, [(2, 0, 0, 0), (3, 0, 1, 0)])], 'ops': [(0, 0, 0, 0), (1, 0, 1, 2), (3, 0, 0, 0)]},
    {'scripts': [(0, 1, [(3, 0, 1, 0)])], 'ops': [(0, 0, 0, 0), (1, 0, 1, 2), (3, 0, 0, 0), (3, 0, 5, 0)]},
    # off(name, cb) removes once wrappers too, keeps others in order
    {'scripts': [], 'ops': [(0, 0, 0, 1), (1, 0, 1, 0), (0, 0, 2, 0), (1, 0, 0, 3), (2, 0, 0, 0), (3, 0, 9, 0)]},
    # unsubscribe during delivery takes effect next emit
    {'scripts': [(0, 1, [(2, 0, 1, 0)])], 'ops': [(0, 0, 0, 0), (0, 0, 1, 0), (3, 0, 1, 0), (3, 0, 2, 0)]},
    # subscribe during delivery takes effect next emit
    {'scripts': [(0, 1, [(0, 0, 1, 0)])], 'ops': [(0, 0, 0, 0), (3, 0, 1, 0), (3, 0, 2, 0)]},
]


def explore(ctx):
    R = Result()
    rng = ctx.rng
    n = 60000 if ctx.thorough else 4000
    maxlen = 30 if ctx.thorough else 12
    cases = list(CORPUS) + [gen_case(rng, maxlen) for _ in range(n)]
    model = ctx.model('emitter', [encode(c) for c in cases]) if ctx.model_ok else None
    if model is not None:
        # histories whose callbacks multiply listeners explosively are legitimate but useless as test
        # cases: drop those on which the model needs more than FUEL steps (reported below)
        keep = [i for i, m in enumerate(model) if m != [-1]]
        R.extra['dropped_over_fuel'] = len(cases) - len(keep)
        cases = [cases[i] for i in keep]
        model = [model[i] for i in keep]
    args = [(c, i % 5 == 4) for i, c in enumerate(cases)]
    results = pmap(_work, args, limit=10.0)
    R.evaluations = len(cases)
    dist = {'on': 0, 'once': 0, 'off_name': 0, 'off_pair': 0, 'emit': 0, 'with_scripts': 0, 'nested_emit_scripts': 0,
            'calls': 0, 'through_parser': 0, 'max_calls': 0}
    for i, (c, res) in enumerate(zip(cases, results)):
        if res == 'HANG':
            R.disagree('emitter', c, model[i] if model is not None else None, 'HANG')
            continue
        out, bad = res
        for o in c['ops']:
            dist[['on', 'once', 'off', 'emit'][o[0]] if o[0] != 2 else ('off_name' if o[2] < 0 else 'off_pair')] += 1
        if c['scripts']:
            dist['with_scripts'] += 1
            if any(o[0] == 3 for _, _, ops in c['scripts'] for o in ops):
                dist['nested_emit_scripts'] += 1
        if args[i][1]:
            dist['through_parser'] += 1
        ncalls = out[0] if out and isinstance(out[0], int) and out[0] >= 0 else 0
        dist['calls'] += ncalls
        dist['max_calls'] = max(dist['max_calls'], ncalls)
        if ncalls >= 2:
            R.nontrivial.add(repr(c))
        for b in bad:
            R.violate(c, b, None, 'property C20', b)
        if model is not None:
            R.compared += 1
            if model[i] != out:
                R.disagree('emitter', c, model[i], out)
        if i in (0, 5, 6):
            R.sample({'case': c, 'impl_result': out})
    R.rule = ('corpus first, then random scripted histories: %d event names, up to 5 callbacks (duplicates likely), '
              'scripts of <=3 ops per (callback, depth<=%d) that subscribe/unsubscribe/emit during delivery, history '
              'length <=%d; every 5th history runs on a hotxlfp.Parser instance; call log (callback, args, ctx) and '
              'final tables compared with the model; non-trivial = at least two callback invocations' %
              (NAMES, MAXD, maxlen))
    R.extra['input_distribution'] = dist
    return R


def search(ctx, proof, res):
    R = Result()
    rng = ctx.rng
    cases = [d['case'] for d in res.disagreements] + [gen_case(rng, 30) for _ in range(40000)]
    for c, res in zip(cases, pmap(_work, [(c, False) for c in cases], limit=5.0)):
        if res == 'HANG':
            continue
        out, bad = res
        for b in bad:
            R.violate(c, b, None, 'property C20', b)
    R.evaluations = len(cases)
    return R
