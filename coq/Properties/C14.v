(* C14 — Date and time functions agree with the proleptic Gregorian calendar.
   Property theorems only; proofs are in Proofs/DateFnsProofs.v. *)
From HX Require Import Model.Base Model.Calendar Model.Serial Model.DateFns
  Proofs.CalendarCycle Proofs.CalendarProofs Proofs.SerialProofs Proofs.DateFnsProofs.

Theorem C14_DATE_components : forall y m d, 1900 <= y <= 9999 -> valid_ymd y m d = true ->
  exists t, fn_DATE y m d = DDate t /\ dyear t = y /\ dmonth t = m /\ dday t = d /\
            dhour t = 0 /\ dminute t = 0 /\ dsecond t = 0 /\ valid_dt t = true.
Proof. exact DATE_components. Qed.

Theorem C14_DATE_low_year : forall y m d, 0 <= y < 1900 -> valid_ymd (1900 + y) m d = true ->
  exists t, fn_DATE y m d = DDate t /\ dyear t = 1900 + y /\ dmonth t = m /\ dday t = d.
Proof. exact DATE_low_year. Qed.

Theorem C14_DATE_invalid_is_error : forall y m d, 1900 <= y <= 9999 -> valid_ymd y m d = false ->
  fn_DATE y m d = DExc.
Proof. exact DATE_invalid_is_error. Qed.

Theorem C14_TIME_components : forall h mi s, 0 <= h <= 23 -> 0 <= mi <= 59 -> 0 <= s <= 59 ->
  exists t, fn_TIME h mi s = DDate t /\ dhour t = h /\ dminute t = mi /\ dsecond t = s.
Proof. exact TIME_components. Qed.

(* year, month, day read from a whole-day serial number: the calendar date of ordinal n + 693594 *)
Theorem C14_components_of_serial : forall n, 61 <= n ->
  exists t, serial_fields n = Some t /\
    (dyear t, dmonth t, dday t) = ord2ymd (n + 693594) /\ dhour t = 0 /\ dminute t = 0 /\ dsecond t = 0.
Proof. exact serial_fields_calendar. Qed.

(* ... and that ordinal <-> (y,m,d) correspondence is the calendar's, for every ordinal *)
Theorem C14_calendar : forall n, 1 <= n ->
  let '(y, m, d) := ord2ymd n in ymd2ord y m d = n /\ valid_ymd y m d = true /\ 1 <= y.
Proof. exact ord_roundtrip. Qed.

(* WEEKDAY: the three numberings, #NUM! for every other type, true weekday *)
Theorem C14_WEEKDAY_type1 : forall t, fn_WEEKDAY t 1 = DVal (ord_of t mod 7 + 1).
Proof. exact WEEKDAY_type1. Qed.
Theorem C14_WEEKDAY_type2 : forall t, fn_WEEKDAY t 2 = DVal ((ord_of t + 6) mod 7 + 1).
Proof. exact WEEKDAY_type2. Qed.
Theorem C14_WEEKDAY_type3 : forall t, fn_WEEKDAY t 3 = DVal ((ord_of t + 6) mod 7).
Proof. exact WEEKDAY_type3. Qed.
Theorem C14_WEEKDAY_other_type : forall t ty, ty <> 1 -> ty <> 2 -> ty <> 3 -> fn_WEEKDAY t ty = DNum.
Proof. exact WEEKDAY_other_type. Qed.
Theorem C14_weekday_advances : forall n, weekday_of_ord (n + 1) = (weekday_of_ord n + 1) mod 7.
Proof. exact weekday_advances. Qed.

(* DAYS / DATEDIF "d": the calendar difference in days (both dates on or after 1 March 1900,
   or both inside January/February 1900) *)
Theorem C14_DAYS_calendar_partial : forall e s, to_us dt_mar1 <= to_us e -> to_us dt_mar1 <= to_us s ->
  midnight e -> midnight s -> fn_DAYS_us e s = (ord_of e - ord_of s) * day.
Proof. exact DAYS_calendar. Qed.
Theorem C14_DAYS_calendar_early_partial : forall e s, us1900 < to_us e -> to_us e < to_us dt_mar1 ->
  us1900 < to_us s -> to_us s < to_us dt_mar1 -> midnight e -> midnight s ->
  fn_DAYS_us e s = (ord_of e - ord_of s) * day.
Proof. exact DAYS_calendar_early. Qed.
(* The full statement (all pairs from 1900-01-01 on) is false of the faithful model: a pair
   straddling Excel's phantom 29 February 1900 is off by one (recorded known finding). *)
Theorem C14_DAYS_calendar_refuted : exists e s, valid_dt e = true /\ valid_dt s = true /\ midnight e /\ midnight s /\
  us1900 <= to_us s /\ fn_DAYS_us e s <> (ord_of e - ord_of s) * day.
Proof. exact DAYS_calendar_refuted. Qed.
Theorem C14_DATEDIF_d_partial : forall s e, to_us dt_mar1 <= to_us s -> to_us s < to_us e -> midnight e -> midnight s ->
  fn_DATEDIF s e 0 = DVal (ord_of e - ord_of s).
Proof. exact DATEDIF_d. Qed.

Theorem C14_DATEDIF_start_after_end : forall s e u, to_us e < to_us s -> fn_DATEDIF s e u = DNum.
Proof. exact DATEDIF_start_after_end. Qed.
Theorem C14_DATEDIF_m : forall s e, to_us s < to_us e -> exists k, fn_DATEDIF s e 1 = DVal k /\ whole_months s e k.
Proof. exact DATEDIF_m. Qed.
Theorem C14_whole_months_unique : forall s e k k', whole_months s e k -> whole_months s e k' -> k = k'.
Proof. exact whole_months_unique. Qed.
Theorem C14_DATEDIF_y : forall s e, to_us s < to_us e -> exists k, fn_DATEDIF s e 2 = DVal k /\ whole_years s e k.
Proof. exact DATEDIF_y. Qed.
Theorem C14_DATEDIF_ym : forall s e, to_us s < to_us e ->
  exists k, fn_DATEDIF s e 1 = DVal k /\ fn_DATEDIF s e 3 = DVal (k mod 12) /\ 0 <= k mod 12 < 12.
Proof. exact DATEDIF_ym. Qed.

(* EDATE: whole months on the month index, day clamped to the target month, #NUM! outside 1900..9999 *)
Theorem C14_EDATE_spec : forall t k, valid_dt t = true ->
  let M := month_index t + k in
  let y := M / 12 in let m := M mod 12 + 1 in
  fn_EDATE t k = if (9999 <? y) || (y <? 1900) then DNum
                 else DDate (DT y m (Z.min (dday t) (days_in_month y m)) 0 0 0 0).
Proof. exact EDATE_spec. Qed.
Theorem C14_EDATE_result : forall t k t', valid_dt t = true -> fn_EDATE t k = DDate t' ->
  valid_dt t' = true /\ 1900 <= dyear t' <= 9999 /\
  dday t' = Z.min (dday t) (days_in_month (dyear t') (dmonth t')) /\
  month_index t' = month_index t + k.
Proof. exact EDATE_result_valid. Qed.
Theorem C14_EDATE_out_of_range : forall t k, valid_dt t = true ->
  (month_index t + k < 1900 * 12 \/ 10000 * 12 <= month_index t + k) -> fn_EDATE t k = DNum.
Proof. exact EDATE_out_of_range. Qed.

Example C14_anchors :
  fn_DATE 2024 2 29 = DDate (DT 2024 2 29 0 0 0 0) /\ fn_DATE 2023 2 29 = DExc /\
  fn_DATE 99 12 31 = DDate (DT 1999 12 31 0 0 0 0) /\
  fn_WEEKDAY (DT 2000 1 1 0 0 0 0) 1 = DVal 7 /\ fn_WEEKDAY (DT 2000 1 1 0 0 0 0) 2 = DVal 6 /\
  fn_EDATE (DT 2019 1 31 0 0 0 0) 13 = DDate (DT 2020 2 29 0 0 0 0) /\
  fn_EDATE (DT 2020 2 29 0 0 0 0) (-12) = DDate (DT 2019 2 28 0 0 0 0) /\
  fn_EDATE (DT 1900 1 31 0 0 0 0) (-1) = DNum /\
  fn_DATEDIF (DT 2020 1 31 0 0 0 0) (DT 2020 3 30 0 0 0 0) 1 = DVal 1 /\
  fn_DATEDIF (DT 2020 2 29 0 0 0 0) (DT 2021 2 28 0 0 0 0) 2 = DVal 0 /\
  fn_DATEDIF (DT 2020 3 1 0 0 0 0) (DT 2021 3 1 0 0 0 0) 0 = DVal 365.
Proof. vm_compute. repeat split; reflexivity. Qed.

Print Assumptions C14_DATE_components.
Print Assumptions C14_components_of_serial.
Print Assumptions C14_calendar.
Print Assumptions C14_WEEKDAY_type1.
Print Assumptions C14_DAYS_calendar_partial.
Print Assumptions C14_DAYS_calendar_refuted.
Print Assumptions C14_DATEDIF_m.
Print Assumptions C14_DATEDIF_y.
Print Assumptions C14_DATEDIF_ym.
Print Assumptions C14_EDATE_spec.
Print Assumptions C14_EDATE_result.
Print Assumptions C14_EDATE_out_of_range.
