# -*- coding: utf-8 -*-
"""Shared harness for the interpreter model (coq/Model/Interp.v): one case = a host (variables, custom functions,
cell / range listener answers) and a formula text.  The implementation side builds a real hotxlfp.Parser with that
host, records the four reference events, and returns the same canonical structure the model's e_parse produces."""
from common import enc_value, dec_value, canon_py, thaw, ERR_CODES

BEH = {'record': 0, 'ident': 1, 'const': 2, 'raise_xl': 3, 'raise_py': 4}


def T(s):
    return [len(s)] + [ord(c) for c in s]


def enc_case(c):
    """c = {'formula': str, 'vars': [(name, value)], 'funs': [(name, kind, payload)], 'cells': [(LABEL, [values])],
            'ranges': [values], 'varset' / 'funset': [(name, [values])] handed to the setter by the callVariable /
            callFunction listener}  (values may be frozen, see common.thaw)"""
    out = [len(c.get('vars', []))]
    for n, v in c.get('vars', []):
        out += T(n) + enc_value(thaw(v))
    out.append(len(c.get('funs', [])))
    for n, kind, payload in c.get('funs', []):
        out += T(n) + [BEH[kind]]
        if kind == 'const':
            out += enc_value(thaw(payload))
        elif kind == 'raise_xl':
            out += [ERR_CODES.index(payload)]
    out.append(len(c.get('cells', [])))
    for lab, vals in c.get('cells', []):
        out += T(lab) + [len(vals)]
        for v in vals:
            out += enc_value(thaw(v))
    out.append(len(c.get('ranges', [])))
    for v in c.get('ranges', []):
        out += enc_value(thaw(v))
    for key in ('varset', 'funset'):
        out.append(len(c.get(key, [])))
        for name, vals in c.get(key, []):
            out += T(name) + [len(vals)]
            for v in vals:
                out += enc_value(thaw(v))
    out += T(c['formula'])
    return out


def dec_model(l):
    """-> (record, events) with record = ('R', value) | ('E', code) | ('UNMODELLED',) | ('EMPTY',)"""
    i = 0
    if l[0] == 0:
        v, i = dec_value(l, 1)
        rec = ('R', v)
    elif l[0] == 1:
        rec = ('E', ERR_CODES[l[1]])
        i = 2
    elif l[0] == 2:
        rec = ('UNMODELLED',)
        i = 1
    else:
        rec = ('EMPTY',)
        i = 1
    n = l[i]
    i += 1
    evs = []

    def text(i):
        k = l[i]
        return ''.join(chr(x) for x in l[i + 1:i + 1 + k]), i + 1 + k
    for _ in range(n):
        t = l[i]
        i += 1
        if t == 0:
            name, i = text(i)
            k = l[i]
            i += 1
            args = []
            for _ in range(k):
                v, i = dec_value(l, i)
                args.append(v)
            evs.append(('fn', name, tuple(args)))
        elif t == 1:
            name, i = text(i)
            evs.append(('var', name))
        elif t == 2:
            lab, i = text(i)
            evs.append(('cell', lab, l[i], l[i + 1], l[i + 2], l[i + 3]))
            i += 4
        else:
            l1, i = text(i)
            r1, c1 = l[i], l[i + 1]
            i += 2
            l2, i = text(i)
            evs.append(('range', l1, r1, c1, l2, l[i], l[i + 1]))
            i += 2
    return rec, evs


class _PyBoom(Exception):
    pass


def make_parser(c):
    import hotxlfp
    from hotxlfp.formulas import error
    p = hotxlfp.Parser()
    events = []
    for n, v in c.get('vars', []):
        p.set_variable(n, thaw(v))
    for n, kind, payload in c.get('funs', []):
        if kind == 'record':
            p.set_function(n, lambda *a: list(a))
        elif kind == 'ident':
            p.set_function(n, lambda *a: a[0])
        elif kind == 'ident_reenter':
            # the identity again, but the host function evaluates another formula on the SAME parser before it returns
            # (implementation side only; for the model it is the identity)
            p.set_function(n, lambda *a, p=p: (p.parse('(1+2)*3'), a[0])[1])
        elif kind == 'const':
            p.set_function(n, lambda *a, v=thaw(payload): v)
        elif kind == 'raise_xl':
            def f(*a, e=error.from_message(payload)):
                raise e
            p.set_function(n, f)
        else:
            def g(*a):
                raise _PyBoom('boom')
            p.set_function(n, g)
    cells = dict((lab, [thaw(v) for v in vals]) for lab, vals in c.get('cells', []))

    def on_cell(cell, done):
        events.append(('cell', cell.label, cell.row.index, cell.col.index, int(cell.row.is_absolute), int(cell.col.is_absolute)))
        for v in cells.get(cell.label, []):
            done(v)

    def on_range(start, end, done):
        events.append(('range', start.label, start.row.index, start.col.index, end.label, end.row.index, end.col.index))
        for v in c.get('ranges', []):
            done(thaw(v))

    varset = dict((n, [thaw(v) for v in vals]) for n, vals in c.get('varset', []))
    funset = dict((n, [thaw(v) for v in vals]) for n, vals in c.get('funset', []))

    def on_var(name, done):
        events.append(('var', name))
        for v in varset.get(name, []):
            done(v)

    def on_fn(name, args, done):
        events.append(('fn', name, tuple(canon_py(a) for a in args)))
        for v in funset.get(name, []):
            done(v)
    p.on('callCellValue', on_cell)
    if c.get('ranges') is not None:
        p.on('callRangeValue', on_range)
    p.on('callVariable', on_var)
    p.on('callFunction', on_fn)
    return p, events


def impl_case(c):
    p, events = make_parser(c)
    try:
        r = p.parse(c['formula'])
    except BaseException as e:  # noqa - parse must never raise (C01)
        return ('ESCAPED', type(e).__name__), events
    keys = sorted(r.keys()) if isinstance(r, dict) else None
    if keys != ['error', 'result']:
        return ('MALFORMED', repr(r)), events
    if r['error'] is not None:
        if r['result'] is not None:
            return ('MALFORMED', repr(r)), events
        return ('E', r['error']), events
    if c['formula'] == '':
        return ('EMPTY',) if r['result'] == '' else ('MALFORMED', repr(r)), events
    return ('R', canon_py(r['result'])), events


def same_value(m, i):
    """model value vs implementation value; a float result is compared as the correctly rounded exact value, with a
    2^-44 relative allowance for chains of roundings (the float caveat)"""
    from fractions import Fraction
    if m[0] == 'F' and i[0] == 'F':
        if isinstance(i[1], str):
            return False
        try:
            if Fraction(float(m[1])) == i[1]:
                return True
        except OverflowError:
            return False
        return abs(m[1] - i[1]) <= abs(m[1]) * Fraction(1, 2 ** 44)
    if m[0] == 'L' and i[0] == 'L':
        return len(m[1]) == len(i[1]) and all(same_value(x, y) for x, y in zip(m[1], i[1]))
    return m == i


def same_events(me, ie):
    if len(me) != len(ie):
        return False
    for a, b in zip(me, ie):
        if a[0] != b[0]:
            return False
        if a[0] == 'fn':
            if a[1] != b[1] or len(a[2]) != len(b[2]) or not all(same_value(x, y) for x, y in zip(a[2], b[2])):
                return False
        elif tuple(a) != tuple(b):
            return False
    return True


def eq_case(model, impl, events=True):
    mrec, mev = dec_model(model)
    irec, iev = impl
    if mrec == ('UNMODELLED',):
        return True          # registered built-in outside the model: not compared (counted by the caller)
    if events and not same_events(mev, iev):
        return False
    if mrec[0] == 'R':
        return irec[0] == 'R' and same_value(mrec[1], irec[1])
    return mrec == irec
