(* formulas/lookupandreference.py: CHOOSE, INDEX, MATCH *)
From HX Require Export Model.Value.
From HX Require Import Model.Comparator.
Open Scope Z_scope.

(* Python <, > between values: None = TypeError *)
Definition py_lt (a b : value) : option bool :=
  match a, b with
  | VText x, VText y => Some (text_ltb x y)
  | VDate x, VDate y => Some (to_us x <? to_us y)
  | _, _ => match num_of a, num_of b with
            | Some x, Some y => Some (q_ltb x y)
            | _, _ => None
            end
  end.
Definition py_gt (a b : value) : option bool := py_lt b a.

(* ---------- CHOOSE ---------- *)
Definition fn_CHOOSE (args : list value) : outcome :=
  if (length args <? 2)%nat then Ret (VErr ENA)
  else match args with
       | VInt i :: _ =>
           if (i <? 1) || (254 <? i) then Ret (VErr EVALUE)
           else if Z.of_nat (length args) <? i + 1 then Ret (VErr EVALUE)
           else Ret (nth (Z.to_nat i) args VBlank)
       | VBool b :: _ =>
           if b then Ret (nth 1 args VBlank) else Ret (VErr EVALUE)
       | _ => PyExc      (* text/blank/error index: TypeError on comparison; floats: excluded by the harness *)
       end.

(* ---------- INDEX ---------- *)
Inductive idx := IDef | IInt (z : Z) | IErr (e : err) | IUnmodelled.
(* parse_number on the index argument (None -> DEFAULT) *)
Definition idx_of (v : option value) : idx :=
  match v with
  | None | Some VBlank => IDef
  | Some (VInt z) => IInt z
  | Some (VBool b) => IInt (if b then 1 else 0)
  | Some (VErr e) => IErr e
  | Some (VDate _) | Some (VList _) => IErr EVALUE
  | Some (VText _) | Some (VFlt _) => IUnmodelled      (* numeric text / floats: outside the model *)
  end.

(* pick(seq, position): None = IndexError/TypeError -> #REF! *)
Definition pick (seq : value) (pos : Z) : option value :=
  match seq with
  | VList l => if (pos <? 1) || (Z.of_nat (length l) <? pos) then None else nth_error l (Z.to_nat (pos - 1))
  | _ => None
  end.
Fixpoint pick_column (rows : list value) (c : Z) : option (list value) :=
  match rows with
  | [] => Some []
  | r :: rs => match pick r c, pick_column rs c with
               | Some x, Some xs => Some (x :: xs)
               | _, _ => None
               end
  end.
Definition ref_or (o : option value) : outcome := match o with Some v => Ret v | None => Ret (VErr EREF) end.

Definition fn_INDEX (arr : value) (row col : option value) : outcome :=
  let r := idx_of row in let c := idx_of col in
  match arr, r, c with
  | VBlank, _, _ => Ret (VErr EVALUE)
  | _, IDef, IDef => Ret (VErr EVALUE)
  | _, _, _ =>
    let arr := match arr with VList _ => arr | _ => VList [VList [arr]] end in
    match arr with
    | VList [] => PyExc                                     (* arr[0]: IndexError outside the try *)
    | VList ((first :: _) as rows) =>
      let bidim := match first with VList _ => true | _ => false end in
      match r, c with
      | IUnmodelled, _ | _, IUnmodelled => PyExc
      | IErr e, _ => Ret (VErr e)
      | _, IErr e => Ret (VErr e)
      | IDef, IInt cn =>
          if cn =? 0 then Ret arr
          else if bidim then ref_or (option_map VList (pick_column rows cn)) else ref_or (pick arr cn)
      | IInt rn, IDef => if rn =? 0 then Ret arr else ref_or (pick arr rn)
      | IInt rn, IInt cn =>
          if (rn =? 0) && (cn =? 0) then Ret arr
          else if rn =? 0 then ref_or (option_map VList (pick_column rows cn))
          else if cn =? 0 then ref_or (pick arr rn)
          else if negb bidim && (cn =? 1) then ref_or (pick arr rn)
          else ref_or (match pick arr rn with Some rw => pick rw cn | None => None end)
      | IDef, IDef => Ret (VErr EVALUE)
      end
    | _ => PyExc
    end
  end.

(* ---------- MATCH ---------- *)
(* fnmatch on patterns without '[': '*' any run, '?' any one character *)
Fixpoint glob (p s : list Z) : bool :=
  match p with
  | [] => match s with [] => true | _ => false end
  | c :: p' =>
      if c =? 42 then
        (fix star (s : list Z) : bool :=
           glob p' s || match s with [] => false | _ :: s' => star s' end) s
      else match s with
           | [] => false
           | d :: s' => ((c =? 63) || (c =? d)) && glob p' s'
           end
  end.
Definition lower_text (s : list Z) : list Z := map lower_ascii s.

Inductive mres := MFound (i : Z) | MExc.
(* the scan of match types 1 and -1: state = (index, index_value) *)
Fixpoint match_scan (ty : Z) (x : value) (l : list value) (i : Z) (best : option (Z * value)) : option (option Z) :=
  (* outer None = exception; inner = final index *)
  match l with
  | [] => Some (option_map fst best)
  | a :: r =>
      if py_eq a x then Some (Some (i + 1))
      else match (if ty =? 1 then py_lt a x else py_gt a x) with
           | None => None
           | Some false => match_scan ty x r (i + 1) best
           | Some true =>
               match best with
               | None => match_scan ty x r (i + 1) (Some (i + 1, a))
               | Some (bi, bv) =>
                   if negb (truthy bv) then match_scan ty x r (i + 1) (Some (i + 1, a))
                   else match (if ty =? 1 then py_gt a bv else py_lt a bv) with
                        | None => None
                        | Some true => match_scan ty x r (i + 1) (Some (i + 1, a))
                        | Some false => match_scan ty x r (i + 1) best
                        end
               end
           end
  end.
(* match type 0 *)
Fixpoint match_exact (x : value) (l : list value) (i : Z) : option (option Z) :=
  match l with
  | [] => Some None
  | a :: r =>
      match x with
      | VText p =>
          match a with
          | VText s => if glob (lower_text p) (lower_text s) then Some (Some (i + 1)) else match_exact x r (i + 1)
          | _ => None                       (* .lower() on a non-string: AttributeError *)
          end
      | _ => if py_eq a x then Some (Some (i + 1)) else match_exact x r (i + 1)
      end
  end.
Definition fn_MATCH (x arr : value) (ty : Z) : outcome :=
  match arr with
  | VList l =>
      if negb (truthy x) && negb (truthy arr) then Ret (VErr ENA)
      else if negb ((ty =? -1) || (ty =? 0) || (ty =? 1)) then Ret (VErr ENA)
      else match (if ty =? 0 then match_exact x l 0 else match_scan ty x l 0 None) with
           | None => PyExc
           | Some (Some i) => if i =? 0 then Ret (VErr ENA) else Ret (VInt i)
           | Some None => Ret (VErr ENA)
           end
  | _ => Ret (VErr ENA)
  end.

(* ---------- runner entries ---------- *)
Definition e_CHOOSE (a : list Z) : list Z :=
  match a with n :: r => enc_outcome (fn_CHOOSE (fst (dec_vals (Z.to_nat n) r))) | _ => [-1] end.
(* [nargs(1..3); arr; row?; col?] *)
Definition e_INDEX (a : list Z) : list Z :=
  match a with
  | n :: r =>
      let vs := fst (dec_vals (Z.to_nat n) r) in
      match vs with
      | [arr] => enc_outcome (fn_INDEX arr None None)
      | [arr; rw] => enc_outcome (fn_INDEX arr (Some rw) None)
      | [arr; rw; cl] => enc_outcome (fn_INDEX arr (Some rw) (Some cl))
      | _ => [-1]
      end
  | _ => [-1]
  end.
Definition e_MATCH (a : list Z) : list Z :=
  match a with
  | ty :: r => match fst (dec_vals 2 r) with
               | [x; arr] => enc_outcome (fn_MATCH x arr ty)
               | _ => [-1]
               end
  | _ => [-1]
  end.
