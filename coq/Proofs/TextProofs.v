(* C15: the string algebra of the text functions. *)
From HX Require Import Model.Value Model.Text Gen.CaseTables.
From Coq Require Import Lia ZifyBool.
Open Scope Z_scope.

(* ---------- LEFT / RIGHT / MID / LEN ---------- *)
Theorem LEFT_spec s n : 0 <= n -> fn_LEFT s n = TOk (firstn (Z.to_nat n) s).
Proof. intros H. unfold fn_LEFT. destruct (n <? 0) eqn:E; [exfalso; lia|reflexivity]. Qed.
Theorem LEFT_whole s n : zlen s <= n -> fn_LEFT s n = TOk s.
Proof. intros H. unfold zlen in H. rewrite LEFT_spec by lia. rewrite firstn_all2 by lia. reflexivity. Qed.
Theorem LEFT_zero s : fn_LEFT s 0 = TOk [].
Proof. reflexivity. Qed.
Theorem RIGHT_spec s n : 0 <= n <= zlen s -> fn_RIGHT s n = TOk (skipn (length s - Z.to_nat n) s).
Proof.
  intros H. unfold fn_RIGHT, zskipn, zlen in *. destruct (n <? 0) eqn:E; [exfalso; lia|].
  f_equal. f_equal. lia.
Qed.
Theorem RIGHT_whole s n : zlen s <= n -> fn_RIGHT s n = TOk s.
Proof.
  intros H. unfold fn_RIGHT, zskipn, zlen in *. destruct (n <? 0) eqn:E; [exfalso; lia|].
  replace (Z.max (Z.of_nat (length s) - n) 0) with 0 by lia. reflexivity.
Qed.
Theorem RIGHT_zero s : fn_RIGHT s 0 = TOk [].
Proof.
  unfold fn_RIGHT, zskipn, zlen. cbn [Z.ltb Z.compare]. replace (Z.max (Z.of_nat (length s) - 0) 0) with (Z.of_nat (length s)) by lia.
  rewrite Nat2Z.id. rewrite skipn_all. reflexivity.
Qed.
Theorem negative_count_is_VALUE s n st : n < 0 -> fn_LEFT s n = TValue /\ fn_RIGHT s n = TValue /\ fn_MID s st n = TValue.
Proof.
  intros H. unfold fn_LEFT, fn_RIGHT, fn_MID. destruct (n <? 0) eqn:E; [|exfalso; lia]. rewrite orb_true_r. auto.
Qed.
Theorem MID_spec s st n : 1 <= st -> 0 <= n -> fn_MID s st n = TOk (firstn (Z.to_nat n) (skipn (Z.to_nat (st - 1)) s)).
Proof. intros H1 H2. unfold fn_MID. destruct (st <? 1) eqn:A; [exfalso; lia|]. destruct (n <? 0) eqn:B; [exfalso; lia|]. reflexivity. Qed.

(* LEFT(s,n) & RIGHT(s, LEN(s) - n) = s *)
Theorem left_right_split s n : 0 <= n <= zlen s ->
  exists a b, fn_LEFT s n = TOk a /\ fn_RIGHT s (fn_LEN s - n) = TOk b /\ a ++ b = s.
Proof.
  intros H. unfold fn_LEN. exists (firstn (Z.to_nat n) s), (skipn (Z.to_nat n) s). split; [apply LEFT_spec; lia|].
  split; [|apply firstn_skipn]. rewrite RIGHT_spec by lia. f_equal. f_equal. unfold zlen in *. lia.
Qed.
(* MID(s,1,n) = LEFT(s,n) *)
Theorem mid_is_left s n : fn_MID s 1 n = fn_LEFT s n.
Proof. unfold fn_MID, fn_LEFT. cbn [Z.ltb Z.compare orb]. destruct (n <? 0); reflexivity. Qed.
(* LEN(a & b) = LEN(a) + LEN(b) *)
Theorem len_concat a b : fn_LEN (a ++ b) = fn_LEN a + fn_LEN b.
Proof. unfold fn_LEN, zlen. rewrite app_length. lia. Qed.

(* ---------- UPPER / LOWER ---------- *)
Definition char_ok (f : Z -> list Z) (c : Z) : bool := list_eqb (flat_map f (f c)) (f c).
Lemma list_eqb_true a : forall b, list_eqb a b = true -> a = b.
Proof.
  induction a as [|x a IH]; intros [|y b]; cbn [list_eqb]; try discriminate; [reflexivity|].
  intros H. apply andb_prop in H. destruct H as [H1 H2]. apply Z.eqb_eq in H1. subst. f_equal. apply IH. exact H2.
Qed.
Lemma lookup_in c rows v : lookup_case c rows = Some v -> In (c, v) rows.
Proof.
  induction rows as [|[k w] r IH]; cbn; [discriminate|]. destruct (Z.eqb_spec k c); [intros E; inversion E; subst; auto|auto].
Qed.
(* finite facts about the generated table *)
Lemma table_upper_ok : forallb (fun row => char_ok up_char (fst row)) case_rows = true.
Proof. vm_compute. reflexivity. Qed.
Lemma table_lower_ok : forallb (fun row => char_ok lo_char (fst row)) case_rows = true.
Proof. vm_compute. reflexivity. Qed.
Lemma table_uncased_fixed :
  forallb (fun row => let '(c, (u, l, t, ca)) := row in
             ca || (list_eqb u [c] && list_eqb l [c] && list_eqb t [c])) case_rows = true.
Proof. vm_compute. reflexivity. Qed.

Lemma up_char_idem c : flat_map up_char (up_char c) = up_char c.
Proof.
  destruct (lookup_case c case_rows) as [v|] eqn:E.
  - apply lookup_in in E. pose proof table_upper_ok as T. rewrite forallb_forall in T. specialize (T _ E).
    apply list_eqb_true. exact T.
  - unfold up_char at 2 3. rewrite E. cbn [flat_map]. unfold up_char. rewrite E. reflexivity.
Qed.
Lemma lo_char_idem c : flat_map lo_char (lo_char c) = lo_char c.
Proof.
  destruct (lookup_case c case_rows) as [v|] eqn:E.
  - apply lookup_in in E. pose proof table_lower_ok as T. rewrite forallb_forall in T. specialize (T _ E).
    apply list_eqb_true. exact T.
  - unfold lo_char at 2 3. rewrite E. cbn [flat_map]. unfold lo_char. rewrite E. reflexivity.
Qed.
Lemma flat_map_idem (f : Z -> list Z) : (forall c, flat_map f (f c) = f c) -> forall s, flat_map f (flat_map f s) = flat_map f s.
Proof. intros H. induction s as [|c r IH]; [reflexivity|]. cbn [flat_map]. rewrite flat_map_app, H, IH. reflexivity. Qed.

Theorem UPPER_idempotent s : fn_UPPER (fn_UPPER s) = fn_UPPER s.
Proof. apply flat_map_idem. exact up_char_idem. Qed.
Theorem LOWER_idempotent s : fn_LOWER (fn_LOWER s) = fn_LOWER s.
Proof. apply flat_map_idem. exact lo_char_idem. Qed.
Theorem UPPER_LOWER_charwise a b : fn_UPPER (a ++ b) = fn_UPPER a ++ fn_UPPER b /\ fn_LOWER (a ++ b) = fn_LOWER a ++ fn_LOWER b.
Proof. split; apply flat_map_app. Qed.

(* "change only letter case": characters that are not cased are left alone *)
Lemma uncased_fixed c : cased c = false -> up_char c = [c] /\ lo_char c = [c] /\ ti_char c = [c].
Proof.
  unfold cased, up_char, lo_char, ti_char. destruct (lookup_case c case_rows) as [[[[u l] t] ca]|] eqn:E; [|auto].
  intros ->. apply lookup_in in E. pose proof table_uncased_fixed as T. rewrite forallb_forall in T. specialize (T _ E).
  cbn in T. apply andb_prop in T. destruct T as [T T3]. apply andb_prop in T. destruct T as [T1 T2].
  apply list_eqb_true in T1, T2, T3. subst. auto.
Qed.
Theorem UPPER_LOWER_fix_uncased s : Forall (fun c => cased c = false) s -> fn_UPPER s = s /\ fn_LOWER s = s.
Proof.
  unfold fn_UPPER, fn_LOWER. induction 1 as [|c r Hc Fr [IH1 IH2]]; [auto|].
  destruct (uncased_fixed c Hc) as (U & L & _). cbn [flat_map]. rewrite U, L, IH1, IH2. auto.
Qed.
Lemma title_run_uncased s : Forall (fun c => cased c = false) s -> forall prev, fst (title_run prev s) = s.
Proof.
  induction 1 as [|c r Hc Fr IH]; intros prev; [reflexivity|]. cbn [title_run].
  specialize (IH (cased c)). destruct (title_run (cased c) r) as [o st]. cbn [fst] in *. subst o.
  destruct (uncased_fixed c Hc) as (_ & L & T). rewrite L, T. destruct prev; reflexivity.
Qed.
Theorem PROPER_fix_uncased s : Forall (fun c => cased c = false) s -> fn_PROPER s = s.
Proof. intros F. apply title_run_uncased. exact F. Qed.

(* ---------- PROPER: idempotent except on the characters whose mapping contains an uncased character ---------- *)
(* per-character condition, decidable: re-running title() over the image of c, from either state, reproduces
   the image and leaves the state that c itself leaves *)
Definition proper_char_ok (c : Z) : bool :=
  let chk (prev : bool) :=
    let img := if prev then lo_char c else ti_char c in
    let '(o, st) := title_run prev img in
    list_eqb o img && match img with [] => true | _ => Bool.eqb st (cased c) end in
  chk true && chk false.

Lemma title_run_app prev a b :
  title_run prev (a ++ b) = let '(o1, st) := title_run prev a in let '(o2, st') := title_run st b in (o1 ++ o2, st').
Proof.
  revert prev. induction a as [|c r IH]; intros prev.
  - cbn [app title_run]. destruct (title_run prev b). reflexivity.
  - cbn [app title_run]. rewrite IH. destruct (title_run (cased c) r) as [o1 st]. destruct (title_run st b) as [o2 st'].
    rewrite app_assoc. reflexivity.
Qed.
Lemma title_run_nil_state prev s : s = [] -> title_run prev s = ([], prev).
Proof. intros ->. reflexivity. Qed.

(* images are never empty on the table *)
Lemma table_images_nonempty :
  forallb (fun row => let '(c, (u, l, t, ca)) := row in
             negb (list_eqb u []) && negb (list_eqb l []) && negb (list_eqb t [])) case_rows = true.
Proof. vm_compute. reflexivity. Qed.
Lemma images_nonempty c : lo_char c <> [] /\ ti_char c <> [].
Proof.
  unfold lo_char, ti_char. destruct (lookup_case c case_rows) as [[[[u l] t] ca]|] eqn:E; [|split; discriminate].
  apply lookup_in in E. pose proof table_images_nonempty as T. rewrite forallb_forall in T. specialize (T _ E). cbn in T.
  apply andb_prop in T. destruct T as [T T3]. apply andb_prop in T. destruct T as [_ T2].
  split; intros ->; discriminate.
Qed.

Theorem PROPER_idempotent_partial s : Forall (fun c => proper_char_ok c = true) s -> fn_PROPER (fn_PROPER s) = fn_PROPER s.
Proof.
  intros F. unfold fn_PROPER.
  assert (forall prev, title_run prev (fst (title_run prev s)) =
                       (fst (title_run prev s), match s with [] => prev | _ => snd (title_run prev s) end)) as G.
  { induction F as [|c r Hc Fr IH]; intros prev; [reflexivity|].
    cbn [title_run]. specialize (IH (cased c)). destruct (title_run (cased c) r) as [o st] eqn:Er. cbn [fst snd] in *.
    rewrite title_run_app.
    unfold proper_char_ok in Hc. apply andb_prop in Hc. destruct Hc as [Ht Hf].
    set (img := if prev then lo_char c else ti_char c).
    assert (title_run prev img = (img, cased c)) as Eimg.
    { destruct (images_nonempty c) as [Nl Nt].
      destruct prev; subst img; cbv zeta in Ht, Hf.
      - destruct (title_run true (lo_char c)) as [o' st']. apply andb_prop in Ht. destruct Ht as [H1 H2].
        apply list_eqb_true in H1. subst o'. destruct (lo_char c); [congruence|]. apply Bool.eqb_prop in H2. subst. reflexivity.
      - destruct (title_run false (ti_char c)) as [o' st']. apply andb_prop in Hf. destruct Hf as [H1 H2].
        apply list_eqb_true in H1. subst o'. destruct (ti_char c); [congruence|]. apply Bool.eqb_prop in H2. subst. reflexivity. }
    rewrite Eimg. rewrite IH. f_equal. destruct r; [cbn in Er; inversion Er; reflexivity|reflexivity]. }
  rewrite G. reflexivity.
Qed.
(* the hypothesis is not vacuous and not trivial: it fails exactly on the generated table's exceptions *)
Definition proper_exceptions : list Z := map fst (filter (fun row => negb (proper_char_ok (fst row))) case_rows).
Lemma proper_ok_outside_table c : lookup_case c case_rows = None -> proper_char_ok c = true.
Proof.
  intros E. unfold proper_char_ok, lo_char, ti_char, cased. rewrite E. cbn [title_run]. unfold lo_char, ti_char, cased. rewrite E.
  cbn. rewrite Z.eqb_refl. reflexivity.
Qed.
Theorem PROPER_idempotent_refuted : exists s, fn_PROPER (fn_PROPER s) <> fn_PROPER s.
Proof. exists [97; 304; 98]. vm_compute. discriminate. Qed.

(* ---------- CLEAN ---------- *)
Theorem CLEAN_idempotent s : fn_CLEAN (fn_CLEAN s) = fn_CLEAN s.
Proof.
  unfold fn_CLEAN. induction s as [|c r IH]; [reflexivity|]. cbn [filter]. destruct (31 <? c) eqn:E; [|exact IH].
  cbn [filter]. rewrite E, IH. reflexivity.
Qed.
Theorem CLEAN_removes_only_controls s : fn_CLEAN s = filter (fun c => negb (c <=? 31)) s /\
  (Forall (fun c => 31 < c) s -> fn_CLEAN s = s).
Proof.
  split.
  - unfold fn_CLEAN. apply filter_ext. intros c. lia.
  - unfold fn_CLEAN. induction 1 as [|c r Hc F IH]; [reflexivity|]. cbn [filter]. destruct (31 <? c) eqn:E; [|exfalso; lia].
    rewrite IH. reflexivity.
Qed.

(* ---------- TRIM ---------- *)
Definition nonspace (s : list Z) : list Z := filter (fun c => negb (c =? 32)) s.
Fixpoint nodouble (s : list Z) : Prop :=
  match s with
  | a :: ((b :: _) as r) => ~ (a = 32 /\ b = 32) /\ nodouble r
  | _ => True
  end.
Definition nolead (s : list Z) : Prop := match s with c :: _ => c <> 32 | [] => True end.
Definition notrail (s : list Z) : Prop := nolead (rev s).

Lemma squeeze_nonspace s : nonspace (squeeze s) = nonspace s.
Proof.
  unfold nonspace. induction s as [|c r IH]; [reflexivity|]. cbn [squeeze]. destruct (c =? 32) eqn:E.
  - destruct r as [|d r']; [reflexivity|]. destruct (d =? 32) eqn:E2.
    + rewrite IH. cbn [filter]. rewrite E. reflexivity.
    + cbn [filter]. rewrite E. cbn [negb]. exact IH.
  - cbn [filter]. rewrite E. cbn [negb]. rewrite IH. reflexivity.
Qed.
Lemma squeeze_head s : match squeeze s, s with
                       | c :: _, d :: _ => c = d
                       | [], [] => True
                       | _, _ => False
                       end.
Proof.
  induction s as [|c r IH]; [exact I|]. cbn [squeeze]. destruct (c =? 32) eqn:E; [|reflexivity].
  destruct r as [|d r']; [reflexivity|]. destruct (d =? 32) eqn:E2; [|reflexivity].
  destruct (squeeze (d :: r')) as [|x xs]; [contradiction|]. subst x. lia.
Qed.
Lemma squeeze_nodouble s : nodouble (squeeze s).
Proof.
  induction s as [|c r IH]; [exact I|]. cbn [squeeze]. destruct (c =? 32) eqn:E.
  - destruct r as [|d r']; [exact I|]. destruct (d =? 32) eqn:E2; [exact IH|].
    pose proof (squeeze_head (d :: r')) as H. destruct (squeeze (d :: r')) as [|x xs] eqn:Es; [exact I|]. subst x.
    split; [lia|exact IH].
  - pose proof (squeeze_head r) as H. destruct (squeeze r) as [|x xs] eqn:Es; [exact I|]. split; [lia|exact IH].
Qed.
Lemma squeeze_fixed s : nodouble s -> squeeze s = s.
Proof.
  induction s as [|c r IH]; [reflexivity|]. intros N. cbn [squeeze]. destruct (c =? 32) eqn:E.
  - destruct r as [|d r']; [reflexivity|]. destruct N as [N1 N2]. destruct (d =? 32) eqn:E2; [exfalso; apply N1; lia|].
    rewrite IH by exact N2. reflexivity.
  - rewrite IH; [reflexivity|]. destruct r; [exact I|]. destruct N. assumption.
Qed.
Lemma nodouble_tail c r : nodouble (c :: r) -> nodouble r.
Proof. destruct r; [intros; exact I|]. intros [_ H]. exact H. Qed.

Lemma lstrip_nonspace s : nonspace (lstrip s) = nonspace s.
Proof. unfold nonspace. induction s as [|c r IH]; [reflexivity|]. cbn [lstrip]. destruct (c =? 32) eqn:E; [|reflexivity]. cbn [filter]. rewrite E. exact IH. Qed.
Lemma lstrip_nolead s : nolead (lstrip s).
Proof. induction s as [|c r IH]; [exact I|]. cbn [lstrip]. destruct (c =? 32) eqn:E; [exact IH|cbn; lia]. Qed.
Lemma lstrip_nodouble s : nodouble s -> nodouble (lstrip s).
Proof. induction s as [|c r IH]; [auto|]. intros N. cbn [lstrip]. destruct (c =? 32); [apply IH; eapply nodouble_tail; exact N|exact N]. Qed.
Lemma lstrip_fixed s : nolead s -> lstrip s = s.
Proof. destruct s as [|c r]; [reflexivity|]. cbn. intros H. destruct (c =? 32) eqn:E; [exfalso; lia|reflexivity]. Qed.

(* trailing: stated on the list itself *)
Fixpoint lastsp (s : list Z) : bool := match s with [] => false | [c] => c =? 32 | _ :: r => lastsp r end.
Lemma rstrip_nonspace s : nonspace (rstrip s) = nonspace s.
Proof.
  unfold nonspace. induction s as [|c r IH]; [reflexivity|]. cbn [rstrip]. destruct (rstrip r) as [|x xs] eqn:Er.
  - cbn [filter] in IH. destruct (c =? 32) eqn:E; cbn [filter]; rewrite E; cbn [negb]; rewrite <- IH; reflexivity.
  - cbn [filter]. rewrite <- IH. reflexivity.
Qed.
Lemma rstrip_notrail s : lastsp (rstrip s) = false.
Proof.
  induction s as [|c r IH]; [reflexivity|]. cbn [rstrip]. destruct (rstrip r) as [|x xs] eqn:Er.
  - destruct (c =? 32) eqn:E; [reflexivity|cbn; exact E].
  - exact IH.
Qed.
Lemma rstrip_fixed s : lastsp s = false -> rstrip s = s.
Proof.
  induction s as [|c r IH]; [reflexivity|]. intros H. cbn [rstrip]. destruct r as [|d r'].
  - cbn. cbn in H. rewrite H. reflexivity.
  - rewrite IH by exact H. reflexivity.
Qed.
Lemma rstrip_head s : match rstrip s, s with
                      | c :: _, d :: _ => c = d
                      | [], _ => True
                      | _ :: _, [] => False
                      end.
Proof. destruct s as [|c r]; [exact I|]. cbn [rstrip]. destruct (rstrip r); [destruct (c =? 32); reflexivity|reflexivity]. Qed.
Lemma rstrip_nolead s : nolead s -> nolead (rstrip s).
Proof. intros H. pose proof (rstrip_head s) as R. destruct (rstrip s) as [|x xs]; [exact I|]. destruct s; [contradiction|]. subst. exact H. Qed.
Lemma rstrip_nodouble s : nodouble s -> nodouble (rstrip s).
Proof.
  induction s as [|c r IH]; [auto|]. intros N. cbn [rstrip]. pose proof (rstrip_head r) as R.
  destruct (rstrip r) as [|x xs] eqn:Er; [destruct (c =? 32); exact I|].
  destruct r as [|d r']; [contradiction|]. subst x. destruct N as [N1 N2]. split; [exact N1|]. apply IH. exact N2.
Qed.

Definition trimmed (s : list Z) : Prop := nodouble s /\ nolead s /\ lastsp s = false.

Theorem TRIM_normal s : trimmed (fn_TRIM s).
Proof.
  unfold fn_TRIM, trimmed. repeat split.
  - apply rstrip_nodouble, lstrip_nodouble, squeeze_nodouble.
  - apply rstrip_nolead, lstrip_nolead.
  - apply rstrip_notrail.
Qed.
Theorem TRIM_fixed s : trimmed s -> fn_TRIM s = s.
Proof. intros (N & L & T). unfold fn_TRIM. rewrite squeeze_fixed, lstrip_fixed, rstrip_fixed by assumption. reflexivity. Qed.
Theorem TRIM_idempotent s : fn_TRIM (fn_TRIM s) = fn_TRIM s.
Proof. apply TRIM_fixed, TRIM_normal. Qed.
(* it changes surplus spaces only: every other character is kept, in order *)
Theorem TRIM_keeps_nonspaces s : nonspace (fn_TRIM s) = nonspace s.
Proof. unfold fn_TRIM. rewrite rstrip_nonspace, lstrip_nonspace, squeeze_nonspace. reflexivity. Qed.

(* ---------- CHAR / CODE ---------- *)
Theorem CODE_CHAR n : 0 <= n <= 1114111 -> exists s, fn_CHAR n = TOk s /\ fn_CODE s = Some n.
Proof.
  intros H. unfold fn_CHAR. destruct ((0 <=? n) && (n <=? 1114111)) eqn:E; [|exfalso; lia]. eexists; split; reflexivity.
Qed.

(* ---------- CONCATENATE / TEXTJOIN ---------- *)
Theorem CONCATENATE_spec a b : concat_items (a ++ b) = concat_items a ++ concat_items b.
Proof. induction a as [|[s|] r IH]; cbn [app concat_items]; [reflexivity| |exact IH]. rewrite IH, app_assoc. reflexivity. Qed.
Theorem CONCATENATE_items s r : concat_items (Some s :: r) = s ++ concat_items r /\ concat_items (None :: r) = concat_items r.
Proof. split; reflexivity. Qed.
Theorem TEXTJOIN_spec d p r : r <> [] -> join d (p :: r) = p ++ d ++ join d r.
Proof. destruct r; [congruence|reflexivity]. Qed.
Theorem TEXTJOIN_single d p : join d [p] = p /\ join d [] = [].
Proof. split; reflexivity. Qed.
Theorem TEXTJOIN_skips_blanks d items :
  fn_TEXTJOIN d true items = join d (flat_map (fun i => match i with Some s => [s] | None => [] end) items) /\
  fn_TEXTJOIN d false items = join d (map (fun i => match i with Some s => s | None => [] end) items).
Proof. split; reflexivity. Qed.
Lemma join_length d parts : parts <> [] ->
  zlen (join d parts) = fold_right (fun p acc => zlen p + acc) 0 parts + zlen d * (Z.of_nat (length parts) - 1).
Proof.
  induction parts as [|p r IH]; [congruence|]. intros _. destruct r as [|q r'].
  - cbn. unfold zlen. cbn. lia.
  - rewrite TEXTJOIN_spec by discriminate. unfold zlen in *. rewrite !app_length. cbn [fold_right length] in *.
    specialize (IH ltac:(discriminate)). cbn [length] in IH. lia.
Qed.

(* ---------- SUBSTITUTE ---------- *)
Fixpoint occurs (old s : list Z) : bool :=
  match s with
  | [] => false
  | _ :: r => is_prefix old s || occurs old r
  end.
(* positions (0-based) at which old occurs in s, offset by off *)
Fixpoint positions (old s : list Z) (off : nat) : list nat :=
  match s with
  | [] => []
  | _ :: r => (if is_prefix old s then [off] else []) ++ positions old r (S off)
  end.
Lemma positions_shift old s off : positions old s (S off) = map S (positions old s off).
Proof.
  revert off. induction s as [|c r IH]; intros off; [reflexivity|]. cbn [positions]. rewrite map_app, IH.
  destruct (is_prefix old (c :: r)); reflexivity.
Qed.
Lemma occurs_positions old s : occurs old s = false <-> positions old s 0 = [].
Proof.
  generalize 0%nat. induction s as [|c r IH]; intros off; [split; reflexivity|]. cbn [occurs positions].
  destruct (is_prefix old (c :: r)); cbn [orb app]; [split; discriminate|]. apply IH.
Qed.

Lemma is_prefix_app old b : is_prefix old (old ++ b) = true.
Proof. induction old as [|c r IH]; [reflexivity|]. cbn. rewrite Z.eqb_refl. exact IH. Qed.
Lemma skipn_app_exact (a b : list Z) : skipn (length a) (a ++ b) = b.
Proof. induction a; [reflexivity|assumption]. Qed.

(* fuel: any amount >= the length of the text gives the same result *)
Lemma replace_all_fuel old new : old <> [] -> forall f s, (length s <= f)%nat ->
  replace_all f old new s = replace_all (length s) old new s.
Proof.
  intros Hold. induction f as [f IHf] using lt_wf_ind. intros s Hf. destruct s as [|c r].
  - destruct f; reflexivity.
  - destruct f as [|f]; [cbn in Hf; lia|]. cbn [length replace_all]. destruct (is_prefix old (c :: r)) eqn:E.
    + f_equal. set (t := skipn (length old) (c :: r)).
      assert (length t <= length r)%nat as Lt.
      { subst t. rewrite skipn_length. destruct old; [congruence|]. cbn [length]. lia. }
      rewrite (IHf f ltac:(lia) t) by (cbn in Hf; lia).
      rewrite (IHf (length r) ltac:(cbn in Hf; lia) t Lt). reflexivity.
    + f_equal. rewrite (IHf f ltac:(lia) r) by (cbn in Hf; lia). reflexivity.
Qed.
Definition subst_all (old new s : list Z) : list Z := replace_all (length s) old new s.

Theorem SUBSTITUTE_absent text old new k : old <> [] -> occurs old text = false ->
  fn_SUBSTITUTE text old new None = TOk text /\ (1 <= k -> fn_SUBSTITUTE text old new (Some k) = TOk text).
Proof.
  intros Hold Hocc. split.
  - unfold fn_SUBSTITUTE. destruct text as [|c r]; [reflexivity|]. destruct old as [|o os]; [congruence|].
    f_equal. generalize (length (c :: r)). revert Hocc. generalize (c :: r) as s. clear c r.
    intros s Hocc f. revert s Hocc. induction f as [|f IH]; intros s Hocc; [reflexivity|]. destruct s as [|c r]; [reflexivity|].
    cbn [occurs] in Hocc. apply orb_false_elim in Hocc. destruct Hocc as [H1 H2]. cbn [replace_all]. rewrite H1. f_equal. apply IH. exact H2.
  - intros Hk. unfold fn_SUBSTITUTE. destruct (k <=? 0) eqn:E; [exfalso; lia|].
    destruct text as [|c r]; [reflexivity|]. destruct old as [|o os]; [congruence|].
    assert (forall s pre k', occurs (o :: os) s = false -> replace_kth (o :: os) new pre s k' = None) as G.
    { induction s as [|c' r' IH]; intros pre k' Ho; [reflexivity|]. cbn [occurs] in Ho. apply orb_false_elim in Ho.
      destruct Ho as [H1 H2]. cbn [replace_kth]. rewrite H1. apply IH. exact H2. }
    rewrite G by exact Hocc. reflexivity.
Qed.

(* every occurrence is replaced: the text up to the first occurrence is kept, the occurrence becomes new,
   and the rest of the text is treated the same way *)
Definition first_at (old a b : list Z) : Prop :=
  forall i, (i < length a)%nat -> is_prefix old (skipn i (a ++ old ++ b)) = false.
Theorem SUBSTITUTE_all_step old new a b : old <> [] -> first_at old a b ->
  subst_all old new (a ++ old ++ b) = a ++ new ++ subst_all old new b.
Proof.
  intros Hold. unfold subst_all. induction a as [|c a' IH]; intros F.
  - cbn [app]. destruct (old ++ b) as [|x xs] eqn:E; [destruct old; [congruence|discriminate]|].
    cbn [length replace_all]. rewrite <- E, is_prefix_app, skipn_app_exact. f_equal.
    apply replace_all_fuel; [exact Hold|]. assert (length (old ++ b) = S (length xs)) by (rewrite E; reflexivity).
    assert (length old <> 0)%nat by (destruct old; [congruence|discriminate]).
    rewrite app_length in *. lia.
  - cbn [app length replace_all]. pose proof (F 0%nat ltac:(cbn; lia)) as F0. cbn [skipn app] in F0. rewrite F0. cbn [app]. f_equal.
    apply IH. intros i Hi. specialize (F (S i) ltac:(cbn; lia)). exact F.
Qed.
Theorem SUBSTITUTE_all text old new : text <> [] -> old <> [] ->
  fn_SUBSTITUTE text old new None = TOk (subst_all old new text).
Proof. intros Ht Ho. unfold fn_SUBSTITUTE. destruct text; [congruence|]. destruct old; [congruence|]. reflexivity. Qed.
Theorem subst_all_nil old new : subst_all old new [] = [].
Proof. reflexivity. Qed.

(* with an instance number: exactly the k-th occurrence (by position) is replaced; unchanged when there is none *)
Lemma replace_kth_spec old new : forall s pre k, 1 <= k ->
  replace_kth old new pre s k =
    match nth_error (positions old s 0) (Z.to_nat (k - 1)) with
    | Some i => Some (rev pre ++ firstn i s ++ new ++ skipn (i + length old) s)
    | None => None
    end.
Proof.
  induction s as [|c r IH]; intros pre k Hk.
  - cbn. destruct (Z.to_nat (k - 1)); reflexivity.
  - cbn [replace_kth positions]. rewrite positions_shift. destruct (is_prefix old (c :: r)) eqn:E.
    + destruct (k =? 1) eqn:K1.
      * assert (k = 1) by lia. subst k. cbn [Z.sub Z.to_nat app nth_error firstn]. reflexivity.
      * rewrite IH by lia. cbn [app]. replace (Z.to_nat (k - 1)) with (S (Z.to_nat (k - 1 - 1))) by lia. cbn [nth_error].
        rewrite nth_error_map. destruct (nth_error (positions old r 0) (Z.to_nat (k - 1 - 1))) as [j|]; [|reflexivity].
        cbn [option_map rev firstn]. rewrite <- app_assoc. reflexivity.
    + rewrite IH by lia. cbn [app]. rewrite nth_error_map.
      destruct (nth_error (positions old r 0) (Z.to_nat (k - 1))) as [j|]; [|reflexivity].
      cbn [option_map rev firstn]. rewrite <- app_assoc. reflexivity.
Qed.
Theorem SUBSTITUTE_kth text old new k : text <> [] -> old <> [] -> 1 <= k ->
  fn_SUBSTITUTE text old new (Some k) =
    match nth_error (positions old text 0) (Z.to_nat (k - 1)) with
    | Some i => TOk (firstn i text ++ new ++ skipn (i + length old) text)
    | None => TOk text
    end.
Proof.
  intros Ht Ho Hk. unfold fn_SUBSTITUTE. destruct (k <=? 0) eqn:E; [exfalso; lia|].
  destruct text as [|c r]; [congruence|]. destruct old as [|o os]; [congruence|].
  rewrite replace_kth_spec by exact Hk. destruct (nth_error _ _); reflexivity.
Qed.
Theorem SUBSTITUTE_bad_instance text old new k : k <= 0 -> fn_SUBSTITUTE text old new (Some k) = TValue.
Proof. intros H. unfold fn_SUBSTITUTE. destruct (k <=? 0) eqn:E; [reflexivity|exfalso; lia]. Qed.
(* positions really are the occurrences *)
Theorem positions_sound old s i : In i (positions old s 0) <-> (i < length s)%nat /\ is_prefix old (skipn i s) = true.
Proof.
  revert i. induction s as [|c r IH]; intros i; [cbn; split; [contradiction|lia]|].
  cbn [positions]. rewrite positions_shift, in_app_iff, in_map_iff. split.
  - intros [H|(j & <- & Hj)].
    + destruct (is_prefix old (c :: r)) eqn:E; [|contradiction]. destruct H as [<-|[]]. split; [cbn; lia|exact E].
    + apply IH in Hj. cbn [length skipn]. split; [lia|tauto].
  - intros [Hi Hp]. destruct i as [|j].
    + left. cbn [skipn] in Hp. rewrite Hp. left. reflexivity.
    + right. exists j. split; [reflexivity|]. apply IH. cbn [length skipn] in *. split; [lia|exact Hp].
Qed.
