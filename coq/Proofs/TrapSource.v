(* C08: IFERROR, IFNA and the ERROR.TYPE table AS WRITTEN IN logic.py / information.py (Gen/TrapFns.v, regenerated from
   the source on every run), read through the shapes of Model/TrapShape.v, denote the bodies of Model/ErrorFlow.v. *)
From HX Require Import Model.Value Model.Logic Model.PredShape Model.ErrorFlow Model.TrapShape Gen.TrapFns.
Open Scope Z_scope.

Theorem source_IFERROR_is_model args : run_trap gen_IFERROR args = body FIFERROR args.
Proof.
  unfold run_trap, gen_IFERROR, body. destruct args as [|v [|w [|x r]]]; try reflexivity.
  cbn [tf_test tf_then tf_else nth]. destruct v as [| | | | |e| |]; reflexivity.
Qed.
Theorem source_IFNA_is_model args : run_trap gen_IFNA args = body FIFNA args.
Proof.
  unfold run_trap, gen_IFNA, body. destruct args as [|v [|w [|x r]]]; try reflexivity.
  cbn [tf_test tf_then tf_else nth]. destruct v as [| | | | |e| |]; try reflexivity. destruct e; reflexivity.
Qed.
Theorem source_ERROR_TYPE_is_model v :
  run_table gen_ERROR_TYPE_table gen_ERROR_TYPE_default v = error_type v /\ keys_distinct gen_ERROR_TYPE_table = true.
Proof. split; [|reflexivity]. destruct v as [| | | | |e| |]; try reflexivity. destruct e; reflexivity. Qed.
Theorem source_ERROR_TYPE_call v : (forall l, v <> VList l) ->
  body FERRORTYPE [v] = Ret (run_table gen_ERROR_TYPE_table gen_ERROR_TYPE_default v).
Proof.
  intros NL. rewrite (proj1 (source_ERROR_TYPE_is_model v)). destruct v; try reflexivity. exfalso. eapply NL. reflexivity.
Qed.
Theorem source_traps_understood : trap_gen_ok = true.
Proof. reflexivity. Qed.
