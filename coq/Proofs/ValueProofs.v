(* Generic facts about values: induction principle, flatten. *)
From HX Require Import Model.Value.
From Coq Require Import Lia.
Open Scope Z_scope.

Section ValueInd.
  Variable P : value -> Prop.
  Hypothesis HInt : forall z, P (VInt z).
  Hypothesis HFlt : forall q, P (VFlt q).
  Hypothesis HBool : forall b, P (VBool b).
  Hypothesis HText : forall s, P (VText s).
  Hypothesis HBlank : P VBlank.
  Hypothesis HErr : forall e, P (VErr e).
  Hypothesis HDate : forall t, P (VDate t).
  Hypothesis HList : forall l, Forall P l -> P (VList l).
  Fixpoint value_ind' (v : value) : P v :=
    match v with
    | VInt z => HInt z | VFlt q => HFlt q | VBool b => HBool b | VText s => HText s
    | VBlank => HBlank | VErr e => HErr e | VDate t => HDate t
    | VList l => HList l ((fix go (l : list value) : Forall P l :=
                             match l with
                             | [] => Forall_nil P
                             | x :: r => Forall_cons x (value_ind' x) (go r)
                             end) l)
    end.
End ValueInd.

Definition is_leaf (v : value) : Prop := match v with VList _ => False | _ => True end.

Lemma flatten_list l : flatten (VList l) = flat_map flatten l.
Proof. cbn [flatten]. induction l as [|x r IH]; [reflexivity|]. cbn [flat_map]. rewrite <- IH. reflexivity. Qed.

Lemma flatten_leaf v : is_leaf v -> flatten v = [v].
Proof. destruct v; cbn; tauto. Qed.

(* flattening yields the leaves, left to right, whatever the nesting *)
Lemma flatten_args_app a b : flatten_args (a ++ b) = flatten_args a ++ flatten_args b.
Proof. unfold flatten_args. rewrite !flatten_list. apply flat_map_app. Qed.
Lemma flatten_args_cons v r : flatten_args (v :: r) = flatten v ++ flatten_args r.
Proof. unfold flatten_args. rewrite !flatten_list. reflexivity. Qed.
Lemma flatten_args_nil : flatten_args [] = [].
Proof. reflexivity. Qed.
(* regrouping: wrapping a run of arguments into an array (at any depth) does not change the leaves *)
Lemma flatten_args_group a l b : flatten_args (a ++ VList l :: b) = flatten_args (a ++ l ++ b).
Proof.
  rewrite !flatten_args_app, flatten_args_cons. reflexivity.
Qed.
Lemma flatten_leaves v : Forall is_leaf (flatten v).
Proof.
  induction v using value_ind'; try (constructor; [exact I|constructor]).
  rewrite flatten_list. induction H as [|x r Hx Hr IH]; [constructor|]. cbn [flat_map].
  apply Forall_app. split; assumption.
Qed.
Lemma flatten_args_leaves l : Forall is_leaf l -> flatten_args l = l.
Proof.
  induction 1 as [|x r Hx Hr IH]; [reflexivity|]. rewrite flatten_args_cons, IH, (flatten_leaf x Hx). reflexivity.
Qed.
Lemma flatten_idempotent args : flatten_args (flatten_args args) = flatten_args args.
Proof. apply flatten_args_leaves. apply flatten_leaves. Qed.

Lemma first_error_app a b : first_error (a ++ b) = match first_error a with Some e => Some e | None => first_error b end.
Proof. induction a as [|x r IH]; [reflexivity|]. destruct x; cbn; auto. Qed.
Lemma first_error_none l : first_error l = None <-> Forall (fun v => is_err v = false) l.
Proof.
  induction l as [|x r IH]; [split; [constructor|reflexivity]|].
  destruct x; cbn; rewrite ?IH; try (split; [intros H; constructor; [reflexivity|exact H]|inversion 1; assumption]).
  split; [discriminate|inversion 1; discriminate].
Qed.
Lemma first_error_some l e : first_error l = Some e ->
  exists a b, l = a ++ VErr e :: b /\ Forall (fun v => is_err v = false) a.
Proof.
  induction l as [|x r IH]; [discriminate|]. destruct x; cbn; try (intros H; destruct (IH H) as (pre & post & -> & F);
    eexists (_ :: pre), post; split; [reflexivity|constructor; [reflexivity|exact F]]).
  intros H. inversion H; subst. exists [], r. split; [reflexivity|constructor].
Qed.
