(* A small language for the slicing functions of formulas/text.py (LEFT, RIGHT, MID) with PYTHON's slice semantics
   (negative indices count from the end, out-of-range indices are clamped).  Gen/TextSlices.v holds the three
   functions as terms of this language, regenerated from the source on every run by tools/gen/textslices.py;
   Proofs/SliceProofs.v proves that they denote fn_LEFT / fn_RIGHT / fn_MID of Model/Text.v for every text and count. *)
From HX Require Export Model.Text.
Open Scope Z_scope.

Inductive iexp :=
| IArg (k : nat)                 (* k-th integer parameter after the text *)
| ILit (z : Z)
| ILen                           (* len(text) *)
| IAdd (a b : iexp) | ISub (a b : iexp) | IMax (a b : iexp) | IMin (a b : iexp).

Inductive sexp :=
| SText                                          (* the text parameter *)
| SSlice (s : sexp) (lo hi : option iexp).       (* s[lo:hi] *)

Inductive gexp := GLt (a b : iexp).               (* a < b *)

(* if g1 or g2 or ... or not isinstance(text, str): return error.VALUE ; return body *)
Record slicefn := { sf_arity : nat; sf_guards : list gexp; sf_body : sexp }.

Fixpoint ieval (len : Z) (args : list Z) (e : iexp) : Z :=
  match e with
  | IArg k => nth k args 0
  | ILit z => z
  | ILen => len
  | IAdd a b => ieval len args a + ieval len args b
  | ISub a b => ieval len args a - ieval len args b
  | IMax a b => Z.max (ieval len args a) (ieval len args b)
  | IMin a b => Z.min (ieval len args a) (ieval len args b)
  end.

(* PySlice_AdjustIndices with step 1 *)
Definition norm_index (len i : Z) : Z := if i <? 0 then Z.max (i + len) 0 else Z.min i len.
Definition pyslice (s : list Z) (lo hi : option Z) : list Z :=
  let len := zlen s in
  let l := match lo with None => 0 | Some i => norm_index len i end in
  let h := match hi with None => len | Some i => norm_index len i end in
  firstn (Z.to_nat (h - l)) (skipn (Z.to_nat l) s).

Fixpoint seval (text : list Z) (args : list Z) (e : sexp) : list Z :=
  match e with
  | SText => text
  | SSlice s lo hi => pyslice (seval text args s) (option_map (ieval (zlen text) args) lo) (option_map (ieval (zlen text) args) hi)
  end.

Definition geval (len : Z) (args : list Z) (g : gexp) : bool :=
  match g with GLt a b => ieval len args a <? ieval len args b end.

Definition run_slicefn (f : slicefn) (text : list Z) (args : list Z) : tres :=
  if negb (Nat.eqb (length args) (sf_arity f)) then TExc
  else if existsb (geval (zlen text) args) (sf_guards f) then TValue
  else TOk (seval text args (sf_body f)).
