# -*- coding: utf-8 -*-
"""C14 - date and time functions.  Model: coq/Model/DateFns.v.  Theorems: Properties/C14.v."""
import calendar
import datetime
from fractions import Fraction

from common import Result, pmap, compare, Catch

ID = 'C14'
COQ_FILES = ['Properties/C14.v', 'Proofs/DateFnsProofs.v', 'Proofs/SerialProofs.v', 'Proofs/CalendarProofs.v',
             'Proofs/CalendarCycle.v']
TRUSTED = [
    'modelled, not verified: CPython datetime (constructor validity, weekday(), field access); dateutil (ISO text is '
    'checked by the oracle only, it is not in the model); Python int() truncation of the float serial difference',
    'the model takes Python ints and datetimes; numeric text / float arguments of DATE, TIME, EDATE are outside it',
]
EXPLANATION = ('Coq theorems over Model/DateFns.v for every valid date 1900..9999 and every integer offset: DATE/TIME '
               'components, components of whole-day serials = calendar date of the ordinal (calendar bijection proved '
               'for all ordinals), WEEKDAY numberings and #NUM!, DAYS/DATEDIF-d = ordinal difference (partial: outside '
               'the 1900 phantom-day window, with a _refuted witness for the window), DATEDIF m/y/ym against a '
               'declarative whole-months/whole-years specification, EDATE = month-index arithmetic with day clamp and '
               '#NUM! outside 1900..9999.  Tied to dateandtime.py by correspondence on days, date pairs, EDATE offsets '
               'and serials, plus an independent oracle through Parser.parse.')
ASSUMPTIONS = ['arguments are integers / dates as produced by DATE and TIME; ISO text goes through dateutil (oracle only)']

DAY_US = 86400000000
D0 = datetime.date(1899, 12, 30).toordinal()
ORD_1900 = datetime.date(1900, 1, 1).toordinal()
ORD_MAR1 = datetime.date(1900, 3, 1).toordinal()
ORD_MAX = datetime.date(9999, 12, 31).toordinal()
UNITS = ['d', 'm', 'y', 'ym']


def tup(t):
    return [t.year, t.month, t.day, t.hour, t.minute, t.second, t.microsecond]


def enc_res(v):
    from hotxlfp.formulas import error
    if isinstance(v, error.XLError):
        return [2] if v is error.NUM else ['ERR', str(v)]
    if isinstance(v, datetime.datetime):
        return [1] + tup(v)
    if isinstance(v, bool):
        return ['BOOL', v]
    if isinstance(v, int):
        return [0, v]
    return ['OTHER', repr(v)]


def _impl_DATE_raw(c):
    from hotxlfp.formulas import dateandtime
    return enc_res(dateandtime.DATE(*c))


def _impl_TIME_raw(c):
    from hotxlfp.formulas import dateandtime
    return enc_res(dateandtime.TIME(*c))


def _impl_WEEKDAY_raw(c):
    from hotxlfp.formulas import dateandtime
    return enc_res(dateandtime.WEEKDAY(datetime.datetime(*c[1:]), c[0]))


def _impl_DATEDIF_raw(c):
    from hotxlfp.formulas import dateandtime
    return enc_res(dateandtime.DATEDIF(datetime.datetime(*c[1:8]), datetime.datetime(*c[8:15]), UNITS[c[0]]))


def _impl_DAYS_raw(c):
    from hotxlfp.formulas import dateandtime
    v = dateandtime.DAYS(datetime.datetime(*c[0:7]), datetime.datetime(*c[7:14]))
    return ['V', repr(v)]


def _impl_EDATE_raw(c):
    from hotxlfp.formulas import dateandtime
    return enc_res(dateandtime.EDATE(datetime.datetime(*c[1:]), c[0]))


def _impl_serial_fields_raw(n):
    from hotxlfp.formulas import dateandtime, error
    ys = [f(n) for f in (dateandtime.YEAR, dateandtime.MONTH, dateandtime.DAY, dateandtime.HOUR, dateandtime.MINUTE,
                         dateandtime.SECOND)]
    if any(isinstance(y, error.XLError) for y in ys):
        return [0] if all(y is error.NUM for y in ys) else ['ERR']
    return [1] + ys + [0]


_impl_DATE = Catch(_impl_DATE_raw, [3])
_impl_TIME = Catch(_impl_TIME_raw, [3])
_impl_WEEKDAY = Catch(_impl_WEEKDAY_raw, [3])
_impl_DATEDIF = Catch(_impl_DATEDIF_raw, [3])
_impl_DAYS = Catch(_impl_DAYS_raw, [3])
_impl_EDATE = Catch(_impl_EDATE_raw, [3])
_impl_serial_fields = Catch(_impl_serial_fields_raw, [3])


def eq_days(model, impl):
    if impl[0] != 'V':
        return False
    v = eval(impl[1])
    return Fraction(v) == Fraction(model[0], DAY_US)


# ---------------- oracle (independent of the model) ----------------
def in_window(a, b):
    """Known-finding class: the pair is affected by Excel's phantom 29 February 1900 / the serial-0 convention."""
    mar1 = datetime.datetime(1900, 3, 1)
    jan1 = datetime.datetime(1900, 1, 1)
    lo, hi = min(a, b), max(a, b)
    if lo >= mar1:
        return False
    return hi >= mar1 or lo == jan1


def ref_months(s, e):
    k = 0
    si = s.year * 12 + s.month
    ei = e.year * 12 + e.month
    k = ei - si - 2
    while (si + k + 1, s.day) <= (ei, e.day):
        k += 1
    return k


def ref_years(s, e):
    k = e.year - s.year - 2
    while (s.year + k + 1, s.month, s.day) <= (e.year, e.month, e.day):
        k += 1
    return k


def check_pair(pair):
    """pair = [[y,m,d],[y,m,d]]: DAYS and DATEDIF through Parser.parse against date arithmetic."""
    import hotxlfp
    a, b = datetime.datetime(*pair[0]), datetime.datetime(*pair[1])
    p = hotxlfp.Parser()
    A, B = 'DATE(%d,%d,%d)' % tuple(pair[0]), 'DATE(%d,%d,%d)' % tuple(pair[1])
    out = []

    def res(f):
        r = p.parse(f)
        return r['result'] if r['error'] is None else r['error']
    cls = 'window_1900' if in_window(a, b) else None
    true_days = b.toordinal() - a.toordinal()
    got = res('DAYS(%s,%s)' % (B, A))
    if got != true_days:
        out.append(('DAYS(%s,%s)' % (B, A), cls, true_days, got))
    if a > b:
        for u in UNITS:
            got = res('DATEDIF(%s,%s,"%s")' % (A, B, u))
            if got != '#NUM!':
                out.append(('DATEDIF start after end, unit %s' % u, None, '#NUM!', got))
    else:
        exp = {'d': true_days, 'm': ref_months(a, b) if a < b else 0, 'y': ref_years(a, b) if a < b else 0}
        exp['ym'] = exp['m'] % 12
        for u in UNITS:
            f = 'DATEDIF(%s,%s,"%s")' % (A, B, u)
            got = res(f)
            if got != exp[u] or isinstance(got, bool):
                out.append((f, cls if u == 'd' else None, exp[u], got))
    return out


def check_day(o):
    """Components and weekday of the day with ordinal o through Parser.parse."""
    import hotxlfp
    d = datetime.date.fromordinal(o)
    p = hotxlfp.Parser()
    D = 'DATE(%d,%d,%d)' % (d.year, d.month, d.day)
    out = []

    def res(f):
        r = p.parse(f)
        return r['result'] if r['error'] is None else r['error']
    iso = d.isoweekday()  # Monday 1 .. Sunday 7
    exp = [('YEAR(%s)' % D, d.year), ('MONTH(%s)' % D, d.month), ('DAY(%s)' % D, d.day),
           ('WEEKDAY(%s)' % D, iso % 7 + 1), ('WEEKDAY(%s,1)' % D, iso % 7 + 1), ('WEEKDAY(%s,2)' % D, iso),
           ('WEEKDAY(%s,3)' % D, iso - 1), ('WEEKDAY(%s,4)' % D, '#NUM!'), ('WEEKDAY(%s,0)' % D, '#NUM!'),
           ('WEEKDAY(%s,0-1)' % D, '#NUM!'), ('WEEKDAY(%s,0-2)' % D, '#NUM!'), ('WEEKDAY(%s,0-3)' % D, '#NUM!'), ('WEEKDAY(%s,0-4)' % D, '#NUM!'),
           ('WEEKDAY(%s,5)' % D, '#NUM!'), ('WEEKDAY(%s,100)' % D, '#NUM!')]
    if o >= ORD_MAR1:
        n = o - D0
        exp += [('YEAR(%d)' % n, d.year), ('MONTH(%d)' % n, d.month), ('DAY(%d)' % n, d.day)]
    if d.year - 1900 < 1900:
        exp += [('YEAR(DATE(%d,%d,%d))' % (d.year - 1900, d.month, d.day), d.year)]
    for f, e in exp:
        got = res(f)
        if got != e or isinstance(got, bool):
            out.append((f, None, e, got))
    return out


def check_edate(c):
    """c = [k, y, m, d]: EDATE through Parser.parse against month-index arithmetic."""
    import hotxlfp
    k, y, m, d = c
    p = hotxlfp.Parser()
    f = 'EDATE(DATE(%d,%d,%d),%d)' % (y, m, d, k) if k >= 0 else 'EDATE(DATE(%d,%d,%d),0-%d)' % (y, m, d, -k)
    r = p.parse(f)
    got = r['result'] if r['error'] is None else r['error']
    M = y * 12 + (m - 1) + k
    yy, mm = divmod(M, 12)
    mm += 1
    if yy < 1900 or yy > 9999:
        exp = '#NUM!'
    else:
        exp = datetime.datetime(yy, mm, min(d, calendar.monthrange(yy, mm)[1]))
    return [] if got == exp else [(f, None, exp, got)]


def check_time(c):
    import hotxlfp
    h, m, s = c
    p = hotxlfp.Parser()
    out = []
    T = 'TIME(%d,%d,%d)' % (h, m, s)
    for f, e in (('HOUR(%s)' % T, h), ('MINUTE(%s)' % T, m), ('SECOND(%s)' % T, s)):
        r = p.parse(f)
        got = r['result'] if r['error'] is None else r['error']
        if got != e:
            out.append((f, None, e, got))
    return out


def check_iso(c):
    """ISO date-time text (through dateutil): components read back."""
    import hotxlfp
    y, mo, d, h, mi, s = c
    p = hotxlfp.Parser()
    out = []
    for txt in ('%04d-%02d-%02dT%02d:%02d:%02d' % (y, mo, d, h, mi, s), '%04d-%02d-%02d %02d:%02d:%02d' % (y, mo, d, h, mi, s)):
        for fn, e in (('YEAR', y), ('MONTH', mo), ('DAY', d), ('HOUR', h), ('MINUTE', mi), ('SECOND', s)):
            f = '%s("%s")' % (fn, txt)
            r = p.parse(f)
            got = r['result'] if r['error'] is None else r['error']
            if got != e:
                out.append((f, None, e, got))
    f = 'YEAR("%04d-%02d-%02d")' % (y, mo, d)
    r = p.parse(f)
    if r['result'] != y:
        out.append((f, None, y, r))
    return out


CHECKERS = {'pair': check_pair, 'ordinal': check_day, 'edate': check_edate, 'time': check_time, 'iso': check_iso}


def check_case(case):
    for k, fn in CHECKERS.items():
        if k in case:
            return [{'case': case, 'what': w, 'class': cls, 'expected': repr(e), 'observed': repr(g)}
                    for (w, cls, e, g) in fn(case[k])]
    return []


def _worker(kc):
    k, c = kc
    return [(k, c) + x for x in CHECKERS[k](c)]


def day_ordinals(ctx, rng):
    if ctx.thorough:
        return list(range(ORD_1900, ORD_MAX + 1, 3)) + list(range(ORD_1900, ORD_1900 + 3000))
    s = set(range(ORD_1900, ORD_1900 + 800))
    for y in list(range(1900, 10000, 100)) + [1904, 2000, 2023, 2024, 9999]:
        for (m, d) in ((1, 1), (2, 28), (3, 1), (12, 31)):
            o = datetime.date(y, m, d).toordinal()
            s.update(range(max(ORD_1900, o - 2), min(ORD_MAX, o + 2) + 1))
    s.update(range(ORD_1900, ORD_MAX + 1, 997))
    return sorted(s)


def explore(ctx):
    R = Result()
    rng = ctx.rng
    big = ctx.thorough
    # ---- correspondence
    ymd = []
    for _ in range(40000 if big else 6000):
        y = rng.choice([rng.randint(1900, 9999), rng.randint(0, 1899), rng.randint(-5, 10005), 1900, 9999, 8099, 8100, 1899])
        m = rng.choice([rng.randint(1, 12), rng.randint(-1, 14), 2])
        d = rng.choice([rng.randint(1, 28), rng.randint(27, 32), rng.randint(-1, 33), 29])
        ymd.append([y, m, d])
    compare(R, ctx, 'DATE', ymd, lambda c: c, _impl_DATE, key=tuple)
    hms = [[rng.randint(-1, 25), rng.randint(-1, 61), rng.randint(-1, 61)] for _ in range(3000)] + \
          [[h, m, s] for h in (0, 23, 24) for m in (0, 59, 60) for s in (0, 59, 60)]
    compare(R, ctx, 'TIME', hms, lambda c: c, _impl_TIME, key=tuple)
    ords = day_ordinals(ctx, rng)
    wd = [[ty] + tup(datetime.datetime.fromordinal(o)) for o in ords for ty in (1, 2, 3)] + \
         [[ty] + tup(datetime.datetime.fromordinal(rng.choice(ords))) for ty in (0, 4, -1, 11, 17, 100) for _ in range(20)]
    compare(R, ctx, 'WEEKDAY', wd, lambda c: c, _impl_WEEKDAY, key=tuple)

    def rdate(lo=ORD_MAR1, hi=ORD_MAX):
        return datetime.datetime.fromordinal(rng.randint(lo, hi))
    pairs = []
    for _ in range(200000 if big else 12000):
        a = rdate()
        r = rng.random()
        if r < 0.4:
            b = rdate()
        elif r < 0.8:
            b = datetime.datetime.fromordinal(min(ORD_MAX, max(ORD_MAR1, a.toordinal() + rng.randint(-800, 800))))
        else:
            b = a
        pairs.append((a, b))
    early = [(datetime.datetime.fromordinal(rng.randint(ORD_1900, ORD_1900 + 100)),
              datetime.datetime.fromordinal(rng.randint(ORD_1900, ORD_1900 + 100))) for _ in range(1500)]
    dd = [[u] + tup(a) + tup(b) for (a, b) in pairs for u in (rng.randrange(4),)] + \
         [[u] + tup(a) + tup(b) for (a, b) in early for u in (1, 2, 3, 0)]
    compare(R, ctx, 'DATEDIF', dd, lambda c: c, _impl_DATEDIF, key=tuple)
    compare(R, ctx, 'DAYS', [tup(a) + tup(b) for (a, b) in pairs[:5000] + early], lambda c: c, _impl_DAYS, key=tuple,
            eq=eq_days)
    ed = []
    ks = list(range(-14, 15)) + [-120001, -120000, -119999, 119999, 120000, 120001, 1200, -1200, 97197, -97197]
    eom = [28, 29, 30, 31]
    for _ in range(60000 if big else 8000):
        y = rng.choice([rng.randint(1900, 9999), 1900, 1901, 9998, 9999, 2000, 2100, 2024])
        m = rng.randint(1, 12)
        d = min(rng.choice(eom + [rng.randint(1, 28)]), calendar.monthrange(y, m)[1])
        k = rng.choice(ks) if rng.random() < 0.6 else rng.randint(-120000, 120000)
        if rng.random() < 0.1:
            k = rng.choice([(1900 - y) * 12 - m + dlt for dlt in (-1, 0, 1, 2)] + [(9999 - y) * 12 + 12 - m + dlt for dlt in (-1, 0, 1)])
        ed.append([k, y, m, d, 0, 0, 0, 0])
    compare(R, ctx, 'EDATE', ed, lambda c: c, _impl_EDATE, key=tuple)
    sf = list(range(-2, 800)) + [o - D0 for o in ords if o >= ORD_MAR1][:20000]
    compare(R, ctx, 'serial_fields', sf, lambda n: [n], _impl_serial_fields)
    # ---- oracle through Parser.parse
    work = [('ordinal', o) for o in (ords if big else ords[::2])]
    opairs = []
    for (a, b) in pairs[:(40000 if big else 3000)] + early[:400]:
        opairs.append([[a.year, a.month, a.day], [b.year, b.month, b.day]])
    opairs += [[[1900, 2, 28], [1900, 3, 1]], [[1900, 1, 1], [1900, 1, 2]], [[1900, 3, 1], [1900, 3, 2]],
               [[2020, 1, 31], [2020, 2, 29]], [[2020, 2, 29], [2021, 2, 28]], [[2020, 2, 29], [2024, 2, 29]],
               [[1999, 12, 31], [2000, 1, 1]]]
    work += [('pair', c) for c in opairs]
    work += [('edate', [c[0], c[1], c[2], c[3]]) for c in ed[:(20000 if big else 2500)]]
    work += [('time', [h, m, s]) for h in range(0, 24, 1 if big else 5) for m in (0, 1, 30, 59) for s in (0, 29, 59)]
    for _ in range(2000 if big else 250):
        d = datetime.date.fromordinal(rng.randint(ORD_MAR1, ORD_MAX))
        work.append(('iso', [d.year, d.month, d.day, rng.randrange(24), rng.randrange(60), rng.randrange(60)]))
    for vs in pmap(_worker, work):
        for (k, c, w, cls, e, g) in vs:
            R.violate({k: c}, w, cls, repr(e), repr(g))
    R.evaluations += len(work)
    R.rule = ('DATE over valid/invalid/low-year triples; TIME over in/out-of-range triples; WEEKDAY x3 types on every '
              'selected day (+ bad types); DATEDIF d/m/y/ym and DAYS on random, near (<= 800 days apart), equal and '
              'Jan-Apr 1900 pairs; EDATE on end-of-month days x small/huge/boundary offsets; whole-day serials; oracle: '
              'components/weekday per day, pair arithmetic vs date.toordinal, EDATE vs month index, TIME, ISO text. '
              'distinct_nontrivial = distinct inputs per entry point.')
    R.extra['input_distribution'].update({'oracle_items': len(work), 'days': len(ords), 'pairs': len(pairs) + len(early)})
    return R


def search(ctx, proof, res):
    R = Result()
    rng = ctx.rng
    work = []
    for d in res.disagreements:
        c = d['case']
        e = d['entry']
        try:
            if e in ('DATEDIF',):
                work.append(('pair', [c[1:4], c[8:11]]))
            elif e == 'DAYS':
                work.append(('pair', [c[7:10], c[0:3]]))
            elif e == 'EDATE':
                work.append(('edate', [c[0], c[1], c[2], c[3]]))
            elif e == 'WEEKDAY':
                work.append(('ordinal', datetime.date(*c[1:4]).toordinal()))
            elif e == 'DATE' and 1900 <= c[0] <= 9999:
                work.append(('ordinal', datetime.date(*c).toordinal()))
            elif e == 'serial_fields' and c >= 61:
                work.append(('ordinal', c + D0))
        except (ValueError, TypeError):
            pass
    for _ in range(60000):
        a = datetime.date.fromordinal(rng.randint(ORD_MAR1, ORD_MAX))
        b = datetime.date.fromordinal(min(ORD_MAX, max(ORD_MAR1, a.toordinal() + rng.randint(-1000, 1000))))
        work.append(('pair', [[a.year, a.month, a.day], [b.year, b.month, b.day]]))
        work.append(('edate', [rng.randint(-400, 400), a.year, a.month, a.day]))
    work += [('ordinal', o) for o in range(ORD_1900, ORD_MAX, 41)]
    for vs in pmap(_worker, work):
        for (k, c, w, cls, e, g) in vs:
            R.violate({k: c}, w, cls, repr(e), repr(g))
    R.evaluations = len(work)
    return R
