# -*- coding: utf-8 -*-
"""Generates coq/Gen/Sessions.v (python ast, fail-closed): the facts about WHERE state lives that the session model of
C02 / C03 (coq/Model/Sessions.v) is parameterised by.
  parse_uses_private_lexer   grammarparser.Parser.parse lexes through self.lex.clone() passed as lexer=, and __init__
                             builds self.lex / self.yacc per instance
  bindings_per_instance      hotxlfp.Parser.__init__ creates fresh dict objects for variables and functions
  listeners_per_instance     Emitter.__init__ creates a fresh table
  tracebacks_released        Parser.parse's finally clause calls release_tracebacks(), which clears the traceback and
                             context of every error constant
  debug_only_prints          every use of self.debug in hotxlfp.Parser guards only traceback.print_exc()
  no_module_level_state      no `global` statement, no cache decorator, no mutable default argument that is written, no
                             module-level or class-level container mutated from a function, anywhere in the package
                             (outside the generated ply tables)
  registry_closed            register_for is only used as a top-level decorator (the registry is filled at import)
  no_parameter_mutation      no function of the package mutates one of its parameters (or a plain alias of one) in place:
                             no .sort/.append/.extend/... call, no item / slice assignment or deletion, no augmented
                             assignment on it (ply's production object `p` in the p_* grammar actions excepted)"""
import ast
import os
import sys


def dump(n):
    return ast.dump(n, annotate_fields=False)


def find_class(tree, name):
    for n in ast.walk(tree):
        if isinstance(n, ast.ClassDef) and n.name == name:
            return n
    return None


def method(cls, name):
    if cls is None:
        return None
    for f in cls.body:
        if isinstance(f, ast.FunctionDef) and f.name == name:
            return f
    return None


def generate(root):
    notes = []
    facts = {}

    def fact(name, cond, why):
        facts[name] = bool(cond)
        if not cond:
            notes.append('%s: %s' % (name, why))
    gp = ast.parse(open(os.path.join(root, 'hotxlfp', 'grammarparser', 'parser.py')).read())
    base = find_class(gp, 'Parser')
    init = method(base, '__init__')
    parse = method(base, 'parse')
    def assigns_self(fn, attr):
        return [s for s in ast.walk(fn) if isinstance(s, ast.Assign) and len(s.targets) == 1 and isinstance(s.targets[0], ast.Attribute)
                and s.targets[0].attr == attr and isinstance(s.targets[0].value, ast.Name) and s.targets[0].value.id == 'self'] if fn else []
    own_lex = any(isinstance(s.value, ast.Call) and dump(s.value.func) == dump(ast.parse('lex.lex').body[0].value) for s in assigns_self(init, 'lex'))
    own_yacc = any(isinstance(s.value, ast.Call) and dump(s.value.func) == dump(ast.parse('yacc.yacc').body[0].value) for s in assigns_self(init, 'yacc'))
    body = [s for s in (parse.body if parse else []) if not (isinstance(s, ast.Expr) and isinstance(s.value, ast.Constant))]
    private = len(body) == 1 and dump(body[0]) == dump(ast.parse('return self.yacc.parse(input, lexer=self.lex.clone())').body[0])
    fact('parse_uses_private_lexer', own_lex and own_yacc and private, 'Parser.parse is not "return self.yacc.parse(input, lexer=self.lex.clone())" on per-instance lex/yacc')
    hp = ast.parse(open(os.path.join(root, 'hotxlfp', 'parser.py')).read())
    P = find_class(hp, 'Parser')
    pinit = method(P, '__init__')
    fresh = {}
    for s in ast.walk(pinit) if pinit else []:
        if isinstance(s, ast.Assign) and len(s.targets) == 1 and isinstance(s.targets[0], ast.Attribute) and dump(s.targets[0].value) == dump(ast.Name('self', ast.Load())):
            fresh[s.targets[0].attr] = isinstance(s.value, ast.Dict)
    fact('bindings_per_instance', fresh.get('variables') is True and fresh.get('functions') is True, 'self.variables / self.functions are not dict literals created in __init__')
    te = ast.parse(open(os.path.join(root, 'hotxlfp', 'tinyemitter.py')).read())
    einit = method(find_class(te, 'Emitter'), '__init__')
    ok = any(isinstance(s.value, (ast.Dict, ast.Call)) for s in assigns_self(einit, '_e')) and len(assigns_self(einit, '_e')) == 1
    calls_super = pinit is not None and any(isinstance(n, ast.Call) and isinstance(n.func, ast.Attribute) and n.func.attr == '__init__' for n in ast.walk(pinit))
    fact('listeners_per_instance', ok and calls_super, 'Emitter.__init__ does not create its own table, or Parser.__init__ does not call it')
    # ---- tracebacks
    pparse = method(P, 'parse')
    tries = [s for s in (pparse.body if pparse else []) if isinstance(s, ast.Try)]
    fin = tries and any(dump(s) == dump(ast.parse('formulaserror.release_tracebacks()').body[0]) for s in tries[0].finalbody)
    er = ast.parse(open(os.path.join(root, 'hotxlfp', 'formulas', 'error.py')).read())
    consts = [s.targets[0].id for s in er.body if isinstance(s, ast.Assign) and isinstance(s.value, ast.Call) and isinstance(s.value.func, ast.Name) and s.value.func.id == 'XLError']
    rel = None
    for n in er.body:
        if isinstance(n, ast.FunctionDef) and n.name == 'release_tracebacks':
            rel = n
    relok = False
    if rel is not None:
        loops = [s for s in rel.body if isinstance(s, ast.For)]
        if len(loops) == 1 and isinstance(loops[0].iter, ast.Tuple):
            names = [e.id for e in loops[0].iter.elts if isinstance(e, ast.Name)]
            var = loops[0].target.id if isinstance(loops[0].target, ast.Name) else None
            want = [dump(s) for s in ast.parse('%s.__traceback__ = None\n%s.__context__ = None' % (var, var)).body]
            relok = sorted(names) == sorted(consts) and [dump(s) for s in loops[0].body] == want
    fact('tracebacks_released', fin and relok, 'finally: release_tracebacks() clearing every error constant not found')
    # ---- debug
    uses = []
    dbg_ok = True
    for n in ast.walk(P) if P else []:
        for child in ast.iter_child_nodes(n):
            if isinstance(child, ast.Attribute) and child.attr == 'debug' and dump(child.value) == dump(ast.Name('self', ast.Load())) and isinstance(child.ctx, ast.Load):
                uses.append((n, child))
    for parent, use in uses:
        if not (isinstance(parent, ast.If) and parent.test is use and not parent.orelse and
                [dump(s) for s in parent.body] == [dump(s) for s in ast.parse('traceback.print_exc()').body]):
            dbg_ok = False
    passes_debug = any(isinstance(n, ast.keyword) and n.arg == 'debug' for n in ast.walk(pinit)) if pinit else True
    fact('debug_only_prints', dbg_ok and len(uses) >= 1 and not passes_debug, 'self.debug is used for more than guarding traceback.print_exc()')
    # ---- package-wide
    bad = []
    reg_bad = []
    for dirpath, dirs, files in os.walk(os.path.join(root, 'hotxlfp')):
        for fn in files:
            if not fn.endswith('.py') or 'parsetab' in fn:
                continue
            path = os.path.join(dirpath, fn)
            t = ast.parse(open(path).read())
            # module-level mutable containers written from inside a function (memo tables, caches)
            containers = set()
            for n in t.body:
                if isinstance(n, ast.Assign) and (isinstance(n.value, (ast.Dict, ast.List, ast.Set, ast.ListComp, ast.DictComp, ast.SetComp)) or
                                                  (isinstance(n.value, ast.Call) and isinstance(n.value.func, ast.Name) and
                                                   n.value.func.id in ('dict', 'list', 'set', 'defaultdict', 'OrderedDict', 'Counter', 'deque'))):
                    for tg in n.targets:
                        if isinstance(tg, ast.Name):
                            containers.add(tg.id)
            # class-level mutable containers (one object shared by every instance) written through an attribute
            shared_attrs = set()
            for c in ast.walk(t):
                if isinstance(c, ast.ClassDef):
                    for n in c.body:
                        if isinstance(n, ast.Assign) and (isinstance(n.value, (ast.Dict, ast.List, ast.Set, ast.ListComp, ast.DictComp, ast.SetComp)) or
                                                          (isinstance(n.value, ast.Call) and isinstance(n.value.func, ast.Name) and
                                                           n.value.func.id in ('dict', 'list', 'set', 'defaultdict', 'OrderedDict', 'Counter', 'deque'))):
                            for tg in n.targets:
                                if isinstance(tg, ast.Name):
                                    shared_attrs.add(tg.id)
                    # an attribute that __init__ rebinds on self is per instance after all
                    for m in c.body:
                        if isinstance(m, ast.FunctionDef) and m.name == '__init__':
                            for n in ast.walk(m):
                                if isinstance(n, ast.Assign):
                                    for tg in n.targets:
                                        if isinstance(tg, ast.Attribute) and isinstance(tg.value, ast.Name) and tg.value.id == 'self':
                                            shared_attrs.discard(tg.attr)
            for n in ast.walk(t):
                if isinstance(n, ast.Subscript) and isinstance(n.ctx, (ast.Store, ast.Del)) and isinstance(n.value, ast.Attribute) and n.value.attr in shared_attrs:
                    bad.append('%s: class-level %s written' % (fn, n.value.attr))
                if isinstance(n, ast.Call) and isinstance(n.func, ast.Attribute) and isinstance(n.func.value, ast.Attribute) and n.func.value.attr in shared_attrs and \
                        n.func.attr in ('append', 'extend', 'insert', 'update', 'setdefault', 'add', 'pop', 'popitem', 'clear', 'remove', 'discard', 'sort', 'reverse', '__setitem__'):
                    bad.append('%s: class-level %s mutated' % (fn, n.func.value.attr))
            # an attribute of something that is not local to the function (a module-level object, an imported module) written
            # from inside a function: process-wide state again (a "current parser" pointer, a settings object, ...)
            for f in ast.walk(t):
                if not isinstance(f, (ast.FunctionDef, ast.Lambda)):
                    continue
                a = f.args
                local = {x.arg for x in a.args + a.kwonlyargs + getattr(a, 'posonlyargs', [])}
                if a.vararg:
                    local.add(a.vararg.arg)
                if a.kwarg:
                    local.add(a.kwarg.arg)
                for n in ast.walk(f):
                    if isinstance(n, (ast.Assign, ast.AnnAssign, ast.AugAssign, ast.For, ast.comprehension)):
                        tg = n.targets if isinstance(n, ast.Assign) else [getattr(n, 'target', None)]
                        for x in tg:
                            for y in (ast.walk(x) if x is not None else []):
                                if isinstance(y, ast.Name) and isinstance(y.ctx, ast.Store):
                                    local.add(y.id)
                    if isinstance(n, ast.With):
                        for it in n.items:
                            if it.optional_vars is not None:
                                for y in ast.walk(it.optional_vars):
                                    if isinstance(y, ast.Name):
                                        local.add(y.id)
                    if isinstance(n, ast.ExceptHandler) and n.name:
                        local.add(n.name)
                    if isinstance(n, ast.FunctionDef) and n is not f:
                        local.add(n.name)
                for n in ast.walk(f):
                    tgs = n.targets if isinstance(n, ast.Assign) else ([n.target] if isinstance(n, ast.AugAssign) else [])
                    for x in tgs:
                        if isinstance(x, ast.Attribute):
                            b = x
                            while isinstance(b, ast.Attribute):
                                b = b.value
                            if isinstance(b, ast.Name) and b.id not in local and b.id not in ('self', 'cls'):
                                bad.append('%s: attribute of the non-local object %s written in %s' % (fn, b.id, getattr(f, 'name', 'a lambda')))
            for fn_node in ast.walk(t):
                if not isinstance(fn_node, (ast.FunctionDef, ast.Lambda)):
                    continue
                for n in ast.walk(fn_node):
                    if isinstance(n, ast.Subscript) and isinstance(n.ctx, (ast.Store, ast.Del)) and isinstance(n.value, ast.Name) and n.value.id in containers:
                        bad.append('%s: module-level %s written in a function' % (fn, n.value.id))
                    if isinstance(n, ast.Call) and isinstance(n.func, ast.Attribute) and isinstance(n.func.value, ast.Name) and n.func.value.id in containers and \
                            n.func.attr in ('append', 'extend', 'insert', 'update', 'setdefault', 'add', 'pop', 'popitem', 'clear', 'remove', 'discard', 'sort', 'reverse', '__setitem__'):
                        bad.append('%s: module-level %s mutated in a function' % (fn, n.func.value.id))
            for n in ast.walk(t):
                if isinstance(n, ast.Global):
                    bad.append('%s: global %s' % (fn, ','.join(n.names)))
                if isinstance(n, ast.FunctionDef):
                    for d in n.decorator_list:
                        txt = dump(d)
                        if 'cache' in txt or 'memo' in txt.lower():
                            bad.append('%s: cache decorator on %s' % (fn, n.name))
                    for dflt in n.args.defaults + n.args.kw_defaults:
                        if isinstance(dflt, (ast.List, ast.Dict, ast.Set)):
                            bad.append('%s: mutable default in %s' % (fn, n.name))
            top_decorated = set()
            for n in t.body:
                if isinstance(n, ast.FunctionDef):
                    for d in n.decorator_list:
                        for c in ast.walk(d):
                            if isinstance(c, ast.Attribute) and c.attr == 'register_for':
                                top_decorated.add(id(c))
            for n in ast.walk(t):
                if isinstance(n, ast.Attribute) and n.attr == 'register_for' and id(n) not in top_decorated:
                    reg_bad.append('%s: register_for used outside a top-level decorator' % fn)
                if isinstance(n, ast.Attribute) and n.attr == '_registry_' and isinstance(n.ctx, ast.Store) and fn != '__init__.py':
                    reg_bad.append('%s: writes _registry_' % fn)
    # ---- in-place mutation of parameters (host-supplied values arrive as parameters)
    MUT = {'sort', 'append', 'extend', 'insert', 'pop', 'remove', 'reverse', 'clear', 'update', 'setdefault', 'add', 'discard', 'popitem'}
    mut_bad = []
    for dirpath, dirs, files in os.walk(os.path.join(root, 'hotxlfp')):
        for fn in files:
            if not fn.endswith('.py') or 'parsetab' in fn:
                continue
            t = ast.parse(open(os.path.join(dirpath, fn)).read())
            for f in ast.walk(t):
                if not isinstance(f, ast.FunctionDef):
                    continue
                params = {a.arg for a in f.args.args + f.args.kwonlyargs}
                if f.args.vararg:
                    params.add(f.args.vararg.arg)
                if f.args.kwarg:
                    params.add(f.args.kwarg.arg)
                params.discard('self')
                if f.name.startswith('p_') and 'p' in params:
                    params.discard('p')             # ply's production object: p[0] = ... is how an action returns
                # plain aliases:  x = param
                for n in ast.walk(f):
                    if isinstance(n, ast.Assign) and isinstance(n.value, ast.Name) and n.value.id in params:
                        for tg in n.targets:
                            if isinstance(tg, ast.Name):
                                params.add(tg.id)
                # a parameter that is rebound to a fresh object before use (x = list(x), x = utils.flatten(x), ...) is no longer
                # the caller's object from there on; kept conservative: such names are still watched
                for n in ast.walk(f):
                    if isinstance(n, ast.Call) and isinstance(n.func, ast.Attribute) and n.func.attr in MUT and \
                            isinstance(n.func.value, ast.Name) and n.func.value.id in params:
                        mut_bad.append('%s:%d %s.%s() in %s' % (fn, n.lineno, n.func.value.id, n.func.attr, f.name))
                    tgs = []
                    if isinstance(n, ast.Assign):
                        tgs = n.targets
                    elif isinstance(n, ast.AugAssign):
                        tgs = [n.target]
                        if isinstance(n.target, ast.Name) and n.target.id in params and isinstance(n.op, (ast.Add, ast.Mult)):
                            pass        # x += ... on a list parameter would extend it in place; numbers are immutable: not decidable here
                    elif isinstance(n, ast.Delete):
                        tgs = n.targets
                    for x in tgs:
                        if isinstance(x, ast.Subscript) and isinstance(x.value, ast.Name) and x.value.id in params:
                            mut_bad.append('%s:%d %s[...] written in %s' % (fn, n.lineno, x.value.id, f.name))
    fact('no_parameter_mutation', not mut_bad, '; '.join(mut_bad[:5]))
    fact('no_module_level_state', not bad, '; '.join(bad[:5]))
    fact('registry_closed', not reg_bad, '; '.join(reg_bad[:5]))
    out = ['(* GENERATED by tools/gen/sessions.py from the source of the tree under test. *)',
           'From Coq Require Import Bool.']
    for k, v in facts.items():
        out.append('Definition %s : bool := %s.' % (k, 'true' if v else 'false'))
    out.append('Definition sessions_gen_ok : bool := %s.' % ('true' if all(facts.values()) else 'false'))
    out.append('(* notes: %s *)' % ('; '.join(notes).replace('*)', '* )').replace('(*', '( *') if notes else 'none'))
    return '\n'.join(out) + '\n'


def write(path, root):
    new = generate(root)
    old = open(path).read() if os.path.exists(path) else None
    if old != new:
        with open(path, 'w') as f:
            f.write(new)
        return True
    return False


if __name__ == '__main__':
    print('changed' if write(sys.argv[1], sys.argv[2]) else 'unchanged')
