(* Runner entry for the interpreter model: decode a host and a formula, run, encode the record and the event trace. *)
From HX Require Import Model.Interp Gen.Registry.
Open Scope Z_scope.

Definition dec_behaviour (l : list Z) : behaviour * list Z :=
  match l with
  | 0 :: r => (BRecord, r)
  | 1 :: r => (BIdent, r)
  | 2 :: r => let '(v, r') := dec_val r in (BConst v, r')
  | 3 :: c :: r => (BRaiseXL (err_of_code c), r)
  | _ :: r => (BRaisePy, r)
  | [] => (BRaisePy, [])
  end.
Fixpoint dec_vars (k : nat) (l : list Z) : list (list Z * value) * list Z :=
  match k with
  | O => ([], l)
  | S k' => let '(n, r1) := dec_text l in let '(v, r2) := dec_val r1 in
            let '(rest, r3) := dec_vars k' r2 in ((n, v) :: rest, r3)
  end.
Fixpoint dec_funs (k : nat) (l : list Z) : list (list Z * behaviour) * list Z :=
  match k with
  | O => ([], l)
  | S k' => let '(n, r1) := dec_text l in let '(b, r2) := dec_behaviour r1 in
            let '(rest, r3) := dec_funs k' r2 in ((n, b) :: rest, r3)
  end.
Fixpoint dec_cells (k : nat) (l : list Z) : list (list Z * list value) * list Z :=
  match k with
  | O => ([], l)
  | S k' => let '(n, r1) := dec_text l in
            match r1 with
            | m :: r2 => let '(vs, r3) := dec_vals (Z.to_nat m) r2 in
                         let '(rest, r4) := dec_cells k' r3 in ((n, vs) :: rest, r4)
            | [] => ([], [])
            end
  end.

Definition enc_event (e : event) : list Z :=
  match e with
  | EvFunction n args => 0 :: enc_text n ++ Z.of_nat (length args) :: flat_map enc_value args
  | EvVariable n => 1 :: enc_text n
  | EvCell l r c ra ca => 2 :: enc_text l ++ [r; c; enc_bool ra; enc_bool ca]
  | EvRange l1 r1 c1 l2 r2 c2 => 3 :: enc_text l1 ++ [r1; c1] ++ enc_text l2 ++ [r2; c2]
  end.
Definition enc_precord (r : precord) : list Z :=
  match r with PResult v => 0 :: enc_value v | PError e => [1; err_code e] | PUnmodelled => [2] | PEmptyText => [3] end.

(* [nvars vars.. nfuns funs.. ncells cells.. nrange rangevals.. nvarset .. nfunset .. formula] *)
Definition e_parse (a : list Z) : list Z :=
  match a with
  | nv :: r0 =>
      let '(vars, r1) := dec_vars (Z.to_nat nv) r0 in
      match r1 with
      | nf :: r2 =>
          let '(funs, r3) := dec_funs (Z.to_nat nf) r2 in
          match r3 with
          | nc :: r4 =>
              let '(cells, r5) := dec_cells (Z.to_nat nc) r4 in
              match r5 with
              | nr :: r6 =>
                  let '(rng, r7) := dec_vals (Z.to_nat nr) r6 in
                  match r7 with
                  | nvs :: r8 =>
                      let '(varset, r9) := dec_cells (Z.to_nat nvs) r8 in
                      match r9 with
                      | nfs :: r10 =>
                          let '(funset, r11) := dec_cells (Z.to_nat nfs) r10 in
                          let '(formula, _) := dec_text r11 in
                          let h := {| h_vars := vars; h_funs := funs; h_cells := cells; h_ranges := rng; h_registry := registry_names;
                                      h_varset := varset; h_funset := funset; h_oracle := fun _ _ => None |} in
                          let '(rec, tr) := parse_formula h formula in
                          enc_precord rec ++ Z.of_nat (length tr) :: flat_map enc_event tr
                      | [] => [-1]
                      end
                  | [] => [-1]
                  end
              | [] => [-1]
              end
          | [] => [-1]
          end
      | [] => [-1]
      end
  | [] => [-1]
  end.
(* the lexer alone: token kinds and lexeme lengths, then 1 if the lexer raises at the end *)
Definition e_lex (a : list Z) : list Z :=
  let s := fst (dec_text a) in
  match lex s with
  | LexOk ts => flat_map (fun t => [tk t; Z.of_nat (length (lexeme t))]) ts ++ [0]
  | LexError ts => flat_map (fun t => [tk t; Z.of_nat (length (lexeme t))]) ts ++ [-1]
  end.
