# -*- coding: utf-8 -*-
"""C01 - parse() is total and returns a well-formed record.  Theorems: Properties/C01.v."""
import itertools
import os
import random
import sys

import interp
from common import confirm_hang, Result, pmap, compare, VERIF, HANG, ERR, thaw

ID = 'C01'
COQ_FILES = ['Properties/C01.v', 'Proofs/TotalProofs.v', 'Gen/Grammar.v', 'Gen/Wrapper.v']
TRUSTED = [
    'Gen/Wrapper.v regenerated on every run by tools/gen/wrapper.py (python ast, fail-closed): the shape of Parser.parse (catch-all '
    'handler -> from_message, no re-raise, clean finally, error-object result moved to the error entry, two-key record), the '
    'from_message table, _throw_error, p_error, p_xlerror; Gen/Grammar.v: the LALR tables of the live ply parser',
    'modelled, not verified: ply LRParser as lr_step (its error recovery on SyntaxError raised by a host callback is NOT modelled), '
    'the lexer recognisers; the bodies of the ~130 built-ins outside the model are covered by the sweep of this check only '
    '(well-formed record, wall-clock limit per call), not by a theorem',
]
EXPLANATION = ('Coq theorems: every step of the real LR driver over the generated tables strictly decreases a potential bounded by '
               '8*tokens+3 (certificate: no empty production, unit reductions go to states of smaller potential), for every host, '
               'stack and input, so the driver stops by itself and the fuel of the model never binds; the lexer consumes input at '
               'every step; for every host and text the record is well formed (result never an error object, error one of the nine '
               'codes of the generated from_message table, which is closed with #ERROR! as default); the wrapper shape is '
               'generated from the source. Tied to the code by token soups / Unicode / truncated formulas, every registered '
               'function at every arity 0..4 over a pool with a value of every type (per-call time limit), and callbacks that '
               'return hostile objects or raise, through Parser.parse.')
ASSUMPTIONS = ['host callbacks raise subclasses of Exception (KeyboardInterrupt / SystemExit propagate, as everywhere in Python)',
               'bounded time of the built-in bodies is observed under a wall-clock limit (4 s per call), not proved, except for the '
               'loops modelled in C15 / C17 (SUBSTITUTE, BASE, ROMAN, FACTDOUBLE)']

CODES = ['#ERROR!', '#DIV/0!', '#NAME?', '#N/A', '#NULL!', '#NUM!', '#REF!', '#VALUE!', '#GETTING_DATA']


def gen(ctx):
    sys.path.insert(0, os.path.join(VERIF, 'tools', 'gen'))
    import grammar
    import registry
    import wrapper
    root = os.environ.get('VERIF_SNAPSHOT', '/repo')
    a = grammar.write(os.path.join(VERIF, 'coq', 'Gen', 'Grammar.v'))
    b = registry.write(os.path.join(VERIF, 'coq', 'Gen', 'Registry.v'), root)
    c = wrapper.write(os.path.join(VERIF, 'coq', 'Gen', 'Wrapper.v'), root)
    f = lambda x: 'regenerated (changed)' if x else 'regenerated (identical to the committed baseline)'
    return {'Gen/Grammar.v': f(a), 'Gen/Registry.v': f(b), 'Gen/Wrapper.v': f(c)}


def wf(r):
    """None if r is a well-formed record, else what is wrong"""
    from hotxlfp.formulas.error import XLError
    if not isinstance(r, dict) or sorted(r.keys()) != ['error', 'result']:
        return 'not a {result, error} record'
    if r['error'] is not None and r['error'] not in CODES:
        return 'error entry %r is not one of the nine codes' % (r['error'],)
    if r['error'] is not None and r['result'] is not None:
        return 'error set but result not empty'
    if isinstance(r['result'], XLError):
        return 'result is an error object'
    return None


def pool():
    import datetime
    return [0, 1, -1, 2, 0.5, -2.5, 1e308, float('inf'), float('nan'), 10 ** 30, '', 'a', '1', '1e3', 'TRUE', True, False, None,
            ERR('#N/A'), ERR('#DIV/0!'), [1, 2, 3], [[1, 2], [3, 4]], [], ['a', None], datetime.datetime(2020, 1, 31), 36, 1048577, -0.0,
            '2020-01-01', '#N/A', 3, 255, -7, 1e-300, 'abc def', [ERR('#NUM!'), 1], 12345678901234567890, 2.5, 40000, u'İ中', 1.5, 36.5, 0.999, -0.5, 4000, 16, 10]


# bignum work that is finite but grows with the MAGNITUDE of an integer argument (n!, n!!, a**b, 10**digits): the property asks
# for termination, not for a time bound independent of the value, so these are exercised with magnitudes <= 10^5 only
COSTLY = ('FACT', 'FACTDOUBLE', 'POWER', 'ROUNDUP', 'ROUNDDOWN', 'PV')


def small(v):
    return not (isinstance(v, (int, float)) and not isinstance(v, bool) and v == v and abs(v) != float('inf') and abs(v) > 1e5)


CORE = [0, 1, -1, 2, 0.5, 'a', '1', True, None, [1, 2, 3], 36, 1.5, 10, 255, '', -2.5, 3]
VNAMES = None
_P = None


def _parser():
    global _P, VNAMES
    if _P is None:
        import hotxlfp
        _P = hotxlfp.Parser()
        VNAMES = []
        for i, v in enumerate(pool()):
            n = 'p' + chr(97 + i // 26) + chr(97 + i % 26)
            VNAMES.append(n)
            _P.set_variable(n, thaw(v))
    return _P


def check_call(item):
    fn, idx = item
    p = _parser()
    f = '%s(%s)' % (fn, ','.join(VNAMES[i] for i in idx))
    try:
        r = p.parse(f)
    except Exception as e:  # noqa
        return [(f, None, 'returns normally', 'raised %s: %s' % (type(e).__name__, e))]
    w = wf(r)
    return [(f, None, 'well-formed record', '%s: %r' % (w, r))] if w else []


SOUP = ['1', '23', '.5', '1.5', '1e5', '"a"', "'b'", '"un', 'A1', '$A$1', 'A1:B2', 'a1:', 'x', 'TRUE', 'SUM(', 'IF(', 'F(', ')', '(', ',', ';', '\\', '{', '}', '+', '-',
        '*', '/', '^', '&', '%', '=', '<', '>', '<=', '>=', '<>', ':', '!', '#', '#N/A', '#REF!', '#FOO', '$', ' ', '\t', '\n', '.', '..', '@', '~', '|', '[', ']', '?',
        u'\xe9', u'中', u'\U0001f600', u'\x00', u'‮', u'\xa0', 'NOPE(', 'PI()', '1/0', '--', '1 2', 'A0', 'XFD1048577', '""', "''", '\\"', '1:2', '=1', u'﻿']
VALID = ['1+2*3', 'SUM(1,2,3)', 'IF(1<2,"y","n")', '(1+2)*(3+4)', 'A1:B2', '{1,2;3,4}', '-x^2', '"a"&"b"', 'IFERROR(1/0,5)', 'F(1;;3)', 'SUM({1,2,3})', '2%+.5',
         'INDEX({1,2;3,4},2,1)', 'AND(TRUE,FALSE)', 'CONCATENATE("a",1)', '#N/A', 'ROUND(2.567,2)']


def check_text(s):
    import hotxlfp
    p = hotxlfp.Parser()
    p.set_function('F', lambda *a: list(a))
    p.set_variable('x', 3)
    try:
        r = p.parse(s)
    except Exception as e:  # noqa
        return [(s, None, 'returns normally', 'raised %s: %s' % (type(e).__name__, e))]
    w = wf(r)
    return [(s, None, 'well-formed record', '%s: %r' % (w, r))] if w else []


class Hostile(object):
    def __init__(self, what):
        self.what = what

    def _boom(self, *a, **k):
        raise RuntimeError('hostile ' + self.what)
    __str__ = __repr__ = __eq__ = __lt__ = __gt__ = __le__ = __ge__ = __neg__ = __add__ = __radd__ = __float__ = __int__ = __bool__ = __len__ = __iter__ = _boom
    __hash__ = None


class MyErr(Exception):
    pass


class BadStr(Exception):
    def __str__(self):
        raise RuntimeError('str() of the exception raises')
    __repr__ = __str__


RAISES = ['ValueError', 'KeyError', 'ZeroDivisionError', 'RecursionError', 'StopIteration', 'AssertionError', 'MemoryError', 'MyErr', 'SyntaxError', 'TypeError',
          'XL:#N/A', 'XL:#FOO', 'XL:weird', 'XL:', 'OSError', 'UnicodeDecodeError', 'AttributeError', 'LookupError', 'ArithmeticError', 'IndentationError',
          'noargs:ValueError', 'noargs:KeyError', 'listarg:KeyError', 'listarg:ValueError', 'BadStr', 'noargs:MyErr', 'twoargs:OSError']
RETURNS = ['XLnew:#FOO', 'XLnew:#N/A', 'XLnew:', 'hostile', 'object', 'generator', 'nan', 'bytes', 'dict', 'nested_err', 'none', 'self']
CONTEXTS = ['%s', '1+%s', '%s+1', 'SUM(%s,1)', 'IFERROR(%s,1)', '%s&"a"', '-%s', '%s=1', 'IF(%s,1,2)', 'F(%s)', '{1,2}+%s', 'ISERROR(%s)', '(%s)', '%s:%s' if False else 'CONCATENATE(%s)',
            'AND(%s)', 'MAX(%s,2)', '%s%%' if False else 'NOT(%s)', 'TEXT(%s,"0")', 'INDEX({1,2},%s)', 'ROUND(%s,1)']


def _make_exc(name):
    from hotxlfp.formulas.error import XLError
    if name.startswith('XL:'):
        from hotxlfp.formulas import error
        code = name[3:]
        return error.from_message(code) if code in CODES else XLError(code)
    if name == 'MyErr':
        return MyErr('x')
    if name == 'BadStr':
        return BadStr('x')
    if name.startswith('noargs:'):
        return {'MyErr': MyErr}.get(name[7:], getattr(__import__('builtins'), name[7:], None))()
    if name.startswith('listarg:'):
        return getattr(__import__('builtins'), name[8:])([1, 2], {'a': 1})
    if name.startswith('twoargs:'):
        return getattr(__import__('builtins'), name[8:])(2, 'No such file')
    if name == 'UnicodeDecodeError':
        return UnicodeDecodeError('utf-8', b'\xff', 0, 1, 'bad')
    return getattr(__import__('builtins'), name)('boom')


def _make_ret(name):
    from hotxlfp.formulas.error import XLError
    if name.startswith('XLnew:'):
        return XLError(name[6:])
    return {'hostile': Hostile('v'), 'object': object(), 'generator': (i for i in range(3)), 'nan': float('nan'), 'bytes': b'\xff', 'dict': {1: 2},
            'nested_err': [XLError('#FOO'), [XLError('#N/A')]], 'none': None, 'self': _make_ret}[name]


def check_callback(item):
    kind, what, ctxt = item
    import hotxlfp
    p = hotxlfp.Parser()
    p.set_function('F', lambda *a: list(a))

    def raiser(*a):
        raise _make_exc(what)
    ref = 'H()'
    if kind == 'fn_raises':
        p.set_function('H', raiser)
    elif kind == 'fn_returns':
        p.set_function('H', lambda *a: _make_ret(what))
    elif kind == 'var':
        p.set_variable('hv', _make_ret(what))
        ref = 'hv'
    elif kind == 'cell_listener':
        p.on('callCellValue', lambda cell, done: raiser())
        ref = 'A1'
    elif kind == 'range_listener':
        p.on('callRangeValue', lambda a, b, done: raiser())
        ref = 'A1:B2'
    elif kind == 'var_listener':
        p.on('callVariable', lambda n, done: raiser())
        ref = 'x'
    elif kind == 'fn_listener':
        p.on('callFunction', lambda n, a, done: raiser())
        ref = 'SUM(1,2)'
    elif kind == 'listener_sets':
        p.on('callCellValue', lambda cell, done: done(_make_ret(what)))
        ref = 'A1'
    elif kind == 'listener_api':
        # listeners that use the emitter while being called: subscribe themselves (or a fresh listener doing the same)
        # again for the same event, unsubscribe everything, subscribe once-listeners.  Each of these returns at once, so
        # the evaluation has to end; a fuse keeps a runaway delivery loop from eating the machine and reports it
        ev, ref = {'cell': ('callCellValue', 'A1'), 'range': ('callRangeValue', 'A1:B2'), 'var': ('callVariable', 'x'),
                   'fn': ('callFunction', 'SUM(1,2)')}[what.split('/')[0]]
        mode = what.split('/')[1]
        state = {'n': 0}

        def again(*a):
            state['n'] += 1
            if state['n'] > 20000:
                return
            if mode == 'self':
                p.on(ev, again)
            elif mode == 'fresh':
                p.on(ev, lambda *b: again(*b))
            elif mode == 'once':
                p.once(ev, again)
            elif mode == 'off_on':
                p.off(ev)
                p.on(ev, again)
        p.on(ev, again)
        f = ctxt.replace('%s', ref)
        try:
            r = p.parse(f)
        except Exception as e:  # noqa
            return [('%s %s in %s' % (kind, what, f), None, 'returns normally', 'raised %s: %s' % (type(e).__name__, e))]
        if state['n'] > 20000:
            return [('%s %s in %s' % (kind, what, f), None, 'returns (the listener returns at once every time it is called)',
                     'no end to the deliveries of one emit: more than 20000 calls of the listener during one evaluation')]
        w = wf(r)
        return [('%s %s in %s' % (kind, what, f), None, 'well-formed record', '%s: %r' % (w, r))] if w else []
    f = ctxt.replace('%s', ref)
    try:
        r = p.parse(f)
    except Exception as e:  # noqa
        return [('%s %s in %s' % (kind, what, f), None, 'returns normally', 'raised %s: %s' % (type(e).__name__, e))]
    w = wf(r)
    return [('%s %s in %s' % (kind, what, f), None, 'well-formed record', '%s: %r' % (w, r))] if w else []


CHECKERS = {'call': check_call, 'text': check_text, 'callback': check_callback}


def check_case(case):
    for k, fn in CHECKERS.items():
        if k in case:
            c = case[k]
            if k == 'call':
                c = (c[0], tuple(c[1]))
            elif k == 'callback':
                c = tuple(c)
            vs = fn(c)
            return [{'case': case, 'what': w, 'class': cls, 'expected': e, 'observed': g} for (w, cls, e, g) in vs]
    return []


def _worker(kc):
    k, c = kc
    return [(k, c) + x for x in CHECKERS[k](c)]


def _impl(c):
    return interp.impl_case(c)


def texts(rng, n):
    out = list(VALID) + ['']
    for v in VALID:
        for i in range(len(v)):
            out.append(v[:i])
            out.append(v[i:])
        out.append(v + ')')
        out.append('(' + v)
        out.append(v + v)
    for _ in range(n):
        k = rng.randrange(4)
        if k == 0:
            out.append(''.join(rng.choice(SOUP) for _ in range(rng.randint(1, 12))))
        elif k == 1:
            out.append(''.join(chr(rng.choice([rng.randrange(32, 127), rng.randrange(0, 0x3000), rng.randrange(0x10000, 0x10ffff)])) for _ in range(rng.randint(1, 10))))
        elif k == 2:
            v = list(rng.choice(VALID))
            for _ in range(rng.randint(1, 3)):
                i = rng.randrange(len(v) + 1)
                if rng.random() < 0.5 and v:
                    del v[min(i, len(v) - 1)]
                else:
                    v.insert(i, rng.choice(SOUP))
            out.append(''.join(v))
        else:
            out.append(rng.choice(['(' * rng.randint(1, 60) + '1' + ')' * rng.randint(0, 60), '-' * rng.randint(1, 80) + '1', '1' + '+1' * rng.randint(1, 300),
                                   'SUM(' * rng.randint(1, 40) + '1' + ')' * rng.randint(1, 40), '"' + 'a' * rng.randint(0, 500), '1' * rng.randint(1, 3000),
                                   '{' * rng.randint(1, 10) + '1' + '}' * rng.randint(1, 10), ',' * rng.randint(1, 30), 'F(' + ',' * rng.randint(1, 30) + ')']))
    return out


def explore(ctx):
    R = Result()
    rng = ctx.rng
    big = ctx.thorough
    from hotxlfp import formulas
    names = formulas.supported()
    P = len(pool())
    work = []
    per = {}
    ok_idx = [i for i, v in enumerate(pool()) if small(v)]
    for fn in names:
        combos = [()] + [(i,) for i in range(P)]
        n2, n3 = (400, 300) if big else (50, 35)
        core = [i for i, v in enumerate(pool()) if any(v is c or (type(v) is type(c) and v == c) for c in CORE)]
        combos += [(i, j) for i in core for j in core]
        combos += [tuple(rng.randrange(P) for _ in range(2)) for _ in range(n2)]
        combos += [tuple(rng.randrange(P) for _ in range(3)) for _ in range(n3)]
        combos += [tuple(rng.randrange(P) for _ in range(4)) for _ in range(n3)]
        if fn in COSTLY:
            combos = [c for c in combos if all(i in ok_idx for i in c)]
        per[fn] = len(combos)
        work += [('call', (fn, c)) for c in combos]
    tx = texts(rng, 20000 if big else 2500)
    work += [('text', s) for s in tx]
    cb = []
    for ctxt in CONTEXTS:
        for what in RAISES:
            for kind in ('fn_raises', 'cell_listener', 'range_listener', 'var_listener', 'fn_listener'):
                cb.append((kind, what, ctxt))
        for what in RETURNS:
            for kind in ('fn_returns', 'var', 'listener_sets'):
                cb.append((kind, what, ctxt))
    for ctxt in CONTEXTS:
        for evk in ('cell', 'range', 'var', 'fn'):
            for mode in ('self', 'fresh', 'once', 'off_on'):
                cb.append(('listener_api', evk + '/' + mode, ctxt))
    work += [('callback', c) for c in cb]
    hangs = 0
    for (k, c), vs in zip(work, pmap(_worker, work, limit=4.0, confirm=False)):
        if vs == HANG:
            vs = confirm_hang(_worker, (k, c))
        if vs == HANG:
            hangs += 1
            R.violate({k: list(c) if isinstance(c, tuple) else c}, '%s %r' % (k, c), None, 'returns within 4 s', 'no return (time limit)')
            continue
        for (k_, c_, w, cls, e, g) in vs:
            R.violate({k: list(c) if isinstance(c, tuple) else c}, w, cls, e, g)
    R.evaluations += len(work)
    # correspondence: texts through the model (total by construction) and the implementation
    cases = [dict(formula=s, vars=[('x', 3)], funs=[('F', 'record', None)], cells=[], ranges=[]) for s in tx if len(s) < 400 and all(ord(ch) < 0x110000 for ch in s)]
    # fixed corpus: array arguments of the traps and predicates (ERROR.TYPE of an array raises: a list is unhashable)
    corpus = ['ERROR.TYPE({1,2})', 'IFERROR(ERROR.TYPE({1,2}),5)', 'ERROR.TYPE({})', 'ERROR.TYPE(1/0)', 'ERROR.TYPE(NA())', 'ERROR.TYPE("a")',
              'ERROR.TYPE(x)', 'IFNA({1,2},3)', 'IFERROR({1,2},3)', 'IFNA(NA(),{1,2})', 'ISERROR({1,2})', 'ISNA({1,2})', 'ISERR({1,2})',
              'ISNUMBER({1})', 'ISTEXT({"a"})', 'ISBLANK({1})', 'NOT({1})', 'IF({0},1,2)', 'ISEVEN({2})']
    cases += [dict(formula=s, vars=[('x', 3)], funs=[('F', 'record', None)], cells=[], ranges=[]) for s in corpus]
    compare(R, ctx, 'parse', cases, interp.enc_case, _impl, key=lambda c: c['formula'], eq=interp.eq_case, limit=10.0)
    R.extra['functions'] = len(names)
    R.extra['calls_per_function'] = per[names[0]]
    R.extra['pool_size'] = P
    R.extra['texts'] = len(tx)
    R.extra['callback_cases'] = len(cb)
    R.extra['hangs'] = hangs
    R.rule = ('every registered function (%d) at arities 0..4 over a pool of %d values (int, float incl. inf/nan/-0.0, huge int, text, '
              'numeric text, logical, None, error values, flat / nested / empty / mixed lists, datetime, Unicode): all arity-0/1 '
              'calls, %d random calls per function at arities 2-4, each under a 4 s limit; %d texts (valid formulas, all their '
              'prefixes and suffixes, token soups, random Unicode incl. astral and control characters, mutations, deep nesting, '
              'long inputs); %d callback cases (%d exception classes raised by custom functions and by each of the four '
              'listeners, %d hostile return values from functions, variables and setters, in %d formula contexts); texts also '
              'against the model.' % (len(names), P, per[names[0]] - 1 - P, len(tx), len(cb), len(RAISES), len(RETURNS), len(CONTEXTS)))
    return R


def search(ctx, proof, res):
    R = Result()
    rng = random.Random(ctx.seed + 5)
    work = [('text', s) for s in texts(rng, 8000)]
    for ctxt in CONTEXTS:
        for what in RAISES:
            for kind in ('fn_raises', 'cell_listener', 'range_listener', 'var_listener', 'fn_listener'):
                work.append(('callback', (kind, what, ctxt)))
        for what in RETURNS:
            for kind in ('fn_returns', 'var', 'listener_sets'):
                work.append(('callback', (kind, what, ctxt)))
        for evk in ('cell', 'range', 'var', 'fn'):
            for mode in ('self', 'fresh', 'once', 'off_on'):
                work.append(('callback', ('listener_api', evk + '/' + mode, ctxt)))
    for (k, c), vs in zip(work, pmap(_worker, work, limit=4.0, confirm=False)):
        if vs == HANG:
            vs = confirm_hang(_worker, (k, c))
        if vs == HANG:
            R.violate({k: list(c) if isinstance(c, tuple) else c}, '%s %r' % (k, c), None, 'returns within 4 s', 'no return (time limit)')
            continue
        for (k_, c_, w, cls, e, g) in vs:
            R.violate({k: list(c) if isinstance(c, tuple) else c}, w, cls, e, g)
    R.evaluations = len(work)
    return R
