(* Runner entry for the emitter model: decode a history + scripts from integers,
   run, encode the call log and the final tables. *)
From HX Require Import Model.Base Model.Emitter.

Definition zn (z : Z) : nat := Z.to_nat z.
Definition nz (n : nat) : Z := Z.of_nat n.

Definition dec_op (k x y z : Z) : op :=
  match k with
  | 0 => On (zn x) (zn y) (zn z)
  | 1 => Once (zn x) (zn y) (zn z)
  | 2 => Off (zn x) (if y <? 0 then None else Some (zn y))
  | _ => Emit (zn x) (zn y)
  end.

Fixpoint dec_ops (k : nat) (l : list Z) : list op * list Z :=
  match k with
  | O => ([], l)
  | S k' => match l with
            | a :: b :: c :: d :: r => let '(ops, r') := dec_ops k' r in (dec_op a b c d :: ops, r')
            | _ => ([], [])
            end
  end.

Fixpoint dec_scripts (k : nat) (l : list Z) : list (nat * nat * list op) * list Z :=
  match k with
  | O => ([], l)
  | S k' => match l with
            | f :: d :: n :: r =>
                let '(ops, r1) := dec_ops (zn n) r in
                let '(tbl, r2) := dec_scripts k' r1 in ((zn f, zn d, ops) :: tbl, r2)
            | _ => ([], [])
            end
  end.

Fixpoint lookup_script (tbl : list (nat * nat * list op)) (f d : nat) : list op :=
  match tbl with
  | [] => []
  | (f', d', ops) :: t => if (f' =? f)%nat && (d' =? d)%nat then ops else lookup_script t f d
  end.

Definition enc_listener (l : listener) : list Z := [nz (fn l); nz (lctx l); enc_bool (once l)].

Definition e_emitter (a : list Z) : list Z :=
  match a with
  | fuel :: ns :: r =>
      let '(tbl, r1) := dec_scripts (zn ns) r in
      match r1 with
      | no :: r2 =>
          let '(ops, _) := dec_ops (zn no) r2 in
          match run_history (lookup_script tbl) (Z.to_nat fuel) ops with
          | None => [-1]
          | Some (st, tr) =>
              let cs := calls tr in
              nz (length cs) :: flat_map (fun c => let '(f, x, c0) := c in [nz f; nz x; nz c0]) cs ++
              flat_map (fun n => nz (length (tab st n)) :: flat_map enc_listener (tab st n)) [0; 1; 2; 3]%nat
          end
      | _ => [-2]
      end
  | _ => [-2]
  end.
