(* Serial numbers: round trips, strict monotonicity, Excel 1900 offset, day arithmetic. *)
From HX Require Import Model.Base Model.Calendar Model.Serial Proofs.CalendarCycle Proofs.CalendarProofs.
From Coq Require Import Lia.

Lemma us1900_val : us1900 = 693596 * day.
Proof. reflexivity. Qed.
Lemma day_val : day = 86400000000. Proof. reflexivity. Qed.
Lemma dt1900_valid : valid_dt dt1900 = true. Proof. reflexivity. Qed.

Definition dt_mar1 : datetime := DT 1900 3 1 0 0 0 0.
Definition dt_18991230 : datetime := DT 1899 12 30 0 0 0 0.
Lemma mar1_us : to_us dt_mar1 = us1900 + 59 * day. Proof. reflexivity. Qed.
Lemma dec30_us : to_us dt_18991230 = us1900 - 2 * day. Proof. reflexivity. Qed.

Lemma to_us_inj a b : valid_dt a = true -> valid_dt b = true -> to_us a = to_us b -> a = b.
Proof. intros Va Vb E. rewrite <- (of_to_us a Va), <- (of_to_us b Vb), E. reflexivity. Qed.

(* --- date-time -> serial -> date-time, every date-time from 1900-01-01T00:00 on --- *)
Theorem serial_roundtrip t : valid_dt t = true -> us1900 <= to_us t -> parse_us (serial_us t) = Some t.
Proof.
  intros V H. unfold serial_us, parse_us. cbv zeta.
  rewrite us1900_val in *. rewrite day_val in *.
  destruct (to_us t - 693596 * 86400000000 =? 0) eqn:E0.
  - cbn. f_equal. apply to_us_inj; [reflexivity|exact V|]. change (to_us dt1900) with (693596 * 86400000000). lia.
  - destruct (to_us t - 693596 * 86400000000 <? 59 * 86400000000) eqn:E1.
    + destruct (to_us t - 693596 * 86400000000 + 86400000000 <? 0) eqn:A; [lia|].
      destruct (to_us t - 693596 * 86400000000 + 86400000000 <? 86400000000) eqn:B; [lia|].
      destruct (to_us t - 693596 * 86400000000 + 86400000000 <=? 60 * 86400000000) eqn:C; [|lia].
      f_equal. rewrite <- (of_to_us t V) at 2. f_equal. lia.
    + destruct (to_us t - 693596 * 86400000000 + 2 * 86400000000 <? 0) eqn:A; [lia|].
      destruct (to_us t - 693596 * 86400000000 + 2 * 86400000000 <? 86400000000) eqn:B; [lia|].
      destruct (to_us t - 693596 * 86400000000 + 2 * 86400000000 <=? 60 * 86400000000) eqn:C; [lia|].
      f_equal. rewrite <- (of_to_us t V) at 2. f_equal. lia.
Qed.

(* --- strictly increasing with time --- *)
Lemma serial_us_mono_us a b : us1900 <= to_us a -> to_us a < to_us b -> serial_us a < serial_us b.
Proof.
  intros Ha Hab. unfold serial_us. cbv zeta. rewrite us1900_val in *. rewrite day_val in *.
  destruct (to_us a - 693596 * 86400000000 =? 0) eqn:A0;
  destruct (to_us b - 693596 * 86400000000 =? 0) eqn:B0;
  destruct (to_us a - 693596 * 86400000000 <? 59 * 86400000000) eqn:A1;
  destruct (to_us b - 693596 * 86400000000 <? 59 * 86400000000) eqn:B1; lia.
Qed.

Theorem serial_strictly_monotone a b : valid_dt a = true -> valid_dt b = true ->
  us1900 <= to_us a -> dt_lt a b -> serial_us a < serial_us b.
Proof. intros Va Vb Ha L. apply serial_us_mono_us; [exact Ha|]. apply to_us_mono; assumption. Qed.

(* --- Excel's 1900 system from 1 March 1900: days since 1899-12-30, time of day as fraction --- *)
Theorem serial_excel t : to_us dt_mar1 <= to_us t -> serial_us t = to_us t - to_us dt_18991230.
Proof.
  rewrite mar1_us, dec30_us. intros H. unfold serial_us. cbv zeta. rewrite us1900_val in *. rewrite day_val in *.
  destruct (to_us t - 693596 * 86400000000 =? 0) eqn:A0; [lia|].
  destruct (to_us t - 693596 * 86400000000 <? 59 * 86400000000) eqn:A1; lia.
Qed.

Corollary serial_excel_split t : valid_dt t = true -> to_us dt_mar1 <= to_us t ->
  serial_us t = (ymd2ord (dyear t) (dmonth t) (dday t) - ymd2ord 1899 12 30) * day + us_of_day t.
Proof.
  intros V H. rewrite (serial_excel t H). unfold to_us, dt_18991230, us_of_day, day.
  cbn [dyear dmonth dday dhour dminute dsecond dmicro]. lia.
Qed.

(* --- serial -> date-time -> serial, every serial >= 61 (whole or fractional) --- *)
Theorem serial_roundtrip' S : 61 * day <= S -> exists t, parse_us S = Some t /\ serial_us t = S.
Proof.
  intros H. unfold parse_us. rewrite day_val in *.
  destruct (S <? 0) eqn:A; [lia|]. destruct (S <? 86400000000) eqn:B; [lia|].
  destruct (S <=? 60 * 86400000000) eqn:C; [lia|].
  eexists; split; [reflexivity|]. unfold serial_us. cbv zeta.
  rewrite to_of_us by (rewrite us1900_val, day_val; unfold us_per_day; lia).
  rewrite us1900_val, day_val.
  destruct (693596 * 86400000000 + (S - 2 * 86400000000) - 693596 * 86400000000 =? 0) eqn:D; [lia|].
  destruct (693596 * 86400000000 + (S - 2 * 86400000000) - 693596 * 86400000000 <? 59 * 86400000000) eqn:E; lia.
Qed.

Theorem serial_roundtrip'_valid S : 61 * day <= S -> S < (ymd2ord 10000 1 1 - 693594) * day ->
  exists t, parse_us S = Some t /\ valid_dt t = true /\ serial_us t = S.
Proof.
  intros H Hhi. destruct (serial_roundtrip' S H) as (t & P & E). exists t. repeat split; try assumption.
  unfold parse_us in P. rewrite day_val in *.
  destruct (S <? 0) eqn:A; [lia|]. destruct (S <? 86400000000) eqn:B; [lia|].
  destruct (S <=? 60 * 86400000000) eqn:C; [lia|].
  assert (t = of_us (us1900 + (S - 2 * 86400000000))) as -> by congruence. clear P E.
  apply of_us_valid.
  - rewrite us1900_val, day_val. unfold us_per_day. lia.
  - rewrite us1900_val, day_val. unfold us_per_day in *. lia.
Qed.

(* --- adding n days to a date gives the date n days later (both on or after 1 March 1900) --- *)
Theorem date_plus_n t n : to_us dt_mar1 <= to_us t -> to_us dt_mar1 <= to_us t + n * day ->
  date_plus_days t n = Some (of_us (to_us t + n * day)).
Proof.
  intros H Hn. unfold date_plus_days. rewrite (serial_excel t H). rewrite mar1_us, dec30_us in *.
  unfold parse_us. rewrite us1900_val in *. rewrite day_val in *.
  destruct (to_us t - (693596 * 86400000000 - 2 * 86400000000) + n * 86400000000 <? 0) eqn:A; [lia|].
  destruct (to_us t - (693596 * 86400000000 - 2 * 86400000000) + n * 86400000000 <? 86400000000) eqn:B; [lia|].
  destruct (to_us t - (693596 * 86400000000 - 2 * 86400000000) + n * 86400000000 <=? 60 * 86400000000) eqn:C; [lia|].
  f_equal. f_equal. lia.
Qed.

(* "n days later": same time of day, ordinal advanced by n *)
Lemma of_us_shift u n : us_per_day <= u -> us_per_day <= u + n * day ->
  to_us (of_us (u + n * day)) = u + n * day.
Proof. intros _ H. apply to_of_us. exact H. Qed.

Theorem date_plus_n_calendar t n : valid_dt t = true ->
  to_us dt_mar1 <= to_us t -> to_us dt_mar1 <= to_us t + n * day ->
  exists t', date_plus_days t n = Some t' /\
    ymd2ord (dyear t') (dmonth t') (dday t') = ymd2ord (dyear t) (dmonth t) (dday t) + n /\
    us_of_day t' = us_of_day t.
Proof.
  intros V H Hn. eexists; split; [apply date_plus_n; assumption|].
  pose proof (us_of_day_range t V) as R.
  assert (us_per_day <= to_us t + n * day) as Hpos by (rewrite mar1_us, us1900_val, day_val in *; unfold us_per_day; lia).
  unfold of_us. set (u := to_us t + n * day) in *.
  assert (u / us_per_day = ymd2ord (dyear t) (dmonth t) (dday t) + n /\ u mod us_per_day = us_of_day t) as [Ed Em].
  { subst u. unfold to_us, day in *. unfold us_per_day in *. split; lia. }
  rewrite Ed, Em.
  assert (1 <= ymd2ord (dyear t) (dmonth t) (dday t) + n) as Hord.
  { rewrite <- Ed. unfold us_per_day in *. lia. }
  pose proof (ord_roundtrip _ Hord) as G. unfold good in G.
  destruct (ord2ymd (ymd2ord (dyear t) (dmonth t) (dday t) + n)) as [[y m] d]. destruct G as (E & _ & _).
  cbn [dyear dmonth dday]. split; [exact E|].
  unfold us_of_day at 1. cbn [dhour dminute dsecond dmicro]. unfold us_per_day in *. lia.
Qed.

(* --- subtracting two dates gives the time between them --- *)
Theorem date_minus_date_spec a b : to_us dt_mar1 <= to_us a -> to_us dt_mar1 <= to_us b ->
  date_minus_date a b = to_us a - to_us b.
Proof. intros Ha Hb. unfold date_minus_date. rewrite (serial_excel a Ha), (serial_excel b Hb). lia. Qed.

Corollary date_minus_date_days a b : valid_dt a = true -> valid_dt b = true ->
  to_us dt_mar1 <= to_us a -> to_us dt_mar1 <= to_us b -> us_of_day a = us_of_day b ->
  date_minus_date a b = (ymd2ord (dyear a) (dmonth a) (dday a) - ymd2ord (dyear b) (dmonth b) (dday b)) * day.
Proof.
  intros Va Vb Ha Hb E. rewrite date_minus_date_spec by assumption. unfold to_us, day. lia.
Qed.

(* the pre-March-1900 window, stated for completeness: serial = days since 1899-12-31 *)
Theorem serial_before_march t : us1900 < to_us t -> to_us t < to_us dt_mar1 ->
  serial_us t = to_us t - (us1900 - day).
Proof.
  rewrite mar1_us. intros H1 H2. unfold serial_us. cbv zeta. rewrite us1900_val in *. rewrite day_val in *.
  destruct (to_us t - 693596 * 86400000000 =? 0) eqn:A0; [lia|].
  destruct (to_us t - 693596 * 86400000000 <? 59 * 86400000000) eqn:A1; lia.
Qed.
