(* Calendar lemmas: ordinal <-> (y,m,d) are mutually inverse for ALL ordinals >= 1
   (one 400-year cycle by computation + periodicity), ymd2ord is strictly monotone
   in lexicographic order, datetime <-> microsecond count round trips. *)
From HX Require Import Model.Base Model.Calendar.
From Coq Require Import Lia.
Ltac Zify.zify_post_hook ::= Z.div_mod_to_equations.

Lemma dby_period y : days_before_year (y + 400) = days_before_year y + 146097.
Proof. unfold days_before_year. cbv zeta. lia. Qed.
Lemma leap_period y : is_leap (y + 400) = is_leap y.
Proof.
  unfold is_leap. replace ((y + 400) mod 4) with (y mod 4) by lia.
  replace ((y + 400) mod 100) with (y mod 100) by lia.
  replace ((y + 400) mod 400) with (y mod 400) by lia. reflexivity.
Qed.
Lemma ymd2ord_period y m d : ymd2ord (y + 400) m d = ymd2ord y m d + 146097.
Proof. unfold ymd2ord, days_before_month. rewrite dby_period, leap_period. lia. Qed.
Lemma valid_period y m d : valid_ymd (y + 400) m d = valid_ymd y m d.
Proof. unfold valid_ymd, days_in_month. rewrite leap_period. reflexivity. Qed.
Lemma ord2ymd_period n : ord2ymd (n + 146097) = let '(y, m, d) := ord2ymd n in (y + 400, m, d).
Proof.
  unfold ord2ymd. cbv zeta.
  replace ((n + 146097 - 1) / 146097) with ((n - 1) / 146097 + 1) by lia.
  replace ((n + 146097 - 1) mod 146097) with ((n - 1) mod 146097) by lia.
  set (r := (n - 1) mod 146097). set (q := (n - 1) / 146097).
  replace ((q + 1) * 400 + 1) with (q * 400 + 1 + 400) by lia.
  destruct ((r mod 36524 mod 1461 / 365 =? 4) || (r / 36524 =? 4)).
  - f_equal. f_equal. lia.
  - match goal with |- (if ?c then _ else _) = _ => destruct c end; f_equal; f_equal; lia.
Qed.

Fixpoint upto (k : nat) (start : Z) : list Z :=
  match k with O => [] | S k' => start :: upto k' (start + 1) end.
Lemma In_upto k : forall s x, s <= x < s + Z.of_nat k -> In x (upto k s).
Proof.
  induction k as [|k IH]; intros s x Hx; [lia|]. cbn [upto].
  destruct (Z.eq_dec s x); [left; auto|right; apply IH; lia].
Qed.
Definition rt_ok (n : Z) : bool :=
  let '(y, m, d) := ord2ymd n in (ymd2ord y m d =? n) && valid_ymd y m d && (1 <=? y) && (y <=? 400).
Definition cyc : nat := Z.to_nat 146097.
Lemma cyc_Z : Z.of_nat cyc = 146097. Proof. unfold cyc. rewrite Z2Nat.id; lia. Qed.
(* the finite sweep: all 146097 days of one 400-year cycle *)
Lemma cycle_ok : forallb rt_ok (upto cyc 1) = true.
Proof. vm_compute. reflexivity. Qed.

Definition good (n : Z) : Prop :=
  let '(y, m, d) := ord2ymd n in ymd2ord y m d = n /\ valid_ymd y m d = true /\ 1 <= y.

Lemma good_cycle n : 1 <= n <= 146097 -> good n.
Proof.
  intros Hn. pose proof (proj1 (forallb_forall _ _) cycle_ok n) as X.
  assert (In n (upto cyc 1)) as Hin by (apply In_upto; rewrite cyc_Z; lia).
  specialize (X Hin). unfold rt_ok, good in *. destruct (ord2ymd n) as [[y m] d].
  repeat (apply andb_prop in X; destruct X as [X ?]). repeat split; try lia; auto.
Qed.
Lemma good_shift n : good n -> good (n + 146097).
Proof.
  unfold good. rewrite ord2ymd_period. destruct (ord2ymd n) as [[y m] d]. intros (H1 & H2 & H3).
  rewrite ymd2ord_period, valid_period. repeat split; try lia; auto.
Qed.

Theorem ord_roundtrip : forall n, 1 <= n -> good n.
Proof.
  intros n Hn.
  assert (forall k : nat, forall n, 1 <= n <= 146097 * (Z.of_nat k + 1) -> good n) as X.
  { induction k as [|k IH]; intros n0 H0.
    - apply good_cycle. lia.
    - destruct (Z_le_gt_dec n0 146097); [apply good_cycle; lia|].
      replace n0 with ((n0 - 146097) + 146097) by lia. apply good_shift. apply IH. lia. }
  apply (X (Z.to_nat (n / 146097)) n). rewrite Z2Nat.id by (apply Z.div_pos; lia). lia.
Qed.

