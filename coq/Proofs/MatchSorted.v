(* C18: MATCH with type 1 on an ascending numeric array / type -1 on a descending one. *)
From HX Require Import Model.Value Model.Comparator Model.Lookup Proofs.ValueProofs.
From Coq Require Import Lia ZifyBool QArith Sorted.
Open Scope Z_scope.

Definition numeric (v : value) : Prop := match v with VInt _ | VFlt _ => True | _ => False end.
Definition val (v : value) : Q := match num_of v with Some q => q | None => 0%Q end.

Lemma q_ltb_lt x y : q_ltb x y = true <-> (x < y)%Q.
Proof. unfold q_ltb, Qlt. apply Z.ltb_lt. Qed.
Lemma q_ltb_ge x y : q_ltb x y = false <-> (y <= x)%Q.
Proof. unfold q_ltb, Qle. rewrite Z.ltb_ge. tauto. Qed.
Lemma q_eqb_eq x y : q_eqb x y = true <-> (x == y)%Q.
Proof. unfold q_eqb, Qeq. apply Z.eqb_eq. Qed.
Lemma q_eqb_neq x y : q_eqb x y = false <-> ~ (x == y)%Q.
Proof. unfold q_eqb, Qeq. apply Z.eqb_neq. Qed.

Lemma num_py_eq a x : numeric a -> numeric x -> py_eq a x = q_eqb (val a) (val x).
Proof. destruct a; try contradiction; destruct x; try contradiction; reflexivity. Qed.
Lemma num_py_lt a x : numeric a -> numeric x -> py_lt a x = Some (q_ltb (val a) (val x)).
Proof. destruct a; try contradiction; destruct x; try contradiction; reflexivity. Qed.
Lemma num_truthy a : numeric a -> truthy a = negb (q_eqb (val a) 0).
Proof.
  destruct a; try contradiction; intros _; cbn; unfold q_is_zero, q_eqb; cbn; f_equal.
  - destruct z; reflexivity.
  - rewrite Z.mul_1_r. reflexivity.
Qed.

(* dir = 1: ascending array, items below x;  dir = -1: descending array, items above x.
   [below dir a b] : a is on the searched side of b (strictly) *)
Definition below (dir : Z) (a b : Q) : Prop := if dir =? 1 then (a < b)%Q else (b < a)%Q.
Definition beloweq (dir : Z) (a b : Q) : Prop := if dir =? 1 then (a <= b)%Q else (b <= a)%Q.

Lemma beloweq_refl dir a : beloweq dir a a.
Proof. unfold beloweq. destruct (dir =? 1); apply Qle_refl. Qed.
Lemma beloweq_trans dir a b c : beloweq dir a b -> beloweq dir b c -> beloweq dir a c.
Proof. unfold beloweq. destruct (dir =? 1); intros; eapply Qle_trans; eassumption. Qed.
Lemma below_weak dir a b : below dir a b -> beloweq dir a b.
Proof. unfold below, beloweq. destruct (dir =? 1); apply Qlt_le_weak. Qed.
Lemma eq_beloweq dir a b : (a == b)%Q -> beloweq dir a b.
Proof. unfold beloweq. intros E. destruct (dir =? 1); rewrite E; apply Qle_refl. Qed.

Definition cmp_side (dir : Z) (a x : value) : option bool := if dir =? 1 then py_lt a x else py_gt a x.
Definition cmp_better (dir : Z) (a bv : value) : option bool := if dir =? 1 then py_gt a bv else py_lt a bv.

Lemma cmp_side_num dir a x : numeric a -> numeric x ->
  exists b, cmp_side dir a x = Some b /\ (b = true <-> below dir (val a) (val x)).
Proof.
  intros Ha Hx. unfold cmp_side, below, py_gt. destruct (dir =? 1).
  - rewrite num_py_lt by assumption. eexists; split; [reflexivity|apply q_ltb_lt].
  - rewrite num_py_lt by assumption. eexists; split; [reflexivity|apply q_ltb_lt].
Qed.
Lemma cmp_better_num dir a bv : numeric a -> numeric bv ->
  exists b, cmp_better dir a bv = Some b /\ (b = false -> beloweq dir (val a) (val bv)).
Proof.
  intros Ha Hb. unfold cmp_better, beloweq, py_gt. destruct (dir =? 1).
  - rewrite num_py_lt by assumption. eexists; split; [reflexivity|apply q_ltb_ge].
  - rewrite num_py_lt by assumption. eexists; split; [reflexivity|apply q_ltb_ge].
Qed.

(* the result of the scan: a position holding the item closest to x on the searched side *)
Definition good_result (dir : Z) (x : value) (l : list value) (res : option Z) : Prop :=
  match res with
  | Some p => exists a, nth_error l (Z.to_nat (p - 1)) = Some a /\ 1 <= p /\ beloweq dir (val a) (val x) /\
                        forall b, In b l -> beloweq dir (val b) (val x) -> beloweq dir (val b) (val a)
  | None => forall b, In b l -> ~ beloweq dir (val b) (val x)
  end.

Definition sorted_dir (dir : Z) (l : list value) : Prop := StronglySorted (fun a b => beloweq dir (val a) (val b)) l.

Lemma match_scan_unfold ty x a r i best :
  match_scan ty x (a :: r) i best =
    if py_eq a x then Some (Some (i + 1))
    else match cmp_side ty a x with
         | None => None
         | Some false => match_scan ty x r (i + 1) best
         | Some true =>
             match best with
             | None => match_scan ty x r (i + 1) (Some (i + 1, a))
             | Some (bi, bv) =>
                 if negb (truthy bv) then match_scan ty x r (i + 1) (Some (i + 1, a))
                 else match cmp_better ty a bv with
                      | None => None
                      | Some true => match_scan ty x r (i + 1) (Some (i + 1, a))
                      | Some false => match_scan ty x r (i + 1) best
                      end
             end
         end.
Proof. reflexivity. Qed.

Lemma scan_sorted dir x : (dir = 1 \/ dir = -1) -> numeric x -> forall r done best,
  Forall numeric (done ++ r) -> sorted_dir dir (done ++ r) ->
  Forall (fun b => ~ (val b == val x)%Q) done ->
  match best with
  | None => forall b, In b done -> ~ beloweq dir (val b) (val x)
  | Some (bi, bv) => nth_error (done ++ r) (Z.to_nat (bi - 1)) = Some bv /\ 1 <= bi /\ numeric bv /\
                     below dir (val bv) (val x) /\
                     forall b, In b done -> beloweq dir (val b) (val x) -> beloweq dir (val b) (val bv)
  end ->
  exists res, match_scan dir x r (Z.of_nat (length done)) best = Some res /\ good_result dir x (done ++ r) res.
Proof.
  intros Hdir Hx. induction r as [|a r IH]; intros done best Hnum Hsort Hne Hbest.
  - cbn [match_scan]. eexists; split; [reflexivity|]. rewrite app_nil_r in *. destruct best as [[bi bv]|]; cbn [option_map fst good_result].
    + destruct Hbest as (N & B1 & _ & Bl & Bmax). exists bv. repeat split; try assumption. apply below_weak. exact Bl.
    + exact Hbest.
  - assert (numeric a) as Ha by (apply Forall_app in Hnum; destruct Hnum as [_ F]; inversion F; assumption).
    assert (forall b, In b done -> beloweq dir (val b) (val a)) as Hda.
    { intros b Hb. clear - Hsort Hb. unfold sorted_dir in Hsort. induction done as [|d ds IHd]; [contradiction|].
      cbn [app] in Hsort. inversion Hsort as [|? ? S F]; subst. destruct Hb as [->|Hb].
      - rewrite Forall_forall in F. apply F. apply in_or_app. right. left. reflexivity.
      - apply IHd; assumption. }
    assert (Forall (fun b => beloweq dir (val a) (val b)) r) as Har.
    { clear - Hsort. unfold sorted_dir in Hsort. induction done as [|d ds IHd].
      - cbn [app] in Hsort. inversion Hsort; assumption.
      - cbn [app] in Hsort. inversion Hsort; subst. apply IHd. assumption. }
    assert (done ++ a :: r = (done ++ [a]) ++ r) as Eapp by (rewrite <- app_assoc; reflexivity).
    assert (Z.of_nat (length done) + 1 = Z.of_nat (length (done ++ [a]))) as Elen by (rewrite app_length; cbn [length]; lia).
    assert (nth_error (done ++ a :: r) (Z.to_nat (Z.of_nat (length done) + 1 - 1)) = Some a) as Hnth.
    { replace (Z.to_nat (Z.of_nat (length done) + 1 - 1)) with (length done) by lia.
      rewrite nth_error_app2 by lia. rewrite Nat.sub_diag. reflexivity. }
    rewrite match_scan_unfold. rewrite (num_py_eq a x Ha Hx).
    destruct (q_eqb (val a) (val x)) eqn:Eq.
    + (* equal: return this position *)
      apply q_eqb_eq in Eq. eexists; split; [reflexivity|]. cbn [good_result]. exists a.
      repeat split; [exact Hnth|lia|apply eq_beloweq; exact Eq|].
      intros b Hb Hbx. apply in_app_or in Hb. destruct Hb as [Hb|[->|Hb]].
      * apply Hda. exact Hb.
      * apply beloweq_refl.
      * (* b after a in a sorted list and b on x's side while a == x: b beloweq x = a *)
        eapply beloweq_trans; [exact Hbx|]. apply eq_beloweq. symmetry. exact Eq.
    + apply q_eqb_neq in Eq.
      assert (Forall (fun b => ~ (val b == val x)%Q) (done ++ [a])) as Hne' by (apply Forall_app; split; [exact Hne|constructor; [exact Eq|constructor]]).
      destruct (cmp_side_num dir a x Ha Hx) as (sb & -> & Hs).
      (* a helper to finish with a new best = (i+1, a) *)
      assert (below dir (val a) (val x) ->
              exists res, match_scan dir x r (Z.of_nat (length done) + 1) (Some (Z.of_nat (length done) + 1, a)) = Some res /\
                          good_result dir x (done ++ a :: r) res) as Hnew.
      { intros Hax. rewrite Elen, Eapp. apply IH; rewrite <- ?Eapp; try assumption.
        rewrite <- Elen. repeat split; [exact Hnth|lia|exact Ha|exact Hax|].
        intros b Hb _. apply in_app_or in Hb. destruct Hb as [Hb|[->|[]]]; [apply Hda; exact Hb|apply beloweq_refl]. }
      destruct sb.
      * (* a is on the searched side *)
        assert (below dir (val a) (val x)) as Hax by (apply Hs; reflexivity).
        destruct best as [[bi bv]|]; [|apply Hnew; exact Hax].
        destruct Hbest as (N & B1 & Nb & Bl & Bmax).
        destruct (negb (truthy bv)); [apply Hnew; exact Hax|].
        destruct (cmp_better_num dir a bv Ha Nb) as (bb & -> & Hb).
        destruct bb; [apply Hnew; exact Hax|].
        (* keep the old best: a is not better than bv *)
        rewrite Elen, Eapp. apply IH; rewrite <- ?Eapp; try assumption.
        repeat split; try assumption.
        intros b Hin Hbx. apply in_app_or in Hin. destruct Hin as [Hin|[->|[]]]; [apply Bmax; assumption|apply Hb; reflexivity].
      * (* a is not on the searched side (and not equal): it is beyond x *)
        assert (~ below dir (val a) (val x)) as Hnax by (intros C; apply Hs in C; discriminate).
        assert (~ beloweq dir (val a) (val x)) as Hnle.
        { intros C. unfold below, beloweq in *. destruct (dir =? 1).
          - apply Qle_lteq in C. destruct C as [C|C]; [exact (Hnax C)|exact (Eq C)].
          - apply Qle_lteq in C. destruct C as [C|C]; [exact (Hnax C)|apply Eq; symmetry; exact C]. }
        rewrite Elen, Eapp. apply IH; rewrite <- ?Eapp; try assumption.
        destruct best as [[bi bv]|].
        -- destruct Hbest as (N & B1 & Nb & Bl & Bmax). repeat split; try assumption.
           intros b Hin Hbx. apply in_app_or in Hin. destruct Hin as [Hin|[->|[]]]; [apply Bmax; assumption|contradiction].
        -- intros b Hin. apply in_app_or in Hin. destruct Hin as [Hin|[->|[]]]; [apply Hbest; exact Hin|exact Hnle].
Qed.

Theorem MATCH_sorted dir x l : (dir = 1 \/ dir = -1) -> numeric x -> l <> [] -> Forall numeric l -> sorted_dir dir l ->
  exists res, fn_MATCH x (VList l) dir = (match res with Some p => Ret (VInt p) | None => Ret (VErr ENA) end) /\
              good_result dir x l res.
Proof.
  intros Hdir Hx Hne Hnum Hs.
  destruct (scan_sorted dir x Hdir Hx l [] None Hnum Hs (Forall_nil _) (fun b (H : In b []) => match H with end)) as (res & E & G).
  cbn [length app Z.of_nat] in *. exists res. split; [|exact G].
  unfold fn_MATCH. assert (truthy (VList l) = true) as -> by (destruct l; [congruence|reflexivity]).
  cbn [negb]. rewrite andb_false_r.
  assert (negb ((dir =? -1) || (dir =? 0) || (dir =? 1)) = false) as -> by (destruct Hdir as [-> | ->]; reflexivity).
  assert ((dir =? 0) = false) as -> by (destruct Hdir as [-> | ->]; reflexivity).
  rewrite E. destruct res as [p|]; [|reflexivity].
  destruct G as (a & _ & P1 & _). destruct (p =? 0) eqn:P0; [exfalso; lia|reflexivity].
Qed.
