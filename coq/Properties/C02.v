(* C02 — Evaluation is a pure, repeatable function of formula and registered bindings.
   Property theorems only; proofs are in Proofs/SessionsProofs.v.  Gen/Sessions.v is regenerated from the source. *)
From HX Require Import Model.Base Model.Lexer Model.Value Model.Interp Model.Sessions Proofs.SessionsProofs.
Local Open Scope nat_scope.

Theorem C02_generated_facts :
  parse_uses_private_lexer = true /\ tracebacks_released = true /\ debug_only_prints = true /\
  no_module_level_state = true /\ bindings_per_instance = true /\ no_parameter_mutation = true.
Proof. vm_compute. repeat split; reflexivity. Qed.

(* histories of registrations and evaluations on one parser: every evaluation returns what a fresh parser with the
   same bindings returns - whatever was evaluated before, successfully or not *)
Theorem C02_history_independent : forall ops w h, run_history parse_uses_private_lexer w h ops = fresh_outcomes h ops.
Proof. exact history_independent. Qed.
Theorem C02_earlier_evaluations_irrelevant : forall pre s w h,
  last (run_history parse_uses_private_lexer w h (pre ++ [HParse s])) None = Some (parse_formula (fold_left bind pre h) s).
Proof. exact earlier_evaluations_irrelevant. Qed.
(* the model's evaluation is a function: debug is not an input of parse_formula (debug_only_prints is generated) *)

(* retention: with the finally clause releasing the shared error objects, nothing accumulates over any history, of
   any length; without it the chain grows linearly (what fix 964a29f repaired) *)
Theorem C02_nothing_retained : forall frames history, retained_after tracebacks_released frames history = 0.
Proof. exact nothing_retained. Qed.
Theorem C02_retention_without_release_refuted :
  exists frames history, forall n, retained_after false frames (concat (repeat history n)) = 12 * n.
Proof. exact retention_without_release_refuted. Qed.

Print Assumptions C02_history_independent.
Print Assumptions C02_earlier_evaluations_irrelevant.
Print Assumptions C02_nothing_retained.
