(* Radix conversions and numerals: engineering.py HEX2DEC/DEC2HEX, mathtrig.py BASE/DECIMAL/ROMAN/ARABIC,
   COMPLEX/IMREAL/IMAGINARY on integer parts.  Integers in Z, text as code points. *)
From HX Require Export Model.Value.
Open Scope Z_scope.

Definition two39 : Z := 549755813888.
Definition two40 : Z := 1099511627776.

(* digit <-> character, '0123456789ABCDEFGHIJKLMNOPQRSTUVWXYZ' *)
Definition digit_char (d : Z) : Z := if d <? 10 then 48 + d else 55 + d.
Definition char_digit (c : Z) : option Z :=
  if (48 <=? c) && (c <=? 57) then Some (c - 48)
  else if (65 <=? c) && (c <=? 90) then Some (c - 55)
  else if (97 <=? c) && (c <=? 122) then Some (c - 87)
  else None.

(* int(text, base) on the class: non-empty, every character a digit of the base (either letter case);
   None = ValueError (sign, blanks, underscores, 0x prefixes are outside the model) *)
Fixpoint parse_digits (b : Z) (s : list Z) (acc : Z) : option Z :=
  match s with
  | [] => Some acc
  | c :: r => match char_digit c with
              | Some d => if d <? b then parse_digits b r (acc * b + d) else None
              | None => None
              end
  end.
Definition parse_int (b : Z) (s : list Z) : option Z := match s with [] => None | _ => parse_digits b s 0 end.

(* digits of n >= 0 in base b, as text; "0" for 0 *)
Definition num_text (b n : Z) : list Z := if n =? 0 then [48] else map digit_char (to_digits b n).

Definition rjust0 (s : list Z) (places : Z) : list Z := repeat 48 (Z.to_nat (places - Z.of_nat (length s))) ++ s.

Inductive rres := ROk (s : list Z) | RInt (z : Z) | RNum | RValue | RExc.

(* DEC2HEX(dec, places) on an int *)
Definition fn_DEC2HEX (dec : Z) (places : option Z) : rres :=
  match places with
  | Some p => if p <? 0 then RNum else
      if (dec <? - two39) || (two39 - 1 <? dec) then RNum
      else if dec <? 0 then ROk (num_text 16 (dec + two40))
      else let s := num_text 16 dec in
           if p <? Z.of_nat (length s) then RNum else ROk (rjust0 s p)
  | None =>
      if (dec <? - two39) || (two39 - 1 <? dec) then RNum
      else ROk (num_text 16 (if dec <? 0 then dec + two40 else dec))
  end.
(* HEX2DEC(text) *)
Definition fn_HEX2DEC (s : list Z) : rres :=
  match parse_int 16 s with
  | None => RValue
  | Some dec => if two40 <=? dec then RNum else RInt (if two39 <=? dec then dec - two40 else dec)
  end.

(* BASE(value, base, places) on ints *)
Definition fn_BASE (value base : Z) (places : option Z) : rres :=
  match places with
  | Some p => if p <? 0 then RNum else
      if (value <? 0) || (base <? 2) || (36 <? base) then RNum
      else if value =? 0 then ROk [48]               (* '0' is returned before the padding *)
      else let s := num_text base value in
           if p <? Z.of_nat (length s) then RNum else ROk (rjust0 s p)
  | None => if (value <? 0) || (base <? 2) || (36 <? base) then RNum else ROk (num_text base value)
  end.
(* DECIMAL(text, base) *)
Definition fn_DECIMAL (s : list Z) (base : Z) : rres :=
  if (base <? 2) || (36 <? base) then RValue      (* int(text, base) raises ValueError for such a base (base 0 excluded by the harness) *)
  else match parse_int base s with
       | None => RValue
       | Some dec => RInt (if two39 <=? dec then dec - two40 else dec)
       end.

(* ---------- ROMAN ---------- *)
Definition numeral_map : list (Z * Z) := [(1000, 77); (500, 68); (100, 67); (50, 76); (10, 88); (5, 86); (1, 73)].
Definition pair_in_map (a : Z) (c : Z) : bool := existsb (fun p => (fst p =? a) && (snd p =? c)) numeral_map.
(* the "inbetweeners" of one numeral: smaller numerals subtracted, at most [compress] of them, last found first *)
Fixpoint inbetween (arabic roman : Z) (smaller : list (Z * Z)) (compress : nat) (acc : list (Z * list Z)) : list (Z * list Z) :=
  match compress with
  | O => acc
  | S c =>
      match smaller with
      | [] => acc
      | (sa, sr) :: rest =>
          if pair_in_map (arabic - sa) sr then inbetween arabic roman rest compress acc
          else inbetween arabic roman rest c ((arabic - sa, [sr; roman]) :: acc)
      end
  end.
Fixpoint numerals_from (m : list (Z * Z)) (compress : nat) : list (Z * list Z) :=
  match m with
  | [] => []
  | (a, r) :: rest => (a, [r]) :: inbetween a r rest compress [] ++ numerals_from rest compress
  end.
Fixpoint repeat_text (s : list Z) (n : nat) : list Z := match n with O => [] | S k => s ++ repeat_text s k end.
Fixpoint roman_build (nums : list (Z * list Z)) (n : Z) : list Z :=
  match nums with
  | [] => []
  | (a, r) :: rest => if n =? 0 then [] else
                      let c := n / a in repeat_text r (Z.to_nat c) ++ roman_build rest (n - a * c)
  end.
Definition fn_ROMAN (n form : Z) : rres :=
  if (0 <? n) && (n <? 4000) && (0 <=? form) && (form <=? 4)
  then ROk (roman_build (numerals_from numeral_map (Z.to_nat (form + 1))) n)
  else RValue.

(* what a Roman numeral denotes (standard subtractive reading), independent of the generator *)
Definition roman_letter (c : Z) : Z :=
  match c with 77 => 1000 | 68 => 500 | 67 => 100 | 76 => 50 | 88 => 10 | 86 => 5 | 73 => 1 | _ => 0 end.
Fixpoint roman_value (s : list Z) : Z :=
  match s with
  | [] => 0
  | c :: r => match r with
              | d :: _ => if roman_letter c <? roman_letter d then roman_value r - roman_letter c
                          else roman_value r + roman_letter c
              | [] => roman_letter c
              end
  end.

(* ---------- ARABIC ----------
   ^M{0,4}(CM|CD|D?C{0,3})(XC|XL|L?X{0,3})(IX|IV|V?I{0,3})$  then the sum of the tokens [MDLV]|C[MD]?|X[CL]?|I[XV]? *)
Fixpoint is_prefix_z (p s : list Z) : bool :=
  match p, s with
  | [], _ => true
  | a :: p', b :: s' => (a =? b) && is_prefix_z p' s'
  | _ :: _, [] => false
  end.
Fixpoint take_upto (c : Z) (k : nat) (s : list Z) : list Z :=   (* strip at most k leading c *)
  match k, s with
  | S k', x :: r => if x =? c then take_upto c k' r else s
  | _, _ => s
  end.
(* (nine|four|five?one{0,3}) *)
Definition rgroup (nine four : list Z) (five one : Z) (s : list Z) : list Z :=
  if is_prefix_z nine s then skipn 2 s
  else if is_prefix_z four s then skipn 2 s
  else take_upto one 3 (match s with x :: r => if x =? five then r else s | [] => s end).
Definition arabic_valid (s : list Z) : bool :=
  let s := take_upto 77 4 s in
  let s := rgroup [67; 77] [67; 68] 68 67 s in
  let s := rgroup [88; 67] [88; 76] 76 88 s in
  let s := rgroup [73; 88] [73; 86] 86 73 s in
  match s with [] | [10] => true | _ => false end.      (* '$' also matches before a final newline *)
Fixpoint arabic_sum (s : list Z) : Z :=
  match s with
  | [] => 0
  | c :: r =>
      if (c =? 77) || (c =? 68) || (c =? 76) || (c =? 86) then roman_letter c + arabic_sum r
      else if c =? 67 then match r with
                           | d :: r' => if d =? 77 then 900 + arabic_sum r' else if d =? 68 then 400 + arabic_sum r'
                                        else 100 + arabic_sum r
                           | [] => 100 end
      else if c =? 88 then match r with
                           | d :: r' => if d =? 67 then 90 + arabic_sum r' else if d =? 76 then 40 + arabic_sum r'
                                        else 10 + arabic_sum r
                           | [] => 10 end
      else if c =? 73 then match r with
                           | d :: r' => if d =? 88 then 9 + arabic_sum r' else if d =? 86 then 4 + arabic_sum r'
                                        else 1 + arabic_sum r
                           | [] => 1 end
      else arabic_sum r
  end.
Definition fn_ARABIC (s : list Z) : rres :=
  let u := map upper_ascii s in if arabic_valid u then RInt (arabic_sum u) else RValue.

(* COMPLEX(re, im) then IMREAL / IMAGINARY on integer parts *)
Definition fn_IMREAL_COMPLEX (re im : Z) : Z := re.
Definition fn_IMAGINARY_COMPLEX (re im : Z) : Z := im.

(* ---------- runner entries ---------- *)
Definition enc_rres (r : rres) : list Z :=
  match r with ROk s => 0 :: enc_text s | RInt z => [1; z] | RNum => [2] | RValue => [3] | RExc => [4] end.
Definition opt_places (z : Z) : option Z := if z =? -1000000 then None else Some z.
Definition e_radix (a : list Z) : list Z :=
  match a with
  | 0 :: dec :: pl :: _ => enc_rres (fn_DEC2HEX dec (opt_places pl))
  | 1 :: r => enc_rres (fn_HEX2DEC (fst (dec_text r)))
  | 2 :: v :: b :: pl :: _ => enc_rres (fn_BASE v b (opt_places pl))
  | 3 :: b :: r => enc_rres (fn_DECIMAL (fst (dec_text r)) b)
  | 4 :: n :: f :: _ => enc_rres (fn_ROMAN n f)
  | 5 :: r => enc_rres (fn_ARABIC (fst (dec_text r)))
  | _ => [-1]
  end.
