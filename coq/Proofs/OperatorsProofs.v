(* C06: arithmetic and concatenation follow the implicit type-conversion table. *)
From HX Require Import Model.Value Model.Serial Model.Comparator Model.Operators.
From Coq Require Import Lia ZifyBool QArith.
Open Scope Z_scope.

(* ---------- the generated table against the reference classification ---------- *)
Definition conv_for (k : tkind) : conv := match k with KNum => CNone | KDate => CSerial | KNone => CZero end.
Definition is_date_kind (k : tkind) : bool := match k with KDate => true | _ => false end.
(* where the result is a date: exactly one operand is a date (date op number/blank, number/blank op date), except that
   date / blank and blank / date stay numbers *)
Definition result_is_date (op : Z) (l r : tkind) : bool :=
  xorb (is_date_kind l) (is_date_kind r) &&
  negb ((op =? 3) && (match l, r with KDate, KNone | KNone, KDate => true | _, _ => false end)).
Definition kinds : list tkind := [KNum; KDate; KNone].
Definition table_row_ok (op : Z) (l r : tkind) : bool :=
  match lookup_conv op l r conv_rows with
  | Some (lc, rc, res) =>
      match lc, conv_for l with CNone, CNone | CSerial, CSerial | CZero, CZero => true | _, _ => false end &&
      match rc, conv_for r with CNone, CNone | CSerial, CSerial | CZero, CZero => true | _, _ => false end &&
      match res, result_is_date op l r with Some CParse, true | None, false => true | _, _ => false end
  | None => false
  end.
Lemma table_is_reference :
  conv_gen_ok = true /\
  forallb (fun op => forallb (fun l => forallb (fun r => table_row_ok op l r) kinds) kinds) [0; 1; 2; 3] = true.
Proof. split; vm_compute; reflexivity. Qed.

Lemma lookup_ref op l r : 0 <= op <= 3 ->
  lookup_conv op l r conv_rows = Some (conv_for l, conv_for r, if result_is_date op l r then Some CParse else None).
Proof.
  intros H. assert (op = 0 \/ op = 1 \/ op = 2 \/ op = 3) as [->|[->|[->| ->]]] by lia; destruct l, r; vm_compute; reflexivity.
Qed.

(* ---------- numeric value of an operand ---------- *)
Definition opnum (o : operand) : option Operators.num :=
  match o with
  | OpNum n => Some n
  | OpDate t => Some (serialize_num t)
  | OpNone => Some (NI 0)
  | OpOther => None
  end.
Lemma apply_conv_ref o k : kind_of o = Some k -> apply_conv (conv_for k) o = opnum o.
Proof. destruct o; cbn; intros E; inversion E; subst; reflexivity. Qed.

(* numbers as themselves, TRUE/FALSE as 1/0, blank as 0, dates as their serial *)
Theorem operand_values :
  (forall z, opnum (classify (VInt z)) = Some (NI z)) /\ (forall q, opnum (classify (VFlt q)) = Some (NF q)) /\
  opnum (classify (VBool true)) = Some (NI 1) /\ opnum (classify (VBool false)) = Some (NI 0) /\
  opnum (classify VBlank) = Some (NI 0) /\
  (forall t, opnum (classify (VDate t)) = Some (serialize_num t)) /\
  (forall t, (num_q (serialize_num t) == serial_q t)%Q).
Proof.
  repeat split; try reflexivity. intros t. unfold serialize_num. destruct (serial_us t =? 0) eqn:E; [|reflexivity].
  unfold serial_q, Qeq. cbn. lia.
Qed.

(* the exact arithmetic on the numeric values *)
Definition q_op (op : Z) (a b : Q) : Q :=
  match op with 0 => (a + b)%Q | 1 => (a - b)%Q | 2 => (a * b)%Q | _ => (a / b)%Q end.
Lemma arith_num_exact op a b n : 0 <= op <= 3 -> arith_num op a b = Some n -> (num_q n == q_op op (num_q a) (num_q b))%Q.
Proof.
  intros H E. assert (op = 0 \/ op = 1 \/ op = 2 \/ op = 3) as [->|[->|[->| ->]]] by lia.
  - destruct a as [x|p], b as [y|q]; cbn [arith_num] in E; inversion E; subst; cbn [num_q q_op]; try reflexivity.
    rewrite inject_Z_plus. reflexivity.
  - destruct a as [x|p], b as [y|q]; cbn [arith_num] in E; inversion E; subst; cbn [num_q q_op]; try reflexivity.
    unfold Z.sub, Qminus. rewrite inject_Z_plus, inject_Z_opp. reflexivity.
  - destruct a as [x|p], b as [y|q]; cbn [arith_num] in E; inversion E; subst; cbn [num_q q_op]; try reflexivity.
    all: try (rewrite inject_Z_mult; reflexivity).
  - cbn [arith_num] in E. destruct (num_is_zero b); [discriminate|]. inversion E; subst. reflexivity.
Qed.
Lemma num_is_zero_q b : num_is_zero b = true <-> (num_q b == 0)%Q.
Proof. destruct b; cbn [num_is_zero num_q]; unfold Qeq; cbn; lia. Qed.
Lemma arith_num_div0 a b : (num_q b == 0)%Q -> arith_num 3 a b = None.
Proof. intros H. apply num_is_zero_q in H. cbn [arith_num]. rewrite H. reflexivity. Qed.
(* the main theorem on scalars *)
Theorem arith_scalar_spec op l r a b lk rk : 0 <= op <= 3 ->
  kind_of (classify l) = Some lk -> kind_of (classify r) = Some rk ->
  opnum (classify l) = Some a -> opnum (classify r) = Some b ->
  arith_scalar op l r =
    match arith_num op a b with
    | None => Ret (VErr EDIV0)
    | Some n => if result_is_date op lk rk then parse_num n else Ret (num_value n)
    end.
Proof.
  intros Hop Kl Kr Al Bl. unfold arith_scalar. rewrite Kl, Kr, (lookup_ref op lk rk Hop).
  rewrite (apply_conv_ref _ _ Kl), (apply_conv_ref _ _ Kr), Al, Bl.
  destruct (arith_num op a b); [|reflexivity]. destruct (result_is_date op lk rk); reflexivity.
Qed.

Theorem nonnumeric_text_is_VALUE op s v : 0 <= op <= 3 -> text_number s = None ->
  arith_scalar op (VText s) v = Ret (VErr EVALUE) /\ arith_scalar op v (VText s) = Ret (VErr EVALUE).
Proof.
  intros _ Hs. split; unfold arith_scalar; cbn [classify]; rewrite Hs; cbn [kind_of]; [reflexivity|].
  destruct (kind_of (classify v)); reflexivity.
Qed.
(* text spelling a number acts as that number *)
Theorem numeric_text_value s n : text_number s = Some n -> classify (VText s) = OpNum n /\ opnum (classify (VText s)) = Some n.
Proof. intros H. cbn [classify]. rewrite H. split; reflexivity. Qed.
Lemma split_dot_digits s : forall acc, all_digits_z s = true -> split_dot_aux s acc = (rev acc ++ s, None).
Proof.
  induction s as [|c r IH]; intros acc H; cbn [split_dot_aux]; [rewrite app_nil_r; reflexivity|].
  cbn [all_digits_z] in H. apply andb_prop in H. destruct H as [H1 H2].
  assert ((c =? 46) = false) as -> by (unfold is_digit in H1; lia).
  rewrite IH by exact H2. cbn [rev]. rewrite <- app_assoc. reflexivity.
Qed.
Theorem integer_text_value s : s <> [] -> all_digits_z s = true -> text_number s = Some (NI (digits_value s)).
Proof.
  intros Hne Hd. unfold text_number.
  assert (match s with 45 :: r => (true, r) | 43 :: r => (false, r) | _ => (false, s) end = (false, s)) as ->.
  { destruct s as [|c r]; [congruence|]. cbn [all_digits_z] in Hd. apply andb_prop in Hd. destruct Hd as [H1 _].
    unfold is_digit in H1. destruct (Z.eq_dec c 45); [lia|]. destruct (Z.eq_dec c 43); [lia|].
    destruct c as [|p|p]; try reflexivity. repeat (destruct p as [p|p|]; try reflexivity; try lia). }
  rewrite split_dot_digits by exact Hd. cbn [rev app]. rewrite Hd. destruct s; [congruence|reflexivity].
Qed.

Theorem zero_divisor l r a b lk rk : kind_of (classify l) = Some lk -> kind_of (classify r) = Some rk ->
  opnum (classify l) = Some a -> opnum (classify r) = Some b -> (num_q b == 0)%Q ->
  arith_scalar 3 l r = Ret (VErr EDIV0).
Proof.
  intros Kl Kr Al Bl Z. rewrite (arith_scalar_spec 3 l r a b lk rk) by (try assumption; lia).
  rewrite (arith_num_div0 a b Z). reflexivity.
Qed.

(* a date result before 1900 (negative serial) is #NUM! *)
Theorem pre1900_is_NUM n : (num_q n < 0)%Q -> parse_num n = Ret (VErr ENUM).
Proof. intros H. unfold parse_num. assert (q_ltb (num_q n) 0 = true) as -> by (unfold q_ltb, Qlt in *; cbn in *; lia). reflexivity. Qed.

(* ---------- commutativity of + and * on scalars ---------- *)
Lemma Qplus_comm_L x y : Qplus x y = Qplus y x.
Proof. unfold Qplus. f_equal; [ring|apply Pos.mul_comm]. Qed.
Lemma Qmult_comm_L x y : Qmult x y = Qmult y x.
Proof. unfold Qmult. f_equal; [ring|apply Pos.mul_comm]. Qed.
Lemma arith_num_comm op a b : op = 0 \/ op = 2 -> arith_num op a b = arith_num op b a.
Proof.
  intros [-> | ->]; cbn [arith_num]; destruct a as [x|p], b as [y|q]; cbn [num_q]; f_equal.
  all: try (f_equal; lia).
  all: f_equal; try apply Qplus_comm_L; apply Qmult_comm_L.
Qed.
Lemma result_is_date_sym op l r : op = 0 \/ op = 2 -> result_is_date op l r = result_is_date op r l.
Proof. intros [-> | ->]; destruct l, r; reflexivity. Qed.
Theorem plus_mult_commutative op l r : op = 0 \/ op = 2 -> arith_scalar op l r = arith_scalar op r l.
Proof.
  intros Hop. assert (0 <= op <= 3) as Hr by (destruct Hop; lia).
  destruct (kind_of (classify l)) as [lk|] eqn:Kl; destruct (kind_of (classify r)) as [rk|] eqn:Kr.
  - destruct (opnum (classify l)) as [a|] eqn:Al; [|destruct (classify l); discriminate].
    destruct (opnum (classify r)) as [b|] eqn:Bl; [|destruct (classify r); discriminate].
    rewrite (arith_scalar_spec op l r a b lk rk), (arith_scalar_spec op r l b a rk lk) by assumption.
    rewrite (arith_num_comm op a b Hop), (result_is_date_sym op lk rk Hop). reflexivity.
  - unfold arith_scalar. rewrite Kl, Kr. reflexivity.
  - unfold arith_scalar. rewrite Kl, Kr. reflexivity.
  - unfold arith_scalar. rewrite Kl, Kr. reflexivity.
Qed.

(* ---------- arrays ---------- *)
Definition scalar (v : value) : Prop := match v with VList _ | VErr _ => False | _ => True end.

Lemma eval_arith_scalar f op l r : scalar l -> scalar r -> eval_arith (S f) op l r = arith_scalar op l r.
Proof. destruct l; try contradiction; destruct r; try contradiction; reflexivity. Qed.

(* array op scalar: element-wise *)
Theorem array_scalar f op la r : scalar r ->
  eval_arith (S f) op (VList la) r = list_outcome (map_outcome (fun a => eval_arith f op a r) la).
Proof. intros H. destruct r; try contradiction; reflexivity. Qed.
(* array op array of equal length (not a one-element array): element-wise *)
Theorem array_array_equal f op la lb : length lb = length la -> length lb <> 1%nat ->
  eval_arith (S f) op (VList la) (VList lb) = list_outcome (map2_outcome (eval_arith f op) la lb).
Proof.
  intros E N. cbn [eval_arith]. destruct lb as [|x [|y lb']]; try (cbn in N; congruence).
  - rewrite E. rewrite Nat.eqb_refl. reflexivity.
  - rewrite E. rewrite Nat.eqb_refl. reflexivity.
Qed.
(* length mismatch: #VALUE! *)
Theorem array_length_mismatch f op la lb : length lb <> length la -> length lb <> 1%nat ->
  eval_arith (S f) op (VList la) (VList lb) = Ret (VErr EVALUE).
Proof.
  intros E N. cbn [eval_arith]. destruct lb as [|x [|y lb']]; try (cbn in N; congruence).
  - destruct (Nat.eqb_spec (length (@nil value)) (length la)); [congruence|reflexivity].
  - destruct (Nat.eqb_spec (length (x :: y :: lb')) (length la)); [congruence|reflexivity].
Qed.
(* the full statement is false of the faithful model: a one-element array is broadcast instead *)
Theorem array_length_mismatch_refuted : exists la lb, length lb <> length la /\
  eval_arith 5 0 (VList la) (VList lb) <> Ret (VErr EVALUE).
Proof. exists [VInt 1; VInt 2; VInt 3], [VInt 9]. split; [cbn; lia|]. vm_compute. discriminate. Qed.

Lemma map_outcome_scalars g la : (forall a, In a la -> exists v, g a = Ret v) ->
  exists vs, map_outcome g la = Some vs /\ length vs = length la /\
             forall i a, nth_error la i = Some a -> exists v, g a = Ret v /\ nth_error vs i = Some v.
Proof.
  induction la as [|x r IH]; intros H.
  - exists []. split; [reflexivity|]. split; [reflexivity|]. intros [|i] a; discriminate.
  - destruct (H x (or_introl eq_refl)) as (v & Ev). destruct (IH (fun a Ha => H a (or_intror Ha))) as (vs & E & L & N).
    exists (v :: vs). cbn [map_outcome]. rewrite Ev, E. split; [reflexivity|]. split; [cbn; lia|].
    intros [|i] a Ea; cbn in Ea |- *; [inversion Ea; subst; eauto|apply N; exact Ea].
Qed.

(* ---------- & ---------- *)
Theorem amp_joins l r a b : is_err l = false -> is_err r = false -> amp_text l = Some a -> amp_text r = Some b ->
  eval_amp l r = Ret (VText (a ++ b)).
Proof. intros El Er Al Ar. unfold eval_amp. rewrite Al, Ar. destruct l; try discriminate; destruct r; try discriminate; reflexivity. Qed.
Theorem amp_text_spec : (forall s, amp_text (VText s) = Some s) /\ (forall z, amp_text (VInt z) = Some (dec_text_of z)) /\
  amp_text VBlank = Some [].
Proof. repeat split; reflexivity. Qed.
