(* Invariants of the emitter machine (C20), by induction over all histories/scripts. *)
From HX Require Import Model.Emitter.
From Coq Require Import Lia.

Definition pend1 (eid : nat) (it : item) : list (nat * listener * nat) :=
  match it with IDel _ eid' n l a => if eid' =? eid then [(n, l, a)] else [] | _ => [] end.
Definition pend (work : list item) (eid : nat) : list (nat * listener * nat) := flat_map (pend1 eid) work.

Lemma live_snoc tr e n : live (tr ++ [e]) n = upd_live n (live tr n) e.
Proof. unfold live. rewrite fold_left_app. reflexivity. Qed.
Lemma delivered_once_snoc tr e : delivered_once (tr ++ [e]) = upd_once (delivered_once tr) e.
Proof. unfold delivered_once. rewrite fold_left_app. reflexivity. Qed.
Lemma proj_snoc tr e eid : proj (tr ++ [e]) eid = proj tr eid ++ proj1 eid e.
Proof. unfold proj. rewrite flat_map_app. cbn. rewrite app_nil_r. reflexivity. Qed.
Lemma pend_app w1 w2 eid : pend (w1 ++ w2) eid = pend w1 eid ++ pend w2 eid.
Proof. unfold pend. apply flat_map_app. Qed.
Lemma pend_ops d ops eid : pend (map (IOp d) ops) eid = [].
Proof. induction ops as [|o ops IH]; [reflexivity|exact IH]. Qed.

Lemma pend_dels_other d e n a ls eid : eid <> e ->
  pend (map (fun l => IDel d e n l a) ls ++ [IEndI e]) eid = [].
Proof.
  intros Hne. rewrite pend_app. cbn. rewrite app_nil_r.
  induction ls as [|l ls IH]; [reflexivity|]. cbn.
  replace (e =? eid) with false by (symmetry; apply Nat.eqb_neq; congruence). exact IH.
Qed.
Lemma pend_dels_self d e n a ls :
  pend (map (fun l => IDel d e n l a) ls ++ [IEndI e]) e = map (fun l => (n, l, a)) ls.
Proof.
  rewrite pend_app. cbn. rewrite app_nil_r.
  induction ls as [|l ls IH]; [reflexivity|]. cbn. rewrite Nat.eqb_refl. cbn. f_equal. exact IH.
Qed.

Lemma delivered_once_mono tr e x : In x (delivered_once tr) -> In x (delivered_once (tr ++ [e])).
Proof.
  rewrite delivered_once_snoc. intros H. destruct e; cbn; auto. destruct (once l); [right|]; exact H.
Qed.

Lemma snoc_split {A} (tr : list A) e tr1 x tr2 :
  tr ++ [e] = tr1 ++ x :: tr2 ->
  (tr2 = [] /\ tr1 = tr /\ x = e) \/ (exists tr2', tr2 = tr2' ++ [e] /\ tr = tr1 ++ x :: tr2').
Proof.
  intros H. destruct tr2 as [|z m _] using rev_ind.
  - left. apply app_inj_tail in H as [-> ->]. auto.
  - right. rewrite app_comm_cons, app_assoc in H. apply app_inj_tail in H as [H1 H2].
    exists m. subst. split; reflexivity.
Qed.

Lemma existsb_eqb_In x l : existsb (Nat.eqb x) l = true <-> In x l.
Proof.
  rewrite existsb_exists. split.
  - intros [y [Hy E]]. apply Nat.eqb_eq in E. subst. exact Hy.
  - intros H. exists x. split; [exact H|apply Nat.eqb_refl].
Qed.

Section Proofs.
Variable script : nat -> nat -> list op.

Record Inv (st : state) (work : list item) (tr : list ev) : Prop := {
  inv_tab : forall n, tab st n = live tr n;
  inv_fired : fired st = delivered_once tr;
  inv_nodup : NoDup (fired st);
  inv_fresh : forall eid, next st <= eid ->
      proj tr eid = [] /\ pend work eid = [] /\ (forall n a s, ~ In (EEmit eid n a s) tr);
  inv_emit : forall tr1 tr2 eid n a s, tr = tr1 ++ EEmit eid n a s :: tr2 ->
      proj tr eid ++ pend work eid = map (fun l => (n, l, a)) s /\ s = live tr1 n;
  inv_skip : forall eid n l a, In (ESkip eid n l a) tr -> once l = true /\ In (sid l) (delivered_once tr);
  inv_deliv : forall eid n l a, In (EDeliver eid n l a) tr -> once l = true -> In (sid l) (delivered_once tr)
}.

Lemma inv_init ops : Inv init (map (IOp 0) ops) [].
Proof.
  constructor.
  - reflexivity.
  - reflexivity.
  - constructor.
  - intros eid _. rewrite pend_ops. repeat split. intros n a s [].
  - intros tr1 tr2 eid n a s H. destruct tr1; discriminate.
  - intros eid n l a [].
  - intros eid n l a [].
Qed.

Lemma set_tab_live st tr n v e :
  (forall m, tab st m = live tr m) ->
  (upd_live n (live tr n) e = v) ->
  (forall m, m <> n -> upd_live m (live tr m) e = live tr m) ->
  forall m, set_tab (tab st) n v m = live (tr ++ [e]) m.
Proof.
  intros Ht Hv Ho m. rewrite live_snoc. unfold set_tab. destruct (m =? n) eqn:E.
  - apply Nat.eqb_eq in E. rewrite E. symmetry. exact Hv.
  - apply Nat.eqb_neq in E. rewrite Ho by exact E. apply Ht.
Qed.

Ltac neq_name := match goal with H : ?m <> ?n |- context [?n =? ?m] =>
  replace (n =? m) with false by (symmetry; apply Nat.eqb_neq; congruence) end.

(* generic preservation for steps that neither deliver nor emit *)
Lemma step_simple st w tr st' e :
  Inv st w tr ->
  (forall n, tab st' n = live (tr ++ [e]) n) ->
  fired st' = fired st -> next st <= next st' ->
  (forall eid, proj1 eid e = []) -> upd_once (delivered_once tr) e = delivered_once tr ->
  (forall eid n a s, e <> EEmit eid n a s) -> (forall eid n l a, e <> ESkip eid n l a) ->
  (forall eid n l a, e <> EDeliver eid n l a) ->
  forall w0, (forall eid, pend w0 eid = pend w eid) -> Inv st' w0 (tr ++ [e]).
Proof.
  intros I Htab Hf Hn Hp Hd Hne Hns Hnd w0 Hw. destruct I as [I1 I2 I3 I4 I5 I6 I7].
  constructor.
  - exact Htab.
  - rewrite Hf, delivered_once_snoc, Hd. exact I2.
  - rewrite Hf. exact I3.
  - intros eid Hle. destruct (I4 eid ltac:(lia)) as (A & B & C). rewrite proj_snoc, Hp, A, Hw, B.
    repeat split. intros n a s Hin. apply in_app_or in Hin as [Hin|[Hin|[]]]; [eapply C; eauto|eapply Hne; eauto].
  - intros tr1 tr2 eid n a s Hs. apply snoc_split in Hs as [(_ & _ & Hx)|(tr2' & -> & Hs)].
    + exfalso. eapply Hne. symmetry. exact Hx.
    + destruct (I5 _ _ _ _ _ _ Hs) as [A B]. rewrite proj_snoc, Hp, app_nil_r, Hw. split; assumption.
  - intros eid n l a Hin. apply in_app_or in Hin as [Hin|[Hin|[]]]; [|exfalso; eapply Hns; eauto].
    destruct (I6 _ _ _ _ Hin) as [A B]. split; [exact A|apply delivered_once_mono; exact B].
  - intros eid n l a Hin Ho. apply in_app_or in Hin as [Hin|[Hin|[]]]; [|exfalso; eapply Hnd; eauto].
    apply delivered_once_mono. eapply I7; eauto.
Qed.

Lemma step_inv st it w tr st' push e :
  Inv st (it :: w) tr -> step script st it = (st', push, e) -> Inv st' (push ++ w) (tr ++ [e]).
Proof.
  intros I Hs.
  assert (forall eid, pend (it :: w) eid = pend1 eid it ++ pend w eid) as Hpw by reflexivity.
  destruct it as [d [n f c|n f c|n [f|]|n a]|d eid n l a|eid]; cbn [step] in Hs.
  - (* On *) inversion Hs; subst; clear Hs. eapply step_simple; try exact I; cbn; auto; try congruence.
    + eapply set_tab_live; [apply I| cbn; rewrite Nat.eqb_refl; rewrite (inv_tab _ _ _ I); reflexivity|].
      intros m Hm. cbn. neq_name. reflexivity.
  - (* Once *) inversion Hs; subst; clear Hs. eapply step_simple; try exact I; cbn; auto; try congruence.
    + eapply set_tab_live; [apply I| cbn; rewrite Nat.eqb_refl; rewrite (inv_tab _ _ _ I); reflexivity|].
      intros m Hm. cbn. neq_name. reflexivity.
  - (* Off n (Some f) *) inversion Hs; subst; clear Hs. eapply step_simple; try exact I; cbn; auto; try congruence.
    + eapply set_tab_live; [apply I| cbn; rewrite Nat.eqb_refl; rewrite (inv_tab _ _ _ I); reflexivity|].
      intros m Hm. cbn. neq_name. reflexivity.
  - (* Off n None *) inversion Hs; subst; clear Hs. eapply step_simple; try exact I; cbn; auto; try congruence.
    + eapply set_tab_live; [apply I| cbn; rewrite Nat.eqb_refl; reflexivity|].
      intros m Hm. cbn. neq_name. reflexivity.
  - (* Emit *) inversion Hs; subst; clear Hs. destruct I as [I1 I2 I3 I4 I5 I6 I7].
    pose proof (fun eid => pend_dels_other (S d) (next st) n a (tab st n) eid) as Hother.
    pose proof (pend_dels_self (S d) (next st) n a (tab st n)) as Hself.
    constructor; cbn [tab next fired].
    + intros m. rewrite live_snoc. cbn. apply I1.
    + rewrite delivered_once_snoc. cbn. exact I2.
    + exact I3.
    + intros eid Hle. destruct (I4 eid ltac:(lia)) as (A & B & C). rewrite Hpw in B. cbn in B.
      rewrite proj_snoc. cbn. rewrite app_nil_r, A, pend_app, Hother by lia. repeat split; [exact B|].
      intros n0 a0 s0 Hin. apply in_app_or in Hin as [Hin|[Hin|[]]]; [eapply C; eauto|]. inversion Hin. lia.
    + intros tr1 tr2 eid n0 a0 s0 Hs. rewrite proj_snoc. cbn. rewrite app_nil_r, pend_app.
      apply snoc_split in Hs as [(_ & -> & Hx)|(tr2' & -> & Hs)].
      * inversion Hx; subst. destruct (I4 (next st) ltac:(lia)) as (A & B & _). rewrite Hpw in B. cbn in B.
        rewrite A, Hself, B, app_nil_r. split; [reflexivity|apply I1].
      * destruct (I5 _ _ _ _ _ _ Hs) as [A B]. rewrite Hpw in A. cbn in A.
        assert (eid <> next st) as Hne.
        { intros ->. destruct (I4 (next st) ltac:(lia)) as (_ & _ & C). eapply C. rewrite Hs. apply in_elt. }
        rewrite Hother by exact Hne. cbn. split; assumption.
    + intros eid n0 l a0 Hin. apply in_app_or in Hin as [Hin|[Hin|[]]]; [|discriminate].
      destruct (I6 _ _ _ _ Hin) as [A B]. split; [exact A|apply delivered_once_mono; exact B].
    + intros eid n0 l a0 Hin Ho. apply in_app_or in Hin as [Hin|[Hin|[]]]; [|discriminate].
      apply delivered_once_mono. eapply I7; eauto.
  - (* IDel *)
    destruct I as [I1 I2 I3 I4 I5 I6 I7].
    assert (eid < next st) as Hlt.
    { destruct (Nat.lt_ge_cases eid (next st)) as [H|H]; [exact H|].
      destruct (I4 eid H) as (_ & B & _). rewrite Hpw in B. cbn in B. rewrite Nat.eqb_refl in B. discriminate. }
    assert (forall st1 ops e1, proj1 eid e1 = [(n, l, a)] -> (forall eid', eid' <> eid -> proj1 eid' e1 = []) ->
              (forall eid n a s, e1 <> EEmit eid n a s) -> next st1 = next st ->
              (forall eid0, next st1 <= eid0 ->
                 proj (tr ++ [e1]) eid0 = [] /\ pend (map (IOp d) ops ++ w) eid0 = [] /\
                 (forall n a s, ~ In (EEmit eid0 n a s) (tr ++ [e1]))) /\
              (forall tr1 tr2 eid0 n0 a0 s0, tr ++ [e1] = tr1 ++ EEmit eid0 n0 a0 s0 :: tr2 ->
                 proj (tr ++ [e1]) eid0 ++ pend (map (IOp d) ops ++ w) eid0 = map (fun l => (n0, l, a0)) s0 /\
                 s0 = live tr1 n0)) as Hcommon.
    { intros st1 ops e1 Hp1 Hp2 Hne Hnx. split.
      - intros eid0 Hle. rewrite Hnx in Hle. destruct (I4 eid0 Hle) as (A & B & C).
        rewrite Hpw in B. cbn in B. replace (eid =? eid0) with false in B by (symmetry; apply Nat.eqb_neq; lia).
        rewrite proj_snoc, Hp2, A, pend_app, pend_ops by lia. repeat split; [exact B|].
        intros n0 a0 s0 Hin. apply in_app_or in Hin as [Hin|[Hin|[]]]; [eapply C; eauto|eapply Hne; eauto].
      - intros tr1 tr2 eid0 n0 a0 s0 Hsp. apply snoc_split in Hsp as [(_ & _ & Hx)|(tr2' & -> & Hsp)].
        + exfalso. eapply Hne. symmetry. exact Hx.
        + destruct (I5 _ _ _ _ _ _ Hsp) as [A B]. split; [|exact B]. rewrite Hpw in A. cbn in A.
          rewrite proj_snoc, pend_app, pend_ops. cbn [app].
          destruct (Nat.eq_dec eid0 eid) as [->|Hne'].
          * rewrite Nat.eqb_refl in A. rewrite Hp1, <- app_assoc. exact A.
          * replace (eid =? eid0) with false in A by (symmetry; apply Nat.eqb_neq; congruence).
            rewrite Hp2 by exact Hne'. rewrite app_nil_r. exact A. }
    destruct (once l) eqn:Eo.
    + destruct (existsb (Nat.eqb (sid l)) (fired st)) eqn:Ef.
      * (* skip *) inversion Hs; subst; clear Hs.
        destruct (Hcommon st' [] (ESkip eid n l a)) as [F E]; cbn; try rewrite Nat.eqb_refl; auto; try congruence.
        { intros eid' Hne. replace (eid =? eid') with false by (symmetry; apply Nat.eqb_neq; congruence). reflexivity. }
        constructor; auto.
        -- intros m. rewrite live_snoc. cbn. apply I1.
        -- rewrite delivered_once_snoc. cbn. exact I2.
        -- intros eid0 n0 l0 a0 Hin. apply in_app_or in Hin as [Hin|[Hin|[]]].
           ++ destruct (I6 _ _ _ _ Hin) as [A B]. split; [exact A|apply delivered_once_mono; exact B].
           ++ inversion Hin; subst. split; [exact Eo|]. apply delivered_once_mono. rewrite <- I2.
              apply existsb_eqb_In. exact Ef.
        -- intros eid0 n0 l0 a0 Hin Ho. apply in_app_or in Hin as [Hin|[Hin|[]]]; [|discriminate].
           apply delivered_once_mono. eapply I7; eauto.
      * (* first delivery of a once listener *) inversion Hs; subst; clear Hs.
        destruct (Hcommon (St (set_tab (tab st) n (filter (fun x => negb (sid x =? sid l)) (tab st n)))
                              (next st) (sid l :: fired st)) (script (fn l) d) (EDeliver eid n l a)) as [F E];
          cbn; try rewrite Nat.eqb_refl; auto; try congruence.
        { intros eid' Hne. replace (eid =? eid') with false by (symmetry; apply Nat.eqb_neq; congruence). reflexivity. }
        constructor; cbn [tab next fired]; auto.
        -- eapply set_tab_live; [exact I1| cbn; rewrite Nat.eqb_refl, Eo; cbn; rewrite I1; reflexivity|].
           intros m Hm. cbn. neq_name. reflexivity.
        -- rewrite delivered_once_snoc. cbn. rewrite Eo, I2. reflexivity.
        -- constructor; [|exact I3]. intros Hin. apply existsb_eqb_In in Hin. congruence.
        -- intros eid0 n0 l0 a0 Hin. apply in_app_or in Hin as [Hin|[Hin|[]]]; [|discriminate].
           destruct (I6 _ _ _ _ Hin) as [A B]. split; [exact A|apply delivered_once_mono; exact B].
        -- intros eid0 n0 l0 a0 Hin Ho. apply in_app_or in Hin as [Hin|[Hin|[]]].
           ++ apply delivered_once_mono. eapply I7; eauto.
           ++ inversion Hin; subst. rewrite delivered_once_snoc. cbn. rewrite Eo. left. reflexivity.
    + (* plain listener *) inversion Hs; subst; clear Hs.
      destruct (Hcommon st' (script (fn l) d) (EDeliver eid n l a)) as [F E];
        cbn; try rewrite Nat.eqb_refl; auto; try congruence.
      { intros eid' Hne. replace (eid =? eid') with false by (symmetry; apply Nat.eqb_neq; congruence). reflexivity. }
      constructor; auto.
      * intros m. rewrite live_snoc. cbn. rewrite Eo, andb_false_r. apply I1.
      * rewrite delivered_once_snoc. cbn. rewrite Eo. exact I2.
      * intros eid0 n0 l0 a0 Hin. apply in_app_or in Hin as [Hin|[Hin|[]]]; [|discriminate].
        destruct (I6 _ _ _ _ Hin) as [A B]. split; [exact A|apply delivered_once_mono; exact B].
      * intros eid0 n0 l0 a0 Hin Ho. apply in_app_or in Hin as [Hin|[Hin|[]]].
        -- apply delivered_once_mono. eapply I7; eauto.
        -- inversion Hin; subst. congruence.
  - (* IEndI *) inversion Hs; subst; clear Hs. eapply step_simple; try exact I; cbn; auto; try congruence.
    intros m. rewrite live_snoc. cbn. apply I.
Qed.

Theorem run_inv : forall fuel st work tr stF trF,
  Inv st work tr -> run script fuel st work tr = Some (stF, trF) -> Inv stF [] trF.
Proof.
  induction fuel as [|k IH]; intros st work tr stF trF HI Hr; [discriminate|].
  cbn [run] in Hr. destruct work as [|it w].
  - inversion Hr; subst. exact HI.
  - destruct (step script st it) as [[st' push] e] eqn:Es.
    eapply IH; [eapply step_inv; eauto|exact Hr].
Qed.

Theorem history_inv fuel ops stF trF :
  run_history script fuel ops = Some (stF, trF) -> Inv stF [] trF.
Proof. intros H. eapply run_inv; [apply inv_init|exact H]. Qed.

(* ---------- the clauses of the property, read off the trace ---------- *)

(* every emit delivers exactly the listeners that were subscribed when it started, in
   subscription order, with its own name and arguments; nothing else carries its id *)
Theorem emit_delivers_snapshot fuel ops stF tr tr1 tr2 eid n a s :
  run_history script fuel ops = Some (stF, tr) -> tr = tr1 ++ EEmit eid n a s :: tr2 ->
  s = live tr1 n /\ proj tr eid = map (fun l => (n, l, a)) (live tr1 n).
Proof.
  intros Hr Hs. destruct (inv_emit _ _ _ (history_inv _ _ _ _ Hr) _ _ _ _ _ _ Hs) as [A B].
  cbn in A. rewrite app_nil_r in A. subst s. split; [reflexivity|exact A].
Qed.

Theorem once_at_most_once fuel ops stF tr :
  run_history script fuel ops = Some (stF, tr) -> NoDup (delivered_once tr).
Proof. intros Hr. pose proof (history_inv _ _ _ _ Hr) as I. rewrite <- (inv_fired _ _ _ I). apply I. Qed.

Theorem table_is_live fuel ops stF tr :
  run_history script fuel ops = Some (stF, tr) -> forall n, tab stF n = live tr n.
Proof. intros Hr. apply (history_inv _ _ _ _ Hr). Qed.

Lemma in_proj tr eid n l a : In (n, l, a) (proj tr eid) ->
  In (EDeliver eid n l a) tr \/ In (ESkip eid n l a) tr.
Proof.
  unfold proj. rewrite in_flat_map. intros (e & He & Hp). destruct e; cbn in Hp; try contradiction;
  destruct (eid0 =? eid) eqn:E; cbn in Hp; try contradiction; destruct Hp as [Hp|[]];
  apply Nat.eqb_eq in E; inversion Hp; subst; auto.
Qed.

(* after a completed emit every once-listener of its snapshot has been called (exactly once
   overall, by once_at_most_once): by this emit, or by one nested in / preceding it *)
Theorem once_delivered_by_first_emit fuel ops stF tr tr1 tr2 eid n a s l :
  run_history script fuel ops = Some (stF, tr) -> tr = tr1 ++ EEmit eid n a s :: tr2 ->
  In l s -> once l = true -> In (sid l) (delivered_once tr).
Proof.
  intros Hr Hs Hin Ho. pose proof (history_inv _ _ _ _ Hr) as I.
  destruct (inv_emit _ _ _ I _ _ _ _ _ _ Hs) as [A _]. cbn in A. rewrite app_nil_r in A.
  assert (In (n, l, a) (proj tr eid)) as Hp by (rewrite A; apply in_map_iff; eauto).
  apply in_proj in Hp as [Hp|Hp].
  - eapply (inv_deliv _ _ _ I); eauto.
  - apply (inv_skip _ _ _ I) in Hp. apply Hp.
Qed.

(* a one-time wrapper returns without calling the callback only if the callback was already called *)
Theorem skip_only_after_delivery fuel ops stF tr eid n l a :
  run_history script fuel ops = Some (stF, tr) -> In (ESkip eid n l a) tr ->
  once l = true /\ In (sid l) (delivered_once tr).
Proof. intros Hr. apply (inv_skip _ _ _ (history_inv _ _ _ _ Hr)). Qed.
End Proofs.

(* ---------- facts about the specification function [live] itself ---------- *)
Lemma filter_in_sub {A} (p : A -> bool) l x : In x (filter p l) -> In x l.
Proof. intros H. apply filter_In in H. apply H. Qed.

(* name isolation: whoever is live under n was subscribed under n *)
Theorem live_was_subscribed tr n l : In l (live tr n) -> In (ESub n l) tr.
Proof.
  induction tr as [|e tr IH] using rev_ind; [intros []|].
  rewrite live_snoc. intros H. apply in_or_app.
  destruct e as [n' l'|n' [f|]|eid n' a s|eid n' l' a|eid n' l' a|eid]; cbn in H; auto.
  - destruct (n' =? n) eqn:E; auto. apply Nat.eqb_eq in E. subst.
    apply in_app_or in H as [H|[H|[]]]; auto. subst. right. left. reflexivity.
  - destruct (n' =? n); auto. apply filter_in_sub in H. auto.
  - destruct (n' =? n); auto. destruct H.
  - destruct ((n' =? n) && once l'); auto. apply filter_in_sub in H. auto.
Qed.

(* unsubscribing a name removes all its listeners and touches no other name *)
Theorem off_name_spec tr n m : live (tr ++ [EOff n None]) m = if n =? m then [] else live tr m.
Proof. rewrite live_snoc. reflexivity. Qed.

(* unsubscribing (name, callback) removes exactly the listeners of that callback - plain and
   one-time alike - and leaves the others in place and in order *)
Theorem off_pair_spec tr n f m :
  live (tr ++ [EOff n (Some f)]) m =
  if n =? m then filter (fun l => negb (fn l =? f)) (live tr m) else live tr m.
Proof. rewrite live_snoc. reflexivity. Qed.

Theorem on_spec tr n l m : live (tr ++ [ESub n l]) m = if n =? m then live tr m ++ [l] else live tr m.
Proof. rewrite live_snoc. reflexivity. Qed.

(* emitting changes nobody's subscription except that a delivered once-listener leaves *)
Theorem deliver_spec tr eid n l a m :
  live (tr ++ [EDeliver eid n l a]) m =
  if (n =? m) && once l then filter (fun x => negb (sid x =? sid l)) (live tr m) else live tr m.
Proof. rewrite live_snoc. reflexivity. Qed.
