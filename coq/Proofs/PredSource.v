(* C12: the type predicates and ISEVEN / ISODD AS WRITTEN IN information.py (Gen/PredFns.v, regenerated from the source
   on every run), read through the shapes of Model/PredShape.v, denote the p_IS* / fn_ISEVEN / fn_ISODD of
   Model/Logic.v on every value - so the exclusivity / exactness / parity theorems are theorems about the source terms. *)
From HX Require Import Model.Value Model.Logic Model.PredShape Gen.PredFns.
From Coq Require Import Lia.
Open Scope Z_scope.

Theorem source_predicates_are_model v :
  peval v gen_ISNUMBER = p_ISNUMBER v /\ peval v gen_ISTEXT = p_ISTEXT v /\ peval v gen_ISLOGICAL = p_ISLOGICAL v /\
  peval v gen_ISBLANK = p_ISBLANK v /\ peval v gen_ISERROR = p_ISERROR v /\ peval v gen_ISERR = p_ISERR v /\
  peval v gen_ISNA = p_ISNA v /\ peval v gen_ISNONTEXT = p_ISNONTEXT v.
Proof.
  destruct v as [z|q|b|s| |e|d|l]; cbn; try (repeat apply conj; reflexivity).
  destruct e; repeat apply conj; reflexivity.
Qed.

Lemma land1_mod z : Z.land z 1 = z mod 2.
Proof. change 1 with (Z.ones 1). rewrite Z.land_ones by lia. reflexivity. Qed.
Lemma land1_even z : (Z.land z 1 =? 0) = Z.even z.
Proof.
  rewrite land1_mod. destruct (Z.even z) eqn:E.
  - apply Z.even_spec in E. destruct E as [k ->]. rewrite Z.mul_comm, Z_mod_mult. reflexivity.
  - assert (O : Z.odd z = true) by (rewrite <- Z.negb_even, E; reflexivity).
    apply Z.odd_spec in O. destruct O as [k ->]. rewrite Z.add_comm, Z.mul_comm, Z_mod_plus_full. reflexivity.
Qed.
Lemma land1_odd z : (Z.land z 1 =? 1) = Z.odd z.
Proof.
  rewrite land1_mod. destruct (Z.odd z) eqn:O.
  - apply Z.odd_spec in O. destruct O as [k ->]. rewrite Z.add_comm, Z.mul_comm, Z_mod_plus_full. reflexivity.
  - assert (E : Z.even z = true) by (rewrite <- Z.negb_odd, O; reflexivity).
    apply Z.even_spec in E. destruct E as [k ->]. rewrite Z.mul_comm, Z_mod_mult. reflexivity.
Qed.

Theorem source_parity_is_model v : run_parity gen_ISEVEN v = fn_ISEVEN v /\ run_parity gen_ISODD v = fn_ISODD v.
Proof.
  unfold run_parity, gen_ISEVEN, gen_ISODD, fn_ISEVEN, fn_ISODD. cbn [pf_classes pf_bit existsb orb].
  destruct v as [z|q|b|s| |e|d|l]; cbn [isinst negb orb int_part]; try (split; reflexivity);
    rewrite land1_even, land1_odd; split; reflexivity.
Qed.
Theorem source_predicates_understood : pred_gen_ok = true.
Proof. reflexivity. Qed.
