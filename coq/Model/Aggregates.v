(* statistical.py / mathtrig.py aggregates and the criteria functions, over exact numbers.
   utils.iflatten / inumbers / parse_criteria are transcribed; statistics.* are modelled by their
   textbook definitions in exact rational arithmetic (square roots and logarithms are left to the oracle). *)
From HX Require Export Model.Value Model.Operators Model.Lookup.
Open Scope Z_scope.
Notation num := Operators.num (only parsing).

(* ---------- inumbers ---------- *)
Definition as_number (try_parse text_is_zero : bool) (v : value) : option num :=
  match v with
  | VInt z => Some (NI z)
  | VFlt q => Some (NF q)
  | VBool b => Some (NI (if b then 1 else 0))            (* bool is an int *)
  | VText s => match (if try_parse then text_number s else None) with
               | Some n => Some n
               | None => if text_is_zero then Some (NI 0) else None
               end
  | _ => None
  end.
(* the numeric leaves, or the first error leaf (raised by inumbers; every consumer exhausts the generator) *)
Fixpoint numbers_of (try_parse text_is_zero : bool) (leaves : list value) : list num + err :=
  match leaves with
  | [] => inl []
  | v :: r =>
      match v with
      | VErr e => inr e
      | _ => match numbers_of try_parse text_is_zero r with
             | inr e => inr e
             | inl ns => inl (match as_number try_parse text_is_zero v with Some n => n :: ns | None => ns end)
             end
      end
  end.

Definition is_int (n : num) : bool := match n with NI _ => true | NF _ => false end.
Definition all_int (ns : list num) : bool := forallb is_int ns.
Definition qs (ns : list num) : list Q := map num_q ns.
Definition qsum (l : list Q) : Q := fold_right Qplus 0%Q l.
Definition qprod (l : list Q) : Q := fold_right Qmult 1%Q l.
Definition zsum (ns : list num) : Z := fold_right (fun n a => match n with NI z => z + a | NF _ => a end) 0 ns.
Definition zprod (ns : list num) : Z := fold_right (fun n a => match n with NI z => z * a | NF _ => a end) 1 ns.
Definition qlen (ns : list num) : Q := inject_Z (Z.of_nat (length ns)).
Definition q_integral (q : Q) : bool := (Qnum q mod QDen q) =? 0.
(* statistics._convert: an integral value of int data stays an int, anything else is a float *)
Definition convert (ints : bool) (q : Q) : num := if ints && q_integral q then NI (Qnum q / QDen q) else NF q.

Inductive ares := AOk (n : num) | AErr (e : err) | AExc.

Definition with_numbers (tp tz : bool) (args : list value) (k : list num -> ares) : ares :=
  match numbers_of tp tz (flatten_args args) with
  | inr e => AErr e                    (* raised inside the function: the value of the call *)
  | inl ns => k ns
  end.

Definition fn_SUM (args : list value) : ares :=
  with_numbers true false args (fun ns => AOk (if all_int ns then NI (zsum ns) else NF (qsum (qs ns)))).
Definition fn_PRODUCT (args : list value) : ares :=
  with_numbers false false args (fun ns => match ns with [] => AExc | _ => AOk (if all_int ns then NI (zprod ns) else NF (qprod (qs ns))) end).
Definition mean_q (ns : list num) : Q := (qsum (qs ns) / qlen ns)%Q.
Definition fn_AVERAGE (args : list value) : ares :=
  with_numbers true false args (fun ns => match ns with [] => AExc | _ => AOk (convert (all_int ns) (mean_q ns)) end).
Definition fn_COUNT (args : list value) : ares := AOk (NI (Z.of_nat (length (flatten_args args)))).
(* min / max return the first extremal element itself *)
Fixpoint first_min (l : list num) : option num :=
  match l with
  | [] => None
  | x :: r => match first_min r with
              | None => Some x
              | Some m => if q_ltb (num_q m) (num_q x) then Some m else Some x
              end
  end.
Fixpoint first_max (l : list num) : option num :=
  match l with
  | [] => None
  | x :: r => match first_max r with
              | None => Some x
              | Some m => if q_ltb (num_q x) (num_q m) then Some m else Some x
              end
  end.
Definition fn_MIN (args : list value) : ares :=
  with_numbers false false args (fun ns => match first_min ns with Some m => AOk m | None => AExc end).
Definition fn_MAX (args : list value) : ares :=
  with_numbers false false args (fun ns => match first_max ns with Some m => AOk m | None => AExc end).

(* stable insertion sort by numeric value *)
Fixpoint insert_num (x : num) (l : list num) : list num :=
  match l with
  | [] => [x]
  | y :: r => if q_ltb (num_q x) (num_q y) then x :: l else y :: insert_num x r
  end.
Definition sort_nums (l : list num) : list num := fold_left (fun acc x => insert_num x acc) l [].
Definition add_num (a b : num) : num := match a, b with NI x, NI y => NI (x + y) | _, _ => NF (num_q a + num_q b)%Q end.
Definition fn_MEDIAN (args : list value) : ares :=
  with_numbers true false args (fun ns =>
    let s := sort_nums ns in let n := length s in
    match n with
    | O => AExc
    | _ => if Nat.odd n then AOk (nth (Nat.div n 2) s (NI 0))
           else AOk (NF (num_q (add_num (nth (Nat.div n 2 - 1) s (NI 0)) (nth (Nat.div n 2) s (NI 0))) / 2)%Q)
    end).
Definition count_eq (x : num) (l : list num) : nat := length (filter (fun y => q_eqb (num_q x) (num_q y)) l).
Fixpoint first_mode (l all : list num) : option num :=
  match l with
  | [] => None
  | x :: r => match first_mode r all with
              | None => Some x
              | Some m => if (count_eq x all <? count_eq m all)%nat then Some m else Some x
              end
  end.
Definition fn_MODE (args : list value) : ares :=
  with_numbers true false args (fun ns => match first_mode ns ns with Some m => AOk m | None => AExc end).
Definition sum_sq_dev (ns : list num) : Q := qsum (map (fun x => ((x - mean_q ns) * (x - mean_q ns))%Q) (qs ns)).
Definition fn_VAR (args : list value) : ares :=
  with_numbers false false args (fun ns => if (length ns <? 2)%nat then AExc
     else AOk (convert (all_int ns) (sum_sq_dev ns / (qlen ns - 1))%Q)).
Definition fn_VARP (args : list value) : ares :=
  with_numbers false false args (fun ns => match ns with [] => AExc | _ => AOk (convert (all_int ns) (sum_sq_dev ns / qlen ns)%Q) end).
Fixpoint nums_strict_leaves (items : list value) : option (list num) :=
  match items with
  | [] => Some []
  | v :: r => match as_number false false v, nums_strict_leaves r with
              | Some n, Some ns => Some (n :: ns)
              | _, _ => None
              end
  end.
Definition qabs_q (q : Q) : Q := if Qnum q <? 0 then (- q)%Q else q.
(* AVEDEV works on ALL flattened items: a non-number among them is a TypeError *)
Definition fn_AVEDEV (args : list value) : ares :=
  let leaves := flatten_args args in
  with_numbers true false args (fun ns =>
    match nums_strict_leaves leaves with
    | None => AExc                                   (* abs(item - average) on text / blank: TypeError *)
    | Some raw =>
      match raw with [] => AExc | _ =>
        AOk (NF (qsum (map (fun x => qabs_q (x - mean_q ns)) (qs raw)) / qlen raw)%Q) end
    end).
(* harmonic_mean consumes the items in order: a zero met first gives 0, a negative met first is an error *)
Fixpoint harmonic_scan (l : list Q) : option bool :=     (* Some true: all positive; Some false: zero first; None: negative first *)
  match l with
  | [] => Some true
  | x :: r => if Qnum x <? 0 then None else if Qnum x =? 0 then Some false else harmonic_scan r
  end.
Definition fn_HARMEAN (args : list value) : ares :=
  with_numbers false false args (fun ns =>
    match ns with
    | [] => AExc
    | [x] => if Qnum (num_q x) <? 0 then AExc else AOk x      (* a single item is returned as it is *)
    | _ =>
      match harmonic_scan (qs ns) with
      | None => AExc
      | Some false => AOk (NI 0)                  (* statistics.harmonic_mean: `return 0` on the first zero, an int whatever the items *)
      | Some true => AOk (NF (qlen ns / qsum (map Qinv (qs ns)))%Q)   (* the reciprocals 1/x are floats: a float whatever the items *)
      end end).
(* LARGE(arr, n) *)
Definition fn_LARGE (arr : value) (n : Z) : ares :=
  with_numbers true true [arr] (fun ns =>
    let s := sort_nums ns in
    if (n <? 1) || (Z.of_nat (length s) <? n) then AErr ENUM
    else AOk (nth (length s - Z.to_nat n) s (NI 0))).
(* SLOPE on two equal-length lists of numbers *)
Definition fn_SLOPE_lists (ys xs : list num) : ares :=
  if negb (length ys =? length xs)%nat || (length ys =? 0)%nat then AErr EDIV0
  else
    let n := qlen ys in
    let sx := qsum (qs xs) in let sy := qsum (qs ys) in
    let sxx := qsum (map (fun x => (x * x)%Q) (qs xs)) in
    let sxy := qsum (map (fun p => (fst p * snd p)%Q) (combine (qs xs) (qs ys))) in
    let den := (n * sxx - sx * sx)%Q in
    if Qnum den =? 0 then AErr EDIV0 else AOk (NF ((n * sxy - sx * sy) / den)%Q).

(* ---------- criteria ---------- *)
Inductive cop := CGt | CLt | CNe | CEq | CGe | CLe.
Inductive criterion :=
  | CritOp (op : cop) (v : value)       (* operator followed by a value (a number when the text spells one) *)
  | CritGlob (pat : list Z)             (* no operator, contains * or ? *)
  | CritEq (v : value)                  (* bare value: equality *)
  | CritBad.                            (* unknown operator run: KeyError *)
Definition is_opchar (c : Z) : bool := (c =? 60) || (c =? 61) || (c =? 62).
Definition value_of_text (s : list Z) : value :=
  match text_number s with Some n => num_value n | None => VText s end.
Definition parse_criteria (s : list Z) : criterion :=
  let '(ops0, val0) := span is_opchar s in
  (* REGEX_CRITERIA: a greedy run of operator characters, then a value of at least one character;
     an all-operator text gives its last character back to the value *)
  let '(ops, val) := match val0 with
                     | [] => (removelast ops0, match ops0 with [] => [] | _ => [last ops0 0] end)
                     | _ => (ops0, val0)
                     end in
  match val with
  | [] => CritBad                                   (* empty criteria: no match object (AttributeError) *)
  | _ =>
    match ops with
    | [] => if existsb (fun c => (c =? 63) || (c =? 42)) val then CritGlob val else CritEq (value_of_text val)
    | [62] => CritOp CGt (value_of_text val)
    | [60] => CritOp CLt (value_of_text val)
    | [60; 62] => CritOp CNe (value_of_text val)
    | [61] => CritOp CEq (value_of_text val)
    | [62; 61] => CritOp CGe (value_of_text val)
    | [60; 61] => CritOp CLe (value_of_text val)
    | _ => CritBad
    end
  end.
(* the predicate on an item; None = TypeError *)
Definition crit_match (c : criterion) (a : value) : option bool :=
  match c with
  | CritBad => None
  | CritGlob p => Some (match a with VText s => glob p s | _ => false end)
  | CritEq v => Some (py_eq a v)
  | CritOp op v =>
      match op with
      | CEq => Some (py_eq a v)
      | CNe => Some (negb (py_eq a v))
      | CGt => py_gt a v
      | CLt => py_lt a v
      | CGe => match py_gt a v with Some true => Some true | Some false => Some (py_eq a v) | None => None end
      | CLe => match py_lt a v with Some true => Some true | Some false => Some (py_eq a v) | None => None end
      end
  end.
(* Python's >= on mixed types raises like >; for numbers a >= v  <->  a > v or a == v *)

(* items selected by one criterion; None = an exception while filtering *)
Fixpoint select1 (c : criterion) (items : list value) : option (list value) :=
  match items with
  | [] => Some []
  | a :: r => match crit_match c a, select1 c r with
              | Some b, Some rest => Some (if b then a :: rest else rest)
              | _, _ => None
              end
  end.
(* sum of selected items as Python's sum(): ints stay ints; a non-number selected is a TypeError *)
Fixpoint nums_strict (items : list value) : option (list num) :=
  match items with
  | [] => Some []
  | v :: r => match as_number false false v, nums_strict r with
              | Some n, Some ns => Some (n :: ns)
              | _, _ => None
              end
  end.
Definition sum_num (ns : list num) : num := if all_int ns then NI (zsum ns) else NF (qsum (qs ns)).
Definition fn_SUMIF (args : value) (crit : list Z) : ares :=
  match parse_criteria crit with
  | CritBad => AExc
  | c => match select1 c (flatten args) with
         | None => AExc
         | Some sel => match nums_strict sel with Some ns => AOk (sum_num ns) | None => AExc end
         end
  end.
Definition fn_COUNTIF (args : value) (crit : list Z) : ares :=
  match parse_criteria crit with
  | CritBad => AExc
  | c => match select1 c (flatten args) with
         | None => AExc
         | Some sel => AOk (NI (Z.of_nat (length sel)))
         end
  end.
(* AVERAGEIF(args, criteria) with the average range = args *)
Definition fn_AVERAGEIF (args : value) (crit : list Z) : ares :=
  match parse_criteria crit with
  | CritBad => AExc
  | c => match flatten args with
         | [] => AErr EVALUE                         (* iparse_number_array of an empty list *)
         | leaves =>
           match select1 c leaves with
           | None => AExc
           | Some sel => match nums_strict sel with
                         | Some [] => AExc           (* ZeroDivisionError: nothing selected *)
                         | Some ns => AOk (match sum_num ns with
                                           | NI z => NF (inject_Z z / qlen ns)%Q
                                           | NF q => NF (q / qlen ns)%Q end)
                         | None => AExc
                         end
           end
         end
  end.
(* the *IFS family: rows selected by every (range, criterion) pair; ranges are flat lists *)
Fixpoint row_ok (pairs : list (list value * criterion)) (i : nat) : option bool :=
  match pairs with
  | [] => Some true
  | (rng, c) :: rest =>
      match nth_error rng i with
      | None => None                                 (* IndexError *)
      | Some a => match crit_match c a with
                  | None => None
                  | Some false => Some false         (* all() stops at the first false *)
                  | Some true => row_ok rest i
                  end
      end
  end.
Fixpoint select_rows (pairs : list (list value * criterion)) (items : list value) (i : nat) : option (list value) :=
  match items with
  | [] => Some []
  | a :: r => match row_ok pairs i, select_rows pairs r (S i) with
              | Some b, Some rest => Some (if b then a :: rest else rest)
              | _, _ => None
              end
  end.
Definition has_bad (pairs : list (list value * criterion)) : bool :=
  existsb (fun p => match snd p with CritBad => true | _ => false end) pairs.
Definition fn_SUMIFS (items : list value) (pairs : list (list value * criterion)) : ares :=
  if has_bad pairs then AExc
  else if existsb (fun p => negb (length (fst p) =? length items)%nat) pairs then AErr EVALUE
  else match select_rows pairs items 0 with
       | None => AExc
       | Some sel => match nums_strict sel with Some ns => AOk (sum_num ns) | None => AExc end
       end.
Definition fn_AVERAGEIFS (items : list value) (pairs : list (list value * criterion)) : ares :=
  if has_bad pairs then AExc
  else match select_rows pairs items 0 with
       | None => AExc
       | Some sel => match nums_strict sel with
                     | Some [] => AExc               (* error.DIV0 does not exist: AttributeError *)
                     | Some ns => AOk (match sum_num ns with
                                       | NI z => NF (inject_Z z / qlen ns)%Q
                                       | NF q => NF (q / qlen ns)%Q end)
                     | None => AExc
                     end
       end.
Definition fn_MAXIFS (items : list value) (pairs : list (list value * criterion)) : ares :=
  if has_bad pairs then AExc
  else match select_rows pairs items 0 with
       | None => AExc
       | Some sel => match nums_strict sel with
                     | Some [] => AOk (NI 0)
                     | Some ns => match first_max ns with Some m => AOk m | None => AOk (NI 0) end
                     | None => AExc
                     end
       end.

(* ---------- runner entries ---------- *)
Definition enc_ares (r : ares) : list Z :=
  match r with AOk n => 0 :: enc_value (num_value n) | AErr e => [1; err_code e] | AExc => [2] end.
Definition list_items (v : value) : list value := match v with VList l => l | _ => [v] end.
Fixpoint dec_pairs (k : nat) (vs : list value) : list (list value * criterion) :=
  match k with
  | O => []
  | S k' => match vs with
            | rng :: VText c :: r => (list_items rng, parse_criteria c) :: dec_pairs k' r
            | _ => []
            end
  end.
Definition e_aggregate (a : list Z) : list Z :=
  match a with
  | fn :: n :: r =>
      let args := fst (dec_vals (Z.to_nat n) r) in
      enc_ares
        (match fn with
         | 0 => fn_SUM args | 1 => fn_PRODUCT args | 2 => fn_AVERAGE args | 3 => fn_COUNT args | 4 => fn_MIN args
         | 5 => fn_MAX args | 6 => fn_MEDIAN args | 7 => fn_MODE args | 8 => fn_VAR args | 9 => fn_VARP args
         | 10 => fn_AVEDEV args | 11 => fn_HARMEAN args
         | 12 => match args with [arr; VInt k] => fn_LARGE arr k | _ => AExc end
         | 13 => match args with
                 | [ys; xs] => match nums_strict (flatten ys), nums_strict (flatten xs) with
                               | Some a, Some b => fn_SLOPE_lists a b | _, _ => AExc end
                 | _ => AExc end
         | 14 => match args with [rng; VText c] => fn_SUMIF rng c | _ => AExc end
         | 15 => match args with [rng; VText c] => fn_COUNTIF rng c | _ => AExc end
         | 16 => match args with [rng; VText c] => fn_AVERAGEIF rng c | _ => AExc end
         | 17 => match args with items :: rest => fn_SUMIFS (list_items items) (dec_pairs (length rest) rest) | _ => AExc end
         | 18 => match args with items :: rest => fn_AVERAGEIFS (list_items items) (dec_pairs (length rest) rest) | _ => AExc end
         | 19 => match args with items :: rest => fn_MAXIFS (list_items items) (dec_pairs (length rest) rest) | _ => AExc end
         | _ => AExc
         end)
  | _ => [-1]
  end.
