(* Date serial numbers (formulas/utils.py: serialize_date, parse_date) in exact arithmetic.
   A serial is represented by the integer S = serial * 86400000000 (microseconds per day),
   so that every date-time at microsecond resolution has an integral S and no rounding occurs.
   Python computes the same quantities in float milliseconds; the correspondence compares
   float(S / us_per_day) with the implementation (exactly on whole days, to the millisecond
   on date-times). *)
From HX Require Export Model.Calendar.

Definition dt1900 : datetime := DT 1900 1 1 0 0 0 0.
Definition us1900 : Z := to_us dt1900.
Definition day : Z := us_per_day.

(* serialize_date on a datetime:
     if date == date_1900: return 0
     date = epoch_seconds(date) * 1000 ; d1900 = epoch_seconds(date_1900) * 1000
     if date < -2203891200000: return (date - d1900) / 86400000 + 1      (before 1 March 1900)
     return (date - d1900) / 86400000 + 2 *)
Definition serial_us (t : datetime) : Z :=
  let u := to_us t - us1900 in
  if u =? 0 then 0
  else if u <? 59 * day then u + day
  else u + 2 * day.

(* parse_date on a number:
     if date < 0: return error.NUM
     if date < 1: return date_1900
     if date <= 60: return date_1900 + (date - 1) days
     return date_1900 + (date - 2) days *)
Definition parse_us (S : Z) : option datetime :=
  if S <? 0 then None
  else if S <? day then Some dt1900
  else if S <=? 60 * day then Some (of_us (us1900 + (S - day)))
  else Some (of_us (us1900 + (S - 2 * day))).

(* date + n, date - n through the conversion table: parse_date(serialize_date(date) + n) *)
Definition date_plus_days (t : datetime) (n : Z) : option datetime := parse_us (serial_us t + n * day).
(* date - date: difference of the serials *)
Definition date_minus_date (a b : datetime) : Z := serial_us a - serial_us b.

(* ---------- runner entries ---------- *)
Definition dec_dt (l : list Z) : datetime :=
  match l with
  | y :: m :: d :: h :: mi :: s :: u :: _ => DT y m d h mi s u
  | _ => dt1900
  end.
Definition enc_dt (t : datetime) : list Z :=
  [dyear t; dmonth t; dday t; dhour t; dminute t; dsecond t; dmicro t].
Definition e_serial (a : list Z) : list Z := [serial_us (dec_dt a)].
Definition e_parse_serial (a : list Z) : list Z :=
  match a with
  | sv :: _ => match parse_us sv with None => [0] | Some t => 1 :: enc_dt t end
  | _ => [-1]
  end.
