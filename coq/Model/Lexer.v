(* The ply lexer of grammarparser/lexer.py: 36 function rules tried in definition order at each position,
   first rule that matches wins (each rule matches as Python's re does), WHITESPACE produces no token,
   no match raises #NAME? (t_error).  Rule order and regex texts are checked by the generator
   (Gen.Grammar.lexer_gen_ok); the recognisers below are hand transcriptions of those regexes. *)
From HX Require Export Model.Base.
From HX Require Export Gen.Grammar.
Open Scope Z_scope.

Record token := Tok { tk : Z; lexeme : list Z }.

Definition is_space (c : Z) : bool := existsb (Z.eqb c) space_chars.
Definition is_word (c : Z) : bool := is_alpha c || is_digit c || (c =? 95).        (* [A-Za-z_0-9] *)
Definition is_word_dot (c : Z) : bool := is_word c || (c =? 46).                  (* [A-Za-z_0-9\.] *)
Definition is_alpha_dot (c : Z) : bool := is_alpha c || (c =? 46).                (* [A-Za-z\.] *)
Definition is_alpha_us (c : Z) : bool := is_alpha c || (c =? 95).                 (* [A-Za-z_] *)
Definition is_err_char (c : Z) : bool := is_upper c || is_digit c || (c =? 47) || (c =? 95).   (* [A-Z0-9\/_] *)

Definition hd_is (c : Z) (s : list Z) : bool := match s with x :: _ => x =? c | [] => false end.
Definition nonempty (s : list Z) : bool := match s with [] => false | _ => true end.

(* "(\\["]|[^"])*" with backtracking; q = the quote character; s starts after the opening quote;
   returns the number of characters up to and including the closing quote *)
Fixpoint scan_quoted (q : Z) (s : list Z) : option nat :=
  match s with
  | [] => None
  | c :: r =>
      if c =? q then Some 1%nat
      else match r with
           | d :: r' =>
               if (c =? 92) && (d =? q) then
                 match scan_quoted q r' with
                 | Some n => Some (S (S n))
                 | None => Some 2%nat         (* the backslash is an ordinary character, the quote closes *)
                 end
               else option_map S (scan_quoted q r)
           | [] => None
           end
  end.

Fixpoint prefix_of (p s : list Z) : bool :=
  match p, s with
  | [], _ => true
  | a :: p', b :: s' => (a =? b) && prefix_of p' s'
  | _ :: _, [] => false
  end.
Definition error_spellings : list (list Z) :=
  [ [78;85;76;76;33]; [68;73;86;47;48;33]; [86;65;76;85;69;33]; [82;69;70;33]; [78;65;77;69;63]; [78;85;77;33];
    [78;47;65]; [69;82;82;79;82;33]; [71;69;84;84;73;78;71;95;68;65;84;65] ].
  (* NULL! DIV/0! VALUE! REF! NAME? NUM! N/A ERROR! GETTING_DATA *)
Fixpoint first_spelling (l : list (list Z)) (s : list Z) : option nat :=
  match l with
  | [] => None
  | p :: r => if prefix_of p s then Some (length p) else first_spelling r s
  end.

(* one lexing step at a non-empty input: Some (token kind or 0 for "no token", length) or None = t_error *)
Definition lex_one (s : list Z) : option (Z * nat) :=
  match s with
  | [] => None
  | c :: r =>
    (* WHITESPACE \s+ *)
    if is_space c then Some (0, length (fst (span is_space s)))
    (* STRING *)
    else match (if (c =? 34) || (c =? 39) then scan_quoted c r else None) with
    | Some n => Some (T_STRING, S n)
    | None =>
    (* FUNCTION: a letter followed by at least one more of [A-Za-z_0-9.], the whole run followed by "(" ;
       or a run of letters/dots followed by "(" *)
    let run1 := fst (span is_word_dot s) in
    let run2 := fst (span is_alpha_dot s) in
    if is_alpha c && (2 <=? Z.of_nat (length run1)) && hd_is 40 (skipn (length run1) s) then Some (T_FUNCTION, length run1)
    else if nonempty run2 && hd_is 40 (skipn (length run2) s) then Some (T_FUNCTION, length run2)
    (* XLERROR *)
    else match (if c =? 35 then
                  match first_spelling error_spellings r with
                  | Some n => Some (S n)
                  | None => let run := fst (span is_err_char r) in
                            if nonempty run then
                              let rest := skipn (length run) r in
                              Some (S (length run) + (if hd_is 33 rest || hd_is 63 rest then 1 else 0))%nat
                            else None
                  end
                else None) with
    | Some n => Some (T_XLERROR, n)
    | None =>
    let letters (t : list Z) := fst (span is_alpha t) in
    let digits (t : list Z) := fst (span is_digit t) in
    (* ABSOLUTE_CELL \$[A-Za-z]+\$[0-9]+ *)
    let abs_cell :=
      if c =? 36 then
        let l := letters r in let r1 := skipn (length l) r in
        if nonempty l && hd_is 36 r1 then
          let d := digits (tl r1) in if nonempty d then Some (2 + length l + length d)%nat else None
        else None
      else None in
    match abs_cell with
    | Some n => Some (T_ABSOLUTE_CELL, n)
    | None =>
    (* MIXED_CELL (\$[A-Za-z]+[0-9]+)|([A-Za-z]+\$[0-9]+) *)
    let mixed :=
      if c =? 36 then
        let l := letters r in let d := digits (skipn (length l) r) in
        if nonempty l && nonempty d then Some (1 + length l + length d)%nat else None
      else
        let l := letters s in let r1 := skipn (length l) s in
        if nonempty l && hd_is 36 r1 then
          let d := digits (tl r1) in if nonempty d then Some (1 + length l + length d)%nat else None
        else None in
    match mixed with
    | Some n => Some (T_MIXED_CELL, n)
    | None =>
    (* RELATIVE_CELL [A-Za-z]+[0-9]+ *)
    let l := letters s in let d := digits (skipn (length l) s) in
    if nonempty l && nonempty d then Some (T_RELATIVE_CELL, (length l + length d)%nat)
    (* VARIABLE ([A-Za-z]{1,}[A-Za-z_0-9]+)|([A-Za-z_]+) *)
    else
    let w := fst (span is_word s) in let u := fst (span is_alpha_us s) in
    if is_alpha c && (2 <=? Z.of_nat (length w)) then Some (T_VARIABLE, length w)
    else if nonempty u then Some (T_VARIABLE, length u)
    (* NUMBER *)
    else if is_digit c then Some (T_NUMBER, length (digits s))
    else
    (* single characters and the two-character comparison operators, in rule order *)
    match c with
    | 123 => Some (T_LBRACKET, 1%nat) | 125 => Some (T_RBRACKET, 1%nat) | 38 => Some (T_AMP, 1%nat)
    | 46 => Some (T_DECIMAL, 1%nat) | 58 => Some (T_COLON, 1%nat) | 59 => Some (T_SEMICOLON, 1%nat)
    | 44 => Some (T_COMMA, 1%nat) | 92 => Some (T_BACKSLASH, 1%nat) | 42 => Some (T_MULT, 1%nat)
    | 47 => Some (T_DIV, 1%nat) | 45 => Some (T_MINUS, 1%nat) | 43 => Some (T_PLUS, 1%nat)
    | 94 => Some (T_CARET, 1%nat) | 40 => Some (T_LPAREN, 1%nat) | 41 => Some (T_RPAREN, 1%nat)
    | 60 => if hd_is 62 r then Some (T_NOTEQUAL, 2%nat) else if hd_is 61 r then Some (T_LESSEQ, 2%nat) else Some (T_LESS, 1%nat)
    | 62 => if hd_is 61 r then Some (T_GREATEREQ, 2%nat) else Some (T_GREATER, 1%nat)
    | 34 => Some (T_QUOTATION, 1%nat) | 39 => Some (T_APOSTROPHE, 1%nat) | 33 => Some (T_EXCLAMATION, 1%nat)
    | 61 => Some (T_EQUAL, 1%nat) | 37 => Some (T_PERCENT, 1%nat) | 35 => Some (T_HASH, 1%nat)
    | _ => None
    end
    end end end end
  end.

(* the whole input; fuel = length of the input (every step consumes at least one character);
   None = t_error raised (#NAME?) at that point: the tokens before it have already been delivered *)
Inductive lexres := LexOk (ts : list token) | LexError (ts : list token).
Fixpoint lex_all (fuel : nat) (s : list Z) (acc : list token) : lexres :=
  match fuel with
  | O => LexOk (rev acc)
  | S f =>
      match s with
      | [] => LexOk (rev acc)
      | _ => match lex_one s with
             | None => LexError (rev acc)
             | Some (k, n) =>
                 let n' := match n with O => 1%nat | _ => n end in
                 lex_all f (skipn n' s) (if k =? 0 then acc else Tok k (firstn n' s) :: acc)
             end
      end
  end.
Definition lex (s : list Z) : lexres := lex_all (length s) s [].
