(* Date and time functions (formulas/dateandtime.py) over the calendar model.
   Arguments are Python ints / datetimes (the classes the property quantifies over). *)
From HX Require Export Model.Calendar Model.Serial.

Inductive dres :=
  | DVal (z : Z)            (* a number *)
  | DDate (t : datetime)
  | DNum                    (* #NUM! *)
  | DExc.                   (* a Python exception (ValueError from datetime(...)) -> #ERROR! *)

(* DATE(year, month, day):  if year < 1900: year += 1900 ; datetime(year, month, day) *)
Definition fn_DATE (y m d : Z) : dres :=
  let y' := if y <? 1900 then y + 1900 else y in
  let t := DT y' m d 0 0 0 0 in
  if valid_dt t then DDate t else DExc.

(* TIME(hour, minute, second): datetime(1900, 1, 1, hour, minute, second) *)
Definition fn_TIME (h mi s : Z) : dres :=
  let t := DT 1900 1 1 h mi s 0 in
  if valid_dt t then DDate t else DExc.

(* YEAR/MONTH/DAY/HOUR/MINUTE/SECOND(parse_date(x)): the field of the datetime;
   for a number x the datetime is parse_date(x) *)
Definition serial_fields (n : Z) : option datetime := parse_us (n * day).

(* WEEKDAY(date, return_type) *)
Definition fn_WEEKDAY (t : datetime) (ty : Z) : dres :=
  let wd := weekday_of_ord (ymd2ord (dyear t) (dmonth t) (dday t)) in
  if ty =? 3 then DVal wd
  else if ty =? 2 then DVal (wd + 1)
  else if ty =? 1 then DVal (if wd =? 6 then 1 else wd + 2)
  else DNum.

(* DAYS(end, start) = serialize_date(end) - serialize_date(start)   (in microsecond units) *)
Definition fn_DAYS_us (e s : datetime) : Z := serial_us e - serial_us s.

(* DATEDIF(start, end, unit), unit: 0 = "d", 1 = "m", 2 = "y", 3 = "ym" *)
Definition fn_DATEDIF (s e : datetime) (unit : Z) : dres :=
  if to_us s =? to_us e then DVal 0
  else if to_us s <? to_us e then
    match unit with
    | 0 => DVal (Z.quot (serial_us e - serial_us s) day)       (* int(float difference) truncates *)
    | 1 => DVal ((dyear e - dyear s) * 12 + dmonth e - dmonth s - (if dday e <? dday s then 1 else 0))
    | 2 => DVal (dyear e - dyear s -
                 (if (dmonth e <? dmonth s) || ((dmonth e =? dmonth s) && (dday e <? dday s)) then 1 else 0))
    | 3 => DVal (((dyear e - dyear s) * 12 + dmonth e - dmonth s - (if dday e <? dday s then 1 else 0)) mod 12)
    | _ => DNum
    end
  else DNum.

(* EDATE(start, months) on a date and an integer *)
Definition fn_EDATE (t : datetime) (k : Z) : dres :=
  let year := dyear t + k / 12 in
  let month := dmonth t + k mod 12 in
  let '(year, month) :=
    if 12 <? month then (year + 1, month - 12)
    else if month <? 1 then (year - 1, month + 12) else (year, month) in
  let dd := Z.min (dday t) (days_in_month year month) in
  if (9999 <? year) || (year <? 1900) then DNum else DDate (DT year month dd 0 0 0 0).

(* ---------- runner entries ---------- *)
Definition enc_dres (r : dres) : list Z :=
  match r with
  | DVal z => [0; z]
  | DDate t => 1 :: enc_dt t
  | DNum => [2]
  | DExc => [3]
  end.
Definition e_DATE (a : list Z) : list Z :=
  match a with y :: m :: d :: _ => enc_dres (fn_DATE y m d) | _ => [-1] end.
Definition e_TIME (a : list Z) : list Z :=
  match a with h :: m :: s :: _ => enc_dres (fn_TIME h m s) | _ => [-1] end.
Definition e_WEEKDAY (a : list Z) : list Z :=
  match a with ty :: r => enc_dres (fn_WEEKDAY (dec_dt r) ty) | _ => [-1] end.
Definition e_DATEDIF (a : list Z) : list Z :=
  match a with
  | u :: y1 :: m1 :: d1 :: h1 :: i1 :: s1 :: u1 :: r => enc_dres (fn_DATEDIF (DT y1 m1 d1 h1 i1 s1 u1) (dec_dt r) u)
  | _ => [-1] end.
Definition e_DAYS (a : list Z) : list Z :=
  match a with
  | y1 :: m1 :: d1 :: h1 :: i1 :: s1 :: u1 :: r => [fn_DAYS_us (DT y1 m1 d1 h1 i1 s1 u1) (dec_dt r)]
  | _ => [-1] end.
Definition e_EDATE (a : list Z) : list Z :=
  match a with k :: r => enc_dres (fn_EDATE (dec_dt r) k) | _ => [-1] end.
Definition e_serial_fields (a : list Z) : list Z :=
  match a with
  | n :: _ => match serial_fields n with None => [0] | Some t => 1 :: enc_dt t end
  | _ => [-1] end.
