(* The evaluator as it runs: ply's LR driver (lazy token fetch, shift / reduce / accept / error -> p_error raises)
   over the GENERATED tables, with the grammar actions of grammarparser/parser.py and the callbacks of
   hotxlfp/parser.py (call_function, call_variable, call_cell_value, call_range_value, _throw_error) as
   semantic actions, evaluated eagerly during the parse, emitting the event trace.  Parser.parse's wrapper
   turns the outcome into the result/error record. *)
From HX Require Export Model.Lexer Model.Value Model.Operators Model.Cell Model.Logic Model.Lookup Model.Aggregates
  Model.ErrorFlow.
Open Scope Z_scope.

(* ---------- results of semantic actions ---------- *)
Inductive res (A : Type) := ROk (a : A) | RRaise (e : err) | RExc | RUnmodelled.
Arguments ROk {A}. Arguments RRaise {A}. Arguments RExc {A}. Arguments RUnmodelled {A}.
Definition rbind {A B} (r : res A) (k : A -> res B) : res B :=
  match r with ROk a => k a | RRaise e => RRaise e | RExc => RExc | RUnmodelled => RUnmodelled end.
Definition of_outcome (o : outcome) : res value :=
  match o with Ret v => ROk v | RaiseErr e => RRaise e | PyExc => RExc end.

(* semantic values on the parse stack *)
Inductive sv :=
  | SVtok (lexeme : list Z)
  | SVval (v : value)
  | SVseq (l : list value)              (* expseq*: the Python list being built *)
  | SVnames (l : list (list Z)).        (* variable_sequence *)

(* ---------- the host ---------- *)
Inductive behaviour :=
  | BRecord                             (* returns the list of its arguments *)
  | BIdent                              (* returns its first argument *)
  | BConst (v : value)
  | BRaiseXL (e : err)                  (* raises an XLError *)
  | BRaisePy.                           (* raises another Exception *)
Record host := {
  h_vars : list (list Z * value);             (* set_variable bindings (on top of TRUE, FALSE, NULL) *)
  h_funs : list (list Z * behaviour);         (* set_function bindings *)
  h_cells : list (list Z * list value);       (* per upper-cased label: what a callCellValue listener hands to the setter, in order (VBlank = None) *)
  h_ranges : list value;                      (* what a callRangeValue listener hands to the setter, in order; [] = no listener *)
  h_registry : list (list Z);                 (* names of the built-ins (generated) *)
  h_varset : list (list Z * list value);      (* per name: what a callVariable listener hands to the setter, in order *)
  h_funset : list (list Z * list value);      (* per name: what a callFunction listener hands to the setter, in order *)
  h_oracle : list Z -> list value -> option (res value);
    (* the registered built-ins OUTSIDE the model: an arbitrary function of name and arguments - returns a value, raises
       an XLError (RRaise), raises another exception (RExc); None = not described (the runner's host: RUnmodelled).  Theorems
       stated for every host therefore hold whatever those built-ins return or raise, provided they return. *)
}.

Inductive event :=
  | EvFunction (name : list Z) (args : list value)
  | EvVariable (name : list Z)
  | EvCell (label : list Z) (row col : Z) (rabs cabs : bool)
  | EvRange (l1 : list Z) (r1 c1 : Z) (l2 : list Z) (r2 c2 : Z).

Fixpoint assoc_text {A} (k : list Z) (l : list (list Z * A)) : option A :=
  match l with [] => None | (k', v) :: r => if list_eqb k k' then Some v else assoc_text k r end.
Definition mem_text (k : list Z) (l : list (list Z)) : bool := existsb (list_eqb k) l.

(* the value setter: the last value other than None wins *)
Fixpoint last_non_none (vals : list value) (cur : value) : value :=
  match vals with [] => cur | VBlank :: r => last_non_none r cur | v :: r => last_non_none r v end.

(* ---------- built-ins that are modelled (the others are registered but Unmodelled) ---------- *)
Definition t_ (s : list Z) := s.
Definition name_is (n : list Z) (s : list Z) : bool := list_eqb n s.
Definition of_ares (r : ares) : res value :=
  match r with AOk n => ROk (num_value n) | AErr e => ROk (VErr e) | AExc => RExc end.
Definition builtin (name : list Z) (args : list value) : option (res value) :=
  let lg (k : Z) := Some (of_outcome (logic_dispatch k args)) in
  if name_is name [65;78;68] then lg 0                                   (* AND *)
  else if name_is name [79;82] then lg 1                                 (* OR *)
  else if name_is name [88;79;82] then lg 2                              (* XOR *)
  else if name_is name [78;79;84] then lg 3                              (* NOT *)
  else if name_is name [73;70] then lg 4                                 (* IF *)
  else if name_is name [73;70;83] then lg 5                              (* IFS *)
  else if name_is name [83;87;73;84;67;72] then lg 6                     (* SWITCH *)
  else if name_is name [73;83;78;85;77;66;69;82] then lg 10              (* ISNUMBER *)
  else if name_is name [73;83;84;69;88;84] then lg 11                    (* ISTEXT *)
  else if name_is name [73;83;76;79;71;73;67;65;76] then lg 12           (* ISLOGICAL *)
  else if name_is name [73;83;66;76;65;78;75] then lg 13                 (* ISBLANK *)
  else if name_is name [73;83;69;82;82;79;82] then lg 14                 (* ISERROR *)
  else if name_is name [73;83;69;82;82] then lg 15                       (* ISERR *)
  else if name_is name [73;83;78;65] then lg 16                          (* ISNA *)
  else if name_is name [73;70;69;82;82;79;82] then Some (of_outcome (body FIFERROR args))   (* IFERROR *)
  else if name_is name [73;70;78;65] then Some (of_outcome (body FIFNA args))               (* IFNA *)
  else if name_is name [69;82;82;79;82;46;84;89;80;69] then Some (of_outcome (body FERRORTYPE args))  (* ERROR.TYPE *)
  else if name_is name [78;65] then Some (of_outcome (body FNA args))                       (* NA *)
  else if name_is name [84;82;85;69] then Some (match args with [] => ROk (VBool true) | _ => RExc end)     (* TRUE *)
  else if name_is name [70;65;76;83;69] then Some (match args with [] => ROk (VBool false) | _ => RExc end) (* FALSE *)
  else if name_is name [83;85;77] then Some (match fn_SUM args with AErr e => RRaise e | r => of_ares r end)           (* SUM *)
  else if name_is name [80;82;79;68;85;67;84] then Some (match fn_PRODUCT args with AErr e => RRaise e | r => of_ares r end) (* PRODUCT *)
  else if name_is name [77;73;78] then Some (match fn_MIN args with AErr e => RRaise e | r => of_ares r end)           (* MIN *)
  else if name_is name [77;65;88] then Some (match fn_MAX args with AErr e => RRaise e | r => of_ares r end)           (* MAX *)
  else if name_is name [67;79;85;78;84] then Some (of_ares (fn_COUNT args))                                          (* COUNT *)
  else if name_is name [67;72;79;79;83;69] then Some (of_outcome (fn_CHOOSE args))                                   (* CHOOSE *)
  else None.

(* ---------- the callbacks of hotxlfp/parser.py ---------- *)
Definition handed_for (name : list Z) (l : list (list Z * list value)) : list value :=
  match assoc_text name l with Some vs => vs | None => [] end.
Definition call_function (h : host) (name : list Z) (args : list value) : res value * list event :=
  let fire (v : value) := (ROk (last_non_none (handed_for name (h_funset h)) v), [EvFunction name args]) in
  match assoc_text name (h_funs h) with
  | Some b =>
      match b with
      | BRecord => fire (VList args)
      | BIdent => match args with a :: _ => fire a | [] => (RExc, []) end
      | BConst v => fire v
      | BRaiseXL e => fire (VErr e)             (* an XLError raised inside the function is the value of the call *)
      | BRaisePy => (RExc, [])
      end
  | None =>
      if mem_text name (h_registry h) then
        match builtin name args with
        | Some (ROk v) => fire v
        | Some (RRaise e) => fire (VErr e)
        | Some RExc => (RExc, [])
        | Some RUnmodelled | None =>
            match h_oracle h name args with
            | Some (ROk v) => fire v
            | Some (RRaise e) => fire (VErr e)
            | Some RExc => (RExc, [])
            | Some RUnmodelled | None => (RUnmodelled, [])
            end
        end
      else (RRaise ENAME, [])
  end.

Definition predefined : list (list Z * value) :=
  [([84;82;85;69], VBool true); ([70;65;76;83;69], VBool false); ([78;85;76;76], VBlank)].
(* self.variables.get(name, not_found); the listener's setter may replace it; still not_found -> #NAME? *)
Fixpoint last_handed (vals : list value) (cur : option value) : option value :=
  match vals with [] => cur | VBlank :: r => last_handed r cur | v :: r => last_handed r (Some v) end.
Definition lookup_variable (h : host) (name : list Z) : option value :=
  match assoc_text name (h_vars h) with Some v => Some v | None => assoc_text name predefined end.
Definition call_variable (h : host) (name : list Z) : res value * list event :=
  match last_handed (handed_for name (h_varset h)) (lookup_variable h name) with
  | Some v => (ROk v, [EvVariable name])
  | None => (RRaise ENAME, [EvVariable name])       (* the event is emitted before the check *)
  end.

Definition upper_text (s : list Z) : list Z := map upper_ascii s.
Definition call_cell_value (h : host) (label : list Z) : res value * list event :=
  let l := upper_text label in
  match extract_label l with
  | None => (RExc, [])                                         (* row, col = [] : ValueError *)
  | Some (row, col) =>
      let handed := match assoc_text l (h_cells h) with Some vs => vs | None => [] end in
      (ROk (last_non_none handed VBlank), [EvCell l (p_index row) (p_index col) (p_abs row) (p_abs col)])
  end.
Definition call_range_value (h : host) (a b : list Z) : res value * list event :=
  let a := upper_text a in let b := upper_text b in
  match extract_label a, extract_label b with
  | Some (r1, c1), Some (r2, c2) =>
      let '(rs, re) := if p_index r1 <=? p_index r2 then (r1, r2) else (r2, r1) in
      let '(cs, ce) := if p_index c1 <=? p_index c2 then (c1, c2) else (c2, c1) in
      (ROk (last_non_none (h_ranges h) VBlank),
       [EvRange (to_label rs cs) (p_index rs) (p_index cs) (to_label re ce) (p_index re) (p_index ce)])
  | _, _ => (RExc, [])
  end.

(* ---------- numbers and texts from tokens ---------- *)
Definition digits_z (s : list Z) : Z := fold_left (fun a c => a * 10 + (c - 48)) s 0.
Definition err_of_text (s : list Z) : err :=
  (* from_message(text): one of the nine spellings, else #ERROR! *)
  let t := tl s in
  if list_eqb t [78;85;76;76;33] then ENULL else if list_eqb t [68;73;86;47;48;33] then EDIV0
  else if list_eqb t [86;65;76;85;69;33] then EVALUE else if list_eqb t [82;69;70;33] then EREF
  else if list_eqb t [78;65;77;69;63] then ENAME else if list_eqb t [78;85;77;33] then ENUM
  else if list_eqb t [78;47;65] then ENA else if list_eqb t [71;69;84;84;73;78;71;95;68;65;84;65] then EDATA
  else EERROR.
Definition pow10z (k : nat) : Z := 10 ^ Z.of_nat k.
Definition decimal_value (ip fp : list Z) : value :=      (* float("ip.fp") as the exact decimal *)
  VFlt (Qmake (digits_z (ip ++ fp)) (Z.to_pos (pow10z (length fp)))).

(* the & operator: str() of floats, logicals other than via text, dates and lists is not modelled - such a
   concatenation is outside the model (RUnmodelled), never reported as an exception *)
Definition amp_res (l r : value) : res value :=
  match l, r with
  | VErr _, _ => ROk l
  | _, VErr _ => ROk r
  | _, _ => match amp_text l, amp_text r with
            | Some a, Some b => ROk (VText (a ++ b))
            | _, _ => RUnmodelled
            end
  end.

(* the comparison operators on an array operand: = and <> answer through Python's list comparison, < and > raise for
   a list against a scalar - not modelled (RUnmodelled), never reported as an exception or as a value *)
Definition is_list (v : value) : bool := match v with VList _ => true | _ => false end.
Definition cmp_res (code : Z) (l r : value) : res value :=
  match l, r with
  | VErr _, _ => ROk l
  | _, VErr _ => ROk r
  | _, _ => if is_list l || is_list r then RUnmodelled else of_outcome (eval_cmp code l r)
  end.

(* ---------- the grammar actions ---------- *)
Definition tok_is (s : list Z) (c : Z) : bool := list_eqb s [c].
Definition is_nonterm (sym : Z) : bool := sym <? 0.
Definition no_ev {A} (r : res A) : res A * list event := (r, []).

Definition expseq_action (rhs : list Z) (vals : list sv) : res sv :=
  match rhs, vals with
  | [_], [SVval v] => ROk (SVseq [v])
  | [_; _], [SVtok _; SVtok _] => ROk (SVseq [VBlank; VBlank; VBlank])
  | [_; _], [SVtok _; SVseq l] => ROk (SVseq (VBlank :: l))
  | [_; _], [SVseq l; SVtok _] => ROk (SVseq (l ++ [VBlank]))
  | [_; _; _], [SVseq l; SVtok _; SVval v] => ROk (SVseq (l ++ [v]))
  | [_; _; _], [SVseq a; SVtok _; SVseq b] => ROk (SVseq [VList a; VList b])      (* rows of a two-row array *)
  | [_; _; _; _], [SVseq l; SVtok _; SVtok _; SVval v] => ROk (SVseq (l ++ [VBlank; v]))
  | _, _ => RExc
  end.

Definition sem_action (h : host) (fn : Z) (rhs : list Z) (vals : list sv) : res sv * list event :=
  match fn with
  | 1 | 9 | 19 => match vals with [SVval v] => no_ev (ROk (SVval v)) | _ => no_ev RExc end
  | 2 => match vals with
         | [SVval l; SVtok op; SVval r] =>
             no_ev (rbind
               (if tok_is op 38 then amp_res l r
                else of_outcome (eval_arith 60 (if tok_is op 43 then 0 else if tok_is op 45 then 1 else if tok_is op 42 then 2 else 3) l r))
               (fun v => ROk (SVval v)))
         | _ => no_ev RExc end
  | 3 => match vals with
         | [SVval l; SVtok op; SVval r] =>
             let code := if tok_is op 60 then 0 else if tok_is op 62 then 1 else if tok_is op 61 then 2
                         else if list_eqb op [60; 61] then 3 else if list_eqb op [62; 61] then 4 else 5 in
             no_ev (rbind (cmp_res code l r) (fun v => ROk (SVval v)))
         | _ => no_ev RExc end
  | 4 => match vals with [SVtok _; SVval v] => no_ev (rbind (of_outcome (eval_neg v)) (fun w => ROk (SVval w))) | _ => no_ev RExc end
  | 5 => no_ev (match vals with
         | [SVtok n] => ROk (SVval (VInt (digits_z n)))
         | [SVtok a; SVtok b] =>
             if tok_is a 46 then ROk (SVval (decimal_value [] b))
             else if tok_is b 37 then ROk (SVval (VFlt (Qmake (digits_z a) 100)))
             else RExc
         | [SVtok a; SVtok m; SVtok b] =>
             if tok_is m 46 then ROk (SVval (decimal_value a b))
             else if tok_is m 94 then ROk (SVval (VInt (digits_z a ^ digits_z b)))
             else RExc
         | _ => RExc end)
  | 6 => match vals with [SVtok s] => no_ev (ROk (SVval (VText (removelast (tl s))))) | _ => no_ev RExc end
  | 7 => match vals with
         | [SVtok name; _; _] => let '(r, ev) := call_function h name [] in (rbind r (fun v => ROk (SVval v)), ev)
         | _ => no_ev RExc end
  | 8 => match vals with
         | [SVtok name; _; SVseq args; _] => let '(r, ev) := call_function h name args in (rbind r (fun v => ROk (SVval v)), ev)
         | _ => no_ev RExc end
  | 10 => match vals with [_; SVseq l; _] => no_ev (ROk (SVval (VList l))) | _ => no_ev RExc end
  | 11 | 12 | 13 => no_ev (expseq_action rhs vals)
  | 14 => match vals with [SVtok s] => no_ev (RRaise (err_of_text s)) | _ => no_ev RExc end
  | 15 => match vals with [_; SVval v; _] => no_ev (ROk (SVval v)) | _ => no_ev RExc end
  | 16 => match vals with
          | [SVnames (n :: _)] => let '(r, ev) := call_variable h n in (rbind r (fun v => ROk (SVval v)), ev)
          | _ => no_ev RExc end
  | 17 => match vals with [SVtok n] => no_ev (ROk (SVnames [n])) | _ => no_ev RExc end
  | 18 => match vals with [SVnames l; _; SVtok n] => no_ev (ROk (SVnames (l ++ [n]))) | _ => no_ev RExc end
  | 20 => match vals with
          | [SVtok a] => let '(r, ev) := call_cell_value h a in (rbind r (fun v => ROk (SVval v)), ev)
          | [SVtok a; _; SVtok b] => let '(r, ev) := call_range_value h a b in (rbind r (fun v => ROk (SVval v)), ev)
          | _ => no_ev RExc end
  | _ => no_ev RExc
  end.

(* ---------- table lookups ---------- *)
Fixpoint zassoc {A} (k : Z) (l : list (Z * A)) : option A :=
  match l with [] => None | (k', v) :: r => if k =? k' then Some v else zassoc k r end.
Definition action_of (state term : Z) : option Z :=
  match zassoc state action_rows with Some row => zassoc term row | None => None end.
Definition goto_of (state nt : Z) : option Z :=
  match zassoc state goto_rows with Some row => zassoc nt row | None => None end.
Definition prod_of (p : Z) : option (Z * Z * Z * list Z) := zassoc p prod_rows.

(* ---------- the LR driver ---------- *)
Definition pstack := list (Z * sv).
Definition top_state (st : pstack) : Z := match st with (s, _) :: _ => s | [] => 0 end.
Fixpoint pop_n (n : nat) (st : pstack) (acc : list sv) : option (list sv * pstack) :=
  match n with
  | O => Some (acc, st)
  | S k => match st with (_, v) :: r => pop_n k r (v :: acc) | [] => None end
  end.

Inductive lr_result := LRDone (r : res value) | LRMore (st : pstack) (toks : list token).

(* one driver step; lexerr = the lexer raises #NAME? when asked for a token beyond toks *)
Definition lr_step (h : host) (st : pstack) (toks : list token) (lexerr : bool) : lr_result * list event :=
  let state := top_state st in
  match toks, lexerr with
  | [], true => (LRDone (RRaise ENAME), [])                  (* t_error raised while fetching the lookahead *)
  | _, _ =>
    let la := match toks with t :: _ => tk t | [] => 0 end in
    match action_of state la with
    | None => (LRDone (RRaise EERROR), [])                   (* syntax error: p_error -> _throw_error(#ERROR!) *)
    | Some a =>
        if 0 <? a then
          match toks with
          | t :: rest => (LRMore ((a, SVtok (lexeme t)) :: st) rest, [])
          | [] => (LRDone RExc, [])
          end
        else if a <? 0 then
          match prod_of (- a) with
          | None => (LRDone RExc, [])
          | Some (lhs, len, fn, rhs) =>
              match pop_n (Z.to_nat len) st [] with
              | None => (LRDone RExc, [])
              | Some (vals, st') =>
                  let '(r, ev) := sem_action h fn rhs vals in
                  match r with
                  | ROk v => match goto_of (top_state st') lhs with
                             | Some q => (LRMore ((q, v) :: st') toks, ev)
                             | None => (LRDone RExc, ev)
                             end
                  | RRaise e => (LRDone (RRaise e), ev)
                  | RExc => (LRDone RExc, ev)
                  | RUnmodelled => (LRDone RUnmodelled, ev)
                  end
              end
          end
        else (* accept *)
          match st with
          | (_, SVval v) :: _ => (LRDone (ROk v), [])
          | _ => (LRDone RExc, [])
          end
    end
  end.

Fixpoint lr_run (h : host) (fuel : nat) (st : pstack) (toks : list token) (lexerr : bool) (trace : list event)
  : res value * list event :=
  match fuel with
  | O => (RExc, trace)
  | S f =>
      let '(r, ev) := lr_step h st toks lexerr in
      match r with
      | LRDone v => (v, trace ++ ev)
      | LRMore st' toks' => lr_run h f st' toks' lexerr (trace ++ ev)
      end
  end.

(* Parser.parse *)
Inductive precord := PResult (v : value) | PEmptyText | PError (e : err) | PUnmodelled.
Definition parse_formula (h : host) (s : list Z) : precord * list event :=
  match s with
  | [] => (PEmptyText, [])
  | _ =>
    let '(toks, lexerr) := match lex s with LexOk ts => (ts, false) | LexError ts => (ts, true) end in
    let '(r, tr) := lr_run h (40 * (length toks + 2)) [] toks lexerr [] in
    (match r with
     | ROk (VErr e) => PError e
     | ROk v => PResult v
     | RRaise e => PError e
     | RExc => PError EERROR
     | RUnmodelled => PUnmodelled
     end, tr)
  end.
