(* Base definitions shared by all models: characters as code points (Z),
   positional digit strings, and the integer-list codec used by the
   correspondence runner.  No proofs in Model/*. *)
From Coq Require Export ZArith List Bool.
Export ListNotations.
Open Scope Z_scope.

(* ---------- characters (Unicode code points as Z) ---------- *)
Definition is_upper (c : Z) : bool := (65 <=? c) && (c <=? 90).
Definition is_lower (c : Z) : bool := (97 <=? c) && (c <=? 122).
Definition is_alpha (c : Z) : bool := is_upper c || is_lower c.
Definition is_digit (c : Z) : bool := (48 <=? c) && (c <=? 57).
Definition upper_ascii (c : Z) : Z := if is_lower c then c - 32 else c.
Definition lower_ascii (c : Z) : Z := if is_upper c then c + 32 else c.
Definition text := list Z.

Fixpoint span (p : Z -> bool) (l : list Z) : list Z * list Z :=
  match l with
  | [] => ([], [])
  | c :: t => if p c then let '(a, b) := span p t in (c :: a, b) else ([], l)
  end.

Fixpoint list_eqb (a b : list Z) : bool :=
  match a, b with
  | [], [] => true
  | x :: a', y :: b' => (x =? y) && list_eqb a' b'
  | _, _ => false
  end.

(* ---------- positional numerals, most significant digit first ---------- *)
(* value of a digit list in base b *)
Definition of_digits (b : Z) (l : list Z) : Z := fold_left (fun a d => a * b + d) l 0.

(* digits of n >= 0 in base b >= 2; [] for 0.  Structural fuel. *)
Fixpoint to_digits_aux (fuel : nat) (b n : Z) (acc : list Z) : list Z :=
  match fuel with
  | O => acc
  | S f => if n <=? 0 then acc else to_digits_aux f b (n / b) (n mod b :: acc)
  end.
Definition digit_fuel (n : Z) : nat := S (Z.to_nat (Z.log2_up (n + 1))).
Definition to_digits (b n : Z) : list Z := to_digits_aux (digit_fuel n) b n [].

(* decimal text <-> Z (ASCII digits) *)
Definition dec_text_of (n : Z) : text :=
  if n =? 0 then [48] else
  (if n <? 0 then [45] else []) ++ map (fun d => d + 48) (to_digits 10 (Z.abs n)).
Definition dec_value_of (t : text) : Z := of_digits 10 (map (fun c => c - 48) t).
Definition all_digits (t : text) : bool := forallb is_digit t.

(* ---------- codec: everything crosses the runner as list Z ---------- *)
Definition enc_text (t : text) : list Z := Z.of_nat (length t) :: t.
Definition dec_text (l : list Z) : text * list Z :=
  match l with
  | [] => ([], [])
  | n :: r => (firstn (Z.to_nat n) r, skipn (Z.to_nat n) r)
  end.
Definition enc_bool (b : bool) : Z := if b then 1 else 0.
Definition dec_bool (z : Z) : bool := negb (z =? 0).
