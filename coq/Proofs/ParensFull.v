(* C04 over the whole reference grammar: two formulas that differ only in (redundant) parentheses - anywhere, at any
   depth, also inside call arguments and array items - and that both parse to their trees, have the same outcome: the
   record and the events of Parser.parse are those of the expression with every parenthesis removed. *)
From HX Require Import Model.Base Model.Lexer Model.Value Model.Operators Model.Interp Proofs.LRcert Proofs.LRvalue Proofs.LRfull.
Open Scope Z_scope.

Fixpoint xstrip (e : expr) : expr :=
  match e with
  | XPar e => xstrip e
  | XNeg e => XNeg (xstrip e)
  | XBin b l r => XBin b (xstrip l) (xstrip r)
  | XCall sp n args => XCall sp n (map xstrip args)
  | XArr sp items => XArr sp (map xstrip items)
  | XArr2 rs r1 r2 => XArr2 rs (map xstrip r1) (map xstrip r2)
  | other => other
  end.
Lemma xvals_strip h (args : list expr) : Forall (fun a => xval h (xstrip a) = xval h a) args ->
  xvals (xval h) (map xstrip args) = xvals (xval h) args.
Proof.
  induction 1 as [|a l Ha Hl IH]; [reflexivity|]. cbn [map]. rewrite !xvals_cons, Ha.
  apply ebind_ext. intros v. rewrite IH. reflexivity.
Qed.
Theorem parentheses_do_not_change_the_value h : forall e, xval h (xstrip e) = xval h e.
Proof.
  induction e as [d|ip fp|fp|pn|pa pb|str|xe|n|k lab|k1 l1 k2 l2|sp name args IHargs|sp items IHitems|rs row1 row2 IHr1 IHr2|e IH|b l r IHl IHr|e IH] using expr_ind';
    cbn [xstrip xval]; try reflexivity.
  - rewrite (xvals_strip h args IHargs). reflexivity.
  - rewrite (xvals_strip h items IHitems). reflexivity.
  - rewrite (xvals_strip h row1 IHr1). apply ebind_ext. intros a. rewrite (xvals_strip h row2 IHr2). reflexivity.
  - rewrite IH. reflexivity.
  - rewrite IHl. apply ebind_ext. intros lv. rewrite IHr. reflexivity.
  - exact IH.
Qed.
Theorem same_tree_same_outcome h e e' s s' : xstrip e = xstrip e' ->
  s <> [] -> lex s = LexOk (xtoks e) -> xwp e -> s' <> [] -> lex s' = LexOk (xtoks e') -> xwp e' ->
  parse_formula h s = parse_formula h s'.
Proof.
  intros E Hs Hl Hw Hs' Hl' Hw'. rewrite (parse_formula_expr h s e Hs Hl Hw), (parse_formula_expr h s' e' Hs' Hl' Hw').
  rewrite <- (parentheses_do_not_change_the_value h e), <- (parentheses_do_not_change_the_value h e'), E. reflexivity.
Qed.
(* non-vacuity:  F(1+2*x1_, (A1))  and  F((1+(2*x1_)), A1) *)
Example parens_example :
  let e := XCall SComma [70] [XBin Plus (XNum [49]) (XBin Mult (XNum [50]) (XVar [120;121])); XPar (XCell T_RELATIVE_CELL [65;49])] in
  let e' := XCall SComma [70] [XPar (XBin Plus (XNum [49]) (XPar (XBin Mult (XNum [50]) (XVar [120;121])))); XCell T_RELATIVE_CELL [65;49]] in
  xstrip e = xstrip e' /\ lex [70;40;49;43;50;42;120;121;44;40;65;49;41;41] = LexOk (xtoks e) /\
  lex [70;40;40;49;43;40;50;42;120;121;41;41;44;65;49;41] = LexOk (xtoks e').
Proof. repeat split; vm_compute; reflexivity. Qed.
