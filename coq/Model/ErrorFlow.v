(* C08: how error values travel through a formula.  Expression trees are evaluated the way the grammar
   actions evaluate them: bottom-up, left to right, eagerly; an error is a VALUE (returned) unless it is
   RAISED (error literal, unknown name), and Parser.call_function turns an XLError raised inside a
   function body into the value of the call.  The non-error behaviour of operators comes from
   Model/Operators.v. *)
From HX Require Export Model.Value Model.Operators Model.Logic.
Open Scope Z_scope.

Inductive binop := BArith (op : Z) (* 0 + 1 - 2 * 3 / *) | BAmp | BCmp (op : Z) (* 0 < 1 > 2 = 3 <= 4 >= 5 <> *).

Inductive fname :=
  | FIFERROR | FIFNA | FISERROR | FISERR | FISNA | FERRORTYPE
  | FSUM          (* an aggregate: RAISES the first error item it meets (utils.inumbers) *)
  | FNA           (* returns #N/A *)
  | FIDENT        (* a host function returning its argument *)
  | FRAISE (e : err). (* a host function raising the XLError e *)

Inductive expr :=
  | EVal (v : value)                    (* a literal / variable / cell holding a value (possibly an error value) *)
  | EErrLit (e : err)                   (* an error literal written in the formula: _throw_error raises *)
  | EUnknown                            (* an unknown name: raises #NAME? *)
  | EBin (b : binop) (l r : expr)
  | ENeg (x : expr)
  | ECall (f : fname) (args : list expr).

Definition eval_bin (b : binop) (l r : value) : outcome :=
  match b with
  | BArith op => eval_arith 50 op l r
  | BAmp => eval_amp l r
  | BCmp op => eval_cmp op l r
  end.

Definition error_type (v : value) : value :=
  match v with
  | VErr ENULL => VInt 1 | VErr EDIV0 => VInt 2 | VErr EVALUE => VInt 3 | VErr EREF => VInt 4
  | VErr ENAME => VInt 5 | VErr ENUM => VInt 6 | VErr ENA => VInt 7 | VErr EDATA => VInt 8
  | _ => VErr ENA
  end.

(* SUM over already-evaluated arguments: raises the first error leaf, else adds the int leaves
   (enough for the error-flow model; other leaves are ignored like non-numbers) *)
Fixpoint sum_ints (l : list value) : Z :=
  match l with [] => 0 | VInt z :: r => z + sum_ints r | VBool b :: r => (if b then 1 else 0) + sum_ints r | _ :: r => sum_ints r end.
Definition body (f : fname) (args : list value) : outcome :=
  match f, args with
  | FIFERROR, [v; w] => Ret (if is_err v then w else v)
  | FIFNA, [v; w] => Ret (match v with VErr ENA => w | _ => v end)
  | FISERROR, [v] => Ret (VBool (p_ISERROR v))
  | FISERR, [v] => Ret (VBool (p_ISERR v))
  | FISNA, [v] => Ret (VBool (p_ISNA v))
  | FERRORTYPE, [VList _] => PyExc                       (* errdict.get(<list>): unhashable, TypeError *)
  | FERRORTYPE, [v] => Ret (error_type v)
  | FSUM, _ => match first_error (flatten_args args) with
               | Some e => RaiseErr e
               | None => Ret (VInt (sum_ints (flatten_args args)))
               end
  | FNA, [] => Ret (VErr ENA)
  | FIDENT, [v] => Ret v
  | FRAISE e, _ => RaiseErr e
  | _, _ => PyExc
  end.
(* Parser.call_function: an XLError raised by the body is the value of the call *)
Definition call (f : fname) (args : list value) : outcome :=
  match body f args with
  | RaiseErr e => Ret (VErr e)
  | o => o
  end.

Fixpoint eval (x : expr) : outcome :=
  match x with
  | EVal v => Ret v
  | EErrLit e => RaiseErr e
  | EUnknown => RaiseErr ENAME
  | EBin b l r =>
      match eval l with
      | Ret lv => match eval r with
                  | Ret rv => eval_bin b lv rv
                  | o => o
                  end
      | o => o
      end
  | ENeg a => match eval a with Ret v => eval_neg v | o => o end
  | ECall f args =>
      (fix go (args : list expr) (acc : list value) : outcome :=
         match args with
         | [] => call f (rev acc)
         | a :: r => match eval a with
                     | Ret v => go r (v :: acc)
                     | o => o
                     end
         end) args []
  end.

(* Parser.parse: the record (error code or none, result or none) *)
Inductive record := RecResult (v : value) | RecError (e : err).
Definition top (o : outcome) : record :=
  match o with
  | Ret (VErr e) => RecError e
  | Ret v => RecResult v
  | RaiseErr e => RecError e
  | PyExc => RecError EERROR
  end.

(* ---------- runner entry: expression trees, prefix encoded ----------
   0 value | 1 errlit code | 2 unknown | 3 kind op l r (kind 0 arith 1 amp 2 cmp) | 4 x | 5 f n args..
   f: 0 IFERROR 1 IFNA 2 ISERROR 3 ISERR 4 ISNA 5 ERROR.TYPE 6 SUM 7 NA 8 IDENT 9+code RAISE *)
Definition fname_of (z : Z) : fname :=
  match z with
  | 0 => FIFERROR | 1 => FIFNA | 2 => FISERROR | 3 => FISERR | 4 => FISNA | 5 => FERRORTYPE | 6 => FSUM | 7 => FNA
  | 8 => FIDENT | _ => FRAISE (err_of_code (z - 9))
  end.
Fixpoint dec_expr (fuel : nat) (l : list Z) : expr * list Z :=
  match fuel with
  | O => (EUnknown, [])
  | S f =>
    match l with
    | 0 :: r => let '(v, r') := dec_val r in (EVal v, r')
    | 1 :: c :: r => (EErrLit (err_of_code c), r)
    | 2 :: r => (EUnknown, r)
    | 3 :: k :: op :: r =>
        let '(a, r1) := dec_expr f r in let '(b, r2) := dec_expr f r1 in
        (EBin (match k with 0 => BArith op | 1 => BAmp | _ => BCmp op end) a b, r2)
    | 4 :: r => let '(a, r1) := dec_expr f r in (ENeg a, r1)
    | 5 :: fn :: n :: r =>
        let '(args, r') :=
          (fix go (k : nat) (r : list Z) : list expr * list Z :=
             match k with
             | O => ([], r)
             | S k' => let '(a, r1) := dec_expr f r in let '(as_, r2) := go k' r1 in (a :: as_, r2)
             end) (Z.to_nat n) r in
        (ECall (fname_of fn) args, r')
    | _ => (EUnknown, [])
    end
  end.
Definition enc_record (r : record) : list Z :=
  match r with RecResult v => 0 :: enc_value v | RecError e => [1; err_code e] end.
Definition e_errflow (a : list Z) : list Z := enc_record (top (eval (fst (dec_expr (S (length a)) a)))).
