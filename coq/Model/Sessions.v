(* Sessions: where the state of an evaluation lives (C02, C03).
   ply keeps a process-global "last lexer built"; yacc.parse(input) without lexer= reads its tokens from that global
   object, so a nested or concurrent evaluation re-targets and drains the token stream of the one in progress.
   grammarparser.Parser.parse passes lexer=self.lex.clone(): every evaluation reads from a lexer object of its own.
   The model makes the lexer objects explicit: a world is a store of lexer objects (id -> unread tokens); an evaluation
   fetches its tokens one at a time from "its" lexer - a fresh object when private, the global one otherwise - and other
   complete evaluations (same or other parser, nested to depth 2) are interposed at arbitrary fetch positions; threads
   interleave single fetches.  What an evaluation computes is a function of the tokens it read, so "yields its solo
   outcome" is "read exactly the tokens of its own text". *)
From HX Require Export Model.Base Model.Lexer.
From HX Require Export Gen.Sessions.
Local Open Scope nat_scope.

Definition lex_tokens (s : list Z) : list token := match lex s with LexOk ts => ts | LexError ts => ts end.

Record world := { store : list (nat * list token); next_id : nat; global_lexer : nat }.
Fixpoint lookup (id : nat) (l : list (nat * list token)) : option (list token) :=
  match l with [] => None | (k, v) :: r => if Nat.eqb k id then Some v else lookup id r end.
Definition set_store (id : nat) (v : list token) (w : world) : world :=
  {| store := (id, v) :: store w; next_id := next_id w; global_lexer := global_lexer w |}.
(* lexer.input(text) on the lexer object this evaluation uses *)
Definition open_lexer (private : bool) (w : world) (toks : list token) : nat * world :=
  if private then (next_id w, {| store := (next_id w, toks) :: store w; next_id := S (next_id w); global_lexer := global_lexer w |})
  else (global_lexer w, set_store (global_lexer w) toks w).

Section Level.
  Variable iplan ires : Type.
  Variable ieval : bool -> world -> iplan -> world * ires.
  Variable isize : iplan -> nat.

  Record lplan := { l_text : list Z; l_nested : list (nat * iplan) }.     (* (fetch position, nested evaluation) *)
  Record lres := { l_read : list token; l_inner : list ires }.

  Fixpoint run_nested (private : bool) (w : world) (l : list (nat * iplan)) (k : nat) : world * list ires :=
    match l with
    | [] => (w, [])
    | (pos, p) :: r =>
        if Nat.eqb pos k then
          let '(w1, x) := ieval private w p in let '(w2, xs) := run_nested private w1 r k in (w2, x :: xs)
        else run_nested private w r k
    end.
  Fixpoint fetch_loop (fuel : nat) (private : bool) (lid : nat) (nested : list (nat * iplan)) (k : nat) (w : world)
           (acc : list token) (inner : list ires) : world * lres :=
    match fuel with
    | O => (w, {| l_read := rev acc; l_inner := inner |})
    | S f =>
        let '(w1, xs) := run_nested private w nested k in
        match lookup lid (store w1) with
        | Some (t :: rest) => fetch_loop f private lid nested (S k) (set_store lid rest w1) (t :: acc) (inner ++ xs)
        | _ => (w1, {| l_read := rev acc; l_inner := inner ++ xs |})
        end
    end.
  Definition lsize (p : lplan) : nat :=
    S (length (lex_tokens (l_text p))) + fold_right (fun e a => isize (snd e) + a) 0 (l_nested p).
  Definition leval (private : bool) (w : world) (p : lplan) : world * lres :=
    let '(lid, w0) := open_lexer private w (lex_tokens (l_text p)) in
    fetch_loop (lsize p) private lid (l_nested p) 0 w0 [] [].
End Level.
Arguments l_text {iplan}. Arguments l_nested {iplan}. Arguments l_read {ires}. Arguments l_inner {ires}.
Arguments Build_lplan {iplan}. Arguments Build_lres {ires}.

(* depth 0: a plain evaluation; depth 1 and 2: evaluations with evaluations interposed *)
Definition eval0 (private : bool) (w : world) (s : list Z) : world * list token :=
  let '(w', r) := leval Empty_set unit (fun _ w _ => (w, tt)) (fun _ => O) private w {| l_text := s; l_nested := [] |} in (w', l_read r).
Definition plan1 := lplan (list Z).
Definition eval1 (private : bool) (w : world) (p : plan1) : world * lres (list token) :=
  leval (list Z) (list token) eval0 (fun s => S (length (lex_tokens s))) private w p.
Definition size1 (p : plan1) : nat := lsize (list Z) (fun s => S (length (lex_tokens s))) p.
Definition plan2 := lplan plan1.
Definition eval2 (private : bool) (w : world) (p : plan2) : world * lres (lres (list token)) :=
  leval plan1 (lres (list token)) eval1 size1 private w p.

(* threads: two evaluations on distinct parsers, single fetches interleaved by a schedule (true = the first thread) *)
Record thread := { t_lexer : nat; t_read : list token; t_done : bool }.
Definition tfetch (w : world) (t : thread) : world * thread :=
  if t_done t then (w, t) else
  match lookup (t_lexer t) (store w) with
  | Some (x :: rest) => (set_store (t_lexer t) rest w, {| t_lexer := t_lexer t; t_read := t_read t ++ [x]; t_done := false |})
  | _ => (w, {| t_lexer := t_lexer t; t_read := t_read t; t_done := true |})
  end.
Fixpoint interleave (sched : list bool) (w : world) (a b : thread) : world * thread * thread :=
  match sched with
  | [] => (w, a, b)
  | true :: r => let '(w1, a1) := tfetch w a in interleave r w1 a1 b
  | false :: r => let '(w1, b1) := tfetch w b in interleave r w1 a b1
  end.
Definition two_threads (private : bool) (w : world) (sa sb : list Z) (sched : list bool) : thread * thread :=
  let '(la, w1) := open_lexer private w (lex_tokens sa) in
  let '(lb, w2) := open_lexer private w1 (lex_tokens sb) in
  let '(_, a, b) := interleave sched w2 {| t_lexer := la; t_read := []; t_done := false |} {| t_lexer := lb; t_read := []; t_done := false |} in
  (a, b).

(* ---------- C02: what a long-lived parser retains ---------- *)
(* the error constants are shared objects; every raise extends their traceback chain by the frames it crosses;
   Parser.parse's finally clause releases them (tracebacks_released).  frames s = the number of frames a failing
   evaluation of s leaves on the chain (0 for a successful one). *)
Definition retained_after (released : bool) (frames : list Z -> nat) (history : list (list Z)) : nat :=
  fold_left (fun acc s => if released then O else (acc + frames s)%nat) history O.
