(* C05, white space at ANY subset of the token boundaries.  A token followed by a separator character (an operator, a
   closing bracket, a separator, white space) or by the end of the text is lexed as itself whatever comes after that
   character; punctuation tokens are lexed as themselves whatever follows (up to the two-character comparison
   operators).  Hence: a token list in which every adjacent pair is (atom, punctuation) or (punctuation, anything) or is
   separated by white space lexes to itself for EVERY choice of white space at the boundaries, empty or not - except
   between a function name and its parenthesis, where no white space may be put (the FUNCTION token needs "(" next). *)
From HX Require Import Model.Base Model.Lexer Proofs.LexicalProofs Proofs.RefsProofs Proofs.CellProofs.
From Coq Require Import Lia ZifyBool.
Open Scope Z_scope.

(* characters that end an atom: operators, closing brackets, separators, "{" - not ".", "(", "$", "!", "?", quotes, "#" *)
Definition sep_chars : list Z := [43; 45; 42; 47; 38; 62; 60; 61; 41; 44; 59; 92; 123; 125; 94; 37; 58].
Definition ends_atom (r : list Z) : Prop := match r with [] => True | c :: _ => is_space c = true \/ In c sep_chars end.
Lemma ends_atom_facts c r : ends_atom (c :: r) ->
  is_word c = false /\ c <> 40 /\ c <> 36 /\ c <> 46 /\ is_digit c = false /\ is_alpha c = false /\ c <> 33 /\ c <> 63.
Proof.
  intros [H|H].
  - apply space_not_special in H.
    assert (forallb (fun x => negb (is_word x) && negb (x =? 40) && negb (x =? 36) && negb (x =? 46) && negb (is_digit x) && negb (is_alpha x) && negb (x =? 33) && negb (x =? 63)) space_chars = true) as K by (vm_compute; reflexivity).
    rewrite forallb_forall in K. specialize (K c H). lia.
  - assert (forallb (fun x => negb (is_word x) && negb (x =? 40) && negb (x =? 36) && negb (x =? 46) && negb (is_digit x) && negb (is_alpha x) && negb (x =? 33) && negb (x =? 63)) sep_chars = true) as K by (vm_compute; reflexivity).
    rewrite forallb_forall in K. specialize (K c H). lia.
Qed.

(* ---------- atoms ---------- *)
Lemma span_stop p a c r : Forall (fun x => p x = true) a -> p c = false -> span p (a ++ c :: r) = (a, c :: r).
Proof. intros Ha Hc. apply span_app_stop; [exact Ha|exact Hc]. Qed.
Lemma skipn_app_len {A} (a b : list A) : skipn (length a) (a ++ b) = b.
Proof. rewrite skipn_app, skipn_all, Nat.sub_diag. reflexivity. Qed.

Theorem number_local ds r : ds <> [] -> Forall (fun c => is_digit c = true) ds ->
  (match r with c :: _ => is_digit c = false | [] => True end) -> lex_one (ds ++ r) = Some (T_NUMBER, length ds).
Proof.
  intros Hne Hd Hr'. destruct ds as [|c ds']; [congruence|]. inversion Hd as [|? ? Hc Hd']; subst.
  destruct (digit_facts c Hc) as (F1 & F2 & F3 & F4 & F5 & F6 & F7 & F8).
  pose proof (span_digits_app (c :: ds') r Hd Hr') as Sd.
  cbn [app] in *. unfold lex_one. rewrite F1, F3, F4. cbn [orb]. rewrite F2. cbn [andb].
  rewrite (span_false_hd is_alpha_dot c (ds' ++ r)) by (unfold is_alpha_dot; rewrite F2, F7; reflexivity). cbn [fst nonempty andb].
  rewrite F5, F6.
  rewrite (span_false_hd is_alpha c (ds' ++ r)) by exact F2. cbn [fst nonempty length skipn andb].
  rewrite (span_false_hd is_alpha_us c (ds' ++ r)) by (unfold is_alpha_us; rewrite F2, F8; reflexivity). cbn [fst nonempty].
  rewrite Hc. rewrite Sd. reflexivity.
Qed.

Lemma span_app_false p a c0 r0 : p c0 = false ->
  span p (a ++ c0 :: r0) = (fst (span p a), snd (span p a) ++ c0 :: r0).
Proof.
  intros H. induction a as [|x a IH]; cbn [app span]; [rewrite H; reflexivity|].
  destruct (p x); [|reflexivity]. rewrite IH. destruct (span p a). reflexivity.
Qed.
Lemma span_fst_len p (l : list Z) : (length (fst (span p l)) <= length l)%nat. Proof. apply span_length_le. Qed.
(* looking at the character after a prefix of a word: never the character k if k is neither a word character nor c0 *)
Lemma hd_is_tail k n j c0 r0 : word n -> is_word k = false -> c0 <> k -> (j <= length n)%nat ->
  hd_is k (skipn j (n ++ c0 :: r0)) = false.
Proof.
  intros Hw Hk Hc Hj. rewrite skipn_app. replace (j - length n)%nat with O by lia. cbn [skipn].
  pose proof (forall_skipn _ j n Hw) as F. destruct (skipn j n) as [|x t]; cbn [app hd_is].
  - destruct (c0 =? k) eqn:E; [lia|reflexivity].
  - inversion F; subst. destruct (x =? k) eqn:E; [|reflexivity]. assert (x = k) by lia. congruence.
Qed.

(* a name of the class good_name followed by a separator character *)
Theorem name_local n r : good_name n -> ends_atom r -> lex_one (n ++ r) = Some (T_VARIABLE, length n).
Proof.
  intros G Hr. destruct r as [|c0 r0]; [rewrite app_nil_r; apply lex_one_name; exact G|].
  destruct (ends_atom_facts c0 r0 Hr) as (W0 & N40 & N36 & N46 & D0 & A0 & _ & _).
  destruct G as (Hw & Hcp & Hshape). destruct n as [|c r]; [contradiction|].
  assert (is_word c = true) as Hc by (inversion Hw; assumption).
  pose proof (word_range c Hc) as Rc.
  assert (is_word_dot c0 = false) as WD0 by (clear - W0 N46; unfold is_word_dot; rewrite W0; cbn; lia).
  assert (is_alpha_dot c0 = false) as AD0 by (clear - A0 N46; unfold is_alpha_dot; rewrite A0; cbn; lia).
  assert (is_alpha_us c0 = false) as AU0 by (clear - A0 W0; unfold is_alpha_us, is_word in *; rewrite A0 in *; cbn in *; lia).
  unfold lex_one. cbv zeta. cbn [app]. rewrite (word_not_space c Hc).
  assert ((c =? 34) || (c =? 39) = false) as -> by (clear - Rc; lia).
  change (c :: r ++ c0 :: r0) with ((c :: r) ++ c0 :: r0).
  rewrite (span_app_false is_word_dot (c :: r) c0 r0 WD0), (span_app_false is_alpha_dot (c :: r) c0 r0 AD0),
          (span_app_false is_alpha (c :: r) c0 r0 A0), (span_app_false is_word (c :: r) c0 r0 W0),
          (span_app_false is_alpha_us (c :: r) c0 r0 AU0).
  cbn [fst].
  rewrite (hd_is_tail 40 (c :: r) _ c0 r0 Hw eq_refl N40 (span_fst_len _ _)).
  rewrite (hd_is_tail 40 (c :: r) _ c0 r0 Hw eq_refl N40 (span_fst_len _ _)).
  rewrite !Bool.andb_false_r.
  assert ((c =? 35) = false) as -> by (clear - Rc; lia). assert ((c =? 36) = false) as -> by (clear - Rc; lia).
  rewrite (hd_is_tail 36 (c :: r) _ c0 r0 Hw eq_refl N36 (span_fst_len _ _)). rewrite Bool.andb_false_r.
  (* RELATIVE_CELL: the digits after the letters - the same run as in the name alone *)
  assert (fst (span is_digit (skipn (length (fst (span is_alpha (c :: r)))) ((c :: r) ++ c0 :: r0))) =
          fst (span is_digit (skipn (length (fst (span is_alpha (c :: r)))) (c :: r)))) as ->.
  { rewrite skipn_app. replace (length (fst (span is_alpha (c :: r))) - length (c :: r))%nat with O by (pose proof (span_fst_len is_alpha (c :: r)); lia).
    cbn [skipn]. rewrite (span_app_false is_digit _ c0 r0 D0). reflexivity. }
  unfold cell_prefixed in Hcp. rewrite Hcp.
  rewrite (span_all is_word (c :: r)) by exact Hw. cbn [fst].
  destruct Hshape as [[Ha Hr']|Hus].
  - rewrite Ha. destruct r as [|d r']; [congruence|]. cbn [length].
    assert ((2 <=? Z.of_nat (S (S (length r')))) = true) as -> by (clear; lia). reflexivity.
  - rewrite (span_all is_alpha_us (c :: r)) by exact Hus. cbn [fst nonempty].
    destruct (is_alpha c && (2 <=? Z.of_nat (length (c :: r)))); reflexivity.
Qed.

(* ---------- cell labels ---------- *)
Definition cell_kind (ca ra : bool) : Z := if ca then (if ra then T_ABSOLUTE_CELL else T_MIXED_CELL) else (if ra then T_MIXED_CELL else T_RELATIVE_CELL).
Lemma alpha_facts c : is_alpha c = true ->
  is_space c = false /\ (c =? 34) = false /\ (c =? 39) = false /\ (c =? 35) = false /\ (c =? 36) = false /\ is_digit c = false /\
  is_word c = true /\ is_word_dot c = true /\ is_alpha_dot c = true.
Proof.
  intros H. assert (is_word c = true) as W by (unfold is_word; rewrite H; reflexivity).
  pose proof (word_not_space c W). unfold is_word_dot, is_alpha_dot. rewrite W, H.
  unfold is_alpha, is_upper, is_lower, is_digit in *. repeat split; try reflexivity; try assumption; lia.
Qed.
Lemma letters_word ls : letters ls -> word ls.
Proof. intros H. eapply Forall_impl; [|exact H]. cbn. intros a Ha. unfold is_word. rewrite Ha. reflexivity. Qed.
Lemma digits_word ds : digits ds -> word ds.
Proof. intros H. eapply Forall_impl; [|exact H]. cbn. intros a Ha. unfold is_word. rewrite Ha. apply Bool.orb_true_r || (destruct (is_alpha a); reflexivity). Qed.

Theorem relative_cell_local ls ds r : ls <> [] -> letters ls -> ds <> [] -> digits ds -> ends_atom r ->
  lex_one ((ls ++ ds) ++ r) = Some (T_RELATIVE_CELL, length (ls ++ ds)).
Proof.
  intros Hl Fl Hd Fd Hr. destruct ls as [|c ls']; [congruence|]. inversion Fl as [|? ? Hc Fl']; subst.
  destruct (alpha_facts c Hc) as (S1 & Q1 & Q2 & H35 & H36 & D1 & W1 & WD1 & AD1).
  destruct ds as [|d ds']; [congruence|]. inversion Fd as [|? ? Hdd Fd']; subst.
  destruct (is_digit_not_dollar d Hdd) as [Dn36 Dna].
  assert (word ((c :: ls') ++ d :: ds')) as Hw by (apply Forall_app; split; [apply letters_word; exact Fl|apply digits_word; exact Fd]).
  assert (forall t, span is_alpha ((c :: ls') ++ d :: t) = (c :: ls', d :: t)) as SA by (intros t; apply span_app_stop; [exact Fl|exact Dna]).
  assert (is_alpha_dot d = false) as ADd by (clear - Dna Hdd; unfold is_alpha_dot; rewrite Dna; unfold is_digit in Hdd; lia).
  assert (forall t, span is_alpha_dot ((c :: ls') ++ d :: t) = (c :: ls', d :: t)) as SAD.
  { intros t. apply span_app_stop; [|exact ADd]. eapply Forall_impl; [|exact Fl]. cbn. intros a Ha. unfold is_alpha_dot. rewrite Ha. reflexivity. }
  destruct r as [|c0 r0].
  - (* end of text *)
    rewrite app_nil_r. unfold lex_one. cbv zeta. cbn [app]. rewrite S1, Q1, Q2. cbn [orb]. rewrite Hc, H35, H36. cbn [andb].
    change (c :: ls' ++ d :: ds') with ((c :: ls') ++ d :: ds').
    rewrite (span_all is_word_dot ((c :: ls') ++ d :: ds')) by (eapply Forall_impl; [|exact Hw]; cbn; intros a Ha; unfold is_word_dot; rewrite Ha; reflexivity).
    cbn [fst]. rewrite skipn_all. cbn [hd_is]. rewrite Bool.andb_false_r.
    rewrite (SAD ds'), (SA ds'). cbn [fst nonempty andb]. rewrite !(skipn_app_len (c :: ls') (d :: ds')). cbn [hd_is tl].
    assert ((d =? 40) = false) as -> by (clear - Hdd; unfold is_digit in Hdd; lia). assert ((d =? 36) = false) as -> by (clear - Dn36; lia). cbn [andb].
    rewrite (span_all is_digit (d :: ds')) by exact Fd. cbn [fst nonempty andb]. f_equal. f_equal. rewrite ?app_length. cbn [length]. rewrite ?app_length. cbn [length]. lia.
  - destruct (ends_atom_facts c0 r0 Hr) as (W0 & N40 & N36 & N46 & D0 & A0 & _ & _).
    assert (is_word_dot c0 = false) as WD0 by (clear - W0 N46; unfold is_word_dot; rewrite W0; cbn; lia).
    unfold lex_one. cbv zeta. rewrite <- app_assoc. cbn [app]. rewrite S1, Q1, Q2. cbn [orb]. rewrite Hc, H35, H36. cbn [andb].
    change (c :: ls' ++ d :: ds' ++ c0 :: r0) with ((c :: ls') ++ d :: (ds' ++ c0 :: r0)).
    rewrite (SAD (ds' ++ c0 :: r0)), (SA (ds' ++ c0 :: r0)). cbn [fst nonempty andb]. rewrite !(skipn_app_len (c :: ls') (d :: ds' ++ c0 :: r0)). cbn [hd_is tl].
    assert ((d =? 40) = false) as -> by (clear - Hdd; unfold is_digit in Hdd; lia). assert ((d =? 36) = false) as -> by (clear - Dn36; lia). cbn [andb].
    replace ((c :: ls') ++ d :: ds' ++ c0 :: r0) with (((c :: ls') ++ d :: ds') ++ c0 :: r0) by (rewrite <- app_assoc; reflexivity).
    rewrite (span_app_false is_word_dot _ c0 r0 WD0).
    rewrite (span_all is_word_dot ((c :: ls') ++ d :: ds')) by (eapply Forall_impl; [|exact Hw]; cbn; intros a Ha; unfold is_word_dot; rewrite Ha; reflexivity).
    cbn [fst snd]. rewrite (skipn_app_len ((c :: ls') ++ d :: ds') (c0 :: r0)). cbn [hd_is]. assert ((c0 =? 40) = false) as -> by (clear - N40; lia). rewrite Bool.andb_false_r.
    change (d :: ds' ++ c0 :: r0) with ((d :: ds') ++ c0 :: r0).
    rewrite (span_app_false is_digit (d :: ds') c0 r0 D0), (span_all is_digit (d :: ds')) by exact Fd. cbn [fst nonempty andb].
    f_equal. f_equal. rewrite ?app_length. cbn [length]. rewrite ?app_length. cbn [length]. clear. lia.
Qed.

Lemma ends_atom_not_digit r : ends_atom r -> match r with c :: _ => is_digit c = false | [] => True end.
Proof. destruct r as [|c r']; [trivial|]. intros H. destruct (ends_atom_facts c r' H) as (_ & _ & _ & _ & D & _). exact D. Qed.
Lemma span_letters ls t : letters ls -> (match t with c :: _ => is_alpha c = false | [] => True end) -> span is_alpha (ls ++ t) = (ls, t).
Proof. intros H Ht. apply span_app_stop; assumption. Qed.

Theorem absolute_cell_local ls ds r : ls <> [] -> letters ls -> ds <> [] -> digits ds -> ends_atom r ->
  lex_one ((36 :: ls ++ 36 :: ds) ++ r) = Some (T_ABSOLUTE_CELL, length (36 :: ls ++ 36 :: ds)).
Proof.
  intros Hl Fl Hd Fd Hr. pose proof (ends_atom_not_digit r Hr) as Hr'.
  unfold lex_one. cbv zeta. cbn [app].
  change (is_space 36) with false. change ((36 =? 34) || (36 =? 39)) with false. change (is_alpha 36) with false. cbn [andb].
  rewrite (span_false_hd is_alpha_dot 36) by reflexivity. cbn [fst nonempty andb]. change (36 =? 35) with false. change (36 =? 36) with true.
  rewrite <- app_assoc. cbn [app].
  rewrite (span_letters ls (36 :: ds ++ r) Fl eq_refl). cbn [fst]. rewrite (skipn_app_len ls (36 :: ds ++ r)). cbn [hd_is tl].
  change (36 =? 36) with true. destruct ls as [|l0 ls']; [congruence|]. cbn [nonempty andb].
  rewrite (span_digits_app ds r Fd Hr'). cbn [fst]. destruct ds as [|d0 ds']; [congruence|]. cbn [nonempty].
  f_equal. f_equal. cbn [length]. rewrite ?app_length. cbn [length]. clear. lia.
Qed.
Theorem mixed_cell_local_1 ls ds r : ls <> [] -> letters ls -> ds <> [] -> digits ds -> ends_atom r ->
  lex_one ((36 :: ls ++ ds) ++ r) = Some (T_MIXED_CELL, length (36 :: ls ++ ds)).
Proof.
  intros Hl Fl Hd Fd Hr. pose proof (ends_atom_not_digit r Hr) as Hr'.
  destruct ds as [|d0 ds']; [congruence|]. inversion Fd as [|? ? Hd0 Fd']; subst. destruct (is_digit_not_dollar d0 Hd0) as [Dn36 Dna].
  unfold lex_one. cbv zeta. cbn [app].
  change (is_space 36) with false. change ((36 =? 34) || (36 =? 39)) with false. change (is_alpha 36) with false. cbn [andb].
  rewrite (span_false_hd is_alpha_dot 36) by reflexivity. cbn [fst nonempty andb]. change (36 =? 35) with false. change (36 =? 36) with true.
  rewrite <- app_assoc. cbn [app].
  rewrite (span_letters ls (d0 :: ds' ++ r) Fl Dna). cbn [fst]. rewrite (skipn_app_len ls (d0 :: ds' ++ r)). cbn [hd_is].
  assert ((d0 =? 36) = false) as -> by (clear - Dn36; lia). rewrite Bool.andb_false_r.
  change (d0 :: ds' ++ r) with ((d0 :: ds') ++ r). rewrite (span_digits_app (d0 :: ds') r Fd Hr'). cbn [fst nonempty].
  destruct ls as [|l0 ls']; [congruence|]. cbn [nonempty andb]. f_equal. f_equal. cbn [length]. rewrite ?app_length. cbn [length]. clear. lia.
Qed.
Theorem mixed_cell_local_2 ls ds r : ls <> [] -> letters ls -> ds <> [] -> digits ds -> ends_atom r ->
  lex_one ((ls ++ 36 :: ds) ++ r) = Some (T_MIXED_CELL, length (ls ++ 36 :: ds)).
Proof.
  intros Hl Fl Hd Fd Hr. pose proof (ends_atom_not_digit r Hr) as Hr'.
  destruct ls as [|c ls']; [congruence|]. inversion Fl as [|? ? Hc Fl']; subst.
  destruct (alpha_facts c Hc) as (S1 & Q1 & Q2 & H35 & H36 & D1 & W1 & WD1 & AD1).
  unfold lex_one. cbv zeta. rewrite <- app_assoc. cbn [app]. rewrite S1, Q1, Q2. cbn [orb]. rewrite Hc, H35, H36. cbn [andb].
  change (c :: ls' ++ 36 :: ds ++ r) with ((c :: ls') ++ 36 :: (ds ++ r)).
  rewrite (span_app_stop is_word_dot (c :: ls') (36 :: ds ++ r)) by (first [reflexivity|eapply Forall_impl; [|exact Fl]; cbn; intros a Ha; apply alpha_facts; exact Ha]).
  rewrite (span_app_stop is_alpha_dot (c :: ls') (36 :: ds ++ r)) by (first [reflexivity|eapply Forall_impl; [|exact Fl]; cbn; intros a Ha; apply alpha_facts; exact Ha]).
  rewrite (span_letters (c :: ls') (36 :: ds ++ r) Fl eq_refl). cbn [fst nonempty andb].
  rewrite !(skipn_app_len (c :: ls') (36 :: ds ++ r)). cbn [hd_is tl]. change (36 =? 40) with false. change (36 =? 36) with true.
  rewrite Bool.andb_false_r. cbn [andb].
  rewrite (span_digits_app ds r Fd Hr'). cbn [fst]. destruct ds as [|d0 ds']; [congruence|]. cbn [nonempty].
  f_equal. f_equal. rewrite ?app_length. cbn [length]. rewrite ?app_length. cbn [length]. clear. lia.
Qed.

(* ---------- text literals, function names, punctuation ---------- *)
Theorem string_local q body r : (q = 34 \/ q = 39) -> Forall (fun c => c <> q /\ c <> 92) body ->
  lex_one ((q :: body ++ [q]) ++ r) = Some (T_STRING, length (q :: body ++ [q])).
Proof.
  intros Hq Hb. unfold lex_one. cbv zeta. cbn [app]. rewrite <- app_assoc. cbn [app].
  assert (is_space q = false) as -> by (destruct Hq; subst; reflexivity).
  assert ((q =? 34) || (q =? 39) = true) as -> by lia.
  rewrite (scan_quoted_plain q body r Hb). f_equal. f_equal. cbn [length]. rewrite ?app_length. cbn [length]. clear. lia.
Qed.
(* a function name: a letter followed by at least one more of [A-Za-z_0-9.], or letters and dots only *)
Definition good_fname (n : list Z) : Prop :=
  match n with
  | [] => False
  | c :: r => (is_alpha c = true /\ r <> [] /\ Forall (fun x => is_word_dot x = true) n) \/ Forall (fun x => is_alpha_dot x = true) n
  end.
Lemma alpha_dot_facts c : is_alpha_dot c = true -> is_space c = false /\ (c =? 34) = false /\ (c =? 39) = false /\ is_word_dot c = true.
Proof.
  unfold is_alpha_dot. intros H. assert (is_word_dot c = true) as W by (unfold is_word_dot, is_word; destruct (is_alpha c); [reflexivity|cbn in *; lia]).
  split; [|split; [|split; [|exact W]]].
  - destruct (is_alpha c) eqn:A; [apply alpha_facts; exact A|]. cbn in H. assert (c = 46) by lia. subst. reflexivity.
  - unfold is_alpha, is_upper, is_lower in H. lia.
  - unfold is_alpha, is_upper, is_lower in H. lia.
Qed.
Theorem function_local n r : good_fname n -> lex_one (n ++ 40 :: r) = Some (T_FUNCTION, length n).
Proof.
  intros G. destruct n as [|c t]; [contradiction|]. unfold lex_one. cbv zeta. cbn [app].
  destruct G as [(Ha & Ht & Fw)|Fd].
  - destruct (alpha_facts c Ha) as (S1 & Q1 & Q2 & _). rewrite S1, Q1, Q2. cbn [orb]. rewrite Ha. cbn [andb].
    change (c :: t ++ 40 :: r) with ((c :: t) ++ 40 :: r).
    rewrite (span_app_stop is_word_dot (c :: t) (40 :: r) Fw eq_refl). cbn [fst]. rewrite (skipn_app_len (c :: t) (40 :: r)). cbn [hd_is].
    change (40 =? 40) with true. destruct t as [|d t']; [congruence|]. cbn [length].
    assert ((2 <=? Z.of_nat (S (S (length t')))) = true) as -> by (clear; lia). reflexivity.
  - inversion Fd as [|? ? Hc Ft]; subst. destruct (alpha_dot_facts c Hc) as (S1 & Q1 & Q2 & W1). rewrite S1, Q1, Q2. cbn [orb].
    change (c :: t ++ 40 :: r) with ((c :: t) ++ 40 :: r).
    assert (Forall (fun x => is_word_dot x = true) (c :: t)) as Fw by (eapply Forall_impl; [|exact Fd]; cbn; intros a Ha; apply alpha_dot_facts; exact Ha).
    rewrite (span_app_stop is_word_dot (c :: t) (40 :: r) Fw eq_refl), (span_app_stop is_alpha_dot (c :: t) (40 :: r) Fd eq_refl).
    cbn [fst]. rewrite !(skipn_app_len (c :: t) (40 :: r)). cbn [hd_is nonempty]. change (40 =? 40) with true. rewrite !Bool.andb_true_r.
    destruct (is_alpha c && (2 <=? Z.of_nat (length (c :: t)))); reflexivity.
Qed.

(* punctuation tokens are lexed as themselves whatever follows *)
Definition simple_punct : list token :=
  [Tok T_PLUS [43]; Tok T_MINUS [45]; Tok T_MULT [42]; Tok T_DIV [47]; Tok T_AMP [38]; Tok T_EQUAL [61];
   Tok T_GREATEREQ [62; 61]; Tok T_LESSEQ [60; 61]; Tok T_NOTEQUAL [60; 62];
   Tok T_LPAREN [40]; Tok T_RPAREN [41]; Tok T_COMMA [44]; Tok T_SEMICOLON [59]; Tok T_BACKSLASH [92];
   Tok T_LBRACKET [123]; Tok T_RBRACKET [125]; Tok T_CARET [94]; Tok T_PERCENT [37]; Tok T_COLON [58]].
Theorem punct_local : forall t, In t simple_punct -> forall r, lex_one (lexeme t ++ r) = Some (tk t, length (lexeme t)).
Proof.
  intros t Ht r. cbn in Ht.
  repeat (destruct Ht as [<-|Ht]; [reflexivity|]). contradiction.
Qed.
Theorem less_local r : (match r with c :: _ => c <> 61 /\ c <> 62 | [] => True end) -> lex_one (60 :: r) = Some (T_LESS, 1%nat).
Proof. intros H. unfold lex_one. cbn. destruct r as [|c r']; [reflexivity|]. cbn [hd_is]. destruct H. assert ((c =? 62) = false) as -> by lia. assert ((c =? 61) = false) as -> by lia. reflexivity. Qed.
Theorem greater_local r : (match r with c :: _ => c <> 61 | [] => True end) -> lex_one (62 :: r) = Some (T_GREATER, 1%nat).
Proof. intros H. unfold lex_one. cbn. destruct r as [|c r']; [reflexivity|]. cbn [hd_is]. assert ((c =? 61) = false) as -> by lia. reflexivity. Qed.
Theorem decimal_local r : (match r with c :: _ => is_digit c = true \/ ends_atom r | [] => True end) -> lex_one (46 :: r) = Some (T_DECIMAL, 1%nat).
Proof.
  intros H. unfold lex_one. cbv zeta. change (is_space 46) with false. change ((46 =? 34) || (46 =? 39)) with false. change (is_alpha 46) with false. cbn [andb].
  destruct r as [|c r']; [reflexivity|].
  assert (is_alpha_dot c = false /\ c <> 40) as [AD N40].
  { destruct H as [D|E]; [unfold is_alpha_dot, is_alpha, is_upper, is_lower, is_digit in *; lia|].
    destruct (ends_atom_facts c r' E) as (_ & N & _ & N46 & _ & A & _). unfold is_alpha_dot. rewrite A. cbn. lia. }
  change (46 :: c :: r') with ([46] ++ c :: r').
  rewrite (span_app_stop is_alpha_dot [46] (c :: r')) by (first [exact AD|repeat constructor]).
  cbn [fst nonempty length skipn hd_is andb app].
  assert ((c =? 40) = false) as -> by (clear - N40; lia). reflexivity.
Qed.

(* ---------- white space at any subset of the boundaries ---------- *)
Definition follows (t : token) (r : list Z) : Prop :=
  lexeme t <> [] /\ tk t <> 0 /\ lex_one (lexeme t ++ r) = Some (tk t, length (lexeme t)).
Inductive placed : list token -> list (list Z) -> Prop :=
  | placed_nil : placed [] []
  | placed_cons t ts w ws : all_space w -> follows t (w ++ ws_render ts ws) -> placed ts ws -> placed (t :: ts) (w :: ws).
Lemma follows_not_space t r : follows t r -> match lexeme t ++ r with c :: _ => is_space c = false | [] => True end.
Proof.
  intros (Hne & Hk & Hl). destruct (lexeme t) as [|c l] eqn:E; [congruence|]. cbn [app] in *.
  destruct (is_space c) eqn:S; [|reflexivity]. exfalso. unfold lex_one in Hl. rewrite S in Hl. inversion Hl. congruence.
Qed.
Lemma placed_head ts ws : placed ts ws -> match ws_render ts ws with c :: _ => is_space c = false | [] => True end.
Proof. intros H. destruct H as [|t ts w ws Hw Hf Hp]; [exact I|]. cbn [ws_render]. apply (follows_not_space t _ Hf). Qed.
Lemma lex_all_follows f t r acc : follows t r -> (length (lexeme t ++ r) <= f)%nat ->
  lex_all f (lexeme t ++ r) acc = lex_all (length r) r (t :: acc).
Proof.
  intros (Hne & Hk & Hl) Hf. pose proof Hf as Hf'. rewrite app_length in Hf'.
  destruct f as [|f]; [destruct (lexeme t); [congruence|cbn in Hf; lia]|].
  cbn [lex_all]. destruct (lexeme t ++ r) as [|c rest] eqn:E; [destruct (lexeme t); [congruence|discriminate]|].
  rewrite Hl. rewrite <- E.
  destruct (length (lexeme t)) as [|n] eqn:L; [destruct (lexeme t); [congruence|discriminate]|].
  assert ((tk t =? 0) = false) as -> by lia. rewrite <- L.
  rewrite skipn_app, firstn_app, Nat.sub_diag, firstn_all, skipn_all. cbn [skipn firstn app]. rewrite app_nil_r.
  destruct t as [k lx]. cbn [lexeme tk] in *.
  apply lex_all_fuel; [|lia]. cbn [length] in *. lia.
Qed.
Theorem placed_lexes : forall ts ws, placed ts ws -> forall acc,
  lex_all (length (ws_render ts ws)) (ws_render ts ws) acc = LexOk (rev acc ++ ts).
Proof.
  induction 1 as [|t ts w ws Hw Hf Hp IH]; intros acc.
  - cbn. rewrite app_nil_r. reflexivity.
  - cbn [ws_render]. rewrite (lex_all_follows _ t (w ++ ws_render ts ws) acc Hf) by lia.
    destruct w as [|c w'].
    + cbn [app]. rewrite IH. cbn [rev]. rewrite <- app_assoc. reflexivity.
    + rewrite lex_all_space_prefix; [|exact Hw|discriminate|apply placed_head; exact Hp|lia].
      rewrite IH. cbn [rev]. rewrite <- app_assoc. reflexivity.
Qed.
Corollary placed_lex ts ws : placed ts ws -> lex (ws_render ts ws) = LexOk ts.
Proof. intros H. unfold lex. rewrite (placed_lexes ts ws H []). reflexivity. Qed.

(* the local conditions: what may follow each kind of token (only the NEXT CHARACTER matters) *)
Inductive sep_ok : token -> list Z -> Prop :=
  | so_punct t r : In t simple_punct -> sep_ok t r
  | so_less r : (match r with c :: _ => c <> 61 /\ c <> 62 | [] => True end) -> sep_ok (Tok T_LESS [60]) r
  | so_greater r : (match r with c :: _ => c <> 61 | [] => True end) -> sep_ok (Tok T_GREATER [62]) r
  | so_decimal r : (match r with c :: _ => is_digit c = true \/ ends_atom r | [] => True end) -> sep_ok (Tok T_DECIMAL [46]) r
  | so_number ds r : ds <> [] -> digits ds -> (match r with c :: _ => is_digit c = false | [] => True end) -> sep_ok (Tok T_NUMBER ds) r
  | so_name n r : good_name n -> ends_atom r -> sep_ok (Tok T_VARIABLE n) r
  | so_relative ls ds r : ls <> [] -> letters ls -> ds <> [] -> digits ds -> ends_atom r -> sep_ok (Tok T_RELATIVE_CELL (ls ++ ds)) r
  | so_absolute ls ds r : ls <> [] -> letters ls -> ds <> [] -> digits ds -> ends_atom r -> sep_ok (Tok T_ABSOLUTE_CELL (36 :: ls ++ 36 :: ds)) r
  | so_mixed1 ls ds r : ls <> [] -> letters ls -> ds <> [] -> digits ds -> ends_atom r -> sep_ok (Tok T_MIXED_CELL (36 :: ls ++ ds)) r
  | so_mixed2 ls ds r : ls <> [] -> letters ls -> ds <> [] -> digits ds -> ends_atom r -> sep_ok (Tok T_MIXED_CELL (ls ++ 36 :: ds)) r
  | so_string q body r : (q = 34 \/ q = 39) -> Forall (fun c => c <> q /\ c <> 92) body -> sep_ok (Tok T_STRING (q :: body ++ [q])) r
  | so_function n r : good_fname n -> sep_ok (Tok T_FUNCTION n) (40 :: r).
Lemma punct_nonzero t : In t simple_punct -> lexeme t <> [] /\ tk t <> 0.
Proof. intros H. cbn in H. repeat (destruct H as [<-|H]; [split; [discriminate|vm_compute; discriminate]|]). contradiction. Qed.
Theorem sep_ok_follows t r : sep_ok t r -> follows t r.
Proof.
  intros H. destruct H; unfold follows; cbn [lexeme tk].
  - destruct (punct_nonzero t H). split; [assumption|]. split; [assumption|apply punct_local; exact H].
  - split; [discriminate|]. split; [vm_compute; discriminate|apply less_local; assumption].
  - split; [discriminate|]. split; [vm_compute; discriminate|apply greater_local; assumption].
  - split; [discriminate|]. split; [vm_compute; discriminate|apply decimal_local; assumption].
  - split; [assumption|]. split; [vm_compute; discriminate|apply number_local; assumption].
  - split; [destruct n; [destruct H as (_ & _ & F); contradiction|discriminate]|]. split; [vm_compute; discriminate|apply name_local; assumption].
  - split; [destruct ls; [congruence|discriminate]|]. split; [vm_compute; discriminate|apply relative_cell_local; assumption].
  - split; [discriminate|]. split; [vm_compute; discriminate|apply absolute_cell_local; assumption].
  - split; [discriminate|]. split; [vm_compute; discriminate|apply mixed_cell_local_1; assumption].
  - split; [destruct ls; [congruence|discriminate]|]. split; [vm_compute; discriminate|apply mixed_cell_local_2; assumption].
  - split; [discriminate|]. split; [vm_compute; discriminate|apply string_local; assumption].
  - split; [destruct n; [contradiction|discriminate]|]. split; [vm_compute; discriminate|apply function_local; assumption].
Qed.
(* the theorem of the property: white space (any amount, possibly none) at every boundary where the local condition
   holds - in particular everywhere in a formula whose adjacent tokens are never two atoms, except after a function name *)
Inductive spaced : list token -> list (list Z) -> Prop :=
  | spaced_nil : spaced [] []
  | spaced_cons t ts w ws : all_space w -> sep_ok t (w ++ ws_render ts ws) -> spaced ts ws -> spaced (t :: ts) (w :: ws).
Theorem whitespace_anywhere ts ws : spaced ts ws -> lex (ws_render ts ws) = LexOk ts.
Proof.
  intros H. apply placed_lex. induction H as [|t ts w ws Hw Hs Hp IH]; constructor; try assumption. apply sep_ok_follows, Hs.
Qed.
(* white space after any token but a function name always satisfies the local condition *)
Lemma space_ends_atom c r : is_space c = true -> ends_atom (c :: r). Proof. intros H. left. exact H. Qed.

(* non-vacuity:  1+ 2  (no white space before "+", one space after it) *)
Example spaced_example : spaced [Tok T_NUMBER [49]; Tok T_PLUS [43]; Tok T_NUMBER [50]] [[]; [32]; []].
Proof.
  constructor; [constructor| |constructor; [repeat constructor| |constructor; [constructor| |constructor]]].
  - apply so_number; [discriminate|repeat constructor|reflexivity].
  - apply so_punct. cbn. tauto.
  - apply so_number; [discriminate|repeat constructor|exact I].
Qed.
