(* C12: AND, OR, XOR, NOT, IF AS WRITTEN IN logic.py (Gen/LogicFns.v, regenerated from the source on every run), read
   through the shapes of Model/LogicShape.v, denote fn_AND, fn_OR, fn_XOR, fn_NOT, fn_IF of Model/Logic.v for every
   argument list - so every theorem about those is a theorem about the source terms. *)
From HX Require Import Model.Value Model.Logic Model.LogicShape Gen.LogicFns Proofs.ValueProofs Proofs.LogicProofs.
Open Scope Z_scope.

Theorem source_AND_is_model args : run_variadic gen_AND args = fn_AND args.
Proof. reflexivity. Qed.
Theorem source_OR_is_model args : run_variadic gen_OR args = fn_OR args.
Proof. reflexivity. Qed.
Theorem source_XOR_is_model args : run_variadic gen_XOR args = fn_XOR args.
Proof. reflexivity. Qed.

Theorem source_NOT_is_model args : run_fixed gen_NOT args = fn_NOT args.
Proof.
  unfold run_fixed, gen_NOT, fn_NOT. cbn [ff_arity ff_error_param ff_body].
  destruct args as [|v [|w r]]; [reflexivity| |destruct v; reflexivity].
  cbn [length Nat.eqb negb nth vexp_eval]. destruct v; reflexivity.
Qed.
Theorem source_IF_is_model args : run_fixed gen_IF args = fn_IF args.
Proof.
  unfold run_fixed, gen_IF, fn_IF. cbn [ff_arity ff_error_param ff_body].
  destruct args as [|c [|a [|b [|x r]]]]; try reflexivity; try (destruct c; reflexivity).
Qed.
Theorem source_understood : logic_gen_ok = true.
Proof. reflexivity. Qed.

(* consequences stated on the source terms *)
Theorem source_AND_truth args : no_errors (flatten_args args) ->
  run_variadic gen_AND args = Ret (VBool (forallb truthy (flatten_args args))).
Proof. intros H. rewrite source_AND_is_model. exact (AND_truth args H). Qed.
Theorem source_error_first args pre post e : flatten_args args = pre ++ VErr e :: post -> no_errors pre ->
  run_variadic gen_AND args = Ret (VErr e) /\ run_variadic gen_OR args = Ret (VErr e) /\ run_variadic gen_XOR args = Ret (VErr e).
Proof. intros E H. rewrite source_AND_is_model, source_OR_is_model, source_XOR_is_model. exact (AND_OR_XOR_error args pre post e E H). Qed.
