(* C11: aggregates equal their definitions over exactly the selected items. *)
From HX Require Import Model.Value Model.Operators Model.Lookup Model.Aggregates Proofs.ValueProofs.
From Coq Require Import Lia ZifyBool QArith Permutation Sorted.
Open Scope Z_scope.
Notation num := Operators.num (only parsing).

(* ---------- regrouping: every aggregate sees only the flattened leaves ---------- *)
Lemma with_numbers_group tp tz a l b k : with_numbers tp tz (a ++ VList l :: b) k = with_numbers tp tz (a ++ l ++ b) k.
Proof. unfold with_numbers. rewrite flatten_args_group. reflexivity. Qed.
Theorem regroup_invariant a l b :
  fn_SUM (a ++ VList l :: b) = fn_SUM (a ++ l ++ b) /\ fn_PRODUCT (a ++ VList l :: b) = fn_PRODUCT (a ++ l ++ b) /\
  fn_AVERAGE (a ++ VList l :: b) = fn_AVERAGE (a ++ l ++ b) /\ fn_COUNT (a ++ VList l :: b) = fn_COUNT (a ++ l ++ b) /\
  fn_MIN (a ++ VList l :: b) = fn_MIN (a ++ l ++ b) /\ fn_MAX (a ++ VList l :: b) = fn_MAX (a ++ l ++ b) /\
  fn_MEDIAN (a ++ VList l :: b) = fn_MEDIAN (a ++ l ++ b) /\ fn_MODE (a ++ VList l :: b) = fn_MODE (a ++ l ++ b) /\
  fn_VAR (a ++ VList l :: b) = fn_VAR (a ++ l ++ b) /\ fn_VARP (a ++ VList l :: b) = fn_VARP (a ++ l ++ b) /\
  fn_AVEDEV (a ++ VList l :: b) = fn_AVEDEV (a ++ l ++ b) /\ fn_HARMEAN (a ++ VList l :: b) = fn_HARMEAN (a ++ l ++ b).
Proof.
  repeat split; unfold fn_SUM, fn_PRODUCT, fn_AVERAGE, fn_COUNT, fn_MIN, fn_MAX, fn_MEDIAN, fn_MODE, fn_VAR, fn_VARP,
    fn_AVEDEV, fn_HARMEAN; rewrite ?with_numbers_group, ?flatten_args_group; reflexivity.
Qed.

(* ---------- the numeric leaves ---------- *)
Definition numeric_leaf (v : value) : Prop := match v with VInt _ | VFlt _ => True | _ => False end.
Definition num_of_leaf (v : value) : num := match v with VInt z => NI z | VFlt q => NF q | _ => NI 0 end.
Lemma numbers_of_numeric tp tz l : Forall numeric_leaf l -> numbers_of tp tz l = inl (map num_of_leaf l).
Proof.
  induction 1 as [|v r Hv F IH]; [reflexivity|]. cbn [numbers_of map]. rewrite IH.
  destruct v; try contradiction; reflexivity.
Qed.
Lemma numbers_of_error tp tz pre e post : Forall (fun v => is_err v = false) pre ->
  numbers_of tp tz (pre ++ VErr e :: post) = inr e.
Proof.
  induction 1 as [|v r Hv F IH]; [reflexivity|]. cbn [app numbers_of]. rewrite IH. destruct v; try reflexivity; discriminate.
Qed.

(* an error value among the items makes the result that error *)
Theorem error_item_propagates args pre e post : flatten_args args = pre ++ VErr e :: post ->
  Forall (fun v => is_err v = false) pre ->
  fn_SUM args = AErr e /\ fn_PRODUCT args = AErr e /\ fn_AVERAGE args = AErr e /\ fn_MIN args = AErr e /\
  fn_MAX args = AErr e /\ fn_MEDIAN args = AErr e.
Proof.
  intros E F. unfold fn_SUM, fn_PRODUCT, fn_AVERAGE, fn_MIN, fn_MAX, fn_MEDIAN, with_numbers.
  rewrite E, !numbers_of_error by exact F. repeat split; reflexivity.
Qed.

(* ---------- definitions on numeric items ---------- *)
Lemma convert_value b q : (num_q (convert b q) == q)%Q.
Proof.
  unfold convert. destruct (b && q_integral q) eqn:E; [|reflexivity]. apply andb_prop in E. destruct E as [_ E].
  unfold q_integral in E. cbn [num_q]. unfold inject_Z, Qeq. cbn. destruct q as [n d]. cbn in *.
  pose proof (Z.div_mod n (Z.pos d) ltac:(lia)). lia.
Qed.
Lemma zsum_qsum ns : all_int ns = true -> (inject_Z (zsum ns) == qsum (qs ns))%Q.
Proof.
  induction ns as [|n r IH]; intros H; [reflexivity|]. cbn in H. apply andb_prop in H. destruct H as [H1 H2].
  destruct n; [|discriminate]. cbn [zsum qs map qsum fold_right num_q]. rewrite inject_Z_plus. rewrite <- (IH H2). reflexivity.
Qed.
Lemma zprod_qprod ns : all_int ns = true -> (inject_Z (zprod ns) == qprod (qs ns))%Q.
Proof.
  induction ns as [|n r IH]; intros H; [reflexivity|]. cbn in H. apply andb_prop in H. destruct H as [H1 H2].
  destruct n; [|discriminate]. cbn [zprod qs map qprod fold_right num_q]. rewrite inject_Z_mult. rewrite <- (IH H2). reflexivity.
Qed.

Definition items_of (args : list value) : list num := map num_of_leaf (flatten_args args).
Definition numeric_args (args : list value) : Prop := Forall numeric_leaf (flatten_args args).

Theorem SUM_definition args : numeric_args args -> exists n, fn_SUM args = AOk n /\ (num_q n == qsum (qs (items_of args)))%Q.
Proof.
  intros H. unfold fn_SUM, with_numbers. rewrite (numbers_of_numeric _ _ _ H). fold (items_of args).
  destruct (all_int (items_of args)) eqn:A; eexists; split; try reflexivity. cbn [num_q]. apply zsum_qsum. exact A.
Qed.
Theorem PRODUCT_definition args : numeric_args args -> items_of args <> [] ->
  exists n, fn_PRODUCT args = AOk n /\ (num_q n == qprod (qs (items_of args)))%Q.
Proof.
  intros H Ne. unfold fn_PRODUCT, with_numbers. rewrite (numbers_of_numeric _ _ _ H). fold (items_of args).
  destruct (items_of args) as [|x r] eqn:E; [congruence|]. rewrite <- E.
  destruct (all_int (items_of args)) eqn:A; eexists; split; try reflexivity. cbn [num_q]. apply zprod_qprod. exact A.
Qed.
Theorem AVERAGE_definition args : numeric_args args -> items_of args <> [] ->
  exists n, fn_AVERAGE args = AOk n /\ (num_q n == qsum (qs (items_of args)) / inject_Z (Z.of_nat (length (items_of args))))%Q.
Proof.
  intros H Ne. unfold fn_AVERAGE, with_numbers. rewrite (numbers_of_numeric _ _ _ H). fold (items_of args).
  destruct (items_of args) as [|x r] eqn:E; [congruence|]. rewrite <- E. eexists; split; [reflexivity|]. apply convert_value.
Qed.
Theorem COUNT_definition args : fn_COUNT args = AOk (NI (Z.of_nat (length (flatten_args args)))).
Proof. reflexivity. Qed.
Theorem VAR_definition args : numeric_args args -> (2 <= length (items_of args))%nat ->
  exists n p, fn_VAR args = AOk n /\ fn_VARP args = AOk p /\
    (num_q n == sum_sq_dev (items_of args) / (qlen (items_of args) - 1))%Q /\
    (num_q p == sum_sq_dev (items_of args) / qlen (items_of args))%Q.
Proof.
  intros H L. unfold fn_VAR, fn_VARP, with_numbers. rewrite (numbers_of_numeric _ _ _ H). fold (items_of args).
  destruct (length (items_of args) <? 2)%nat eqn:E; [exfalso; lia|].
  destruct (items_of args) as [|x r] eqn:Ei; [cbn in L; lia|]. rewrite <- Ei.
  eexists; eexists; split; [reflexivity|]. split; [reflexivity|]. split; apply convert_value.
Qed.

(* MIN / MAX: an item, no item is smaller / larger *)
Lemma first_min_spec l m : first_min l = Some m -> In m l /\ forall x, In x l -> (num_q m <= num_q x)%Q.
Proof.
  revert m. induction l as [|x r IH]; intros m H; [discriminate|]. cbn [first_min] in H.
  destruct (first_min r) as [m'|] eqn:E.
  - destruct (IH m' eq_refl) as [Hin Hle]. destruct (q_ltb (num_q m') (num_q x)) eqn:C; inversion H; subst.
    + split; [right; exact Hin|]. intros y [<-|Hy]; [|apply Hle; exact Hy].
      unfold q_ltb in C. unfold Qle. lia.
    + split; [left; reflexivity|]. intros y [<-|Hy]; [apply Qle_refl|].
      eapply Qle_trans; [|apply Hle; exact Hy]. unfold q_ltb in C. unfold Qle. lia.
  - inversion H; subst. destruct r; [|cbn in E; destruct (first_min r); [destruct (q_ltb _ _)|]; discriminate].
    split; [left; reflexivity|]. intros y [<-|[]]. apply Qle_refl.
Qed.
Lemma first_max_spec l m : first_max l = Some m -> In m l /\ forall x, In x l -> (num_q x <= num_q m)%Q.
Proof.
  revert m. induction l as [|x r IH]; intros m H; [discriminate|]. cbn [first_max] in H.
  destruct (first_max r) as [m'|] eqn:E.
  - destruct (IH m' eq_refl) as [Hin Hle]. destruct (q_ltb (num_q x) (num_q m')) eqn:C; inversion H; subst.
    + split; [right; exact Hin|]. intros y [<-|Hy]; [|apply Hle; exact Hy].
      unfold q_ltb in C. unfold Qle. lia.
    + split; [left; reflexivity|]. intros y [<-|Hy]; [apply Qle_refl|].
      eapply Qle_trans; [apply Hle; exact Hy|]. unfold q_ltb in C. unfold Qle. lia.
  - inversion H; subst. destruct r; [|cbn in E; destruct (first_max r); [destruct (q_ltb _ _)|]; discriminate].
    split; [left; reflexivity|]. intros y [<-|[]]. apply Qle_refl.
Qed.
Theorem MIN_MAX_definition args : numeric_args args -> items_of args <> [] ->
  exists lo hi, fn_MIN args = AOk lo /\ fn_MAX args = AOk hi /\ In lo (items_of args) /\ In hi (items_of args) /\
    forall x, In x (items_of args) -> (num_q lo <= num_q x <= num_q hi)%Q.
Proof.
  intros H Ne. unfold fn_MIN, fn_MAX, with_numbers. rewrite (numbers_of_numeric _ _ _ H). fold (items_of args).
  destruct (first_min (items_of args)) as [lo|] eqn:A; [|destruct (items_of args); [congruence|cbn in A; destruct (first_min l); [destruct (q_ltb _ _)|]; discriminate]].
  destruct (first_max (items_of args)) as [hi|] eqn:B; [|destruct (items_of args); [congruence|cbn in B; destruct (first_max l); [destruct (q_ltb _ _)|]; discriminate]].
  destruct (first_min_spec _ _ A) as [I1 L1]. destruct (first_max_spec _ _ B) as [I2 L2].
  exists lo, hi. repeat split; auto.
Qed.

(* ---------- order-free: unchanged by reordering the items ---------- *)
Lemma qsum_perm l l' : Permutation l l' -> (qsum l == qsum l')%Q.
Proof.
  induction 1 as [|x l l' P IH|x y l|l l' l'' P1 IH1 P2 IH2]; cbn [qsum fold_right]; try reflexivity.
  - rewrite IH. reflexivity.
  - ring.
  - rewrite IH1. exact IH2.
Qed.
Lemma qprod_perm l l' : Permutation l l' -> (qprod l == qprod l')%Q.
Proof.
  induction 1 as [|x l l' P IH|x y l|l l' l'' P1 IH1 P2 IH2]; cbn [qprod fold_right]; try reflexivity.
  - rewrite IH. reflexivity.
  - ring.
  - rewrite IH1. exact IH2.
Qed.
Theorem sum_product_count_mean_order_free ns ns' : Permutation ns ns' ->
  (qsum (qs ns) == qsum (qs ns'))%Q /\ (qprod (qs ns) == qprod (qs ns'))%Q /\ length ns = length ns' /\
  (mean_q ns == mean_q ns')%Q.
Proof.
  intros P. assert (Permutation (qs ns) (qs ns')) as Pq by (apply Permutation_map; exact P).
  pose proof (qsum_perm _ _ Pq) as S. pose proof (Permutation_length P) as L. repeat split; auto using qprod_perm.
  unfold mean_q, qlen. rewrite S, L. reflexivity.
Qed.
Theorem variance_order_free ns ns' : Permutation ns ns' -> (sum_sq_dev ns == sum_sq_dev ns')%Q.
Proof.
  intros P. destruct (sum_product_count_mean_order_free ns ns' P) as (_ & _ & _ & M).
  unfold sum_sq_dev. transitivity (qsum (map (fun x => ((x - mean_q ns') * (x - mean_q ns'))%Q) (qs ns))).
  - clear P. induction (qs ns) as [|x r IH]; [reflexivity|]. cbn [map qsum fold_right]. rewrite IH, M. reflexivity.
  - apply qsum_perm. apply Permutation_map. apply Permutation_map. exact P.
Qed.
Theorem min_max_order_free ns ns' lo hi lo' hi' : Permutation ns ns' ->
  first_min ns = Some lo -> first_min ns' = Some lo' -> first_max ns = Some hi -> first_max ns' = Some hi' ->
  (num_q lo == num_q lo')%Q /\ (num_q hi == num_q hi')%Q.
Proof.
  intros P A A' B B'.
  destruct (first_min_spec _ _ A) as [I1 L1]. destruct (first_min_spec _ _ A') as [I1' L1'].
  destruct (first_max_spec _ _ B) as [I2 L2]. destruct (first_max_spec _ _ B') as [I2' L2'].
  split; apply Qle_antisym.
  - apply L1. eapply Permutation_in; [apply Permutation_sym; exact P|exact I1'].
  - apply L1'. eapply Permutation_in; [exact P|exact I1].
  - apply L2'. eapply Permutation_in; [exact P|exact I2].
  - apply L2. eapply Permutation_in; [apply Permutation_sym; exact P|exact I2'].
Qed.

(* MEDIAN / LARGE are read off the sorted arrangement of the items *)
Lemma insert_perm x l : Permutation (x :: l) (insert_num x l).
Proof.
  induction l as [|y r IH]; [reflexivity|]. cbn [insert_num]. destruct (q_ltb (num_q x) (num_q y)); [reflexivity|].
  rewrite perm_swap. apply perm_skip. exact IH.
Qed.
Definition num_le (a b : num) : Prop := (num_q a <= num_q b)%Q.
Lemma insert_sorted x l : Sorted.StronglySorted num_le l -> Sorted.StronglySorted num_le (insert_num x l).
Proof.
  induction 1 as [|y r S IH F]; [repeat constructor|]. cbn [insert_num]. destruct (q_ltb (num_q x) (num_q y)) eqn:C.
  - constructor; [constructor; assumption|]. constructor.
    + unfold num_le, q_ltb, Qle in *. lia.
    + rewrite Forall_forall in *. intros z Hz. specialize (F z Hz). unfold num_le, q_ltb, Qle in *.
      eapply Qle_trans; [|exact F]. unfold Qle. lia.
  - constructor; [exact IH|]. rewrite Forall_forall in *. intros z Hz.
    apply (Permutation_in _ (Permutation_sym (insert_perm x r))) in Hz. destruct Hz as [<-|Hz]; [|apply F; exact Hz].
    unfold num_le, q_ltb, Qle in *. lia.
Qed.
Theorem sort_nums_spec l : Permutation l (sort_nums l) /\ Sorted.StronglySorted num_le (sort_nums l).
Proof.
  unfold sort_nums. assert (forall acc, Sorted.StronglySorted num_le acc ->
    Permutation (acc ++ l) (fold_left (fun a x => insert_num x a) l acc) /\
    Sorted.StronglySorted num_le (fold_left (fun a x => insert_num x a) l acc)) as G.
  { induction l as [|x r IH]; intros acc S; cbn [fold_left]; [rewrite app_nil_r; split; [reflexivity|exact S]|].
    destruct (IH (insert_num x acc) (insert_sorted x acc S)) as [P S']. split; [|exact S'].
    eapply Permutation_trans; [|exact P]. eapply Permutation_trans; [apply Permutation_sym; apply Permutation_middle|].
    change (x :: acc ++ r) with ((x :: acc) ++ r). apply Permutation_app_tail. apply insert_perm. }
  destruct (G [] (Sorted.SSorted_nil _)) as [P S]. split; assumption.
Qed.

(* ---------- criteria ---------- *)
Lemma select1_spec c items sel : select1 c items = Some sel ->
  sel = filter (fun a => match crit_match c a with Some true => true | _ => false end) items /\
  Forall (fun a => crit_match c a <> None) items.
Proof.
  revert sel. induction items as [|a r IH]; intros sel H; [inversion H; split; [reflexivity|constructor]|].
  cbn [select1] in H. destruct (crit_match c a) as [b|] eqn:E; [|discriminate].
  destruct (select1 c r) as [rest|]; [|discriminate]. destruct (IH rest eq_refl) as [-> F]. inversion H; subst.
  split; [cbn [filter]; rewrite E; destruct b; reflexivity|constructor; [congruence|exact F]].
Qed.
Theorem SUMIF_COUNTIF_selected rng crit c sel : parse_criteria crit = c -> c <> CritBad -> select1 c (flatten rng) = Some sel ->
  fn_COUNTIF rng crit = AOk (NI (Z.of_nat (length sel))) /\
  fn_SUMIF rng crit = match nums_strict sel with Some ns => AOk (sum_num ns) | None => AExc end /\
  sel = filter (fun a => match crit_match c a with Some true => true | _ => false end) (flatten rng).
Proof.
  intros Hc Hb Hs. unfold fn_COUNTIF, fn_SUMIF. rewrite Hc. destruct (select1_spec _ _ _ Hs) as [E _].
  destruct c; try congruence; rewrite Hs; repeat split; try reflexivity; exact E.
Qed.
Theorem empty_selection rng crit c : parse_criteria crit = c -> c <> CritBad -> select1 c (flatten rng) = Some [] ->
  fn_SUMIF rng crit = AOk (NI 0) /\ fn_COUNTIF rng crit = AOk (NI 0) /\
  (flatten rng <> [] -> fn_AVERAGEIF rng crit = AExc).
Proof.
  intros Hc Hb Hs. unfold fn_SUMIF, fn_COUNTIF, fn_AVERAGEIF. rewrite Hc.
  destruct c; try congruence; rewrite ?Hs; repeat split; try reflexivity; intros Hne;
    destruct (flatten rng) eqn:Ef; try congruence; rewrite Hs; reflexivity.
Qed.
Lemma select_rows_spec pairs : forall items i sel, select_rows pairs items i = Some sel ->
  forall a, In a sel -> In a items.
Proof.
  induction items as [|x r IH]; intros i sel H a Ha; [inversion H; subst; contradiction|].
  cbn [select_rows] in H. destruct (row_ok pairs i) as [b|]; [|discriminate].
  destruct (select_rows pairs r (S i)) as [rest|] eqn:E; [|discriminate]. inversion H; subst.
  destruct b; [destruct Ha as [<-|Ha]; [left; reflexivity|right; eapply IH; eauto]|right; eapply IH; eauto].
Qed.
Theorem row_ok_all pairs i : row_ok pairs i = Some true <->
  Forall (fun p => exists a, nth_error (fst p) i = Some a /\ crit_match (snd p) a = Some true) pairs.
Proof.
  induction pairs as [|[rng c] rest IH]; cbn [row_ok]; [split; [constructor|reflexivity]|].
  destruct (nth_error rng i) as [a|] eqn:E.
  - destruct (crit_match c a) as [[|]|] eqn:M.
    + rewrite IH. split; [intros F; constructor; [exists a; auto|exact F]|inversion 1; assumption].
    + split; [discriminate|]. inversion 1 as [|? ? (a' & Ea & Ma) ?]; subst. cbn in *. congruence.
    + split; [discriminate|]. inversion 1 as [|? ? (a' & Ea & Ma) ?]; subst. cbn in *. congruence.
  - split; [discriminate|]. inversion 1 as [|? ? (a' & Ea & Ma) ?]; subst. cbn in *. congruence.
Qed.
Theorem IFS_empty_selection items pairs : has_bad pairs = false ->
  Forall (fun p => length (fst p) = length items) pairs -> select_rows pairs items 0 = Some [] ->
  fn_SUMIFS items pairs = AOk (NI 0) /\ fn_MAXIFS items pairs = AOk (NI 0) /\ fn_AVERAGEIFS items pairs = AExc.
Proof.
  intros Hb Hl Hs. unfold fn_SUMIFS, fn_MAXIFS, fn_AVERAGEIFS. rewrite Hb, Hs.
  assert (existsb (fun p => negb (length (fst p) =? length items)%nat) pairs = false) as ->.
  { apply Bool.not_true_is_false. intros C. apply existsb_exists in C. destruct C as (p & Hp & C).
    rewrite Forall_forall in Hl. specialize (Hl p Hp). rewrite Hl, Nat.eqb_refl in C. discriminate. }
  repeat split; reflexivity.
Qed.
(* the three criterion forms *)
Theorem criteria_forms :
  parse_criteria [62; 53] = CritOp CGt (VInt 5) /\ parse_criteria [60; 62; 45; 50] = CritOp CNe (VInt (-2)) /\
  parse_criteria [62; 61; 49; 46; 53] = CritOp CGe (VFlt (15 # 10)) /\ parse_criteria [61; 97] = CritOp CEq (VText [97]) /\
  parse_criteria [55] = CritEq (VInt 7) /\ parse_criteria [97; 42] = CritGlob [97; 42] /\ parse_criteria [97; 98] = CritEq (VText [97; 98]).
Proof. repeat split; reflexivity. Qed.
