(* C05: the choice of "," ";" or "\" between the arguments of a call - independently at every call and every array literal of a formula, at any
   depth - never changes the outcome: the record and the events returned by Parser.parse are those of the expression with
   its separators erased (Proofs/LRfull.v covers the three separators). *)
From HX Require Import Model.Base Model.Lexer Model.Value Model.Operators Model.Interp Proofs.LRcert Proofs.LRvalue Proofs.LRfull.
From Coq Require Import Lia.
Open Scope Z_scope.

Fixpoint erase (e : expr) : expr :=
  match e with
  | XCall _ n args => XCall SComma n (map erase args)
  | XArr _ items => XArr SComma (map erase items)
  | XArr2 _ r1 r2 => XArr2 SComma (map erase r1) (map erase r2)
  | XNeg e => XNeg (erase e)
  | XBin b l r => XBin b (erase l) (erase r)
  | XPar e => XPar (erase e)
  | other => other
  end.
Lemma xvals_map h (args : list expr) : Forall (fun a => xval h (erase a) = xval h a) args ->
  xvals (xval h) (map erase args) = xvals (xval h) args.
Proof.
  induction 1 as [|a l Ha Hl IH]; [reflexivity|]. cbn [map]. rewrite !xvals_cons, Ha.
  apply ebind_ext. intros v. rewrite IH. reflexivity.
Qed.
Theorem separators_erased h : forall e, xval h (erase e) = xval h e.
Proof.
  induction e as [d|ip fp|fp|pn|pa pb|str|xe|n|k lab|k1 l1 k2 l2|sp name args IHargs|sp items IHitems|rs row1 row2 IHr1 IHr2|e IH|b l r IHl IHr|e IH] using expr_ind';
    cbn [erase xval]; try reflexivity.
  - rewrite (xvals_map h args IHargs). reflexivity.
  - rewrite (xvals_map h items IHitems). reflexivity.
  - rewrite (xvals_map h row1 IHr1). apply ebind_ext. intros a. rewrite (xvals_map h row2 IHr2). reflexivity.
  - rewrite IH. reflexivity.
  - rewrite IHl. apply ebind_ext. intros lv. rewrite IHr. reflexivity.
  - exact IH.
Qed.
Theorem separators_never_change_outcome h e e' s s' : erase e = erase e' ->
  s <> [] -> lex s = LexOk (xtoks e) -> xwp e -> s' <> [] -> lex s' = LexOk (xtoks e') -> xwp e' ->
  parse_formula h s = parse_formula h s'.
Proof.
  intros E Hs Hl Hw Hs' Hl' Hw'. rewrite (parse_formula_expr h s e Hs Hl Hw), (parse_formula_expr h s' e' Hs' Hl' Hw').
  rewrite <- (separators_erased h e), <- (separators_erased h e'), E. reflexivity.
Qed.
(* non-vacuity:  F(1;G(2\3),x)  and  F(1,G(2,3),x)  *)
Example separators_example :
  let e := XCall SSemi [70] [XNum [49]; XCall SBack [71] [XNum [50]; XNum [51]]; XVar [120]] in
  let e' := XCall SComma [70] [XNum [49]; XCall SComma [71] [XNum [50]; XNum [51]]; XVar [120]] in
  erase e = erase e' /\ xwp e /\ xwp e' /\
  lex [70;40;49;59;71;40;50;92;51;41;59;120;41] = LexOk (xtoks e) /\ lex [70;40;49;44;71;40;50;44;51;41;44;120;41] = LexOk (xtoks e').
Proof. cbn [erase map]. repeat split; try exact I; vm_compute; reflexivity. Qed.

(* an array literal written with one separator kind is the flat list of the values of its items, in order - any number
   of items, each an arbitrary expression of the reference grammar, with any of the three separators *)
Theorem array_is_flat_list h sp items vs evs : xvals (xval h) items = (ROk vs, evs) ->
  xval h (XArr sp items) = (ROk (VList vs), evs).
Proof. intros H. cbn [xval]. rewrite H. cbn [ebind]. rewrite app_nil_r. reflexivity. Qed.
Theorem array_literal_parsed h s sp items vs evs : s <> [] -> lex s = LexOk (xtoks (XArr sp items)) -> xwp (XArr sp items) ->
  xvals (xval h) items = (ROk vs, evs) -> parse_formula h s = (PResult (VList vs), evs).
Proof.
  intros Hs Hl Hw H. rewrite (parse_formula_expr h s _ Hs Hl Hw), (array_is_flat_list h sp items vs evs H). reflexivity.
Qed.
Example array_example :
  let e := XArr SBack [XNum [49]; XBin Plus (XNum [50]) (XNum [51]); XArr SSemi [XStr [34;97;34]; XVar [120]]] in
  xwp e /\ lex [123;49;92;50;43;51;92;123;34;97;34;59;120;125;125] = LexOk (xtoks e).
Proof. split; [cbn; tauto|vm_compute; reflexivity]. Qed.

(* ... and one with ";" between two comma- or backslash-separated rows is the list of those two rows *)
Theorem array_two_rows h rs r1 r2 a ea b eb : xvals (xval h) r1 = (ROk a, ea) -> xvals (xval h) r2 = (ROk b, eb) ->
  xval h (XArr2 rs r1 r2) = (ROk (VList [VList a; VList b]), ea ++ eb).
Proof. intros H1 H2. cbn [xval]. rewrite H1. cbn [ebind]. rewrite H2. cbn [ebind]. rewrite app_nil_r. reflexivity. Qed.
Theorem array_two_rows_parsed h s rs r1 r2 a ea b eb : s <> [] -> lex s = LexOk (xtoks (XArr2 rs r1 r2)) -> xwp (XArr2 rs r1 r2) ->
  xvals (xval h) r1 = (ROk a, ea) -> xvals (xval h) r2 = (ROk b, eb) -> parse_formula h s = (PResult (VList [VList a; VList b]), ea ++ eb).
Proof.
  intros Hs Hl Hw H1 H2. rewrite (parse_formula_expr h s _ Hs Hl Hw), (array_two_rows h rs r1 r2 a ea b eb H1 H2). reflexivity.
Qed.
Example array_two_rows_example :
  let e := XArr2 SBack [XNum [49]; XVar [120]] [XNum [51]; XNum [52]; XNeg (XNum [53])] in
  xwp e /\ lex [123;49;92;120;59;51;92;52;92;45;53;125] = LexOk (xtoks e).
Proof. split; [cbn; repeat split; try discriminate; lia|vm_compute; reflexivity]. Qed.
