(* C16: what the translated bodies (Gen/RealFns.v) compute over the reals, their domains and the defining identities. *)
From HX Require Import Model.RealModel Gen.RealFns.
From Coq Require Import Lra Lia.
Open Scope R_scope.

Ltac runit := unfold run; cbv delta [body_ABS body_SQRT body_EXP body_LN body_LOG body_LOG10 body_POWER body_PI body_RADIANS body_DEGREES body_SIN body_COS body_TAN body_COT body_ASIN body_ACOS body_ATAN body_ACOT body_SINH body_COSH body_TANH body_ASINH body_ACOSH body_ATANH body_ACOTH body_ATAN2 body_PV]; cbn [b_guards b_final guards finish ev evc cmp obind nth_error call1 call2].
Ltac dec := repeat match goal with
  | |- context [Rle_dec ?a ?b] => destruct (Rle_dec a b)
  | |- context [Rlt_dec ?a ?b] => destruct (Rlt_dec a b)
  | |- context [Req_EM_T ?a ?b] => destruct (Req_EM_T a b)
  end.

(* ---------- total functions ---------- *)
Theorem SIN_value x : run body_SIN [x] = OVal (sin x). Proof. reflexivity. Qed.
Theorem COS_value x : run body_COS [x] = OVal (cos x). Proof. reflexivity. Qed.
Theorem ATAN_value x : run body_ATAN [x] = OVal (atan x). Proof. reflexivity. Qed.
Theorem SINH_value x : run body_SINH [x] = OVal (sinh x). Proof. reflexivity. Qed.
Theorem COSH_value x : run body_COSH [x] = OVal (cosh x). Proof. reflexivity. Qed.
Theorem TANH_value x : run body_TANH [x] = OVal (tanh x). Proof. reflexivity. Qed.
Theorem ASINH_value x : run body_ASINH [x] = OVal (arcsinh x). Proof. reflexivity. Qed.
Theorem ABS_value x : run body_ABS [x] = OVal (Rabs x). Proof. reflexivity. Qed.
Theorem EXP_value x : run body_EXP [x] = OVal (exp x). Proof. reflexivity. Qed.
Theorem PI_value : run body_PI [] = OVal PI. Proof. reflexivity. Qed.
Theorem RADIANS_value x : run body_RADIANS [x] = OVal (x * PI / 180). Proof. runit. dec; try reflexivity; exfalso; lra. Qed.
Theorem DEGREES_value x : run body_DEGREES [x] = OVal (x * 180 / PI).
Proof. runit. assert (PI <> 0) by (pose proof PI_RGT_0; lra). dec; try reflexivity; contradiction. Qed.

(* ---------- domains: a value inside, an error - never a number - outside ---------- *)
Theorem SQRT_spec x : run body_SQRT [x] = if Rle_dec 0 x then OVal (sqrt x) else ORaise.
Proof. runit. dec; reflexivity. Qed.
Theorem LN_spec x : run body_LN [x] = if Rlt_dec 0 x then OVal (ln x) else ORaise.
Proof. runit. dec; reflexivity. Qed.
Theorem ASIN_spec x : run body_ASIN [x] = if Rle_dec (-1) x then (if Rle_dec x 1 then OVal (asin x) else ORaise) else ORaise.
Proof. runit. dec; reflexivity. Qed.
Theorem ACOS_spec x : run body_ACOS [x] = if Rle_dec (-1) x then (if Rle_dec x 1 then OVal (acos x) else ORaise) else ORaise.
Proof. runit. dec; reflexivity. Qed.
Theorem ATANH_spec x : run body_ATANH [x] = if Rlt_dec (-1) x then (if Rlt_dec x 1 then OVal (atanh_r x) else ORaise) else ORaise.
Proof. runit. dec; reflexivity. Qed.
Theorem TAN_spec x : run body_TAN [x] = if Req_EM_T (cos x) 0 then ORaise else OVal (sin x / cos x).
Proof. runit. dec; reflexivity. Qed.
Theorem COT_spec x : run body_COT [x] = if Req_EM_T (sin x) 0 then ORaise else OVal (cos x / sin x).
Proof. runit. dec; reflexivity. Qed.
Theorem ACOT_spec x : run body_ACOT [x] = if Req_EM_T x 0 then OVal (PI / 2) else OVal (atan (1 / x)).
Proof.
  runit. unfold b_eq. change (IZR 0) with 0. change (IZR 1) with 1. change (IZR 2) with 2.
  destruct (Req_EM_T x 0) as [E|E]; cbn [finish ev obind].
  - destruct (Req_EM_T 2 0); [lra|reflexivity].
  - cbn [guards finish ev obind nth_error call1]. destruct (Req_EM_T x 0); [contradiction|reflexivity].
Qed.
Theorem LOG_spec x b : run body_LOG [x; b] =
  if Rlt_dec 0 x then (if Rlt_dec 0 b then (if Req_EM_T (ln b) 0 then ORaise else OVal (ln x / ln b)) else ORaise) else ORaise.
Proof. runit. dec; reflexivity. Qed.
Theorem LOG10_spec x : run body_LOG10 [x] = if Rlt_dec 0 x then OVal (ln x / ln 10) else ORaise.
Proof.
  runit. change (IZR 10) with 10. assert (ln 10 <> 0) by (assert (0 < ln 10); [rewrite <- ln_1; apply ln_increasing; lra|lra]).
  dec; try reflexivity; try contradiction; exfalso; lra.
Qed.
(* ACOSH is written out as ln (x + sqrt (x*x - 1)): defined exactly for x >= 1 *)
Theorem ACOSH_spec x : run body_ACOSH [x] = if Rle_dec 1 x then OVal (acosh_r x) else ORaise.
Proof.
  runit. change (IZR 1) with 1. destruct (Rle_dec 0 (x * x - 1)) as [H|H]; cbn [obind call1].
  - destruct (Rlt_dec 0 (x + sqrt (x * x - 1))) as [P|P]; destruct (Rle_dec 1 x) as [Q|Q]; try reflexivity.
    + exfalso. assert (x <= -1).
      { destruct (Rle_dec x (-1)); [assumption|]. exfalso. assert (0 < (1 - x) * (1 + x)) by (apply Rmult_lt_0_compat; lra). assert ((1 - x) * (1 + x) = 1 - x * x) by ring. lra. }
      assert (sqrt (x * x - 1) < - x).
      { rewrite <- (sqrt_Rsqr (- x)) by lra. apply sqrt_lt_1; unfold Rsqr; nra. } lra.
    + exfalso. pose proof (sqrt_pos (x * x - 1)). lra.
  - destruct (Rle_dec 1 x); [exfalso; assert (1 * 1 <= x * x) by (apply Rmult_le_compat; lra); lra|reflexivity].
Qed.
(* ACOTH is written out as 0.5 * ln ((x+1)/(x-1)): defined exactly for |x| > 1 *)
Theorem ACOTH_spec x : run body_ACOTH [x] =
  if Rlt_dec 1 (Rabs x) then OVal (1 / 2 * ln ((x + 1) / (x - 1))) else ORaise.
Proof.
  runit. change (IZR 1) with 1. change (IZR 2) with 2.
  destruct (Req_EM_T (x - 1) 0) as [E|E]; cbn [obind call1].
  - destruct (Rlt_dec 1 (Rabs x)) as [A|A]; [|reflexivity]. exfalso. assert (x = 1) by lra. subst. rewrite Rabs_R1 in A. lra.
  - destruct (Rlt_dec 0 ((x + 1) / (x - 1))) as [P|P]; destruct (Rlt_dec 1 (Rabs x)) as [A|A]; try reflexivity; exfalso.
    + apply A. unfold Rabs. destruct (Rcase_abs x).
      * assert (x - 1 < 0) by lra. assert (x + 1 < 0). { destruct (Rlt_dec (x + 1) 0); [assumption|]. exfalso. assert ((x + 1) / (x - 1) <= 0). { unfold Rdiv. assert (/ (x - 1) < 0) by (apply Rinv_lt_0_compat; lra). nra. } lra. } lra.
      * destruct (Rlt_dec 1 x); [assumption|]. exfalso. assert (x - 1 < 0) by lra. assert ((x + 1) / (x - 1) <= 0). { unfold Rdiv. assert (/ (x - 1) < 0) by (apply Rinv_lt_0_compat; lra). nra. } lra.
    + apply P. unfold Rabs in A. destruct (Rcase_abs x).
      * assert (x - 1 < 0) by lra. assert (x + 1 < 0) by lra. unfold Rdiv. assert (/ (x - 1) < 0) by (apply Rinv_lt_0_compat; lra). nra.
      * apply Rdiv_lt_0_compat; lra.
Qed.

(* ---------- POWER, ATAN2, PV ---------- *)
Theorem POWER_spec x y : run body_POWER [x; y] = match pow_py x y with Some v => OVal v | None => ORaise end.
Proof. runit. destruct (pow_py x y); reflexivity. Qed.
Theorem POWER_positive_base x y : 0 < x -> run body_POWER [x; y] = OVal (Rpower x y).
Proof. intros H. rewrite POWER_spec. unfold pow_py. destruct (Rlt_dec 0 x); [reflexivity|contradiction]. Qed.
Theorem ATAN2_spec x y : run body_ATAN2 [x; y] =
  if Req_EM_T x 0 then (if Req_EM_T y 0 then OErr 1 else OVal (atan2_r y x)) else OVal (atan2_r y x).
Proof.
  runit. unfold b_eq. change (IZR 0) with 0.
  destruct (Req_EM_T x 0); [destruct (Req_EM_T y 0)|]; reflexivity.
Qed.
(* #DIV/0! exactly at the origin *)
Corollary ATAN2_error_only_at_origin x y : is_error (run body_ATAN2 [x; y]) <-> (x = 0 /\ y = 0).
Proof. rewrite ATAN2_spec. destruct (Req_EM_T x 0); [destruct (Req_EM_T y 0)|]; cbn; tauto. Qed.

Lemma hyp_pos t : 0 < sqrt (1 + Rsqr t).
Proof. apply sqrt_lt_R0. unfold Rsqr. nra. Qed.
Lemma norm_factor x y : 0 < x -> sqrt (x * x + y * y) = x * sqrt (1 + Rsqr (y / x)).
Proof.
  intros H. transitivity (sqrt (x * x * (1 + Rsqr (y / x)))); [f_equal; unfold Rsqr; field; lra|].
  rewrite sqrt_mult by (unfold Rsqr; nra). rewrite sqrt_square by lra. reflexivity.
Qed.
Lemma norm_factor_neg x y : x < 0 -> sqrt (x * x + y * y) = - x * sqrt (1 + Rsqr (y / x)).
Proof.
  intros H. transitivity (sqrt (- x * - x * (1 + Rsqr (y / x)))); [f_equal; unfold Rsqr; field; lra|].
  rewrite sqrt_mult by (unfold Rsqr; nra). rewrite sqrt_square by lra. reflexivity.
Qed.
(* ATAN2(x, y) is the angle of the point (x, y) *)
Theorem ATAN2_is_the_angle x y : ~ (x = 0 /\ y = 0) ->
  let th := atan2_r y x in let r := sqrt (x * x + y * y) in
  x = r * cos th /\ y = r * sin th /\ - PI < th <= PI.
Proof.
  intros Hne th r. subst th r. unfold atan2_r. pose proof PI_RGT_0 as HPI.
  destruct (Rlt_dec 0 x) as [Hx|Hx].
  - pose proof (atan_bound (y / x)). pose proof (hyp_pos (y / x)) as Hs.
    rewrite cos_atan, sin_atan, (norm_factor x y Hx). split; [field; lra|]. split; [field; lra|lra].
  - destruct (Rlt_dec x 0) as [Hx'|Hx'].
    + pose proof (atan_bound (y / x)) as B. pose proof (hyp_pos (y / x)) as Hs. rewrite (norm_factor_neg x y Hx').
      destruct (Rle_dec 0 y) as [Hy|Hy].
      * rewrite neg_cos, neg_sin, cos_atan, sin_atan. split; [field; lra|]. split; [field; lra|].
        assert (atan (y / x) <= 0). { destruct (Req_EM_T y 0) as [->|Hy0]; [unfold Rdiv; rewrite Rmult_0_l, atan_0; lra|].
          assert (y / x < 0) by (unfold Rdiv; assert (/ x < 0) by (apply Rinv_lt_0_compat; lra); nra).
          pose proof (atan_increasing _ _ H). rewrite atan_0 in H0. lra. }
        lra.
      * replace (atan (y / x) - PI) with (- (PI - atan (y / x))) by ring. rewrite cos_neg, sin_neg.
        replace (PI - atan (y / x)) with (- atan (y / x) + PI) by ring. rewrite neg_cos, neg_sin, cos_neg, sin_neg, cos_atan, sin_atan.
        split; [field; lra|]. split; [field; lra|].
        assert (0 < atan (y / x)). { assert (0 < y / x) by (unfold Rdiv; assert (/ x < 0) by (apply Rinv_lt_0_compat; lra); nra).
          pose proof (atan_increasing _ _ H). rewrite atan_0 in H0. lra. }
        lra.
    + assert (x = 0) by lra. subst x. replace (0 * 0 + y * y) with (y * y) by ring.
      destruct (Rlt_dec 0 y) as [Hy|Hy].
      * rewrite cos_PI2, sin_PI2, sqrt_square by lra. split; [ring|]. split; [ring|lra].
      * destruct (Rlt_dec y 0) as [Hy'|Hy']; [|exfalso; apply Hne; split; [reflexivity|lra]].
        rewrite cos_neg, sin_neg, cos_PI2, sin_PI2. replace (y * y) with (- y * - y) by ring. rewrite sqrt_square by lra.
        split; [ring|]. split; [ring|lra].
Qed.

(* PV satisfies the annuity equation (its linear form at rate 0) *)
Theorem PV_annuity_equation rate n pmt fv t : -1 < rate -> rate <> 0 ->
  exists pv, run body_PV [rate; n; pmt; fv; t] = OVal pv /\
    pv * Rpower (1 + rate) n + pmt * (1 + rate * t) * ((Rpower (1 + rate) n - 1) / rate) + fv = 0.
Proof.
  intros H1 H0. runit. unfold b_eq, pow_py. change (IZR 0) with 0. change (IZR 1) with 1.
  destruct (Req_EM_T rate 0); [contradiction|]. cbn [guards finish ev obind nth_error].
  destruct (Rlt_dec 0 (1 + rate)); [|exfalso; lra]. cbn [obind].
  destruct (Req_EM_T rate 0); [contradiction|]. cbn [obind].
  assert (Rpower (1 + rate) n <> 0) as HP by (unfold Rpower; pose proof (exp_pos (n * ln (1 + rate))); lra).
  destruct (Req_EM_T (Rpower (1 + rate) n) 0); [contradiction|].
  eexists. split; [reflexivity|]. field. split; assumption.
Qed.
Theorem PV_rate_zero n pmt fv t : exists pv, run body_PV [0; n; pmt; fv; t] = OVal pv /\ pv + pmt * n + fv = 0.
Proof.
  runit. unfold b_eq. change (IZR 0) with 0. destruct (Req_EM_T 0 0); [|exfalso; lra]. cbn [finish ev obind nth_error].
  eexists. split; [reflexivity|]. ring.
Qed.

(* ---------- the defining identities, on the translated bodies ---------- *)
Definition val (o : outcome) : R := match o with OVal r => r | _ => 0 end.
Theorem sin2_plus_cos2 x : val (run body_SIN [x]) ^ 2 + val (run body_COS [x]) ^ 2 = 1.
Proof. rewrite SIN_value, COS_value. cbn [val]. pose proof (sin2_cos2 x) as H. unfold Rsqr in H. lra. Qed.
Theorem TAN_is_SIN_over_COS x : cos x <> 0 ->
  run body_TAN [x] = OVal (val (run body_SIN [x]) / val (run body_COS [x])).
Proof. intros H. rewrite TAN_spec, SIN_value, COS_value. destruct (Req_EM_T (cos x) 0); [contradiction|reflexivity]. Qed.
Theorem COT_is_one_over_TAN x : sin x <> 0 -> cos x <> 0 ->
  run body_COT [x] = OVal (1 / val (run body_TAN [x])).
Proof.
  intros Hs Hc. rewrite COT_spec, TAN_spec. destruct (Req_EM_T (sin x) 0); [contradiction|]. destruct (Req_EM_T (cos x) 0); [contradiction|].
  cbn [val]. f_equal. field. split; assumption.
Qed.
Theorem EXP_LN x : 0 < x -> run body_EXP [val (run body_LN [x])] = OVal x.
Proof. intros H. rewrite LN_spec. destruct (Rlt_dec 0 x); [|contradiction]. cbn [val]. rewrite EXP_value, exp_ln by assumption. reflexivity. Qed.
Theorem LN_EXP x : run body_LN [val (run body_EXP [x])] = OVal x.
Proof. rewrite EXP_value. cbn [val]. rewrite LN_spec. destruct (Rlt_dec 0 (exp x)) as [|N]; [rewrite ln_exp; reflexivity|exfalso; apply N, exp_pos]. Qed.
Theorem LOG_is_LN_over_LN x b : 0 < x -> 0 < b -> b <> 1 ->
  run body_LOG [x; b] = OVal (val (run body_LN [x]) / val (run body_LN [b])).
Proof.
  intros Hx Hb Hb1. rewrite LOG_spec, !LN_spec. destruct (Rlt_dec 0 x); [|contradiction]. destruct (Rlt_dec 0 b); [|contradiction].
  destruct (Req_EM_T (ln b) 0) as [E|E]; [|reflexivity]. exfalso. apply Hb1. rewrite <- ln_1 in E. apply ln_inv in E; lra.
Qed.
Theorem SQRT_squared x : 0 <= x -> val (run body_SQRT [x]) * val (run body_SQRT [x]) = x.
Proof. intros H. rewrite SQRT_spec. destruct (Rle_dec 0 x); [|contradiction]. cbn [val]. apply sqrt_def, H. Qed.
Theorem DEGREES_RADIANS x : run body_DEGREES [val (run body_RADIANS [x])] = OVal x.
Proof. rewrite RADIANS_value. cbn [val]. rewrite DEGREES_value. f_equal. field. pose proof PI_RGT_0. lra. Qed.

(* each inverse undoes its function on the principal range *)
Theorem ASIN_SIN x : - (PI / 2) <= x <= PI / 2 -> run body_ASIN [val (run body_SIN [x])] = OVal x.
Proof.
  intros H. rewrite SIN_value. cbn [val]. rewrite ASIN_spec. pose proof (SIN_bound x) as [B1 B2].
  destruct (Rle_dec (-1) (sin x)); [|contradiction]. destruct (Rle_dec (sin x) 1); [|contradiction]. rewrite asin_sin by assumption. reflexivity.
Qed.
Theorem SIN_ASIN y : -1 <= y <= 1 -> run body_SIN [val (run body_ASIN [y])] = OVal y.
Proof.
  intros [H1 H2]. rewrite ASIN_spec. destruct (Rle_dec (-1) y); [|contradiction]. destruct (Rle_dec y 1); [|contradiction].
  cbn [val]. rewrite SIN_value, sin_asin by lra. reflexivity.
Qed.
Theorem ACOS_COS x : 0 <= x <= PI -> run body_ACOS [val (run body_COS [x])] = OVal x.
Proof.
  intros H. rewrite COS_value. cbn [val]. rewrite ACOS_spec. pose proof (COS_bound x) as [B1 B2].
  destruct (Rle_dec (-1) (cos x)); [|contradiction]. destruct (Rle_dec (cos x) 1); [|contradiction]. rewrite acos_cos by assumption. reflexivity.
Qed.
Theorem COS_ACOS y : -1 <= y <= 1 -> run body_COS [val (run body_ACOS [y])] = OVal y.
Proof.
  intros [H1 H2]. rewrite ACOS_spec. destruct (Rle_dec (-1) y); [|contradiction]. destruct (Rle_dec y 1); [|contradiction].
  cbn [val]. rewrite COS_value, cos_acos by lra. reflexivity.
Qed.
Theorem ATAN_TAN x : - (PI / 2) < x < PI / 2 -> run body_ATAN [val (run body_TAN [x])] = OVal x.
Proof.
  intros H. rewrite TAN_spec. assert (0 < cos x) by (apply cos_gt_0; lra).
  destruct (Req_EM_T (cos x) 0); [exfalso; lra|]. cbn [val]. rewrite ATAN_value. fold (tan x). rewrite atan_tan by assumption. reflexivity.
Qed.
Theorem TAN_ATAN y : run body_TAN [val (run body_ATAN [y])] = OVal y.
Proof.
  rewrite ATAN_value. cbn [val]. rewrite TAN_spec. pose proof (atan_bound y). assert (0 < cos (atan y)) by (apply cos_gt_0; lra).
  destruct (Req_EM_T (cos (atan y)) 0); [exfalso; lra|]. fold (tan (atan y)). rewrite tan_atan. reflexivity.
Qed.
Theorem ASINH_SINH x : run body_ASINH [val (run body_SINH [x])] = OVal x.
Proof. rewrite SINH_value. cbn [val]. rewrite ASINH_value, arcsinh_sinh. reflexivity. Qed.
Theorem SINH_ASINH y : run body_SINH [val (run body_ASINH [y])] = OVal y.
Proof. rewrite ASINH_value. cbn [val]. rewrite SINH_value, sinh_arcsinh. reflexivity. Qed.

Lemma cosh_sinh_sq x : cosh x * cosh x - 1 = sinh x * sinh x.
Proof. unfold cosh, sinh. assert (exp x * exp (- x) = 1) by (rewrite <- exp_plus; replace (x + - x) with 0 by ring; apply exp_0). nra. Qed.
Lemma sinh_nonneg x : 0 <= x -> 0 <= sinh x.
Proof. intros [H|<-]; [pose proof (sinh_lt _ _ H) as L; rewrite sinh_0 in L; lra|rewrite sinh_0; lra]. Qed.
Lemma cosh_ge_1 x : 1 <= cosh x.
Proof.
  unfold cosh. assert (exp x * exp (- x) = 1) by (rewrite <- exp_plus; replace (x + - x) with 0 by ring; apply exp_0).
  pose proof (exp_pos x). pose proof (exp_pos (- x)). set (a := exp x) in *. set (b := exp (- x)) in *.
  assert (0 <= (a - b) * (a - b)) by (pose proof (Rle_0_sqr (a - b)) as Q; unfold Rsqr in Q; exact Q). destruct (Rle_dec 2 (a + b)); [lra|]. exfalso.
  assert ((a + b) * (a + b) < 2 * 2) by (apply Rmult_le_0_lt_compat; lra). nra.
Qed.
Theorem ACOSH_COSH x : 0 <= x -> run body_ACOSH [val (run body_COSH [x])] = OVal x.
Proof.
  intros H. rewrite COSH_value. cbn [val]. rewrite ACOSH_spec. destruct (Rle_dec 1 (cosh x)) as [|N]; [|exfalso; apply N, cosh_ge_1].
  f_equal. unfold acosh_r. rewrite cosh_sinh_sq, sqrt_square by (apply sinh_nonneg, H).
  replace (cosh x + sinh x) with (exp x) by (unfold cosh, sinh; field). apply ln_exp.
Qed.
Theorem COSH_ACOSH y : 1 <= y -> run body_COSH [val (run body_ACOSH [y])] = OVal y.
Proof.
  intros H. rewrite ACOSH_spec. destruct (Rle_dec 1 y); [|contradiction]. cbn [val]. rewrite COSH_value. f_equal.
  unfold cosh, acosh_r. set (s := sqrt (y * y - 1)). assert (0 <= s) by apply sqrt_pos.
  assert (s * s = y * y - 1) by (apply sqrt_def; nra). assert (0 < y + s) by lra.
  rewrite exp_Ropp, exp_ln by assumption. field_simplify; [|lra].
  assert (y ^ 2 + 2 * y * s + s ^ 2 + 1 = y * (2 * y + 2 * s)) as E by (replace (s ^ 2) with (s * s) by ring; rewrite H1; ring).
  rewrite E. field. lra.
Qed.
Lemma tanh_range x : -1 < tanh x < 1.
Proof.
  unfold tanh, sinh, cosh. pose proof (exp_pos x). pose proof (exp_pos (- x)).
  split; [apply (Rmult_lt_reg_r ((exp x + exp (- x)) / 2)); [lra|field_simplify; lra]|apply (Rmult_lt_reg_r ((exp x + exp (- x)) / 2)); [lra|field_simplify; lra]].
Qed.
Theorem ATANH_TANH x : run body_ATANH [val (run body_TANH [x])] = OVal x.
Proof.
  rewrite TANH_value. cbn [val]. rewrite ATANH_spec. pose proof (tanh_range x) as [T1 T2].
  destruct (Rlt_dec (-1) (tanh x)); [|contradiction]. destruct (Rlt_dec (tanh x) 1); [|contradiction]. f_equal.
  unfold atanh_r. pose proof (exp_pos x). pose proof (exp_pos (- x)).
  replace ((1 + tanh x) / (1 - tanh x)) with (exp x * exp x).
  - rewrite ln_mult, ln_exp by assumption. field.
  - unfold tanh, sinh, cosh. assert (exp x * exp (- x) = 1) as E by (rewrite <- exp_plus; replace (x + - x) with 0 by ring; apply exp_0).
    transitivity (exp x / exp (- x)).
    + apply (Rmult_eq_reg_r (exp (- x))); [|lra]. replace (exp x / exp (- x) * exp (- x)) with (exp x) by (field; lra). rewrite Rmult_assoc, E. ring.
    + field. repeat split; lra.
Qed.

(* ---------- further inverse pairs ---------- *)
Theorem TANH_ATANH y : -1 < y < 1 -> run body_TANH [val (run body_ATANH [y])] = OVal y.
Proof.
  intros [H1 H2]. rewrite ATANH_spec. destruct (Rlt_dec (-1) y); [|contradiction]. destruct (Rlt_dec y 1); [|contradiction].
  cbn [val]. rewrite TANH_value. f_equal. unfold atanh_r. set (q := (1 + y) / (1 - y)).
  assert (0 < q) as Hq by (unfold q; apply Rdiv_lt_0_compat; lra).
  set (z := / 2 * ln q). assert (exp z * exp z = q) as E.
  { rewrite <- exp_plus. replace (z + z) with (ln q) by (unfold z; field). apply exp_ln, Hq. }
  assert (exp z * exp (- z) = 1) as I by (rewrite <- exp_plus; replace (z + - z) with 0 by ring; apply exp_0).
  pose proof (exp_pos z) as P. pose proof (exp_pos (- z)) as P'.
  unfold tanh, sinh, cosh.
  assert ((exp z - exp (- z)) / 2 / ((exp z + exp (- z)) / 2) = (q - 1) / (q + 1)) as ->.
  { apply (Rmult_eq_reg_r ((exp z + exp (- z)) / 2 * (q + 1))); [|apply Rmult_integral_contrapositive_currified; lra].
    field_simplify; [|lra|lra]. rewrite <- E. replace (exp (- z)) with (/ exp z) by (apply (Rmult_eq_reg_l (exp z)); [rewrite I; field; lra|lra]). field. lra. }
  unfold q. field. lra.
Qed.
Theorem COT_ACOT y : run body_COT [val (run body_ACOT [y])] = OVal y.
Proof.
  rewrite ACOT_spec. destruct (Req_EM_T y 0) as [->|Hy]; cbn [val]; rewrite COT_spec.
  - rewrite sin_PI2, cos_PI2. destruct (Req_EM_T 1 0); [lra|]. f_equal. field.
  - pose proof (hyp_pos (1 / y)) as Hs. rewrite sin_atan, cos_atan.
    assert (1 / y / sqrt (1 + Rsqr (1 / y)) <> 0) as N.
    { unfold Rdiv. apply Rmult_integral_contrapositive_currified; [apply Rmult_integral_contrapositive_currified; [lra|apply Rinv_neq_0_compat; exact Hy]|apply Rinv_neq_0_compat; lra]. }
    destruct (Req_EM_T (1 / y / sqrt (1 + Rsqr (1 / y))) 0); [contradiction|]. f_equal. field. repeat split; first [exact Hy|lra].
Qed.
