(* C13 — Date serial numbers: invertible, monotone, Excel 1900 system.
   Property theorems only; proofs are in Proofs/SerialProofs.v (calendar: Proofs/Calendar*.v).
   A serial s is represented by the integer s * 86400000000 (microseconds per day). *)
From HX Require Import Model.Base Model.Calendar Model.Serial Proofs.CalendarProofs Proofs.SerialProofs.

(* date-time -> serial -> date-time, every date-time from 1900-01-01T00:00 on, microsecond resolution *)
Theorem C13_roundtrip : forall t, valid_dt t = true -> us1900 <= to_us t ->
  parse_us (serial_us t) = Some t.
Proof. exact serial_roundtrip. Qed.

(* serials increase strictly with time (Python's datetime order is dt_lt) *)
Theorem C13_strictly_monotone : forall a b, valid_dt a = true -> valid_dt b = true ->
  us1900 <= to_us a -> dt_lt a b -> serial_us a < serial_us b.
Proof. exact serial_strictly_monotone. Qed.

(* from 1 March 1900 on: days since 30 December 1899, time of day as the fraction *)
Theorem C13_excel_1900_system : forall t, valid_dt t = true -> to_us dt_mar1 <= to_us t ->
  serial_us t = (ymd2ord (dyear t) (dmonth t) (dday t) - ymd2ord 1899 12 30) * day + us_of_day t.
Proof. exact serial_excel_split. Qed.

(* serial -> date-time -> serial, every serial >= 61 (up to year 9999 the date-time is a valid one) *)
Theorem C13_serial_roundtrip : forall S, 61 * day <= S -> S < (ymd2ord 10000 1 1 - 693594) * day ->
  exists t, parse_us S = Some t /\ valid_dt t = true /\ serial_us t = S.
Proof. exact serial_roundtrip'_valid. Qed.

(* date + n = the date n days later: ordinal advanced by n, same time of day *)
Theorem C13_date_plus_n : forall t n, valid_dt t = true ->
  to_us dt_mar1 <= to_us t -> to_us dt_mar1 <= to_us t + n * day ->
  exists t', date_plus_days t n = Some t' /\
    ymd2ord (dyear t') (dmonth t') (dday t') = ymd2ord (dyear t) (dmonth t) (dday t) + n /\
    us_of_day t' = us_of_day t.
Proof. exact date_plus_n_calendar. Qed.

(* date - date = the time between them; whole days when the times of day agree *)
Theorem C13_date_minus_date : forall a b, to_us dt_mar1 <= to_us a -> to_us dt_mar1 <= to_us b ->
  date_minus_date a b = to_us a - to_us b.
Proof. exact date_minus_date_spec. Qed.
Theorem C13_date_minus_date_days : forall a b, valid_dt a = true -> valid_dt b = true ->
  to_us dt_mar1 <= to_us a -> to_us dt_mar1 <= to_us b -> us_of_day a = us_of_day b ->
  date_minus_date a b = (ymd2ord (dyear a) (dmonth a) (dday a) - ymd2ord (dyear b) (dmonth b) (dday b)) * day.
Proof. exact date_minus_date_days. Qed.

(* the calendar underneath: ordinal <-> (y,m,d) is a bijection on all ordinals *)
Theorem C13_calendar_roundtrip : forall y m d, 1 <= y -> valid_ymd y m d = true ->
  ord2ymd (ymd2ord y m d) = (y, m, d).
Proof. exact ymd_roundtrip. Qed.

(* hypotheses are inhabited by non-trivial instances; anchor values *)
Example C13_anchors :
  serial_us (DT 1900 1 1 0 0 0 0) = 0 /\
  serial_us (DT 1900 1 2 0 0 0 0) = 2 * day /\
  serial_us (DT 1900 2 28 0 0 0 0) = 59 * day /\
  serial_us (DT 1900 3 1 0 0 0 0) = 61 * day /\
  serial_us (DT 2008 1 1 0 0 0 0) = 39448 * day /\
  serial_us (DT 9999 12 31 0 0 0 0) = 2958465 * day /\
  serial_us (DT 2024 2 29 12 0 0 0) = 45351 * day + day / 2 /\
  date_plus_days (DT 1900 3 1 0 0 0 0) 1 = Some (DT 1900 3 2 0 0 0 0) /\
  date_plus_days (DT 2023 12 31 23 59 59 999000) 1 = Some (DT 2024 1 1 23 59 59 999000) /\
  valid_dt (DT 2024 2 29 12 0 0 0) = true /\ to_us dt_mar1 <= to_us (DT 2024 2 29 12 0 0 0).
Proof. vm_compute. repeat split; try reflexivity; discriminate. Qed.

Print Assumptions C13_roundtrip.
Print Assumptions C13_strictly_monotone.
Print Assumptions C13_excel_1900_system.
Print Assumptions C13_serial_roundtrip.
Print Assumptions C13_date_plus_n.
Print Assumptions C13_date_minus_date.
Print Assumptions C13_date_minus_date_days.
Print Assumptions C13_calendar_roundtrip.
