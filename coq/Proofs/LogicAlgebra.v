(* C12: the Boolean algebra of AND / OR / XOR / NOT over error-free arguments:
   the order of the (flattened) items is irrelevant, De Morgan's laws, XOR of two items. *)
From HX Require Import Model.Value Model.Logic Proofs.ValueProofs Proofs.LogicProofs.
From Coq Require Import Permutation Lia.
Open Scope Z_scope.

Lemma forallb_perm {A} (f : A -> bool) l l' : Permutation l l' -> forallb f l = forallb f l'.
Proof.
  induction 1 as [|x l l' _ IH|x y l|l l' l'' _ IH1 _ IH2]; cbn [forallb].
  - reflexivity.
  - rewrite IH. reflexivity.
  - destruct (f x), (f y); reflexivity.
  - rewrite IH1. exact IH2.
Qed.
Lemma existsb_perm {A} (f : A -> bool) l l' : Permutation l l' -> existsb f l = existsb f l'.
Proof.
  induction 1 as [|x l l' _ IH|x y l|l l' l'' _ IH1 _ IH2]; cbn [existsb].
  - reflexivity.
  - rewrite IH. reflexivity.
  - destruct (f x), (f y); reflexivity.
  - rewrite IH1. exact IH2.
Qed.
Lemma count_true_perm l l' : Permutation l l' -> count_true l = count_true l'.
Proof.
  unfold count_true. induction 1 as [|x l l' _ IH|x y l|l l' l'' _ IH1 _ IH2]; cbn [filter].
  - reflexivity.
  - destruct (truthy x); cbn [length]; rewrite IH; reflexivity.
  - destruct (truthy x), (truthy y); reflexivity.
  - rewrite IH1. exact IH2.
Qed.
Lemma no_errors_perm l l' : Permutation l l' -> no_errors l -> no_errors l'.
Proof. intros P H. unfold no_errors in *. rewrite Forall_forall in *. intros v Hv. apply H. eapply Permutation_in; [apply Permutation_sym; exact P|exact Hv]. Qed.

(* the order of the flattened items is irrelevant *)
Theorem AND_OR_XOR_order_free a b : no_errors (flatten_args a) -> Permutation (flatten_args a) (flatten_args b) ->
  fn_AND a = fn_AND b /\ fn_OR a = fn_OR b /\ fn_XOR a = fn_XOR b.
Proof.
  intros H P. pose proof (no_errors_perm _ _ P H) as H'.
  rewrite (AND_truth a H), (AND_truth b H'), (OR_truth a H), (OR_truth b H'), (XOR_parity a H), (XOR_parity b H').
  rewrite (forallb_perm truthy _ _ P), (existsb_perm truthy _ _ P), (count_true_perm _ _ P). auto.
Qed.

(* De Morgan: NOT(AND(items)) = OR(NOT(item)...), NOT(OR(items)) = AND(NOT(item)...) *)
Definition not_item (v : value) : value := VBool (negb (truthy v)).

Lemma truthy_not_item v : truthy (not_item v) = negb (truthy v).
Proof. reflexivity. Qed.
Lemma forallb_neg l : negb (forallb truthy l) = existsb truthy (map not_item l).
Proof. induction l as [|v l IH]; cbn [forallb existsb map]; [reflexivity|]. rewrite truthy_not_item, <- IH. destruct (truthy v), (forallb truthy l); reflexivity. Qed.
Lemma existsb_neg l : negb (existsb truthy l) = forallb truthy (map not_item l).
Proof. induction l as [|v l IH]; cbn [forallb existsb map]; [reflexivity|]. rewrite truthy_not_item, <- IH. destruct (truthy v), (existsb truthy l); reflexivity. Qed.
Lemma not_items_leaves l : Forall is_leaf (map not_item l).
Proof. induction l as [|v l IH]; cbn [map]; constructor; [exact I|exact IH]. Qed.
Lemma not_items_no_errors l : no_errors (map not_item l).
Proof. induction l as [|v l IH]; cbn [map]; constructor; [reflexivity|exact IH]. Qed.

Theorem de_morgan args : no_errors (flatten_args args) ->
  (exists r, fn_AND args = Ret r /\ fn_NOT [r] = fn_OR (map not_item (flatten_args args))) /\
  (exists r, fn_OR args = Ret r /\ fn_NOT [r] = fn_AND (map not_item (flatten_args args))).
Proof.
  intros H. pose proof (flatten_args_leaves _ (not_items_leaves (flatten_args args))) as F.
  pose proof (not_items_no_errors (flatten_args args)) as N. split.
  - eexists. split; [exact (AND_truth args H)|]. rewrite OR_truth by (rewrite F; exact N). rewrite F.
    cbn [fn_NOT truthy]. rewrite forallb_neg. reflexivity.
  - eexists. split; [exact (OR_truth args H)|]. rewrite AND_truth by (rewrite F; exact N). rewrite F.
    cbn [fn_NOT truthy]. rewrite existsb_neg. reflexivity.
Qed.

(* XOR of two error-free leaves is "exactly one" ; XOR with itself is FALSE; NOT is an involution on truth *)
Theorem XOR_two a b : is_leaf a -> is_leaf b -> is_err a = false -> is_err b = false ->
  fn_XOR [a; b] = Ret (VBool (xorb (truthy a) (truthy b))).
Proof.
  intros La Lb Ea Eb. assert (F : flatten_args [a; b] = [a; b]) by (apply flatten_args_leaves; repeat constructor; assumption).
  rewrite XOR_parity by (rewrite F; repeat constructor; assumption). rewrite F.
  unfold count_true. cbn [filter]. destruct (truthy a), (truthy b); reflexivity.
Qed.
Theorem NOT_NOT v : is_err v = false -> exists r, fn_NOT [v] = Ret r /\ fn_NOT [r] = Ret (VBool (truthy v)).
Proof. intros E. eexists. split; [exact (NOT_truth v E)|]. cbn [fn_NOT truthy]. rewrite negb_involutive. reflexivity. Qed.
