(* C10, failing evaluations too: the events emitted before a failure are a prefix of the post-order reference list -
   nothing is emitted out of order or twice even when the formula ends in an error. *)
From HX Require Import Model.Base Model.Lexer Model.Value Model.Operators Model.Cell Model.Interp
  Proofs.LRcert Proofs.LRvalue Proofs.LRfull Proofs.RefsProofs.
From Coq Require Import Lia.
Open Scope Z_scope.

Definition is_prefix {A} (p l : list A) : Prop := exists r, l = p ++ r.
Lemma prefix_refl {A} (l : list A) : is_prefix l l. Proof. exists []. rewrite app_nil_r. reflexivity. Qed.
Lemma prefix_nil {A} (l : list A) : is_prefix [] l. Proof. exists l. reflexivity. Qed.
Lemma prefix_app_l {A} (a p l : list A) : is_prefix p l -> is_prefix (a ++ p) (a ++ l).
Proof. intros [r ->]. exists r. rewrite app_assoc. reflexivity. Qed.
Lemma prefix_app_r {A} (p l m : list A) : is_prefix p l -> is_prefix p (l ++ m).
Proof. intros [r ->]. exists (r ++ m). rewrite app_assoc. reflexivity. Qed.

Definition okp (x : evres value) : bool := match fst x with ROk _ => true | _ => false end.
(* the trace of ebind: the first trace, then (only if the first succeeded) the second *)
Lemma ebind_trace {A B} (x : evres A) (K : A -> evres B) :
  (exists a, fst x = ROk a /\ snd (ebind x K) = snd x ++ snd (K a) /\ fst (ebind x K) = fst (K a)) \/
  ((forall a, fst x <> ROk a) /\ snd (ebind x K) = snd x /\ (forall b, fst (ebind x K) <> ROk b)).
Proof.
  destruct x as [[a|e| |] ev]; cbn [ebind fst snd].
  - left. exists a. destruct (K a) as [r ev']. cbn. auto.
  - right. repeat split; intros; discriminate.
  - right. repeat split; intros; discriminate.
  - right. repeat split; intros; discriminate.
Qed.
Lemma call_function_trace h name args : is_prefix (map ref_of (snd (call_function h name args))) [RCall name (length args)].
Proof.
  unfold call_function. destruct (assoc_text name (h_funs h)) as [b|].
  - destruct b; cbn; try apply prefix_refl; try apply prefix_nil. destruct args; cbn; [apply prefix_nil|apply prefix_refl].
  - destruct (mem_text name (h_registry h)); [|cbn; apply prefix_nil].
    destruct (builtin name args) as [[w|e| |]|]; try destruct (h_oracle h name args) as [[w'|e'| |]|]; cbn; try apply prefix_refl; apply prefix_nil.
Qed.

Lemma xvals_prefix h args : Forall (fun e => is_prefix (map ref_of (snd (xval h e))) (refs e)) args ->
  is_prefix (map ref_of (snd (xvals (xval h) args))) (flat_map refs args) /\
  (forall vs, fst (xvals (xval h) args) = ROk vs -> map ref_of (snd (xvals (xval h) args)) = flat_map refs args /\ length vs = length args).
Proof.
  induction 1 as [|a l Ha Hl IHl]; [split; [apply prefix_nil|intros vs H; inversion H; split; reflexivity]|].
  destruct IHl as [PL FL]. rewrite xvals_cons. cbn [flat_map].
  destruct (ebind_trace (xval h a) (fun v => ebind (xvals (xval h) l) (fun vs => (ROk (v :: vs), [])))) as [(w & Hw & T & F)|(N & T & F)].
  - rewrite T. assert (map ref_of (snd (xval h a)) = refs a) as Ea by (apply (events_postorder h a w Hw)).
    destruct (ebind_trace (xvals (xval h) l) (fun vs => (ROk (w :: vs), @nil event))) as [(ws & Hws & T2 & F2)|(N2 & T2 & F2)].
    + rewrite T2. cbn [snd]. rewrite app_nil_r, map_app, Ea. destruct (FL ws Hws) as [EL LL]. rewrite EL.
      split; [apply prefix_refl|]. intros vs H. split; [reflexivity|]. rewrite F, F2 in H. cbn in H. inversion H. cbn. lia.
    + rewrite T2, map_app, Ea. split; [apply prefix_app_l, PL|]. intros vs H. rewrite F in H. exfalso. exact (F2 vs H).
  - rewrite T. split; [apply prefix_app_r, Ha|]. intros vs H. exfalso. exact (F vs H).
Qed.

Theorem events_prefix_of_postorder h : forall e,
  is_prefix (map ref_of (snd (xval h e))) (refs e) /\
  (forall v, fst (xval h e) = ROk v -> map ref_of (snd (xval h e)) = refs e).
Proof.
  intros e. split; [|intros v Hv; exact (events_postorder h e v Hv)].
  induction e as [d|ip fp|fp|pn|pa pb|str|xe|n|k lab|k1 l1 k2 l2|sp name args IHargs|sp items IHitems|rs row1 row2 IHr1 IHr2|e IH|b l r IHl IHr|e IH] using expr_ind'.
  - apply prefix_nil.
  - apply prefix_nil.
  - apply prefix_nil.
  - apply prefix_nil.
  - apply prefix_nil.
  - apply prefix_nil.
  - apply prefix_nil.
  - cbn [xval refs]. unfold call_variable. destruct (last_handed _ _); cbn; apply prefix_refl.
  - cbn [xval refs]. unfold call_cell_value. destruct (extract_label (upper_text lab)) as [[row col]|]; cbn; [apply prefix_refl|apply prefix_nil].
  - cbn [xval refs]. unfold call_range_value.
    destruct (extract_label (upper_text l1)) as [[r1 c1]|]; [|cbn; apply prefix_nil].
    destruct (extract_label (upper_text l2)) as [[r2 c2]|]; [|cbn; apply prefix_nil].
    destruct (p_index r1 <=? p_index r2), (p_index c1 <=? p_index c2); cbn; apply prefix_refl.
  - cbn [xval refs].
    destruct (xvals_prefix h args IHargs) as [PA FA].
    destruct (ebind_trace (xvals (xval h) args) (fun vs => call_function h name vs)) as [(vs & Hvs & T & F)|(N & T & F)].
    + rewrite T, map_app. destruct (FA vs Hvs) as [EA LA]. rewrite EA. apply prefix_app_l. rewrite <- LA. apply call_function_trace.
    + rewrite T. apply prefix_app_r, PA.
  - cbn [xval refs]. destruct (xvals_prefix h items IHitems) as [PA FA].
    destruct (ebind_trace (xvals (xval h) items) (fun vs => (ROk (VList vs), @nil event))) as [(vs & Hvs & T & F)|(N & T & F)];
      rewrite T; cbn [snd]; rewrite ?app_nil_r; exact PA.
  - cbn [xval refs]. destruct (xvals_prefix h row1 IHr1) as [P1 F1]. destruct (xvals_prefix h row2 IHr2) as [P2 F2].
    destruct (ebind_trace (xvals (xval h) row1) (fun a => ebind (xvals (xval h) row2) (fun b => (ROk (VList [VList a; VList b]), @nil event))))
      as [(vs1 & H1 & T & F)|(N & T & F)]; rewrite T.
    + rewrite map_app. destruct (F1 vs1 H1) as [E1 _]. rewrite E1. apply prefix_app_l.
      destruct (ebind_trace (xvals (xval h) row2) (fun b => (ROk (VList [VList vs1; VList b]), @nil event))) as [(vs2 & H2 & T2 & F2')|(N2 & T2 & F2')];
        rewrite T2; cbn [snd]; rewrite ?app_nil_r; exact P2.
    + apply prefix_app_r, P1.
  - cbn [xval refs]. destruct (ebind_trace (xval h e) (fun v => (of_outcome (eval_neg v), []))) as [(w & Hw & T & F)|(N & T & F)];
      rewrite T; cbn [snd]; rewrite ?app_nil_r; exact IH.
  - cbn [xval refs].
    destruct (ebind_trace (xval h l) (fun lv => ebind (xval h r) (fun rv => (bin_res b lv rv, [])))) as [(lv & Hl & T & F)|(N & T & F)]; rewrite T.
    + rewrite map_app, (events_postorder h l lv Hl). apply prefix_app_l.
      destruct (ebind_trace (xval h r) (fun rv => (bin_res b lv rv, @nil event))) as [(rv & Hr & T2 & F2)|(N2 & T2 & F2)]; rewrite T2; cbn [snd]; rewrite ?app_nil_r; exact IHr.
    + apply prefix_app_r, IHl.
  - cbn [xval refs]. exact IH.
Qed.
