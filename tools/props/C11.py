# -*- coding: utf-8 -*-
"""C11 - aggregates and criteria functions.  Model: coq/Model/Aggregates.v.  Theorems: Properties/C11.v."""
import math
import random
from fractions import Fraction

from common import Result, pmap, compare, enc_value, dec_value, canon_py, Catch, thaw, ERR, ERR_CODES

ID = 'C11'
COQ_FILES = ['Properties/C11.v', 'Proofs/AggregatesProofs.v', 'Proofs/ValueProofs.v', 'Proofs/MedianOrder.v', 'Proofs/AvedevProofs.v']
TRUSTED = [
    'modelled, not verified: the statistics module (mean, median, mode, (p)variance, harmonic_mean by their textbook '
    'definitions in exact arithmetic), sorted(), sum(), fnmatch on patterns without "[", the criteria regex, Python number '
    'syntax on plain decimals; STDEV*, GEOMEAN (square roots, logarithms) are checked by the oracle only',
    'ideal arithmetic: floats are exact rationals; items in the correspondence are ints and dyadic floats',
]
EXPLANATION = ('Coq theorems for item lists of ANY length and nesting: every aggregate depends only on the flattened leaves '
               '(regrouping invariance), SUM/PRODUCT/AVERAGE/COUNT/VAR/VAR.P/MIN/MAX equal their definitions, MEDIAN/LARGE are '
               'read off a sorted permutation of the items, sums/products/means/variances/min/max are invariant under '
               'permutation, an error item is the result, SUMIF/COUNTIF select exactly the items satisfying the criterion, '
               'the *IFS row condition is the conjunction of all criteria, empty selections give 0 / an error for averages. '
               '(Permutation invariance of MEDIAN/LARGE/MODE is validated, not proved.) Tied to the code by direct calls on '
               'random lists in random groupings and an exact-rational oracle through Parser.parse with regroupings and '
               'permutations.')
ASSUMPTIONS = ['items are ints and dyadic/decimal fractions; criteria are operator+number, bare values or */? wildcards']

FN = ['SUM', 'PRODUCT', 'AVERAGE', 'COUNT', 'MIN', 'MAX', 'MEDIAN', 'MODE', 'VAR', 'VAR.P', 'AVEDEV', 'HARMEAN', 'LARGE',
      'SLOPE', 'SUMIF', 'COUNTIF', 'AVERAGEIF', 'SUMIFS', 'AVERAGEIFS', 'MAXIFS']


def _impl_raw(c):
    from hotxlfp import formulas
    from hotxlfp.formulas.error import XLError
    name, args = c
    try:
        v = formulas.get_for(name)(*thaw(args))
    except XLError as e:
        return ('E', str(e))
    if isinstance(v, XLError):
        return ('E', str(v))
    return ('R', canon_py(v))


_impl = Catch(_impl_raw, ('X',))


def enc_case(c):
    name, args = c
    out = [FN.index(name), len(args)]
    for a in thaw(args):
        out += enc_value(a)
    return out


def eq_res(model, impl):
    if model[0] == 2:
        return impl == ('X',)
    if model[0] == 1:
        return impl == ('E', ERR_CODES[model[1]])
    v = dec_value(model, 1)[0]
    if impl[0] != 'R':
        return False
    i = impl[1]
    if i[0] == 'B':
        i = ('I', i[1])             # MIN/MAX/MEDIAN/MODE/LARGE hand back the item itself; a logical is the int 1/0
    if v[0] == 'F' and i[0] == 'F' and not isinstance(i[1], str):
        try:
            if Fraction(float(v[1])) == i[1]:
                return True
        except OverflowError:
            return False
        return abs(v[1] - i[1]) <= abs(v[1]) * Fraction(1, 2 ** 44)
    return v == i


# ---------------- generators ----------------
def rnum(rng, kind=None):
    k = kind if kind is not None else rng.randrange(4)
    if k == 0:
        return rng.randint(-20, 20)
    if k == 1:
        return rng.randint(-2 ** 12, 2 ** 12) / 2.0 ** rng.randint(1, 5)
    if k == 2:
        return rng.randint(-1000, 1000)
    return rng.choice([0, 1, -1, 2, 2, 3, 0.5, -0.5])


def group(rng, items, depth=0):
    """a random partition of items into arguments / nested arrays (order preserved)"""
    out = []
    i = 0
    while i < len(items):
        if depth < 3 and rng.random() < 0.35:
            j = rng.randint(i + 1, len(items))
            out.append(group(rng, items[i:j], depth + 1))
            i = j
        else:
            out.append(items[i])
            i += 1
    return out


def flat(x):
    if isinstance(x, list):
        r = []
        for y in x:
            r += flat(y)
        return r
    return [x]


# ---------------- oracle through Parser.parse ----------------
def call(name, args):
    import hotxlfp
    p = hotxlfp.Parser()
    names = []
    for i, a in enumerate(args):
        nm = 'arg' + 'abcdefghijklmnopqrstuvwxyz'[i // 26] + 'abcdefghijklmnopqrstuvwxyz'[i % 26]
        p.set_variable(nm, a)
        names.append(nm)
    r = p.parse('%s(%s)' % (name, ','.join(names)))
    return r['result'] if r['error'] is None else ('ERR', r['error'])


def close(got, want, tol=Fraction(1, 10 ** 9), slack=0):
    if isinstance(got, bool) or not isinstance(got, (int, float)):
        return False
    g = Fraction(got)
    return g == want or abs(g - want) <= tol * max(1, abs(want)) + slack


def offset_list(rng, n):
    """decimals with a large common offset and a small spread (a one-pass sum-of-squares formula cancels on these; the
    two-pass / exact definitions do not)"""
    off = rng.choice([10 ** 6, 2 * 10 ** 7, 10 ** 8 - 1, -3 * 10 ** 7, 123456789])
    return [off + rng.randint(1, 99) / rng.choice([10.0, 100.0, 16.0]) for _ in range(n)]


def reference(items):
    xs = [Fraction(x) for x in items]
    n = len(xs)
    ref = {'SUM': sum(xs), 'COUNT': Fraction(n), 'MIN': min(xs), 'MAX': max(xs), 'AVERAGE': sum(xs) / n}
    p = Fraction(1)
    for x in xs:
        p *= x
    ref['PRODUCT'] = p
    s = sorted(xs)
    ref['MEDIAN'] = s[n // 2] if n % 2 else (s[n // 2 - 1] + s[n // 2]) / 2
    m = sum(xs) / n
    ss = sum((x - m) ** 2 for x in xs)
    ref['VAR.P'] = ss / n
    ref['AVEDEV'] = sum(abs(x - m) for x in xs) / n
    if n >= 2:
        ref['VAR'] = ss / (n - 1)
    counts = {}
    for x in xs:
        counts[x] = counts.get(x, 0) + 1
    top = max(counts.values())
    modes = [x for x in counts if counts[x] == top]
    if len(modes) == 1:
        ref['MODE'] = modes[0]
    if all(x > 0 for x in xs):
        ref['HARMEAN'] = n / sum(1 / x for x in xs)
    return ref


def check_list(c):
    items, g1, g2, perm = c
    out = []
    ref = reference(items)
    pargs = [perm[i] for i in range(len(perm))]
    big = max([abs(Fraction(x)) for x in items] + [0])
    for name, want in ref.items():
        # AVEDEV subtracts a rounded mean from every item: its absolute error grows with the magnitude of the items
        sl = big * Fraction(1, 2 ** 45) if name == 'AVEDEV' and big > 10 ** 5 else 0
        got = call(name, g1)
        if not close(got, want, slack=sl):
            out.append(('%s over %r' % (name, g1), None, float(want), got))
            continue
        got2 = call(name, g2)
        if not close(got2, want, slack=sl):
            out.append(('%s: regrouping %r as %r changes the result' % (name, g1, g2), None, got, got2))
        got3 = call(name, pargs)
        if not close(got3, want, slack=sl):
            out.append(('%s: reordering the items changes the result' % name, None, got, got3))
    xs = [Fraction(x) for x in items]
    n = len(xs)
    m = sum(xs) / n
    ss = sum((x - m) ** 2 for x in xs)
    for name, var in (('STDEV.P', ss / n), ('STDEV', ss / (n - 1) if n >= 2 else None)):
        if var is None:
            continue
        got = call(name, g1)
        if isinstance(got, bool) or not isinstance(got, (int, float)) or abs(got * got - float(var)) > 1e-9 * max(1.0, float(var)) or got < 0:
            out.append(('%s over %r' % (name, g1), None, math.sqrt(var), got))
    if all(x > 0 for x in xs):
        got = call('GEOMEAN', g2)
        want = math.exp(sum(math.log(float(x)) for x in xs) / n)
        if isinstance(got, tuple) or abs(got - want) > 1e-9 * max(1.0, want):
            out.append(('GEOMEAN over %r' % (g2,), None, want, got))
    s = sorted(xs)
    for k in sorted(set([1, n, (n + 1) // 2, 0, n + 1])):
        got = call('LARGE', [g1, k])
        if 1 <= k <= n:
            if not close(got, s[-k]):
                out.append(('LARGE(%r,%d)' % (g1, k), None, float(s[-k]), got))
        elif not isinstance(got, tuple):
            out.append(('LARGE(%r,%d)' % (g1, k), None, 'an error', got))
    return out


def crit_pred(crit):
    """reference predicate for the three criterion forms"""
    for op in ('>=', '<=', '<>', '>', '<', '='):
        if crit.startswith(op):
            v = crit[len(op):]
            try:
                val = Fraction(v)
            except ValueError:
                val = v
            def pred(a, op=op, val=val):
                if isinstance(val, Fraction) != (not isinstance(a, str)):
                    return {'=': False, '<>': True}.get(op)
                x = Fraction(a) if not isinstance(a, str) else a
                return {'>=': x >= val, '<=': x <= val, '<>': x != val, '>': x > val, '<': x < val, '=': x == val}[op]
            return pred
    if '*' in crit or '?' in crit:
        import re
        rx = re.compile(''.join('.*' if ch == '*' else ('.' if ch == '?' else re.escape(ch)) for ch in crit) + r'\Z', re.S)
        return lambda a: isinstance(a, str) and rx.match(a) is not None
    try:
        val = Fraction(crit)
        return lambda a: not isinstance(a, str) and Fraction(a) == val
    except ValueError:
        return lambda a: isinstance(a, str) and a == crit


def check_criteria(c):
    vals, crits, crit = c
    out = []
    pred = crit_pred(crit)
    sel = [v for v in vals if pred(v)]
    if any(pred(v) is None for v in vals):
        return out          # ordering a number against text: unspecified
    numeric_sel = all(not isinstance(v, str) for v in sel)
    got = call('COUNTIF', [vals, crit])
    if got != len(sel):
        out.append(('COUNTIF(%r,%r)' % (vals, crit), None, len(sel), got))
    if numeric_sel:
        want = sum(Fraction(v) for v in sel)
        got = call('SUMIF', [vals, crit])
        if not close(got, want):
            out.append(('SUMIF(%r,%r)' % (vals, crit), None, float(want), got))
        got = call('AVERAGEIF', [vals, crit])
        if sel:
            if not close(got, want / len(sel)):
                out.append(('AVERAGEIF(%r,%r)' % (vals, crit), None, float(want / len(sel)), got))
        elif not isinstance(got, tuple):
            out.append(('AVERAGEIF(%r,%r) with nothing selected' % (vals, crit), None, 'an error', got))
    # *IFS: items selected through one or two criteria ranges
    items = [i * 10 - 35 for i in range(len(vals))]
    r_ = random.Random(repr(c))
    if r_.random() < 0.6:
        # unordered items with zeros, repeats and negatives after them (a running maximum / sum of exactly 0 is a value too)
        items = [r_.choice([0, 0, -5, -1, 3, 10, -20, 0.5, 0.0, 7]) for _ in range(len(vals))]
    pred2 = crit_pred(crits[1])
    if any(pred2(v) is None for v in crits[0]):
        return out
    rows = [i for i in range(len(vals)) if pred(vals[i]) and pred2(crits[0][i])]
    chosen = [Fraction(items[i]) for i in rows]
    for name, want in (('SUMIFS', Fraction(sum(chosen))), ('MAXIFS', Fraction(max(chosen)) if chosen else Fraction(0)),
                       ('AVERAGEIFS', sum(chosen) / len(chosen) if chosen else None)):
        got = call(name, [items, vals, crit, crits[0], crits[1]])
        if want is None:
            if not isinstance(got, tuple):
                out.append(('%s with nothing selected' % name, None, 'an error', got))
        elif not close(got, want):
            out.append(('%s(%r,%r,%r,%r,%r)' % (name, items, vals, crit, crits[0], crits[1]), None, float(want), got))
    return out


def check_error_item(c):
    items, pos, code, g = c
    from hotxlfp.formulas import error
    out = []
    e = error.from_message(code)
    def plant(x, state):
        if isinstance(x, list):
            return [plant(y, state) for y in x]
        state[0] += 1
        return e if state[0] - 1 == pos else x
    args = plant(g, [0])
    for name in ('SUM', 'PRODUCT', 'AVERAGE', 'MIN', 'MAX', 'MEDIAN'):
        got = call(name, args)
        if got != ('ERR', code):
            out.append(('%s with the error item %s' % (name, code), None, code, got))
    return out


def check_slope(c):
    ys, xs = c
    out = []
    X = [Fraction(x) for x in xs]
    Y = [Fraction(y) for y in ys]
    n = len(X)
    den = n * sum(x * x for x in X) - sum(X) ** 2
    for form, got in (('arrays', call('SLOPE', [ys, xs])), ('flat', call('SLOPE', ys + xs))):
        if den == 0:
            if not isinstance(got, tuple):
                out.append(('SLOPE (%s) with constant xs' % form, None, 'an error', got))
        else:
            want = (n * sum(x * y for x, y in zip(X, Y)) - sum(X) * sum(Y)) / den
            if not close(got, want):
                out.append(('SLOPE (%s) %r %r' % (form, ys, xs), None, float(want), got))
    return out


CHECKERS = {'list': check_list, 'criteria': check_criteria, 'error_item': check_error_item, 'slope': check_slope}


def check_case(case):
    if 'formula' in case:
        import hotxlfp
        f = case['formula']
        want = {'MAXIFS({-5,-2,-9},{1,1,0},"1")': -2, 'COUNTIF({"apple","pear"},"a*")': 1, 'LARGE({1,2;3,4},3)': 2,
                'SLOPE({2,4,7},{1,2,3})': 2.5}.get(f)
        r = hotxlfp.Parser().parse(f)
        return [] if want is None or r['result'] == want else [{'case': case, 'what': f, 'class': None, 'expected': want, 'observed': r}]
    for k, fn in CHECKERS.items():
        if k in case:
            return [{'case': case, 'what': w, 'class': cls, 'expected': repr(e), 'observed': repr(g)}
                    for (w, cls, e, g) in fn(tuple(case[k]))]
    return []


def _worker(kc):
    k, c = kc
    return [(k, c) + x for x in CHECKERS[k](c)]


WORDS = ['apple', 'pear', 'ape', 'pears', 'apex', 'a', 'banana', 'Apple', '', 'Pear', 'PEAR', 'APPLE', 'appletree', 'spear']   # incl. words that extend a match at either end
CRITS = ['>0', '>=2', '<3', '<=-1', '<>2', '=2', '2', '0.5', '>0.5', 'a*', '?ear', '*an*', 'pear', '=pear', '<>pear', '*',
         'A*', 'Pear', 'PEAR', '=Pear', ' pear', 'pear ', 'APPLE', 'apple', '<>Apple', '?EAR', 'a?e', 'p*r', '?pple', 'a*e', '*ear', 'ap?']   # case/blank variants: criteria are case-sensitive text


def explore(ctx):
    R = Result()
    rng = ctx.rng
    N = 20000 if ctx.thorough else 1500
    cases = []
    extras = [None, '3', '2.5', 'x', '', True, False, ERR('#DIV/0!'), ERR('#N/A')]
    for _ in range(N):
        n = rng.randint(0, 12) if rng.random() < 0.8 else rng.randint(13, 40)
        kind = rng.choice([0, 0, 1, 2, None])
        items = [rnum(rng, kind) for _ in range(n)]
        if rng.random() < 0.3:
            for _ in range(rng.randint(1, 3)):
                items.insert(rng.randint(0, len(items)), rng.choice(extras))
        g = group(rng, items)
        name = rng.choice(FN[:12])
        cases.append((name, g))
        if rng.random() < 0.3:
            cases.append(('LARGE', [g, rng.randint(-1, len(items) + 2)]))
    for _ in range(N // 3):
        n = rng.randint(1, 8)
        vals = [rng.choice([rnum(rng, 3), rnum(rng, 0), rng.choice(WORDS)]) if rng.random() < 0.3 else rnum(rng, 3) for _ in range(n)]
        crit = rng.choice(CRITS + ['=<1', '', '>', '><3'])
        cases.append((rng.choice(['SUMIF', 'COUNTIF', 'AVERAGEIF']), [vals, crit]))
        vals2 = [rnum(rng, 3) for _ in range(n if rng.random() < 0.9 else n + 1)]
        items = [rnum(rng, 0) for _ in range(n)]
        cases.append((rng.choice(['SUMIFS', 'AVERAGEIFS', 'MAXIFS']), [items, vals, crit, vals2, rng.choice(CRITS[:9])]))
        ys = [rnum(rng, 0) for _ in range(n)]
        xs = [rnum(rng, 0) for _ in range(n if rng.random() < 0.9 else n + 1)]
        cases.append(('SLOPE', [ys, xs]))
    compare(R, ctx, 'aggregate', cases, enc_case, _impl, key=repr, eq=eq_res)
    # ---- oracle
    work = []
    for _ in range(N // 2):
        n = rng.randint(1, 12) if rng.random() < 0.8 else rng.randint(13, 40)
        kind = rng.choice([0, 1, 2, 3])
        items = [rnum(rng, kind) for _ in range(n)]
        if rng.random() < 0.25:
            items = [round(rng.uniform(-50, 50), 2) for _ in range(n)]        # decimal fractions (tolerance)
        elif rng.random() < 0.12:
            items = offset_list(rng, rng.randint(2, 8))
        perm = items[:]
        rng.shuffle(perm)
        work.append(('list', (items, group(rng, items), group(rng, items), perm)))
    for _ in range(N // 3):
        n = rng.randint(1, 8)
        textual = rng.random() < 0.3
        vals = [rng.choice([w for w in WORDS if w]) for _ in range(n)] if textual else [rnum(rng, 3) for _ in range(n)]
        crit = rng.choice(CRITS[9:]) if textual else rng.choice(CRITS[:9])
        work.append(('criteria', (vals, ([rnum(rng, 3) for _ in range(n)], rng.choice(CRITS[:9])), crit)))
        if not textual:
            # selections whose extreme / sum is exactly zero, followed by negatives
            zv = [rng.choice([0, 0, -5, -1, 3, 0.0, -0.5]) for _ in range(n)]
            work.append(('criteria', (zv, ([rng.choice([1, 1, 2, 0]) for _ in range(n)], rng.choice(['>0', '>=1', '<3', '<>0'])), rng.choice(['<=0', '<1', '>=-5', '<>3']))))
    for _ in range(N // 10):
        n = rng.randint(1, 8)
        items = [rnum(rng, 0) for _ in range(n)]
        work.append(('error_item', (items, rng.randrange(n), rng.choice(ERR_CODES[1:8]), group(rng, items))))
        xs = [rnum(rng, 0) for _ in range(n)]
        if rng.random() < 0.4:
            # the same points on another scale (dyadic factors: every product and sum below stays exact in doubles)
            sc = rng.choice([2.0 ** -17, 2.0 ** -30, 2.0 ** -10, 2.0 ** 12, 2.0 ** -40])
            xs = [x * sc for x in xs]
        work.append(('slope', ([rnum(rng, 0) for _ in range(n)], xs)))
    for vs in pmap(_worker, work):
        for (k, c, w, cls, e, g) in vs:
            R.violate({k: list(c)}, w, cls, repr(e), repr(g))
    R.evaluations += len(work)
    R.rule = ('direct calls vs model: random lists (length 0..40) of ints / dyadic floats with occasional blanks, numeric and '
              'other text, logicals and error items, in random partitions into arguments and arrays nested to depth 3, x the 12 '
              'aggregates + LARGE; criteria functions over numeric/text ranges x 20 criteria strings (incl. malformed); *IFS with '
              'two ranges; SLOPE. Oracle through Parser.parse (exact rationals): definitions, two regroupings and one random '
              'permutation per list, STDEV/GEOMEAN numerically, LARGE at k = 0,1,mid,n,n+1, criteria selections, empty '
              'selections, error items at every position, SLOPE in both calling forms.')
    return R


def search(ctx, proof, res):
    R = Result()
    rng = ctx.rng
    work = []
    for _ in range(15000):
        n = rng.randint(1, 10)
        items = [rnum(rng, rng.choice([0, 1, 3])) for _ in range(n)] if rng.random() < 0.8 else offset_list(rng, rng.randint(2, 8))
        perm = items[:]
        rng.shuffle(perm)
        work.append(('list', (items, group(rng, items), group(rng, items), perm)))
        vals = [rnum(rng, 3) for _ in range(n)]
        work.append(('criteria', (vals, ([rnum(rng, 3) for _ in range(n)], rng.choice(CRITS[:9])), rng.choice(CRITS[:9]))))
        work.append(('criteria', ([rng.choice(WORDS[:6]) for _ in range(n)], ([rnum(rng, 3) for _ in range(n)], '>0'), rng.choice(CRITS[9:]))))
        sc = rng.choice([1, 1, 2.0 ** -17, 2.0 ** -30, 2.0 ** 12])
        work.append(('slope', ([rnum(rng, 0) for _ in range(n)], [rnum(rng, 0) * sc for _ in range(n)])))
    for vs in pmap(_worker, work):
        for (k, c, w, cls, e, g) in vs:
            R.violate({k: list(c)}, w, cls, repr(e), repr(g))
    R.evaluations = len(work)
    return R
