(* C17 (radix part): the conversions are mutually inverse; out-of-range arguments are errors. *)
From HX Require Import Model.Base Model.Value Model.Radix Proofs.Digits.
From Coq Require Import Lia ZifyBool.
Open Scope Z_scope.

Lemma char_digit_char d : 0 <= d < 36 -> char_digit (digit_char d) = Some d.
Proof.
  intros H. unfold digit_char, char_digit. destruct (d <? 10) eqn:E.
  - destruct ((48 <=? 48 + d) && (48 + d <=? 57)) eqn:A; [f_equal; lia|exfalso; lia].
  - destruct ((48 <=? 55 + d) && (55 + d <=? 57)) eqn:A; [exfalso; lia|].
    destruct ((65 <=? 55 + d) && (55 + d <=? 90)) eqn:B; [f_equal; lia|exfalso; lia].
Qed.
Lemma parse_digits_map b l acc : 2 <= b <= 36 -> digits_ok b l ->
  parse_digits b (map digit_char l) acc = Some (horner b l acc).
Proof.
  intros Hb. revert acc. induction l as [|d r IH]; intros acc Hd; [reflexivity|].
  inversion Hd as [|? ? H1 H2]; subst. cbn [map parse_digits]. rewrite char_digit_char by lia.
  destruct (d <? b) eqn:E; [|exfalso; lia]. rewrite IH by assumption. reflexivity.
Qed.
Lemma to_digits_nonempty b n : 2 <= b -> 0 < n -> to_digits b n <> [].
Proof.
  intros Hb Hn E. pose proof (of_to_digits b n Hb ltac:(lia)) as R. rewrite E in R. cbn in R. lia.
Qed.
(* text -> number is the inverse of number -> text, every base 2..36, every n >= 0 *)
Theorem parse_num_text b n : 2 <= b <= 36 -> 0 <= n -> parse_int b (num_text b n) = Some n.
Proof.
  intros Hb Hn. unfold num_text. destruct (n =? 0) eqn:E.
  - assert (n = 0) by lia. subst. unfold parse_int. cbn [parse_digits char_digit]. cbn. destruct (0 <? b) eqn:A; [reflexivity|exfalso; lia].
  - unfold parse_int. pose proof (to_digits_nonempty b n ltac:(lia) ltac:(lia)) as Ne.
    destruct (map digit_char (to_digits b n)) eqn:M; [destruct (to_digits b n); [congruence|discriminate]|].
    rewrite <- M. rewrite parse_digits_map by (try lia; apply to_digits_ok; lia).
    rewrite <- of_digits_horner, of_to_digits by lia. reflexivity.
Qed.
(* digits above 9 are letters *)
Theorem digit_letters d : 10 <= d < 36 -> 65 <= digit_char d <= 90.
Proof. intros H. unfold digit_char. destruct (d <? 10) eqn:E; [exfalso; lia|lia]. Qed.
Theorem digit_digits d : 0 <= d < 10 -> 48 <= digit_char d <= 57.
Proof. intros H. unfold digit_char. destruct (d <? 10) eqn:E; [lia|exfalso; lia]. Qed.

(* HEX2DEC(DEC2HEX(n)) = n over the whole 40-bit two's-complement range *)
Theorem hex_roundtrip n : - two39 <= n < two39 -> exists s, fn_DEC2HEX n None = ROk s /\ fn_HEX2DEC s = RInt n.
Proof.
  intros H. unfold fn_DEC2HEX.
  destruct ((n <? - two39) || (two39 - 1 <? n)) eqn:R; [exfalso; unfold two39 in *; lia|].
  eexists; split; [reflexivity|]. unfold fn_HEX2DEC.
  destruct (n <? 0) eqn:N.
  - rewrite parse_num_text by (unfold two39, two40 in *; lia). destruct (two40 <=? n + two40) eqn:A; [exfalso; unfold two39, two40 in *; lia|].
    destruct (two39 <=? n + two40) eqn:B; [f_equal; lia|exfalso; unfold two39, two40 in *; lia].
  - rewrite parse_num_text by lia. destruct (two40 <=? n) eqn:A; [exfalso; unfold two39, two40 in *; lia|].
    destruct (two39 <=? n) eqn:B; [exfalso; lia|reflexivity].
Qed.
Theorem hex_out_of_range n : n < - two39 \/ two39 <= n -> fn_DEC2HEX n None = RNum.
Proof.
  intros H. unfold fn_DEC2HEX.
  destruct ((n <? - two39) || (two39 - 1 <? n)) eqn:R; [reflexivity|exfalso; lia].
Qed.
Theorem hex_too_long s dec : parse_int 16 s = Some dec -> two40 <= dec -> fn_HEX2DEC s = RNum.
Proof. intros P H. unfold fn_HEX2DEC. rewrite P. destruct (two40 <=? dec) eqn:E; [reflexivity|exfalso; lia]. Qed.

(* DECIMAL(BASE(n, r), r) = n for every radix 2..36 *)
Theorem base_roundtrip n r : 2 <= r <= 36 -> 0 <= n < two39 -> exists s, fn_BASE n r None = ROk s /\ fn_DECIMAL s r = RInt n.
Proof.
  intros Hr Hn. unfold fn_BASE. destruct ((n <? 0) || (r <? 2) || (36 <? r)) eqn:A; [exfalso; lia|].
  eexists; split; [reflexivity|]. unfold fn_DECIMAL. destruct ((r <? 2) || (36 <? r)) eqn:B; [exfalso; lia|].
  rewrite parse_num_text by lia. destruct (two39 <=? n) eqn:C; [exfalso; lia|reflexivity].
Qed.
Theorem base_rejects v b p : v < 0 \/ b < 2 \/ 36 < b -> (match p with Some q => 0 <= q | None => True end) -> fn_BASE v b p = RNum.
Proof.
  intros H Hp. unfold fn_BASE. destruct p as [q|].
  - destruct (q <? 0) eqn:Q; [reflexivity|]. destruct ((v <? 0) || (b <? 2) || (36 <? b)) eqn:A; [reflexivity|exfalso; lia].
  - destruct ((v <? 0) || (b <? 2) || (36 <? b)) eqn:A; [reflexivity|exfalso; lia].
Qed.
(* every digit of BASE's result is a digit character of the radix *)
Theorem base_digits_valid n r : 2 <= r <= 36 -> 0 < n ->
  Forall (fun c => exists d, 0 <= d < r /\ c = digit_char d) (num_text r n).
Proof.
  intros Hr Hn. unfold num_text. destruct (n =? 0) eqn:E; [exfalso; lia|].
  pose proof (to_digits_ok r n ltac:(lia) ltac:(lia)) as D. unfold digits_ok in D.
  induction D as [|d l Hd F IH]; [constructor|]. cbn [map]. constructor; [eauto|exact IH].
Qed.

(* ---------- ROMAN / ARABIC: finite domain, bound stated ---------- *)
Fixpoint zrange (lo : Z) (k : nat) : list Z := match k with O => [] | S k' => lo :: zrange (lo + 1) k' end.
Lemma zrange_in lo k x : lo <= x < lo + Z.of_nat k -> In x (zrange lo k).
Proof. revert lo. induction k as [|k IH]; intros lo H; [lia|]. destruct (Z.eq_dec x lo); [left; auto|right; apply IH; lia]. Qed.

Definition roman_ok (n f : Z) : bool :=
  match fn_ROMAN n f with ROk s => roman_value s =? n | _ => false end.
Definition arabic_ok (n : Z) : bool :=
  match fn_ROMAN n 0 with ROk s => match fn_ARABIC s with RInt m => m =? n | _ => false end | _ => false end.
Lemma roman_sweep : forallb (fun n => forallb (fun f => roman_ok n f) (zrange 0 5)) (zrange 1 3999) = true.
Proof. vm_compute. reflexivity. Qed.
Lemma arabic_sweep : forallb arabic_ok (zrange 1 3999) = true.
Proof. vm_compute. reflexivity. Qed.

Theorem roman_denotes n f : 1 <= n <= 3999 -> 0 <= f <= 4 -> exists s, fn_ROMAN n f = ROk s /\ roman_value s = n.
Proof.
  intros Hn Hf. pose proof roman_sweep as S. rewrite forallb_forall in S. specialize (S n (zrange_in 1 3999 n ltac:(lia))).
  rewrite forallb_forall in S. specialize (S f (zrange_in 0 5 f ltac:(lia))). unfold roman_ok in S.
  destruct (fn_ROMAN n f); try discriminate. eexists; split; [reflexivity|lia].
Qed.
Theorem arabic_roman n : 1 <= n <= 3999 -> exists s, fn_ROMAN n 0 = ROk s /\ fn_ARABIC s = RInt n.
Proof.
  intros Hn. pose proof arabic_sweep as S. rewrite forallb_forall in S. specialize (S n (zrange_in 1 3999 n ltac:(lia))).
  unfold arabic_ok in S. destruct (fn_ROMAN n 0); try discriminate. destruct (fn_ARABIC s) eqn:A; try discriminate.
  eexists; split; [reflexivity|]. rewrite A. f_equal. lia.
Qed.
Theorem roman_out_of_range n f : n < 1 \/ 3999 < n \/ f < 0 \/ 4 < f -> fn_ROMAN n f = RValue.
Proof.
  intros H. unfold fn_ROMAN. destruct ((0 <? n) && (n <? 4000) && (0 <=? f) && (f <=? 4)) eqn:E; [exfalso; lia|reflexivity].
Qed.
Theorem complex_parts re im : fn_IMREAL_COMPLEX re im = re /\ fn_IMAGINARY_COMPLEX re im = im.
Proof. split; reflexivity. Qed.
