(* Round-trip lemmas for positional numerals in any base b >= 2. *)
From HX Require Import Model.Base.
From Coq Require Import Lia.
Ltac Zify.zify_post_hook ::= Z.div_mod_to_equations.

Definition horner (b : Z) (l : list Z) (a0 : Z) : Z := fold_left (fun a d => a * b + d) l a0.

Lemma of_digits_horner b l : of_digits b l = horner b l 0.
Proof. reflexivity. Qed.

Lemma horner_app b l1 l2 a : horner b (l1 ++ l2) a = horner b l2 (horner b l1 a).
Proof. unfold horner. apply fold_left_app. Qed.

Lemma horner_shift b l a : horner b l a = a * b ^ Z.of_nat (length l) + horner b l 0.
Proof.
  revert a. induction l as [|d l IH]; intros a.
  - simpl. lia.
  - cbn [horner fold_left length]. fold (horner b l (a * b + d)). fold (horner b l (0 * b + d)).
    rewrite IH. rewrite (IH (0 * b + d)).
    rewrite Nat2Z.inj_succ, Z.pow_succ_r by lia. lia.
Qed.

Lemma of_digits_cons b d l : of_digits b (d :: l) = d * b ^ Z.of_nat (length l) + of_digits b l.
Proof.
  rewrite !of_digits_horner. cbn [horner fold_left]. fold (horner b l (0 * b + d)).
  rewrite horner_shift. lia.
Qed.

Lemma of_digits_snoc b l d : of_digits b (l ++ [d]) = of_digits b l * b + d.
Proof. rewrite !of_digits_horner, horner_app. reflexivity. Qed.

Lemma of_digits_app b l1 l2 :
  of_digits b (l1 ++ l2) = of_digits b l1 * b ^ Z.of_nat (length l2) + of_digits b l2.
Proof. rewrite !of_digits_horner, horner_app, horner_shift. reflexivity. Qed.

Definition digits_ok (b : Z) (l : list Z) : Prop := Forall (fun d => 0 <= d < b) l.

Lemma of_digits_nonneg b l : 0 <= b -> digits_ok b l -> 0 <= of_digits b l.
Proof.
  intros Hb Hd. rewrite of_digits_horner.
  assert (forall a, 0 <= a -> 0 <= horner b l a) as X.
  { induction Hd as [|d l Hdd Hl IH]; intros a Ha; cbn; [exact Ha|]. apply IH. nia. }
  apply X. lia.
Qed.

Lemma of_digits_bound b l : 2 <= b -> digits_ok b l -> of_digits b l < b ^ Z.of_nat (length l).
Proof.
  intros Hb. induction l as [|d l IH] using rev_ind; intros Hd.
  - cbn. lia.
  - apply Forall_app in Hd as [Hl Hd1]. inversion Hd1; subst.
    rewrite of_digits_snoc, app_length. cbn [length].
    rewrite Nat.add_1_r, Nat2Z.inj_succ, Z.pow_succ_r by lia.
    specialize (IH Hl). set (P := b ^ Z.of_nat (length l)) in *.
    assert ((of_digits b l + 1) * b <= P * b) by (apply Z.mul_le_mono_nonneg_r; lia). lia.
Qed.

(* loop invariant of to_digits_aux *)
Lemma to_digits_aux_inv : forall fuel b n acc,
  2 <= b -> 0 <= n -> n < 2 ^ Z.of_nat fuel ->
  of_digits b (to_digits_aux fuel b n acc) = n * b ^ Z.of_nat (length acc) + of_digits b acc.
Proof.
  induction fuel as [|f IH]; intros b n acc Hb Hn Hf.
  - cbn in Hf. assert (n = 0) by lia. subst. cbn [to_digits_aux]. lia.
  - cbn [to_digits_aux]. destruct (n <=? 0) eqn:E.
    + assert (n = 0) by lia. subst. lia.
    + rewrite IH; [| lia | apply Z.div_pos; lia |].
      * rewrite of_digits_cons. cbn [length]. rewrite Nat2Z.inj_succ, Z.pow_succ_r by lia.
        assert (n = b * (n / b) + n mod b) by (apply Z.div_mod; lia). nia.
      * rewrite Nat2Z.inj_succ, Z.pow_succ_r in Hf by lia.
        assert (n / b <= n / 2) by (apply Z.div_le_compat_l; lia).
        assert (n / 2 < 2 ^ Z.of_nat f) by (apply Z.div_lt_upper_bound; lia). lia.
Qed.

Lemma digit_fuel_ok n : 0 <= n -> n < 2 ^ Z.of_nat (digit_fuel n).
Proof.
  intros Hn. unfold digit_fuel. rewrite Nat2Z.inj_succ, Z2Nat.id by apply Z.log2_up_nonneg.
  rewrite Z.pow_succ_r by apply Z.log2_up_nonneg.
  destruct (Z.eq_dec n 0) as [->|Hnz]; [cbn; lia|].
  assert (n + 1 <= 2 ^ Z.log2_up (n + 1)) by (apply Z.log2_up_spec; lia). lia.
Qed.

Theorem of_to_digits b n : 2 <= b -> 0 <= n -> of_digits b (to_digits b n) = n.
Proof.
  intros Hb Hn. unfold to_digits. rewrite to_digits_aux_inv; auto using digit_fuel_ok.
  cbn. lia.
Qed.

Lemma to_digits_aux_ok : forall fuel b n acc,
  2 <= b -> 0 <= n -> digits_ok b acc -> digits_ok b (to_digits_aux fuel b n acc).
Proof.
  induction fuel as [|f IH]; intros b n acc Hb Hn Hacc; cbn [to_digits_aux]; [exact Hacc|].
  destruct (n <=? 0); [exact Hacc|]. apply IH; [lia | apply Z.div_pos; lia |].
  constructor; [|exact Hacc]. apply Z.mod_pos_bound. lia.
Qed.

Theorem to_digits_ok b n : 2 <= b -> 0 <= n -> digits_ok b (to_digits b n).
Proof. intros. apply to_digits_aux_ok; auto. constructor. Qed.

(* the other direction: canonical digit lists (no leading zero) are reproduced *)
Lemma to_digits_aux_of : forall l fuel b acc,
  2 <= b -> digits_ok b l -> (match l with [] => True | d :: _ => d <> 0 end) ->
  of_digits b l < 2 ^ Z.of_nat fuel ->
  to_digits_aux fuel b (of_digits b l) acc = l ++ acc.
Proof.
  induction l as [|d l IH] using rev_ind; intros fuel b acc Hb Hd Hlead Hf.
  - cbn. destruct fuel; reflexivity.
  - apply Forall_app in Hd as [Hl Hd1]. inversion Hd1 as [|? ? Hdr _]; subst.
    rewrite of_digits_snoc in *. pose proof (of_digits_nonneg b l ltac:(lia) Hl) as Hnn.
    assert (0 < of_digits b l * b + d) as Hpos.
    { destruct l as [|d0 l0].
      - cbn in *. lia.
      - cbn [app] in Hlead. rewrite of_digits_cons in *.
        inversion Hl as [|? ? Hd0 Hl0]; subst.
        pose proof (of_digits_nonneg b l0 ltac:(lia) Hl0).
        assert (0 < b ^ Z.of_nat (length l0)) by (apply Z.pow_pos_nonneg; lia). nia. }
    destruct fuel as [|f].
    + cbn in Hf. lia.
    + cbn [to_digits_aux].
      replace (of_digits b l * b + d <=? 0) with false by (symmetry; apply Z.leb_gt; lia).
      assert ((of_digits b l * b + d) / b = of_digits b l) as E1
        by (rewrite Z.div_add_l by lia; rewrite Z.div_small by lia; lia).
      assert ((of_digits b l * b + d) mod b = d) as E2
        by (rewrite Z.add_comm, Z.mod_add by lia; apply Z.mod_small; lia).
      rewrite E1, E2.
      rewrite IH; [rewrite <- app_assoc; reflexivity | lia | exact Hl | | ].
      * destruct l; [exact I|]. cbn [app] in Hlead. exact Hlead.
      * rewrite Nat2Z.inj_succ, Z.pow_succ_r in Hf by lia. nia.
Qed.

Theorem to_of_digits b l :
  2 <= b -> digits_ok b l -> (match l with [] => True | d :: _ => d <> 0 end) ->
  to_digits b (of_digits b l) = l.
Proof.
  intros Hb Hd Hlead. unfold to_digits.
  rewrite to_digits_aux_of; auto; [apply app_nil_r|].
  apply digit_fuel_ok. apply of_digits_nonneg; [lia|exact Hd].
Qed.

(* ---------- decimal text ---------- *)
Lemma dec_value_of_text n : 0 <= n -> dec_value_of (dec_text_of n) = n.
Proof.
  intros Hn. unfold dec_text_of, dec_value_of.
  destruct (n =? 0) eqn:E0; [cbn; lia|].
  replace (n <? 0) with false by (symmetry; apply Z.ltb_ge; lia).
  cbn [app]. rewrite map_map.
  rewrite (map_ext _ (fun d => d)) by (intros; lia). rewrite map_id.
  rewrite Z.abs_eq by lia. apply of_to_digits; lia.
Qed.

Lemma dec_text_all_digits n : 0 <= n -> all_digits (dec_text_of n) = true.
Proof.
  intros Hn. unfold dec_text_of, all_digits.
  destruct (n =? 0) eqn:E0; [reflexivity|].
  replace (n <? 0) with false by (symmetry; apply Z.ltb_ge; lia). cbn [app].
  rewrite forallb_forall. intros c Hc. apply in_map_iff in Hc as [d [<- Hd]].
  pose proof (to_digits_ok 10 (Z.abs n) ltac:(lia) ltac:(lia)) as Hok.
  unfold digits_ok in Hok. rewrite Forall_forall in Hok. specialize (Hok d Hd).
  unfold is_digit. lia.
Qed.

Lemma dec_text_nonempty n : dec_text_of n <> [].
Proof.
  unfold dec_text_of. destruct (n =? 0) eqn:E0; [congruence|].
  destruct (n <? 0); cbn [app]; [congruence|].
  unfold to_digits, digit_fuel. cbn [to_digits_aux].
  replace (Z.abs n <=? 0) with false by (symmetry; apply Z.leb_gt; lia).
  intros H.
  assert (forall f b m acc, acc <> [] -> to_digits_aux f b m acc <> []) as X.
  { induction f as [|f IH]; intros b m acc Hacc; cbn; [exact Hacc|].
    destruct (m <=? 0); [exact Hacc|]. apply IH. congruence. }
  apply map_eq_nil in H. eapply X; [|exact H]. congruence.
Qed.
