(* Runner entry points: one number per executable model function.  The Python
   harness reads the "(* ENTRY n name *)" comments to build its name table. *)
From HX Require Import Model.Base Model.Cell Model.EmitterEntry.

Definition dispatch (e : Z) (a : list Z) : list Z :=
  match e with
  | 1901 => e_col_l2i a    (* ENTRY 1901 col_l2i *)
  | 1902 => e_col_i2l a    (* ENTRY 1902 col_i2l *)
  | 1903 => e_row_l2i a    (* ENTRY 1903 row_l2i *)
  | 1904 => e_row_i2l a    (* ENTRY 1904 row_i2l *)
  | 1905 => e_extract a    (* ENTRY 1905 extract *)
  | 2001 => e_emitter a    (* ENTRY 2001 emitter *)
  | _ => [-999]
  end.
