(* C08 through the LR driver: an error that is RAISED during the evaluation of a formula (an error literal, an unknown
   name) is what Parser.parse reports, whatever surrounds it - by the theorem of Proofs/LRfull.v the real driver on the
   generated tables ends with exactly the failure of the post-order evaluation. *)
From HX Require Import Model.Base Model.Lexer Model.Value Model.Operators Model.Interp Proofs.LRcert Proofs.LRvalue Proofs.LRfull.
Open Scope Z_scope.

Theorem raised_error_is_reported h s e er : s <> [] -> lex s = LexOk (xtoks e) -> xwp e ->
  fst (xval h e) = RRaise er -> fst (parse_formula h s) = PError er.
Proof. intros Hs Hl Hw Hr. rewrite (parse_formula_expr h s e Hs Hl Hw). cbn [fst]. rewrite Hr. reflexivity. Qed.
Theorem error_literal_raises h s : xval h (XErr s) = (RRaise (err_of_text s), []).
Proof. reflexivity. Qed.
(* under every operator, on either side (the left operand is evaluated first) *)
Theorem error_literal_left h b s r : xval h (XBin b (XErr s) r) = (RRaise (err_of_text s), []).
Proof. reflexivity. Qed.
Theorem error_literal_right h b l s v evs : xval h l = (ROk v, evs) -> xval h (XBin b l (XErr s)) = (RRaise (err_of_text s), evs).
Proof. intros H. cbn [xval]. rewrite H. cbn [ebind]. rewrite app_nil_r. reflexivity. Qed.
Theorem error_literal_negated h s : xval h (XNeg (XErr s)) = (RRaise (err_of_text s), []).
Proof. reflexivity. Qed.
Theorem error_literal_parenthesised h s : xval h (XPar (XErr s)) = (RRaise (err_of_text s), []).
Proof. reflexivity. Qed.
(* as an argument of any call - custom or built-in, trapping or not - once the arguments before it have evaluated: the call
   itself is never made (no event), IFERROR and friends cannot observe a raised error *)
Theorem error_literal_argument h sp name pre s post vs evs : xvals (xval h) pre = (ROk vs, evs) ->
  xval h (XCall sp name (pre ++ XErr s :: post)) = (RRaise (err_of_text s), evs).
Proof.
  intros H. cbn [xval].
  assert (xvals (xval h) (pre ++ XErr s :: post) = (RRaise (err_of_text s), evs)) as ->; [|reflexivity].
  revert vs evs H. induction pre as [|a pre IH]; intros vs evs H.
  - cbn in H. inversion H; subst. reflexivity.
  - cbn [app]. rewrite xvals_cons in H |- *. destruct (xval h a) as [[v|e| |] ev]; cbn [ebind] in *; try discriminate.
    destruct (xvals (xval h) pre) as [[ws|e| |] ev2] eqn:E; cbn [ebind] in *; try discriminate.
    inversion H; subst. rewrite (IH ws ev2 eq_refl). cbn [ebind]. rewrite app_nil_r. reflexivity.
Qed.
(* the nine spellings denote the nine codes *)
Theorem error_literal_codes :
  map err_of_text [[35;78;85;76;76;33]; [35;68;73;86;47;48;33]; [35;86;65;76;85;69;33]; [35;82;69;70;33]; [35;78;65;77;69;63]; [35;78;85;77;33];
                   [35;78;47;65]; [35;69;82;82;79;82;33]; [35;71;69;84;84;73;78;71;95;68;65;84;65]] =
  [ENULL; EDIV0; EVALUE; EREF; ENAME; ENUM; ENA; EERROR; EDATA].
Proof. reflexivity. Qed.
