(* ExcelComparator (formulas/operators.py) on scalar values.
   Numbers are exact rationals (Python compares int/float/int-vs-float exactly); a date-time is
   compared through its serial (serialize_date), text by code points, logicals FALSE < TRUE. *)
From Coq Require Export QArith.
From HX Require Export Model.Base Model.Calendar Model.Serial.
Open Scope Z_scope.

Inductive sval :=
  | SNum (q : Q)
  | SDate (t : datetime)
  | SText (s : list Z)
  | SBool (b : bool)
  | SBlank.

Definition day_pos : positive := 86400000000%positive.
Definition serial_q (t : datetime) : Q := Qmake (serial_us t) day_pos.

(* ExcelComparator.__init__ / convert_other: a datetime becomes its serial *)
Definition undate (v : sval) : sval := match v with SDate t => SNum (serial_q t) | _ => v end.

Definition qltb (x y : Q) : bool := Qnum x * QDen y <? Qnum y * QDen x.
Definition qeqb (x y : Q) : bool := Qnum x * QDen y =? Qnum y * QDen x.

Fixpoint text_ltb (a b : list Z) : bool :=
  match a, b with
  | [], [] => false
  | [], _ :: _ => true
  | _ :: _, [] => false
  | x :: a', y :: b' => if x <? y then true else if y <? x then false else text_ltb a' b'
  end.
Definition bool_ltb (a b : bool) : bool := negb a && b.

(* convert_other(None): the blank becomes the zero of self's kind *)
Definition blank_as (self : sval) : sval :=
  match self with
  | SBool _ => SBool false
  | SNum _ | SDate _ => SNum 0
  | SText _ => SText []
  | SBlank => SBlank
  end.

(* comparison of two non-blank, date-free values: the rank branch, then the native comparison *)
Definition lt_core (a b : sval) : bool :=
  match a, b with
  | SNum x, SNum y => qltb x y
  | SText x, SText y => text_ltb x y
  | SBool x, SBool y => bool_ltb x y
  | SBool _, _ => false            (* bool is the biggest *)
  | SText _, SBool _ => true
  | SText _, SNum _ => false
  | SNum _, _ => true              (* a number is smaller than text and logicals *)
  | _, _ => false
  end.
Definition gt_core (a b : sval) : bool :=
  match a, b with
  | SNum x, SNum y => qltb y x
  | SText x, SText y => text_ltb y x
  | SBool x, SBool y => bool_ltb y x
  | SBool _, _ => true
  | SText _, SBool _ => false
  | SText _, SNum _ => true
  | SNum _, _ => false
  | _, _ => false
  end.
Definition eq_core (a b : sval) : bool :=
  match a, b with
  | SNum x, SNum y => qeqb x y
  | SText x, SText y => list_eqb x y
  | SBool x, SBool y => Bool.eqb x y
  | _, _ => false
  end.

(* __lt__, __gt__, __eq__ with the blank handling of the code *)
Definition cmp_lt (a b : sval) : bool :=
  let a := undate a in let b := undate b in
  match a, b with
  | SBlank, SBlank => false
  | SBlank, _ => gt_core b (blank_as b)          (* ExcelComparator(other).__gt__(None) *)
  | _, SBlank => lt_core a (blank_as a)
  | _, _ => lt_core a b
  end.
Definition cmp_gt (a b : sval) : bool :=
  let a := undate a in let b := undate b in
  match a, b with
  | SBlank, SBlank => false
  | SBlank, _ => lt_core b (blank_as b)
  | _, SBlank => gt_core a (blank_as a)
  | _, _ => gt_core a b
  end.
Definition cmp_eq (a b : sval) : bool :=
  let a := undate a in let b := undate b in
  match a, b with
  | SBlank, SBlank => true
  | SBlank, _ => eq_core b (blank_as b)
  | _, SBlank => eq_core a (blank_as a)
  | _, _ => eq_core a b
  end.
Definition cmp_le (a b : sval) : bool := cmp_lt a b || cmp_eq a b.   (* __le__ *)
Definition cmp_ge (a b : sval) : bool := cmp_gt a b || cmp_eq a b.   (* __ge__ *)
Definition cmp_ne (a b : sval) : bool := negb (cmp_eq a b).          (* default __ne__ *)

(* ---------- runner entry: [op; a...; b...] with values encoded as
   0 num den | 1 y m d h mi s us | 2 len cps.. | 3 b | 4 ---------- *)
Definition dec_sval (l : list Z) : sval * list Z :=
  match l with
  | 0 :: n :: d :: r => (SNum (Qmake n (Z.to_pos d)), r)
  | 1 :: y :: m :: d :: h :: mi :: s :: u :: r => (SDate (DT y m d h mi s u), r)
  | 2 :: r => let '(t, r') := dec_text r in (SText t, r')
  | 3 :: b :: r => (SBool (dec_bool b), r)
  | 4 :: r => (SBlank, r)
  | _ => (SBlank, [])
  end.
Definition e_compare (a : list Z) : list Z :=
  match a with
  | op :: r =>
      let '(x, r1) := dec_sval r in
      let '(y, _) := dec_sval r1 in
      [enc_bool (match op with
                 | 0 => cmp_lt x y | 1 => cmp_gt x y | 2 => cmp_eq x y
                 | 3 => cmp_le x y | 4 => cmp_ge x y | _ => cmp_ne x y end)]
  | _ => [-1]
  end.
