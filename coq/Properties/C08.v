(* C08 — Error values propagate through operators and can be trapped.
   Property theorems only; proofs are in Proofs/ErrorFlowProofs.v. *)
From HX Require Import Model.Value Model.Operators Model.Logic Model.ErrorFlow Proofs.ErrorFlowProofs.
From HX Require Model.Lexer Model.Interp Proofs.LRfull Proofs.ErrorLiteral.
From HX Require Import Model.PredShape Model.TrapShape Gen.TrapFns Proofs.TrapSource.
Open Scope Z_scope.

(* an error operand of an arithmetic, comparison or concatenation operator is the result, the left one first *)
Theorem C08_operator_left_error : forall b e rv, eval_bin b (VErr e) rv = Ret (VErr e).
Proof. exact bin_left_error. Qed.
Theorem C08_operator_right_error : forall b lv e, is_err lv = false -> eval_bin b lv (VErr e) = Ret (VErr e).
Proof. exact bin_right_error. Qed.
Theorem C08_unary_minus_error : forall e, eval_neg (VErr e) = Ret (VErr e).
Proof. exact neg_error. Qed.
(* ... on expression trees of any depth *)
Theorem C08_tree_left : forall b l r e rv, eval l = Ret (VErr e) -> eval r = Ret rv -> eval (EBin b l r) = Ret (VErr e).
Proof. exact tree_bin_left_error. Qed.
Theorem C08_tree_right : forall b l r lv e, eval l = Ret lv -> is_err lv = false -> eval r = Ret (VErr e) ->
  eval (EBin b l r) = Ret (VErr e).
Proof. exact tree_bin_right_error. Qed.
Theorem C08_tree_neg : forall x e, eval x = Ret (VErr e) -> eval (ENeg x) = Ret (VErr e).
Proof. exact tree_neg_error. Qed.

(* an error literal written anywhere in the formula (first in evaluation order) makes the whole formula report it *)
Theorem C08_error_literal_reports : forall e x, raises_first e x -> top (eval x) = RecError e.
Proof. exact error_literal_reports. Qed.
(* an error that reaches the top is reported under error with an empty result; a result is never an error *)
Theorem C08_top_reports : forall x e, eval x = Ret (VErr e) \/ eval x = RaiseErr e -> top (eval x) = RecError e.
Proof. exact top_reports_error. Qed.
Theorem C08_result_never_error : forall x v, top (eval x) = RecResult v -> is_err v = false.
Proof. exact top_result_never_error. Qed.

(* every error VALUE - produced by an operator, by a function returning it or by a function raising it, at any
   depth - evaluates to that error value ... *)
Theorem C08_produced_errors_are_values : forall e x, produces e x -> eval x = Ret (VErr e).
Proof. exact produces_value. Qed.
(* ... and is observed by the trapping functions *)
Theorem C08_traps_observe : forall e x y w, produces e x -> eval y = Ret w ->
  eval (ECall FIFERROR [x; y]) = Ret w /\ eval (ECall FISERROR [x]) = Ret (VBool true) /\
  eval (ECall FISERR [x]) = Ret (VBool (negb (err_eqb e ENA))) /\ eval (ECall FISNA [x]) = Ret (VBool (err_eqb e ENA)) /\
  eval (ECall FIFNA [x; y]) = Ret (if err_eqb e ENA then w else VErr e).
Proof. exact traps_observe_every_error. Qed.
(* IFERROR(x, y) = y exactly when x is an error *)
Theorem C08_IFERROR_iff : forall x y v w, eval x = Ret v -> eval y = Ret w ->
  eval (ECall FIFERROR [x; y]) = Ret (if is_err v then w else v).
Proof. exact IFERROR_iff. Qed.
Theorem C08_ISERROR_is_ISERR_or_ISNA : forall v, p_ISERROR v = p_ISERR v || p_ISNA v.
Proof. exact ISERROR_is_ISERR_or_ISNA. Qed.
Theorem C08_ERROR_TYPE : 
  error_type (VErr ENULL) = VInt 1 /\ error_type (VErr EDIV0) = VInt 2 /\ error_type (VErr EVALUE) = VInt 3 /\
  error_type (VErr EREF) = VInt 4 /\ error_type (VErr ENAME) = VInt 5 /\ error_type (VErr ENUM) = VInt 6 /\
  error_type (VErr ENA) = VInt 7 /\ error_type (VErr EDATA) = VInt 8 /\
  (forall v, is_err v = false -> error_type v = VErr ENA).
Proof. exact ERROR_TYPE_table. Qed.
(* the source terms of IFERROR / IFNA and the ERROR.TYPE table (Gen/TrapFns.v, regenerated from logic.py and
   information.py on every run) ARE the bodies the theorems above speak about (Proofs/TrapSource.v) *)
Theorem C08_source_traps_are_the_model : forall args,
  run_trap gen_IFERROR args = body FIFERROR args /\ run_trap gen_IFNA args = body FIFNA args.
Proof. intros args. exact (conj (source_IFERROR_is_model args) (source_IFNA_is_model args)). Qed.
Theorem C08_source_ERROR_TYPE_is_the_model : forall v,
  run_table gen_ERROR_TYPE_table gen_ERROR_TYPE_default v = error_type v /\ keys_distinct gen_ERROR_TYPE_table = true.
Proof. exact source_ERROR_TYPE_is_model. Qed.
Theorem C08_source_traps_understood : trap_gen_ok = true.
Proof. exact source_traps_understood. Qed.
Theorem C08_source_IFERROR_iff : forall v w, run_trap gen_IFERROR [v; w] = Ret (if is_err v then w else v).
Proof. intros v w. rewrite source_IFERROR_is_model. reflexivity. Qed.

(* errors raised inside function bodies become values at the call boundary *)
Theorem C08_raising_function : forall e args vs, Forall2 (fun a v => eval a = Ret v) args vs ->
  eval (ECall (FRAISE e) args) = Ret (VErr e).
Proof. exact raising_function_yields_value. Qed.
Theorem C08_aggregate_error : forall args vs e, Forall2 (fun a v => eval a = Ret v) args vs ->
  first_error (flatten_args vs) = Some e -> eval (ECall FSUM args) = Ret (VErr e).
Proof. exact aggregate_error_yields_value. Qed.
(* a raised error (literal, unknown name) is not a value: no trap sees it *)
Theorem C08_raised_error_not_trapped : forall e x y, raises_first e x -> eval (ECall FIFERROR [x; y]) = RaiseErr e.
Proof. exact raised_error_not_trapped. Qed.

Example C08_examples :
  top (eval (EBin (BCmp 2) (EBin (BArith 3) (EVal (VInt 1)) (EVal (VInt 0))) (EVal (VInt 1)))) = RecError EDIV0 /\
  top (eval (ECall FIFERROR [ECall FSUM [EBin (BArith 3) (EVal (VInt 1)) (EVal (VInt 0))]; EVal (VInt 0)])) = RecResult (VInt 0) /\
  top (eval (ENeg (EBin (BArith 3) (EVal (VInt 1)) (EVal (VInt 0))))) = RecError EDIV0 /\
  top (eval (EBin BAmp (EBin (BArith 3) (EVal (VInt 1)) (EVal (VInt 0))) (EVal (VText [97])))) = RecError EDIV0 /\
  top (eval (ECall FIFERROR [EErrLit ENA; EVal (VInt 1)])) = RecError ENA /\
  top (eval (EBin (BArith 0) (EVal (VErr ENUM)) (EVal (VErr EREF)))) = RecError ENUM /\
  produces EDIV0 (EBin (BArith 0) (EVal (VInt 1)) (ECall FSUM [EBin (BArith 3) (EVal (VInt 1)) (EVal (VInt 0))])).
Proof.
  repeat split; try (vm_compute; reflexivity).
  eapply pr_bin_r; [reflexivity|reflexivity|]. eapply pr_sum; [constructor; [|constructor]|]; vm_compute; reflexivity.
Qed.


(* ---------- through the real LR driver (Proofs/LRfull.v): an error literal written anywhere in a formula of the
   reference grammar makes the whole formula report that error; a raised error cannot be trapped ---------- *)
Theorem C08_raised_error_is_reported : forall h s e er, s <> [] -> Lexer.lex s = Lexer.LexOk (LRfull.xtoks e) -> LRfull.xwp e ->
  fst (LRfull.xval h e) = Interp.RRaise er -> fst (Interp.parse_formula h s) = Interp.PError er.
Proof. exact ErrorLiteral.raised_error_is_reported. Qed.
Theorem C08_error_literal_left_operand : forall h b s r, LRfull.xval h (LRfull.XBin b (LRfull.XErr s) r) = (Interp.RRaise (Interp.err_of_text s), []).
Proof. exact ErrorLiteral.error_literal_left. Qed.
Theorem C08_error_literal_right_operand : forall h b l s v evs, LRfull.xval h l = (Interp.ROk v, evs) ->
  LRfull.xval h (LRfull.XBin b l (LRfull.XErr s)) = (Interp.RRaise (Interp.err_of_text s), evs).
Proof. exact ErrorLiteral.error_literal_right. Qed.
Theorem C08_error_literal_argument : forall h sp name pre s post vs evs, LRfull.xvals (LRfull.xval h) pre = (Interp.ROk vs, evs) ->
  LRfull.xval h (LRfull.XCall sp name (pre ++ LRfull.XErr s :: post)) = (Interp.RRaise (Interp.err_of_text s), evs).
Proof. exact ErrorLiteral.error_literal_argument. Qed.

Print Assumptions C08_operator_left_error.
Print Assumptions C08_tree_right.
Print Assumptions C08_error_literal_reports.
Print Assumptions C08_produced_errors_are_values.
Print Assumptions C08_traps_observe.
Print Assumptions C08_IFERROR_iff.
Print Assumptions C08_source_traps_are_the_model.
Print Assumptions C08_source_ERROR_TYPE_is_the_model.
Print Assumptions C08_aggregate_error.
Print Assumptions C08_raised_error_not_trapped.
Print Assumptions C08_raised_error_is_reported.
Print Assumptions C08_error_literal_argument.
