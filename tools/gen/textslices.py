# -*- coding: utf-8 -*-
"""Generates coq/Gen/TextSlices.v from hotxlfp/formulas/text.py of the tree under test (python ast, fail-closed):
LEFT, RIGHT and MID as terms of the slice language of coq/Model/PySlice.v.

Accepted shape of each function (anything else clears slices_gen_ok, which breaks the theorems that consume it):

    def NAME(text, p1[, p2]=defaults):
        if <int-exp> < <int-exp> or ... or not isinstance(text, string_types):
            return error.VALUE
        return <slice-exp>

    int-exp   ::= parameter | integer literal | len(text) | e + e | e - e | max(e, e) | min(e, e) | -literal
    slice-exp ::= text | slice-exp[lo:hi]      (lo, hi optional int-exps; no step)
"""
import ast
import os

NAMES = ('LEFT', 'RIGHT', 'MID')


class Unknown(Exception):
    pass


def find_func(tree, name):
    for node in tree.body:
        if isinstance(node, ast.FunctionDef) and node.name == name:
            return node
    return None


def iexp(n, params):
    if isinstance(n, ast.Name) and n.id in params[1:]:
        return '(IArg %d)' % (params.index(n.id) - 1)
    if isinstance(n, ast.Constant) and type(n.value) is int:
        return '(ILit %s)' % (str(n.value) if n.value >= 0 else '(%d)' % n.value)
    if isinstance(n, ast.UnaryOp) and isinstance(n.op, ast.USub) and isinstance(n.operand, ast.Constant) and type(n.operand.value) is int:
        return '(ILit (-%d))' % n.operand.value
    if isinstance(n, ast.BinOp) and isinstance(n.op, (ast.Add, ast.Sub)):
        return '(%s %s %s)' % ('IAdd' if isinstance(n.op, ast.Add) else 'ISub', iexp(n.left, params), iexp(n.right, params))
    if isinstance(n, ast.Call) and isinstance(n.func, ast.Name) and not n.keywords:
        if n.func.id == 'len' and len(n.args) == 1 and isinstance(n.args[0], ast.Name) and n.args[0].id == params[0]:
            return 'ILen'
        if n.func.id in ('max', 'min') and len(n.args) == 2:
            return '(%s %s %s)' % ('IMax' if n.func.id == 'max' else 'IMin', iexp(n.args[0], params), iexp(n.args[1], params))
    raise Unknown('integer expression not understood: ' + ast.dump(n))


def sexp(n, params):
    if isinstance(n, ast.Name) and n.id == params[0]:
        return 'SText'
    if isinstance(n, ast.Subscript) and isinstance(n.slice, ast.Slice) and n.slice.step is None:
        lo = 'None' if n.slice.lower is None else '(Some %s)' % iexp(n.slice.lower, params)
        hi = 'None' if n.slice.upper is None else '(Some %s)' % iexp(n.slice.upper, params)
        return '(SSlice %s %s %s)' % (sexp(n.value, params), lo, hi)
    raise Unknown('slice expression not understood: ' + ast.dump(n))


def is_not_str_test(n, params):
    return (isinstance(n, ast.UnaryOp) and isinstance(n.op, ast.Not) and isinstance(n.operand, ast.Call)
            and isinstance(n.operand.func, ast.Name) and n.operand.func.id == 'isinstance' and len(n.operand.args) == 2
            and isinstance(n.operand.args[0], ast.Name) and n.operand.args[0].id == params[0]
            and isinstance(n.operand.args[1], ast.Name) and n.operand.args[1].id == 'string_types')


def is_error_value(n):
    return isinstance(n, ast.Attribute) and n.attr == 'VALUE' and isinstance(n.value, ast.Name) and n.value.id == 'error'


def translate(fn):
    a = fn.args
    if a.vararg or a.kwarg or a.kwonlyargs or getattr(a, 'posonlyargs', []):
        raise Unknown('parameter list not understood')
    params = [x.arg for x in a.args]
    if len(params) < 2:
        raise Unknown('fewer than two parameters')
    defaults = []
    for d in a.defaults:
        if not (isinstance(d, ast.Constant) and type(d.value) is int):
            raise Unknown('default not an integer literal')
        defaults.append(d.value)
    body = [s for s in fn.body if not (isinstance(s, ast.Expr) and isinstance(s.value, ast.Constant))]
    if len(body) != 2 or not isinstance(body[0], ast.If) or body[0].orelse or len(body[0].body) != 1 \
            or not isinstance(body[0].body[0], ast.Return) or not is_error_value(body[0].body[0].value) \
            or not isinstance(body[1], ast.Return) or body[1].value is None:
        raise Unknown('body is not "if <guards>: return error.VALUE; return <slice>"')
    test = body[0].test
    disj = test.values if isinstance(test, ast.BoolOp) and isinstance(test.op, ast.Or) else [test]
    guards = []
    seen_str = False
    for g in disj:
        if is_not_str_test(g, params):
            seen_str = True
        elif isinstance(g, ast.Compare) and len(g.ops) == 1 and isinstance(g.ops[0], (ast.Lt, ast.Gt)):
            l, r = iexp(g.left, params), iexp(g.comparators[0], params)
            guards.append('GLt %s %s' % ((l, r) if isinstance(g.ops[0], ast.Lt) else (r, l)))
        else:
            raise Unknown('guard not understood: ' + ast.dump(g))
    if not seen_str:
        raise Unknown('no "not isinstance(text, string_types)" guard')
    return ('{| sf_arity := %d; sf_guards := [%s]; sf_body := %s |}'
            % (len(params) - 1, '; '.join(guards), sexp(body[1].value, params))), defaults


def generate(repo_root):
    src = open(os.path.join(repo_root, 'hotxlfp', 'formulas', 'text.py')).read()
    tree = ast.parse(src)
    out = ['(* GENERATED by tools/gen/textslices.py from hotxlfp/formulas/text.py of the tree under test: LEFT, RIGHT, MID as',
           '   terms of the slice language of Model/PySlice.v.  A function the translator does not understand is emitted as',
           '   an empty-bodied term with slices_gen_ok = false, and the theorems of Proofs/SliceProofs.v no longer check. *)',
           'From HX Require Import Model.PySlice.', 'Open Scope Z_scope.', '']
    ok = True
    notes = []
    for name in NAMES:
        fn = find_func(tree, name)
        try:
            if fn is None:
                raise Unknown('function not found')
            term, defaults = translate(fn)
        except Unknown as e:
            ok = False
            notes.append('%s: %s' % (name, e))
            term, defaults = '{| sf_arity := 0; sf_guards := []; sf_body := SText |}', []
        out.append('Definition gen_%s : slicefn := %s.' % (name, term))
        out.append('Definition gen_%s_defaults : list Z := [%s].' % (name, '; '.join(str(d) if d >= 0 else '(%d)' % d for d in defaults)))
    out.append('Definition slices_gen_ok : bool := %s.' % ('true' if ok else 'false'))
    for n in notes:
        out.append('(* NOT UNDERSTOOD: %s *)' % n.replace('*)', '* )')[:400])
    return '\n'.join(out) + '\n', ok, notes


def write(path, repo_root):
    new, ok, notes = generate(repo_root)
    old = open(path).read() if os.path.exists(path) else None
    if old != new:
        with open(path, 'w') as f:
            f.write(new)
        return True, ok, notes
    return False, ok, notes


if __name__ == '__main__':
    import sys
    print(generate(sys.argv[1] if len(sys.argv) > 1 else '/repo')[0])
