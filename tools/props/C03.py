# -*- coding: utf-8 -*-
"""C03 - parser instances are isolated; evaluation is re-entrant and thread-independent.  Theorems: Properties/C03.v."""
import os
import random
import sys
import threading

from common import Result, pmap, VERIF, canon_py, HANG

ID = 'C03'
COQ_FILES = ['Properties/C03.v', 'Proofs/SessionsProofs.v', 'Model/Sessions.v', 'Gen/Sessions.v']
TRUSTED = [
    'Gen/Sessions.v regenerated on every run by tools/gen/sessions.py (python ast, fail-closed): grammarparser.Parser builds its own '
    'lexer and LR parser and lexes every evaluation through self.lex.clone(); hotxlfp.Parser creates its own binding dicts and '
    'listener table; register_for is only used as a top-level decorator; no global statement / cache / mutable default in the package',
    'modelled, not verified: the CPython interpreter lock and thread scheduler (the model interleaves single token fetches; real '
    'threads switch at bytecode boundaries inside ply and the built-ins), ply LRParser keeping its stacks in locals of parse(); '
    'these are exercised by the nested / threaded runs of this check, not exhibited by the model',
]
EXPLANATION = ('Coq theorems over a session model with explicit lexer objects: with a private lexer object per evaluation, evaluations '
               'nested to depth 2 at ANY fetch positions (same or other parser) and two threads under ANY schedule of single fetches '
               'each read exactly the tokens of their own text and leave every older lexer object untouched; with ply\'s global lexer '
               'object both statements are refuted by computation (the defect fix 6d6fa5b repaired). The facts the model depends on '
               'are generated from the source. Tied to the code by all pairs of formulas x all hook positions (custom function, each '
               'listener) x {other pre-built parser, same parser} x depth 1..2 against solo outcomes, invisibility of registrations '
               'across parsers, and multi-threaded runs with a tiny switch interval and yielding callbacks.')
ASSUMPTIONS = ['threads use distinct parser objects (the property); callbacks return']


def gen(ctx):
    sys.path.insert(0, os.path.join(VERIF, 'tools', 'gen'))
    import sessions
    root = os.environ.get('VERIF_SNAPSHOT', '/repo')
    c = sessions.write(os.path.join(VERIF, 'coq', 'Gen', 'Sessions.v'), root)
    return {'Gen/Sessions.v': 'regenerated (changed)' if c else 'regenerated (identical to the committed baseline)'}


# outer formulas with one or more hook sites H() / hv (variable listener) / Q7 (cell listener) / Q7:Q8 (range listener)
OUTER = ['%s+1+2', '1+%s+2', '1+2+%s', 'SUM(1,%s,3)', 'IF(%s>0,"p","n")&"x"', '(%s)*(%s)', '-%s', '"a"&%s&"b"', 'REC(%s,2,%s)', '%s', '{1,2}+%s', 'IFERROR(1/0,%s)+1',
         'MAX(%s,aa)-aa', 'aa*%s+bb', 'SUM(%s,%s,%s)']
INNER = ['1+1', '2*3+4', 'SUM(1,2,3)', 'aa*2', '"t"&1', '1/0', 'NOPE()', '1+', 'IF(1<2,10,20)', '{1,2,3}', 'zz+1', '100', '-(2+3)', 'MAX(5,aa)', '#N/A', 'REC(1,2)']
HOOKS = ['H()', 'hv', 'Q7', 'Q7:Q8']


def make(role):
    """role 'outer' / 'other' parsers differ in their bindings so that leaking registrations are visible"""
    import hotxlfp
    p = hotxlfp.Parser()
    p.set_function('REC', lambda *a: list(a))
    if role == 'outer':
        p.set_variable('aa', 5)
        p.set_variable('bb', 7)
    else:
        p.set_variable('aa', 50)
        p.set_variable('zz', 1000)
    return p


def outcome(p, f):
    try:
        r = p.parse(f)
    except BaseException as e:  # noqa
        return ('ESCAPED', type(e).__name__, str(e)[:80])
    return (canon_py(r.get('result')), r.get('error'))


def install(p, value_fn):
    """the four hook sites call value_fn() for their value"""
    p.set_function('H', lambda *a: value_fn())

    def on_var(name, done):
        if name == 'hv':
            done(value_fn())
    p.on('callVariable', on_var)

    def on_cell(cell, done):
        if cell.label == 'Q7':
            done(value_fn())
    p.on('callCellValue', on_cell)
    p.on('callRangeValue', lambda a, b, done: done(value_fn()))


def check_nested(item):
    """outer formula with hook sites; at each site an inner formula is evaluated on `where` (another pre-built parser or the
    same one); depth 2: the inner formula itself contains a hook that evaluates a third formula.  Every evaluation must yield
    its solo outcome."""
    oi, hook, inner, where, depth, third = item
    outer_f = OUTER[oi].replace('%s', hook)
    out = []
    # solo outcome of the inner formula on the parser it will run on
    solo_inner = outcome(make('outer') if where == 'same' else make('other'), inner)

    def plain_value(o):
        # the Python value a nested parse hands back: result (None on error)
        c, err = o[0], o[1]
        if err is not None or not isinstance(c, tuple):
            return None
        return unc(c)
    ref = make('outer')
    install(ref, lambda: plain_value(solo_inner))
    want_outer = outcome(ref, outer_f)
    # nested run
    p = make('outer')
    q = p if where == 'same' else make('other')
    inner_seen = []

    def nested():
        r = outcome(q, inner)
        inner_seen.append(r)
        return plain_value(r)
    install(p, nested)
    got_outer = outcome(p, outer_f)
    if got_outer != want_outer:
        out.append(('outer %r with %r evaluated on %s parser at each %s' % (outer_f, inner, where, hook), None, repr(want_outer), repr(got_outer)))
    # when the inner runs on the SAME parser its own hooks would recurse; compare only inner formulas without hooks (all of INNER)
    for r in inner_seen:
        if r != solo_inner:
            out.append(('inner %r evaluated on %s parser inside %r' % (inner, where, outer_f), None, repr(solo_inner), repr(r)))
            break
    if not inner_seen and hook in outer_f and 'IFERROR' not in outer_f:
        out.append(('hook %s in %r never fired' % (hook, outer_f), None, 'fired', 'not fired'))
    return out


def unc(c):
    t = c[0]
    if t == 'I':
        return c[1]
    if t == 'F':
        return float(c[1])
    if t == 'B':
        return bool(c[1])
    if t == 'T':
        return c[1]
    if t == 'N':
        return None
    if t == 'L':
        return [unc(x) for x in c[1]]
    return None


def check_depth2(item):
    """three parsers: p evaluates outer; its hook evaluates mid on q; mid's hook evaluates leaf on r (or back on p)"""
    oi, mi, leaf, back = item
    outer_f = OUTER[oi].replace('%s', 'H()')
    mid_f = OUTER[mi].replace('%s', 'H()')
    solo_leaf = outcome(make('other'), leaf) if not back else outcome(make('outer'), leaf)
    v_leaf = unc(solo_leaf[0]) if solo_leaf[1] is None and isinstance(solo_leaf[0], tuple) else None
    ref_q = make('other')
    install(ref_q, lambda: v_leaf)
    solo_mid = outcome(ref_q, mid_f)
    v_mid = unc(solo_mid[0]) if solo_mid[1] is None and isinstance(solo_mid[0], tuple) else None
    ref_p = make('outer')
    install(ref_p, lambda: v_mid)
    want = outcome(ref_p, outer_f)
    p, q, r = make('outer'), make('other'), make('other')
    leaf_parser = p if back else r
    seen = {'mid': [], 'leaf': []}

    def leaf_hook():
        # the leaf formula has no H(); on parser p (back=True) H is installed, but the formula does not use it
        o = outcome(leaf_parser, leaf)
        seen['leaf'].append(o)
        return unc(o[0]) if o[1] is None and isinstance(o[0], tuple) else None

    def mid_hook():
        o = outcome(q, mid_f)
        seen['mid'].append(o)
        return unc(o[0]) if o[1] is None and isinstance(o[0], tuple) else None
    install(q, leaf_hook)
    install(p, mid_hook)
    got = outcome(p, outer_f)
    out = []
    if got != want:
        out.append(('depth 2: %r -> %r -> %r (leaf on %s)' % (outer_f, mid_f, leaf, 'the outer parser' if back else 'a third parser'), None, repr(want), repr(got)))
    if any(o != solo_mid for o in seen['mid']):
        out.append(('depth 2 mid %r inside %r' % (mid_f, outer_f), None, repr(solo_mid), repr(seen['mid'][:3])))
    if any(o != solo_leaf for o in seen['leaf']):
        out.append(('depth 2 leaf %r inside %r inside %r' % (leaf, mid_f, outer_f), None, repr(solo_leaf), repr(seen['leaf'][:3])))
    return out


def check_registrations(_):
    import hotxlfp
    a, b = hotxlfp.Parser(), hotxlfp.Parser()
    out = []
    a.set_variable('onlya', 1)
    a.set_function('ONLYA', lambda *x: 1)
    a.set_variable('TRUE', 'shadowed')
    a.set_function('SUM', lambda *x: 'overridden')
    # names shaped like cell references, function names shaped like built-ins / cells: registering them on a changes how
    # nothing is read on b (the token language is not per parser)
    for n in ('A1', 'B2', 'a1', 'Q1', 'TAX2020', 'x', 'e', 'PI'):
        a.set_variable(n, 77)
    a.set_function('A1', lambda *x: 78)
    a.set_function('MAX', lambda *x: 79)
    # ... and USED on parser a (a memo filled at first use would leak them)
    used = [outcome(a, f) for f in ('ONLYA()+onlya', 'SUM(1,2)', 'TRUE', 'ONLYA()', 'SUM(ONLYA())')]
    if used[1] != (('T', 'overridden'), None) or used[3] != (('I', 1), None):
        out.append(('custom functions on parser a', None, "overridden / 1", repr(used)))
    calls = []
    for ev in ('callVariable', 'callFunction', 'callCellValue', 'callRangeValue'):
        a.on(ev, lambda *args: calls.append(args))
    for f, want in (('onlya', (('N',), '#NAME?')), ('ONLYA()', (('N',), '#NAME?')), ('TRUE', (('B', 1), None)), ('A1', (('N',), None)), ('SUM(1,2)', (('I', 3), None)), ('A1:B2', (('N',), None)),
                    ('Q1', (('N',), None)), ('a1', (('N',), None)), ('B2+1', (('I', 1), None)), ('TAX2020', (('N',), None)), ('x', (('N',), '#NAME?')), ('MAX(1,2)', (('I', 2), None)),
                    ('A1(1)', (('N',), '#NAME?')), ('SUM(Q1:Q4)', (('I', 0), None))):
        got = outcome(b, f)
        if got != want:
            out.append(('registered on parser a, evaluated on parser b: %s' % f, None, repr(want), repr(got)))
    if calls:
        out.append(('listeners of parser a fired for evaluations on parser b', None, '[]', repr(calls[:3])))
    c = hotxlfp.Parser()
    if outcome(c, 'onlya') != (('N',), '#NAME?') or outcome(c, 'TRUE') != (('B', 1), None):
        out.append(('a parser created after registrations on another one sees them', None, 'fresh bindings', repr((outcome(c, 'onlya'), outcome(c, 'TRUE')))))
    # error values made by one parser's host (a code nobody defines) do not teach other parsers new error codes
    from hotxlfp.formulas import error as _error
    m1, m2 = hotxlfp.Parser(), hotxlfp.Parser()
    before = [outcome(m2, f) for f in ('#BUSY!', '#BUSY!+1', 'BUSYFN()', 'IFERROR(#BUSY!,1)')]
    m1.set_function('BUSYFN', lambda *x: _error.XLError('#BUSY!'))
    m1.set_variable('busyv', _error.XLError('#BUSY!'))
    for f in ('BUSYFN()', 'busyv', 'BUSYFN()+1', 'IFERROR(BUSYFN(),1)', 'SUM(busyv,1)'):
        outcome(m1, f)
    after = [outcome(m2, f) for f in ('#BUSY!', '#BUSY!+1', 'BUSYFN()', 'IFERROR(#BUSY!,1)')]
    if after != before:
        out.append(('another parser produced XLError(#BUSY!) values in between: #BUSY!, #BUSY!+1, BUSYFN(), IFERROR(#BUSY!,1)', None, repr(before), repr(after)))
    # one callback object subscribed on several parsers (on / once), fired or unsubscribed on one of them: the
    # subscriptions on the others are untouched
    def fill(cell, done):
        done(41)
    for api in ('on', 'once'):
        solo = hotxlfp.Parser()
        getattr(solo, api)('callCellValue', fill)
        want = outcome(solo, 'A1+1')
        x, y, z = hotxlfp.Parser(), hotxlfp.Parser(), hotxlfp.Parser()
        for q in (x, y, z):
            getattr(q, api)('callCellValue', fill)
        z.off('callCellValue', fill)
        got = [outcome(x, 'A1+1'), outcome(y, 'A1+1')]
        if got != [want, want]:
            out.append(('%s(callCellValue, f) on three parsers, off() on the third, then A1+1 on the first two' % api, None, repr([want, want]), repr(got)))
        if outcome(z, 'A1+1') != outcome(hotxlfp.Parser(), 'A1+1'):
            out.append(('%s() then off() on one parser' % api, None, repr(outcome(hotxlfp.Parser(), 'A1+1')), repr(outcome(z, 'A1+1'))))
    # cell and range references: what one parser is asked to read (reversed corners, $ markers, case) leaves the cells the
    # other one reads alone - each listener answers from the coordinates it is handed
    def coords_sheet(q):
        q.on('callCellValue', lambda cell, done: done(100 * (cell.row.index + 1) + cell.col.index + 1))
        q.on('callRangeValue', lambda s, e, done: done([[100 * (r + 1) + c + 1 for c in range(s.col.index, e.col.index + 1)]
                                                        for r in range(s.row.index, e.row.index + 1)]))
    u, w = hotxlfp.Parser(), hotxlfp.Parser()
    coords_sheet(u)
    coords_sheet(w)
    for f in ('SUM(B2:A1)', 'SUM(C3:B2)', 'SUM($C$1:a3)', 'SUM(A3:C1)', 'b2+$B$2', 'SUM(D4:D4)'):
        outcome(u, f)
    for f, want in (('B2*10', 2020), ('A1+C3', 101 + 303), ('SUM(A1:B2)', 101 + 102 + 201 + 202), ('C1-A3', 103 - 301), ('SUM(B2:A1)', 101 + 102 + 201 + 202),
                    ('D4', 404), ('$b$2', 202)):
        got = outcome(w, f)
        if got != (('I', want), None):
            out.append(('cells read on one parser after reversed / marked ranges were read on another: %s' % f, None, repr((('I', want), None)), repr(got)))
    if b.variables is a.variables or b.functions is a.functions or b._e is a._e:
        out.append(('binding tables shared between parsers', None, 'distinct objects', 'shared'))
    return out


THREAD_FORMULAS = ['1+2*3-4/2', 'SUM(1,2,3,4,5)*aa', 'IF(aa>1,"yes","no")&"!"', 'REC(1,2,REC(3,4))', 'Y(1)+Y(2)*Y(3)', 'MAX(Y(5),aa)+SUM(Y(1),Y(2))', '"a"&"b"&"c"&aa',
                   'SUM({1,2,3})+Y(aa)', '1/0', 'NOPE()+1', '((((1+2)*3)+4)*5)', 'A1+B2*2', 'SUM(A1:B2)', '-aa+Y(3)', 'ROUND(2.567,1)+LEN("hello")', '1+']


def check_threads(item):
    nthreads, rounds, seed = item
    import time
    import hotxlfp
    rng = random.Random(seed)
    old = sys.getswitchinterval()
    sys.setswitchinterval(1e-6)
    try:
        def build(i):
            p = hotxlfp.Parser()
            p.set_variable('aa', i + 2)
            p.set_function('REC', lambda *a: list(a))
            p.set_function('Y', lambda x: (time.sleep(0), x * (i + 1))[1])      # yields to other threads mid-evaluation
            p.on('callCellValue', lambda cell, done: (time.sleep(0), done(i * 10 + len(cell.label))))
            p.on('callRangeValue', lambda a, b, done: done([i, i + 1]))
            return p
        if rounds < 0:
            # every registered function once per thread, after a yield, on a text label, a cell and a number: whatever a
            # built-in does with the host (none should know which parser called it), alone and concurrently it is the same
            from hotxlfp import formulas
            names = [n for n in formulas.supported() if n not in ('NOW', 'TODAY', 'RAND', 'RANDBETWEEN')]
            base = ['REC(Y(1),%s(%s))' % (n, a) for n in names for a in ('"A1"', 'A1', '"A1:B2"')]
            plans = []
            for _ in range(nthreads):
                pl = base[:]
                rng.shuffle(pl)
                plans.append(pl)
        else:
            plans = [[rng.choice(THREAD_FORMULAS) for _ in range(rounds)] for _ in range(nthreads)]
        solo = [[outcome(build(i), f) for f in plans[i]] for i in range(nthreads)]
        got = [None] * nthreads
        parsers = [build(i) for i in range(nthreads)]
        start = threading.Barrier(nthreads)

        def run(i):
            start.wait()
            got[i] = [outcome(parsers[i], f) for f in plans[i]]
        ts = [threading.Thread(target=run, args=(i,), daemon=True) for i in range(nthreads)]
        for t in ts:
            t.start()
        for t in ts:
            t.join()
    finally:
        sys.setswitchinterval(old)
    out = []
    for i in range(nthreads):
        for f, a, b in zip(plans[i], solo[i], got[i] or []):
            if a != b:
                out.append(('thread %d of %d: %s' % (i, nthreads, f), None, repr(a), repr(b)))
                break
    return out


CHECKERS = {'nested': check_nested, 'depth2': check_depth2, 'registrations': check_registrations, 'threads': check_threads}


def check_case(case):
    for k, fn in CHECKERS.items():
        if k in case:
            c = case[k]
            c = tuple(c) if isinstance(c, list) else c
            return [{'case': case, 'what': w, 'class': cls, 'expected': e, 'observed': g} for (w, cls, e, g) in fn(c)]
    return []


def _worker(kc):
    k, c = kc
    return [(k, c) + x for x in CHECKERS[k](c)]


def explore(ctx):
    R = Result()
    rng = ctx.rng
    big = ctx.thorough
    work = [('registrations', 0)]
    n1 = 0
    for oi in range(len(OUTER)):
        for hook in HOOKS:
            for inner in INNER:
                for where in ('other', 'same'):
                    work.append(('nested', (oi, hook, inner, where, 1, None)))
                    n1 += 1
    d2 = []
    for oi in range(len(OUTER)):
        for mi in range(len(OUTER)):
            for leaf in (INNER if big else rng.sample(INNER, 5)):
                for back in (False, True):
                    d2.append((oi, mi, leaf, back))
    work += [('depth2', x) for x in d2]
    nt = 60 if big else 12
    work = [('threads', (rng.choice([2, 3, 4, 8]), 200 if big else 60, ctx.seed * 100 + k)) for k in range(nt)] + \
        [('threads', (n, -1, ctx.seed * 100 + 50 + n)) for n in ((2, 3, 4, 6, 8) if big else (2, 4))] + work
    # in batches: on a tree where isolation is broken evaluations may never return; once a hundred violations are in
    # hand the rest of the sweep is skipped (the check must end in bounded time on a broken tree too)
    done = 0
    for lo in range(0, len(work), 320):
        batch = work[lo:lo + 320]
        lim = 120.0 if any(k == 'threads' for k, _ in batch) else 20.0
        for (k, c), vs in zip(batch, pmap(_worker, batch, limit=lim, confirm=False)):
            if vs == HANG:
                R.violate({k: list(c) if isinstance(c, tuple) else c}, '%s %r' % (k, c), None, 'returns', 'time limit')
                continue
            for (k_, c_, w, cls, e, g) in vs:
                R.violate({k: list(c) if isinstance(c, tuple) else c}, w, cls, e, g)
        done += len(batch)
        if len(R.violations) >= 100:
            R.extra['stopped_early_after'] = done
            break
    R.evaluations += done
    R.nontrivial_extra += len(work)
    R.extra['nested_cases'] = n1
    R.extra['depth2_cases'] = len(d2)
    R.extra['thread_runs'] = nt
    R.rule = ('all %d outer formulas (hook at the start / middle / end / inside calls / twice / three times) x 4 hook kinds (custom '
              'function, variable / cell / range listener) x %d inner formulas (valid, failing, syntax errors) x {another pre-built '
              'parser, the same parser}: outer and inner outcomes vs solo outcomes; depth 2 chains outer -> mid -> leaf over all pairs '
              'of outer shapes (leaf on a third parser or back on the first); registrations invisible across parsers; %d threaded runs '
              '(2-8 threads, distinct parsers, %d evaluations each, switch interval 1 us, callbacks that yield) vs solo outcomes.'
              % (len(OUTER), len(INNER), nt, 200 if big else 60))
    return R


def search(ctx, proof, res):
    R = Result()
    rng = random.Random(ctx.seed + 11)
    work = [('registrations', 0)]
    for oi in range(len(OUTER)):
        for hook in HOOKS:
            for inner in INNER[:8]:
                for where in ('other', 'same'):
                    work.append(('nested', (oi, hook, inner, where, 1, None)))
    for k in range(30):
        work.append(('threads', (rng.choice([2, 4, 8]), 150, 1000 + k)))
    work += [('threads', (n, -1, 2000 + n)) for n in (2, 3, 4, 8)]
    for (k, c), vs in zip(work, pmap(_worker, work, limit=120.0, confirm=False)):
        if vs == HANG:
            continue
        for (k_, c_, w, cls, e, g) in vs:
            R.violate({k: list(c) if isinstance(c, tuple) else c}, w, cls, e, g)
    R.evaluations = len(work)
    return R
