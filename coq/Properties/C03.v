(* C03 — Parser instances are isolated; evaluation is re-entrant and thread-independent.
   Property theorems only; proofs are in Proofs/SessionsProofs.v over Model/Sessions.v (explicit lexer objects).
   Gen/Sessions.v (where state lives: per-instance lexer/LR parser and a private lexer clone per evaluation,
   per-instance bindings and listener tables, closed registry, no module-level state) is regenerated from the source. *)
From HX Require Import Model.Base Model.Lexer Model.Sessions Proofs.SessionsProofs.
Local Open Scope nat_scope.

Theorem C03_generated_facts :
  parse_uses_private_lexer = true /\ bindings_per_instance = true /\ listeners_per_instance = true /\
  registry_closed = true /\ no_module_level_state = true.
Proof. vm_compute. repeat split; reflexivity. Qed.

(* nested evaluations, on the same or another parser, interposed at any fetch positions, to depth 2: every evaluation
   reads exactly the tokens of its own text (so yields its solo outcome) and leaves every older lexer object untouched *)
Theorem C03_nested_depth_1 : forall w p w' r, eval1 parse_uses_private_lexer w p = (w', r) -> keeps w w' /\ solo1 p r.
Proof. exact eval1_private. Qed.
Theorem C03_nested_depth_2 : forall w p w' r, eval2 parse_uses_private_lexer w p = (w', r) -> keeps w w' /\ solo2 p r.
Proof. exact eval2_private. Qed.
(* threads: under ANY schedule each evaluation has read a prefix of its own tokens, all of them once scheduled often enough *)
Theorem C03_threads_any_schedule : forall w sa sb sched a b, two_threads parse_uses_private_lexer w sa sb sched = (a, b) ->
  t_read a = firstn (count_occ Bool.bool_dec sched true) (lex_tokens sa) /\
  t_read b = firstn (count_occ Bool.bool_dec sched false) (lex_tokens sb).
Proof. exact threads_private. Qed.
(* the statements are false for the process-global lexer object (the defect repaired by fix 6d6fa5b) *)
Theorem C03_global_lexer_refuted :
  let p : plan1 := {| l_text := [49; 43; 50]%Z; l_nested := [(1, [51]%Z)] |} in
  l_read (snd (eval1 false w_init p)) <> lex_tokens (l_text p) /\ l_read (snd (eval1 true w_init p)) = lex_tokens (l_text p).
Proof. exact shared_lexer_refuted. Qed.
Theorem C03_global_lexer_threads_refuted :
  let '(a, b) := two_threads false w_init [49; 43; 50]%Z [51; 42; 52]%Z [true; false; true; false; true; false; true; false] in
  t_read a <> lex_tokens [49; 43; 50]%Z /\ t_read b <> lex_tokens [51; 42; 52]%Z.
Proof. exact threads_shared_refuted. Qed.

Print Assumptions C03_nested_depth_2.
Print Assumptions C03_threads_any_schedule.
Print Assumptions C03_global_lexer_refuted.
