# -*- coding: utf-8 -*-
"""C13 - date serial numbers.  Model: coq/Model/Serial.v (+Calendar.v).  Theorems: Properties/C13.v."""
import datetime
from fractions import Fraction

from common import Result, pmap, compare

ID = 'C13'
COQ_FILES = ['Properties/C13.v', 'Proofs/SerialProofs.v', 'Proofs/CalendarProofs.v', 'Proofs/CalendarCycle.v']
TRUSTED = [
    'modelled, not verified: CPython datetime (ordinal <-> y/m/d algorithms transcribed from _pydatetime.py and '
    'swept against date.fromordinal/toordinal by this check); timedelta arithmetic',
    'ideal arithmetic: the model computes serials as exact rationals (integer microseconds / 86400000000); the '
    'implementation computes them in float milliseconds.  Whole-day results are compared exactly; date-times with a '
    'time of day are compared to half a millisecond (the property says "to the millisecond"). IEEE rounding is '
    'validated by this comparison, not proved.',
]
EXPLANATION = ('Unbounded Coq theorems over Model/Serial.v (round trip for every date-time from 1900-01-01 at '
               'microsecond resolution, strict monotonicity, Excel 1900 offset from 1 March 1900, serial round trip '
               'for every serial >= 61, date+n and date-date) on top of the calendar bijection proved for all '
               'ordinals; tied to formulas/utils.py by a per-day correspondence (every day 1900..9999 in the '
               'thorough tier) of serialize_date and parse_date, millisecond date-times, and an independent oracle '
               'through Parser.parse (DATEVALUE, N, DAYS, date+n, date-date, comparisons).')
ASSUMPTIONS = ['date-times are naive datetimes between 1900-01-01 and 9999-12-31',
               'float rounding of sub-day serials is outside the model (compared with a 0.5 ms tolerance)']

DAY_US = 86400000000
D0 = datetime.date(1899, 12, 30).toordinal()
ORD_1900 = datetime.date(1900, 1, 1).toordinal()
ORD_MAR1 = datetime.date(1900, 3, 1).toordinal()
ORD_MAX = datetime.date(9999, 12, 31).toordinal()


def dt_tuple(t):
    return [t.year, t.month, t.day, t.hour, t.minute, t.second, t.microsecond]


# ---------------- implementation side ----------------
def _impl_serial(t):
    from hotxlfp.formulas import utils
    try:
        v = utils.serialize_date(datetime.datetime(*t))
    except Exception as e:  # noqa
        return ['EXC', type(e).__name__]
    return ['V', repr(v)]


def _impl_parse(S):
    """S in microsecond units; whole days are passed as ints (as DATEVALUE etc. produce them), others as floats."""
    from hotxlfp.formulas import utils, error
    x = S // DAY_US if S % DAY_US == 0 else S / DAY_US
    try:
        v = utils.parse_date(x)
    except Exception as e:  # noqa
        return ['EXC', type(e).__name__]
    if isinstance(v, error.XLError):
        return ['ERR', str(v)]
    return ['D'] + dt_tuple(v)


def eq_serial(model, impl):
    if impl[0] != 'V':
        return False
    S = model[0]
    got = Fraction(float(eval(impl[1]))) if not isinstance(eval(impl[1]), int) else Fraction(eval(impl[1]))
    exact = Fraction(S, DAY_US)
    if S % DAY_US == 0:
        return got == exact
    return abs(got - exact) <= Fraction(1, 2 * 86400000)     # half a millisecond, in days


def eq_parse(model, impl):
    if model == [0]:
        return impl == ['ERR', '#NUM!']
    if impl[0] != 'D':
        return False
    m = datetime.datetime(*model[1:8]) if 1 <= model[1] <= 9999 else None
    if m is None:
        return False
    i = datetime.datetime(*impl[1:8])
    return abs((m - i).total_seconds()) <= 0.0005


# ---------------- property oracle on the implementation ----------------
def check_day(o):
    """Oracle for the calendar day with ordinal o (midnight and noon), directly on utils."""
    from hotxlfp.formulas import utils
    out = []
    d = datetime.datetime.fromordinal(o)
    s = utils.serialize_date(d)
    back = utils.parse_date(s)
    if back != d:
        out.append(('serial of %s does not convert back' % d.date(), str(d), str(back)))
    if o < ORD_MAX:
        s1 = utils.serialize_date(datetime.datetime.fromordinal(o + 1))
        sn = utils.serialize_date(d + datetime.timedelta(hours=12))
        if not (s < sn < s1):
            out.append(('serials not strictly increasing at %s' % d.date(), 's(d) < s(d+12h) < s(d+1)', (s, sn, s1)))
    if o >= ORD_MAR1:
        if s != o - D0:
            out.append(('serial of %s is not the day count since 1899-12-30' % d.date(), o - D0, s))
        n = o - D0
        b = utils.serialize_date(utils.parse_date(n))
        if b != n:
            out.append(('serial %d does not convert to a date and back' % n, n, b))
    return out


def _check_day_block(block):
    bad = []
    for o in block:
        for (w, e, g) in check_day(o):
            bad.append((o, w, repr(e), repr(g)))
    return bad


def check_ms(t):
    """Oracle for one date-time (list of 7 ints) at millisecond resolution, and its successor millisecond."""
    from hotxlfp.formulas import utils
    out = []
    d = datetime.datetime(*t)
    s = utils.serialize_date(d)
    back = utils.parse_date(s)
    if not isinstance(back, datetime.datetime) or abs((back - d).total_seconds()) > 0.0005:
        out.append(('date-time does not survive serial conversion to the millisecond', str(d), str(back)))
    try:
        d2 = d + datetime.timedelta(milliseconds=1)
    except OverflowError:
        d2 = d
    if d2.year <= 9999 and d2 > d:
        s2 = utils.serialize_date(d2)
        if not s < s2:
            out.append(('serials of consecutive milliseconds not increasing', 's(t) < s(t+1ms)', (s, s2)))
    # the comparison operators see that serial: date-times one millisecond, one second, one minute apart are told apart
    import hotxlfp
    p = hotxlfp.Parser()
    p.set_variable('ta', d)
    p.set_variable('tc', datetime.datetime(*t))
    for k, step in enumerate((datetime.timedelta(milliseconds=1), datetime.timedelta(seconds=1), datetime.timedelta(seconds=61), datetime.timedelta(hours=1))):
        try:
            later = d + step
        except OverflowError:
            continue
        if later.year > 9999:
            continue
        p.set_variable('tb', later)
        got = tuple(p.parse(f)['result'] for f in ('ta<tb', 'ta=tb', 'ta>tb', 'ta<=tb', 'ta>=tb', 'ta<>tb', 'tb>ta', 'tb=ta'))
        if got != (True, False, False, True, False, True, True, False):
            out.append(('comparison operators on date-times %s apart (< = > <= >= <>, then reversed > =)' % step, (True, False, False, True, False, True, True, False), got))
            break
        # ... and so does subtraction: the days between them, time of day included
        days = step.total_seconds() / 86400.0
        if d < datetime.datetime(1900, 3, 1):
            continue        # before 1 March 1900 serials are not day counts (1 January 1900 00:00 is 0, the phantom 29 February)
        diff = (p.parse('tb-ta')['result'], p.parse('ta-tb')['result'])
        if not all(isinstance(x, (int, float)) and not isinstance(x, bool) for x in diff) or abs(diff[0] - days) > 6e-9 or abs(diff[1] + days) > 6e-9:
            out.append(('difference of date-times %s apart (later - earlier, earlier - later)' % step, (days, -days), diff))
            break
    if d >= datetime.datetime(1900, 3, 1) and (d.hour or d.minute or d.second or d.microsecond):
        whole = d.toordinal() - D0          # the integer serial of that day's midnight: strictly before d, its successor strictly after
        got = tuple(p.parse(f)['result'] for f in ('%d<ta' % whole, '%d=ta' % whole, 'ta>%d' % whole, '%d>ta' % (whole + 1), '%d>=ta' % whole, 'ta<>%d' % whole))
        if got != (True, False, True, True, False, True):
            out.append(('a whole-number serial against a date-time of that day (n<t, n=t, t>n, n+1>t, n>=t, t<>n)', (True, False, True, True, False, True), got))
    got = tuple(p.parse(f)['result'] for f in ('ta=tc', 'ta<tc', 'ta>=tc', 'ta=N(ta)', 'N(ta)<=ta'))
    if got != (True, False, True, True, True):
        out.append(('comparison operators on equal date-times / a date-time and its own serial', (True, False, True, True, True), got))
    if d >= datetime.datetime(1900, 3, 1):
        exact = Fraction(d.toordinal() - D0) + Fraction((d - datetime.datetime.fromordinal(d.toordinal())) // datetime.timedelta(microseconds=1), DAY_US)
        if abs(Fraction(s) - exact) > Fraction(1, 2 * 86400000):
            out.append(('serial is not days since 1899-12-30 plus the fraction of the day', float(exact), s))
    return out


def check_formulas(case):
    """Oracle through Parser.parse: case = [y, m, d, n, y2, m2, d2]."""
    import hotxlfp
    y, m, d, n, y2, m2, d2 = case
    p = hotxlfp.Parser()
    out = []
    o, o2 = datetime.date(y, m, d).toordinal(), datetime.date(y2, m2, d2).toordinal()
    D = 'DATE(%d,%d,%d)' % (y, m, d)
    D2 = 'DATE(%d,%d,%d)' % (y2, m2, d2)

    def res(f):
        r = p.parse(f)
        return r['result'] if r['error'] is None else r['error']
    serial = o - D0
    for f in ('DATEVALUE(%s)' % D, 'N(%s)' % D, 'DAYS(%s,DATE(1899,12,30)+0)' % D):
        pass
    for f, exp in (('DATEVALUE(%s)' % D, serial), ('N(%s)' % D, serial), ('%s+0' % D, datetime.datetime(y, m, d)),
                   ('%s=%d' % (D, serial), True), ('%s<%d' % (D, serial + 1), True), ('%s>%d' % (D, serial), False),
                   ('YEAR(%d)' % serial, y), ('MONTH(%d)' % serial, m), ('DAY(%d)' % serial, d)):
        got = res(f)
        if got != exp or (isinstance(exp, bool) != isinstance(got, bool)):
            out.append((f, exp, got))
    if ORD_MAR1 <= o + n <= ORD_MAX:
        exp = datetime.datetime.fromordinal(o + n)
        for f in ('%s+%d' % (D, n), '%d+%s' % (n, D), '%s-%d' % (D, -n) if n < 0 else '%s-(0-%d)' % (D, n)):
            got = res(f)
            if got != exp:
                out.append((f, exp, got))
    for f, exp in (('%s-%s' % (D, D2), o - o2), ('DAYS(%s,%s)' % (D, D2), o - o2),
                   ('%s<%s' % (D, D2), o < o2), ('%s=%s' % (D, D2), o == o2), ('%s>=%s' % (D, D2), o >= o2)):
        got = res(f)
        if got != exp or (isinstance(exp, bool) != isinstance(got, bool)):
            out.append((f, exp, got))
    return out


def check_case(case):
    vs = []
    if 'ordinal' in case:
        vs = [{'case': case, 'what': w, 'class': None, 'expected': e, 'observed': g} for (w, e, g) in check_day(case['ordinal'])]
    elif 'date' in case:
        t = case['date']
        vs = [{'case': case, 'what': w, 'class': None, 'expected': e, 'observed': g} for (w, e, g) in check_ms(t)]
        if t[3:] == [0, 0, 0, 0]:
            vs += [{'case': case, 'what': w, 'class': None, 'expected': e, 'observed': g}
                   for (w, e, g) in check_day(datetime.date(*t[:3]).toordinal())]
    elif 'formulas' in case:
        vs = [{'case': case, 'what': 'formula %s' % f, 'class': None, 'expected': repr(e), 'observed': repr(g)}
              for (f, e, g) in check_formulas(case['formulas'])]
    return vs


def _check_ms_worker(t):
    return [(t,) + x for x in check_ms(t)]


def _check_formulas_worker(c):
    return [(c,) + x for x in check_formulas(c)]


def day_ordinals(ctx):
    if ctx.thorough:
        return list(range(ORD_1900, ORD_MAX + 1)), True
    s = set(range(ORD_1900, datetime.date(1905, 1, 1).toordinal()))
    for y in list(range(1900, 10000, 100)) + [1904, 1996, 2000, 2004, 2023, 2024, 2100, 2400, 9999]:
        for (m, d) in ((1, 1), (2, 28), (3, 1), (12, 31)):
            o = datetime.date(y, m, d).toordinal()
            s.update(range(max(ORD_1900, o - 3), min(ORD_MAX, o + 3) + 1))
    s.update(range(ORD_1900, ORD_MAX + 1, 97))
    s.update(range(ORD_MAX - 400, ORD_MAX + 1))
    return sorted(s), False


def rand_dt(rng, lo=ORD_1900, hi=ORD_MAX, ms=True):
    o = rng.randint(lo, hi)
    d = datetime.date.fromordinal(o)
    h, mi, s = rng.randrange(24), rng.randrange(60), rng.randrange(60)
    us = rng.randrange(1000) * 1000 if ms else rng.randrange(1000000)
    if rng.random() < 0.1:
        h, mi, s, us = rng.choice([(0, 0, 0, 0), (23, 59, 59, 999000), (12, 0, 0, 0), (0, 0, 0, 1000), (0, 0, 1, 0)])
    return [d.year, d.month, d.day, h, mi, s, us]


def explore(ctx):
    R = Result()
    rng = ctx.rng
    ords, exhaustive = day_ordinals(ctx)
    R.exhaustive = exhaustive
    days = [dt_tuple(datetime.datetime.fromordinal(o)) for o in ords]
    # 1. correspondence: serialize_date on every selected day (exact) and on date-times (0.5 ms)
    compare(R, ctx, 'serial', days, lambda t: t, _impl_serial, key=tuple, eq=eq_serial)
    nms = 200000 if ctx.thorough else 6000
    dts = [rand_dt(rng) for _ in range(nms)] + [rand_dt(rng, ORD_1900, ORD_1900 + 70) for _ in range(nms // 10)]
    dts += [rand_dt(rng, ms=False) for _ in range(nms // 10)]
    # the first days of the system (serial 0 / 1, the phantom 29 February) and the last one, at several times of day
    for (y, mo, d_) in ((1900, 1, 1), (1900, 1, 2), (1900, 2, 28), (1900, 3, 1), (1900, 3, 2), (9999, 12, 31), (1969, 12, 31), (1970, 1, 1)):
        for tm in ((0, 0, 0, 0), (0, 0, 0, 1000), (6, 0, 0, 0), (12, 0, 0, 0), (22, 15, 30, 0), (23, 59, 59, 999000)):
            dts.append([y, mo, d_] + list(tm))
    compare(R, ctx, 'serial', dts, lambda t: t, _impl_serial, key=tuple, eq=eq_serial)
    # 2. correspondence: parse_date on whole serials and fractional serials
    if ctx.thorough:
        serials = list(range(-2, ORD_MAX - D0 + 1))
    else:
        serials = sorted(set(list(range(-2, 2000)) + [o - D0 for o in ords if o - D0 >= 61]))
    compare(R, ctx, 'parse_serial', [n * DAY_US for n in serials], lambda S: [S], _impl_parse, key=None, eq=eq_parse)
    frac = [rng.randrange(-DAY_US, 70 * DAY_US) // 1000 * 1000 for _ in range(nms // 10)] + \
           [rng.randrange(61 * DAY_US, (ORD_MAX - D0) * DAY_US) // 1000 * 1000 for _ in range(nms // 4)]
    compare(R, ctx, 'parse_serial', frac, lambda S: [S], _impl_parse, key=None, eq=eq_parse)
    # 3. property oracle on the implementation: every selected day, ms date-times, formulas
    B = 2048
    for bad in pmap(_check_day_block, [ords[i:i + B] for i in range(0, len(ords), B)], limit=120.0):
        for (o, w, e, g) in bad:
            R.violate({'ordinal': o}, w, None, e, g)
    R.evaluations += len(ords)
    for vs in pmap(_check_ms_worker, dts):
        for (t, w, e, g) in vs:
            R.violate({'date': t}, w, None, repr(e), repr(g))
    R.evaluations += len(dts)
    fcases = []
    special = [(1900, 3, 1), (1900, 3, 2), (1900, 12, 31), (2000, 2, 29), (2024, 2, 29), (9999, 12, 31), (2100, 3, 1)]
    for _ in range(20000 if ctx.thorough else 1500):
        a = datetime.date.fromordinal(rng.randint(ORD_MAR1, ORD_MAX)) if rng.random() < 0.8 else datetime.date(*rng.choice(special))
        b = datetime.date.fromordinal(rng.randint(ORD_MAR1, ORD_MAX)) if rng.random() < 0.8 else datetime.date(*rng.choice(special))
        n = rng.choice([0, 1, -1, 2, 7, 28, 29, 30, 31, 59, 60, 61, 365, 366, -365, 1000, 36524, -36525]) \
            if rng.random() < 0.5 else rng.randint(-100000, 100000)
        fcases.append([a.year, a.month, a.day, n, b.year, b.month, b.day])
    fcases.append([1900, 3, 1, 1, 1900, 3, 2])
    for vs in pmap(_check_formulas_worker, fcases):
        for x in vs:
            c, f, e, g = x
            R.violate({'formulas': c}, 'formula %s' % f, None, repr(e), repr(g))
    R.evaluations += len(fcases)
    R.rule = ('days: %s; every day is checked at midnight against the model (exact) and by the oracle (round trip, '
              'strict increase vs noon and next day, Excel offset, serial round trip); millisecond date-times '
              '(random over 1900..9999, dense in Jan-Mar 1900, boundary times of day) vs model to 0.5 ms and oracle; '
              'whole and fractional serials through parse_date; formulas DATEVALUE/N/DAYS/+n/-/comparisons/'
              'YEAR/MONTH/DAY(serial) through Parser.parse. distinct_nontrivial = distinct inputs per entry point.'
              % ('all 2958464 days 1900-01-01..9999-12-31' if exhaustive else
                 'all of 1900-1904, +-3 days around every century/leap boundary, stride 97, last 400 days'))
    R.extra['input_distribution'].update({'days': len(ords), 'ms_datetimes': len(dts), 'whole_serials': len(serials),
                                          'fractional_serials': len(frac), 'formula_cases': len(fcases)})
    return R


def search(ctx, proof, res):
    """Failing-input search after a broken proof/correspondence: replay the disagreeing inputs through the
    oracle, then every day of 1900-1905 and a wide random stream."""
    R = Result()
    rng = ctx.rng
    for d in res.disagreements:
        c = d['case']
        if isinstance(c, list) and len(c) == 7:
            for (w, e, g) in check_ms(c):
                R.violate({'date': c}, w, None, repr(e), repr(g))
        elif isinstance(c, int):
            n = c // DAY_US
            if 61 <= n <= ORD_MAX - D0:
                for (w, e, g) in check_day(n + D0):
                    R.violate({'ordinal': n + D0}, w, None, repr(e), repr(g))
    ords = list(range(ORD_1900, ORD_1900 + 2200)) + [rng.randint(ORD_1900, ORD_MAX) for _ in range(200000)]
    for bad in pmap(_check_day_block, [ords[i:i + 2048] for i in range(0, len(ords), 2048)], limit=120.0):
        for (o, w, e, g) in bad:
            R.violate({'ordinal': o}, w, None, e, g)
    dts = [rand_dt(rng) for _ in range(100000)] + [rand_dt(rng, ORD_1900, ORD_1900 + 3) for _ in range(2000)]
    for vs in pmap(_check_ms_worker, dts):
        for (t, w, e, g) in vs:
            R.violate({'date': t}, w, None, repr(e), repr(g))
    R.evaluations = len(ords) + len(dts)
    return R
