(* C12: logical functions are truth-functional; type predicates classify values. *)
From HX Require Import Model.Value Model.Logic Proofs.ValueProofs.
From Coq Require Import Lia.
Open Scope Z_scope.

(* truth values: TRUE and non-zero numbers true; FALSE, zero and blank false *)
Lemma truthy_spec :
  truthy (VBool true) = true /\ truthy (VBool false) = false /\ truthy VBlank = false /\
  (forall z, truthy (VInt z) = negb (z =? 0)) /\ (forall q, truthy (VFlt q) = negb (Qnum q =? 0)).
Proof. repeat split; reflexivity. Qed.
Lemma truthy_flt_zero q : truthy (VFlt q) = false <-> (q == 0)%Q.
Proof. cbn. unfold q_is_zero, Qeq. cbn. rewrite negb_false_iff, Z.eqb_eq. lia. Qed.

Definition no_errors (l : list value) : Prop := Forall (fun v => is_err v = false) l.

(* AND / OR / XOR over the flattened arguments *)
Theorem AND_truth args : no_errors (flatten_args args) ->
  fn_AND args = Ret (VBool (forallb truthy (flatten_args args))).
Proof. intros H. unfold fn_AND. apply first_error_none in H. rewrite H. reflexivity. Qed.
Theorem AND_true_iff args : no_errors (flatten_args args) ->
  (fn_AND args = Ret (VBool true) <-> forall v, In v (flatten_args args) -> truthy v = true).
Proof.
  intros H. rewrite (AND_truth args H). rewrite <- forallb_forall.
  split; [intros E; inversion E; reflexivity|intros ->; reflexivity].
Qed.
Theorem OR_truth args : no_errors (flatten_args args) ->
  fn_OR args = Ret (VBool (existsb truthy (flatten_args args))).
Proof. intros H. unfold fn_OR. apply first_error_none in H. rewrite H. reflexivity. Qed.
Theorem OR_true_iff args : no_errors (flatten_args args) ->
  (fn_OR args = Ret (VBool true) <-> exists v, In v (flatten_args args) /\ truthy v = true).
Proof.
  intros H. rewrite (OR_truth args H). rewrite <- existsb_exists.
  split; [intros E; inversion E; reflexivity|intros ->; reflexivity].
Qed.
Theorem XOR_parity args : no_errors (flatten_args args) ->
  fn_XOR args = Ret (VBool (Nat.odd (count_true (flatten_args args)))).
Proof. intros H. unfold fn_XOR. apply first_error_none in H. rewrite H. reflexivity. Qed.
Lemma count_true_app a b : count_true (a ++ b) = (count_true a + count_true b)%nat.
Proof. unfold count_true. rewrite filter_app, app_length. reflexivity. Qed.
Lemma count_true_cons v l : count_true (v :: l) = ((if truthy v then 1 else 0) + count_true l)%nat.
Proof. unfold count_true. cbn [filter]. destruct (truthy v); reflexivity. Qed.
(* parity: adding a true item flips XOR, adding a false one keeps it *)
Theorem XOR_step v l : Nat.odd (count_true (v :: l)) = xorb (truthy v) (Nat.odd (count_true l)).
Proof.
  rewrite count_true_cons. destruct (truthy v); [|cbn [Nat.add xorb]; destruct (Nat.odd _); reflexivity].
  change (1 + count_true l)%nat with (S (count_true l)). rewrite Nat.odd_succ, <- Nat.negb_odd. destruct (Nat.odd _); reflexivity.
Qed.

(* nesting / regrouping of the arguments is irrelevant *)
Theorem AND_regroup a l b : fn_AND (a ++ VList l :: b) = fn_AND (a ++ l ++ b).
Proof. unfold fn_AND. rewrite flatten_args_group. reflexivity. Qed.
Theorem OR_regroup a l b : fn_OR (a ++ VList l :: b) = fn_OR (a ++ l ++ b).
Proof. unfold fn_OR. rewrite flatten_args_group. reflexivity. Qed.
Theorem XOR_regroup a l b : fn_XOR (a ++ VList l :: b) = fn_XOR (a ++ l ++ b).
Proof. unfold fn_XOR. rewrite flatten_args_group. reflexivity. Qed.

(* an error among the tested values is the result (the first one) *)
Theorem AND_OR_XOR_error args pre post e : flatten_args args = pre ++ VErr e :: post -> no_errors pre ->
  fn_AND args = Ret (VErr e) /\ fn_OR args = Ret (VErr e) /\ fn_XOR args = Ret (VErr e).
Proof.
  intros E H. unfold fn_AND, fn_OR, fn_XOR. rewrite E, first_error_app.
  apply first_error_none in H. rewrite H. repeat split; reflexivity.
Qed.

Theorem NOT_truth v : is_err v = false -> fn_NOT [v] = Ret (VBool (negb (truthy v))).
Proof. destruct v; cbn; try reflexivity; discriminate. Qed.
Theorem NOT_error e : fn_NOT [VErr e] = Ret (VErr e).
Proof. reflexivity. Qed.

Theorem IF_spec c a b : is_err c = false -> fn_IF [c; a; b] = Ret (if truthy c then a else b).
Proof. destruct c; cbn; try reflexivity; discriminate. Qed.
Theorem IF_error e a b : fn_IF [VErr e; a; b] = Ret (VErr e).
Proof. reflexivity. Qed.

Fixpoint pairs_of (l : list value) : list (value * value) :=
  match l with c :: v :: r => (c, v) :: pairs_of r | _ => [] end.
(* IFS: the value paired with the first true condition, else #N/A; an error condition met first wins *)
Lemma pairs_of_cons args c v ps : pairs_of args = (c, v) :: ps -> exists r, args = c :: v :: r /\ pairs_of r = ps.
Proof. destruct args as [|c1 [|v1 r]]; try discriminate. cbn. intros E. inversion E; subst. eauto. Qed.
Lemma pairs_of_nil args : pairs_of args = [] -> fn_IFS_aux args = VErr ENA /\ forall t, switch_scan t args = None.
Proof. destruct args as [|c1 [|v1 r]]; try discriminate; split; reflexivity. Qed.
Lemma IFS_aux_step c v r : is_err c = false -> fn_IFS_aux (c :: v :: r) = if truthy c then v else fn_IFS_aux r.
Proof. destruct c; try discriminate; reflexivity. Qed.

Theorem IFS_first_true args pre c v post :
  pairs_of args = pre ++ (c, v) :: post ->
  Forall (fun p => is_err (fst p) = false /\ truthy (fst p) = false) pre ->
  is_err c = false -> truthy c = true -> fn_IFS args = Ret v.
Proof.
  unfold fn_IFS. revert args. induction pre as [|[c0 v0] pre IH]; intros args E F Hc Ht.
  - apply pairs_of_cons in E. destruct E as (r & -> & _). rewrite IFS_aux_step, Ht by exact Hc. reflexivity.
  - cbn [app] in E. apply pairs_of_cons in E. destruct E as (r & -> & E).
    inversion F as [|? ? [F1 F2] F']; subst. cbn [fst] in *. rewrite IFS_aux_step, F2 by exact F1.
    apply IH; assumption.
Qed.
Theorem IFS_none args :
  Forall (fun p => is_err (fst p) = false /\ truthy (fst p) = false) (pairs_of args) -> fn_IFS args = Ret (VErr ENA).
Proof.
  unfold fn_IFS. remember (pairs_of args) as ps eqn:E. intros F. revert args E.
  induction F as [|[c0 v0] ps [F1 F2] F IH]; intros args E.
  - symmetry in E. apply pairs_of_nil in E. destruct E as [-> _]. reflexivity.
  - symmetry in E. apply pairs_of_cons in E. destruct E as (r & -> & E). cbn [fst] in *.
    rewrite IFS_aux_step, F2 by exact F1. apply IH. symmetry. exact E.
Qed.
Theorem IFS_error args pre e v post :
  pairs_of args = pre ++ (VErr e, v) :: post ->
  Forall (fun p => is_err (fst p) = false /\ truthy (fst p) = false) pre -> fn_IFS args = Ret (VErr e).
Proof.
  unfold fn_IFS. revert args. induction pre as [|[c0 v0] pre IH]; intros args E F.
  - apply pairs_of_cons in E. destruct E as (r & -> & _). reflexivity.
  - cbn [app] in E. apply pairs_of_cons in E. destruct E as (r & -> & E).
    inversion F as [|? ? [F1 F2] F']; subst. cbn [fst] in *. rewrite IFS_aux_step, F2 by exact F1.
    apply IH; assumption.
Qed.

(* SWITCH: result paired with the first case equal to the target, else the default, else #N/A *)
Lemma switch_scan_found t ps pre c v post : pairs_of ps = pre ++ (c, v) :: post ->
  Forall (fun p => py_eq t (fst p) = false) pre -> py_eq t c = true -> switch_scan t ps = Some v.
Proof.
  revert ps. induction pre as [|[c0 v0] pre IH]; intros ps E F Hc.
  - apply pairs_of_cons in E. destruct E as (r & -> & _). cbn [switch_scan]. rewrite Hc. reflexivity.
  - cbn [app] in E. apply pairs_of_cons in E. destruct E as (r & -> & E). inversion F as [|? ? F1 F']; subst.
    cbn [fst] in *. cbn [switch_scan]. rewrite F1. apply IH; assumption.
Qed.
Lemma switch_scan_none t ps : Forall (fun p => py_eq t (fst p) = false) (pairs_of ps) -> switch_scan t ps = None.
Proof.
  remember (pairs_of ps) as l eqn:E. intros F. revert ps E. induction F as [|[c0 v0] l F1 F IH]; intros ps E.
  - symmetry in E. apply pairs_of_nil in E. destruct E as [_ E]. apply E.
  - symmetry in E. apply pairs_of_cons in E. destruct E as (r & -> & E). cbn [fst] in *. cbn [switch_scan].
    rewrite F1. apply IH. symmetry. exact E.
Qed.
Lemma pairs_of_even_app ps d : Nat.even (length ps) = true -> pairs_of (ps ++ [d]) = pairs_of ps.
Proof.
  revert ps. fix IH 1. intros [|c [|v r]] H; try reflexivity; try discriminate.
  cbn [app pairs_of]. f_equal. apply IH. exact H.
Qed.

(* with case/result pairs ps (even length) and no default *)
Theorem SWITCH_no_default t ps : (2 <= length ps)%nat -> Nat.even (length ps) = true ->
  fn_SWITCH (t :: ps) = match switch_scan t ps with Some v => Ret v | None => Ret (VErr ENA) end.
Proof.
  intros L E. unfold fn_SWITCH. destruct (Nat.leb_spec (length ps) 1); [lia|].
  rewrite <- Nat.negb_even, E. cbn [negb]. destruct (switch_scan t ps); reflexivity.
Qed.
(* with case/result pairs ps (even length) followed by a default d *)
Theorem SWITCH_default t ps d : (2 <= length ps)%nat -> Nat.even (length ps) = true ->
  fn_SWITCH (t :: ps ++ [d]) = match switch_scan t ps with Some v => Ret v | None => Ret d end.
Proof.
  intros L E. unfold fn_SWITCH. rewrite app_length. cbn [length].
  destruct (Nat.leb_spec (length ps + 1) 1); [lia|].
  replace (length ps + 1)%nat with (S (length ps)) by lia. rewrite Nat.odd_succ, E.
  rewrite removelast_last, last_last. destruct (switch_scan t ps); reflexivity.
Qed.

(* ---------- predicates ---------- *)
Definition kind_count (v : value) : nat :=
  (if p_ISNUMBER v then 1 else 0) + (if p_ISTEXT v then 1 else 0) + (if p_ISLOGICAL v then 1 else 0) +
  (if p_ISBLANK v then 1 else 0) + (if p_ISERROR v then 1 else 0).
Theorem predicates_exclusive v : (kind_count v <= 1)%nat.
Proof. destruct v; cbn; lia. Qed.
Theorem predicates_exact v :
  (p_ISNUMBER v = true <-> (exists z, v = VInt z) \/ (exists q, v = VFlt q)) /\
  (p_ISTEXT v = true <-> exists s, v = VText s) /\
  (p_ISLOGICAL v = true <-> exists b, v = VBool b) /\
  (p_ISBLANK v = true <-> v = VBlank) /\
  (p_ISERROR v = true <-> exists e, v = VErr e).
Proof.
  destruct v; cbn; repeat split; intros H; try discriminate; try reflexivity; eauto;
    try (destruct H as [[? H]|[? H]]; discriminate); try (destruct H as [? H]; discriminate).
Qed.
Theorem ISNONTEXT_negation v : p_ISNONTEXT v = negb (p_ISTEXT v).
Proof. reflexivity. Qed.
Theorem ISERROR_split v : p_ISERROR v = p_ISERR v || p_ISNA v.
Proof. destruct v as [| | | | |e| |]; try reflexivity. destruct e; reflexivity. Qed.
Theorem ISERR_ISNA_disjoint v : p_ISERR v && p_ISNA v = false.
Proof. destruct v as [| | | | |e| |]; try reflexivity. destruct e; reflexivity. Qed.

Theorem parity_complementary v z : int_part v = Some z ->
  fn_ISEVEN v = VBool (Z.even z) /\ fn_ISODD v = VBool (negb (Z.even z)).
Proof. intros H. unfold fn_ISEVEN, fn_ISODD. rewrite H, Z.negb_even. split; reflexivity. Qed.
Theorem parity_of_integer z : fn_ISEVEN (VInt z) = VBool (z mod 2 =? 0) /\ fn_ISODD (VInt z) = VBool (z mod 2 =? 1).
Proof.
  unfold fn_ISEVEN, fn_ISODD. cbn [int_part]. split; f_equal.
  - rewrite Zmod_even. destruct (Z.even z); reflexivity.
  - rewrite Zmod_odd. destruct (Z.odd z); reflexivity.
Qed.
Theorem parity_integer_part q : int_part (VFlt q) = Some (Z.quot (Qnum q) (QDen q)).
Proof. reflexivity. Qed.
Theorem parity_non_number v : int_part v = None -> fn_ISEVEN v = VErr EVALUE /\ fn_ISODD v = VErr EVALUE.
Proof. intros H. unfold fn_ISEVEN, fn_ISODD. rewrite H. split; reflexivity. Qed.
